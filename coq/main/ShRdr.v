From Coq Require Import List ZArith Lia Bool.
Import ListNotations.
Require Import Base Tree Rdr Link Collect LP Rules Leaf3e RdrBound L2Kind L2CC BSDef BSRdr BSRdr2 BSTree BSOcp.
Open Scope Z_scope.

(* ---- `current` is idempotent ---- *)
Lemma curNode_keep r : r_src (snd (curNode r)) = r_src r /\ r_pos (snd (curNode r)) = r_pos r /\ r_vpos (snd (curNode r)) = r_vpos r.
Proof. unfold curNode. cbv zeta. destruct (_ <? 0); repeat split. Qed.
Definition curVal (r : reader) : Z :=
  if okind (fst (curNode r)) =? IndentKind then 32
  else if at_ (r_src r) (r_pos r) =? 0 then nullRepl (r_vpos r) else at_ (r_src r) (r_pos r).
Lemma current_in r : r_pos r < len (r_src r) -> current r = (curVal r, snd (curNode r)).
Proof.
  intros L. unfold current, curVal. destruct (Z.leb_spec (len (r_src r)) (r_pos r)); [lia|].
  destruct (curNode r) as [n r']. cbn [fst snd]. destruct (okind n =? IndentKind); [reflexivity|]. destruct (_ =? 0); reflexivity.
Qed.
Lemma current_out r : len (r_src r) <= r_pos r -> current r = (0, r).
Proof. intros L. unfold current. destruct (Z.leb_spec (len (r_src r)) (r_pos r)); [reflexivity|lia]. Qed.
Lemma current_idem r : fst (current (snd (current r))) = fst (current r).
Proof.
  destruct (Z.le_gt_cases (len (r_src r)) (r_pos r)) as [L|L].
  - rewrite (current_out r L). cbn [fst snd]. rewrite (current_out r L). reflexivity.
  - rewrite (current_in r ltac:(lia)). cbn [fst snd]. destruct (curNode_keep r) as (E1 & E2 & E3).
    rewrite current_in by (rewrite E1, E2; lia). cbn [fst]. unfold curVal. rewrite curNode_idem, E1, E2, E3. reflexivity.
Qed.

Definition isWs := isSpaceTabOrLineEnding.
Lemma sptab_ws c : isWs c = false -> isSpTab c = false.
Proof. unfold isWs, isSpaceTabOrLineEnding, isSpTab. intros H. apply orb_false_iff in H. destruct H as [H _]. apply orb_false_iff in H. tauto. Qed.

Lemma skipSpacesAndTabs_true : forall f r, fst (skipSpacesAndTabs f r) = true ->
  fst (current (snd (skipSpacesAndTabs f r))) <> 0 /\ isSpTab (fst (current (snd (skipSpacesAndTabs f r)))) = false.
Proof.
  induction f as [|f IH]; intros r; [cbn; discriminate|]. cbn [skipSpacesAndTabs].
  pose proof (current_idem r) as Hi. destruct (current r) as [c r1]. cbn [fst snd] in Hi.
  destruct (isSpTab c) eqn:Es.
  - destruct (next r1) as [ok r2]. destruct ok; [apply IH|cbn; discriminate].
  - cbn [fst snd]. intros H. apply negb_true_iff, Z.eqb_neq in H. rewrite Hi. split; assumption.
Qed.

(* readEOL reports -1 only in front of a byte that is neither blank nor the end of input *)
Lemma readEOL_shape f r :
  (fst (readEOL f r) = -1 /\ fst (current (snd (readEOL f r))) <> 0 /\ isWs (fst (current (snd (readEOL f r)))) = false) \/
  fst (readEOL f r) = r_pos (snd (readEOL f r)) \/ fst (readEOL f r) = r_prev (snd (readEOL f r)) + 1.
Proof.
  unfold readEOL. pose proof (skipSpacesAndTabs_true f r) as Hs. destruct (skipSpacesAndTabs f r) as [ok r1]. cbn [fst snd] in Hs.
  destruct ok; cbn [negb]; [|right; left; reflexivity]. destruct (Hs eq_refl) as [N0 Nst]. clear Hs.
  pose proof (current_idem r1) as Hi. destruct (current r1) as [c r2]. cbn [fst snd] in *.
  destruct (Z.eqb_spec c 13) as [E13|N13].
  - destruct (next r2) as [ok2 r3]. destruct (negb ok2); [right; right; reflexivity|].
    destruct (current r3) as [c2 r4]. destruct (c2 =? 10); [destruct (next r4) as [? r5]|]; right; right; reflexivity.
  - destruct (Z.eqb_spec c 10) as [E10|N10]; [destruct (next r2) as [? r3]; right; right; reflexivity|].
    left. cbn [fst snd]. rewrite Hi. split; [reflexivity|split; [exact N0|]].
    unfold isWs, isSpaceTabOrLineEnding. unfold isSpTab in Nst. apply orb_false_iff in Nst. destruct Nst as [A B]. rewrite A, B.
    cbn [orb]. apply orb_false_iff. split; apply Z.eqb_neq; assumption.
Qed.

Lemma skipLinkSpace_true f r : fst (current r) <> 0 -> isWs (fst (current r)) = false -> fst (skipLinkSpace f r) = true.
Proof.
  intros N0 Nw. unfold skipLinkSpace. pose proof (current_idem r) as Hi. destruct (current r) as [c r1]. cbn [fst snd] in *.
  destruct (Z.eqb_spec c 0); [contradiction|]. destruct f as [|f]; [reflexivity|]. cbn [skipLinkSpace_loop].
  destruct (current r1) as [c' r1']. cbn [fst] in Hi. subst c'. unfold isWs in Nw. rewrite Nw. reflexivity.
Qed.

(* ---- what onCloseParagraph returns ---- *)
(* every result is closed and childless; it is a definition, or the rest of the original (kind, level and end kept, start at most B) *)
Definition okRes (K n e B : Z) (y : block) : Prop :=
  0 <= bend y /\ bkids y = [] /\
  (bkind y = LinkReferenceDefinitionKind \/ (bkind y = K /\ bn y = n /\ bend y = e /\ 0 <= bstart y <= B)).

Lemma okRes_refDef K n e B s d kids : 0 <= d -> okRes K n e B (refDefBlock s d kids).
Proof. intros H. unfold okRes, refDefBlock. cbn. repeat split; [exact H|left; reflexivity]. Qed.
Lemma cut_keep orig pos ik : bkind (set_bik (set_bstart orig pos) ik) = bkind orig /\ bn (set_bik (set_bstart orig pos) ik) = bn orig.
Proof. destruct orig; split; reflexivity. Qed.

Section Ocp.
  Variables (K n e B : Z).
  Hypothesis He : 0 <= e.
  Hypothesis HB : -1 <= B.
  Notation RBb := (RB B).
  Notation ok := (okRes K n e B).

  Lemma snoc_ok result x : allP ok result -> ok x -> allP ok (result ++ [x]).
  Proof. intros A Hx. apply allP_app. split; [exact A|split; [exact Hx|exact I]]. Qed.

  Lemma ocp_res : forall fuel rfuel src orig r result,
    bkids orig = [] -> bend orig = e -> bkind orig = K -> bn orig = n -> 0 <= bstart orig -> bstart orig <= r_pos r -> bstart orig <= B ->
    good r -> RBb r -> allP ok result -> allP ok (ocp_loop fuel rfuel src orig None r result).
  Proof.
    induction fuel as [|f IH]; intros rfuel src orig r result Hk Hen HK Hn H0 Hp HsB Hg HR Hres.
    assert (Hso : ok orig) by (unfold okRes; rewrite Hen, Hk; repeat split; try assumption; right; repeat split; assumption).
    { cbn [ocp_loop]. apply snoc_ok; assumption. }
    assert (Hso : ok orig) by (unfold okRes; rewrite Hen, Hk; repeat split; try assumption; right; repeat split; assumption).
    assert (Hkeep : allP ok (result ++ [orig])) by (apply snoc_ok; assumption).
    cbn [ocp_loop]. cbv zeta.
    destruct (parseLinkLabel_spec rfuel r Hg) as (Hg1 & Ha1 & Hv1). pose proof (RB_parseLinkLabel B rfuel r HR) as HR1.
    destruct (parseLinkLabel rfuel r) as [[lspan linner] r1]. cbn [fst snd] in Hg1, Ha1, Hv1, HR1.
    destruct (negb (spanValid lspan)) eqn:Ev; [exact Hkeep|]. apply negb_false_iff in Ev. destruct (Hv1 Ev) as [Es L1]. clear Hv1.
    set (s := fst lspan) in *.
    assert (Hs0 : 0 <= s) by (rewrite Es; lia).
    destruct (good_current' r1 Hg1) as [Hg2 Ha2]. pose proof (RB_current B r1 HR1) as HR2.
    destruct (current r1) as [c r2]. cbn [snd] in Hg2, Ha2, HR2. destruct (negb (c =? 58)); [exact Hkeep|].
    destruct (good_next' r2 Hg2) as [Hg3 Ha3]. pose proof (RB_next' B r2 HR2) as HR3.
    destruct (next r2) as [? r3]. cbn [snd] in Hg3, Ha3, HR3.
    destruct (good_skipLinkSpace rfuel r3 Hg3) as [Hg4 Ha4]. pose proof (RB_skipLinkSpace B rfuel r3 HR3) as HR4.
    destruct (skipLinkSpace rfuel r3) as [ok1 r4]. cbn [snd] in Hg4, Ha4, HR4. destruct (negb ok1); [exact Hkeep|].
    destruct (good_parseLinkDestination rfuel r4 Hg4) as [Hg5 Ha5]. pose proof (RB_parseLinkDestination B rfuel r4 HR4) as HR5.
    destruct (parseLinkDestination rfuel r4) as [[dspan dtext] r5]. cbn [snd] in Hg5, Ha5, HR5.
    destruct (negb (spanValid dspan)); [exact Hkeep|].
    assert (L5 : LB s r5).
    { rewrite Es. eapply LB_adv; [|exact Ha5]. eapply LB_adv; [|exact Ha4]. eapply LB_adv; [|exact Ha3]. eapply LB_adv; [|exact Ha2]. exact L1. }
    destruct (readEOL_spec rfuel r5 Hg5) as (Hg6 & Ha6 & _). pose proof (RB_readEOL B HB rfuel r5 HR5) as [HR6 _].
    pose proof (readEOL_shape rfuel r5) as Hsh.
    destruct (readEOL rfuel r5) as [destEOL r6]. cbn [fst snd] in Hg6, Ha6, HR6, Hsh.
    assert (L6 : LB s r6) by (eapply LB_adv; eassumption).
    destruct (good_current' r6 Hg6) as [Hg7 Ha7]. pose proof (RB_current B r6 HR6) as HR7. pose proof (current_idem r6) as Hi6.
    destruct (current r6) as [c6 r7]. cbn [fst snd] in Hg7, Ha7, HR7, Hi6, Hsh.
    destruct (_ && _ && _); [exact Hkeep|].
    set (labelInline := Inl LinkLabelKind _ _ 0 _ _). set (destInline := Inl LinkDestinationKind _ _ 0 [] _).
    destruct (good_skipLinkSpace rfuel r7 Hg7) as [Hg8 Ha8]. pose proof (RB_skipLinkSpace B rfuel r7 HR7) as HR8.
    pose proof (skipLinkSpace_true rfuel r7) as Hsl. rewrite Hi6 in Hsl.
    destruct (skipLinkSpace rfuel r7) as [ok2 r8]. cbn [fst snd] in Hg8, Ha8, HR8, Hsl.
    assert (Hd0 : ok2 = false \/ (destEOL <? 0) = false -> 0 <= destEOL).
    { intros Hc. destruct Hsh as [(E1 & N0 & Nw)|[E1|E1]]; [|destruct L6; lia|destruct L6; lia].
      destruct Hc as [Hc|Hc]; [rewrite (Hsl N0 Nw) in Hc; discriminate|apply Z.ltb_ge in Hc; exact Hc]. }
    destruct ok2; cbn [negb].
    2:{ apply snoc_ok; [exact Hres|apply okRes_refDef, Hd0; left; reflexivity]. }
    destruct (good_parseLinkTitle rfuel r8 Hg8) as [Hg9 Ha9]. pose proof (RB_parseLinkTitle B rfuel r8 HR8) as HR9.
    destruct (parseLinkTitle rfuel r8) as [[tspan ttext] r9]. cbn [snd] in Hg9, Ha9, HR9.
    assert (P6 : s <= r_pos r6) by apply L6.
    assert (Hcut6 : forall ik', let o := set_bik (set_bstart orig (r_pos r6)) ik' in
              bkids o = [] /\ bend o = e /\ bkind o = K /\ bn o = n /\ 0 <= bstart o /\ bstart o <= r_pos r6 /\ bstart o <= B).
    { intros ik' o. destruct (cut_fields orig (r_pos r6) ik') as (A & B0 & C). destruct (cut_keep orig (r_pos r6) ik') as (D & E).
      fold o in A, B0, C, D, E. rewrite A, B0, C, D, E. destruct HR6 as (_ & Q & _). repeat split; try assumption; lia. }
    destruct (negb (spanValid tspan)).
    { destruct (destEOL <? 0) eqn:Ed; [exact Hkeep|]. destruct (nodeIndexForPosition (bik orig) (r_pos r6) <? 0).
      - apply snoc_ok; [exact Hres|apply okRes_refDef, Hd0; right; reflexivity].
      - destruct (Hcut6 (from_ (bik orig) (nodeIndexForPosition (bik orig) (r_pos r6)))) as (C1 & C2 & C3 & C4 & C5 & C6 & C7).
        apply IH; try assumption. apply snoc_ok; [exact Hres|apply okRes_refDef, Hd0; right; reflexivity]. }
    assert (L9 : LB s r9).
    { eapply LB_adv; [|exact Ha9]. eapply LB_adv; [|exact Ha8]. eapply LB_adv; [|exact Ha7]. exact L6. }
    destruct (readEOL_spec rfuel r9 Hg9) as (Hg10 & Ha10 & _). pose proof (RB_readEOL B HB rfuel r9 HR9) as [HR10 _].
    destruct (readEOL rfuel r9) as [titleEOL r10]. cbn [fst snd] in Hg10, Ha10, HR10.
    assert (L10 : LB s r10) by (eapply LB_adv; eassumption).
    destruct (titleEOL <? 0) eqn:Et.
    { destruct (destEOL <? 0) eqn:Ed; [exact Hkeep|]. destruct (nodeIndexForPosition (bik orig) (r_pos r6) <? 0).
      - apply snoc_ok; [exact Hres|apply okRes_refDef, Hd0; right; reflexivity].
      - destruct (Hcut6 (from_ (bik orig) (nodeIndexForPosition (bik orig) (r_pos r6)))) as (C1 & C2 & C3 & C4 & C5 & C6 & C7).
        rewrite app_assoc. apply snoc_ok; [apply snoc_ok; [exact Hres|apply okRes_refDef, Hd0; right; reflexivity]|].
        unfold okRes. rewrite C1, C2, C3, C4. repeat split; try assumption. right. repeat split; assumption. }
    apply Z.ltb_ge in Et.
    set (titleInline := Inl LinkTitleKind _ _ 0 [] _).
    destruct (nodeIndexForPosition (bik orig) (r_pos r10) <? 0); [apply snoc_ok; [exact Hres|apply okRes_refDef, Et]|].
    destruct (cut_fields orig (r_pos r10) (from_ (bik orig) (nodeIndexForPosition (bik orig) (r_pos r10)))) as (C1 & C2 & C3).
    destruct (cut_keep orig (r_pos r10) (from_ (bik orig) (nodeIndexForPosition (bik orig) (r_pos r10)))) as (C4 & C5).
    destruct L10 as [L10a L10b]. pose proof HR10 as (_ & Q10 & _).
    apply IH; try assumption; rewrite ?C1, ?C2, ?C3, ?C4, ?C5; try assumption; try lia.
    apply snoc_ok; [exact Hres|apply okRes_refDef, Et].
  Qed.
End Ocp.

(* the start of the run *)
Lemma ocp_res_start K n e B rfuel src b1 : 0 <= e -> 0 <= B -> bkids b1 = [] -> bend b1 = e -> bkind b1 = K -> bn b1 = n -> 0 <= bstart b1 ->
  ascI (bstart b1) B (bik b1) ->
  forall first rest, bik b1 = first :: rest ->
  allP (okRes K n e B) (ocp_loop (S (length (bik b1))) rfuel src b1 None (newReader src (bik b1) (istart first)) []).
Proof.
  intros He HB Hk Hen HK Hn H0 Ha first rest Eb.
  assert (Hf : bstart b1 <= istart first /\ istart first <= B).
  { pose proof (ascI_all _ _ _ first Ha ltac:(rewrite Eb; left; reflexivity)). lia. }
  apply ocp_res; try assumption; try lia.
  - cbn [r_pos newReader]. lia.
  - split; [cbn [r_spans newReader]; eapply ascI_sorted; exact Ha|left; cbn [r_prev r_pos newReader]; lia].
  - unfold RB, newReader. cbn [r_spans r_pos r_prev]. split; [|lia].
    apply Forall_forall. intros x Hx. pose proof (ascI_all _ _ _ x Ha Hx). unfold spanOK. lia.
  - exact I.
Qed.
