From Coq Require Import List ZArith Lia Bool.
Import ListNotations.
Require Import Base Tree Rdr Link Collect LP Rules Rec17 Rec18 L2Kind L2CC BSDef BSRdr BSTree BSOrph BSClose LADef LA1 LA2.
Open Scope Z_scope.

(* ===== link reference definitions, the trivial case: a source without '[' holds no definition ===== *)

Lemma at_In (l : bytes) i c : at_ l i = c -> c <> 0 -> In c l.
Proof.
  unfold at_. destruct (i <? 0); [intros <- N; contradiction|]. intros <- N.
  destruct (Nat.lt_ge_cases (Z.to_nat i) (length l)) as [L|L]; [apply nth_In, L|rewrite nth_overflow in N by exact L; contradiction].
Qed.
Lemma current_no91 r : ~ In 91 (r_src r) -> fst (current r) <> 91.
Proof.
  intros Hn. unfold current. destruct (Z.leb_spec (len (r_src r)) (r_pos r)); [unfold fst; lia|]. destruct (curNode r) as [n r']. cbv beta iota.
  destruct (okind n =? IndentKind); [unfold fst; lia|].
  destruct (at_ (r_src r) (r_pos r) =? 0) eqn:E0; unfold fst.
  - unfold nullRepl. destruct (r_vpos r =? 0); [discriminate|]. destruct (r_vpos r =? 1); discriminate.
  - intros E. apply Hn. eapply at_In; [exact E|lia].
Qed.
Lemma ocp_no_bracket fuel rfuel src orig r result : ~ In 91 (r_src r) -> ocp_loop (S fuel) rfuel src orig None r result = result ++ [orig].
Proof.
  intros Hn. cbn [ocp_loop]. cbv zeta. unfold parseLinkLabel. pose proof (current_no91 r Hn) as Hc. destruct (current r) as [c r0]. cbn [fst] in Hc.
  replace (c =? 91) with false by (symmetry; apply Z.eqb_neq; exact Hc). cbn [negb]. reflexivity.
Qed.

Theorem OcpLoopSpec_no_bracket src : ~ In 91 src -> OcpLoopSpec src.
Proof.
  intros Hn e b1 first rest Hk He HK Hel Hbe H0 Ht Hf Hio Eb. unfold ocpRun. rewrite ocp_no_bracket by (cbn [r_src newReader]; exact Hn). cbn [app].
  split.
  - split; [|exact I]. apply la_leaf_closed; [exact Hk|lia|lia|lia|rewrite He; exact Hbe|]. unfold isParaK in HK.
    assert (Hl : isLeafK (bkind b1) = true) by (unfold isLeafK; apply orb_true_iff in HK; destruct HK as [HK|HK]; rewrite HK; rewrite ?orb_true_r; reflexivity).
    rewrite body_leaf by exact Hl. rewrite hiOf_closed by lia. rewrite He. split; [assumption|split; [assumption|intros _; exact Hio]].
  - apply tchain_one; rewrite ?He; try lia; apply NT_empty; lia.
Qed.
Print Assumptions OcpLoopSpec_no_bracket.
