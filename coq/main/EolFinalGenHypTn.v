From Coq Require Import List ZArith Lia Bool.
Import ListNotations.
Require Import Base Tree Rdr Link Collect Html Recog LP Rules Starts Driver Rec16 Rec17 Rec18 L2Kind L2CC ShEnv GramTree GramLP GramLP2
  EolCRLFSimTree EolCRLFSimFuelWf EolFinalDefs EolFinalSimBytes EolFinalSimTree EolFinalGenOcp EolFinalGenTree EolFinalSimStreamBase.
Require L2Kind2 EolGenRdrMain.
Open Scope Z_scope.

(* C14 (i), final newline: no root-level block is ever a list marker (single run, every input). *)

Definition TN (p : lp) : Prop := topNoLM (bkids (root p)) = true.
Definition kp (f : block -> block) : Prop := forall x, bkind x <> ListMarkerKind -> bkind (f x) <> ListMarkerKind.

Lemma topNoLM_app a b : topNoLM (a ++ b) = topNoLM a && topNoLM b. Proof. apply forallb_app. Qed.
Lemma topNoLM_sub a b : (forall x, In x b -> In x a) -> topNoLM a = true -> topNoLM b = true. Proof. apply forallb_sub. Qed.
Lemma topNoLM_In K x : topNoLM K = true -> In x K -> bkind x <> ListMarkerKind.
Proof. intros H Hx. unfold topNoLM in H. rewrite forallb_forall in H. specialize (H x Hx). apply negb_true_iff, Z.eqb_neq in H. exact H. Qed.
Lemma topNoLM_one x : bkind x <> ListMarkerKind -> topNoLM [x] = true.
Proof. intros H. unfold topNoLM. cbn [forallb]. replace (bkind x =? ListMarkerKind) with false by (symmetry; apply Z.eqb_neq; exact H). reflexivity. Qed.

Lemma tn_set_lastBlocks r l : topNoLM (bkids r) = true -> topNoLM l = true -> topNoLM (bkids (set_lastBlocks r l)) = true.
Proof.
  intros H Hl. unfold set_lastBlocks. replace (bkids (set_bkids r (removelast (bkids r) ++ l))) with (removelast (bkids r) ++ l) by (destruct r; reflexivity).
  rewrite topNoLM_app, Hl, andb_true_r. revert H. apply topNoLM_sub. intros x. apply removelast_In.
Qed.
Lemma tn_updAt f : kp f -> forall d r, (d = O -> topNoLM (bkids (f r)) = true) -> topNoLM (bkids r) = true -> topNoLM (bkids (updAt d f r)) = true.
Proof.
  intros Hf d r H0 H. destruct d as [|d]; [apply H0; reflexivity|]. cbn [updAt]. destruct (lastBlock r) as [c|] eqn:El; [|exact H].
  apply tn_set_lastBlocks; [exact H|]. apply topNoLM_one. pose proof (topNoLM_In _ c H (lastBlock_In r c El)) as Hc.
  destruct d as [|d]; [apply Hf, Hc|]. rewrite bkind_updAt; [exact Hc|discriminate].
Qed.

Lemma TN_same p p' : same_tree p p' -> TN p -> TN p'. Proof. intros [E _]. unfold TN. rewrite E. tauto. Qed.
Lemma TN_updCont p f : kp f -> (cdepth p = O -> topNoLM (bkids (root p)) = true -> topNoLM (bkids (f (root p))) = true) -> TN p -> TN (updCont p f).
Proof. intros Hf H0 H. unfold TN, updCont. cbn [root withRoot setLP]. apply tn_updAt; [exact Hf|intros E; apply H0; assumption|exact H]. Qed.
Lemma TN_updCont_keep p f : (forall x, bkind (f x) = bkind x /\ bkids (f x) = bkids x) -> TN p -> TN (updCont p f).
Proof. intros Hf H. apply TN_updCont; [intros x Hx; rewrite (proj1 (Hf x)); exact Hx|intros _ Hr; rewrite (proj2 (Hf (root p))); exact Hr|exact H]. Qed.

Lemma bkind_onCloseList2 b : bkind (onCloseList b) = bkind b.
Proof. unfold onCloseList. cbv zeta. match goal with |- context [if ?c then _ else _] => destruct c end; [destruct b; reflexivity|reflexivity]. Qed.
Lemma closeBlock_noLM src e : forall fuel c x, bkind c <> ListMarkerKind -> In x (closeBlock fuel src c e) -> bkind x <> ListMarkerKind.
Proof.
  intros fuel c x Nc Hx. destruct fuel as [|f]; [destruct Hx as [<-|[]]; exact Nc|]. cbn [closeBlock] in Hx.
  destruct (negb (isOpen c)); [destruct Hx as [<-|[]]; exact Nc|]. cbv zeta in Hx.
  assert (A : forall y, bkind (match lastBlock y with Some c0 => set_lastBlocks y (closeBlock f src c0 e) | None => y end) = bkind y) by (intros y; destruct (lastBlock y); [apply bkind_set_lastBlocks|reflexivity]).
  assert (B : bkind (set_bend c e) = bkind c) by apply bkind_set_bend.
  destruct (_ =? ListKind); [destruct Hx as [<-|[]]; rewrite A, bkind_onCloseList2, B; exact Nc|].
  destruct (_ =? IndentedCodeBlockKind); [destruct Hx as [<-|[]]; rewrite A, bkind_onCloseIndented, B; exact Nc|].
  destruct (_ || _).
  { destruct (EolGenRdrMain.onCloseParagraph_kinds src _ x Hx) as [E|[E|E]]; rewrite E; [rewrite B; exact Nc|discriminate|discriminate]. }
  destruct Hx as [<-|[]]. rewrite A, B. exact Nc.
Qed.

Definition closeFx (h : nat) (src : bytes) (e : Z) (b : block) : block :=
  match lastBlock b with Some c => set_lastBlocks b (closeBlock h src c e) | None => b end.
Lemma kp_closeFx h src e : kp (closeFx h src e).
Proof. intros x Hx. unfold closeFx. destruct (lastBlock x); [rewrite bkind_set_lastBlocks; exact Hx|exact Hx]. Qed.
Lemma tn_closeFx h src e r : True -> topNoLM (bkids r) = true -> topNoLM (bkids (closeFx h src e r)) = true.
Proof.
  intros N H. unfold closeFx. destruct (lastBlock r) as [c|] eqn:El; [|exact H]. apply tn_set_lastBlocks; [exact H|].
  unfold topNoLM. rewrite forallb_forall. intros x Hx. apply negb_true_iff, Z.eqb_neq. apply (closeBlock_noLM src e h c x (topNoLM_In _ c H (lastBlock_In r c El)) Hx).
Qed.

Definition TNP (p : lp) : Prop := TN p /\ True.
Lemma TNP_same p p' : same_tree p p' -> envOf p' = envOf p -> TNP p -> TNP p'.
Proof. intros Hs He [A B]. split; [eapply TN_same; eassumption|exact I]. Qed.
Lemma TNP_opened p : TNP p -> TNP (if state p =? stOpening then withState p stOpenMatched else p). Proof. intros H. destruct (_ =? _); exact H. Qed.
Lemma TNP_advance p n : TNP p -> TNP (advance p n). Proof. apply TNP_same; [apply same_advance|apply env_advance]. Qed.
Lemma TNP_consumeLine p : TNP p -> TNP (consumeLine p). Proof. apply TNP_same; [apply same_consumeLine|apply env_consumeLine]. Qed.
Lemma TNP_consumeIndent p n : TNP p -> TNP (consumeIndent p n). Proof. apply TNP_same; [apply same_consumeIndent|apply env_consumeIndent]. Qed.
Lemma TNP_keep p f : (forall x, bkind (f x) = bkind x /\ bkids (f x) = bkids x) -> TNP p -> TNP (updCont p f).
Proof. intros Hf [A B]. split; [apply TN_updCont_keep; assumption|exact B]. Qed.
Lemma TNP_closeLastChildAt p d e : TNP p -> TNP (closeLastChildAt p d e).
Proof.
  intros [A B]. split; [|exact B]. unfold TN, closeLastChildAt. cbn [root withRoot setLP]. fold (closeFx (bheight (root p)) (source p) e).
  apply tn_updAt; [apply kp_closeFx|intros _; apply tn_closeFx; assumption|exact A].
Qed.
Lemma TNP_openBlock_up : forall fuel p K, TNP p -> TNP (openBlock_up fuel p K).
Proof.
  induction fuel as [|f IH]; intros p K H; [exact H|]. cbn [openBlock_up]. destruct (canContain _ _); [exact H|]. destruct (cdepth p); [exact H|].
  apply IH. apply (TNP_closeLastChildAt p n (lineStart p) H).
Qed.
Lemma bkids_set_bkids_l b l : bkids (set_bkids b l) = l. Proof. destruct b; reflexivity. Qed.
Lemma kp_appendB nb : kp (fun b => set_bkids b (bkids b ++ [nb])). Proof. intros x Hx. rewrite bkind_set_bkids. exact Hx. Qed.
Lemma TNP_openBlock p K : TNP p -> K <> ListMarkerKind -> TNP (openBlock p K).
Proof.
  intros H NK. unfold openBlock. destruct (_ || _); [exact H|]. cbv zeta.
  match goal with |- TNP (withCont ?q _) => change (TNP q) end.
  assert (H3 : TNP (closeLastChildAt (openBlock_up (S (cdepth (if state p =? stOpening then withState p stOpenMatched else p))) (if state p =? stOpening then withState p stOpenMatched else p) K)
                   (cdepth (openBlock_up (S (cdepth (if state p =? stOpening then withState p stOpenMatched else p))) (if state p =? stOpening then withState p stOpenMatched else p) K))
                   (lineStart (openBlock_up (S (cdepth (if state p =? stOpening then withState p stOpenMatched else p))) (if state p =? stOpening then withState p stOpenMatched else p) K))))
    by (apply TNP_closeLastChildAt, TNP_openBlock_up, TNP_opened, H).
  destruct H3 as [A B]. split; [|exact B]. apply TN_updCont; [apply kp_appendB| |exact A].
  intros _ Hr. cbv beta. rewrite bkids_set_bkids_l.
  rewrite topNoLM_app, Hr. apply topNoLM_one. exact NK.
Qed.
(* a list marker is opened below the root: inside the item that was opened just before *)
Lemma TNP_openBlock_deep p K : TNP p -> st_open p -> canContain (containerKind p) K = true -> (1 <= cdepth p)%nat -> TNP (openBlock p K).
Proof.
  intros H Hs Hc Hd. rewrite (openBlock_eq p K Hs), (obPre_stay p K Hc).
  match goal with |- TNP (withCont ?q _) => change (TNP q) end.
  pose proof (TNP_closeLastChildAt _ (cdepth p) (lineStart p) (TNP_opened p H)) as [A B]. split; [|exact B].
  unfold TN, updCont. cbn [root withRoot setLP].
  assert (Ed : cdepth (closeLastChildAt (if state p =? stOpening then withState p stOpenMatched else p) (cdepth p) (lineStart p)) = cdepth p) by (destruct (state p =? stOpening); reflexivity).
  rewrite Ed. apply tn_updAt; [apply kp_appendB|intros E; lia|exact A].
Qed.
Lemma TNP_endBlock p : TNP p -> TNP (endBlock p).
Proof.
  intros H. unfold endBlock. destruct (_ || _); [exact H|]. cbv zeta. destruct (cdepth _) eqn:Ed; [destruct (state p =? stOpening); exact H|].
  match goal with |- TNP (withCont ?q _) => change (TNP q) end. apply TNP_closeLastChildAt, TNP_opened, H.
Qed.
Lemma TNP_collectInline p kind n : TNP p -> TNP (collectInline p kind n).
Proof.
  intros H. unfold collectInline. destruct (_ =? stDescendTerminated); [exact H|]. cbv zeta.
  apply TNP_keep; [intros x; destruct x; split; reflexivity|]. apply TNP_advance.
  destruct (0 <? _); [|apply TNP_opened, H]. apply TNP_keep; [intros x; destruct x; split; reflexivity|]. apply TNP_advance, TNP_opened, H.
Qed.

Lemma TNP_matchRule p : TNP p -> TNP (snd (matchRule p)).
Proof.
  intros H. unfold matchRule. cbv zeta. destruct (_ || _); [exact H|].
  destruct (_ =? ListItemKind).
  { unfold matchListItem. destruct (isRestBlank p); [destruct (negb _); [exact H|apply TNP_consumeIndent, H]|]. destruct (_ <=? _); [apply TNP_consumeIndent, H|exact H]. }
  destruct (_ =? BlockQuoteKind).
  { unfold matchBlockQuote. cbv zeta. destruct (_ <=? _); [exact H|]. destruct (negb _); [exact H|]. cbn [snd]. unfold eatQuoteMarker. cbv zeta.
    destruct (0 <? _); repeat first [apply TNP_consumeIndent|apply TNP_advance]; exact H. }
  destruct (_ =? FencedCodeBlockKind).
  { unfold matchFenced. cbv zeta. destruct (if _ <? _ then _ else false); cbn [snd]; [apply TNP_consumeLine|apply TNP_consumeIndent]; exact H. }
  destruct (_ =? IndentedCodeBlockKind).
  { unfold matchIndented. cbv zeta. destruct (_ <? _); [destruct (negb _)|]; cbn [snd]; try apply TNP_consumeIndent; exact H. }
  destruct (_ =? HTMLBlockKind); [|exact H].
  unfold matchHTML. destruct (htmlEnd _ _); [|exact H]. destruct (isRestBlank _); [exact H|]. cbn [snd]. apply TNP_consumeLine, TNP_collectInline, H.
Qed.
Lemma TNP_descend_loop : forall fuel p d, TNP p -> TNP (snd (descend_loop fuel p d)).
Proof.
  induction fuel as [|f IH]; intros p d H; [exact H|]. cbn [descend_loop]. cbv zeta.
  destruct (getAt (S d) (root p)) as [c|]; [|exact H]. destruct (negb (isOpen c)); [exact H|]. destruct (negb (hasMatch _)); [exact H|].
  pose proof (TNP_matchRule (withState (withCont p (Some (S d))) stDescending) H) as H2. destruct (matchRule _) as [ok p2]. cbn [snd] in H2.
  destruct (state p2 =? stDescendTerminated); [cbn [snd]; apply (TNP_closeLastChildAt p2 d _ H2)|]. destruct (negb ok); [exact H2|]. apply IH, H2.
Qed.

Ltac tn H :=
  repeat match goal with
  | |- TNP (consumeLine _) => apply TNP_consumeLine
  | |- TNP (endBlock _) => apply TNP_endBlock
  | |- TNP (advance _ _) => apply TNP_advance
  | |- TNP (consumeIndent _ _) => apply TNP_consumeIndent
  | |- TNP (collectInline _ _ _) => apply TNP_collectInline
  | |- TNP (openBlock _ _) => apply TNP_openBlock; [|discriminate]
  | |- TNP (updCont _ _) => apply TNP_keep; [intros ?x; destruct x; split; reflexivity|]
  end;
  try exact H.

Definition startTN (f : lp -> lp) : Prop := forall p, st_open p -> ccP p -> TNP p -> TNP (f p).
Lemma blockStarts_TN : Forall startTN blockStarts.
Proof.
  unfold blockStarts.
  apply Forall_cons. { intros p Hs Hc H. unfold startBlockQuote. cbv zeta. destruct (_ <=? _); [exact H|]. destruct (negb _); [exact H|]. destruct (0 <? _); tn H. }
  apply Forall_cons. { intros p Hs Hc H. unfold startATX. cbv zeta. destruct (_ <=? _); [exact H|]. destruct (parseATXHeading _) as [[level cs] ce]. destruct (level <? 1); [exact H|]. tn H. }
  apply Forall_cons. { intros p Hs Hc H. unfold startFenced. cbv zeta. destruct (_ <=? _); [exact H|]. destruct (parseCodeFence _) as [[[fc fnn] is_] ie]. destruct (fnn =? 0); [exact H|].
                       apply TNP_consumeLine. destruct (spanValid _); tn H. }
  apply Forall_cons. { intros p Hs Hc H. unfold startHTML. cbv zeta. destruct (_ <=? _); [exact H|]. destruct (negb _); [exact H|]. destruct (_ <? 0); [exact H|]. destruct (negb _ && _); [exact H|].
                       destruct (htmlEnd _ _); tn H. }
  apply Forall_cons.
  { intros p Hs Hc H. unfold startSetext. cbv zeta. destruct (negb (containerKind p =? ParagraphKind)) eqn:Ek; [exact H|].
    do 3 (match goal with |- TNP (if ?c then _ else _) => destruct c end; [exact H|]).
    apply TNP_endBlock, TNP_consumeLine. destruct H as [A B]. split; [|exact B]. apply TN_updCont; [| |exact A].
    - intros x Hx. destruct x; discriminate.
    - intros _ Hr. destruct (root p); exact Hr. }
  apply Forall_cons. { intros p Hs Hc H. unfold startThematic. cbv zeta. destruct (_ <=? _); [exact H|]. destruct (_ <? 0); [exact H|]. tn H. }
  apply Forall_cons.
  { intros p Hs Hc H. unfold startListItem. cbv zeta. destruct (_ <=? _); [exact H|].
    destruct (parseListMarker _) as [[delim n] mend]. destruct (_ || _); [exact H|]. destruct (_ && _); [exact H|].
    set (p1 := consumeIndent p (indent p)).
    assert (H1 : ccP p1 /\ st_open p1 /\ TNP p1) by (split; [apply ccP_consumeIndent, Hc|split; [apply st_open_consumeIndent, Hs|apply TNP_consumeIndent, H]]).
    destruct H1 as (C1 & S1 & T1). clearbody p1.
    set (cdelim := if (containerKind p1 =? ListKind) || (containerKind p1 =? ListItemKind) then bchar (contBlock p1) else 0).
    set (p2 := if negb (containerKind p1 =? ListKind) || negb (cdelim =? delim) then _ else p1).
    assert (H2 : ccP p2 /\ containerKind p2 = ListKind /\ st_open p2 /\ TNP p2).
    { unfold p2. destruct (negb (containerKind p1 =? ListKind) || negb (cdelim =? delim)) eqn:Ec.
      - assert (Hq : ccP (updCont (openBlock p1 ListKind) (fun b => set_bchar b delim))).
        { apply ccP_updCont; [|intros x _ Hx; rewrite cc_set_bchar, bkind_set_bchar; tauto]. apply ccP_openBlock; [exact C1|left; discriminate]. }
        split; [exact Hq|split; [|split]].
        + apply containerKind_of; [exact Hq|]. apply ckind_updCont; [intros b; apply bkind_set_bchar|]. apply ckind_openBlock, S1.
        + apply st_open_updCont, L2Kind2.st_open_openBlock, S1.
        + tn T1.
      - apply orb_false_iff in Ec. destruct Ec as [Ec _]. apply negb_false_iff, Z.eqb_eq in Ec. tauto. }
    destruct H2 as (C2 & K2 & S2 & T2). clearbody p2.
    assert (C3 : ccP (updCont (openBlock p2 ListItemKind) (fun b => set_bchar b delim))).
    { apply ccP_updCont; [|intros x _ Hx; rewrite cc_set_bchar, bkind_set_bchar; tauto]. apply ccP_openBlock; [exact C2|right; rewrite K2; reflexivity]. }
    assert (S3 : st_open (updCont (openBlock p2 ListItemKind) (fun b => set_bchar b delim))) by (apply st_open_updCont, L2Kind2.st_open_openBlock, S2).
    assert (T3 : TNP (updCont (openBlock p2 ListItemKind) (fun b => set_bchar b delim))) by tn T2.
    assert (K3 : containerKind (updCont (openBlock p2 ListItemKind) (fun b => set_bchar b delim)) = ListItemKind).
    { apply containerKind_of; [exact C3|]. apply ckind_updCont; [intros b; apply bkind_set_bchar|]. apply ckind_openBlock, S2. }
    assert (D3 : (1 <= cdepth (updCont (openBlock p2 ListItemKind) (fun b => set_bchar b delim)))%nat) by (rewrite cdepth_updCont, (cdepth_openBlock _ _ S2); lia).
    set (p3 := updCont (openBlock p2 ListItemKind) (fun b => set_bchar b delim)) in *. clearbody p3.
    assert (T4 : TNP (openBlock p3 ListMarkerKind)) by (apply TNP_openBlock_deep; [exact T3|exact S3|rewrite K3; reflexivity|exact D3]).
    match goal with |- context [endBlock ?X] => assert (T6 : TNP (endBlock X)) by (apply TNP_endBlock, TNP_advance, T4) end.
    match goal with |- context [endBlock ?X] => set (q := endBlock X) in * end. clearbody q.
    destruct (isRestBlank q); [tn T6|]. destruct (indent q <? 1); [tn T6|]. destruct (4 <? indent q); tn T6. }
  apply Forall_cons. { intros p Hs Hc H. unfold startIndented. destruct (_ || _ || _); [exact H|]. tn H. }
  apply Forall_nil.
Qed.
Lemma TNP_tryStarts : forall fs p, Forall startTN fs -> Forall startOKc fs -> ccP p -> TNP p -> TNP (snd (tryStarts fs p)) /\ ccP (snd (tryStarts fs p)).
Proof.
  induction fs as [|f r IH]; intros p Hfs Hcs Hc H; [split; assumption|]. cbn [tryStarts]. cbv zeta.
  inversion Hfs as [|? ? Hf Hr]; subst. inversion Hcs as [|? ? Hcf Hcr]; subst.
  assert (H1 : TNP (f (withState p stOpening))) by (apply Hf; [left; reflexivity|exact Hc|exact H]).
  assert (C1 : ccP (f (withState p stOpening))) by (apply Hcf; [left; reflexivity|exact Hc]).
  destruct (_ || _); [split; assumption|]. apply IH; assumption.
Qed.
Lemma TNP_opening_loop : forall fuel p, ccP p -> TNP p -> TNP (snd (opening_loop fuel p)).
Proof.
  induction fuel as [|f IH]; intros p Hc H; [exact H|]. cbn [opening_loop]. destruct (_ || _); [|exact H].
  destruct (TNP_tryStarts blockStarts p blockStarts_TN blockStarts_okc Hc H) as [H1 C1]. destruct (tryStarts blockStarts p) as [[|] p1]; cbn [snd] in H1, C1.
  - destruct (_ =? stLineConsumed); [exact H1|apply IH; assumption].
  - exact H1.
Qed.
Lemma TNP_deferredClose p : TNP p -> TNP (deferredClose p).
Proof. intros H. unfold deferredClose. cbv zeta. destruct (_ && _); [exact H|apply TNP_closeLastChildAt, H]. Qed.
Lemma tn_closeDoc src e : True -> forall fuel c, bkind c = documentKind -> topNoLM (bkids c) = true ->
  topNoLM (bkids (hd c (closeBlock fuel src c e))) = true.
Proof.
  intros N fuel c Hk H. destruct fuel as [|f]; [exact H|]. cbn [closeBlock]. destruct (negb (isOpen c)); [exact H|]. cbv zeta.
  rewrite bkind_set_bend, Hk. change (documentKind =? ListKind) with false. change (documentKind =? IndentedCodeBlockKind) with false.
  change ((documentKind =? ParagraphKind) || (documentKind =? SetextHeadingKind)) with false. cbv iota. cbn [hd].
  fold (closeFx f src e (set_bend c e)). apply tn_closeFx; [exact N|]. destruct c; exact H.
Qed.
Lemma TNP_openNewBlocks p am : ccP p -> TNP p -> TNP (snd (openNewBlocks p am)).
Proof.
  intros Hc H. unfold openNewBlocks. destruct (_ =? 0).
  - cbn [snd]. destruct H as [A B]. split; [|exact B]. unfold TN. cbn [root withCont withRoot setLP].
    apply tn_closeDoc; [exact B|exact (proj1 Hc)|exact A].
  - pose proof (TNP_opening_loop (S (length (line p))) p Hc H) as H1. destruct (opening_loop _ p) as [ht p1]. cbn [snd] in H1.
    destruct am; cbn [snd]; [exact H1|apply TNP_deferredClose, H1].
Qed.

Lemma kp_set_blast v : kp (fun b => set_blast b v). Proof. intros x Hx. destruct x; exact Hx. Qed.
Lemma tn_setLastBlank v : forall d rt, topNoLM (bkids rt) = true -> topNoLM (bkids (setLastBlankUpTo d v rt)) = true.
Proof.
  assert (Step : forall d rt, topNoLM (bkids rt) = true -> topNoLM (bkids (updAt d (fun b => set_blast b v) rt)) = true).
  { intros d rt H. apply tn_updAt; [apply kp_set_blast|intros _; destruct rt; exact H|exact H]. }
  induction d as [|d IH]; intros rt H; cbn [setLastBlankUpTo]; [apply Step, H|apply IH, Step, H].
Qed.
Definition blankF' : block -> block := fun b => match lastBlock b with Some c => set_lastBlocks b [set_blast c true] | None => b end.
Lemma kp_blankF' : kp blankF'.
Proof. intros x Hx. unfold blankF'. destruct (lastBlock x); [rewrite bkind_set_lastBlocks; exact Hx|exact Hx]. Qed.
Lemma TNP_blankF p : TNP p -> TNP (updCont p blankF').
Proof.
  intros [A B]. split; [|exact B]. apply TN_updCont; [apply kp_blankF'| |exact A]. intros _ Hr. unfold blankF'.
  destruct (lastBlock (root p)) as [c|] eqn:El; [|exact Hr]. apply tn_set_lastBlocks; [exact Hr|]. apply topNoLM_one.
  pose proof (topNoLM_In _ c Hr (lastBlock_In _ c El)) as Hc. destruct c; exact Hc.
Qed.
Lemma TNP_go p : TNP p -> TNP (
    let k := containerKind p in
    let inlineKind := if isCode k then TextKind else if k =? HTMLBlockKind then RawHTMLKind else UnparsedKind in
    let p0 := updCont p (fun b => set_bik b (bik b ++ [mkI inlineKind (lineStart p + li p) (lineStart p + len (line p))])) in
    if isCode k && negb (hasByteSuffixEOL (line p0)) then
      updCont p0 (fun b => set_bik b (bik b ++ [mkI SoftLineBreakKind (lineStart p0 + len (line p0)) (lineStart p0 + len (line p0))]))
    else p0).
Proof. intros H. cbv zeta. destruct (_ && _); tn H. Qed.
Lemma TNP_addLineText p : TNP p -> TNP (addLineText p).
Proof.
  intros H. unfold addLineText. cbv zeta. fold blankF'.
  set (pa := if isRestBlank p then updCont p blankF' else p).
  assert (Ha : TNP pa) by (unfold pa; destruct (isRestBlank p); [apply TNP_blankF, H|exact H]). clearbody pa.
  match goal with |- context [setLastBlankUpTo (cdepth pa) ?v (root pa)] => set (llb := v) end.
  assert (Hb : TNP (withRoot pa (setLastBlankUpTo (cdepth pa) llb (root pa)))).
  { destruct Ha as [A B]. split; [|exact B]. unfold TN. cbn [root withRoot setLP]. apply tn_setLastBlank, A. }
  set (pb := withRoot pa _) in *. clearbody pb.
  destruct (acceptsLines _).
  - match goal with |- context [if ?c then consumeIndent ?x ?n else pb] => set (cnd := c); set (pi := x) end.
    set (pc := if cnd then consumeIndent pi (tabRem pi) else pb).
    assert (Hc : TNP pc) by (unfold pc, pi; destruct cnd; tn Hb). clearbody pc. apply (TNP_go pc Hc).
  - destruct (negb (isRestBlank p)); [|exact Hb].
    apply (TNP_go (consumeIndent (openBlock pb ParagraphKind) (indent (openBlock pb ParagraphKind)))). tn Hb.
Qed.

Theorem tn_processLine st K ls src : ccF K = true -> topNoLM K = true -> topNoLM (fst (fst (processLine st K ls src))) = true.
Proof.
  intros Hc H. pose proof I as N. unfold processLine. cbv zeta. set (p0 := resetLP st K ls src).
  assert (C0 : ccP p0) by (unfold ccP, wf, p0, resetLP, cdepth; cbn [root container]; split; [reflexivity|split; [exact Hc|eexists; reflexivity]]).
  assert (T0 : TNP p0) by (split; [exact H|exact N]).
  assert (S1 : ccP (snd (descendOpenBlocks p0)) /\ TNP (snd (descendOpenBlocks p0))).
  { unfold descendOpenBlocks. split; [apply ccP_descend_loop; [exact C0|eexists; reflexivity]|apply TNP_descend_loop, T0]. }
  destruct (descendOpenBlocks p0) as [am p1]. cbn [snd] in S1. destruct S1 as [C1 T1].
  destruct (negb (state p1 =? stDescendTerminated)); [|cbn [fst]; exact (proj1 T1)].
  pose proof (TNP_openNewBlocks p1 am C1 T1) as T2. destruct (openNewBlocks p1 am) as [ht p2]. cbn [snd] in T2.
  destruct ht; cbn [fst]; [exact (proj1 (TNP_addLineText p2 T2))|exact (proj1 T2)].
Qed.
Print Assumptions tn_processLine.
