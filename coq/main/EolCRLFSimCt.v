From Coq Require Import List ZArith Lia Bool.
Import ListNotations.
Require Import Base Tree LP Rules Starts Driver L2CC L2Bnd L2BndS BSDef BSTree BSLine10 BlockSpans.
Require Import EolCRLFSimLeDefs EolCRLFSimStream EolCRLFSimCtDef EolCRLFSimCtStream.
Open Scope Z_scope.

(* Interface for the two-run simulation (EolCRLFSimAll.v, Section All): the stream invariant SJx of EolCRLFSimCtStream and the
   line-entry conditions with the argument order  st children ls s ns  (st is not constrained). *)
Definition LEy (st : Z) (ch : list block) (ls : Z) (s : bpst) (ns : bool) : Prop := LEx ls s ns ch.

Lemma LEy_basic : forall st ch ls s ns, LEy st ch ls s ns -> 0 <= ls <= len (buf s) /\ bi s = lineEnd (buf s) ls.
Proof. intros st ch ls s ns (A & B & _). split; assumption. Qed.

Lemma X_step : forall st ch ls s ns, LEy st ch ls s ns ->
  exists ns', SJx s (fst (fst (processLine st ch ls (upto (buf s) (bi s))))) ns' /\
    (makeRoot (fst (fst (processLine st ch ls (upto (buf s) (bi s))))) s = None ->
     LEy (snd (fst (processLine st ch ls (upto (buf s) (bi s))))) (fst (fst (processLine st ch ls (upto (buf s) (bi s))))) (bi s)
         {| buf := buf s; bi := lineEnd (buf s) (bi s); boff := boff s; bline := bline s; pending := pending s |} ns').
Proof.
  intros st ch ls s ns HL. pose proof (SJx_step st ch ls s ns HL) as H.
  destruct (processLine st ch ls (upto (buf s) (bi s))) as [[ch' st'] pn]. cbn [fst snd]. exact H.
Qed.

Lemma X_make : forall s ch ns r s1, SJx s ch ns -> makeRoot ch s = Some (r, s1) ->
  (forall b rest, ch = b :: rest -> isOpen b = false -> leB (bend b) b = true /\ geL (bend b) rest = true) /\ SJx s1 (pending s1) ns.
Proof.
  intros s ch ns r s1 HS Hm. pose proof (SJx_KX _ _ _ HS) as HK.
  destruct (SJx_makeRoot_full _ _ _ _ _ HS Hm) as (_ & _ & H3). split; [|exact H3].
  intros b rest -> Eo. split; [eapply KX_U; eassumption|eapply KX_L; eassumption].
Qed.

Lemma X_nil : forall s, ~ In 91 (buf s) -> bi s = lineEnd (buf s) 0 -> LEy 0 [] 0 s true.
Proof.
  intros s N Hb. unfold LEy, LEx. assert (0 <= len (buf s)) by (unfold len; lia).
  split; [lia|]. split; [exact Hb|]. split; [reflexivity|]. split; [discriminate|]. split; [reflexivity|].
  split; [split; exact I|]. split; [exact I|exact N].
Qed.

Lemma X_next : forall s ns, SJx s (pending s) ns -> ~ In 91 (buf s) -> 0 <= bi s <= len (buf s) -> pending s <> [] ->
  makeRoot (pending s) s = None ->
  LEy 0 (pending s) (bi s) {| buf := buf s; bi := lineEnd (buf s) (bi s); boff := boff s; bline := bline s; pending := pending s |} ns.
Proof.
  intros s ns (((Hb & Hc & Hn) & Hcc & Hk) & Hct & _) N Hbi _ _. unfold LEy, LEx. cbn [buf bi].
  split; [exact Hbi|]. split; [reflexivity|]. split; [exact Hc|]. split; [exact Hn|]. split; [exact Hcc|]. split; [exact Hk|]. split; [exact Hct|exact N].
Qed.

Lemma X_init : forall input, ~ In 91 input -> SJx {| buf := pad input; bi := 0; boff := 0; bline := 1; pending := [] |} [] true.
Proof. exact SJx_init. Qed.

Print Assumptions LEy_basic. Print Assumptions X_step. Print Assumptions X_make. Print Assumptions X_nil. Print Assumptions X_next. Print Assumptions X_init.
