(* ChkW4.v -- T30, stage 2: the invariant W through descendOpenBlocks. *)
From Coq Require Import List ZArith Lia Bool.
Import ListNotations.
Require Import Base Tree Rdr Link Collect Html Recog LP Rules Starts Driver L2Kind2 L2CC ShapesBase ShEnv GramDefs GramTree
  Cursor CursorX NoPanic12 BSLine1 ChkW1 ChkW2 ChkW3.
Open Scope Z_scope.

(* the current line has no line ending *)
Definition XL (p : lp) : bool := negb (hasByteSuffixEOL (line p)).
Lemma XL_env p p' : envOf p' = envOf p -> XL p' = XL p.
Proof. intros E. destruct (env_src p p' E) as (_ & _ & E3). unfold XL. rewrite E3. reflexivity. Qed.

Lemma suffixEOL_last : forall l, hasByteSuffixEOL l = true -> l <> [] /\ isEolB (at_ l (len l - 1)) = true.
Proof.
  induction l as [|c r IH]; intros H; [discriminate|]. split; [discriminate|]. destruct r as [|c2 r].
  - cbn [hasByteSuffixEOL] in H. exact H.
  - change (hasByteSuffixEOL (c :: c2 :: r)) with (hasByteSuffixEOL (c2 :: r)) in H. destruct (IH H) as [_ IH'].
    rewrite (at_S' c (c2 :: r)) by (rewrite !len_cons; pose proof (len_nonneg r); lia).
    rewrite (len_cons c). replace (1 + len (c2 :: r) - 1 - 1) with (len (c2 :: r) - 1) by lia. exact IH'.
Qed.

(* an entry that ends where the current line ends *)
Lemma gd_line_end p kind s : CUR p -> XL p = false -> gd (source p) (mkI kind s (lineStart p + len (line p))) = true.
Proof.
  intros HC HX. unfold XL in HX. apply negb_false_iff in HX. destruct (suffixEOL_last _ HX) as [Hne He].
  unfold gd. cbn [mkI istart iend]. apply orb_true_iff. right.
  assert (Hl : 0 < len (line p)) by (destruct (line p) as [|c0 l0]; [congruence|rewrite len_cons; pose proof (len_nonneg l0); lia]).
  replace (lineStart p + len (line p) - 1) with (lineStart p + (len (line p) - 1)) by lia.
  rewrite (at_src_line p _ HC) by lia. exact He.
Qed.

(* ---- states ---- *)
Lemma state_advance_desc p n : state p = stDescending -> state (advance p n) = stDescending.
Proof.
  intros H. unfold advance. destruct (n <? 0); [exact H|]. destruct (n =? 0); [exact H|]. cbv zeta. rewrite H.
  change (stDescending =? stOpening) with false. cbv iota. destruct (_ <? _); exact H.
Qed.
Lemma state_collectInline_desc p k n : state p = stDescending -> state (collectInline p k n) = stDescending.
Proof.
  intros H. unfold collectInline. rewrite H. change (stDescending =? stDescendTerminated) with false. cbv iota. cbv zeta.
  change (stDescending =? stOpening) with false. cbv iota.
  cbn [state updCont withRoot setLP]. destruct (0 <? _); apply state_advance_desc; [cbn [state updCont withRoot setLP]; apply state_advance_desc|]; exact H.
Qed.
Lemma state_consumeLine_desc p : state p = stDescending -> state (consumeLine p) = stDescendTerminated.
Proof.
  intros H. unfold consumeLine. cbv zeta. rewrite (state_advance_desc p _ H).
  change ((stDescending =? stOpening) || (stDescending =? stOpenMatched)) with false. cbv iota.
  change (stDescending =? stDescending) with true. cbv iota. reflexivity.
Qed.

(* ---- matchRule: either the tree is unchanged, or an HTML block received its last line ---- *)
Lemma matchRule_root p : state p = stDescending ->
  (root (snd (matchRule p)) = root p) \/
  (containerKind p = HTMLBlockKind /\ state (snd (matchRule p)) = stDescendTerminated /\
   root (snd (matchRule p)) = root (collectInline p RawHTMLKind (len (bytesAfterIndent p)))).
Proof.
  intros Hst. unfold matchRule. cbv zeta.
  destruct (_ || _); [left; reflexivity|].
  destruct (_ =? ListItemKind).
  { left. unfold matchListItem. destruct (isRestBlank p); [destruct (negb _); [reflexivity|apply same_consumeIndent]|].
    destruct (_ <=? _); [apply same_consumeIndent|reflexivity]. }
  destruct (_ =? BlockQuoteKind).
  { left. unfold matchBlockQuote. cbv zeta. destruct (_ <=? _); [reflexivity|]. destruct (negb _); [reflexivity|]. cbn [snd].
    unfold eatQuoteMarker. cbv zeta. destruct (0 <? _).
    - rewrite (proj1 (same_consumeIndent _ _)), (proj1 (same_advance _ _)). apply same_consumeIndent.
    - rewrite (proj1 (same_advance _ _)). apply same_consumeIndent. }
  destruct (_ =? FencedCodeBlockKind).
  { left. unfold matchFenced. cbv zeta. destruct (if _ <? _ then _ else false); cbn [snd]; [apply same_consumeLine|apply same_consumeIndent]. }
  destruct (_ =? IndentedCodeBlockKind).
  { left. unfold matchIndented. cbv zeta. destruct (_ <? _); [destruct (negb _)|]; cbn [snd]; try apply same_consumeIndent; reflexivity. }
  destruct (containerKind p =? HTMLBlockKind) eqn:EH; [|left; reflexivity].
  unfold matchHTML. destruct (htmlEnd _ _); [|left; reflexivity]. destruct (isRestBlank _); [left; reflexivity|]. cbn [snd].
  right. split; [apply Z.eqb_eq, EH|]. split.
  - apply state_consumeLine_desc, state_collectInline_desc, Hst.
  - apply same_consumeLine.
Qed.

Lemma CUR_matchRule p : CUR p -> CUR (snd (matchRule p)).
Proof.
  intros H. unfold matchRule. cbv zeta.
  destruct (_ || _); [assumption|].
  destruct (_ =? ListItemKind).
  { unfold matchListItem. destruct (isRestBlank p); [destruct (negb _); [assumption|apply CUR_consumeIndent, H]|].
    destruct (_ <=? _); [apply CUR_consumeIndent, H|assumption]. }
  destruct (_ =? BlockQuoteKind).
  { unfold matchBlockQuote. cbv zeta. destruct (_ <=? _); [assumption|]. destruct (negb _); [assumption|]. cbn [snd].
    unfold eatQuoteMarker. cbv zeta. destruct (0 <? _).
    - apply CUR_consumeIndent, CUR_advance, CUR_consumeIndent, H.
    - apply CUR_advance, CUR_consumeIndent, H. }
  destruct (_ =? FencedCodeBlockKind).
  { unfold matchFenced. cbv zeta. destruct (if _ <? _ then _ else false); cbn [snd]; [apply CUR_consumeLine|apply CUR_consumeIndent]; assumption. }
  destruct (_ =? IndentedCodeBlockKind).
  { unfold matchIndented. cbv zeta. destruct (_ <? _); [destruct (negb _)|]; cbn [snd]; try apply CUR_consumeIndent; assumption. }
  destruct (containerKind p =? HTMLBlockKind).
  { unfold matchHTML. destruct (htmlEnd _ _); [|assumption]. destruct (isRestBlank _); [assumption|]. cbn [snd]. apply CUR_consumeLine, CUR_collectInline, H. }
  assumption.
Qed.

(* ---- descendOpenBlocks ---- *)
Lemma W_descend_loop : forall fuel p d, CUR p -> G p -> WY false p ->
  WY (XL p) (snd (descend_loop fuel p d)) /\
  (state (snd (descend_loop fuel p d)) <> stDescendTerminated -> WY false (snd (descend_loop fuel p d))).
Proof.
  induction fuel as [|f IH]; intros p d HC HG HW.
  { cbn [descend_loop snd]. split; [apply Wb_weaken, HW|intros _; exact HW]. }
  assert (Hback : WY (XL p) (withCont p (Some d)) /\ (state (withCont p (Some d)) <> stDescendTerminated -> WY false (withCont p (Some d)))).
  { split; [apply Wb_weaken, HW|intros _; exact HW]. }
  cbn [descend_loop]. cbv zeta.
  destruct (getAt (S d) (root p)) as [c|] eqn:Ec; [|exact Hback].
  destruct (negb (isOpen c)) eqn:Eo; [exact Hback|]. apply negb_false_iff in Eo.
  destruct (negb (hasMatch _)); [exact Hback|].
  set (q := withState (withCont p (Some (S d))) stDescending).
  assert (HCq : CUR q) by exact HC.
  assert (HGq : G q) by (apply (G_tree p q); [repeat split|reflexivity|exact HG]).
  assert (HWq : WY false q) by exact HW.
  pose proof (matchRule_root q eq_refl) as Hr. pose proof (CUR_matchRule q HCq) as HC2. pose proof (G_matchRule q HGq) as HG2.
  pose proof (env_matchRule q) as He2.
  destruct (matchRule q) as [ok p2]. cbn [snd] in Hr, HC2, HG2, He2.
  destruct (env_src q p2 He2) as (Es2 & El2 & Eln2).
  assert (EX : XL p2 = XL p) by (rewrite (XL_env q p2 He2); reflexivity).
  destruct Hr as [Hr|(Hk & Hst2 & Hr)].
  - (* the tree is unchanged *)
    assert (HW2 : WY false p2) by (apply (WY_tree false q p2 Hr Es2), HWq).
    destruct (state p2 =? stDescendTerminated).
    + cbn [snd]. assert (HW3 : WY false (closeLastChildAt p2 d (lineStart p2 + li p2))).
      { apply WY_closeLastChildAt; [destruct HC2 as (_ & B & C); lia|exact HW2]. }
      split; [apply Wb_weaken, HW3|intros _; exact HW3].
    + destruct (negb ok).
      * cbn [snd]. split; [apply Wb_weaken, HW2|intros _; exact HW2].
      * destruct (IH p2 (S d) HC2 HG2 HW2) as [A B]. rewrite EX in A. split; assumption.
  - (* the last line of an HTML block *)
    rewrite Hst2. change (stDescendTerminated =? stDescendTerminated) with true. cbv iota. cbn [snd].
    split; [|intros N; exfalso; apply N; exact Hst2].
    unfold WY. cbn [root source withCont closeLastChildAt withRoot setLP]. fold (CLf (bheight (root p2)) (source p2) (lineStart p2 + li p2)).
    rewrite Es2 at 1.
    assert (Hli : li (collectInline q RawHTMLKind (len (bytesAfterIndent q))) = len (line q)) by (apply li_collectInline_all; [exact HGq|exact HCq|reflexivity]).
    apply (collect_close q RawHTMLKind (len (bytesAfterIndent q)) d (lineStart p2 + li p2) HTMLBlockKind (XL p) p2);
      try assumption; try reflexivity.
    + destruct HC2 as (_ & B & C); lia.
    + intros c' Hc'. change (root q) with (root p) in Hc'. rewrite Ec in Hc'. inversion Hc'; subst c'. split; [exact Eo|].
      unfold containerKind, contBlock, cdepth in Hk. cbn [container root q withState withCont setLP] in Hk. rewrite Ec in Hk. exact Hk.
    + discriminate.
    + right. left. reflexivity.
    + discriminate.
    + intros _. split; [reflexivity|]. destruct (XL p) eqn:EXp; [left; reflexivity|right]. intros s. rewrite Hli.
      apply (gd_line_end q RawHTMLKind s HCq). exact EXp.
Qed.
