From Coq Require Import List ZArith Lia Bool.
Import ListNotations.
Require Import Base Tree Rdr Link Collect Html Recog LP Rules Starts Driver Render L2Kind L2CC GramDefs GramTree GramLP GramLP2 GramLP3 GramLP4.
Require L2Kind2.
Require Import TDefs TInv TDesc TStarts BSLine1 BSLine3 TilLP1 TilLP8 ReparsePass.
Open Scope Z_scope.

(* T50 continuation, file 7: "the container is the tip".  When the last child of the container is closed (or there is none), the
   deferred close of a line whose first open block was not matched does nothing.  Kept by the block starts (generic pass). *)
Definition lastClosedB (x : block) : Prop := match lastBlock x with Some y => isOpen y = false | None => True end.
Definition tipOK (p : lp) : Prop :=
  (exists d, container p = Some d) /\ forall x, getAt (cdepth p) (root p) = Some x -> lastClosedB x.
Definition NP (p : lp) : Prop := containerKind p <> ParagraphKind /\ containerKind p <> SetextHeadingKind.
Definition JT (p : lp) : Prop := tipOK p /\ NP p.

Lemma JT_same p p' : same_tree p p' -> JT p -> JT p'.
Proof.
  intros [A B] ((C1 & C2) & D). unfold JT, tipOK, NP, containerKind, contBlock, cdepth in *. rewrite A, B. tauto.
Qed.

Lemma JT_upd p f : JT p -> keepsShape f -> JT (updCont p f).
Proof.
  intros ((C1 & C2) & D) Hf. split.
  - split; [exact C1|]. intros x. unfold updCont. cbn [root container cdepth withRoot setLP]. fold (cdepth p).
    rewrite L2Kind2.getAt_updAt_same. destruct (getAt (cdepth p) (root p)) as [y|] eqn:Ey; [|discriminate].
    cbn [option_map]. intros E. inversion E; subst x. specialize (C2 y eq_refl). unfold lastClosedB, lastBlock in *.
    destruct (Hf y) as (_ & Hk & _). rewrite Hk. exact C2.
  - unfold NP. rewrite (L2Kind2.containerKind_updCont p f (fun b => proj1 (Hf b))). exact D.
Qed.

Lemma wf_obPre p K : ccP p -> wf (obPre p K).
Proof.
  intros H. unfold obPre. cbv zeta.
  set (p0 := if state p =? stOpening then withState p stOpenMatched else p).
  assert (H0 : ccP p0) by (unfold p0; destruct (_ =? _); exact H).
  pose proof (ccP_openBlock_up (S (cdepth p0)) p0 K H0) as (_ & _ & (x & Hx)).
  set (p2 := openBlock_up (S (cdepth p0)) p0 K) in *.
  unfold wf, closeLastChildAt. cbn [root container cdepth withRoot setLP]. fold (cdepth p2).
  eapply getAt_updAt_exists. exact Hx.
Qed.

Lemma startK_np K : startK K -> K <> ParagraphKind /\ K <> SetextHeadingKind.
Proof. intros [-> |[-> |[-> |[-> |[-> |[-> |[-> |[-> | ->]]]]]]]]; split; discriminate. Qed.

Lemma JT_open p K : ccP p -> JT p -> st_open p -> startK K ->
  (K <> ListItemKind \/ canContain (containerKind p) K = true) -> JT (openBlock p K).
Proof.
  intros Hc _ Hs HK _. rewrite (openBlock_eq p K Hs).
  destruct (wf_obPre p K Hc) as (x & Hx).
  set (nb := newBlock K (obPos p K)).
  assert (Hg : getAt (S (cdepth (obPre p K))) (updAt (cdepth (obPre p K)) (appendB nb) (root (obPre p K))) = Some nb).
  { apply (getAt_S_append_some nb _ _ x Hx). }
  split.
  - split; [eexists; reflexivity|]. intros y. cbn [root container cdepth withCont withRoot updCont setLP]. fold (cdepth (obPre p K)).
    rewrite Hg. intros E. inversion E; subst y. exact Logic.I.
  - unfold NP, containerKind, contBlock. cbn [root container cdepth withCont withRoot updCont setLP]. fold (cdepth (obPre p K)).
    rewrite Hg. apply (startK_np K HK).
Qed.

Lemma endK_simple K : endK K -> K <> ParagraphKind /\ K <> SetextHeadingKind.
Proof. intros [-> |[-> |[-> | ->]]]; split; discriminate. Qed.

Lemma JT_end p : GI p -> CU p -> JT p -> endK (containerKind p) -> JT (endBlock p).
Proof.
  intros HG HC HJ Hk. unfold endBlock.
  destruct (_ || _); [eapply JT_same; [|exact HJ]; split; reflexivity|]. cbv zeta.
  set (p0 := if state p =? stOpening then withState p stOpenMatched else p).
  assert (T0 : same_tree p p0) by (unfold p0; destruct (_ =? _); split; reflexivity).
  assert (G0 : GI p0) by (eapply GI_same; eassumption).
  assert (E0 : lineStart p0 + li p0 = lineStart p + li p) by (unfold p0; destruct (_ =? _); reflexivity).
  assert (K0 : containerKind p0 = containerKind p) by (apply containerKind_same, T0).
  destruct (cdepth p0) as [|d] eqn:Ed; [eapply JT_same; [|exact HJ]; destruct T0 as [A B]; split; [exact A|exact B]|].
  (* the container x at depth S d, its parent y at depth d *)
  destruct G0 as (Gc & Gg & Gs). rewrite Ed in Gs.
  destruct (so_getAt _ _ Gs) as (x & Hx & Hox).
  destruct (getAt_prefix d (root p0) x Hx) as (y & Hy).
  assert (Hyx : lastBlock y = Some x).
  { clear - Hx Hy. revert Hx Hy. generalize (root p0) as r. induction d as [|d IH]; intros r Hx Hy.
    - cbn [getAt] in Hy. inversion Hy; subst y. cbn [getAt] in Hx. destruct (lastBlock r) as [c|]; [|discriminate]. exact Hx.
    - rewrite getAt_S in Hx, Hy. destruct (lastBlock r) as [c|]; [|discriminate]. apply (IH c Hx Hy). }
  assert (Kx : bkind x = containerKind p).
  { rewrite <- K0. unfold containerKind, contBlock. rewrite Ed, Hx. reflexivity. }
  set (e := lineStart p0 + li p0).
  assert (He : 0 <= e) by (unfold e; rewrite E0; destruct HC; lia).
  split.
  - split; [eexists; reflexivity|]. intros z.
    rewrite closeLastChildAt_eq. cbn [root container cdepth withCont withRoot setLP].
    rewrite L2Kind2.getAt_updAt_same, Hy. cbn [option_map]. intros E. inversion E; subst z. clear E.
    unfold TInv.closeF. rewrite Hyx. unfold lastClosedB.
    destruct (bheight_S (root p0)) as [h Eh]. rewrite Eh.
    destruct (endK_simple _ Hk) as [N1 N2]. rewrite <- Kx in N1, N2.
    assert (Hox' : bend x < 0) by (unfold isOpen in Hox; apply Z.ltb_lt, Hox).
    pose proof (BSLine3.closeBlock_single h (source p0) x e) as Hall.
    pose proof (BSLine1.closeBlock_nonnil (source p0) e (S h) x) as Hne.
    destruct (list_snoc_cases (closeBlock (S h) (source p0) x e)) as [E|(pre & z & E)]; [contradiction|].
    rewrite E in *. destruct (lastBlock_some y x Hyx) as (pre0 & Ey).
    unfold lastBlock. rewrite (bkids_set_lastBlocks y pre0 x _ Ey), app_assoc, rev_app_distr. cbn [rev app].
    unfold isOpen. apply Z.ltb_ge. rewrite (Hall z Hox' N1 N2 ltac:(apply in_or_app; right; left; reflexivity)). exact He.
  - (* the parent has a child: it is no paragraph *)
    unfold NP. assert (Hk' : containerKind (withCont (closeLastChildAt p0 d e) (Some d)) = bkind y).
    { unfold containerKind, contBlock. rewrite closeLastChildAt_eq. cbn [root container cdepth withCont withRoot setLP].
      rewrite L2Kind2.getAt_updAt_same, Hy. cbn [option_map]. unfold TInv.closeF. rewrite Hyx. apply bkind_set_lastBlocks. }
    rewrite Hk'. destruct Gc as (_ & Gcc & _).
    pose proof (cc_getAt d (root p0) y Gcc Hy) as Hcy.
    destruct (cc_lastBlock y x Hcy Hyx) as [_ Hcan].
    split; intros E; rewrite E in Hcan; discriminate.
Qed.

Lemma JT_setext p : GI p -> CU p -> JT p -> JT (startSetext p).
Proof.
  intros _ _ H. unfold startSetext. destruct H as (A & (N & M)).
  replace (containerKind p =? ParagraphKind) with false by (symmetry; apply Z.eqb_neq; exact N). cbn [negb].
  split; [exact A|split; assumption].
Qed.

(* the instance of the generic pass *)
Definition IT : lp -> Prop := Iv JT.
Lemma IT_opening_loop fuel p : IT p -> IT (snd (opening_loop fuel p)).
Proof. apply (I_opening_loop JT JT_same JT_upd JT_open JT_end JT_setext). Qed.

(* ---- the deferred close does nothing ---- *)
Lemma tip_le : forall d fuel b x, getAt d b = Some x -> lastClosedB x -> (tipDepth fuel b <= d)%nat.
Proof.
  induction d as [|d IH]; intros fuel b x Hx Hl.
  - cbn [getAt] in Hx. inversion Hx; subst x. destruct fuel as [|f]; [apply Nat.le_refl|]. cbn [tipDepth]. unfold lastClosedB in Hl.
    destruct (lastBlock b) as [c|]; [rewrite Hl|]; apply Nat.le_refl.
  - destruct fuel as [|f]; [cbn; lia|]. cbn [tipDepth]. rewrite getAt_S in Hx. destruct (lastBlock b) as [c|]; [|lia].
    destruct (isOpen c); [|lia]. specialize (IH f c x Hx Hl). lia.
Qed.

Lemma updAt_fix f : forall d r x, getAt d r = Some x -> f x = x -> updAt d f r = r.
Proof.
  induction d as [|d IH]; intros r x Hx Hf.
  - cbn in Hx. inversion Hx; subst. exact Hf.
  - cbn [updAt]. rewrite getAt_S in Hx. destruct (lastBlock r) as [c|] eqn:El; [|reflexivity]. rewrite (IH c x Hx Hf).
    apply lastBlock_some in El. destruct El as (pre & El). unfold set_lastBlocks. destruct r. cbn [bkids set_bkids] in *. rewrite El, removelast_snoc. reflexivity.
Qed.

Lemma closeF_lastClosed p e x : lastClosedB x -> TInv.closeF p e x = x.
Proof.
  unfold lastClosedB, TInv.closeF. destruct (lastBlock x) as [y|] eqn:El; [|reflexivity]. intros Hy.
  rewrite (TOcp.closeBlock_closed _ _ y e Hy). apply lastBlock_some in El. destruct El as (pre & El).
  unfold set_lastBlocks. destruct x. cbn [bkids set_bkids] in *. rewrite El, removelast_snoc. reflexivity.
Qed.

Lemma deferredClose_tip p : GI p -> tipOK p -> deferredClose p = p.
Proof.
  intros (Gc & Gg & Gs) ((d & Ec) & Ht). destruct (so_getAt _ _ Gs) as (x & Hx & Hox). specialize (Ht x Hx).
  assert (Ed : cdepth p = d) by (unfold cdepth; rewrite Ec; reflexivity).
  unfold deferredClose. cbv zeta.
  assert (Etip : tipDepth (bheight (root p)) (root p) = d).
  { apply Nat.le_antisymm.
    - rewrite <- Ed. eapply tip_le; eassumption.
    - rewrite <- Ed. apply so_le_tip; [exact Gs|]. pose proof (so_depth _ _ Gs). lia. }
  rewrite Etip.
  assert (E1 : withCont p (Some d) = p) by (destruct p; cbn in *; subst; reflexivity).
  assert (E2 : closeLastChildAt p (cdepth p) (lineStart p) = p).
  { rewrite closeLastChildAt_eq. rewrite (updAt_fix _ _ _ x Hx (closeF_lastClosed p (lineStart p) x Ht)). destruct p; reflexivity. }
  destruct (_ && _); [exact E1|exact E2].
Qed.
