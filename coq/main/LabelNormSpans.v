(* LabelNormSpans.v -- property C12, normalisation of labels that cross stripped container prefixes (T60).

   The entries of a paragraph inside a container are one Unparsed span per line; the container prefixes ("> ", list
   indentation) lie in the GAPS between the spans, and a partly consumed tab is an Indent entry.  The multi-line reader
   jumps over the gaps.  Result: for ANY sorted span list

     Theorem label_norm_spans :
       transformLinkReferenceSpan fuel src spans s e = norm_label (labelBytes src spans s e)

   where  labelBytes src spans s e  concatenates, span by span, the source bytes of the intersection of the span with
   [s,e); an Indent entry of k columns that intersects [s,e) contributes k+1 spaces (what the reader yields: it replays the
   columns 0..k);  norm_label = foldString . trimAsciiWs . collapse  is the declarative definition of LabelNorm.v.
   Gap bytes contribute nothing.  Side conditions (each one needed: closed counterexamples in LabelNormSpansTest.v; that non-last spans end in a line
   ending is NOT needed): spans sorted and inside the source
   (IFBase.spW), kinds Unparsed/Text/Indent, spans that start before e are non-empty, Indent entries are one byte wide,
   s lies in a span, e does not lie beyond the spans, no NUL byte inside the spans within [s,e), enough fuel
   (more than the number of label bytes; in particular  len src + ibudget spans < fuel  suffices). *)
From Coq Require Import List ZArith Lia Bool.
Import ListNotations.
Require Import Base Tables Utf8 Tree Rdr Link Collect SliceBase ShapesR IFBase LabelNorm.
Open Scope Z_scope.

(* ------------------------------------------------------------------------------------------------------------- *)
(* 1. The specification                                                                                           *)
(* ------------------------------------------------------------------------------------------------------------- *)
Definition contrib (src : bytes) (s e : Z) (i : inline) : bytes :=
  if ikind i =? IndentKind then
    (if Z.max s (istart i) <? Z.min e (iend i) then repeat 32 (S (Z.to_nat (iindent i))) else [])
  else sub src (Z.max s (istart i)) (Z.min e (iend i)).
Definition labelBytes (src : bytes) (spans : list inline) (s e : Z) : bytes := flat_map (contrib src s e) spans.

Definition okK3 (i : inline) : Prop := ikind i = UnparsedKind \/ ikind i = TextKind \/ ikind i = IndentKind.

(* ------------------------------------------------------------------------------------------------------------- *)
(* 2. The loop, over an abstract "the reader r will yield exactly the bytes bs before position e"                   *)
(* ------------------------------------------------------------------------------------------------------------- *)
Section Abstract.
  Variable e : Z.
  Variable G : reader -> bytes -> Prop.
  Hypothesis G_done : forall r bs, G r bs -> e <= r_pos r -> bs = [].
  Hypothesis G_step : forall r bs, G r bs -> r_pos r < e ->
    exists c bs' r1 ok r2, bs = c :: bs' /\ current r = (c, r1) /\ next r1 = (ok, r2) /\ G r2 bs' /\ (ok = false -> bs' = []).

  Lemma tskip_G (f : nat) :
    (forall r bs acc, G r bs -> (length bs <= f)%nat -> tlr_loop f r e acc = acc ++ collapse bs) ->
    forall k r bs acc, G r bs -> (length bs <= f)%nat -> (length bs < k)%nat ->
      tskip f e acc k r = acc ++ collapse (dropWhileB ws bs).
  Proof.
    intros IHf. induction k as [|k IHk]; intros r bs acc HG Hf Hk; [lia|].
    rewrite tskip_S. destruct (Z.ltb_spec (r_pos r) e) as [L|L].
    - destruct (G_step r bs HG L) as (c & bs' & r1 & ok & r2 & E & Ec & En & HG2 & Hno).
      unfold cur. rewrite Ec. cbn [fst snd andb]. subst bs. cbn [dropWhileB length] in *.
      destruct (ws c) eqn:Ew.
      + rewrite En. destruct ok.
        * apply IHk; [exact HG2|lia|lia].
        * rewrite (Hno eq_refl) in *. rewrite (IHf r2 [] acc HG2) by (cbn; lia). reflexivity.
      + rewrite (IHf r (c :: bs') acc HG) by (cbn [length]; lia). reflexivity.
    - cbn [andb]. rewrite (G_done r bs HG L). rewrite tlr_loop_done by exact L. cbn [dropWhileB]. rewrite collapse_nil, app_nil_r. reflexivity.
  Qed.

  Lemma tlr_loop_G : forall (f : nat) r bs acc, G r bs -> (length bs <= f)%nat -> tlr_loop f r e acc = acc ++ collapse bs.
  Proof.
    induction f as [|f IHf]; intros r bs acc HG Hf.
    - destruct bs; [|cbn in Hf; lia]. cbn [tlr_loop]. rewrite collapse_nil, app_nil_r. reflexivity.
    - destruct (Z.le_gt_cases e (r_pos r)) as [L|L].
      { rewrite (G_done r bs HG L). rewrite tlr_loop_done by exact L. rewrite collapse_nil, app_nil_r. reflexivity. }
      destruct (G_step r bs HG ltac:(lia)) as (c & bs' & r1 & ok & r2 & E & Ec & En & HG2 & Hno).
      subst bs. cbn [length] in Hf. rewrite tlr_loop_S. destruct (Z.leb_spec e (r_pos r)) as [L'|_]; [lia|].
      rewrite Ec. destruct (ws c) eqn:Ew.
      + rewrite En. rewrite (collapse_ws_cons _ _ Ew). destruct ok; cbn [negb].
        * rewrite (tskip_G f IHf (S f) r2 bs' (acc ++ [32]) HG2) by lia. rewrite <- app_assoc. reflexivity.
        * rewrite (Hno eq_refl). cbn [dropWhileB]. rewrite collapse_nil. reflexivity.
      + rewrite En. rewrite (collapse_nws_cons _ _ Ew). destruct ok; cbn [negb].
        * rewrite (IHf r2 bs' (acc ++ [c]) HG2) by lia. rewrite <- app_assoc. reflexivity.
        * rewrite (Hno eq_refl). rewrite collapse_nil. reflexivity.
  Qed.
End Abstract.

(* ------------------------------------------------------------------------------------------------------------- *)
(* 3. The multi-line reader over a sorted span list                                                               *)
(* ------------------------------------------------------------------------------------------------------------- *)
Lemma okK3_nextSpan i : okK3 i -> ((ikind i =? UnparsedKind) || (ikind i =? TextKind) || (ikind i =? IndentKind)) = true.
Proof. intros [E|[E|E]]; rewrite E; reflexivity. Qed.

Lemma spW_valid src : forall l, spW src l = true -> forall j, In j l -> 0 <= istart j /\ istart j <= iend j /\ iend j <= len src.
Proof.
  induction l as [|x l IH]; intros W j Hj; [destruct Hj|].
  destruct (spW_cons _ _ _ W) as (A & B & C & _ & W'). destruct Hj as [<-|Hj]; [tauto|apply IH; assumption].
Qed.

Section Concrete.
  Variables (src : bytes) (lo e : Z).

  Definition mkR (l : list inline) (pos v p : Z) : reader :=
    {| r_src := src; r_spans := l; r_pos := pos; r_vpos := v; r_prev := p |}.

  (* well-formed span lists (relative to the range [lo,e)) *)
  Definition WF (l : list inline) : Prop :=
    spW src l = true /\ Forall okK3 l /\
    (forall j, In j l -> istart j < e -> istart j < iend j /\ (ikind j = IndentKind -> iend j = istart j + 1)) /\
    (forall j p, In j l -> istart j <= p < iend j -> lo <= p < e -> at_ src p <> 0) /\
    (exists j, In j l /\ e <= iend j).

  (* what a span yields from its start / from a position inside it, and what the spans after it yield *)
  Definition cfrom (j : inline) : bytes :=
    if ikind j =? IndentKind then (if istart j <? e then repeat 32 (S (Z.to_nat (iindent j))) else [])
    else sub src (istart j) (Z.min e (iend j)).
  Definition tailB (rest : list inline) : bytes := flat_map cfrom rest.
  Definition headB (i : inline) (pos v : Z) : bytes :=
    if ikind i =? IndentKind then (if pos <? e then repeat 32 (S (Z.to_nat (iindent i - v))) else [])
    else sub src pos (Z.min e (iend i)).

  Definition G (r : reader) (bs : bytes) : Prop :=
    (e <= r_pos r /\ bs = []) \/
    (exists pre i rest pos v p, r = mkR (pre ++ i :: rest) pos v p /\ pos < e /\
       (forall j, In j pre -> istart j <= pos /\ iend j <= pos) /\ istart i <= pos < iend i /\ lo <= pos /\
       WF (i :: rest) /\ bs = headB i pos v ++ tailB rest).

  Lemma G_done r bs : G r bs -> e <= r_pos r -> bs = [].
  Proof.
    intros [[_ E]|(pre & i & rest & pos & v & p & -> & Hlt & _)] H; [exact E|]. cbn [r_pos mkR] in H. lia.
  Qed.

  Lemma spanHas_in i pos : 0 <= istart i -> istart i <= pos -> pos < iend i -> spanHas i pos = true.
  Proof.
    intros H0 H1 H2. unfold spanHas. rewrite !andb_true_iff. repeat split; try apply Z.leb_le; try apply Z.ltb_lt; lia.
  Qed.
  Lemma spanHas_out i pos : iend i <= pos -> spanHas i pos = false.
  Proof. intros H. unfold spanHas. replace (pos <? iend i) with false by (symmetry; apply Z.ltb_ge; lia). apply andb_false_r. Qed.

  Lemma nodeIdx_pre : forall pre i rest pos k, (forall j, In j pre -> istart j <= pos /\ iend j <= pos) ->
    spanHas i pos = true -> istart i <= pos -> nodeIdx (pre ++ i :: rest) pos k = k + len pre.
  Proof.
    induction pre as [|x pre IH]; intros i rest pos k Hpre Hi Hs.
    - cbn [app nodeIdx]. replace (pos <? istart i) with false by (symmetry; apply Z.ltb_ge; lia). rewrite Hi.
      rewrite sl_len_nil. lia.
    - cbn [app nodeIdx]. destruct (Hpre x (or_introl eq_refl)) as [A B].
      replace (pos <? istart x) with false by (symmetry; apply Z.ltb_ge; lia). rewrite (spanHas_out x pos B).
      rewrite (IH i rest pos (k + 1)); [rewrite sl_len_cons; lia| |exact Hi|exact Hs].
      intros j Hj. apply Hpre. right. exact Hj.
  Qed.

  Lemma curNode_pre pre i rest pos v p : (forall j, In j pre -> istart j <= pos /\ iend j <= pos) ->
    0 <= istart i -> istart i <= pos -> pos < iend i ->
    curNode (mkR (pre ++ i :: rest) pos v p) = (Some i, mkR (i :: rest) pos v p).
  Proof.
    intros Hpre H0 H1 H2. unfold curNode, nodeIndexForPosition, mkR. cbn [r_spans r_pos r_src r_vpos r_prev].
    rewrite (nodeIdx_pre pre i rest pos 0 Hpre (spanHas_in i pos H0 H1 H2) H1).
    pose proof (sl_len_nonneg pre). destruct (Z.ltb_spec (0 + len pre) 0); [lia|].
    rewrite Z.add_0_l, sl_from_app_len. reflexivity.
  Qed.
  Lemma curNode_hd i rest pos v p : 0 <= istart i -> istart i <= pos -> pos < iend i ->
    curNode (mkR (i :: rest) pos v p) = (Some i, mkR (i :: rest) pos v p).
  Proof. intros. apply (curNode_pre [] i rest pos v p); try assumption. intros j []. Qed.

  Lemma tail_empty : forall rest, (forall j, In j rest -> e <= istart j /\ istart j <= iend j) -> tailB rest = [].
  Proof.
    induction rest as [|j rest IH]; intros H; [reflexivity|]. unfold tailB in *. cbn [flat_map].
    rewrite IH by (intros x Hx; apply H; right; exact Hx). rewrite app_nil_r.
    destruct (H j (or_introl eq_refl)) as [A B]. unfold cfrom. destruct (ikind j =? IndentKind).
    - destruct (Z.ltb_spec (istart j) e); [lia|reflexivity].
    - apply sub_empty. lia.
  Qed.

  Lemma WF_cons_inv i rest : WF (i :: rest) ->
    0 <= istart i /\ istart i <= iend i /\ iend i <= len src /\ (forall j, In j rest -> iend i <= istart j) /\ okK3 i.
  Proof.
    intros (W & K & _). destruct (spW_cons _ _ _ W) as (A & B & C & D & _). inversion K. tauto.
  Qed.
  Lemma WF_rest_sorted i rest : WF (i :: rest) -> forall j, In j rest -> istart j <= iend j /\ iend i <= istart j.
  Proof.
    intros (W & _) j Hj. destruct (spW_cons _ _ _ W) as (_ & _ & _ & D & W').
    split; [|apply D, Hj]. apply (spW_valid src rest W' j Hj).
  Qed.
  Lemma WF_tail i j rest : WF (i :: j :: rest) -> istart j < e -> WF (j :: rest).
  Proof.
    intros HW Hj. pose proof (WF_cons_inv _ _ HW) as (_ & _ & _ & Hs & _).
    destruct HW as (W & K & NE & NZ & (x & Hx & Ex)).
    split; [apply (spW_tail src i), W|]. split; [inversion K; assumption|].
    split; [intros y Hy; apply NE; right; exact Hy|]. split; [intros y q Hy; apply NZ; right; exact Hy|].
    destruct Hx as [<-|Hx]; [|exists x; split; assumption].
    exfalso. specialize (Hs j (or_introl eq_refl)). lia.
  Qed.

  (* leaving the current span: jump to the next one, or the reader is exhausted *)
  Lemma jump_step i rest pos v : WF (i :: rest) -> istart i <= pos -> pos + 1 = iend i -> pos < e -> lo <= pos ->
    exists ok r2,
      match nextSpan rest with
      | Some (j, sp) => (true, mkR sp (istart j) (computeNullVirtualPosition src (istart j)) pos)
      | None => (false, mkR [] (pos + 1) v pos)
      end = (ok, r2) /\ G r2 (tailB rest) /\ (ok = false -> tailB rest = []).
  Proof.
    intros HW H1 H2 H3 Hlo. pose proof (WF_cons_inv _ _ HW) as (A0 & A1 & A2 & Hs & Ki).
    destruct rest as [|j rest'].
    - cbn [nextSpan]. exists false, (mkR [] (pos + 1) v pos). split; [reflexivity|]. split; [|reflexivity].
      left. split; [|reflexivity]. cbn [r_pos mkR].
      destruct HW as (_ & _ & _ & _ & (x & Hx & Ex)). destruct Hx as [<-|[]]. lia.
    - assert (Kj : okK3 j) by (destruct HW as (_ & K & _); inversion K as [|? ? _ K']; inversion K'; assumption).
      cbn [nextSpan]. rewrite (okK3_nextSpan j Kj).
      exists true, (mkR (j :: rest') (istart j) (computeNullVirtualPosition src (istart j)) pos).
      split; [reflexivity|]. split; [|discriminate].
      pose proof (Hs j (or_introl eq_refl)) as Hij.
      destruct (Z.lt_ge_cases (istart j) e) as [Lj|Lj].
      + pose proof (WF_tail _ _ _ HW Lj) as HW'.
        pose proof HW' as HWc. destruct HW' as (W' & K' & NE' & NZ' & E').
        destruct (NE' j (or_introl eq_refl) Lj) as [Hne Hiw].
        assert (Hnzj : at_ src (istart j) <> 0) by (apply (NZ' j (istart j) (or_introl eq_refl)); lia).
        assert (Ev : computeNullVirtualPosition src (istart j) = 0).
        { unfold computeNullVirtualPosition. destruct (Z.eqb_spec (at_ src (istart j)) 0); [contradiction|].
          cbn [negb]. rewrite orb_true_r. reflexivity. }
        right. exists [], j, rest', (istart j), (computeNullVirtualPosition src (istart j)), pos.
        split; [reflexivity|]. split; [exact Lj|]. split; [intros x []|]. split; [lia|]. split; [lia|].
        split; [exact HWc|].
        unfold tailB. cbn [flat_map]. f_equal. unfold cfrom, headB. rewrite Ev, Z.sub_0_r. reflexivity.
      + left. cbn [r_pos mkR]. split; [exact Lj|]. apply tail_empty.
        intros x [<-|Hx].
        * destruct (spW_cons _ _ _ (spW_tail src i _ (proj1 HW))) as (_ & B & _). lia.
        * assert (HWj : spW src (j :: rest') = true) by (apply (spW_tail src i), HW).
          destruct (spW_cons _ _ _ HWj) as (_ & B & _ & D & W'').
          pose proof (spW_valid src rest' W'' x Hx) as (_ & Hx2 & _).
          specialize (D x Hx). lia.
  Qed.
  Lemma G_step r bs : G r bs -> r_pos r < e ->
    exists c bs' r1 ok r2, bs = c :: bs' /\ current r = (c, r1) /\ next r1 = (ok, r2) /\ G r2 bs' /\ (ok = false -> bs' = []).
  Proof.
    intros [[H _]|(pre & i & rest & pos & v & p & -> & Hlt & Hpre & Hin & Hlo & HW & ->)] Hp; [lia|].
    pose proof (WF_cons_inv _ _ HW) as (A0 & A1 & A2 & Hs & Ki).
    pose proof HW as (W & K & NE & NZ & EE).
    destruct (NE i (or_introl eq_refl) ltac:(lia)) as [Hne Hiw].
    assert (Ecur : forall c, (if ikind i =? IndentKind then 32 else at_ src pos) = c -> at_ src pos <> 0 \/ ikind i = IndentKind ->
                   current (mkR (pre ++ i :: rest) pos v p) = (c, mkR (i :: rest) pos v p)).
    { intros c Ec Hz. unfold current. cbn [r_src r_pos mkR]. destruct (Z.leb_spec (len src) pos); [lia|].
      change {| r_src := src; r_spans := pre ++ i :: rest; r_pos := pos; r_vpos := v; r_prev := p |} with (mkR (pre ++ i :: rest) pos v p).
      rewrite (curNode_pre pre i rest pos v p Hpre A0 ltac:(lia) ltac:(lia)). cbn [okind r_vpos mkR].
      destruct (Z.eqb_spec (ikind i) IndentKind) as [Ek|Ek]; [rewrite <- Ec; reflexivity|].
      destruct Hz as [Hz|Hz]; [|contradiction]. destruct (Z.eqb_spec (at_ src pos) 0); [contradiction|]. rewrite <- Ec. reflexivity. }
    assert (Enext : next (mkR (i :: rest) pos v p) =
              if (ikind i =? IndentKind) && (v <? iindent i) then (true, mkR (i :: rest) pos (v + 1) pos)
              else if negb (ikind i =? IndentKind) && (pos + 1 <? iend i) then
                (true, mkR (i :: rest) (pos + 1)
                           (if at_ src (pos + 1) =? 0 then (if at_ src pos =? 0 then (v + 1) mod 3 else 0) else v) pos)
              else match nextSpan rest with
                   | Some (j, sp) => (true, mkR sp (istart j) (computeNullVirtualPosition src (istart j)) pos)
                   | None => (false, mkR [] (pos + 1) v pos)
                   end).
    { unfold next. rewrite (curNode_hd i rest pos v p A0 ltac:(lia) ltac:(lia)). cbn [r_src r_pos r_vpos r_spans mkR tl].
      destruct ((ikind i =? IndentKind) && (v <? iindent i)); [reflexivity|].
      destruct (negb (ikind i =? IndentKind) && (pos + 1 <? iend i)); [reflexivity|].
      destruct (nextSpan rest) as [[j sp]|]; reflexivity. }
    destruct (Z.eqb_spec (ikind i) IndentKind) as [Ek|Ek].
    - (* an Indent entry: the columns are replayed *)
      specialize (Hiw Ek). assert (Epos : pos = istart i) by lia.
      specialize (Ecur 32 eq_refl (or_intror Ek)).
      unfold headB. destruct (Z.eqb_spec (ikind i) IndentKind) as [_|N]; [|contradiction].
      destruct (Z.ltb_spec pos e) as [_|L]; [|lia].
      cbn [andb negb] in Enext. destruct (Z.ltb_spec v (iindent i)) as [Lv|Lv].
      + exists 32, (repeat 32 (S (Z.to_nat (iindent i - (v + 1)))) ++ tailB rest), (mkR (i :: rest) pos v p), true, (mkR (i :: rest) pos (v + 1) pos).
        split; [|split; [exact Ecur|split; [exact Enext|split; [|discriminate]]]].
        * replace (Z.to_nat (iindent i - v)) with (S (Z.to_nat (iindent i - (v + 1)))) by lia. reflexivity.
        * right. exists [], i, rest, pos, (v + 1), pos. split; [reflexivity|]. split; [exact Hlt|]. split; [intros x []|].
          split; [exact Hin|]. split; [exact Hlo|]. split; [exact HW|].
          unfold headB. destruct (Z.eqb_spec (ikind i) IndentKind) as [_|N]; [|contradiction].
          destruct (Z.ltb_spec pos e) as [_|L]; [reflexivity|lia].
      + destruct (jump_step i rest pos v HW ltac:(lia) ltac:(lia) Hlt Hlo) as (ok & r2 & Ej & HG & Hno).
        exists 32, (tailB rest), (mkR (i :: rest) pos v p), ok, r2.
        split; [|split; [exact Ecur|split; [rewrite Enext; exact Ej|split; [exact HG|exact Hno]]]].
        replace (Z.to_nat (iindent i - v)) with O by lia. reflexivity.
    - (* source bytes *)
      assert (Hz : at_ src pos <> 0) by (apply (NZ i pos (or_introl eq_refl)); lia).
      assert (Ecur' : current (mkR (pre ++ i :: rest) pos v p) = (at_ src pos, mkR (i :: rest) pos v p)).
      { apply Ecur; [|left; exact Hz]. destruct (Z.eqb_spec (ikind i) IndentKind); [contradiction|reflexivity]. }
      unfold headB. destruct (Z.eqb_spec (ikind i) IndentKind) as [Y|_]; [contradiction|].
      cbn [andb negb] in Enext.
      rewrite (sub_cons src pos (Z.min e (iend i))) by lia.
      destruct (Z.ltb_spec (pos + 1) (iend i)) as [Lp|Lp].
      + set (v' := if at_ src (pos + 1) =? 0 then (if at_ src pos =? 0 then (v + 1) mod 3 else 0) else v) in *.
        exists (at_ src pos), (sub src (pos + 1) (Z.min e (iend i)) ++ tailB rest), (mkR (i :: rest) pos v p), true, (mkR (i :: rest) (pos + 1) v' pos).
        split; [reflexivity|]. split; [exact Ecur'|]. split; [exact Enext|]. split; [|discriminate].
        destruct (Z.lt_ge_cases (pos + 1) e) as [Le|Le].
        * right. exists [], i, rest, (pos + 1), v', pos. split; [reflexivity|]. split; [exact Le|]. split; [intros x []|].
          split; [lia|]. split; [lia|]. split; [exact HW|].
          unfold headB. destruct (Z.eqb_spec (ikind i) IndentKind) as [Y|_]; [contradiction|reflexivity].
        * left. cbn [r_pos mkR]. split; [exact Le|]. rewrite sub_empty by lia. cbn [app]. apply tail_empty.
          intros x Hx. destruct (WF_rest_sorted i rest HW x Hx). lia.
      + destruct (jump_step i rest pos v HW ltac:(lia) ltac:(lia) Hlt Hlo) as (ok & r2 & Ej & HG & Hno).
        exists (at_ src pos), (tailB rest), (mkR (i :: rest) pos v p), ok, r2.
        split; [|split; [exact Ecur'|split; [rewrite Enext; exact Ej|split; [exact HG|exact Hno]]]].
        rewrite sub_empty by lia. reflexivity.
  Qed.
End Concrete.

(* ------------------------------------------------------------------------------------------------------------- *)
(* 4. The theorem                                                                                                 *)
(* ------------------------------------------------------------------------------------------------------------- *)
Lemma contrib_before src s e j : iend j <= s -> contrib src s e j = [].
Proof.
  intros H. unfold contrib. destruct (ikind j =? IndentKind).
  - destruct (Z.ltb_spec (Z.max s (istart j)) (Z.min e (iend j))); [lia|reflexivity].
  - apply sub_empty. lia.
Qed.
Lemma contrib_empty_range src s e j : e <= s -> contrib src s e j = [].
Proof.
  intros H. unfold contrib. destruct (ikind j =? IndentKind).
  - destruct (Z.ltb_spec (Z.max s (istart j)) (Z.min e (iend j))); [lia|reflexivity].
  - apply sub_empty. lia.
Qed.
Lemma labelBytes_empty_range src spans s e : e <= s -> labelBytes src spans s e = [].
Proof.
  intros H. unfold labelBytes. induction spans as [|j l IH]; [reflexivity|]. cbn [flat_map].
  rewrite IH, (contrib_empty_range src s e j H). reflexivity.
Qed.
Lemma spW_pre_sorted src : forall pre i rest, spW src (pre ++ i :: rest) = true ->
  forall j, In j pre -> istart j <= iend j /\ iend j <= istart i.
Proof.
  induction pre as [|x pre IH]; intros i rest W j Hj; [destruct Hj|].
  cbn [app] in W. destruct (spW_cons _ _ _ W) as (_ & B & _ & D & W'). destruct Hj as [<-|Hj].
  - split; [exact B|]. apply D. apply in_or_app. right. left. reflexivity.
  - apply (IH i rest W' j Hj).
Qed.

Theorem label_norm_spans : forall src spans s e (fuel : nat),
  spW src spans = true -> Forall okK3 spans ->
  (forall j, In j spans -> istart j < e -> istart j < iend j /\ (ikind j = IndentKind -> iend j = istart j + 1)) ->
  (s < e -> exists i, In i spans /\ istart i <= s < iend i) ->
  (s < e -> exists j, In j spans /\ e <= iend j) ->
  (forall j p, In j spans -> istart j <= p < iend j -> s <= p < e -> at_ src p <> 0) ->
  (length (labelBytes src spans s e) <= fuel)%nat ->
  transformLinkReferenceSpan fuel src spans s e = norm_label (labelBytes src spans s e).
Proof.
  intros src spans s e fuel W K NE HS HE NZ Hfuel.
  unfold transformLinkReferenceSpan, norm_label. f_equal. f_equal.
  destruct (Z.le_gt_cases e s) as [Les|Lse].
  { rewrite tlr_loop_done by (cbn [r_pos newReader]; lia). rewrite (labelBytes_empty_range src spans s e Les). reflexivity. }
  destruct (HS ltac:(lia)) as (i & Hi & His). destruct (in_split i spans Hi) as (pre & rest & Esp).
  assert (HG : G src s e (newReader src spans s) (labelBytes src spans s e)).
  { right. exists pre, i, rest, s, 0, (-1). split; [rewrite Esp; reflexivity|]. split; [lia|].
    assert (Hpre : forall j, In j pre -> istart j <= s /\ iend j <= s).
    { intros j Hj. rewrite Esp in W. destruct (spW_pre_sorted src pre i rest W j Hj). lia. }
    split; [exact Hpre|]. split; [exact His|]. split; [lia|].
    assert (Hsub : forall j, In j (i :: rest) -> In j spans) by (intros j Hj; rewrite Esp; apply in_or_app; right; exact Hj).
    assert (HW : WF src s e (i :: rest)).
    { split; [rewrite Esp in W; apply (spW_app_r src pre), W|]. split; [rewrite Esp in K; apply Forall_app in K; tauto|].
      split; [intros j Hj; apply NE, Hsub, Hj|]. split; [intros j p Hj; apply NZ, Hsub, Hj|].
      destruct (HE ltac:(lia)) as (x & Hx & Ex). rewrite Esp in Hx. apply in_app_or in Hx. destruct Hx as [Hx|Hx].
      - exfalso. destruct (Hpre x Hx). lia.
      - exists x. split; assumption. }
    split; [exact HW|].
    unfold labelBytes. rewrite Esp, flat_map_app. cbn [flat_map].
    assert (E1 : flat_map (contrib src s e) pre = []).
    { clear - Hpre. induction pre as [|x pre IH]; [reflexivity|]. cbn [flat_map].
      rewrite (contrib_before src s e x) by (apply Hpre; left; reflexivity). apply IH. intros j Hj. apply Hpre. right. exact Hj. }
    rewrite E1. cbn [app]. f_equal.
    - unfold contrib, headB. replace (Z.max s (istart i)) with s by lia. destruct (ikind i =? IndentKind); [|reflexivity].
      rewrite Z.sub_0_r. destruct (Z.ltb_spec s (Z.min e (iend i))); destruct (Z.ltb_spec s e); try lia; reflexivity.
    - pose proof (WF_rest_sorted src s e i rest HW) as Hrs.
      assert (Hne : forall j, In j rest -> istart j < e -> istart j < iend j) by (intros j Hj Hl; apply NE; [apply Hsub; right; exact Hj|exact Hl]).
      clear - Hrs Hne His. unfold tailB. induction rest as [|x rest IH]; [reflexivity|]. cbn [flat_map]. f_equal.
      + destruct (Hrs x (or_introl eq_refl)) as [V S']. unfold contrib, cfrom. replace (Z.max s (istart x)) with (istart x) by lia.
        destruct (ikind x =? IndentKind); [|reflexivity].
        destruct (Z.ltb_spec (istart x) e) as [L|L].
        * specialize (Hne x (or_introl eq_refl) L). destruct (Z.ltb_spec (istart x) (Z.min e (iend x))); [reflexivity|lia].
        * destruct (Z.ltb_spec (istart x) (Z.min e (iend x))); [lia|reflexivity].
      + apply IH; intros j Hj; [apply Hrs|apply Hne]; right; exact Hj. }
  rewrite (tlr_loop_G e (G src s e) (G_done src s e) (G_step src s e) fuel _ _ [] HG Hfuel). reflexivity.
Qed.
Print Assumptions label_norm_spans.

(* ---- the fuel of the callers suffices: the label has at most len src + ibudget spans bytes ---- *)
Lemma sub_len_le (l : bytes) a b : len (sub l a b) <= Z.max 0 (b - a).
Proof. unfold sub, upto, len. rewrite firstn_length. lia. Qed.

Lemma labelBytes_len src s e : forall l lo0, spW src l = true -> lo0 <= len src ->
  (forall j, In j l -> lo0 <= istart j) ->
  (forall j, In j l -> istart j < e -> ikind j = IndentKind -> iend j = istart j + 1) ->
  len (flat_map (contrib src s e) l) <= len src - lo0 + ibudget l.
Proof.
  induction l as [|x l IH]; intros lo0 W Hlo Hge HI.
  - cbn [flat_map ibudget]. rewrite sl_len_nil. lia.
  - destruct (spW_cons _ _ _ W) as (A & B & C & D & W'). cbn [flat_map ibudget]. rewrite sl_len_app.
    specialize (IH (iend x) W' C D (fun j Hj => HI j (or_intror Hj))).
    specialize (Hge x (or_introl eq_refl)).
    assert (Hx : len (contrib src s e x) <= iend x - istart x + (if ikind x =? IndentKind then Z.max 0 (iindent x) else 0)).
    { unfold contrib. destruct (Z.eqb_spec (ikind x) IndentKind) as [Ek|Ek].
      - destruct (Z.ltb_spec (Z.max s (istart x)) (Z.min e (iend x))) as [L|L]; [|rewrite sl_len_nil; lia].
        rewrite (HI x (or_introl eq_refl) ltac:(lia) Ek). unfold len. rewrite repeat_length. lia.
      - pose proof (sub_len_le src (Z.max s (istart x)) (Z.min e (iend x))). lia. }
    lia.
Qed.

Corollary label_norm_spans_fuel : forall src spans s e (fuel : nat),
  spW src spans = true -> Forall okK3 spans ->
  (forall j, In j spans -> istart j < e -> istart j < iend j /\ (ikind j = IndentKind -> iend j = istart j + 1)) ->
  (s < e -> exists i, In i spans /\ istart i <= s < iend i) ->
  (s < e -> exists j, In j spans /\ e <= iend j) ->
  (forall j p, In j spans -> istart j <= p < iend j -> s <= p < e -> at_ src p <> 0) ->
  len src + ibudget spans < Z.of_nat fuel ->
  transformLinkReferenceSpan fuel src spans s e = norm_label (labelBytes src spans s e).
Proof.
  intros src spans s e fuel W K NE HS HE NZ Hfuel. apply label_norm_spans; try assumption.
  pose proof (labelBytes_len src s e spans 0 W (sl_len_nonneg src)) as H.
  unfold labelBytes. unfold len in H at 1.
  assert (H' : Z.of_nat (length (flat_map (contrib src s e) spans)) <= len src - 0 + ibudget spans).
  { apply H; [intros j Hj; apply (spW_valid src spans W j Hj)|intros j Hj Hl Hk; apply (NE j Hj Hl), Hk]. }
  lia.
Qed.
Print Assumptions label_norm_spans_fuel.
