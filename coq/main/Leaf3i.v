From Coq Require Import List ZArith Lia Bool.
Import ListNotations.
Require Import Base Tables Utf8 Tree Rdr Link Collect Html Recog Inl3a Inl3b Inl3c Inl3d Inl3e Render Safe Leaf3a Leaf3b Leaf3c Leaf3d Leaf3e Leaf3f Leaf3g Leaf3h.
Open Scope Z_scope.

Section L3i.
  Variable src : bytes.
  Variable U : list inline.
  Hypothesis HU : Forall (fun u => gok 1 src (ofInline u) = true) U.
  Notation InvS := (InvS src U).

  Lemma plain_gokF tk spans l b : sublist spans U -> trivKind tk = true -> 1 <= b ->
    Forall (plainOrSpan tk spans) l -> gokF b src (kidsOf l) = true.
  Proof.
    intros Hs Ht Hb H. unfold gokF, kidsOf. apply forallb_forall. intros x Hx.
    apply in_map_iff in Hx. destruct Hx as (i & <- & Hi). rewrite Forall_forall in H. specialize (H i Hi).
    destruct H as [(s & e & ->)|(Hin & _)].
    - cbn [ofInline mkI map gok]. rewrite (localok_triv src tk _ _ Ht).
      replace (0 <? b) with true by (symmetry; apply Z.ltb_lt; lia). cbn. destruct (skipKind tk); reflexivity.
    - rewrite Forall_forall in HU. apply (gok_mono src _ 1 b Hb). apply HU, Hs, Hin.
  Qed.

  Lemma unpFrom_sub st : InvS st -> sublist (unpFrom st) U.
  Proof. intros (_ & E & _). unfold unpFrom, from_. rewrite E. apply sublist_skipn. Qed.

  Lemma S_istep st pos pl : InvS st -> InvS (fst (fst (istep st pos pl))).
  Proof.
    intros H. pose proof (proj1 H) as Esrc. unfold istep. cbv zeta. rewrite !Esrc.
    assert (HT : InvS (addText st pl pos)) by (apply S_addText; assumption).
    destruct ((_ =? 42) || (_ =? 95)).
    { pose proof (S_parseDelimiterRun src U _ pos HT) as H2. destruct (parseDelimiterRun _ pos) as [st2 e]. exact H2. }
    destruct (_ =? 91).
    { match goal with |- context [addNode ?a ?b ?c ?d ?e] =>
        pose proof (S_addNode src U a b c d e HT eq_refl (or_intror eq_refl)) as H2; destruct (addNode a b c d e) as [st2 id] end.
      cbn [fst] in *. apply S_setStk. assumption. }
    destruct (_ =? 93).
    { pose proof (S_parseEndBracket src U _ pos HT) as H2. destruct (parseEndBracket _ pos) as [st2 e]. exact H2. }
    destruct (_ =? 33).
    { destruct (_ || _); [exact H|].
      match goal with |- context [addNode ?a ?b ?c ?d ?e] =>
        pose proof (S_addNode src U a b c d e HT eq_refl (or_intror eq_refl)) as H2; destruct (addNode a b c d e) as [st2 id] end.
      cbn [fst] in *. apply S_setStk. assumption. }
    destruct (_ =? 32).
    { destruct (parseHardLineBreakSpace _) as [e ok]. destruct (ok && _); [|exact H].
      cbn [fst]. apply S_setIgn. apply S_addNode; [assumption|reflexivity|right; reflexivity]. }
    destruct (_ =? 96).
    { destruct (parseCodeSpan _ st pos) as [[cS cE] sE]. destruct (0 <=? sE); [|exact H].
      cbn [fst]. apply S_collectCodeSpan. assumption. }
    destruct (_ =? 60).
    { destruct (0 <=? parseAutolink _).
      - cbn [fst]. apply S_addNode; [assumption|reflexivity|right].
        apply flatF_gokF; [destruct HT as (_&_&?&_); lia|]. repeat constructor.
      - destruct (parseHTMLTag _ _) as [ts te]. destruct (negb _); [exact H|]. cbn [fst].
        apply S_advanceTo. 
        assert (HT' : InvS (addText st pl ts)) by (apply S_addText; assumption).
        apply S_addNode; [assumption|reflexivity|right].
        apply (plain_gokF RawHTMLKind (unpFrom (addText st pl ts))); [apply unpFrom_sub; assumption|reflexivity|destruct HT' as (_&_&?&_); lia|].
        apply collectTextNodes_noesc. cbn [newReader r_spans]. apply sublist_refl. }
    destruct (_ =? 92).
    { pose proof (S_parseBackslash src U _ pos HT) as H2. destruct (parseBackslash _ pos) as [st2 e]. exact H2. }
    destruct (_ =? 38).
    { destruct (parseCharacterEscape (sub src pos (spanEnd st)) <? 0) eqn:Ee; [exact H|]. cbn [fst].
      apply Z.ltb_ge in Ee.
      apply S_addNode; [assumption| |right; reflexivity].
      eapply charref_localok; [reflexivity|assumption]. }
    destruct (at_ src pos =? 10) eqn:E10.
    { cbn [fst]. destruct (negb _); [|assumption].
      apply S_addNode; [assumption| |right; reflexivity].
      apply Z.eqb_eq in E10. unfold localok. cbn. rewrite sub_one by lia. rewrite E10. reflexivity. }
    destruct (at_ src pos =? 13) eqn:E13.
    { cbn [fst]. destruct (negb _); [|assumption].
      apply Z.eqb_eq in E13.
      apply S_addNode; [assumption| |right; reflexivity].
      unfold localok. cbn.
      destruct ((pos + 1 <? spanEnd _) && (at_ src (pos + 1) =? 10)) eqn:Ew.
      - apply andb_true_iff in Ew. destruct Ew as [_ Ew]. apply Z.eqb_eq in Ew.
        rewrite sub_two by lia. rewrite E13, Ew. reflexivity.
      - rewrite sub_one by lia. rewrite E13. reflexivity. }
    exact H.
  Qed.
End L3i.
