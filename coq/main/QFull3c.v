(* QFull3c.v -- T64: block-layer facts about the leaves of a tab-free document D, relative to the source of their root block:
   kinds (paragraph, setext heading, ATX heading), entries Unparsed, bounds, entries of paragraphs are lines that end with LF or at the
   end of the source, an ATX heading has one entry and the byte behind it is not '>'. *)
From Coq Require Import List ZArith Lia Bool.
Import ListNotations.
Require Import Base Tree LP Rules Driver Inl3a Inl3e Props SliceBase BlockShapes SpanHypDef LADef LA1 LA13 LAOcp
  QuoteSimDefs QuoteSimLines QuoteSimSpec QPure2 QPure QPureA QPureB QRootEnd QFullDefs QFull1 QFull2 QFull3a QFull3b.
Open Scope Z_scope.

Lemma inB_down x b0 : QPure.inB x b0 -> forall c, In c (bkids x) -> QPure.inB c b0.
Proof.
  induction 1 as [|b c0 Hc0 Hin IH]; intros c Hc.
  - apply (QPure.inB_kid c x c Hc). apply QPure.inB_here.
  - apply (QPure.inB_kid c b c0 Hc0). apply IH, Hc.
Qed.
Lemma subB_inB x b0 : subB x b0 -> QPure.inB x b0.
Proof. induction 1 as [b|b c b0 Hs IH Hc]; [apply QPure.inB_here|apply (inB_down b b0 IH c Hc)]. Qed.
Lemma inBk_down x b0 : QPureA.inBk x b0 -> forall c, In c (bkids x) -> QPureA.inBk c b0.
Proof.
  induction 1 as [|b c0 Hc0 Hin IH]; intros c Hc.
  - apply (QPureA.inBk_kid c x c Hc). apply QPureA.inBk_here.
  - apply (QPureA.inBk_kid c b c0 Hc0). apply IH, Hc.
Qed.
Lemma subB_inBk x b0 : subB x b0 -> QPureA.inBk x b0.
Proof. induction 1 as [b|b c b0 Hs IH Hc]; [apply QPureA.inBk_here|apply (inBk_down b b0 IH c Hc)]. Qed.

Lemma la_sub src M b b0 : subB b b0 -> la src M b0 -> la src M b.
Proof.
  induction 1 as [b|b c b0 Hs IH Hc]; intros H; [exact H|]. specialize (IH H). apply la_eq in IH. destruct IH as (_ & _ & _ & _ & IH).
  apply (allQ_In _ _ _ IH Hc).
Qed.

Lemma ordX_entry : forall l lo hi u, ordered_inX lo hi l = true -> (forall x, In x l -> istart x <= iend x) -> In u l -> lo <= istart u /\ iend u <= hi.
Proof.
  induction l as [|x r IH]; intros lo hi u H Hv Hu; [destruct Hu|]. cbn [ordered_inX] in H.
  apply andb_true_iff in H. destruct H as [H Hr]. apply andb_true_iff in H. destruct H as [H1 H2]. apply Z.leb_le in H1, H2.
  destruct Hu as [<-|Hu]; [lia|]. pose proof (Hv x (or_introl eq_refl)).
  destruct (IH (iend x) hi u Hr (fun y Hy => Hv y (or_intror Hy)) Hu). lia.
Qed.

Section Doc.
  Variable D : bytes.
  Hypothesis HT : tabFree D.
  Hypothesis Hne : D <> [].
  Let Dtab := QFull2.D_tab D HT.
  Let Dcr := QFull2.D_cr D HT.
  Let Dnul := QFull2.D_nul D HT.
  Notation roots := (fst (parseBlocks D)).

  Lemma D_noTab9 : QPure2.noTab D.
  Proof. apply QPure.tabFree_noTab, HT. Qed.

  (* the root block: offsets, source *)
  Lemma root_geom r : In r roots ->
    0 <= rb_start r /\ rb_start r < rb_end r /\ rb_end r <= len D /\ rb_src r = sub D (rb_start r) (rb_end r) /\
    len (rb_src r) = rb_end r - rb_start r /\ bend (rb_blk r) = len (rb_src r) /\
    (rb_start r = 0 \/ at_ D (rb_start r - 1) = 10) /\ (rb_end r = len D \/ at_ D (rb_end r - 1) = 10) /\
    (forall x, 0 <= x < len (rb_src r) -> at_ (rb_src r) x = at_ D (rb_start r + x)).
  Proof.
    intros Hr. destruct (root_src D Dnul r Hr) as (A1 & A2 & A3 & A4 & A5 & A6).
    pose proof (parseBlocks_root_span D) as HS. pose proof (parseBlocks_root_starts D) as HB. pose proof (parseBlocks_root_ends D) as HE.
    rewrite Forall_forall in HS, HB, HE. specialize (HS r Hr). specialize (HB r Hr). specialize (HE r Hr). cbv beta in HS, HB, HE.
    assert (Ncr : forall x, 0 <= x < len D -> at_ D x <> 13) by (intros x Hx; apply (QuoteSimSpec.Forall_at (fun c => c <> 13)); [exact Dcr|exact Hx]).
    split; [lia|]. split; [lia|]. split; [lia|]. split; [exact A4|]. split; [exact A5|]. split; [exact A6|]. split; [|split].
    - destruct HB as [E|[E|E]]; [left; exact E|right; exact E|]. exfalso. destruct (Z.eq_dec (rb_start r) 0) as [Z0|N0]; [rewrite Z0 in E; rewrite ShapesBase.at_neg in E by lia; discriminate E|].
      apply (Ncr (rb_start r - 1)); [lia|exact E].
    - destruct HE as [E|[E|E]]; [left; exact E|right; exact E|]. exfalso. apply (Ncr (rb_end r - 1)); [lia|exact E].
    - intros x Hx. rewrite A4. apply ShapesBase.at_sub; lia.
  Qed.

  Lemma src_noCR r : In r roots -> forall x, 0 <= x < len (rb_src r) -> at_ (rb_src r) x <> 13.
  Proof.
    intros Hr x Hx. destruct (root_geom r Hr) as (G1 & G2 & G3 & _ & G5 & _ & _ & _ & G9). rewrite G9 by exact Hx.
    apply (QuoteSimSpec.Forall_at (fun c => c <> 13)); [exact Dcr|lia].
  Qed.

  (* lines accounted, relative to the root's own source *)
  Lemma root_la r : In r roots -> la (rb_src r) (len (rb_src r)) (rb_blk r).
  Proof.
    intros Hr.
    assert (Hg : SliceBase.noNul (pad D)) by (rewrite (SliceBase.pad_noNul D Dnul); exact Dnul).
    pose proof (parseBlocks_rootLA SliceBase.noNul (fun src _ => OcpLoopSpec_all src) (fun src n H => BlockShapes.noNul_upto src n H) (fun src n H => BlockShapes.noNul_from src n H) D Hg) as H.
    rewrite Forall_forall in H. destruct (H r Hr) as (raw & Hraw & _ & Es & _ & _ & Hla & _).
    rewrite (BlockShapes.fill_noNul raw Hraw) in Es. rewrite Es. exact Hla.
  Qed.
  Lemma leaf_la r b : In r roots -> subB b (rb_blk r) -> la (rb_src r) (len (rb_src r)) b.
  Proof. intros Hr Hb. apply (la_sub _ _ b (rb_blk r) Hb (root_la r Hr)). Qed.

  (* kinds *)
  Lemma leaf_kind r b : In r roots -> subB b (rb_blk r) -> isLeafU b = true ->
    (bkind b = ParagraphKind \/ bkind b = SetextHeadingKind \/ bkind b = ATXHeadingKind) /\ Forall (fun u => ikind u = UnparsedKind) (bik b).
  Proof.
    intros Hr Hb HL. destruct (parseBlocks_text_entries D D_noTab9 r b Hr (subB_inB b _ Hb)) as [T1 T2].
    destruct (Z.eq_dec (bkind b) ParagraphKind) as [E1|N1]; [split; [left; exact E1|apply T1; left; exact E1]|].
    destruct (Z.eq_dec (bkind b) SetextHeadingKind) as [E2|N2]; [split; [right; left; exact E2|apply T1; right; left; exact E2]|].
    destruct (Z.eq_dec (bkind b) ATXHeadingKind) as [E3|N3]; [split; [right; right; exact E3|apply T1; right; right; exact E3]|].
    exfalso. assert (N : ~ (bkind b = ParagraphKind \/ bkind b = SetextHeadingKind \/ bkind b = ATXHeadingKind)) by tauto.
    specialize (T2 N). unfold isLeafU in HL. apply andb_true_iff in HL. destruct HL as [_ HU]. unfold hasUnparsed in HU.
    apply existsb_exists in HU. destruct HU as (u & Hu & Ku). apply Z.eqb_eq in Ku. rewrite Forall_forall in T2. exact (T2 u Hu Ku).
  Qed.

  (* bounds from entriesOKX *)
  Lemma leaf_bounds r b u : In r roots -> subB b (rb_blk r) -> isLeafU b = true -> In u (bik b) ->
    0 <= istart u /\ istart u <= iend u /\ iend u <= len (rb_src r) /\ bstart b <= istart u /\ iend u <= bend b.
  Proof.
    intros Hr Hb HL Hu. pose proof (leaf_entriesOKX D (KidsNil_holds D HT Hne) r b Hr Hb HL) as H. unfold entriesOKX in H.
    apply andb_true_iff in H. destruct H as [H _]. apply andb_true_iff in H. destruct H as [H _]. apply andb_true_iff in H. destruct H as [H _].
    apply andb_true_iff in H. destruct H as [H _]. unfold entriesBasicX in H. apply andb_true_iff in H. destruct H as [HO HS].
    rewrite forallb_forall in HS.
    assert (Hv : forall x, In x (bik b) -> 0 <= istart x /\ istart x <= iend x /\ iend x <= len (rb_src r)).
    { intros x Hx. specialize (HS x Hx). destruct x as [k s e ind rf ks]. cbn [spansI] in HS. cbn [istart iend].
      apply andb_true_iff in HS. destruct HS as [HS _]. apply andb_true_iff in HS. destruct HS as [HS _]. apply andb_true_iff in HS. destruct HS as [HS _].
      apply andb_true_iff in HS. destruct HS as [HS _]. unfold span_valid in HS. apply andb_true_iff in HS. destruct HS as [HS H3].
      apply andb_true_iff in HS. destruct HS as [H1 H2]. apply Z.leb_le in H1, H2, H3. lia. }
    destruct (ordX_entry (bik b) _ _ u HO (fun x Hx => proj1 (proj2 (Hv x Hx))) Hu). destruct (Hv u Hu) as (V1 & V2 & V3). lia.
  Qed.
  Lemma leaf_block_bounds r b : In r roots -> subB b (rb_blk r) -> 0 <= bstart b /\ bend b <= len (rb_src r).
  Proof.
    intros Hr Hb. pose proof (leaf_la r b Hr Hb) as H. apply la_eq in H. destruct H as (A & B & _). split; [lia|]. destruct B as [B|B]; lia.
  Qed.

  (* the entries of a paragraph or setext heading: lines *)
  Lemma para_entry r b u : In r roots -> subB b (rb_blk r) -> isLeafU b = true -> (bkind b = ParagraphKind \/ bkind b = SetextHeadingKind) -> In u (bik b) ->
    istart u < iend u /\ (iend u = len (rb_src r) \/ at_ (rb_src r) (iend u - 1) = 10).
  Proof.
    intros Hr Hb HL Hk Hu. destruct (leaf_kind r b Hr Hb HL) as [_ HU]. rewrite Forall_forall in HU. specialize (HU u Hu).
    destruct (leaf_bounds r b u Hr Hb HL Hu) as (B1 & B2 & B3 & _).
    pose proof (leaf_la r b Hr Hb) as H. apply la_eq in H. destruct H as (_ & _ & _ & Hbody & _). unfold body in Hbody.
    assert (Ek : isLeafK (bkind b) = true) by (destruct Hk as [-> | ->]; reflexivity). rewrite Ek in Hbody. destruct Hbody as (_ & He & _).
    rewrite Forall_forall in He. destruct (He u Hu) as (_ & Hp & _).
    assert (Ep : isParaK (bkind b) = true) by (destruct Hk as [-> | ->]; reflexivity). specialize (Hp Ep).
    destruct Hp as [(Ki & _)|(_ & L1 & _ & _ & L4)]; [rewrite HU in Ki; discriminate Ki|].
    split; [exact L1|]. destruct L4 as [L4|L4]; [left; exact L4|right].
    unfold LADef.isEOLz in L4. apply orb_true_iff in L4. destruct L4 as [L4|L4]; apply Z.eqb_eq in L4; [exact L4|].
    exfalso. apply (src_noCR r Hr (iend u - 1)); [lia|exact L4].
  Qed.

  (* an ATX heading: one entry, the byte behind it *)
  Lemma atx_entry r b : In r roots -> subB b (rb_blk r) -> isLeafU b = true -> bkind b = ATXHeadingKind ->
    exists u, bik b = [u] /\ (istart u < iend u -> iend u < len (rb_src r) -> at_ (rb_src r) (iend u) <> 62).
  Proof.
    intros Hr Hb HL Hk. pose proof HL as HL0. destruct (parseBlocks_atx_entries D r b Hr (subB_inBk b _ Hb) Hk) as [_ Hlen].
    unfold isLeafU in HL. apply andb_true_iff in HL. destruct HL as [Hpos _]. apply Z.ltb_lt in Hpos.
    destruct (bik b) as [|u [|v rest]] eqn:Eb; [change (len (@nil inline)) with 0 in Hpos; lia| |exfalso; unfold len in Hlen; cbn [length] in Hlen; lia].
    exists u. split; [reflexivity|]. intros Hse Hlt.
    assert (Hu : In u (bik b)) by (rewrite Eb; left; reflexivity).
    destruct (leaf_bounds r b u Hr Hb HL0 Hu) as (B1 & _).
    assert (Hn0 : ~ In 0 D) by (intros Hin; pose proof Dnul as X; unfold SliceBase.noNul in X; rewrite Forall_forall in X; exact (X 0 Hin eq_refl)).
    pose proof (parseBlocks_atx_after_noNul D Hn0 r b Hr (subB_inBk b _ Hb) Hk u Hu Hse ltac:(lia)) as Hin.
    intros E62. rewrite E62 in Hin. destruct Hin as [H|[H|[H|[H|[H|[]]]]]]; discriminate H.
  Qed.
End Doc.
