From Coq Require Import List ZArith Lia Bool.
Import ListNotations.
Require Import Base Tables Utf8 Tree Rdr Link Collect Html Recog Inl3a Inl3b Inl3c Inl3d Inl3e IFBase
  EolCRLFDefs EolGenCrlfRdrDefs EolGenCrlfRdrStep EolGenCrlfRdrLink3
  EolCRLFFullScanCode EolCRLFFullScanCodeRange EolCRLFFullScanLink EolCRLFFullScanKind EolCRLFFullScanLabel EolCRLFFullScanShape EolCRLFFullScanRef.
Open Scope Z_scope.

(* sanity checks by computation: the hypotheses of the simulation theorems are satisfiable and the two sides are the
   non-trivial values one expects (a code span / a link / a label running over line endings, two spans with an Indent entry) *)
Definition mkSt (src : bytes) (sp : list inline) : ist :=
  {| rk := []; isrc := src; unp := sp; upos := 0; stk := []; ign := false; nid := 0; rootEnd := 0; matcher := [] |}.
(* "a `x\ny` [l\nk](u\n 't\nt') z\n\tw" *)
Definition T1 : bytes := [97;32;96;120;10;121;96;32;91;108;10;107;93;40;117;10;32;39;116;10;116;39;41;32;122;10;9;119].
Definition Sp1 : list inline := [mkI UnparsedKind 0 26; Inl IndentKind 26 27 3 [] []; mkI UnparsedKind 27 28].
Definition SPIb (R : bytes) (Eb : Z) (sp : list inline) : bool :=
  spW R sp && forallb readableK sp && forallb neSp sp && forallb (indOK1 R) sp && forallb (fun u => iend u <=? Eb) sp.
Lemma SPIb_ok R Eb sp : SPIb R Eb sp = true -> SPI R Eb sp.
Proof. unfold SPIb. intros H. repeat (apply andb_true_iff in H; destruct H as [H ?]). repeat split; assumption. Qed.
Lemma T1_13 : ~ In 13 T1. Proof. cbn. intuition discriminate. Qed.
Lemma T1_SPI : SPI T1 (len T1) Sp1. Proof. apply SPIb_ok. vm_compute. reflexivity. Qed.

Example code_R : parseCodeSpan 100 (mkSt T1 Sp1) 2 = (3, 6, 7). Proof. vm_compute. reflexivity. Qed.
Example code_R' : parseCodeSpan 100 (mkSt (crlf T1) (map (phiI T1) Sp1)) (phiP T1 2) = (3, 7, 8). Proof. vm_compute. reflexivity. Qed.
Example code_thm : parseCodeSpan 100 (mkSt (crlf T1) (map (phiI T1) Sp1)) (phiP T1 2) =
  (let '(a, b, c) := parseCodeSpan 100 (mkSt T1 Sp1) 2 in (phiP T1 a, phiP T1 b, phiP T1 c)).
Proof. apply (parseCodeSpan_sim T1 (len T1) T1_13); first [exact T1_SPI|vm_compute; reflexivity]. Qed.

Example link_R : parseInlineLink 100 (mkSt T1 Sp1) 13 = ((13, 23), ((14, 15), (14, 15)), ((17, 22), (18, 21))). Proof. vm_compute. reflexivity. Qed.
Example link_R' : parseInlineLink 100 (mkSt (crlf T1) (map (phiI T1) Sp1)) (phiP T1 13) = ((15, 27), ((16, 17), (16, 17)), ((20, 26), (21, 25))).
Proof. vm_compute. reflexivity. Qed.
Example link_thm : parseInlineLink 100 (mkSt (crlf T1) (map (phiI T1) Sp1)) (phiP T1 13) =
  (let '(i, (d, dt), (t, tt0)) := parseInlineLink 100 (mkSt T1 Sp1) 13 in (mapS T1 i, (mapS T1 d, mapS T1 dt), (mapS T1 t, mapS T1 tt0))).
Proof. apply (parseInlineLink_sim T1 (len T1) T1_13); first [exact T1_SPI|vm_compute; reflexivity|vm_compute; discriminate]. Qed.

(* label over collected nodes: the range [23, 28) contains an LF, an Indent entry and a second span *)
Example coll_R : collectTextNodes 100 (newReader T1 Sp1 23) 28 TextKind false = [mkI TextKind 23 26; Inl IndentKind 26 27 3 [] []; mkI TextKind 27 28].
Proof. vm_compute. reflexivity. Qed.
Example ref_R : transformLinkReference 100 T1 (collectTextNodes 100 (newReader T1 Sp1 23) 28 TextKind false) = [122; 32; 119].
Proof. vm_compute. reflexivity. Qed.
Example ref_R' : transformLinkReference 100 (crlf T1) (collectTextNodes 100 (newReader (crlf T1) (map (phiI T1) Sp1) (phiP T1 23)) (phiP T1 28) TextKind false) = [122; 32; 119].
Proof. vm_compute. reflexivity. Qed.
Example ref_thm := collected_label_sim T1 (len T1) T1_13 100 100 Sp1 23 28 T1_SPI.
