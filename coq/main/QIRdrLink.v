(* QIRdrLink.v -- T64: QRdrLink.v (T58) ported to the generalised base QIRdrBase: the scanners of Link.v (skipLinkSpace,
   skipSpacesAndTabs, readEOL, parseLinkLabel, parseLinkDestination, parseLinkTitle) on two related readers
   (QIRdrBase.RR sD sQ sg IK true): same decisions, positions related by sg, ends of the form q + 1 |-> sg q + 1.
   New with respect to QRdrLink.v:
     * the reader may be exhausted INSIDE a line, behind the last span (ExhMid): both sides see the same byte, `next` fails
       without moving and without recording the previous position (lemma ExhMid_step);
     * sQ may continue behind the image of sD: the end of sD is mapped to sgEnd (EndR_end : EndR (len sD) sgEnd);
     * positions that are claimed to lie inside a span of IK (InIK) are those where the reader is inside a node (InNode).
   Changed statements (everything else is verbatim):
     EndR_end       EndR (len sD) sgEnd   (was: EndR (len sD) (len sQ))
     q_next_end     extra hypothesis InNode r                  q_step   extra hypothesis InNode r
     EolR           third alternative  e = 0 /\ e' = 0 /\ RR r r' /\ ExhMid r   (readEOL at a line end while exhausted inside a line
                    with no previous position: the model returns r_prev + 1 = 0 on both sides)
     q_ll_body      extra hypothesis InNode r
     q_ld_bare      the "position unchanged" alternative has the extra reason ExhMid r
     SpTxR          third alternative: the empty destination (p, p) of parseLinkDestination on a reader exhausted inside a line
     InIK_succ      replaced by InIK_between (needs a later position inside IK, because the last span may end inside a line).
   Added: ExhMid_step, next_ok_node, InNode_InIK, fail_all (a failing step inside a node: all spans of IK lie behind), ld_angle_exh,
   lt_loop_exh, RR_new_mid / behind_mvS / Behind / *_trim (a reader created with spans at a position behind all of them behaves like
   the reader without spans, which satisfies RR). *)
From Coq Require Import List ZArith Lia Bool.
Import ListNotations.
Require Import Base Tree Rdr Link Collect ShapesBase ShapesR IFBase IFLink QuoteSimMap QIRdrBase.
Open Scope Z_scope.

Section QL.
  Variables (sD sQ : bytes) (sg : Z -> Z) (IK : list inline).
  Hypothesis S : SGood sD sQ sg.
  Hypothesis IKw : spW sD IK = true.
  Hypothesis IKg : Forall (gsp sD sg IK) IK.
  Notation RR := (RR sD sQ sg IK true).
  Notation RX := (RX sD sQ sg IK).
  Notation InIK := (InIK IK).
  Notation sgE := (sgE sD sg).
  Notation sgEnd := (sgEnd sD sg).
  Notation ExhMid := (ExhMid sD IK).

  (* an end: one past a byte of sD *)
  Definition EndR (e e' : Z) : Prop := exists q, 0 <= q < len sD /\ e = q + 1 /\ e' = sg q + 1.
  (* a position *)
  Definition PosR (p p' : Z) : Prop := 0 <= p <= len sD /\ p' = sgE p.

  Lemma RR_pos r r' : RR r r' -> PosR (r_pos r) (r_pos r').
  Proof. intros (_ & _ & _ & _ & _ & _ & (P & _) & P' & _). split; assumption. Qed.
  Lemma RR_srcs r r' : RR r r' -> r_src r = sD /\ r_src r' = sQ. Proof. intros (A & B & _). split; assumption. Qed.
  Lemma RR_prev r r' : RR r r' -> PrevR sD sg (r_prev r) (r_prev r').
  Proof. intros (_ & _ & _ & _ & _ & _ & _ & _ & PV & _). exact PV. Qed.

  Ltac cpair H r r' c r1 r1' Hn E E' :=
    let Ec := fresh "Ec" in let c' := fresh "c'" in
    pose proof (bRR_current sD sQ sg IK true S r r' H) as [Ec Hn];
    destruct (current r) as [c r1] eqn:E; destruct (current r') as [c' r1'] eqn:E'; cbn [fst snd] in Ec, Hn; subst c'.
  Ltac npair H r r' ok r1 r1' Hn E E' :=
    let Ec := fresh "Eo" in let ok' := fresh "ok'" in
    pose proof (bRR_next sD sQ sg IK true S IKw r r' H) as (Ec & Hn);
    destruct (next r) as [ok r1] eqn:E; destruct (next r') as [ok' r1'] eqn:E'; cbn [fst snd] in Ec, Hn; subst ok'.

  (* the byte that `current` returned, when it is not 0 *)
  Lemma cur_byte r r' c r1 : RR r r' -> current r = (c, r1) -> c <> 0 -> r_pos r < len sD /\ at_ sD (r_pos r) = c.
  Proof. intros H E N. pose proof (bRR_current_nz sD sQ sg IK true S r r' H) as X. rewrite E in X. cbn [fst] in X. destruct (X N) as [A B]. split; [exact A|symmetry; exact B]. Qed.
  Lemma cur_pos r c r1 : current r = (c, r1) -> r_pos r1 = r_pos r /\ r_prev r1 = r_prev r.
  Proof. intros E. pose proof (current_fields r) as F. rewrite E in F. cbn [snd] in F. split; apply F. Qed.

  (* ---------------------------------------------------------------- inside a node / exhausted inside a line *)
  Lemma RR_mid r r' : RR r r' -> r_pos r < len sD -> InNode r \/ ExhMid r.
  Proof. intros H L. apply (bRR_inside sD sQ sg IK true S r r' eq_refl H L). Qed.
  Lemma ExhMid_not r : ExhMid r -> InNode r -> False.
  Proof. intros (E & _) (n & En). rewrite E in En. discriminate En. Qed.
  Lemma next_ok_has r : fst (next r) = true -> InNode r.
  Proof. unfold next, InNode. destruct (curNode r) as [[n|] r1]; cbn [fst]; [intros _; exists n; reflexivity|discriminate]. Qed.
  Lemma InNode_cur r c r1 : InNode r -> current r = (c, r1) -> InNode r1.
  Proof. intros H E. pose proof (InNode_current r H) as X. rewrite E in X. exact X. Qed.
  Lemma ExhMid_curNode r : ExhMid r -> ExhMid (snd (curNode r)).
  Proof.
    intros (E & A & B & C). pose proof (curNode_fields r) as (_ & Ep & _). cbv zeta in Ep. unfold QIRdrBase.ExhMid. rewrite curNode_idem, Ep.
    split; [exact E|]. split; [exact A|]. split; [exact B|exact C].
  Qed.
  Lemma ExhMid_current r : ExhMid r -> ExhMid (snd (current r)).
  Proof. intros H. destruct (current_snd r) as [E|E]; rewrite E; [exact H|apply ExhMid_curNode, H]. Qed.
  Lemma ExhMid_cur r c r1 : ExhMid r -> current r = (c, r1) -> ExhMid r1.
  Proof. intros H E. pose proof (ExhMid_current r H) as X. rewrite E in X. exact X. Qed.
  (* the step of a reader that is exhausted inside a line: it fails and nothing moves *)
  Lemma ExhMid_step r r' : RR r r' -> ExhMid r ->
    fst (next r) = false /\ fst (next r') = false /\ RR (snd (next r)) (snd (next r')) /\ ExhMid (snd (next r)) /\
    r_pos (snd (next r)) = r_pos r /\ r_pos (snd (next r')) = r_pos r' /\ r_prev (snd (next r)) = r_prev r /\ r_prev (snd (next r')) = r_prev r'.
  Proof.
    intros H X. pose proof (ExhMid_next sD IK r X) as E. destruct (bRR_curNode sD sQ sg IK true S r r' H) as [E1 E2].
    pose proof X as (E0 & _). rewrite E0 in E1. cbn [option_map] in E1.
    assert (E' : next r' = (false, snd (curNode r'))) by (unfold next; destruct (curNode r') as [n r1']; cbn [fst snd] in *; subst n; reflexivity).
    rewrite E, E'. cbn [fst snd]. pose proof (curNode_fields r) as (_ & F1 & _ & F2). pose proof (curNode_fields r') as (_ & F1' & _ & F2'). cbv zeta in *.
    split; [reflexivity|]. split; [reflexivity|]. split; [exact E2|]. split; [apply ExhMid_curNode, X|]. repeat split; assumption.
  Qed.
  (* a position where the reader is inside a node lies inside a span of IK *)
  Lemma InNode_InIK r r' : RR r r' -> InNode r -> InIK (r_pos r).
  Proof.
    intros H (n & En). destruct (bRR_curNode_in sD sQ sg IK true S r r' n H En) as (_ & Hin & _). exists n. split; [|exact Hin].
    pose proof H as (_ & _ & _ & _ & _ & _ & _ & _ & _ & _ & (pre0 & SX)).
    destruct (curNode_cases r) as [E0|(pre & m & rest & E1 & E0 & _)]; rewrite E0 in En; cbn [fst] in En; [discriminate En|]. inversion En; subst m.
    rewrite SX, E1. apply in_or_app. right. apply in_or_app. right. left. reflexivity.
  Qed.
  Lemma InNode_lt r r' : RR r r' -> InNode r -> r_pos r < len sD.
  Proof. intros H (n & En). apply (bRR_curNode_in sD sQ sg IK true S r r' n H En). Qed.
  (* after a successful step the reader is inside a node *)
  Lemma next_ok_node r r' : RR r r' -> fst (next r) = true -> InNode (snd (next r)).
  Proof.
    intros H Hok. pose proof (bRR_next sD sQ sg IK true S IKw r r' H) as (_ & D & _ & _).
    destruct D as [D|[D _]]; [|rewrite Hok in D; discriminate D]. pose proof D as (_ & _ & _ & G & _).
    destruct (next r) as [ok r1] eqn:En. cbn [fst snd] in *. subst ok.
    destruct (next_true r r1 En) as (node & rest & Ec & Hh & _ & _ & _ & Cs). pose proof (spanHas_range _ _ Hh) as (R1 & R2 & R3).
    destruct Cs as [(Ek & _)|[(Ek & Ep & Ee & Es)|(pre' & j & rest' & _ & Es & Ep & _)]].
    - exfalso. destruct (bRR_curNode_in sD sQ sg IK true S r r' node H ltac:(rewrite Ec; reflexivity)) as ((_ & _ & _ & _ & Gk & _) & _). rewrite Gk in Ek. discriminate Ek.
    - exists node. rewrite (curNode_head node rest r1 Es); [reflexivity|]. apply spanHas_intro; lia.
    - rewrite Es in G. inversion G as [|? ? (Ga & Gb & _) _]; subst. exists j. rewrite (curNode_head j rest' r1 Es); [reflexivity|]. apply spanHas_intro; lia.
  Qed.

  (* ---------------------------------------------------------------- skipLinkSpace *)
  Lemma q_sls_loop : forall f r r', RR r r' ->
    fst (skipLinkSpace_loop f r') = fst (skipLinkSpace_loop f r) /\
    (fst (skipLinkSpace_loop f r) = true -> RR (snd (skipLinkSpace_loop f r)) (snd (skipLinkSpace_loop f r'))).
  Proof.
    induction f as [|f IH]; intros r r' H; [split; [reflexivity|intros _; exact H]|]. cbn [skipLinkSpace_loop].
    cpair H r r' c r1 r1' H1 Ec1 Ec1'. destruct (isSpaceTabOrLineEnding c); [|split; [reflexivity|intros _; exact H1]].
    npair H1 r1 r1' ok r2 r2' H2 En2 En2'. destruct H2 as (H2 & _ & _). destruct ok; [|split; [reflexivity|discriminate]].
    destruct H2 as [X|[X _]]; [apply IH, X|discriminate X].
  Qed.
  Lemma q_skipLinkSpace f r r' : RR r r' ->
    fst (skipLinkSpace f r') = fst (skipLinkSpace f r) /\ (fst (skipLinkSpace f r) = true -> RR (snd (skipLinkSpace f r)) (snd (skipLinkSpace f r'))).
  Proof.
    intros H. unfold skipLinkSpace. cpair H r r' c r1 r1' H1 Ec1 Ec1'. destruct (c =? 0); [split; [reflexivity|discriminate]|]. apply q_sls_loop, H1.
  Qed.

  (* ---------------------------------------------------------------- skipSpacesAndTabs, readEOL (with adequate fuel) *)
  Lemma pos_at_end r r' c r1 : RR r r' -> current r = (c, r1) -> c = 0 -> r_pos r = len sD.
  Proof.
    intros H E E0. pose proof H as (_ & _ & _ & _ & _ & _ & (P & _) & _). destruct (Z.eq_dec (r_pos r) (len sD)) as [El|Nl]; [exact El|]. exfalso.
    pose proof (bRR_current_raw sD sQ sg IK true S r r' H ltac:(lia)) as X. rewrite E in X. cbn [fst] in X. apply (SG_nonul _ _ _ S (r_pos r)); [lia|]. rewrite <- X. exact E0.
  Qed.
  Lemma EndR_end : EndR (len sD) sgEnd.
  Proof. pose proof (SG_pos _ _ _ S). exists (len sD - 1). split; [lia|]. split; [lia|]. reflexivity. Qed.
  (* a position behind a byte that is not a line feed *)
  Lemma EndR_mid p : 0 < p <= len sD -> (at_ sD (p - 1) <> 10 \/ p = len sD) -> EndR p (sgE p).
  Proof.
    intros Hp N. exists (p - 1). split; [lia|]. split; [lia|]. replace p with (p - 1 + 1) at 1 by lia. apply (bsgE_succ sD sQ sg S); [lia|].
    destruct N as [N|N]; [left; exact N|right; lia].
  Qed.

  Lemma q_sst : forall f r r', RR r r' -> nu sD r < Z.of_nat f ->
    fst (skipSpacesAndTabs f r') = fst (skipSpacesAndTabs f r) /\
    (fst (skipSpacesAndTabs f r) = true -> RR (snd (skipSpacesAndTabs f r)) (snd (skipSpacesAndTabs f r'))) /\
    (fst (skipSpacesAndTabs f r) = false ->
       EndR (r_pos (snd (skipSpacesAndTabs f r))) (r_pos (snd (skipSpacesAndTabs f r'))) /\
       (RR (snd (skipSpacesAndTabs f r)) (snd (skipSpacesAndTabs f r')) \/ RX (snd (skipSpacesAndTabs f r)) (snd (skipSpacesAndTabs f r')))).
  Proof.
    induction f as [|f IH]; intros r r' H Hnu.
    { exfalso. pose proof (nu_nonneg sD r (RR_PL _ _ _ _ _ _ _ H)). lia. }
    cbn [skipSpacesAndTabs]. pose proof (RR_PL _ _ _ _ _ _ _ H) as HPL. pose proof (cur_facts sD r HPL) as (HP1 & Hn1 & Hq1).
    cpair H r r' c r1 r1' H1 Ec1 Ec1'. cbn [snd] in HP1, Hn1, Hq1.
    destruct (isSpTab c) eqn:Esp.
    - assert (Nc : c <> 0) by (intros ->; discriminate Esp).
      destruct (cur_byte r r' c r1 H Ec1 Nc) as [Hlt Hat].
      destruct (RR_mid r1 r1' H1 ltac:(lia)) as [HN|HX].
      + pose proof (next_W sD r1 HP1) as (_ & _ & _ & Hdec & _).
        pose proof (bRR_next_fail sD sQ sg IK true S r1 r1' H1 HN) as Hfail.
        npair H1 r1 r1' ok r2 r2' H2 En2 En2'. cbn [fst snd] in Hdec, Hfail. destruct H2 as (H2 & _ & _). destruct ok.
        * destruct H2 as [X|[X _]]; [|discriminate X]. apply IH; [exact X|]. specialize (Hdec eq_refl). lia.
        * cbn [fst snd]. split; [reflexivity|]. split; [discriminate|]. intros _. destruct (Hfail eq_refl ltac:(lia)) as (F1 & F2 & _).
          split; [exists (r_pos r1); rewrite F1, F2, Hq1; repeat split; try lia; pose proof H as (_ & _ & _ & _ & _ & _ & (P & _) & _); lia|].
          destruct H2 as [X|[_ X]]; [left; exact X|right; exact X].
      + destruct (ExhMid_step r1 r1' H1 HX) as (F1 & F2 & F3 & _ & F5 & F6 & _).
        destruct (next r1) as [ok r2]. destruct (next r1') as [ok' r2']. cbn [fst snd] in *. subst ok ok'. cbn [fst snd].
        split; [reflexivity|]. split; [discriminate|]. intros _. split; [|left; exact F3].
        destruct HX as (_ & X1 & X2 & _). destruct (RR_pos _ _ H1) as [_ P1']. rewrite F5, F6, P1'. apply EndR_mid; [lia|left; exact X2].
    - cbn [fst snd]. split; [reflexivity|]. destruct (Z.eqb_spec c 0) as [E0|N0]; cbn [negb].
      + split; [discriminate|]. intros _. split; [|left; exact H1].
        pose proof (pos_at_end r r' c r1 H Ec1 E0) as El. pose proof (RR_pos _ _ H1) as [_ Pq]. rewrite Hq1, El in *. rewrite Pq.
        rewrite (bsgE_end sD sg). apply EndR_end.
      + split; [intros _; exact H1|discriminate].
  Qed.

  (* one step, and the end just behind the byte that was left *)
  Lemma q_next_end r r' : RR r r' -> InNode r -> r_pos r < len sD ->
    r_prev (snd (next r)) = r_pos r /\ r_prev (snd (next r')) = sg (r_pos r) /\
    EndR (r_prev (snd (next r)) + 1) (r_prev (snd (next r')) + 1) /\
    (RR (snd (next r)) (snd (next r')) \/ RX (snd (next r)) (snd (next r'))).
  Proof.
    intros H HN L. pose proof H as (_ & _ & _ & _ & _ & _ & (P & _) & _).
    pose proof (bRR_next sD sQ sg IK true S IKw r r' H) as (E & D & _ & N4). pose proof (bRR_next_fail sD sQ sg IK true S r r' H HN) as NF.
    assert (X : r_prev (snd (next r)) = r_pos r /\ r_prev (snd (next r')) = sg (r_pos r)).
    { destruct (fst (next r)); [destruct (N4 eq_refl) as (A & _ & B); split; assumption|destruct (NF eq_refl L) as (_ & _ & A & B); split; assumption]. }
    destruct X as [X1 X2]. split; [exact X1|]. split; [exact X2|]. split; [exists (r_pos r); rewrite X1, X2; repeat split; lia|].
    destruct D as [D|[_ D]]; [left; exact D|right; exact D].
  Qed.

  (* the result of readEOL: no line end (-1); an end behind a byte of sD; or -- new -- the reader is exhausted inside a line at a line
     end and has no previous position: the model returns r_prev + 1 = 0 on both sides *)
  Definition EolR (e e' : Z) (r r' : reader) : Prop :=
    (e = -1 /\ e' = -1 /\ RR r r') \/ (EndR e e' /\ (RR r r' \/ RX r r')) \/ (e = 0 /\ e' = 0 /\ RR r r' /\ ExhMid r).

  Lemma EolR_prev x x' : RR x x' -> ExhMid x -> EolR (r_prev x + 1) (r_prev x' + 1) x x'.
  Proof.
    intros H X. destruct (RR_prev x x' H) as [[A B]|[A B]].
    - right. right. rewrite A, B. split; [reflexivity|]. split; [reflexivity|]. split; [exact H|exact X].
    - right. left. split; [exists (r_prev x); rewrite B; repeat split; lia|left; exact H].
  Qed.

  Lemma q_readEOL f r r' : RR r r' -> nu sD r < Z.of_nat f ->
    EolR (fst (readEOL f r)) (fst (readEOL f r')) (snd (readEOL f r)) (snd (readEOL f r')).
  Proof.
    intros H Hnu. unfold readEOL. destruct (q_sst f r r' H Hnu) as (E1 & T & Fl).
    destruct (skipSpacesAndTabs f r) as [ok r1]. destruct (skipSpacesAndTabs f r') as [ok' r1']. cbn [fst snd] in E1, T, Fl. subst ok'.
    destruct ok; cbn [negb]; [|right; left; cbn [fst snd]; apply Fl; reflexivity].
    specialize (T eq_refl). clear Fl. cpair T r1 r1' c r2 r2' H2 Ec2 Ec2'.
    assert (Hc : c <> 0 -> r_pos r2 < len sD).
    { intros N. destruct (cur_byte r1 r1' c r2 T Ec2 N) as [A _]. destruct (cur_pos r1 c r2 Ec2) as [B _]. lia. }
    assert (Hnext : forall x x' : reader, RR x x' -> r_pos x < len sD ->
               EolR (fst (let '(_, r3) := next x in (r_prev r3 + 1, r3))) (fst (let '(_, r3) := next x' in (r_prev r3 + 1, r3)))
                    (snd (let '(_, r3) := next x in (r_prev r3 + 1, r3))) (snd (let '(_, r3) := next x' in (r_prev r3 + 1, r3)))).
    { intros x x' Hx Lx. destruct (RR_mid x x' Hx Lx) as [HN|HX].
      - destruct (q_next_end x x' Hx HN Lx) as (_ & _ & A & B). destruct (next x) as [? x3]. destruct (next x') as [? x3']. cbn [fst snd] in *. right. left. split; assumption.
      - destruct (ExhMid_step x x' Hx HX) as (_ & _ & F3 & F4 & _ & _ & F7 & F8). destruct (next x) as [? x3]. destruct (next x') as [? x3']. cbn [fst snd] in *.
        apply (EolR_prev x3 x3' F3 F4). }
    destruct (Z.eqb_spec c 13) as [E13|N13].
    - specialize (Hc ltac:(lia)). destruct (RR_mid r2 r2' H2 Hc) as [HN2|HX2].
      2:{ destruct (ExhMid_step r2 r2' H2 HX2) as (F1 & F2 & F3 & F4 & _). destruct (next r2) as [ok2 r3]. destruct (next r2') as [ok2' r3']. cbn [fst snd] in *. subst ok2 ok2'. cbn [negb fst snd].
          apply (EolR_prev r3 r3' F3 F4). }
      destruct (q_next_end r2 r2' H2 HN2 Hc) as (P1 & P2 & A & B).
      pose proof (bRR_next sD sQ sg IK true S IKw r2 r2' H2) as (Eo & Dj & _ & _).
      destruct (next r2) as [ok2 r3]. destruct (next r2') as [ok2' r3']. cbn [fst snd] in *. subst ok2'.
      destruct ok2; cbn [negb]; [|right; left; cbn [fst snd]; split; assumption].
      destruct Dj as [H3|[X _]]; [|discriminate X]. cpair H3 r3 r3' c2 r4 r4' H4 Ec4 Ec4'. destruct (cur_pos r3 c2 r4 Ec4) as [Q1 Q2]. destruct (cur_pos r3' c2 r4' Ec4') as [Q1' Q2'].
      destruct (Z.eqb_spec c2 10) as [E10|N10].
      + apply Hnext; [exact H4|]. destruct (cur_byte r3 r3' c2 r4 H3 Ec4 ltac:(lia)) as [A0 _]. lia.
      + right. left. cbn [fst snd]. rewrite Q2, Q2'. split; [exact A|left; exact H4].
    - destruct (Z.eqb_spec c 10) as [E10|N10].
      + apply Hnext; [exact H2|apply Hc; lia].
      + left. cbn [fst snd]. split; [reflexivity|]. split; [reflexivity|exact H2].
  Qed.

  (* ---------------------------------------------------------------- parseLinkLabel *)
  Lemma RR_pos_in r r' : RR r r' -> r_pos r < len sD -> r_pos r' = sg (r_pos r).
  Proof. intros H L. destruct (RR_pos _ _ H) as [_ E]. rewrite E. apply (bsgE_in sD sQ sg S), L. Qed.
  Lemma next_mono r r' : RR r r' -> r_pos r <= r_pos (snd (next r)).
  Proof. intros H. apply (next_W sD r (RR_PL _ _ _ _ _ _ _ H)). Qed.
  Lemma next_end_fails r r' : RR r r' -> r_pos r = len sD -> fst (next r) = false.
  Proof.
    intros H E. pose proof (bRR_next sD sQ sg IK true S IKw r r' H) as (_ & _ & _ & N4). destruct (fst (next r)); [|reflexivity].
    destruct (N4 eq_refl) as (_ & L & _). lia.
  Qed.

  Definition OptR {A} (x x' : option (reader * A)) (P : reader -> A -> reader -> A -> Prop) : Prop :=
    match x, x' with None, None => True | Some (a, u), Some (a', u') => P a u a' u' | _, _ => False end.

  Lemma q_ll_skip : forall f r r' ch, RR r r' ->
    OptR (ll_skip f r ch) (ll_skip f r' ch) (fun x c1 x' c1' => c1' = c1 /\ RR x x' /\ r_pos r <= r_pos x < len sD /\ InNode x).
  Proof.
    induction f as [|f IH]; intros r r' ch H; [exact I|]. cbn [ll_skip].
    pose proof (next_mono r r' H) as Hm. pose proof (bRR_next_in sD sQ sg IK true S r r' H) as Hin. pose proof (next_ok_node r r' H) as HN.
    npair H r r' ok r1 r1' H1 En1 En1'. cbn [fst snd] in Hm, Hin, HN. destruct H1 as (H1 & _ & _). destruct ok; cbn [negb]; [|exact I].
    destruct H1 as [H1|[X _]]; [|discriminate X]. specialize (Hin eq_refl). specialize (HN eq_refl).
    cpair H1 r1 r1' c r2 r2' H2 Ec2 Ec2'. destruct (cur_pos r1 c r2 Ec2) as [Q _]. pose proof (InNode_cur r1 c r2 HN Ec2) as HN2.
    destruct (_ || _ || _); [exact I|]. destruct (negb (isSpaceTabOrLineEnding c)).
    - cbn. split; [reflexivity|]. split; [exact H2|]. split; [lia|exact HN2].
    - specialize (IH r2 r2' (ch + 1) H2). unfold OptR in *. destruct (ll_skip f r2 (ch + 1)) as [[x c1]|]; destruct (ll_skip f r2' (ch + 1)) as [[x' c1']|]; try exact IH.
      destruct IH as (A & B & C & D). split; [exact A|]. split; [exact B|]. split; [lia|exact D].
  Qed.

  (* the inner end of a label: -1, or one past a byte that is not a line feed, at or after lo *)
  Definition IER (lo ie ie' : Z) : Prop :=
    (ie = -1 /\ ie' = -1) \/ (exists q, lo <= q < len sD /\ at_ sD q <> 10 /\ ie = q + 1 /\ ie' = sg q + 1 /\ InIK q).
  Lemma IER_here lo r r' c r1 : RR r r' -> InNode r -> current r = (c, r1) -> c <> 0 -> negb (isSpaceTabOrLineEnding c) = true -> lo <= r_pos r ->
    IER lo (r_pos r + 1) (r_pos r' + 1).
  Proof.
    intros H HN E N Hs Hlo. destruct (cur_byte r r' c r1 H E N) as [L A]. right. exists (r_pos r). split; [destruct (RR_pos _ _ H); lia|].
    split; [rewrite A; intros ->; discriminate Hs|]. split; [reflexivity|]. split; [rewrite (RR_pos_in r r' H L); reflexivity|apply (InNode_InIK r r' H HN)].
  Qed.

  Lemma q_ll_body : forall f r r' ch lo ie ie', RR r r' -> InNode r -> lo <= r_pos r -> IER lo ie ie' ->
    OptR (ll_body f r ch ie) (ll_body f r' ch ie') (fun x e x' e' => RR x x' /\ IER lo e e' /\ r_pos r <= r_pos x).
  Proof.
    induction f as [|f IH]; intros r r' ch lo ie ie' H HN Hlo Hie; [exact I|]. cbn [ll_body].
    cpair H r r' c r1 r1' H1 Ec1 Ec1'. destruct (cur_pos r c r1 Ec1) as [Q1 _]. destruct (cur_pos r' c r1' Ec1') as [Q1' _].
    destruct (negb _); [cbn; split; [exact H1|split; [exact Hie|lia]]|].
    (* a step from r1; when the byte is 0 the reader is at the end and the step fails *)
    assert (Hstep : forall (x x' : reader) cx x1, RR x x' -> current x = (cx, x1) -> cx = 0 -> fst (next x1) = false /\ fst (next (snd (current x'))) = false).
    { intros x x' cx x1 Hx Ex E0. pose proof (pos_at_end x x' cx x1 Hx Ex E0) as El. pose proof (bRR_current sD sQ sg IK true S x x' Hx) as [_ Hx1].
      rewrite Ex in Hx1. cbn [snd] in Hx1. destruct (cur_pos x cx x1 Ex) as [Qx _].
      pose proof (next_end_fails x1 _ Hx1 ltac:(lia)) as F. split; [exact F|]. pose proof (bRR_next sD sQ sg IK true S IKw _ _ Hx1) as (Eo & _). rewrite Eo. exact F. }
    destruct (Z.eqb_spec c 92) as [E92|N92].
    - assert (Hie1 : IER lo (r_pos r1 + 1) (r_pos r1' + 1)).
      { rewrite Q1, Q1'. apply (IER_here lo r r' c r1 H HN Ec1); [lia|subst c; reflexivity|exact Hlo]. }
      pose proof (next_mono r1 r1' H1) as Hm1. pose proof (next_ok_node r1 r1' H1) as HN2.
      npair H1 r1 r1' ok r2 r2' H2 En2 En2'. cbn [fst snd] in Hm1, HN2. destruct H2 as (H2 & _ & _). destruct ok; cbn [negb]; [|exact I].
      destruct H2 as [H2|[X _]]; [|discriminate X]. specialize (HN2 eq_refl).
      cpair H2 r2 r2' c2 r3 r3' H3 Ec3 Ec3'. destruct (cur_pos r2 c2 r3 Ec3) as [Q3 _]. destruct (cur_pos r2' c2 r3' Ec3') as [Q3' _].
      destruct (Z.eq_dec c2 0) as [E0|N0].
      + destruct (Hstep r2 r2' c2 r3 H2 Ec3 E0) as [F1 F2]. rewrite Ec3' in F2. cbn [snd] in F2.
        destruct (next r3) as [ok3 r4]. destruct (next r3') as [ok3' r4']. cbn [fst] in F1, F2. subst ok3 ok3'. exact I.
      + assert (Hie3 : IER lo (if negb (isSpaceTabOrLineEnding c2) then r_pos r3 + 1 else r_pos r1 + 1)
                             (if negb (isSpaceTabOrLineEnding c2) then r_pos r3' + 1 else r_pos r1' + 1)).
        { destruct (negb (isSpaceTabOrLineEnding c2)) eqn:Es; [|exact Hie1]. rewrite Q3, Q3'. apply (IER_here lo r2 r2' c2 r3 H2 HN2 Ec3 N0 Es). lia. }
        pose proof (next_mono r3 r3' H3) as Hm3. pose proof (next_ok_node r3 r3' H3) as HN4.
        npair H3 r3 r3' ok3 r4 r4' H4 En4 En4'. cbn [fst snd] in Hm3, HN4. destruct H4 as (H4 & _ & _). destruct ok3; cbn [negb]; [|exact I].
        destruct H4 as [H4|[X _]]; [|discriminate X].
        specialize (IH r4 r4' (ch + 1 + 1) lo _ _ H4 (HN4 eq_refl) ltac:(lia) Hie3). unfold OptR in *.
        destruct (ll_body f r4 _ _) as [[x e]|]; destruct (ll_body f r4' _ _) as [[x' e']|]; try exact IH. destruct IH as (A & B & C). split; [exact A|]. split; [exact B|lia].
    - destruct (Z.eq_dec c 0) as [E0|N0].
      + destruct (Hstep r r' c r1 H Ec1 E0) as [F1 F2]. rewrite Ec1' in F2. cbn [snd] in F2.
        destruct (next r1) as [ok1 r2]. destruct (next r1') as [ok1' r2']. cbn [fst] in F1, F2. subst ok1 ok1'. exact I.
      + assert (Hie1 : IER lo (if negb (isSpaceTabOrLineEnding c) then r_pos r1 + 1 else ie) (if negb (isSpaceTabOrLineEnding c) then r_pos r1' + 1 else ie')).
        { destruct (negb (isSpaceTabOrLineEnding c)) eqn:Es; [|exact Hie]. rewrite Q1, Q1'. apply (IER_here lo r r' c r1 H HN Ec1 N0 Es Hlo). }
        pose proof (next_mono r1 r1' H1) as Hm1. pose proof (next_ok_node r1 r1' H1) as HN2.
        npair H1 r1 r1' ok r2 r2' H2 En2 En2'. cbn [fst snd] in Hm1, HN2. destruct H2 as (H2 & _ & _). destruct ok; cbn [negb]; [|exact I].
        destruct H2 as [H2|[X _]]; [|discriminate X].
        specialize (IH r2 r2' (ch + 1) lo _ _ H2 (HN2 eq_refl) ltac:(lia) Hie1). unfold OptR in *.
        destruct (ll_body f r2 _ _) as [[x e]|]; destruct (ll_body f r2' _ _) as [[x' e']|]; try exact IH. destruct IH as (A & B & C). split; [exact A|]. split; [exact B|lia].
  Qed.

  (* the result of parseLinkLabel *)
  Definition LabR (ls li : Z * Z) (x : reader) (ls' li' : Z * Z) (x' : reader) : Prop :=
    (ls = nullSpan /\ ls' = nullSpan) \/
    (RR x x' /\ 0 <= fst ls < len sD /\ fst ls' = sg (fst ls) /\ EndR (snd ls) (snd ls') /\
     fst ls <= fst li < len sD /\ fst li' = sg (fst li) /\ IER (fst li) (snd li) (snd li') /\ fst ls < snd ls /\ InIK (fst li)).

  Lemma q_parseLinkLabel f r r' : RR r r' ->
    LabR (fst (fst (parseLinkLabel f r))) (snd (fst (parseLinkLabel f r))) (snd (parseLinkLabel f r))
         (fst (fst (parseLinkLabel f r'))) (snd (fst (parseLinkLabel f r'))) (snd (parseLinkLabel f r')).
  Proof.
    intros H. unfold parseLinkLabel. cpair H r r' c r0 r0' H0 Ec0 Ec0'. destruct (cur_pos r c r0 Ec0) as [Q0 _].
    destruct (Z.eqb_spec c 91) as [E91|N91]; cbn [negb]; [|left; split; reflexivity].
    destruct (cur_byte r r' c r0 H Ec0 ltac:(lia)) as [L0 A0].
    pose proof (q_ll_skip f r0 r0' 0 H0) as HS. unfold OptR in HS.
    destruct (ll_skip f r0 0) as [[r1 chars]|]; destruct (ll_skip f r0' 0) as [[r1' chars']|]; try (exfalso; exact HS); [|left; split; reflexivity].
    destruct HS as (-> & H1 & P1 & HN1).
    pose proof (q_ll_body f r1 r1' chars (r_pos r1) (-1) (-1) H1 HN1 ltac:(lia) ltac:(left; split; reflexivity)) as HB. unfold OptR in HB.
    destruct (ll_body f r1 chars (-1)) as [[r2 ie]|]; destruct (ll_body f r1' chars (-1)) as [[r2' ie']|]; try (exfalso; exact HB); [|left; split; reflexivity].
    destruct HB as (H2 & Hie & P2).
    cpair H2 r2 r2' c2 r3 r3' H3 Ec3 Ec3'. destruct (cur_pos r2 c2 r3 Ec3) as [Q3 _]. destruct (cur_pos r2' c2 r3' Ec3') as [Q3' _].
    destruct (Z.eqb_spec c2 93) as [E93|N93]; cbn [negb]; [|left; split; reflexivity].
    destruct (cur_byte r2 r2' c2 r3 H2 Ec3 ltac:(lia)) as [L2 A2].
    pose proof (bRR_next sD sQ sg IK true S IKw r3 r3' H3) as (_ & _ & N3 & _).
    destruct (next r3) as [ok4 r4]. destruct (next r3') as [ok4' r4']. cbn [fst snd] in *.
    right. split; [apply N3; rewrite Q3, A2; lia|]. pose proof (RR_pos _ _ H0) as [Pz _]. cbn [fst snd].
    split; [lia|]. split; [rewrite (RR_pos_in r0 r0' H0); [reflexivity|lia]|].
    split; [exists (r_pos r3); rewrite (RR_pos_in r3 r3' H3) by lia; repeat split; lia|].
    split; [lia|]. split; [apply (RR_pos_in r1 r1' H1); lia|]. split; [exact Hie|]. split; [lia|apply (InNode_InIK r1 r1' H1 HN1)].
  Qed.

  (* ---------------------------------------------------------------- destination and title *)
  (* a step away from a byte that is not a line feed *)
  Lemma q_step r r' : RR r r' -> InNode r -> r_pos r < len sD -> at_ sD (r_pos r) <> 10 ->
    fst (next r') = fst (next r) /\ RR (snd (next r)) (snd (next r')) /\ r_pos (snd (next r)) = r_pos r + 1 /\
    r_prev (snd (next r)) = r_pos r /\ r_prev (snd (next r')) = sg (r_pos r).
  Proof.
    intros H HN L N. pose proof (bRR_next sD sQ sg IK true S IKw r r' H) as (E & _ & N3 & _). destruct (q_next_end r r' H HN L) as (P1 & P2 & _).
    split; [exact E|]. split; [apply N3, N|]. split; [|split; assumption].
    destruct (fst (next r)) eqn:Ef; [apply (bRR_next_pos sD sQ sg IK true S r r' H Ef N)|apply (bRR_next_fail sD sQ sg IK true S r r' H HN Ef L)].
  Qed.

  (* a successful step moves forward (the spans are not Indent entries) *)
  Lemma q_next_strict r r' : RR r r' -> fst (next r) = true -> r_pos r < r_pos (snd (next r)).
  Proof.
    intros H Hok. pose proof (bRR_curNode sD sQ sg IK true S r r' H) as [_ Hrr].
    destruct (next r) as [ok r1] eqn:En. cbn [fst snd] in *. subst ok.
    destruct (next_true r r1 En) as (node & rest & Ec & Hh & _ & _ & _ & Cs). pose proof (spanHas_range _ _ Hh) as (R1 & R2 & R3).
    rewrite Ec in Hrr. cbn [snd] in Hrr. destruct Hrr as (_ & _ & _ & Grr & Wrr & _). cbn [withSpans r_spans] in Grr, Wrr.
    destruct Cs as [(Ek & _)|[(Ek & Ep & Ee & Es)|(pre' & j & rest' & Er & Es & Ep & Ej)]].
    - exfalso. inversion Grr as [|? ? (_ & _ & _ & _ & Gk & _) _]; subst. rewrite Gk in Ek. discriminate Ek.
    - lia.
    - inversion Grr as [|? ? (_ & _ & _ & _ & Gk & _) _]; subst. destruct Ej as [Ej|Ej]; [rewrite Gk in Ej; discriminate Ej|].
      pose proof (spW_cons _ _ _ Wrr) as (_ & _ & _ & D & _). specialize (D j ltac:(apply in_or_app; right; left; reflexivity)). lia.
  Qed.

  (* spans delimited by an opening byte at st and a closing byte at q: (st, q + 1) and the text (st + 1, q) *)
  Definition DelimR (sp tx : Z * Z) (x : reader) (sp' tx' : Z * Z) (x' : reader) (st st' : Z) : Prop :=
    (sp = nullSpan /\ sp' = nullSpan) \/
    (RR x x' /\ exists q, st < q < len sD /\ sp = (st, q + 1) /\ tx = (st + 1, q) /\ sp' = (st', sg q + 1) /\ tx' = (st' + 1, sg q) /\ InIK q).

  Lemma q_ld_angle : forall f r r' st st', RR r r' -> st <= r_pos r ->
    DelimR (fst (fst (ld_angle f r st))) (snd (fst (ld_angle f r st))) (snd (ld_angle f r st))
           (fst (fst (ld_angle f r' st'))) (snd (fst (ld_angle f r' st'))) (snd (ld_angle f r' st')) st st'.
  Proof.
    induction f as [|f IH]; intros r r' st st' H Hst; [left; split; reflexivity|]. cbn [ld_angle].
    pose proof (q_next_strict r r' H) as Hm. pose proof (bRR_next_in sD sQ sg IK true S r r' H) as Hin. pose proof (next_ok_node r r' H) as HN1.
    npair H r r' ok r1 r1' H1 En1 En1'. cbn [fst snd] in Hm, Hin, HN1. destruct H1 as (H1 & _ & _). destruct ok; cbn [negb]; [|left; split; reflexivity].
    destruct H1 as [H1|[X _]]; [|discriminate X]. specialize (Hin eq_refl). specialize (Hm eq_refl). specialize (HN1 eq_refl).
    assert (Hlt : st < r_pos r1) by lia.
    cpair H1 r1 r1' c r2 r2' H2 Ec2 Ec2'. destruct (cur_pos r1 c r2 Ec2) as [Q2 _]. destruct (cur_pos r1' c r2' Ec2') as [Q2' _].
    pose proof (InNode_cur r1 c r2 HN1 Ec2) as HN2.
    destruct (_ || _); [left; split; reflexivity|].
    destruct (Z.eqb_spec c 92) as [E92|N92].
    - pose proof (next_mono r2 r2' H2) as Hm2.
      npair H2 r2 r2' ok2 r3 r3' H3 En3 En3'. cbn [fst snd] in Hm2. destruct H3 as (H3 & _ & _). destruct ok2; cbn [negb]; [|left; split; reflexivity].
      destruct H3 as [H3|[X _]]; [|discriminate X]. cpair H3 r3 r3' c3 r4 r4' H4 Ec4 Ec4'. destruct (cur_pos r3 c3 r4 Ec4) as [Q4 _].
      destruct (_ || _); [left; split; reflexivity|]. apply IH; [exact H4|lia].
    - destruct (Z.eqb_spec c 62) as [E62|N62]; [|apply IH; [exact H2|lia]].
      destruct (cur_byte r1 r1' c r2 H1 Ec2 ltac:(lia)) as [L1 A1].
      destruct (q_step r2 r2' H2 HN2 ltac:(lia) ltac:(rewrite Q2, A1; lia)) as (_ & Hr3 & _ & Pv & Pv').
      destruct (next r2) as [ok3 r3]. destruct (next r2') as [ok3' r3']. cbn [fst snd] in *.
      right. split; [exact Hr3|]. exists (r_pos r1). rewrite Pv, Pv', Q2. split; [lia|]. split; [reflexivity|]. split; [reflexivity|]. split; [reflexivity|]. split; [reflexivity|]. apply (InNode_InIK r1 r1' H1 HN1).
  Qed.

  Lemma q_lt_loop : forall f r r' st st' term, RR r r' -> st <= r_pos r -> term <> 10 ->
    DelimR (fst (fst (lt_loop f r st term))) (snd (fst (lt_loop f r st term))) (snd (lt_loop f r st term))
           (fst (fst (lt_loop f r' st' term))) (snd (fst (lt_loop f r' st' term))) (snd (lt_loop f r' st' term)) st st'.
  Proof.
    induction f as [|f IH]; intros r r' st st' term H Hst Ht; [left; split; reflexivity|]. cbn [lt_loop].
    pose proof (q_next_strict r r' H) as Hm. pose proof (next_ok_node r r' H) as HN1.
    npair H r r' ok r1 r1' H1 En1 En1'. cbn [fst snd] in Hm, HN1. destruct H1 as (H1 & _ & _). destruct ok; cbn [negb]; [|left; split; reflexivity].
    destruct H1 as [H1|[X _]]; [|discriminate X]. specialize (Hm eq_refl). specialize (HN1 eq_refl).
    cpair H1 r1 r1' c r2 r2' H2 Ec2 Ec2'. destruct (cur_pos r1 c r2 Ec2) as [Q2 _]. pose proof (InNode_cur r1 c r2 HN1 Ec2) as HN2.
    destruct (Z.eqb_spec c 92) as [E92|N92].
    - pose proof (next_mono r2 r2' H2) as Hm2.
      npair H2 r2 r2' ok2 r3 r3' H3 En3 En3'. cbn [fst snd] in Hm2. destruct H3 as (H3 & _ & _). destruct ok2; cbn [negb]; [|left; split; reflexivity].
      destruct H3 as [H3|[X _]]; [|discriminate X]. apply IH; [exact H3|lia|exact Ht].
    - destruct (Z.eqb_spec c term) as [Et|Nt]; [|apply IH; [exact H2|lia|exact Ht]].
      pose proof (InNode_lt r1 r1' H1 HN1) as L1.
      assert (A1 : at_ sD (r_pos r1) = c).
      { pose proof (bRR_current_raw sD sQ sg IK true S r1 r1' H1 L1) as X. rewrite Ec2 in X. cbn [fst] in X. symmetry. exact X. }
      destruct (q_step r2 r2' H2 HN2 ltac:(lia) ltac:(rewrite Q2, A1; lia)) as (_ & Hr3 & _ & Pv & Pv').
      destruct (next r2) as [ok3 r3]. destruct (next r2') as [ok3' r3']. cbn [fst snd] in *.
      right. split; [exact Hr3|]. exists (r_pos r1). rewrite Pv, Pv', Q2. split; [lia|]. split; [reflexivity|]. split; [reflexivity|]. split; [reflexivity|]. split; [reflexivity|]. apply (InNode_InIK r1 r1' H1 HN1).
  Qed.

  (* on a reader that is exhausted inside a line the two delimited scanners fail at once *)
  Lemma ld_angle_exh f r r' st st' : RR r r' -> ExhMid r ->
    fst (fst (ld_angle f r st)) = nullSpan /\ fst (fst (ld_angle f r' st')) = nullSpan.
  Proof.
    intros H X. destruct f as [|f]; [split; reflexivity|]. cbn [ld_angle]. destruct (ExhMid_step r r' H X) as (F1 & F2 & _).
    destruct (next r) as [ok r1]. destruct (next r') as [ok' r1']. cbn [fst] in F1, F2. subst ok ok'. split; reflexivity.
  Qed.
  Lemma lt_loop_exh f r r' st st' term : RR r r' -> ExhMid r ->
    fst (fst (lt_loop f r st term)) = nullSpan /\ fst (fst (lt_loop f r' st' term)) = nullSpan.
  Proof.
    intros H X. destruct f as [|f]; [split; reflexivity|]. cbn [lt_loop]. destruct (ExhMid_step r r' H X) as (F1 & F2 & _).
    destruct (next r) as [ok r1]. destruct (next r') as [ok' r1']. cbn [fst] in F1, F2. subst ok ok'. split; reflexivity.
  Qed.

  (* the bare destination *)
  Definition NL (x : Z) : Prop := at_ sD x <> 10 /\ InIK x.
  Lemma q_ld_bare : forall f r r' paren, RR r r' ->
    RR (ld_bare f r paren) (ld_bare f r' paren) /\
    ((r_pos (ld_bare f r paren) = r_pos r /\
      (f = O \/ isASCIIControl (fst (current r)) || (fst (current r) =? 32) = true \/ (fst (current r) = 41 /\ paren - 1 < 0) \/ ExhMid (ld_bare f r paren))) \/
     (InNode r /\ r_pos r < r_pos (ld_bare f r paren) /\ NL (r_pos (ld_bare f r paren) - 1))).
  Proof.
    induction f as [|f IH]; intros r r' paren H; [split; [exact H|left; split; [reflexivity|left; reflexivity]]|]. cbn [ld_bare].
    cpair H r r' c r1 r1' H1 Ec1 Ec1'. destruct (cur_pos r c r1 Ec1) as [Q1 _].
    destruct (isASCIIControl c || (c =? 32)) eqn:Ectl; [split; [exact H1|left; split; [exact Q1|right; left; cbn [fst]; exact Ectl]]|].
    assert (Nc0 : c <> 0) by (intros ->; discriminate Ectl). assert (Nc10 : c <> 10) by (intros ->; discriminate Ectl).
    destruct (cur_byte r r' c r1 H Ec1 Nc0) as [L A].
    destruct (RR_mid r r' H L) as [HN|HX].
    2:{ (* exhausted inside a line: every step fails *)
        pose proof (ExhMid_cur r c r1 HX Ec1) as HX1.
        destruct (ExhMid_step r1 r1' H1 HX1) as (F1 & F2 & F3 & F4 & F5 & _).
        destruct (next r1) as [ok r2]. destruct (next r1') as [ok' r2']. cbn [fst snd] in F1, F2, F3, F4, F5. subst ok ok'. cbn [negb].
        assert (Hres : forall pr : Z, RR r2 r2' /\
                  ((r_pos r2 = r_pos r /\ (Datatypes.S f = O \/ isASCIIControl (fst (c, r1)) || (fst (c, r1) =? 32) = true \/ (fst (c, r1) = 41 /\ pr - 1 < 0) \/ ExhMid r2)) \/
                   (InNode r /\ r_pos r < r_pos r2 /\ NL (r_pos r2 - 1)))).
        { intros pr. split; [exact F3|]. left. split; [lia|]. right. right. right. exact F4. }
        destruct (c =? 92); [apply Hres|]. destruct (c =? 40); [apply Hres|]. destruct (c =? 41); [|apply Hres].
        destruct (paren - 1 <? 0); [|apply Hres]. split; [exact H1|]. left. split; [exact Q1|]. right. right. right. exact HX1. }
    pose proof (InNode_cur r c r1 HN Ec1) as HN1.
    assert (HNL : NL (r_pos r)) by (split; [rewrite A; exact Nc10|apply (InNode_InIK r r' H HN)]).
    (* one consuming step from r1, then the rest *)
    assert (Hcons : forall k : reader -> reader, (forall x x', RR x x' -> RR (k x) (k x') /\ (r_pos (k x) = r_pos x \/ (r_pos x < r_pos (k x) /\ NL (r_pos (k x) - 1)))) ->
              RR (let '(ok, r2) := next r1 in if ok then k r2 else r2) (let '(ok, r2) := next r1' in if ok then k r2 else r2) /\
              (r_pos r < r_pos (let '(ok, r2) := next r1 in if ok then k r2 else r2) /\ NL (r_pos (let '(ok, r2) := next r1 in if ok then k r2 else r2) - 1))).
    { intros k Hk. destruct (q_step r1 r1' H1 HN1 ltac:(lia) ltac:(rewrite Q1, A; exact Nc10)) as (Eo & Hr2 & Ep & _).
      destruct (next r1) as [ok r2]. destruct (next r1') as [ok' r2']. cbn [fst snd] in *. subst ok'. destruct ok.
      - destruct (Hk r2 r2' Hr2) as [K1 K2]. split; [exact K1|]. destruct K2 as [K2|[K2 K3]]; [rewrite K2, Ep, Q1; replace (r_pos r + 1 - 1) with (r_pos r) by lia; split; [lia|exact HNL]|split; [lia|exact K3]].
      - split; [exact Hr2|]. rewrite Ep, Q1. replace (r_pos r + 1 - 1) with (r_pos r) by lia. split; [lia|exact HNL]. }
    assert (Hmk : forall (A0 B0 : reader), RR A0 B0 /\ (r_pos r < r_pos A0 /\ NL (r_pos A0 - 1)) ->
               RR A0 B0 /\ ((r_pos A0 = r_pos r /\ (Datatypes.S f = O \/ isASCIIControl (fst (c, r1)) || (fst (c, r1) =? 32) = true \/ (fst (c, r1) = 41 /\ paren - 1 < 0) \/ ExhMid A0)) \/
                            (InNode r /\ r_pos r < r_pos A0 /\ NL (r_pos A0 - 1)))) by (intros A0 B0 [X Y]; split; [exact X|right; split; [exact HN|exact Y]]).
    assert (IH' : forall pr x x', RR x x' -> RR (ld_bare f x pr) (ld_bare f x' pr) /\ (r_pos (ld_bare f x pr) = r_pos x \/ (r_pos x < r_pos (ld_bare f x pr) /\ NL (r_pos (ld_bare f x pr) - 1)))).
    { intros pr x x' Hx. destruct (IH x x' pr Hx) as [K1 [[K2 _]|[_ K2]]]; (split; [exact K1|]); [left; exact K2|right; exact K2]. }
    destruct (Z.eqb_spec c 92) as [E92|N92].
    - (* an escape: two bytes *)
      destruct (q_step r1 r1' H1 HN1 ltac:(lia) ltac:(rewrite Q1, A; exact Nc10)) as (Eo & Hr2 & Ep & _).
      pose proof (next_ok_node r1 r1' H1) as HN2.
      destruct (next r1) as [ok r2]. destruct (next r1') as [ok' r2']. cbn [fst snd] in *. subst ok'.
      assert (Hp2 : r_pos r < r_pos r2 /\ NL (r_pos r2 - 1)) by (rewrite Ep, Q1; replace (r_pos r + 1 - 1) with (r_pos r) by lia; split; [lia|exact HNL]).
      destruct ok; cbn [negb]; [|apply Hmk; split; [exact Hr2|exact Hp2]]. specialize (HN2 eq_refl).
      cpair Hr2 r2 r2' c2 r3 r3' H3 Ec3 Ec3'. destruct (cur_pos r2 c2 r3 Ec3) as [Q3 _]. pose proof (InNode_cur r2 c2 r3 HN2 Ec3) as HN3.
      destruct (isASCIIControl c2 || (c2 =? 32)) eqn:Ectl2; [apply Hmk; split; [exact H3|rewrite Q3; exact Hp2]|].
      assert (Nc20 : c2 <> 0) by (intros ->; discriminate Ectl2). assert (Nc210 : c2 <> 10) by (intros ->; discriminate Ectl2).
      destruct (cur_byte r2 r2' c2 r3 Hr2 Ec3 Nc20) as [L2 A2].
      assert (HNL2 : NL (r_pos r2)) by (split; [rewrite A2; exact Nc210|apply (InNode_InIK r2 r2' Hr2 HN2)]).
      destruct (q_step r3 r3' H3 HN3 ltac:(lia) ltac:(rewrite Q3, A2; exact Nc210)) as (Eo4 & Hr4 & Ep4 & _).
      destruct (next r3) as [ok4 r4]. destruct (next r3') as [ok4' r4']. cbn [fst snd] in *. subst ok4'.
      assert (Hp4 : r_pos r < r_pos r4 /\ NL (r_pos r4 - 1)) by (rewrite Ep4, Q3; replace (r_pos r2 + 1 - 1) with (r_pos r2) by lia; split; [lia|exact HNL2]).
      destruct ok4; [|apply Hmk; split; [exact Hr4|exact Hp4]].
      destruct (IH' paren r4 r4' Hr4) as [K1 K2]. split; [exact K1|]. right. split; [exact HN|]. destruct K2 as [K2|[K2 K3]]; [rewrite K2; exact Hp4|split; [lia|exact K3]].
    - destruct (Z.eqb_spec c 40) as [E40|N40]; [apply Hmk, (Hcons (fun x => ld_bare f x (paren + 1))); intros x x' Hx; apply IH', Hx|].
      destruct (Z.eqb_spec c 41) as [E41|N41].
      + destruct (Z.ltb_spec (paren - 1) 0); [split; [exact H1|left; split; [exact Q1|right; right; left; cbn [fst]; split; [exact E41|assumption]]]|]. apply Hmk, (Hcons (fun x => ld_bare f x (paren - 1))). intros x x' Hx; apply IH', Hx.
      + apply Hmk, (Hcons (fun x => ld_bare f x paren)). intros x x' Hx; apply IH', Hx.
  Qed.

  (* a span with its text range *)
  (* the end of a text range: inside a span, or just behind a byte of a span that is not a line feed *)
  Definition EOKe (e : Z) : Prop := InIK e \/ (InIK (e - 1) /\ at_ sD (e - 1) <> 10).
  (* the third alternative is new: the empty destination found by parseLinkDestination on a reader that is exhausted inside a line
     in front of a byte that could start a destination (the first step fails at once) *)
  Definition SpTxR (sp tx : Z * Z) (x : reader) (sp' tx' : Z * Z) (x' : reader) : Prop :=
    (sp = nullSpan /\ sp' = nullSpan) \/
    (RR x x' /\ 0 <= fst sp < len sD /\ fst sp' = sg (fst sp) /\ fst sp < snd sp /\ EndR (snd sp) (snd sp') /\
     fst sp <= fst tx /\ fst tx <= snd tx /\ snd tx <= len sD /\ fst tx' = sgE (fst tx) /\ snd tx' = sgE (snd tx) /\
     InIK (fst tx) /\ EOKe (snd tx)) \/
    (RR x x' /\ ExhMid x /\ sp = (r_pos x, r_pos x) /\ tx = (r_pos x, r_pos x) /\ sp' = (r_pos x', r_pos x') /\ tx' = (r_pos x', r_pos x')).

  (* the byte behind p lies in the same span when p is not a line feed and some later position lies inside IK *)
  Lemma InIK_between p q : InIK p -> at_ sD p <> 10 -> InIK q -> p < q -> InIK (p + 1).
  Proof.
    intros (u & Hu & Hin) N (v & Hv & Hq) L. exists u. split; [exact Hu|].
    destruct (Z.eq_dec (p + 1) (iend u)) as [E|E]; [exfalso|lia].
    pose proof IKg as G. rewrite Forall_forall in G. destruct (G v Hv) as (_ & Gbv & Gcv & _).
    destruct (G u Hu) as (_ & Gb & Gc & _ & _ & [Gl|[Gl|(pre & Gl)]]).
    - apply N. replace p with (iend u - 1) by lia. exact Gl.
    - lia.
    - pose proof IKw as W. rewrite Gl in Hv, W. apply in_app_or in Hv. destruct Hv as [Hv|[<-|[]]]; [|lia].
      pose proof (QIRdrBase.spW_before sD pre u v W Hv). lia.
  Qed.

  Lemma DelimR_SpTxR sp tx x sp' tx' x' st st' : 0 <= st < len sD -> at_ sD st <> 10 -> st' = sg st -> InIK st ->
    DelimR sp tx x sp' tx' x' st st' -> SpTxR sp tx x sp' tx' x'.
  Proof.
    intros Hst N E Hi [D|(Hx & q & Hq & -> & -> & -> & -> & Hiq)]; [left; exact D|]. right. left. cbn [fst snd]. subst st'.
    split; [exact Hx|]. split; [lia|]. split; [reflexivity|]. split; [lia|]. split; [exists q; repeat split; lia|].
    split; [lia|]. split; [lia|]. split; [lia|]. split; [symmetry; apply (bsgE_succ sD sQ sg S); [lia|left; exact N]|].
    split; [symmetry; apply (bsgE_in sD sQ sg S); lia|]. split; [apply (InIK_between st q); [exact Hi|exact N|exact Hiq|lia]|left; exact Hiq].
  Qed.

  Lemma q_parseLinkDestination f r r' : RR r r' -> f <> O ->
    SpTxR (fst (fst (parseLinkDestination f r))) (snd (fst (parseLinkDestination f r))) (snd (parseLinkDestination f r))
          (fst (fst (parseLinkDestination f r'))) (snd (fst (parseLinkDestination f r'))) (snd (parseLinkDestination f r')).
  Proof.
    intros H Hf. unfold parseLinkDestination. cpair H r r' c r0 r0' H0 Ec0 Ec0'. destruct (cur_pos r c r0 Ec0) as [Q0 _]. destruct (cur_pos r' c r0' Ec0') as [Q0' _].
    pose proof (RR_pos _ _ H0) as [Pz Pz'].
    destruct (Z.eqb_spec c 60) as [E60|N60].
    - destruct (cur_byte r r' c r0 H Ec0 ltac:(lia)) as [L A].
      destruct (RR_mid r r' H L) as [HN|HX].
      + apply (DelimR_SpTxR _ _ _ _ _ _ (r_pos r0) (r_pos r0')); [lia|rewrite Q0, A; lia|apply (RR_pos_in r0 r0' H0); lia|rewrite Q0; apply (InNode_InIK r r' H HN)|].
        apply q_ld_angle; [exact H0|lia].
      + destruct (ld_angle_exh f r0 r0' (r_pos r0) (r_pos r0') H0 (ExhMid_cur r c r0 HX Ec0)) as [X1 X2]. left. split; assumption.
    - destruct (negb (isASCIIControl c) && negb (c =? 32) && negb (c =? 41)) eqn:Ecnd; [|left; split; reflexivity].
      apply andb_true_iff in Ecnd. destruct Ecnd as [Ecnd E41]. apply andb_true_iff in Ecnd. destruct Ecnd as [E1 E2]. apply negb_true_iff in E1, E2, E41.
      assert (Nc0 : c <> 0) by (intros ->; discriminate E1).
      destruct (cur_byte r r' c r0 H Ec0 Nc0) as [L A].
      destruct (q_ld_bare f r0 r0' 0 H0) as [Hb Hp]. cbn [fst snd].
      pose proof (current_current r) as CC. rewrite Ec0 in CC. cbn [snd] in CC. rewrite CC in Hp. cbn [fst] in Hp.
      pose proof (RR_pos _ _ Hb) as [Pb Pb'].
      destruct Hp as [[Hq [Hp|[Hp|[[Hp _]|Hp]]]]|(HN0 & Hp1 & [Hp2 Hp3])]; [contradiction|rewrite E1, E2 in Hp; cbn in Hp; discriminate Hp|rewrite Hp in E41; vm_compute in E41; discriminate E41| |].
      + (* exhausted inside a line: the empty destination *)
        right. right. split; [exact Hb|]. split; [exact Hp|]. rewrite Hq.
        assert (Eq' : r_pos (ld_bare f r0' 0) = r_pos r0') by (rewrite Pb', Hq, Pz'; reflexivity). rewrite Eq'. repeat split; reflexivity.
      + right. left. cbn [fst snd]. split; [exact Hb|]. split; [lia|]. split; [apply (RR_pos_in r0 r0' H0); lia|]. split; [lia|].
        split; [exists (r_pos (ld_bare f r0 0) - 1); split; [lia|]; split; [lia|]; rewrite Pb'; replace (r_pos (ld_bare f r0 0)) with (r_pos (ld_bare f r0 0) - 1 + 1) at 1 by lia; apply (bsgE_succ sD sQ sg S); [lia|left; exact Hp2]|].
        split; [lia|]. split; [lia|]. split; [lia|]. split; [rewrite (bsgE_in sD sQ sg S) by lia; apply (RR_pos_in r0 r0' H0); lia|]. split; [exact Pb'|].
        split; [apply (InNode_InIK r0 r0' H0 HN0)|right; split; [exact Hp3|exact Hp2]].
  Qed.

  Lemma q_parseLinkTitle f r r' : RR r r' ->
    SpTxR (fst (fst (parseLinkTitle f r))) (snd (fst (parseLinkTitle f r))) (snd (parseLinkTitle f r))
          (fst (fst (parseLinkTitle f r'))) (snd (fst (parseLinkTitle f r'))) (snd (parseLinkTitle f r')).
  Proof.
    intros H. unfold parseLinkTitle. cpair H r r' c r0 r0' H0 Ec0 Ec0'. destruct (cur_pos r c r0 Ec0) as [Q0 _].
    pose proof (RR_pos _ _ H0) as [Pz _].
    destruct ((c =? 39) || (c =? 34) || (c =? 40)) eqn:Ecnd; cbn [negb]; [|left; split; reflexivity].
    assert (Nc0 : c <> 0) by (intros ->; discriminate Ecnd). assert (Nc10 : c <> 10) by (intros ->; discriminate Ecnd).
    destruct (cur_byte r r' c r0 H Ec0 Nc0) as [L A].
    destruct (RR_mid r r' H L) as [HN|HX].
    - apply (DelimR_SpTxR _ _ _ _ _ _ (r_pos r0) (r_pos r0')); [lia|rewrite Q0, A; exact Nc10|apply (RR_pos_in r0 r0' H0); lia|rewrite Q0; apply (InNode_InIK r r' H HN)|].
      apply q_lt_loop; [exact H0|lia|]. destruct (c =? 40); [discriminate|exact Nc10].
    - destruct (lt_loop_exh f r0 r0' (r_pos r0) (r_pos r0') (if c =? 40 then 41 else c) H0 (ExhMid_cur r c r0 HX Ec0)) as [X1 X2]. left. split; assumption.
  Qed.

  (* ---------------------------------------------------------------- the failing step of a reader inside a node *)
  (* when the step of a reader inside a node fails, every span of IK ends at or before the new position *)
  Lemma fail_all r r' : RR r r' -> InNode r -> fst (next r) = false -> forall u, In u IK -> iend u <= r_pos r + 1.
  Proof.
    intros H HN Hf. pose proof (InNode_lt r r' H HN) as L. destruct (bRR_next_fail sD sQ sg IK true S r r' H HN Hf L) as (F1 & _).
    pose proof (bRR_next sD sQ sg IK true S IKw r r' H) as (_ & D & _ & _).
    destruct (next r) as [ok r1] eqn:En. cbn [fst snd] in *. subst ok. destruct (next_false r r1 En) as (Es & _).
    destruct D as [D|[_ D]].
    - pose proof D as (_ & _ & _ & _ & _ & _ & _ & _ & _ & IE & _). specialize (IE eq_refl). rewrite Es, F1 in IE.
      destruct IE as [[E1 _]|[(u & [] & _)|(_ & _ & _ & A)]]; [|exact A].
      intros u Hu. pose proof IKg as G. rewrite Forall_forall in G. destruct (G u Hu) as (_ & _ & Gc & _). lia.
    - destruct D as (_ & _ & _ & _ & _ & _ & _ & _ & _ & _ & _ & A). rewrite F1 in A. exact A.
  Qed.

  (* ---------------------------------------------------------------- readers created behind all their spans *)
  (* A reader that is created with a non-empty span list at a position behind all the spans (the position behind the last byte of
     the content of an ATX heading) does not satisfy the inside-or-end clause of RR literally (InE asks for an empty span list there),
     but every operation of the reader starts by dropping the spans: it behaves like the reader with no spans, which is related. *)
  Lemma RR_new_mid p : 0 < p < len sD -> at_ sD (p - 1) <> 10 -> (forall u, In u IK -> iend u <= p) ->
    RR (newReader sD [] p) (newReader sQ [] (sgE p)) /\ ExhMid (newReader sD [] p).
  Proof.
    intros Hp N A. split.
    - apply (bRR_new sD sQ sg IK true S [] p); [constructor|reflexivity|lia|intros; lia| |exists IK; rewrite app_nil_r; reflexivity].
      intros _. right. right. split; [reflexivity|]. split; [exact Hp|]. split; [exact N|exact A].
    - unfold QIRdrBase.ExhMid. rewrite (curNode_nil (newReader sD [] p) eq_refl). cbn [fst newReader r_pos]. split; [reflexivity|]. split; [exact Hp|]. split; [exact N|exact A].
  Qed.
  Lemma behind_mvS sp p : Forall (gsp sD sg IK) sp -> 0 <= p <= len sD -> (forall u, In u sp -> iend u <= p) ->
    forall u', In u' (map (mvS sg) sp) -> iend u' <= sgE p.
  Proof.
    intros G Hp A u' Hu'. apply in_map_iff in Hu'. destruct Hu' as (u & <- & Hu). rewrite Forall_forall in G. pose proof (G u Hu) as Gu.
    rewrite (iend_mvS' sD sg IK (SG_pos _ _ _ S) u Gu). destruct Gu as (Ga & Gb & Gc & _). specialize (A u Hu).
    pose proof (bsgE_ltb sD sQ sg S (iend u - 1) p ltac:(lia) ltac:(lia)) as X. rewrite (bsgE_in sD sQ sg S (iend u - 1)) in X by lia.
    destruct (Z.ltb_spec (sg (iend u - 1)) (sgE p)); destruct (Z.ltb_spec (iend u - 1) p); try lia; discriminate X.
  Qed.
End QL.

Lemma nodeIdx_behind : forall sp p k, (forall u, In u sp -> iend u <= p) -> nodeIdx sp p k = -1.
Proof.
  induction sp as [|i r IH]; intros p k H; [reflexivity|]. cbn [nodeIdx]. destruct (p <? istart i); [reflexivity|].
  assert (Eh : spanHas i p = false).
  { unfold spanHas. specialize (H i (or_introl eq_refl)). destruct (Z.ltb_spec p (iend i)); [lia|]. rewrite !andb_false_r. reflexivity. }
  rewrite Eh. apply IH. intros u Hu. apply H. right. exact Hu.
Qed.
Definition Behind (r : reader) : Prop := forall u, In u (r_spans r) -> iend u <= r_pos r.
Lemma curNode_behind r : Behind r -> curNode r = (None, withSpans r []).
Proof. intros H. unfold curNode. cbv zeta. unfold nodeIndexForPosition. rewrite (nodeIdx_behind _ _ 0 H). reflexivity. Qed.
Lemma curNode_trim r : Behind r -> curNode r = curNode (withSpans r []).
Proof. intros H. rewrite (curNode_behind r H). symmetry. apply (curNode_nil (withSpans r [])). reflexivity. Qed.
Lemma current_trim r : Behind r -> r_pos r < len (r_src r) -> current r = current (withSpans r []).
Proof.
  intros H L. unfold current. cbn [withSpans r_src r_pos r_vpos]. destruct (Z.leb_spec (len (r_src r)) (r_pos r)); [lia|].
  rewrite <- (curNode_trim r H). reflexivity.
Qed.
Lemma next_trim r : Behind r -> next r = next (withSpans r []).
Proof. intros H. unfold next. rewrite <- (curNode_trim r H). reflexivity. Qed.
Lemma remaining_trim r : Behind r -> remainingNodeBytes r = remainingNodeBytes (withSpans r []).
Proof. intros H. unfold remainingNodeBytes. rewrite <- (curNode_trim r H). reflexivity. Qed.
(* the scanners that begin with `current` *)
Lemma skipLinkSpace_trim f r : Behind r -> r_pos r < len (r_src r) -> skipLinkSpace f r = skipLinkSpace f (withSpans r []).
Proof. intros H L. unfold skipLinkSpace. rewrite <- (current_trim r H L). reflexivity. Qed.
Lemma parseLinkLabel_trim f r : Behind r -> r_pos r < len (r_src r) -> parseLinkLabel f r = parseLinkLabel f (withSpans r []).
Proof. intros H L. unfold parseLinkLabel. rewrite <- (current_trim r H L). reflexivity. Qed.
Lemma parseLinkDestination_trim f r : Behind r -> r_pos r < len (r_src r) -> parseLinkDestination f r = parseLinkDestination f (withSpans r []).
Proof. intros H L. unfold parseLinkDestination. rewrite <- (current_trim r H L). reflexivity. Qed.
Lemma parseLinkTitle_trim f r : Behind r -> r_pos r < len (r_src r) -> parseLinkTitle f r = parseLinkTitle f (withSpans r []).
Proof. intros H L. unfold parseLinkTitle. rewrite <- (current_trim r H L). reflexivity. Qed.
Lemma withSpans_new src sp p : withSpans (newReader src sp p) [] = newReader src [] p.
Proof. reflexivity. Qed.

Print Assumptions q_skipLinkSpace.
Print Assumptions q_sst.
Print Assumptions q_readEOL.
Print Assumptions q_parseLinkLabel.
Print Assumptions q_parseLinkDestination.
Print Assumptions q_parseLinkTitle.
Print Assumptions fail_all.
Print Assumptions RR_new_mid.
