From Coq Require Import List ZArith Lia Bool.
Import ListNotations.
Require Import Base Tree Rdr Link Collect Html Recog LP Rules Starts Driver Inl3e Stream C01a C01b Rec16 Rec17 Rec18 L2Bnd L2BndS.
Open Scope Z_scope.

(* ================================================================================================== *)
(* Part 1: the reader layer.  readlineS on the streaming state simulates lineEnd on the in-memory state *)
(* ================================================================================================== *)

(* ---- prefixes of an extended buffer ---- *)
Lemma upto_app_l {A} (a e : list A) n : n <= len a -> upto (a ++ e) n = upto a n.
Proof.
  intros H. unfold upto, len in *. rewrite firstn_app.
  replace (Z.to_nat n - length a)%nat with O by lia. rewrite firstn_O, app_nil_r. reflexivity.
Qed.
Lemma from_app_l {A} (a e : list A) n : n <= len a -> from_ (a ++ e) n = from_ a n ++ e.
Proof.
  intros H. unfold from_, len in *. rewrite skipn_app.
  replace (Z.to_nat n - length a)%nat with O by lia. rewrite skipn_O. reflexivity.
Qed.
Lemma len_from_le {A} (l : list A) n : len (from_ l n) <= len l.
Proof. unfold len, from_. rewrite skipn_length. lia. Qed.
Lemma len_pad_le l : len (pad l) <= 3 * len l.
Proof. rewrite len_pad. pose proof (nullCount_bounds l). lia. Qed.
Lemma length_pad_le l : (length (pad l) <= 3 * length l)%nat.
Proof. pose proof (len_pad_le l) as H. unfold len in H. lia. Qed.

(* ---- findEol on an extended buffer ---- *)
Lemma findEol_range : forall l i, 0 <= i -> findEol l i = -1 \/ i <= findEol l i < i + len l.
Proof.
  induction l as [|b r IH]; intros i Hi; [left; reflexivity|]. cbn [findEol]. rewrite len_cons.
  pose proof (len_nonneg r) as Hr.
  destruct ((b =? 10) || (b =? 13)); [right; lia|].
  destruct (IH (i + 1) ltac:(lia)) as [E|E]; [left; exact E|right; lia].
Qed.
Lemma findEol_app : forall a e i, 0 <= i -> 0 <= findEol a i -> findEol (a ++ e) i = findEol a i.
Proof.
  induction a as [|b r IH]; intros e i Hi He; [cbn in He; lia|]. cbn [app findEol] in *.
  destruct ((b =? 10) || (b =? 13)); [reflexivity|]. apply IH; [lia|exact He].
Qed.

(* ---- the line-end decision ---- *)
Lemma decideS_true b i : decideS b i true = Some (lineEnd b i).
Proof.
  unfold decideS, lineEnd. cbv zeta. set (e := findEol (from_ b i) i).
  destruct (Z.leb_spec 0 e) as [L|L]; destruct (Z.ltb_spec e 0) as [L'|L']; try lia; [|reflexivity].
  destruct (at_ b e =? 10); [reflexivity|]. destruct (e + 1 <? len b); reflexivity.
Qed.

(* A decision taken on a shorter buffer is the decision on any extension of it; a decision taken at end of
   input (haserr) is only used when nothing is appended. *)
Lemma decideS_ext bs ext i h x : 0 <= i <= len bs -> (h = true -> ext = []) ->
  decideS bs i h = Some x -> decideS (bs ++ ext) i true = Some x.
Proof.
  intros Hi Hh Hd. unfold decideS in *. cbv zeta in *.
  rewrite from_app_l by lia.
  set (e := findEol (from_ bs i) i) in *.
  destruct (Z.leb_spec 0 e) as [L|L].
  - rewrite findEol_app by (try lia; exact L). fold e.
    destruct (Z.leb_spec 0 e) as [_|L2]; [|lia].
    destruct (findEol_range (from_ bs i) i ltac:(lia)) as [E|E]; [fold e in E; lia|]. fold e in E.
    rewrite len_from in E by lia.
    rewrite at_app_l by lia.
    destruct (at_ bs e =? 10); [exact Hd|].
    destruct (Z.ltb_spec (e + 1) (len bs)) as [H1|H1].
    + rewrite len_app. pose proof (len_nonneg ext) as Hx.
      destruct (Z.ltb_spec (e + 1) (len bs + len ext)) as [_|H2]; [|lia].
      rewrite at_app_l by lia. exact Hd.
    + destruct h; [|discriminate]. rewrite (Hh eq_refl), app_nil_r.
      destruct (Z.ltb_spec (e + 1) (len bs)) as [H2|_]; [lia|]. exact Hd.
  - destruct h; [|discriminate]. rewrite (Hh eq_refl), !app_nil_r. fold e.
    destruct (Z.leb_spec 0 e) as [L2|_]; [lia|]. exact Hd.
Qed.

Lemma decideS_bounds b i h x : 0 <= i <= len b -> decideS b i h = Some x ->
  i <= x <= len b /\ (h = false -> i < x).
Proof.
  intros Hi Hd. unfold decideS in Hd. cbv zeta in Hd.
  set (e := findEol (from_ b i) i) in *.
  destruct (Z.leb_spec 0 e) as [L|L].
  - destruct (findEol_range (from_ b i) i ltac:(lia)) as [E|E]; [fold e in E; lia|]. fold e in E.
    rewrite len_from in E by lia.
    destruct (at_ b e =? 10); [inversion Hd; lia|].
    destruct (Z.ltb_spec (e + 1) (len b)) as [H1|H1].
    + destruct (at_ b (e + 1) =? 10); inversion Hd; lia.
    + destruct h; inversion Hd; subst. split; [lia|discriminate].
  - destruct h; inversion Hd; subst. split; [lia|discriminate].
Qed.

(* ---- one Read call of the scripted reader ---- *)
Lemma upto_from_split {A} (l : list A) n : l = upto l n ++ from_ l n.
Proof. unfold upto, from_. symmetry. apply firstn_skipn. Qed.

Lemma sread_spec r cap chunk e r' : 0 < cap -> sread r cap = (chunk, e, r') ->
  s_rem r = chunk ++ s_rem r' /\ s_final r' = s_final r /\ s_eager r' = s_eager r /\
  (e = 0 \/ (e = s_final r /\ s_rem r' = [])) /\
  (e = s_final r \/ (length (s_caps r') + length (s_rem r') < length (s_caps r) + length (s_rem r))%nat) /\
  (length (s_caps r') + length (s_rem r') <= length (s_caps r) + length (s_rem r))%nat.
Proof.
  intros Hcap H. unfold sread in H. cbv zeta in H.
  set (capN := match s_caps r with c :: _ => Z.min c cap | [] => cap end) in *.
  set (n := Z.max 0 (Z.min capN (len (s_rem r)))) in *.
  inversion H; subst chunk e r'; clear H. cbn [s_rem s_final s_eager s_caps].
  assert (Hlen : (length (from_ (s_rem r) n) <= length (s_rem r))%nat).
  { pose proof (len_from_le (s_rem r) n) as Hl. unfold len in Hl. lia. }
  split; [apply upto_from_split|]. split; [reflexivity|]. split; [reflexivity|]. split; [|split].
  - destruct ((len (from_ (s_rem r) n) =? 0) && (s_eager r || (n =? 0))) eqn:E; [right|left; reflexivity].
    split; [reflexivity|]. apply andb_true_iff in E. destruct E as [E _]. apply Z.eqb_eq in E.
    unfold len in E. destruct (from_ (s_rem r) n); [reflexivity|cbn in E; lia].
  - destruct (s_caps r) as [|c cs] eqn:Ec.
    + (* the script is exhausted: the call is capped by cap > 0 only *)
      cbn [tl length]. subst capN.
      destruct (s_rem r) as [|b0 l0] eqn:Er.
      * left. unfold from_. rewrite skipn_nil. change (len (@nil Z)) with 0 in *.
        replace n with 0 by (subst n; lia). cbn [Z.eqb andb]. rewrite orb_true_r. reflexivity.
      * right. assert (Hn : 1 <= n) by (subst n; rewrite len_cons; pose proof (len_nonneg l0); lia).
        unfold from_. rewrite skipn_length. cbn [length]. lia.
    + right. cbn [tl length]. lia.
  - destruct (s_caps r) as [|c cs]; cbn [tl length]; lia.
Qed.

(* ---- the simulation relation ---- *)
Definition R (fin : Z) (sm : bpst) (ss : sst) : Prop :=
  bi sm = bi (sbp ss) /\ boff sm = boff (sbp ss) /\ bline sm = bline (sbp ss) /\ pending sm = pending (sbp ss) /\
  0 <= bi (sbp ss) <= len (buf (sbp ss)) /\
  buf sm = buf (sbp ss) ++ pad (s_rem (srdr ss)) /\
  s_final (srdr ss) = fin /\
  (serr ss = 0 \/ (serr ss = fin /\ s_rem (srdr ss) = [])) /\
  len (buf sm) + 3 <= maxBlockSize.

Definition fuel_ok (fuel : nat) (ss : sst) : Prop :=
  (1 <= fuel)%nat /\ (serr ss = 0 -> (length (s_caps (srdr ss)) + length (s_rem (srdr ss)) + 2 <= fuel)%nat).

Lemma rfuel_ok ss : fuel_ok (rfuel ss) ss.
Proof. unfold fuel_ok, rfuel. split; intros; lia. Qed.

Theorem readlineS_sim fin : fin <> 0 -> forall fuel sm ss,
  R fin sm ss -> fuel_ok fuel ss ->
  exists ss',
    readlineS fuel ss = (ss', bi sm <? lineEnd (buf sm) (bi sm)) /\
    R fin (withBi sm (lineEnd (buf sm) (bi sm))) ss' /\
    ((bi sm <? lineEnd (buf sm) (bi sm)) = false -> serr ss' = fin).
Proof.
  intros Hfin0. induction fuel as [|f IH]; intros sm ss HR Hfuel.
  { destruct Hfuel as [Hf _]. lia. }
  pose proof HR as (Hbi & Hoff & Hline & Hpend & Hle & Hbuf & Hfin & Herrs & Hsmall).
  cbn [readlineS]. cbv zeta.
  destruct (decideS (buf (sbp ss)) (bi (sbp ss)) (negb (serr ss =? 0))) as [x|] eqn:Ed.
  - (* the streaming side decides now *)
    assert (Hx : decideS (buf sm) (bi sm) true = Some x).
    { rewrite Hbuf, Hbi. eapply decideS_ext; [exact Hle| |exact Ed].
      intros Hh. destruct Herrs as [E|[E Hr]]; [rewrite E in Hh; discriminate|]. rewrite Hr. reflexivity. }
    rewrite decideS_true in Hx. inversion Hx as [Hx']. clear Hx. subst x.
    destruct (decideS_bounds _ _ _ _ Hle Ed) as ((Hx1 & Hx2) & Hx3).
    eexists. split; [rewrite <- Hbi; reflexivity|]. split.
    + unfold R, withBi. cbn [sbp serr srdr buf bi boff bline pending].
      repeat split; try assumption; try lia.
    + cbn [serr]. intros Hok. apply Z.ltb_ge in Hok.
      destruct Herrs as [E|[E _]]; [|exact E]. rewrite E in Hx3. specialize (Hx3 eq_refl). lia.
  - (* the streaming side needs more data: it cannot have latched an error *)
    assert (Herr : serr ss = 0).
    { destruct Herrs as [E|[E _]]; [exact E|]. rewrite E in Ed.
      replace (negb (fin =? 0)) with true in Ed by (symmetry; apply negb_true_iff, Z.eqb_neq, Hfin0).
      rewrite decideS_true in Ed. discriminate. }
    assert (Hlen : len (buf (sbp ss)) + 3 <= maxBlockSize).
    { rewrite Hbuf, len_app in Hsmall. pose proof (len_nonneg (pad (s_rem (srdr ss)))). lia. }
    set (newSize := if maxBlockSize <? len (buf (sbp ss)) + chunkSize * 3
                    then len (buf (sbp ss)) + (maxBlockSize - len (buf (sbp ss))) / 3
                    else len (buf (sbp ss)) + chunkSize).
    assert (Hns : len (buf (sbp ss)) < newSize).
    { unfold newSize. destruct (maxBlockSize <? len (buf (sbp ss)) + chunkSize * 3); [|unfold chunkSize; lia].
      assert (1 <= (maxBlockSize - len (buf (sbp ss))) / 3) by (apply Z.div_le_lower_bound; lia). lia. }
    destruct (Z.leb_spec newSize (len (buf (sbp ss)))) as [Hbad|_]; [lia|].
    destruct (sread (srdr ss) (newSize - len (buf (sbp ss)))) as [[chunk e] r'] eqn:Er.
    apply sread_spec in Er; [|lia].
    destruct Er as (Hrem & Hfinal & _ & Herr' & Hprog & Hmono).
    set (ss1 := {| sbp := withBuf (sbp ss) (buf (sbp ss) ++ pad chunk); serr := e; srdr := r' |}).
    assert (HR1 : R fin sm ss1).
    { unfold R, ss1, withBuf. cbn [sbp serr srdr buf bi boff bline pending].
      repeat split; try assumption; try lia.
      - rewrite len_app. pose proof (len_nonneg (pad chunk)). lia.
      - rewrite Hbuf, Hrem, pad_app, app_assoc. reflexivity.
      - destruct Herr' as [E|[E Hr]]; [left; exact E|right]. split; [congruence|exact Hr]. }
    assert (Hf1 : fuel_ok f ss1).
    { destruct Hfuel as [_ Hf]. specialize (Hf Herr). unfold fuel_ok, ss1. cbn [serr srdr].
      destruct Hprog as [Hp|Hp].
      - split; [lia|]. intros E0. rewrite Hp, Hfin in E0. contradiction.
      - split; [lia|]. intros _. lia. }
    destruct (IH sm ss1 HR1 Hf1) as (ss' & H1 & H2 & H3).
    exists ss'. split; [exact H1|]. split; [exact H2|exact H3].
Qed.
Print Assumptions readlineS_sim.
