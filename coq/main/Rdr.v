From Coq Require Import List ZArith Lia Bool.
Import ListNotations.
Require Import Base Tree.
Open Scope Z_scope.

(* nodeIndexForPosition (inlines.go:2063): drop the spans before the one containing pos; None when there is none *)
Definition spanHas (i : inline) (pos : Z) : bool :=
  (0 <=? istart i) && (0 <=? iend i) && (istart i <=? iend i) && (istart i <=? pos) && (pos <? iend i).
Fixpoint nodeIdx (spans : list inline) (pos : Z) (k : Z) : Z :=
  match spans with
  | [] => -1
  | i :: r => if pos <? istart i then -1 else if spanHas i pos then k else nodeIdx r pos (k + 1)
  end.
Definition nodeIndexForPosition (spans : list inline) (pos : Z) : Z := nodeIdx spans pos 0.

Record reader := { r_src : bytes; r_spans : list inline; r_pos : Z; r_vpos : Z; r_prev : Z }.
Definition newReader (src : bytes) (spans : list inline) (pos : Z) : reader :=
  {| r_src := src; r_spans := spans; r_pos := pos; r_vpos := 0; r_prev := -1 |}.

(* currentNode: also trims the span list (and drops it for good when the position is in no span) *)
Definition curNode (r : reader) : option inline * reader :=
  let idx := nodeIndexForPosition (r_spans r) (r_pos r) in
  if idx <? 0 then (None, {| r_src := r_src r; r_spans := []; r_pos := r_pos r; r_vpos := r_vpos r; r_prev := r_prev r |})
  else
    let sp := from_ (r_spans r) idx in
    (hd_error sp, {| r_src := r_src r; r_spans := sp; r_pos := r_pos r; r_vpos := r_vpos r; r_prev := r_prev r |}).

Definition nullRepl (v : Z) : Z := if v =? 0 then 239 else if v =? 1 then 191 else 189.

Definition current (r : reader) : Z * reader :=
  if len (r_src r) <=? r_pos r then (0, r) else
  let '(n, r') := curNode r in
  if okind n =? IndentKind then (32, r')
  else if at_ (r_src r) (r_pos r) =? 0 then (nullRepl (r_vpos r), r')
  else (at_ (r_src r) (r_pos r), r').
Definition cur (r : reader) : Z := fst (current r).

Fixpoint nulRunBack (src : bytes) (start : Z) (fuel : nat) : Z :=
  match fuel with
  | O => start
  | S f => if (0 <? start) && (at_ src (start - 1) =? 0) then nulRunBack src (start - 1) f else start
  end.
Definition computeNullVirtualPosition (src : bytes) (pos : Z) : Z :=
  if (len src <=? pos) || negb (at_ src pos =? 0) then 0
  else (pos - nulRunBack src pos (length src)) mod 3.

Fixpoint nextSpan (sp : list inline) : option (inline * list inline) :=
  match sp with
  | [] => None
  | i :: r => if (ikind i =? UnparsedKind) || (ikind i =? TextKind) || (ikind i =? IndentKind) then Some (i, sp) else nextSpan r
  end.

Definition next (r : reader) : bool * reader :=
  let '(n, r1) := curNode r in
  match n with
  | None => (false, r1)
  | Some node =>
    let src := r_src r1 in let pos := r_pos r1 in
    if (ikind node =? IndentKind) && (r_vpos r1 <? iindent node) then
      (true, {| r_src := src; r_spans := r_spans r1; r_pos := pos; r_vpos := r_vpos r1 + 1; r_prev := pos |})
    else if negb (ikind node =? IndentKind) && (pos + 1 <? iend node) then
      let v := if at_ src (pos + 1) =? 0 then (if at_ src pos =? 0 then (r_vpos r1 + 1) mod 3 else 0) else r_vpos r1 in
      (true, {| r_src := src; r_spans := r_spans r1; r_pos := pos + 1; r_vpos := v; r_prev := pos |})
    else
      match nextSpan (tl (r_spans r1)) with
      | Some (i, sp) =>
        (true, {| r_src := src; r_spans := sp; r_pos := istart i;
                  r_vpos := computeNullVirtualPosition src (istart i); r_prev := pos |})
      | None => (false, {| r_src := src; r_spans := []; r_pos := pos + 1; r_vpos := r_vpos r1; r_prev := pos |})
      end
  end.

Definition jumped (r : reader) : bool := (0 <=? r_prev r) && (1 <? r_pos r - r_prev r).

Definition remainingNodeBytes (r : reader) : bytes * reader :=
  let '(n, r') := curNode r in
  match n with
  | None => ([], r')
  | Some node => (sub (r_src r) (r_pos r) (iend node), r')
  end.
