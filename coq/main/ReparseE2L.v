From Coq Require Import List ZArith Lia Bool.
Import ListNotations.
Require Import Base Tree Rdr Link Collect Html Recog LP Rules Starts Driver L2Kind L2Kind2 L2CC L2Bnd L2BndS TDefs TOcp TInv TDesc TShift Total
  GramDefs Rec17 StreamFuel SliceBase SliceReparse LADef LA1 LA11 LA13 ReparseLocal ReparseFirst ReparseEof ReparseInv ReparseOpen ReparseFrame ReparseSI
  ReparseLineB ReparseE2 ReparseLineL ReparseRun BlankPrefix.
Open Scope Z_scope.

(* T50 continuation: closing by the following line = closing by the end of the input, for every kind of root (lists included). *)
Lemma map_clr_single L0 y : map clrB L0 = map clrB [y] -> exists y0, L0 = [y0] /\ clrB y0 = clrB y.
Proof. destruct L0 as [|a [|b r]]; cbn; intros H; inversion H. exists a. tauto. Qed.
Lemma bend_clr b : bend (clrB b) = bend b. Proof. destruct b; reflexivity. Qed.

Lemma la_noSx S M c : la S M c -> forall I w, lastBlock c = Some I -> lastBlock I = Some w -> isOpen w = true -> bkind w <> SetextHeadingKind.
Proof.
  intros Hla I w E1 E2 Ow. apply la_eq in Hla. destruct Hla as (_ & _ & _ & _ & Hk).
  pose proof (allQ_In _ _ _ Hk (lastBlock_In c I E1)) as HI. apply la_eq in HI. destruct HI as (_ & _ & _ & _ & HkI).
  pose proof (allQ_In _ _ _ HkI (lastBlock_In I w E2)) as Hw. apply la_eq in Hw. destruct Hw as (_ & _ & Hns & _).
  apply Hns. unfold isOpen in Ow. apply Z.ltb_lt, Ow.
Qed.

Theorem E2_core_all B f T stp c bij rest st' rb : noNul B ->
  lastLine f 0 [] 0 B = Some (T, stp, [c]) -> 0 < lineEnd B 0 -> isBlankLine (upto B (lineEnd B 0)) = false ->
  bij = lineEnd B T -> processLine stp [c] T (upto B bij) = (rb :: rest, st', 0) -> isOpen rb = false -> bend rb = T -> 0 < T -> T < bij ->
  (bkind c = ParagraphKind -> bkind rb <> LinkReferenceDefinitionKind) -> spineEq (upto B bij) T c ->
  exists y, parseBlocks (upto B T) = ([{| rb_line := 1; rb_start := 0; rb_end := T; rb_src := upto B T; rb_blk := y |}], 0) /\
            set_blast y false = set_blast rb false.
Proof.
  intros HN HL Hpos Hnb Ebij Hpl Hcl Hbe HT0 HTb Hnr Hsp.
  pose proof (lastLine_inv f 0 [] 0 B T stp [c] (LInv_init B Hpos Hnb) HL) as HI.
  pose proof (lastLine_la f 0 [] 0 B T stp [c] HN (LInv_init B Hpos Hnb) (LaInv_init B) HL) as HLa.
  destruct HI as (Hls & (ns & Hbn & Hn) & Hcc & Hgb & HG & HK & Hst & Hemp & Hz & Hopn).
  pose proof (Hopn c eq_refl) as Hop.
  set (src := upto B bij) in *.
  assert (Hbb : T <= bij <= len B) by (rewrite Ebij; apply (lineEnd_spec B T Hls)).
  assert (Hlsrc : len src = bij) by (apply len_upto; lia).
  assert (Hln : from_ src T <> []).
  { intros E0. pose proof (Rec17.len_from src T ltac:(lia)) as X. rewrite E0 in X. cbn in X. lia. }
  set (L := ReparseLineB.L src T c).
  assert (HU : UB T false [c]) by (apply (UB_of_bnd T ns [c]); [lia|exact Hbn]).
  assert (HOUT : OUT 0 T T L).
  { unfold L, ReparseLineB.L. destruct (bheight_S (root0 [c])) as [h ->].
    apply closeBlock_OUT; [exact Hop| |lia|lia|lia|].
    - cbn [GoodL] in HG. rewrite Hop in HG. apply HG.
    - intros Ek. change [c] with ([] ++ [c]) in HU. apply UB_snoc in HU. destruct HU as [_ [_ HU]]. apply HU; assumption. }
  destruct HOUT as (Lcl & LG & HOUT3).
  assert (Hmatch : stp = stDescendTerminated -> hasMatch (bkind c) = true).
  { intros E0. destruct (Hst E0) as (pre & c0 & Ec & _ & Hh). destruct pre as [|? pre]; [|destruct pre; discriminate]. inversion Ec; subst. exact Hh. }
  assert (Hla : la src T c).
  { unfold LaInv in HLa. rewrite <- Ebij in HLa. fold src in HLa. apply la_eq in HLa. destruct HLa as (_ & _ & _ & _ & Hk). cbn [bkids docRoot allQ] in Hk. apply Hk. }
  (* the line acts as on the closed children *)
  destruct (lineB_all src T c stp Hop Hcc Hgb ltac:(lia) Hln Lcl Hmatch) as (L0 & L0cl & EL0 & HB).
  { intros Ek h rest0 Eh. rewrite Hpl in Eh. cbn [fst] in Eh. inversion Eh; subst. apply Hnr, Ek. }
  { apply (la_noSx src T c Hla). }
  { rewrite Hpl. exists rb, rest. repeat split; assumption. }
  fold L in EL0.
  destruct (frame_line L0 T src L0cl Hln) as (L' & HL' & HF).
  rewrite HB, HF in Hpl. inversion Hpl as [[Ek Es Ep]]. clear Hpl.
  assert (Lne : L <> []) by apply StreamFuel.closeBlock_nonempty.
  (* L is a single block *)
  assert (Hsingle : exists y, L = [y] /\ set_blast y false = set_blast rb false).
  { destruct L as [|y0 Lr] eqn:EL; [contradiction|]. destruct Lr as [|y1 Lr'].
    - destruct (map_clr_single L0 y0 EL0) as (z0 & -> & Ez). exists y0. split; [reflexivity|]. unfold clrB in Ez. rewrite <- Ez.
      destruct HL' as [-> | ->].
      + cbn [app] in Ek. inversion Ek. reflexivity.
      + unfold flagLast in Ek. cbn [rev app] in Ek. inversion Ek. destruct z0; reflexivity.
    - exfalso.
      destruct L0 as [|z0 [|z1 L0r]]; try discriminate. cbn [map] in EL0. inversion EL0 as [[Ez0 Ez1 Ezr]].
      assert (Ehd : rb = z0).
      { destruct HL' as [-> | ->]; [cbn [app] in Ek; inversion Ek; reflexivity|].
        rewrite (flagLast_cons2 z0 z1 L0r) in Ek. cbn [app] in Ek. inversion Ek. reflexivity. }
      assert (Eb0 : bend y0 = T).
      { rewrite <- Hbe, Ehd. rewrite <- (bend_clr z0), Ez0. symmetry. apply bend_clr. }
      pose proof (GoodL_hd_last 0 (y0 :: y1 :: Lr') y0 (y1 :: Lr') LG Lcl eq_refl ltac:(discriminate)) as Hlt.
      destruct HOUT3 as (pre1 & x1 & Ex & Hpre & Hx).
      assert (Hx1 : In x1 (y1 :: Lr')).
      { destruct pre1 as [|p1 pre1]; [inversion Ex|]. cbn [app] in Ex. inversion Ex as [[E0 E1]]. rewrite E1. apply in_or_app. right. left. reflexivity. }
      specialize (Hlt x1 Hx1). rewrite Eb0 in Hlt. destruct Hx as [Hx|Hx]; lia. }
  destruct Hsingle as (y & EL & Ey).
  assert (HSI : closeBlock (bheight (root0 [c])) (upto src T) c T = L).
  { unfold L, ReparseLineB.L. apply closeBlock_SI; [exact Hla| |exact Hsp].
    unfold ccF in Hcc. apply andb_true_iff in Hcc. destruct Hcc as [_ H]. unfold ccL in H. cbn [forallb] in H. apply andb_true_iff in H. tauto. }
  unfold src in HSI at 1. rewrite (upto_upto' B T bij ltac:(lia)) in HSI.
  assert (Heof : eofK stp [c] T (upto B T) = [y]).
  { rewrite eofK_form.
    - cbn [rev app removelast]. rewrite <- EL, <- HSI. apply closeBlock_fuel2.
      + change (bheight (root0 [c])) with (Datatypes.S (Nat.max (bheight c) 0)). cbn [Nat.pred]. lia.
      + change (bheight (root0 [c])) with (Datatypes.S (Nat.max (bheight c) 0)). lia.
    - unfold eofSt, descState. change (lastBlock (root0 [c])) with (Some c). cbv iota. rewrite Hop. cbn [andb].
      destruct (hasMatch (bkind c)) eqn:Eh; [reflexivity|]. apply Z.eqb_neq. intros E0. discriminate (Hmatch E0). }
  assert (Hy : isOpen y = false /\ bend y = T).
  { rewrite EL in Lcl. inversion Lcl as [|? ? Hyc _]; subst. split; [exact Hyc|].
    assert (E5 : bend (set_blast y false) = bend (set_blast rb false)) by (rewrite Ey; reflexivity).
    destruct y; destruct rb; cbn in *. lia. }
  rewrite ?Ep. exists y. split; [|exact Ey].
  destruct (lastLine_first f 0 [] 0 B T stp [c] ltac:(pose proof (len_nonneg B); lia) HL) as [X|X]; [lia|].
  apply (reparse_cut_at_line_start B f T stp [c] y HN HL Hpos X Hnb Heof (proj1 Hy) (proj2 Hy)).
Qed.
Print Assumptions E2_core_all.

Theorem C16_E2_call_all_partial s r s' : noNul (buf s) -> pending s = [] ->
  nextBlock (3 + length (buf s)) s = NBBlock r s' ->
  exists B T stp chp bij rest st',
    suffixOf B (buf s) /\ processLine stp chp T (upto B bij) = (rb_blk r :: rest, st', 0) /\ bij = lineEnd B T /\
    rb_src r = upto B (bend (rb_blk r)) /\
    (bend (rb_blk r) = T -> 0 < T -> T < bij ->
     forall c, chp = [c] -> (bkind c = ParagraphKind -> bkind (rb_blk r) <> LinkReferenceDefinitionKind) ->
       spineEq (upto B bij) T c ->
       exists r', parseBlocks (rb_src r) = ([r'], 0) /\ aloneOf r' = aloneOf r).
Proof.
  intros HN Hp En. unfold nextBlock in En. rewrite Hp in En. cbn [makeRoot] in En.
  match type of En with skipLoop ?F ?S1 = _ => destruct (skipLoop_cut F S1 r s' eq_refl En) as (B & f' & bo & bl & (k & EB) & H1 & H2 & H3) end.
  cbn [buf pending] in *.
  assert (HNB : noNul B) by (rewrite EB; apply noNul_from, noNul_from, HN).
  set (sB := {| buf := B; bi := lineEnd B 0; boff := bo; bline := bl; pending := [] |}) in *.
  apply (lineLoop_cutOf f' 0 [] 0 sB r s' eq_refl) in H3. destruct H3 as (b & rest & bij & st' & Hcut & Er).
  destruct (lastLine_cutOf _ _ _ _ _ _ _ _ _ Hcut) as (T & stp & chp & HL & Ebij & Hpl).
  unfold rootAt in Er. cbn [buf boff bline sB] in Er. inversion Er as [[E1 E2]].
  exists B, T, stp, chp, bij, rest, st'. cbn [rb_blk rb_src].
  assert (Esrc : fillNulls (upto B (bend b)) = upto B (bend b)) by (apply fillNulls_noNul, noNul_upto, HNB).
  split; [rewrite EB; apply suffix_from; eexists; reflexivity|]. split; [exact Hpl|]. split; [exact Ebij|]. split; [exact Esrc|].
  intros HbT HT0 HTb c Ec Hnr Hsp. subst chp. rewrite Esrc, HbT.
  pose proof (cutOf_bounds f' 0 [] 0 B b rest bij st' ltac:(pose proof (len_nonneg B); lia) Hcut) as [_ Hclb].
  destruct (E2_core_all B f' T stp c bij rest st' b HNB HL H1 H2 Ebij Hpl Hclb HbT HT0 HTb Hnr Hsp) as (y & Hy1 & Hy2).
  eexists. split; [exact Hy1|]. unfold aloneOf. cbn [rb_src rb_blk]. rewrite Hy2.
  rewrite (len_upto B T); [reflexivity|]. pose proof (lastLine_bounds f' 0 [] 0 B T stp [c] ltac:(pose proof (len_nonneg B); lia) HL). lia.
Qed.
Print Assumptions C16_E2_call_all_partial.
