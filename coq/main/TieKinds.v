From Coq Require Import List ZArith Lia Bool.
Import ListNotations.
Require Import Base Tree Html LP Rules Link Inl3a Render.
Require GenConsts GenClassify.
Open Scope Z_scope.

(* Tie: node kind numbering and line-parser states, read from /repo's const blocks on every run. *)
Lemma tie_kinds :
  GenConsts.c_ParagraphKind = ParagraphKind /\ GenConsts.c_ThematicBreakKind = ThematicBreakKind /\ GenConsts.c_ATXHeadingKind = ATXHeadingKind /\
  GenConsts.c_SetextHeadingKind = SetextHeadingKind /\ GenConsts.c_IndentedCodeBlockKind = IndentedCodeBlockKind /\
  GenConsts.c_FencedCodeBlockKind = FencedCodeBlockKind /\ GenConsts.c_HTMLBlockKind = HTMLBlockKind /\
  GenConsts.c_LinkReferenceDefinitionKind = LinkReferenceDefinitionKind /\ GenConsts.c_BlockQuoteKind = BlockQuoteKind /\
  GenConsts.c_ListItemKind = ListItemKind /\ GenConsts.c_ListKind = ListKind /\ GenConsts.c_ListMarkerKind = ListMarkerKind /\
  GenConsts.c_documentKind = documentKind /\
  GenConsts.c_TextKind = TextKind /\ GenConsts.c_SoftLineBreakKind = SoftLineBreakKind /\ GenConsts.c_HardLineBreakKind = HardLineBreakKind /\
  GenConsts.c_IndentKind = IndentKind /\ GenConsts.c_CharacterReferenceKind = CharacterReferenceKind /\ GenConsts.c_InfoStringKind = InfoStringKind /\
  GenConsts.c_EmphasisKind = EmphasisKind /\ GenConsts.c_StrongKind = StrongKind /\ GenConsts.c_LinkKind = LinkKind /\ GenConsts.c_ImageKind = ImageKind /\
  GenConsts.c_LinkDestinationKind = LinkDestinationKind /\ GenConsts.c_LinkTitleKind = LinkTitleKind /\ GenConsts.c_LinkLabelKind = LinkLabelKind /\
  GenConsts.c_CodeSpanKind = CodeSpanKind /\ GenConsts.c_AutolinkKind = AutolinkKind /\ GenConsts.c_HTMLTagKind = HTMLTagKind /\
  GenConsts.c_RawHTMLKind = RawHTMLKind /\ GenConsts.c_UnparsedKind = UnparsedKind /\
  GenConsts.c_stateOpening = stOpening /\ GenConsts.c_stateOpenMatched = stOpenMatched /\ GenConsts.c_stateLineConsumed = stLineConsumed /\
  GenConsts.c_stateDescending = stDescending /\ GenConsts.c_stateDescendTerminated = stDescendTerminated.
Proof. repeat split; reflexivity. Qed.
Print Assumptions tie_kinds.
