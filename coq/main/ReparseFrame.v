From Coq Require Import List ZArith Lia Bool.
Import ListNotations.
Require Import Base Tree Rdr Link Collect Html Recog LP Rules Starts Driver L2Kind L2CC TDefs TOcp StreamFuel LA2 ShDef GramLP GramLP2 TilLP10 TilLP11 ReparseSwap ReparseOpen ReparsePass.
Open Scope Z_scope.

(* T50 continuation, file 11: the frame.  Closed root children K in front of the children of the root are left alone by everything
   the line parser does after descendOpenBlocks (up to the lastLineBlank flag of the last of them, set by a blank line). *)

(* ---- fuel ---- *)
Lemma bheight_S b : exists n, bheight b = S n. Proof. destruct b. eexists. reflexivity. Qed.
Lemma bheight_set_bend b e : bheight (set_bend b e) = bheight b. Proof. destruct b; reflexivity. Qed.
Lemma bheight_set_bik b v : bheight (set_bik b v) = bheight b. Proof. destruct b; reflexivity. Qed.
Lemma bheight_set_bloose b v : bheight (set_bloose b v) = bheight b. Proof. destruct b; reflexivity. Qed.
Lemma bheight_kids_map_loose l :
  fold_right (fun c acc => Nat.max (bheight c) acc) O (map (fun it => set_bloose it true) l) = fold_right (fun c acc => Nat.max (bheight c) acc) O l.
Proof. induction l as [|x r IH]; [reflexivity|]. cbn [map fold_right]. rewrite IH, bheight_set_bloose. reflexivity. Qed.
Lemma bheight_onCloseList b : bheight (onCloseList b) = bheight b.
Proof.
  unfold onCloseList. cbv zeta. destruct (bloose b || _); [|reflexivity]. destruct b as [k s e bk ik a n ch l lb].
  cbn [set_bloose set_bkids bkids bheight]. rewrite bheight_kids_map_loose. reflexivity.
Qed.
Lemma bheight_onCloseIndented src b : bheight (onCloseIndented src b) = bheight b.
Proof. unfold onCloseIndented. cbv zeta. apply bheight_set_bik. Qed.
Lemma bheight_last b c : lastBlock b = Some c -> (bheight c < bheight b)%nat.
Proof. intros H. apply bheight_kid', lastBlock_In, H. Qed.

Lemma closeBlock_fuel2 src e : forall f f' x, (bheight x <= f)%nat -> (bheight x <= f')%nat -> closeBlock f src x e = closeBlock f' src x e.
Proof.
  induction f as [|f IH]; intros f' x H1 H2; [destruct (bheight_S x) as [n E]; lia|].
  destruct f' as [|f']; [destruct (bheight_S x) as [n E]; lia|].
  cbn [closeBlock]. destruct (negb (isOpen x)); [reflexivity|]. cbv zeta.
  assert (Hcl : forall y, bheight y = bheight x ->
            match lastBlock y with Some c => set_lastBlocks y (closeBlock f src c e) | None => y end =
            match lastBlock y with Some c => set_lastBlocks y (closeBlock f' src c e) | None => y end).
  { intros y Hy. destruct (lastBlock y) as [c|] eqn:El; [|reflexivity]. pose proof (bheight_last y c El).
    rewrite (IH f' c); [reflexivity|lia|lia]. }
  destruct (_ =? ListKind); [rewrite Hcl; [reflexivity|rewrite bheight_onCloseList; apply bheight_set_bend]|].
  destruct (_ =? IndentedCodeBlockKind); [rewrite Hcl; [reflexivity|rewrite bheight_onCloseIndented; apply bheight_set_bend]|].
  destruct (_ || _); [reflexivity|]. rewrite Hcl; [reflexivity|apply bheight_set_bend].
Qed.

Lemma tipDepth_fuel2 : forall f f' b, (bheight b <= f)%nat -> (bheight b <= f')%nat -> tipDepth f b = tipDepth f' b.
Proof.
  induction f as [|f IH]; intros f' b H1 H2; [destruct (bheight_S b) as [n E]; lia|].
  destruct f' as [|f']; [destruct (bheight_S b) as [n E]; lia|].
  cbn [tipDepth]. destruct (lastBlock b) as [c|] eqn:El; [|reflexivity]. destruct (isOpen c); [|reflexivity].
  pose proof (bheight_last b c El). rewrite (IH f' c); [reflexivity|lia|lia].
Qed.

Lemma getAt_height : forall d b x, getAt d b = Some x -> (d + bheight x <= bheight b)%nat.
Proof.
  induction d as [|d IH]; intros b x H; [cbn in H; inversion H; lia|].
  rewrite getAt_S in H. destruct (lastBlock b) as [c|] eqn:El; [|discriminate]. pose proof (bheight_last b c El). specialize (IH c x H). lia.
Qed.

(* ---- the prefix ---- *)
Definition preR (K : list block) (rt : block) : block := set_bkids rt (K ++ bkids rt).
Definition pre (K : list block) (p : lp) : lp := withRoot p (preR K (root p)).

Lemma bkids_preR K rt : bkids (preR K rt) = K ++ bkids rt. Proof. destruct rt; reflexivity. Qed.
Lemma bkind_preR K rt : bkind (preR K rt) = bkind rt. Proof. destruct rt; reflexivity. Qed.
Lemma bheight_preR K rt : (bheight rt <= bheight (preR K rt))%nat.
Proof.
  destruct rt as [k s e bk ik a n ch l lb]. cbn [preR set_bkids bkids bheight]. apply le_n_S.
  induction K as [|x r IH]; [apply Nat.le_refl|]. cbn [app fold_right]. lia.
Qed.
Lemma lastBlock_preR K rt : bkids rt <> [] -> lastBlock (preR K rt) = lastBlock rt.
Proof.
  intros Hn. unfold lastBlock. rewrite bkids_preR, rev_app_distr. destruct (rev (bkids rt)) as [|x r] eqn:E; [|reflexivity].
  exfalso. apply Hn. rewrite <- (rev_involutive (bkids rt)), E. reflexivity.
Qed.
Lemma lastBlock_ne b c : lastBlock b = Some c -> bkids b <> [].
Proof. unfold lastBlock. intros H E. rewrite E in H. discriminate. Qed.
Lemma getAt_preR K : forall d rt x, getAt (S d) rt = Some x -> getAt (S d) (preR K rt) = Some x.
Proof.
  intros d rt x H. rewrite getAt_S in *. destruct (lastBlock rt) as [c|] eqn:El; [|discriminate].
  rewrite (lastBlock_preR K rt (lastBlock_ne _ _ El)), El. exact H.
Qed.
Lemma set_lastBlocks_preR K rt repl : bkids rt <> [] -> set_lastBlocks (preR K rt) repl = preR K (set_lastBlocks rt repl).
Proof.
  intros Hn. destruct rt as [k s e bk ik a n ch l lb]. cbn [bkids] in Hn. unfold set_lastBlocks, preR. cbn [set_bkids bkids].
  rewrite (removelast_app_ne K bk Hn), app_assoc. reflexivity.
Qed.
Lemma updAt_preR K g : forall d rt x, getAt (S d) rt = Some x -> updAt (S d) g (preR K rt) = preR K (updAt (S d) g rt).
Proof.
  intros d rt x H. cbn [updAt]. rewrite getAt_S in H. destruct (lastBlock rt) as [c|] eqn:El; [|discriminate].
  rewrite (lastBlock_preR K rt (lastBlock_ne _ _ El)), El. apply set_lastBlocks_preR. exact (lastBlock_ne _ _ El).
Qed.
Lemma updAt_ext_at g g' : forall d rt y, getAt d rt = Some y -> g y = g' y -> updAt d g rt = updAt d g' rt.
Proof.
  induction d as [|d IH]; intros rt y H E; [cbn in H; inversion H; subst; exact E|].
  cbn [updAt]. rewrite getAt_S in H. destruct (lastBlock rt) as [c|]; [|reflexivity]. rewrite (IH c y H E). reflexivity.
Qed.

Definition fieldOnly (g : block -> block) : Prop :=
  forall b, bkids (g b) = bkids b /\ forall ks, g (set_bkids b ks) = set_bkids (g b) ks.
Lemma fieldOnly_bik (h : block -> list inline) : (forall b ks, h (set_bkids b ks) = h b) -> fieldOnly (fun b => set_bik b (h b)).
Proof. intros Hh b. split; [destruct b; reflexivity|]. intros ks. rewrite Hh. destruct b; reflexivity. Qed.
Lemma fieldOnly_bn v : fieldOnly (fun b => set_bn b v). Proof. intros b. split; [|intros ks]; destruct b; reflexivity. Qed.
Lemma fieldOnly_bchar v : fieldOnly (fun b => set_bchar b v). Proof. intros b. split; [|intros ks]; destruct b; reflexivity. Qed.
Lemma fieldOnly_bindent v : fieldOnly (fun b => set_bindent b v). Proof. intros b. split; [|intros ks]; destruct b; reflexivity. Qed.
Lemma fieldOnly_bn_bchar v w : fieldOnly (fun b => set_bn (set_bchar b v) w). Proof. intros b. split; [|intros ks]; destruct b; reflexivity. Qed.
Lemma fieldOnly_retag v : fieldOnly (fun b => set_bn (set_bkind b SetextHeadingKind) v). Proof. intros b. split; [|intros ks]; destruct b; reflexivity. Qed.
Lemma fieldOnly_blast v : fieldOnly (fun b => set_blast b v). Proof. intros b. split; [|intros ks]; destruct b; reflexivity. Qed.

Section Frame.
  Variable K : list block.
  Hypothesis Kc : Forall closedB K.

  Lemma pre_swap p : pre K p = swapRC p (preR K (root p)) (container p). Proof. reflexivity. Qed.

  Lemma lastBlock_preR_nil rt : bkids rt = [] ->
    lastBlock (preR K rt) = None \/ exists y, lastBlock (preR K rt) = Some y /\ isOpen y = false /\ set_lastBlocks (preR K rt) [y] = preR K rt.
  Proof.
    intros E. destruct (list_snoc_cases K) as [EK|(pre0 & y & EK)].
    - left. unfold lastBlock. rewrite bkids_preR, EK, E. reflexivity.
    - right. exists y. assert (El : bkids (preR K rt) = pre0 ++ [y]) by (rewrite bkids_preR, EK, E, app_nil_r; reflexivity).
      split; [apply (lastBlock_snoc _ _ _ El)|]. split.
      + pose proof Kc as H. rewrite EK in H. apply Forall_app in H. destruct H as [_ H]. inversion H; subst. assumption.
      + unfold set_lastBlocks. rewrite El, removelast_snoc. destruct rt. cbn [preR set_bkids bkids] in *. rewrite <- El. reflexivity.
  Qed.

  (* ---- queries ---- *)
  Lemma getAt_pre_S p d : getAt (S d) (root (pre K p)) = getAt (S d) (root p) \/ bkids (root p) = [].
  Proof.
    destruct (bkids (root p)) as [|x r] eqn:E; [right; reflexivity|left].
    change (root (pre K p)) with (preR K (root p)). rewrite !getAt_S, lastBlock_preR; [reflexivity|rewrite E; discriminate].
  Qed.
  Lemma wf_kids p d : cdepth p = S d -> wf p -> bkids (root p) <> [].
  Proof.
    intros Ed (x & Hx). rewrite Ed, getAt_S in Hx. destruct (lastBlock (root p)) as [c|] eqn:El; [|discriminate]. exact (lastBlock_ne _ _ El).
  Qed.
  Lemma contBlock_pre_S p d : cdepth p = S d -> wf p -> contBlock (pre K p) = contBlock p.
  Proof.
    intros Ed Hw. unfold contBlock. change (cdepth (pre K p)) with (cdepth p). rewrite Ed.
    destruct (getAt_pre_S p d) as [E|E]; [rewrite E; reflexivity|]. exfalso. exact (wf_kids p d Ed Hw E).
  Qed.
  Lemma contBlock_pre_0 p : cdepth p = O -> contBlock (pre K p) = preR K (contBlock p).
  Proof. intros Ed. unfold contBlock. change (cdepth (pre K p)) with (cdepth p). rewrite Ed. reflexivity. Qed.
  Lemma containerKind_pre p : wf p -> containerKind (pre K p) = containerKind p.
  Proof.
    intros Hw. unfold containerKind. destruct (cdepth p) as [|d] eqn:Ed.
    - rewrite (contBlock_pre_0 p Ed). apply bkind_preR.
    - rewrite (contBlock_pre_S p d Ed Hw). reflexivity.
  Qed.
  Lemma bchar_contBlock_pre p : wf p -> bchar (contBlock (pre K p)) = bchar (contBlock p).
  Proof.
    intros Hw. destruct (cdepth p) as [|d] eqn:Ed.
    - rewrite (contBlock_pre_0 p Ed). destruct (contBlock p); reflexivity.
    - rewrite (contBlock_pre_S p d Ed Hw). reflexivity.
  Qed.
  Lemma tipKind_pre p : tipKind (pre K p) = tipKind p.
  Proof.
    unfold tipKind. change (root (pre K p)) with (preR K (root p)). set (rt := root p).
    destruct (bheight_S (preR K rt)) as [f Ef]. destruct (bheight_S rt) as [f' Ef']. rewrite Ef, Ef'. cbn [tipDepth].
    destruct (bkids rt) as [|x0 r0] eqn:Ek.
    - assert (El : lastBlock rt = None) by (unfold lastBlock; rewrite Ek; reflexivity). rewrite El.
      destruct (lastBlock_preR_nil rt Ek) as [E|(y & E & Hy & _)]; rewrite E; [|rewrite Hy]; cbn [getAt]; apply bkind_preR.
    - rewrite (lastBlock_preR K rt ltac:(rewrite Ek; discriminate)).
      destruct (lastBlock rt) as [c|] eqn:El; [|cbn [getAt]; apply bkind_preR].
      destruct (isOpen c); [|cbn [getAt]; apply bkind_preR].
      pose proof (bheight_last rt c El) as H1. pose proof (bheight_preR K rt) as H2.
      rewrite (tipDepth_fuel2 f f' c); [|lia|lia]. rewrite !getAt_S, (lastBlock_preR K rt ltac:(rewrite Ek; discriminate)), El. reflexivity.
  Qed.

  (* ---- primitives ---- *)
  Lemma advance_pre p n : advance (pre K p) n = pre K (advance p n).
  Proof. rewrite pre_swap, advance_swapRC. unfold pre. rewrite root_advance. rewrite <- (container_advance p n). reflexivity. Qed.
  Lemma consumeIndent_pre p n : consumeIndent (pre K p) n = pre K (consumeIndent p n).
  Proof. rewrite pre_swap, consumeIndent_swapRC. unfold pre. rewrite root_consumeIndent. rewrite <- (container_consumeIndent p n). reflexivity. Qed.
  Lemma consumeLine_pre p : consumeLine (pre K p) = pre K (consumeLine p).
  Proof. rewrite pre_swap, consumeLine_swapRC. unfold pre. rewrite root_consumeLine. rewrite <- (container_consumeLine p). reflexivity. Qed.
  Lemma opened_pre p : (if state (pre K p) =? stOpening then withState (pre K p) stOpenMatched else pre K p) =
                       pre K (if state p =? stOpening then withState p stOpenMatched else p).
  Proof. change (state (pre K p)) with (state p). destruct (state p =? stOpening); reflexivity. Qed.

  Lemma updCont_pre p g : wf p -> fieldOnly g -> updCont (pre K p) g = pre K (updCont p g).
  Proof.
    intros Hw Hg.
    change (updCont (pre K p) g) with (withRoot (pre K p) (updAt (cdepth p) g (preR K (root p)))).
    change (pre K (updCont p g)) with (withRoot (updCont p g) (preR K (updAt (cdepth p) g (root p)))).
    assert (E : updAt (cdepth p) g (preR K (root p)) = preR K (updAt (cdepth p) g (root p))).
    { destruct (cdepth p) as [|d] eqn:Ed.
      - cbn [updAt]. unfold preR. destruct (Hg (root p)) as [G1 G2]. rewrite G2, G1. reflexivity.
      - destruct Hw as (x & Hx). rewrite Ed in Hx. apply (updAt_preR K g d (root p) x Hx). }
    rewrite E. reflexivity.
  Qed.
  Lemma append_pre p nb : wf p -> updCont (pre K p) (fun b => set_bkids b (bkids b ++ [nb])) = pre K (updCont p (fun b => set_bkids b (bkids b ++ [nb]))).
  Proof.
    intros Hw. set (g := fun b => set_bkids b (bkids b ++ [nb])).
    change (updCont (pre K p) g) with (withRoot (pre K p) (updAt (cdepth p) g (preR K (root p)))).
    change (pre K (updCont p g)) with (withRoot (updCont p g) (preR K (updAt (cdepth p) g (root p)))).
    assert (E : updAt (cdepth p) g (preR K (root p)) = preR K (updAt (cdepth p) g (root p))).
    { destruct (cdepth p) as [|d] eqn:Ed.
      - cbn [updAt]. unfold g. destruct (root p). cbn [preR set_bkids bkids]. rewrite app_assoc. reflexivity.
      - destruct Hw as (x & Hx). rewrite Ed in Hx. apply (updAt_preR K g d (root p) x Hx). }
    rewrite E. reflexivity.
  Qed.

  Lemma clF_fuel h h' src e y : (bheight y <= h)%nat -> (bheight y <= h')%nat -> clF h src e y = clF h' src e y.
  Proof.
    intros H1 H2. unfold clF. destruct (lastBlock y) as [x|] eqn:El; [|reflexivity]. pose proof (bheight_last y x El).
    rewrite (closeBlock_fuel2 src e h h' x); [reflexivity|lia|lia].
  Qed.

  Lemma closeLastChildAt_pre p d e : (d <= cdepth p)%nat -> wf p -> closeLastChildAt (pre K p) d e = pre K (closeLastChildAt p d e).
  Proof.
    intros Hd (x & Hx). rewrite !closeLastChildAt_clF.
    set (rt := root p). set (h := bheight rt). set (h' := bheight (preR K rt)).
    change (withRoot (pre K p) (updAt d (clF h' (source p) e) (preR K rt)) =
            withRoot (withRoot p (updAt d (clF h (source p) e) rt)) (preR K (updAt d (clF h (source p) e) rt))).
    assert (Hh : (h <= h')%nat) by apply bheight_preR.
    assert (E : updAt d (clF h' (source p) e) (preR K rt) = preR K (updAt d (clF h (source p) e) rt)).
    { destruct d as [|d].
      - cbn [updAt]. destruct (bkids rt) as [|x0 r0] eqn:Ek.
        + assert (El : lastBlock rt = None) by (unfold lastBlock; rewrite Ek; reflexivity).
          assert (E2 : clF h (source p) e rt = rt) by (unfold clF; rewrite El; reflexivity). rewrite E2. unfold clF.
          destruct (lastBlock_preR_nil rt Ek) as [E|(y & E & Hy & Hr)]; rewrite E; [reflexivity|].
          rewrite (TOcp.closeBlock_closed _ _ y e Hy). exact Hr.
        + unfold clF. rewrite (lastBlock_preR K rt ltac:(rewrite Ek; discriminate)).
          destruct (lastBlock rt) as [c|] eqn:El; [|reflexivity]. pose proof (bheight_last rt c El).
          rewrite (closeBlock_fuel2 (source p) e h' h c); [|lia|unfold h; lia].
          apply set_lastBlocks_preR. rewrite Ek. discriminate.
      - destruct (getAt_le (cdepth p) (S d) rt x Hd Hx) as (y & Hy).
        rewrite (updAt_preR K _ d rt y Hy). f_equal. apply (updAt_ext_at _ _ (S d) rt y Hy).
        pose proof (getAt_height (S d) rt y Hy). apply clF_fuel; unfold h in *; lia. }
    rewrite E. reflexivity.
  Qed.

  Lemma wf_closeAt p d e : (cdepth p <= d)%nat -> wf p -> wf (closeLastChildAt p d e).
  Proof.
    intros L (x & Hx). unfold wf. rewrite closeLastChildAt_clF. change (cdepth (withRoot p _)) with (cdepth p). cbn [root withRoot setLP].
    assert (G : forall d0 d1 g r y, (d0 <= d1)%nat -> getAt d0 r = Some y -> exists z, getAt d0 (updAt d1 g r) = Some z).
    { induction d0 as [|d0 IH]; intros d1 g r y Hle Hy; [eexists; reflexivity|].
      destruct d1 as [|d1]; [lia|]. cbn [updAt]. rewrite getAt_S in Hy. destruct (lastBlock r) as [c|] eqn:El; [|discriminate].
      rewrite getAt_S, (lastBlock_set_last r _ (lastBlock_ne _ _ El)). apply (IH d1 g c y); [lia|exact Hy]. }
    apply (G _ _ _ _ x L Hx).
  Qed.

  Lemma openBlock_up_pre X : forall fuel p, ccP p -> openBlock_up fuel (pre K p) X = pre K (openBlock_up fuel p X).
  Proof.
    induction fuel as [|f IH]; intros p H; [reflexivity|]. cbn [openBlock_up].
    rewrite (containerKind_pre p (proj2 (proj2 H))). destruct (canContain (containerKind p) X); [reflexivity|].
    change (cdepth (pre K p)) with (cdepth p). destruct (cdepth p) as [|d] eqn:Ed; [reflexivity|].
    change (lineStart (pre K p)) with (lineStart p).
    rewrite (closeLastChildAt_pre p d (lineStart p)); [|lia|apply H].
    change (withCont (pre K (closeLastChildAt p d (lineStart p))) (Some d)) with (pre K (withCont (closeLastChildAt p d (lineStart p)) (Some d))).
    apply IH. apply ccP_closeAt; [exact H|lia|]. destruct H as (_ & _ & (x & Hx)). apply (getAt_le (cdepth p) d (root p) x); [lia|exact Hx].
  Qed.

  Lemma openBlock_pre p X : ccP p -> openBlock (pre K p) X = pre K (openBlock p X).
  Proof.
    intros H. unfold openBlock. change (state (pre K p)) with (state p). destruct (_ || _); [reflexivity|]. cbv zeta.
    pose proof (opened_pre p) as Eo. change (state (pre K p)) with (state p) in Eo. rewrite Eo. clear Eo.
    set (p0 := if state p =? stOpening then withState p stOpenMatched else p).
    assert (H0 : ccP p0) by (unfold p0; destruct (_ =? _); exact H).
    change (cdepth (pre K p0)) with (cdepth p0). rewrite (openBlock_up_pre X _ p0 H0).
    set (p2 := openBlock_up (S (cdepth p0)) p0 X). assert (H2 : ccP p2) by (apply ccP_openBlock_up, H0).
    change (cdepth (pre K p2)) with (cdepth p2). change (lineStart (pre K p2)) with (lineStart p2).
    rewrite (closeLastChildAt_pre p2 (cdepth p2) (lineStart p2) (Nat.le_refl _) (proj2 (proj2 H2))).
    set (p3 := closeLastChildAt p2 (cdepth p2) (lineStart p2)).
    assert (W3 : wf p3) by (apply wf_closeAt; [apply Nat.le_refl|apply H2]).
    change (lineStart (pre K p3)) with (lineStart p3). change (li (pre K p3)) with (li p3).
    rewrite (append_pre p3 _ W3). reflexivity.
  Qed.

  Lemma endBlock_pre p : ccP p -> endBlock (pre K p) = pre K (endBlock p).
  Proof.
    intros H. unfold endBlock. change (state (pre K p)) with (state p). destruct (_ || _); [reflexivity|]. cbv zeta.
    pose proof (opened_pre p) as Eo. change (state (pre K p)) with (state p) in Eo. rewrite Eo. clear Eo.
    set (p0 := if state p =? stOpening then withState p stOpenMatched else p).
    assert (H0 : ccP p0) by (unfold p0; destruct (_ =? _); exact H).
    change (cdepth (pre K p0)) with (cdepth p0). destruct (cdepth p0) as [|d] eqn:Ed; [reflexivity|].
    change (lineStart (pre K p0)) with (lineStart p0). change (li (pre K p0)) with (li p0).
    rewrite (closeLastChildAt_pre p0 d _); [reflexivity|lia|apply H0].
  Qed.

  Lemma collectInline_pre p kind n : wf p -> collectInline (pre K p) kind n = pre K (collectInline p kind n).
  Proof.
    intros Hw. unfold collectInline. change (state (pre K p)) with (state p). destruct (_ =? stDescendTerminated); [reflexivity|]. cbv zeta.
    pose proof (opened_pre p) as Eo. change (state (pre K p)) with (state p) in Eo. rewrite Eo. clear Eo.
    set (p1 := if state p =? stOpening then withState p stOpenMatched else p).
    assert (W1 : wf p1) by (unfold p1; destruct (_ =? _); exact Hw).
    change (indent (pre K p1)) with (indent p1).
    assert (Wadv : forall q m, wf q -> wf (advance q m)).
    { intros q m (x & Hx). unfold wf, cdepth. rewrite container_advance, root_advance. exists x. exact Hx. }
    assert (Wupd : forall q g, wf q -> wf (updCont q g)).
    { intros q g (x & Hx). unfold wf. change (cdepth (updCont q g)) with (cdepth q). change (root (updCont q g)) with (updAt (cdepth q) g (root q)).
      eapply getAt_updAt_exists. exact Hx. }
    set (p2 := if 0 <? indent p1 then _ else p1).
    set (p2' := if 0 <? indent p1 then _ else pre K p1).
    assert (E2 : p2' = pre K p2 /\ wf p2).
    { unfold p2, p2'. destruct (0 <? indent p1); [|split; [reflexivity|exact W1]].
      change (lineStart (pre K p1)) with (lineStart p1). change (li (pre K p1)) with (li p1). change (rest (pre K p1)) with (rest p1).
      rewrite advance_pre. change (lineStart (pre K (advance p1 (indentLength (rest p1))))) with (lineStart (advance p1 (indentLength (rest p1)))).
      change (li (pre K (advance p1 (indentLength (rest p1))))) with (li (advance p1 (indentLength (rest p1)))).
      split; [|exact (Wupd _ _ (Wadv _ _ W1))].
      apply (updCont_pre (advance p1 (indentLength (rest p1)))); [exact (Wadv _ _ W1)|].
      apply (fieldOnly_bik (fun b => bik b ++ [_])). intros b ks. destruct b; reflexivity. }
    destruct E2 as [E2 W2]. rewrite E2.
    change (lineStart (pre K p2)) with (lineStart p2). change (li (pre K p2)) with (li p2). rewrite advance_pre.
    change (source (pre K (advance p2 n))) with (source (advance p2 n)).
    change (lineStart (pre K (advance p2 n))) with (lineStart (advance p2 n)). change (li (pre K (advance p2 n))) with (li (advance p2 n)).
    apply (updCont_pre (advance p2 n)); [exact (Wadv _ _ W2)|].
    apply (fieldOnly_bik (fun b => bik b ++ [_])). intros b ks. destruct b; reflexivity.
  Qed.

  (* ---- the block starts ---- *)
  Ltac wfc H := first [apply H | apply (proj2 (proj2 H))].
  Definition startPre (f : lp -> lp) : Prop := forall p, st_open p -> ccP p -> f (pre K p) = pre K (f p).

  Lemma pre_BQ : startPre startBlockQuote.
  Proof.
    intros p Hs H. unfold startBlockQuote. cbv zeta.
    change (indent (pre K p)) with (indent p). change (bytesAfterIndent (pre K p)) with (bytesAfterIndent p).
    destruct (_ <=? _); [reflexivity|]. destruct (negb _); [reflexivity|].
    rewrite consumeIndent_pre, openBlock_pre by (chainc H). rewrite advance_pre.
    set (q := advance _ 1). change (indent (pre K q)) with (indent q). destruct (0 <? indent q); [apply consumeIndent_pre|reflexivity].
  Qed.
  Lemma pre_Thematic : startPre startThematic.
  Proof.
    intros p Hs H. unfold startThematic. cbv zeta.
    change (indent (pre K p)) with (indent p). change (bytesAfterIndent (pre K p)) with (bytesAfterIndent p).
    destruct (_ <=? _); [reflexivity|]. destruct (_ <? 0); [reflexivity|].
    rewrite consumeIndent_pre, openBlock_pre by (chainc H). rewrite advance_pre, consumeLine_pre. apply endBlock_pre. chainc H.
  Qed.
  Lemma pre_Indented : startPre startIndented.
  Proof.
    intros p Hs H. unfold startIndented.
    change (indent (pre K p)) with (indent p). change (isRestBlank (pre K p)) with (isRestBlank p). rewrite tipKind_pre.
    destruct (_ || _ || _); [reflexivity|]. rewrite consumeIndent_pre. apply openBlock_pre. chainc H.
  Qed.
  Lemma pre_ATX : startPre startATX.
  Proof.
    intros p Hs H. unfold startATX. cbv zeta.
    change (indent (pre K p)) with (indent p). change (bytesAfterIndent (pre K p)) with (bytesAfterIndent p).
    destruct (_ <=? _); [reflexivity|]. destruct (parseATXHeading _) as [[level cs] ce]. destruct (level <? 1); [reflexivity|].
    rewrite consumeIndent_pre, openBlock_pre by (chainc H).
    set (q1 := openBlock (consumeIndent p (indent p)) ATXHeadingKind). assert (C1 : ccP q1) by (unfold q1; chainc H).
    rewrite (updCont_pre q1 _ (proj2 (proj2 C1)) (fieldOnly_bn level)).
    set (q2 := updCont q1 _). assert (C2 : ccP q2) by (unfold q2; chainc C1).
    rewrite advance_pre, collectInline_pre by (wfc (ccP_advance q2 cs C2)).
    rewrite consumeLine_pre. apply endBlock_pre. chainc C2.
  Qed.
  Lemma pre_Fenced : startPre startFenced.
  Proof.
    intros p Hs H. unfold startFenced. cbv zeta.
    change (indent (pre K p)) with (indent p). change (bytesAfterIndent (pre K p)) with (bytesAfterIndent p).
    destruct (_ <=? _); [reflexivity|]. destruct (parseCodeFence _) as [[[fc fnn] is_] ie]. destruct (fnn =? 0); [reflexivity|].
    rewrite consumeIndent_pre, openBlock_pre by (chainc H).
    set (q1 := openBlock (consumeIndent p (indent p)) FencedCodeBlockKind). assert (C1 : ccP q1) by (unfold q1; chainc H).
    rewrite (updCont_pre q1 _ (proj2 (proj2 C1)) (fieldOnly_bn_bchar fc fnn)).
    set (q2 := updCont q1 _). assert (C2 : ccP q2) by (unfold q2; chainc C1).
    rewrite (updCont_pre q2 _ (proj2 (proj2 C2)) (fieldOnly_bindent (indent p))).
    set (q3 := updCont q2 _). assert (C3 : ccP q3) by (unfold q3; chainc C2).
    destruct (spanValid _); [|apply consumeLine_pre].
    rewrite advance_pre, collectInline_pre by (wfc (ccP_advance q3 is_ C3)). apply consumeLine_pre.
  Qed.
  Lemma pre_HTML : startPre startHTML.
  Proof.
    intros p Hs H. unfold startHTML. cbv zeta.
    change (indent (pre K p)) with (indent p). change (bytesAfterIndent (pre K p)) with (bytesAfterIndent p).
    rewrite (containerKind_pre p (proj2 (proj2 H))), tipKind_pre.
    destruct (_ <=? _); [reflexivity|]. destruct (negb _); [reflexivity|]. destruct (_ <? 0); [reflexivity|].
    destruct (negb _ && _); [reflexivity|].
    rewrite openBlock_pre by exact H.
    set (q1 := openBlock p HTMLBlockKind). assert (C1 : ccP q1) by (unfold q1; chainc H).
    rewrite (updCont_pre q1 _ (proj2 (proj2 C1)) (fieldOnly_bn _)).
    set (q2 := updCont q1 _). assert (C2 : ccP q2) by (unfold q2; chainc C1).
    destruct (htmlEnd _ _); [|reflexivity].
    change (bytesAfterIndent (pre K q2)) with (bytesAfterIndent q2).
    rewrite collectInline_pre by (wfc C2). rewrite consumeLine_pre. apply endBlock_pre. chainc C2.
  Qed.

  Lemma pre_Setext : startPre startSetext.
  Proof.
    intros p Hs H. unfold startSetext. cbv zeta. rewrite (containerKind_pre p (proj2 (proj2 H))).
    destruct (negb (containerKind p =? ParagraphKind)) eqn:Ek; [reflexivity|].
    apply negb_false_iff, Z.eqb_eq in Ek.
    change (indent (pre K p)) with (indent p). change (bytesAfterIndent (pre K p)) with (bytesAfterIndent p).
    destruct (_ <=? _); [reflexivity|]. destruct (_ =? 0); [reflexivity|].
    assert (Hd : exists d, cdepth p = S d).
    { destruct (cdepth p) as [|d] eqn:Ed; [|eexists; reflexivity]. exfalso. rewrite (containerKind_root p Ed) in Ek.
      destruct H as (A & _). rewrite A in Ek. discriminate. }
    destruct Hd as [d Ed].
    assert (Ec : containerHasParagraphContent (pre K p) = containerHasParagraphContent p).
    { unfold containerHasParagraphContent. rewrite (containerKind_pre p (proj2 (proj2 H))), (contBlock_pre_S p d Ed (proj2 (proj2 H))). reflexivity. }
    rewrite Ec. destruct (negb (containerHasParagraphContent p)); [reflexivity|].
    rewrite (updCont_pre p _ (proj2 (proj2 H)) (fieldOnly_retag _)), consumeLine_pre. apply endBlock_pre.
    apply ccP_consumeLine. apply ccP_updCont_compat; [exact H| |].
    - intros x Hx Hc. pose proof (ckind_self p x Hx) as Ex. rewrite Ek in Ex.
      apply cc_parts in Hc. destruct Hc as [C1 _]. rewrite Ex in C1.
      assert (Ekids : bkids x = []) by (apply forallb_false_nil; exact C1).
      destruct x as [K0 s e bk ik a n c l lb]. cbn [bkids bkind] in *. subst bk K0. split; [reflexivity|].
      right. split; discriminate.
    - intros E0. rewrite E0 in Ed. discriminate.
  Qed.

  Lemma pre_itemTail p2 delim ind mend : st_open p2 -> ccP p2 -> containerKind p2 = ListKind ->
    itemTail (pre K p2) delim ind mend = pre K (itemTail p2 delim ind mend).
  Proof.
    intros S2 H2 K2. unfold itemTail. cbv zeta.
    rewrite openBlock_pre by exact H2.
    set (q1 := openBlock p2 ListItemKind).
    assert (C1 : ccP q1) by (apply ccP_openBlock; [exact H2|right; rewrite K2; reflexivity]).
    rewrite (updCont_pre q1 _ (proj2 (proj2 C1)) (fieldOnly_bchar delim)).
    set (q := updCont q1 _). assert (Cq : ccP q) by (unfold q; chainc C1).
    rewrite openBlock_pre by exact Cq. rewrite advance_pre.
    set (q3 := advance (openBlock q ListMarkerKind) mend). assert (C3 : ccP q3) by (unfold q3; chainc Cq).
    rewrite endBlock_pre by exact C3.
    set (qe := endBlock q3). assert (Ce : ccP qe) by (unfold qe; chainc C3).
    change (isRestBlank (pre K qe)) with (isRestBlank qe). destruct (isRestBlank qe).
    - rewrite (updCont_pre qe _ (proj2 (proj2 Ce)) (fieldOnly_bindent _)). apply consumeLine_pre.
    - change (indent (pre K qe)) with (indent qe). destruct (indent qe <? 1).
      + apply (updCont_pre qe _ (proj2 (proj2 Ce)) (fieldOnly_bindent _)).
      + destruct (4 <? indent qe); rewrite consumeIndent_pre;
          apply updCont_pre; [apply (ccP_consumeIndent qe _ Ce)|apply fieldOnly_bindent|apply (ccP_consumeIndent qe _ Ce)|apply fieldOnly_bindent].
  Qed.

  Lemma pre_ListItem : startPre startListItem.
  Proof.
    intros p Hs H. unfold startListItem. cbv zeta.
    change (indent (pre K p)) with (indent p). change (bytesAfterIndent (pre K p)) with (bytesAfterIndent p).
    rewrite (containerKind_pre p (proj2 (proj2 H))).
    destruct (_ <=? _); [reflexivity|]. destruct (parseListMarker _) as [[delim n] mend].
    destruct (_ || _); [reflexivity|]. destruct (_ && _); [reflexivity|].
    rewrite consumeIndent_pre. set (p1 := consumeIndent p (indent p)).
    assert (H1 : ccP p1) by (apply ccP_consumeIndent, H). assert (S1 : st_open p1) by (apply st_open_consumeIndent, Hs).
    rewrite (containerKind_pre p1 (proj2 (proj2 H1))), (bchar_contBlock_pre p1 (proj2 (proj2 H1))).
    set (cdelim := if (containerKind p1 =? ListKind) || (containerKind p1 =? ListItemKind) then bchar (contBlock p1) else 0).
    set (p2 := if negb (containerKind p1 =? ListKind) || negb (cdelim =? delim) then updCont (openBlock p1 ListKind) (fun b => set_bchar b delim) else p1).
    assert (E2 : (if negb (containerKind p1 =? ListKind) || negb (cdelim =? delim)
                  then updCont (openBlock (pre K p1) ListKind) (fun b => set_bchar b delim) else pre K p1) = pre K p2).
    { unfold p2. destruct (negb (containerKind p1 =? ListKind) || negb (cdelim =? delim)); [|reflexivity]. rewrite openBlock_pre by exact H1.
      apply updCont_pre; [|apply fieldOnly_bchar]. apply (ccP_openBlock p1 ListKind H1). left; discriminate. }
    assert (H2 : ccP p2 /\ st_open p2 /\ containerKind p2 = ListKind).
    { unfold p2. destruct (negb (containerKind p1 =? ListKind) || negb (cdelim =? delim)) eqn:Ec.
      - assert (Hq : ccP (updCont (openBlock p1 ListKind) (fun b => set_bchar b delim))) by chainc H1.
        split; [exact Hq|]. split; [apply GramLP2.st_open_updCont, L2Kind2.st_open_openBlock, S1|]. apply containerKind_of; [exact Hq|].
        apply ckind_updCont; [intros b; apply bkind_set_bchar|]. apply ckind_openBlock, S1.
      - apply orb_false_iff in Ec. destruct Ec as [Ec _]. apply negb_false_iff, Z.eqb_eq in Ec. tauto. }
    destruct H2 as (H2 & S2 & K2).
    pose proof (pre_itemTail p2 delim (indent p) mend S2 H2 K2) as ET. unfold itemTail in ET. cbv zeta in ET.
    rewrite E2. exact ET.
  Qed.

  Lemma blockStarts_pre : Forall startPre blockStarts.
  Proof.
    unfold blockStarts.
    apply Forall_cons; [apply pre_BQ|]. apply Forall_cons; [apply pre_ATX|]. apply Forall_cons; [apply pre_Fenced|].
    apply Forall_cons; [apply pre_HTML|]. apply Forall_cons; [apply pre_Setext|]. apply Forall_cons; [apply pre_Thematic|].
    apply Forall_cons; [apply pre_ListItem|]. apply Forall_cons; [apply pre_Indented|]. apply Forall_nil.
  Qed.
  Lemma tryStarts_pre : forall fs p, Forall startPre fs -> Forall startOKc fs -> ccP p ->
    tryStarts fs (pre K p) = (fst (tryStarts fs p), pre K (snd (tryStarts fs p))).
  Proof.
    induction fs as [|f r IH]; intros p Hfs Hok H; [reflexivity|]. cbn [tryStarts]. cbv zeta.
    inversion Hfs as [|? ? Hf Hr]; subst. inversion Hok as [|? ? Hf' Hr']; subst.
    change (withState (pre K p) stOpening) with (pre K (withState p stOpening)).
    rewrite (Hf (withState p stOpening) (or_introl eq_refl) H).
    set (p1 := f (withState p stOpening)). change (state (pre K p1)) with (state p1).
    assert (H1 : ccP p1) by (apply Hf'; [left; reflexivity|exact H]).
    destruct (_ || _); [reflexivity|]. apply IH; assumption.
  Qed.
  Lemma opening_loop_pre : forall fuel p, ccP p ->
    opening_loop fuel (pre K p) = (fst (opening_loop fuel p), pre K (snd (opening_loop fuel p))).
  Proof.
    induction fuel as [|f IH]; intros p H; [reflexivity|]. cbn [opening_loop].
    rewrite (containerKind_pre p (proj2 (proj2 H))). destruct (_ || _); [|reflexivity].
    rewrite (tryStarts_pre blockStarts p blockStarts_pre blockStarts_okc H).
    pose proof (ccP_tryStarts blockStarts p blockStarts_okc H) as H1.
    destruct (tryStarts blockStarts p) as [[|] p1]; cbn [fst snd] in *; [|reflexivity].
    change (state (pre K p1)) with (state p1). destruct (_ =? stLineConsumed); [reflexivity|]. apply IH, H1.
  Qed.

  Lemma setLB_preR v : forall d rt, (exists x, getAt d rt = Some x) -> setLastBlankUpTo d v (preR K rt) = preR K (setLastBlankUpTo d v rt).
  Proof.
    induction d as [|d IH]; intros rt (x & Hx); cbn [setLastBlankUpTo].
    - cbn [updAt]. destruct rt; reflexivity.
    - rewrite (updAt_preR K _ d rt x Hx). apply IH. destruct (getAt_prefix d rt x Hx) as (y & Hy).
      apply (getAt_updAt_below _ (S d) d rt y); [lia|exact Hy].
  Qed.
  Lemma goF_pre q : wf q -> goF (pre K q) = pre K (goF q).
  Proof.
    intros Hw. unfold goF. cbv zeta. rewrite (containerKind_pre q Hw).
    change (lineStart (pre K q)) with (lineStart q). change (li (pre K q)) with (li q). change (line (pre K q)) with (line q).
    rewrite (updCont_pre q _ Hw (fieldOnly_bik (fun b => bik b ++ [_]) ltac:(intros b ks; destruct b; reflexivity))).
    set (q' := updCont q _). change (line (pre K q')) with (line q'). change (lineStart (pre K q')) with (lineStart q').
    destruct (_ && _); [|reflexivity].
    apply updCont_pre; [|apply (fieldOnly_bik (fun b => bik b ++ [_])); intros b ks; destruct b; reflexivity].
    destruct Hw as (x & Hx). unfold wf, q'. change (cdepth (updCont q _)) with (cdepth q). change (root (updCont q ?g)) with (updAt (cdepth q) g (root q)).
    eapply getAt_updAt_exists. exact Hx.
  Qed.
End Frame.

(* ---- addLineText: the only place where the prefix is touched (a blank line flags its last block) ---- *)
Definition flagLast (K : list block) : list block := match rev K with y :: r => rev r ++ [set_blast y true] | [] => [] end.
Lemma flagLast_closed K : Forall closedB K -> Forall closedB (flagLast K).
Proof.
  intros H. unfold flagLast. destruct (rev K) as [|y r] eqn:E; [constructor|].
  assert (EK : K = rev r ++ [y]) by (rewrite <- (rev_involutive K), E; reflexivity). rewrite EK in H. apply Forall_app in H. destruct H as [H1 H2].
  apply Forall_app. split; [exact H1|]. inversion H2; subst. constructor; [|constructor]. unfold closedB in *. destruct y; assumption.
Qed.
Definition blankAtRoot (p : lp) : bool := isRestBlank p && Nat.eqb (cdepth p) 0 && match bkids (root p) with [] => true | _ => false end.
Definition prefixAfter (K : list block) (p : lp) : list block := if blankAtRoot p then flagLast K else K.

Lemma alP1_pre K p : wf p -> alP1 (pre K p) = pre (prefixAfter K p) (alP1 p).
Proof.
  intros Hw. unfold alP1, prefixAfter, blankAtRoot. change (isRestBlank (pre K p)) with (isRestBlank p).
  destruct (isRestBlank p); cbn [andb]; [|reflexivity].
  change (updCont (pre K p) fblast) with (withRoot (pre K p) (updAt (cdepth p) fblast (preR K (root p)))).
  destruct (cdepth p) as [|d] eqn:Ed; cbn [Nat.eqb andb].
  - cbn [updAt]. set (rt := root p).
    assert (Eu : updCont p fblast = withRoot p (fblast rt)) by (unfold updCont; rewrite Ed; reflexivity). rewrite Eu.
    destruct (bkids rt) as [|x0 r0] eqn:Ek.
    + assert (El : lastBlock rt = None) by (unfold lastBlock; rewrite Ek; reflexivity).
      assert (Ef : fblast rt = rt) by (unfold fblast; rewrite El; reflexivity). rewrite Ef.
      unfold fblast, flagLast, lastBlock. rewrite bkids_preR, Ek, app_nil_r.
      destruct (rev K) as [|y r] eqn:E; [assert (EK0 : K = []) by (rewrite <- (rev_involutive K), E; reflexivity); subst K; reflexivity|].
      assert (EK : K = rev r ++ [y]) by (rewrite <- (rev_involutive K), E; reflexivity).
      assert (EX : set_lastBlocks (preR K rt) [set_blast y true] = preR (rev r ++ [set_blast y true]) rt).
      { unfold set_lastBlocks, preR. destruct rt as [k s e bk ik a n ch l lb]. cbn [bkids set_bkids] in *. subst bk.
        rewrite !app_nil_r. rewrite EK at 1. rewrite removelast_snoc. reflexivity. }
      rewrite EX. reflexivity.
    + unfold fblast. rewrite (lastBlock_preR K rt ltac:(rewrite Ek; discriminate)).
      destruct (lastBlock rt) as [c|] eqn:El; [|reflexivity].
      rewrite (set_lastBlocks_preR K rt [set_blast c true] ltac:(rewrite Ek; discriminate)). reflexivity.
  - destruct Hw as (x & Hx). rewrite Ed in Hx. rewrite (updAt_preR K fblast d (root p) x Hx).
    unfold updCont. rewrite Ed. reflexivity.
Qed.

Lemma wf_alP1 p : wf p -> wf (alP1 p).
Proof.
  intros (x & Hx). unfold alP1. destruct (isRestBlank p); [|exists x; exact Hx]. unfold wf. change (cdepth (updCont p fblast)) with (cdepth p).
  change (root (updCont p fblast)) with (updAt (cdepth p) fblast (root p)). eapply getAt_updAt_exists. exact Hx.
Qed.

Lemma getAt_updAt_keepkids g : (forall b, bkids (g b) = bkids b) ->
  forall d0 d1 r x, getAt d0 r = Some x -> exists y, getAt d0 (updAt d1 g r) = Some y.
Proof.
  intros Hg. induction d0 as [|d0 IH]; intros d1 r x Hx; [eexists; reflexivity|].
  rewrite getAt_S in Hx. destruct (lastBlock r) as [c|] eqn:El; [|discriminate].
  destruct d1 as [|d1].
  - cbn [updAt]. rewrite getAt_S. unfold lastBlock in *. rewrite Hg, El. exists x. exact Hx.
  - cbn [updAt]. rewrite El, getAt_S, (lastBlock_set_last r _ (lastBlock_ne _ _ El)). apply (IH d1 c x Hx).
Qed.
Lemma wf_setLB v d0 : forall d r, (exists x, getAt d0 r = Some x) -> exists y, getAt d0 (setLastBlankUpTo d v r) = Some y.
Proof.
  assert (Hg : forall b, bkids (set_blast b v) = bkids b) by (intros b; destruct b; reflexivity).
  induction d as [|d IH]; intros r (x & Hx); cbn [setLastBlankUpTo]; [apply (getAt_updAt_keepkids _ Hg d0 0 r x Hx)|].
  apply IH. apply (getAt_updAt_keepkids _ Hg d0 (S d) r x Hx).
Qed.

Lemma addLineText_pre K p : Forall closedB K -> ccP p -> (acceptsLines (containerKind p) = false -> st_open p) ->
  addLineText (pre K p) = pre (prefixAfter K p) (addLineText p).
Proof.
  intros Kc H Hst. set (K' := prefixAfter K p).
  assert (Kc' : Forall closedB K') by (unfold K', prefixAfter; destruct (blankAtRoot p); [apply flagLast_closed|]; exact Kc).
  rewrite !addLineText_eq.
  pose proof (alP1_pre K p (proj2 (proj2 H))) as E1. fold K' in E1.
  pose proof (wf_alP1 p (proj2 (proj2 H))) as W1.
  assert (Hdoc : bkind (root (alP1 p)) = documentKind).
  { unfold alP1. destruct (isRestBlank p); [|apply H]. change (root (updCont p fblast)) with (updAt (cdepth p) fblast (root p)).
    rewrite bkind_updAt; [apply H|]. intros _. unfold fblast. destruct (lastBlock (root p)); [destruct (root p); reflexivity|reflexivity]. }
  assert (Ellb : alLlb (pre K p) = alLlb p).
  { unfold alLlb. cbv zeta. rewrite E1. change (isRestBlank (pre K p)) with (isRestBlank p).
    change (lineStart (pre K' (alP1 p))) with (lineStart (alP1 p)).
    destruct (cdepth (alP1 p)) as [|d] eqn:Ed.
    - rewrite (contBlock_pre_0 K' (alP1 p) Ed), bkind_preR. unfold contBlock. rewrite Ed. cbn [getAt]. rewrite Hdoc. reflexivity.
    - rewrite (contBlock_pre_S K' (alP1 p) d Ed W1). reflexivity. }
  assert (E2 : alP2 (pre K p) = pre K' (alP2 p)).
  { unfold alP2. rewrite Ellb, E1. change (cdepth (pre K' (alP1 p))) with (cdepth (alP1 p)). change (root (pre K' (alP1 p))) with (preR K' (root (alP1 p))).
    rewrite (setLB_preR K' (alLlb p) (cdepth (alP1 p)) (root (alP1 p)) W1). reflexivity. }
  assert (W2 : wf (alP2 p)).
  { unfold wf, alP2. cbn [cdepth container root withRoot setLP]. fold (cdepth (alP1 p)). apply wf_setLB. exact W1. }
  rewrite E1, (containerKind_pre K' (alP1 p) W1).
  destruct (acceptsLines (containerKind (alP1 p))).
  - rewrite E2. change (tabCond (pre K' (alP2 p))) with (tabCond (alP2 p)).
    destruct (tabCond (alP2 p)); [|apply goF_pre, W2].
    assert (Ea : addInd (pre K' (alP2 p)) = pre K' (addInd (alP2 p))).
    { unfold addInd. change (lineStart (pre K' (alP2 p))) with (lineStart (alP2 p)). change (li (pre K' (alP2 p))) with (li (alP2 p)).
      change (tabRem (pre K' (alP2 p))) with (tabRem (alP2 p)).
      rewrite (updCont_pre K' (alP2 p) _ W2 (fieldOnly_bik (fun b => bik b ++ [_]) ltac:(intros b ks; destruct b; reflexivity))).
      apply consumeIndent_pre. }
    rewrite Ea. apply goF_pre.
    unfold addInd. set (q := updCont (alP2 p) _). destruct (same_consumeIndent q (tabRem (alP2 p))) as [R C].
    unfold wf, cdepth. rewrite C, R. fold (cdepth q). destruct W2 as (x & Hx). unfold q. change (cdepth (updCont (alP2 p) _)) with (cdepth (alP2 p)).
    change (root (updCont (alP2 p) ?g)) with (updAt (cdepth (alP2 p)) g (root (alP2 p))). eapply getAt_updAt_exists. exact Hx.
  - change (isRestBlank (pre K p)) with (isRestBlank p). destruct (negb (isRestBlank p)); [|exact E2].
    rewrite E2.
    assert (C2 : ccP (alP2 p)).
    { pose proof (ccP_addLineText p H) as HA. 
      (* ccP of the intermediate state: rebuild from the pieces *)
      unfold alP2. destruct H as (A1 & A2 & A3).
      assert (C1 : ccP (alP1 p)).
      { unfold alP1. destruct (isRestBlank p); [|split; [exact A1|split; assumption]]. apply ccP_updCont; [split; [exact A1|split; assumption]|].
        intros b _ Hcb. unfold fblast. destruct (lastBlock b) as [c0|] eqn:El; [|tauto]. split; [|apply bkind_set_lastBlocks].
        eapply cc_set_lastBlocks; [exact Hcb|exact El|]. constructor; [|constructor].
        rewrite cc_set_blast, bkind_set_blast. split; [eapply cc_lastBlock; eassumption|apply compat_refl]. }
      destruct C1 as (B1 & B2 & B3).
      destruct (cc_setLastBlankUpTo (alLlb p) (cdepth (alP1 p)) (root (alP1 p)) (cdepth (alP1 p)) B2 B3) as (A' & B' & C').
      split; [cbn [root withRoot setLP]; rewrite B'; exact B1|]. split; [exact A'|exact C']. }
    rewrite openBlock_pre by (try exact Kc'; exact C2).
    set (q := openBlock (alP2 p) ParagraphKind). change (indent (pre K' q)) with (indent q). rewrite consumeIndent_pre.
    apply goF_pre. apply (ccP_consumeIndent q (indent q)). apply ccP_openBlock; [exact C2|left; discriminate].
Qed.

(* ---- the frame theorem for one line ---- *)
Lemma len_ne0 {A} (l : list A) : l <> [] -> (len l =? 0) = false.
Proof. intros H. destruct l; [contradiction|]. apply Z.eqb_neq. unfold len. cbn [length]. lia. Qed.
Lemma descend_closed st K T src : Forall closedB K -> descendOpenBlocks (resetLP st K T src) = (true, resetLP st K T src).
Proof.
  intros Kc. unfold descendOpenBlocks. destruct (bheight_S (root (resetLP st K T src))) as [n ->]. cbn [descend_loop]. cbv zeta.
  change (getAt 1 (root (resetLP st K T src))) with (match lastBlock (root0 K) with Some x => Some x | None => None end).
  destruct (list_snoc_cases K) as [->|(pre0 & y & ->)]; [reflexivity|].
  rewrite root0_snoc_last. apply Forall_app in Kc. destruct Kc as [_ Hc]. inversion Hc as [|? ? Hy _]; subst. rewrite Hy. reflexivity.
Qed.

Theorem frame_line K T src : Forall closedB K -> from_ src T <> [] ->
  exists K', (K' = K \/ K' = flagLast K) /\
    processLine 0 K T src =
    (K' ++ fst (fst (processLine 0 [] T src)), snd (fst (processLine 0 [] T src)), snd (processLine 0 [] T src)).
Proof.
  intros Kc Hln. unfold processLine. cbv zeta. rewrite (descend_closed 0 K T src Kc), (descend_closed 0 [] T src (Forall_nil _)).
  set (p0 := resetLP 0 [] T src).
  assert (EK : resetLP 0 K T src = pre K p0).
  { unfold pre, p0, resetLP, preR, withRoot, setLP. cbn [root bkids set_bkids]. rewrite app_nil_r. reflexivity. }
  rewrite EK. change (state (pre K p0)) with (state p0). change (state p0 =? stDescendTerminated) with false. cbn [negb].
  assert (C0 : ccP p0) by (split; [reflexivity|split; [reflexivity|eexists; reflexivity]]).
  unfold openNewBlocks. change (line (pre K p0)) with (line p0). change (line p0) with (from_ src T).
  rewrite (len_ne0 _ Hln).
  rewrite (opening_loop_pre K Kc _ p0 C0).
  pose proof (ccP_opening_loop (S (length (from_ src T))) p0 C0) as C2.
  pose proof (L2Kind2.openNewBlocks_good p0 true) as G2. unfold openNewBlocks in G2. change (line p0) with (from_ src T) in G2.
  rewrite (len_ne0 _ Hln) in G2.
  destruct (opening_loop (S (length (from_ src T))) p0) as [ht p2]. cbn [fst snd] in *.
  destruct ht.
  - rewrite (addLineText_pre K p2 Kc C2 (G2 eq_refl)). exists (prefixAfter K p2). split.
    + unfold prefixAfter. destruct (blankAtRoot p2); [right|left]; reflexivity.
    + set (p3 := addLineText p2). change (root (pre (prefixAfter K p2) p3)) with (preR (prefixAfter K p2) (root p3)). rewrite bkids_preR. reflexivity.
  - exists K. split; [left; reflexivity|]. change (root (pre K p2)) with (preR K (root p2)). rewrite bkids_preR. reflexivity.
Qed.
Print Assumptions frame_line.
