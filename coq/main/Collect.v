From Coq Require Import List ZArith Lia Bool.
Import ListNotations.
Require Import Base Tables Utf8 Tree Rdr Link.
Open Scope Z_scope.

(* parseCharacterEscape (inlines.go:647): end or -1 *)
Fixpoint pce_named (l : bytes) (i : Z) (acc : bytes) : Z :=
  match l with
  | [] => -1
  | c :: r =>
    if c =? 59 then (if (i =? 0) || negb (isEntityName (rev acc)) then -1 else i + 2)
    else if negb (isASCIILetter c) && negb (isASCIIDigit c) then -1
    else pce_named r (i + 1) (c :: acc)
  end.
Fixpoint pce_num (p : Z -> bool) (l : bytes) (i digitStart : Z) : Z :=
  match l with
  | [] => -1
  | c :: r => if c =? 59 then (if i =? 0 then -1 else digitStart + i + 1) else if negb (p c) then -1 else pce_num p r (i + 1) digitStart
  end.
Definition parseCharacterEscape (text : bytes) : Z :=
  if (len text <? 3) || negb (at_ text 0 =? 38) then -1 else
  if negb (at_ text 1 =? 35) then pce_named (from_ text 1) 0 []
  else if (at_ text 2 =? 120) || (at_ text 2 =? 88) then pce_num isHex (upto (from_ text 3) 7) 0 3
  else pce_num isASCIIDigit (upto (from_ text 2) 8) 0 2.

(* collectTextNodes (inlines.go:1206) *)
Fixpoint skipSameNode (fuel : nat) (r : reader) (node : inline) : reader :=
  match fuel with
  | O => r
  | S f =>
    let '(ok, r1) := next r in
    if negb ok then r1 else
    let '(n, r2) := curNode r1 in
    match n with
    | Some m => if (ikind m =? ikind node) && (istart m =? istart node) && (iend m =? iend node) then skipSameNode f r2 node else r2
    | None => r2
    end
  end.
Fixpoint nextN (n : nat) (r : reader) : reader := match n with O => r | S k => nextN k (snd (next r)) end.

Fixpoint collect_loop (fuel : nat) (r : reader) (e : Z) (textKind : Z) (escapes : bool)
         (plainStart : Z) (acc : list inline) : list inline * Z :=
  match fuel with
  | O => (acc, plainStart)
  | S f =>
    if e <=? r_pos r then (acc, plainStart) else
    let '(cn, r0) := curNode r in
    if okind cn =? IndentKind then
      let acc := if plainStart <? r_pos r0 then acc ++ [mkI textKind plainStart (r_prev r0 + 1)] else acc in
      let node := match cn with Some n => n | None => mkI 0 0 0 end in
      let acc := acc ++ [node] in
      let r1 := skipSameNode fuel r0 node in
      collect_loop f r1 e textKind escapes (r_pos r1) acc
    else
      (* escapes handling; returns either a "continue" state or falls through to the common tail *)
      let tail (r : reader) (plainStart : Z) (acc : list inline) :=
        if e <=? r_pos r then (acc, plainStart) else   (* a backslash was the last byte of the range *)
        let '(ok, r1) := next r in
        if negb ok then (acc, plainStart) else
        if jumped r1 then
          let acc := if plainStart <=? r_prev r1 then acc ++ [mkI textKind plainStart (r_prev r1 + 1)] else acc in
          collect_loop f r1 e textKind escapes (r_pos r1) acc
        else collect_loop f r1 e textKind escapes plainStart acc in
      if escapes && (okind cn =? UnparsedKind) then
        let '(c, r1) := current r0 in
        if c =? 92 then
          let '(ok, r2) := next r1 in
          if ok && (r_pos r2 <? e) && isASCIIPunctuation (cur r2) then
            let acc := if plainStart <? r_prev r2 then acc ++ [mkI textKind plainStart (r_prev r2)] else acc in
            tail r2 (r_pos r2) acc
          else tail r2 plainStart acc
        else if c =? 38 then
          let '(rem, r2) := remainingNodeBytes r1 in
          let en := parseCharacterEscape rem in
          if 0 <=? en then
            let acc := if plainStart <? r_pos r2 then acc ++ [mkI textKind plainStart (r_pos r2)] else acc in
            let acc := acc ++ [mkI CharacterReferenceKind (r_pos r2) (r_pos r2 + en)] in
            let ps := r_pos r2 + en in
            let r3 := nextN (Z.to_nat (en - 1)) r2 in
            let '(ok, r4) := next r3 in
            if negb ok then (acc, ps) else collect_loop f r4 e textKind escapes ps acc
          else tail r2 plainStart acc
        else tail r1 plainStart acc
      else tail r0 plainStart acc
  end.

Definition collectTextNodes (fuel : nat) (r : reader) (e : Z) (textKind : Z) (escapes : bool) : list inline :=
  let '(acc, ps) := collect_loop fuel r e textKind escapes (r_pos r) [] in
  if ps <? e then acc ++ [mkI textKind ps e] else acc.

(* transformLinkReferenceSpan (inlines.go:151); the spike folds ASCII only *)
Fixpoint tlr_loop (fuel : nat) (r : reader) (e : Z) (acc : bytes) : bytes :=
  match fuel with
  | O => acc
  | S f =>
    if e <=? r_pos r then acc else
    let '(c, r1) := current r in
    if isSpaceTabOrLineEnding c then
      let acc := acc ++ [32] in
      let '(ok, r2) := next r1 in
      if negb ok then acc else
      (fix skip (k : nat) (r : reader) : bytes :=
         match k with
         | O => acc
         | S k' =>
           if (r_pos r <? e) && isSpaceTabOrLineEnding (cur r) then
             let '(ok, r') := next (snd (current r)) in if ok then skip k' r' else tlr_loop f r' e acc
           else tlr_loop f r e acc
         end) fuel r2
    else
      let acc := acc ++ [c] in
      let '(ok, r2) := next r1 in
      if negb ok then acc else tlr_loop f r2 e acc
  end.
Fixpoint dropWhileB (p : Z -> bool) (l : bytes) := match l with c :: r => if p c then dropWhileB p r else l | [] => [] end.
Definition trimAsciiWs (l : bytes) : bytes := rev (dropWhileB isSpaceTabOrLineEnding (rev (dropWhileB isSpaceTabOrLineEnding l))).
Definition transformLinkReferenceSpan (fuel : nat) (src : bytes) (nodes : list inline) (s e : Z) : bytes :=
  foldString (trimAsciiWs (tlr_loop fuel (newReader src nodes s) e [])).
