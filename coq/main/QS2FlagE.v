(* QS2FlagE.v -- T58b part E: one call of processLine on a line of the document (not the end of input). *)
From Coq Require Import List ZArith Lia Bool.
Import ListNotations.
Require Import Base Tree Rdr Link Collect Html Recog LP Rules Starts Driver L2Kind2 L2CC TDefs TOcp TInv TDesc TStarts TLine NoPanic47 BSOrph QS2FlagA QS2FlagB QS2FlagC QS2FlagD.
Open Scope Z_scope.

Lemma topOK_processLine_line st children ls src :
  0 <= ls -> ccF children = true -> (st = stDescendTerminated -> HM children) -> from_ src ls <> [] ->
  topOK (ls + len (from_ src ls)) (Blk documentKind 0 (-1) (fst (fst (processLine st children ls src))) [] 0 0 0 false false).
Proof.
  intros Hls Hc Hst Hne. set (M := ls + len (from_ src ls)).
  unfold processLine. cbv zeta.
  set (p0 := resetLP st children ls src).
  assert (H0 : F p0).
  { split; [|split; cbn; discriminate]. unfold ccP, wf, p0, resetLP, cdepth. cbn [root container]. split; [reflexivity|split; [exact Hc|eexists; reflexivity]]. }
  assert (HC0 : CU p0) by (unfold CU, p0, resetLP; cbn [lineStart li line]; split; [exact Hls|]; unfold len; lia).
  destruct (bheight_S (root p0)) as [f0 Ef0].
  pose proof (W_descend_loop (bheight (root p0)) M p0 O H0 HC0 (POr_0 _) eq_refl ltac:(eexists; reflexivity)
                ltac:(intros E0; split; [reflexivity|split; [apply Hst, E0|rewrite Ef0; discriminate]])) as HD.
  cbv zeta in HD. unfold descendOpenBlocks.
  destruct (descend_loop (bheight (root p0)) p0 O) as [am p1] eqn:Ed. cbn [snd] in HD.
  destruct HD as (HF1 & HC1 & HM1 & HD).
  assert (Hshape : forall q, topOK M (root q) -> topOK M (Blk documentKind 0 (-1) (bkids (root q)) [] 0 0 0 false false)).
  { intros q. apply topOK_lastBlock. reflexivity. }
  destruct (Z.eqb_spec (state p1) stDescendTerminated) as [S4|S4]; cbn [negb].
  - cbn [fst]. apply Hshape. destruct HD as [[N _]|[_ HT]]; [contradiction|exact HT].
  - destruct HD as [[_ HP1]|[E0 _]]; [|contradiction].
    assert (HV : V M p1) by (split; [exact HF1|split; [exact HC1|split; [exact HP1|exact HM1]]]).
    assert (Hl : len (line p1) <> 0).
    { assert (El : line p1 = from_ src ls).
      { pose proof (descend_spec (bheight (root p0)) p0 O HC0 ltac:(intros E0; split; [reflexivity|split; [apply Hst, E0|rewrite Ef0; discriminate]])) as HS.
        rewrite Ed in HS. cbn [snd] in HS. destruct HS as ((_ & El & _) & _). exact El. }
      rewrite El. destruct (from_ src ls); [congruence|]. unfold len. cbn [length]. lia. }
    pose proof (topOK_openNewBlocks M p1 am HV Hl) as [T1 T2].
    pose proof (openNewBlocks_good p1 am) as HG.
    pose proof (F_openNewBlocks p1 am HF1) as HF2.
    destruct (openNewBlocks p1 am) as [ht p2]. cbn [fst snd] in *.
    destruct ht; cbn [fst].
    + apply Hshape. apply topOK_addLineText; [apply HF2|apply T1; reflexivity|apply HG; reflexivity].
    + apply Hshape. apply T2. reflexivity.
Qed.

Theorem processLine_gap_flag_line st ks ls src :
  0 <= ls -> ccF ks = true -> (st = stDescendTerminated -> HM ks) -> from_ src ls <> [] ->
  forall pre b, fst (fst (processLine st ks ls src)) = pre ++ [b] -> isOpen b = false -> bend b < ls + len (from_ src ls) ->
  blastOf b = true.
Proof.
  intros Hls Hc Hst Hne pre b Ek Ho Hb.
  pose proof (topOK_processLine_line st ks ls src Hls Hc Hst Hne) as HT.
  specialize (HT b). unfold lastBlock in HT. cbn [bkids] in HT. rewrite Ek, rev_app_distr in HT. cbn [rev app] in HT.
  destruct (HT eq_refl) as [A|[A|A]]; [congruence|lia|rewrite blastOf_eq; exact A].
Qed.
Print Assumptions processLine_gap_flag_line.
