(* QInlStepF.v -- T64 (asm): the root end and the matcher of the tokeniser state never change (IFFrame.v replayed for these two fields). *)
From Coq Require Import List ZArith Lia Bool.
Import ListNotations.
Require Import Base Tables Utf8 Tree Rdr Link Collect Html Recog Inl3a Inl3b Inl3c Inl3d Inl3e Driver IFTokDef IFFrame.
Open Scope Z_scope.

Definition rE (st st' : ist) : Prop := rootEnd st' = rootEnd st /\ matcher st' = matcher st.
Lemma rE_refl st : rE st st. Proof. split; reflexivity. Qed.
Lemma rE_trans a b c : rE a b -> rE b c -> rE a c. Proof. intros [A B] [C D]. split; congruence. Qed.
Lemma rE_addNode st k s e ks : rE st (fst (addNode st k s e ks)).
Proof. unfold addNode. destruct (_ =? 0); split; reflexivity. Qed.
Lemma rE_addText st s e : rE st (addText st s e). Proof. apply rE_addNode. Qed.
(* ================================================================ the source and the entry list never change *)
Lemma rE_setStk st v : rE st (setStk st v). Proof. split; reflexivity. Qed.
Lemma rE_setRk st v : rE st (setRk st v). Proof. split; reflexivity. Qed.
Lemma rE_setIgn st v : rE st (setIgn st v). Proof. split; reflexivity. Qed.
Lemma rE_setUpos st v : rE st (setUpos st v). Proof. split; reflexivity. Qed.
Lemma rE_updN st id g : rE st (updN st id g). Proof. split; reflexivity. Qed.
Lemma rE_removeNode st id : rE st (removeNode st id). Proof. split; reflexivity. Qed.
Lemma rE_appendKid st id k : rE st (appendKid st id k). Proof. split; reflexivity. Qed.
Lemma rE_wrap st k a b : rE st (fst (wrap st k a b)). Proof. split; reflexivity. Qed.
Lemma rE_advanceTo st p : rE st (advanceTo st p). Proof. unfold advanceTo. destruct (0 <=? _); split; reflexivity. Qed.

Ltac rEt := eapply rE_trans.

Lemma rE_pe_loop : forall fuel st ob cp, rE st (pe_loop fuel st ob cp).
Proof.
  induction fuel as [|f IH]; intros st ob cp; [apply rE_refl|]. cbn [pe_loop].
  destruct (_ <? 0); [apply rE_refl|].
  destruct (_ <=? _).
  - match goal with |- context [wrap ?s ?k ?a ?b] => pose proof (rE_wrap s k a b) as Hw; destruct (wrap s k a b) as [st1 x]; cbn [fst] in Hw end.
    destruct Hw as [A B].
    destruct (plen _ =? 0); destruct (plen _ =? 0); (eapply rE_trans; [|apply IH]); (split; [exact A|exact B]).
  - destruct (negb _); (eapply rE_trans; [|apply IH]); split; reflexivity.
Qed.

Lemma rE_processEmphasis st sb : rE st (processEmphasis st sb).
Proof. unfold processEmphasis. destruct (rE_pe_loop (4 * (length (stk st) + length (isrc st)) + 8) st (repeat sb 14) sb) as [A B]. split; [exact A|exact B]. Qed.
Lemma rE_finishLink st kind odi : rE st (finishLink st kind odi).
Proof.
  unfold finishLink. destruct (rE_processEmphasis st (odi + 1)) as [A B]. destruct (kind =? LinkKind); split; first [exact A|exact B].
Qed.
Lemma rE_lfl : forall fuel st i, rE st (fst (lfl fuel st i)).
Proof.
  induction fuel as [|f IH]; intros st i; [apply rE_refl|]. cbn [lfl]. destruct (i <? 0); [apply rE_refl|].
  destruct (_ || _); [destruct (negb _); [apply rE_setStk|apply rE_refl]|apply IH].
Qed.
Lemma rE_lookFor st : rE st (fst (lookForLinkOrImage st)). Proof. apply rE_lfl. Qed.
Lemma rE_collectCodeSpan st a b c d : rE st (collectCodeSpan st a b c d).
Proof.
  unfold collectCodeSpan. cbv zeta. destruct (_ =? 0).
  - cbv beta iota. apply rE_addNode.
  - match goal with |- context [match ?X with pair _ _ => _ end] =>
      match X with
      | context [match ?Y with pair _ _ => _ end] => destruct Y as [acc up]
      end
    end.
    cbv beta iota. eapply rE_trans; [apply (rE_setUpos st)|apply rE_addNode].
Qed.

Ltac rEs :=
  match goal with
  | |- rE _ (fst (_, _)) => cbn [fst]
  | |- rE _ (finishLink _ _ _) => eapply rE_trans; [|apply rE_finishLink]
  | |- rE _ (advanceTo _ _) => eapply rE_trans; [|apply rE_advanceTo]
  | |- rE _ (appendKid _ _ _) => eapply rE_trans; [|apply rE_appendKid]
  | |- rE _ (updN _ _ _) => eapply rE_trans; [|apply rE_updN]
  | |- rE _ (setStk _ _) => eapply rE_trans; [|apply rE_setStk]
  | |- rE _ (setIgn _ _) => eapply rE_trans; [|apply rE_setIgn]
  | |- rE _ (setUpos _ _) => eapply rE_trans; [|apply rE_setUpos]
  | |- rE _ (setRk _ _) => eapply rE_trans; [|apply rE_setRk]
  | |- rE _ (addText _ _ _) => eapply rE_trans; [|apply rE_addText]
  | |- rE _ (collectCodeSpan _ _ _ _ _) => eapply rE_trans; [|apply rE_collectCodeSpan]
  | |- rE _ (fst (addNode _ _ _ _ _)) => eapply rE_trans; [|apply rE_addNode]
  | |- rE _ (if ?c then _ else _) => destruct c
  | |- rE _ (fst (if ?c then _ else _)) => destruct c
  | |- rE ?a ?a => apply rE_refl
  end.

Lemma rE_parseDelimiterRun st pos : rE st (fst (parseDelimiterRun st pos)).
Proof.
  unfold parseDelimiterRun. cbv zeta.
  match goal with |- context [addNode ?s ?k ?a ?b ?c] => pose proof (rE_addNode s k a b c) as H; destruct (addNode s k a b c) as [st1 id]; cbn [fst] in H end.
  cbn [fst]. repeat rEs. exact H.
Qed.
Lemma rE_parseBackslash st pos : rE st (fst (parseBackslash st pos)).
Proof. unfold parseBackslash. cbv zeta. repeat rEs. Qed.

Lemma rE_parseEndBracketF rf tf st start : rE st (fst (parseEndBracketF rf tf st start)).
Proof.
  unfold parseEndBracketF. cbv zeta. pose proof (rE_lookFor st) as H1. destruct (lookForLinkOrImage st) as [st1 odi]. cbn [fst] in H1.
  destruct (odi <? 0); [repeat rEs; exact H1|].
  match goal with |- context [match ?X with Some _ => _ | None => _ end] => destruct X as [[[[[ispan dspan] dtext] tspan] ttext]|] end.
  - match goal with |- context [wrap ?s ?k ?a ?b] => pose proof (rE_wrap s k a b) as Hw; destruct (wrap s k a b) as [st2 lid]; cbn [fst] in Hw end.
    assert (H2 : rE st st2) by (eapply rE_trans; eassumption). repeat rEs; exact H2.
  - match goal with |- rE st (fst (match ?X with pair _ _ => _ end)) => destruct X as [lspan linner] end.
    destruct (_ && _ && _).
    + destruct (negb (matchRef _ _)); [repeat rEs; exact H1|].
      match goal with |- context [wrap ?s ?k ?a ?b] => pose proof (rE_wrap s k a b) as Hw; destruct (wrap s k a b) as [st2 lid]; cbn [fst] in Hw end.
      assert (H2 : rE st st2) by (eapply rE_trans; eassumption). repeat rEs; exact H2.
    + destruct (spanValid lspan).
      * destruct (negb (matchRef _ _)); [repeat rEs; exact H1|].
        match goal with |- context [wrap ?s ?k ?a ?b] => pose proof (rE_wrap s k a b) as Hw; destruct (wrap s k a b) as [st2 lid]; cbn [fst] in Hw end.
        assert (H2 : rE st st2) by (eapply rE_trans; eassumption). repeat rEs; exact H2.
      * destruct (negb (matchRef _ _)); [repeat rEs; exact H1|].
        match goal with |- context [wrap ?s ?k ?a ?b] => pose proof (rE_wrap s k a b) as Hw; destruct (wrap s k a b) as [st2 lid]; cbn [fst] in Hw end.
        assert (H2 : rE st st2) by (eapply rE_trans; eassumption). repeat rEs; exact H2.
Qed.

Lemma rE_istepF rf tf st pos ps : rE st (fst (fst (istepF rf tf st pos ps))).
Proof.
  unfold istepF. cbv zeta.
  destruct (_ || _).
  { pose proof (rE_parseDelimiterRun (addText st ps pos) pos) as H. destruct (parseDelimiterRun _ pos) as [st1 e]. cbn [fst] in *.
    eapply rE_trans; [apply rE_addText|exact H]. }
  destruct (_ =? 91).
  { match goal with |- context [addNode ?s ?k ?a ?b ?c] => pose proof (rE_addNode s k a b c) as H; destruct (addNode s k a b c) as [st1 id]; cbn [fst] in H end.
    cbn [fst]. repeat rEs. eapply rE_trans; [apply rE_addText|exact H]. }
  destruct (_ =? 93).
  { pose proof (rE_parseEndBracketF rf tf (addText st ps pos) pos) as H. destruct (parseEndBracketF rf tf _ pos) as [st1 e]. cbn [fst] in *.
    eapply rE_trans; [apply rE_addText|exact H]. }
  destruct (_ =? 33).
  { destruct (_ || _); [cbn [fst]; apply rE_refl|].
    match goal with |- context [addNode ?s ?k ?a ?b ?c] => pose proof (rE_addNode s k a b c) as H; destruct (addNode s k a b c) as [st1 id]; cbn [fst] in H end.
    cbn [fst]. repeat rEs. eapply rE_trans; [apply rE_addText|exact H]. }
  destruct (_ =? 32).
  { destruct (parseHardLineBreakSpace _) as [e ok]. destruct (_ && _); cbn [fst]; repeat rEs. }
  destruct (_ =? 96).
  { destruct (parseCodeSpan _ _ _) as [[cS cE] sE]. destruct (0 <=? sE); cbn [fst]; repeat rEs. }
  destruct (_ =? 60).
  { destruct (0 <=? _); [cbn [fst]; repeat rEs|]. destruct (parseHTMLTag _ _) as [ts te]. destruct (negb _); cbn [fst]; repeat rEs. }
  destruct (_ =? 92).
  { pose proof (rE_parseBackslash (addText st ps pos) pos) as H. destruct (parseBackslash _ pos) as [st1 e]. cbn [fst] in *.
    eapply rE_trans; [apply rE_addText|exact H]. }
  destruct (_ =? 38). { destruct (_ <? 0); cbn [fst]; repeat rEs. }
  destruct (_ =? 10). { cbn [fst]. repeat rEs. }
  destruct (_ =? 13). { cbn [fst]. repeat rEs. }
  cbn [fst]. apply rE_refl.
Qed.

Lemma rE_iloopF rf tf : forall fuel st pos ps, rE st (fst (iloopF rf tf fuel st pos ps)).
Proof.
  induction fuel as [|f IH]; intros st pos ps; [apply rE_refl|]. cbn [iloopF]. destruct (_ && _); [|apply rE_refl].
  pose proof (rE_istepF rf tf st pos ps) as H. destruct (istepF rf tf st pos ps) as [[st1 p1] ps1]. cbn [fst] in H.
  eapply rE_trans; [exact H|apply IH].
Qed.


Lemma rE_istep st pos ps : rE st (fst (fst (istep st pos ps))).
Proof. rewrite <- istepF_model. apply rE_istepF. Qed.
Lemma rE_iloop fuel st pos ps : rE st (fst (iloop fuel st pos ps)).
Proof. rewrite <- iloopF_model. apply rE_iloopF. Qed.
