From Coq Require Import List ZArith Lia Bool.
Import ListNotations.
Require Import Base Tree Rdr Link Collect Html Recog LP Rules Starts Driver Rec16 Rec17 Rec18 Cursor CursorX RecBounds.
Open Scope Z_scope.

(* C04, panic sites 1 and 2 (Advance by a negative amount or past the end of the line): never reported *)
Definition P12 (p : lp) : Prop := panicked p <> 1 /\ panicked p <> 2.
Definition G (p : lp) : Prop := Itab p /\ li p <= len (line p) /\ P12 p.
Definition curS (p p' : lp) : Prop := li p' = li p /\ line p' = line p /\ col p' = col p /\ tabRem p' = tabRem p.

Lemma curS_refl p : curS p p. Proof. repeat split. Qed.
Lemma curS_trans a b c : curS a b -> curS b c -> curS a c.
Proof. intros (A1 & A2 & A3 & A4) (B1 & B2 & B3 & B4). repeat split; congruence. Qed.
Lemma rest_curS p p' : curS p p' -> rest p' = rest p.
Proof. intros (A & B & _). unfold rest. rewrite A, B. reflexivity. Qed.
Lemma indent_curS p p' : curS p p' -> indent p' = indent p.
Proof. intros (A & B & C & D). unfold indent. rewrite A, B, C, D. reflexivity. Qed.
Lemma Itab_curS p p' : curS p p' -> Itab p -> Itab p'.
Proof. intros (A & B & C & D) [H0 H1]. unfold Itab. rewrite A, B, C, D. tauto. Qed.

Lemma P_panic p site : site <> 1 -> site <> 2 -> P12 p -> P12 (panic p site).
Proof. intros N1 N2 (a & b). unfold P12. cbn. destruct (panicked p =? 0); split; assumption. Qed.
Lemma G_tree p p' : curS p p' -> panicked p' = panicked p -> G p -> G p'.
Proof.
  intros Hc Ep (A & B & C). split; [eapply Itab_curS; eassumption|]. destruct Hc as (E1 & E2 & _). rewrite E1, E2. split; [exact B|].
  unfold P12. rewrite Ep. exact C.
Qed.
Lemma G_opened p : G p -> G (if state p =? stOpening then withState p stOpenMatched else p).
Proof. intros H. destruct (_ =? _); exact H. Qed.

Lemma G_advance p n : G p -> 0 <= n -> li p + n <= len (line p) -> G (advance p n) /\ li (advance p n) = li p + n /\ line (advance p n) = line p.
Proof.
  intros (A & B & C) Hn Hl. unfold advance. replace (n <? 0) with false by (symmetry; apply Z.ltb_ge; lia).
  destruct (Z.eqb_spec n 0) as [->|Nn]; [split; [exact (conj A (conj B C))|split; [lia|reflexivity]]|]. cbv zeta.
  set (p0 := if state p =? stOpening then withState p stOpenMatched else p).
  assert (E0 : li p0 = li p /\ line p0 = line p /\ panicked p0 = panicked p) by (unfold p0; destruct (_ =? _); repeat split).
  destruct E0 as (El & Eln & Ep).
  replace (len (line p0) <? li p0 + n) with false by (symmetry; apply Z.ltb_ge; rewrite El, Eln; lia).
  split; [|split; [cbn; exact (f_equal (fun x => x + n) El)|cbn; exact Eln]].
  split; [apply Itab_cursor; destruct A as [A0 _]; lia|]. split.
  - cbn [li line withCursor setLP]. rewrite El, Eln. lia.
  - unfold P12. change (panicked (withCursor p0 (li p0 + n) _ _)) with (panicked p0). rewrite Ep. exact C.
Qed.
Lemma G_consumeLine p : G p -> G (consumeLine p).
Proof.
  intros H. unfold consumeLine. cbv zeta. pose proof H as (A & B & C).
  destruct (G_advance p (len (line p) - li p) H ltac:(lia) ltac:(lia)) as [H1 _].
  destruct (_ || _); [exact H1|]. destruct (_ =? stDescending); exact H1.
Qed.
Lemma G_consumeIndent_loop : forall fuel p n, G p -> G (consumeIndent_loop fuel p n).
Proof.
  induction fuel as [|f IH]; intros p n H; [exact H|]. cbn [consumeIndent_loop].
  destruct (Z.leb_spec n 0) as [Ln|Ln]; [exact H|]. cbv zeta.
  set (p0 := if state p =? stOpening then withState p stOpenMatched else p).
  assert (H0p : G p0) by (apply G_opened, H). pose proof H0p as (A & B & C).
  assert (Hpan : G (panic p0 3)).
  { split; [exact A|]. split; [exact B|]. apply P_panic; [discriminate|discriminate|exact C]. }
  destruct (Z.ltb_spec (li p0) (len (line p0))) as [L|L]; cbn [andb]; [|exact Hpan].
  assert (Hstep : forall cl, G (withCursor p0 (li p0 + 1) cl (computeTabRem (line p0) (li p0 + 1) cl))).
  { intros cl. split; [apply Itab_cursor; destruct A; lia|]. cbn. split; [lia|exact C]. }
  destruct (at_ (line p0) (li p0) =? 32); [apply IH, Hstep|].
  destruct (Z.eqb_spec (at_ (line p0) (li p0)) 9) as [E9|N9]; [|exact Hpan].
  destruct (Z.ltb_spec n (tabRem p0)) as [Lp|Lp]; [|apply IH, Hstep].
  destruct A as [A0 A1]. split; [split; [cbn; exact A0|]|cbn; split; [exact B|exact C]].
  cbn [li col tabRem line withCursor setLP]. intros _ _. rewrite (A1 L E9) in *. rewrite (ts_same (col p0) (col p0 + n)) by lia. lia.
Qed.
Lemma G_consumeIndent p n : G p -> G (consumeIndent p n). Proof. apply G_consumeIndent_loop. Qed.

(* operations that leave the cursor alone and can only report panics 4..8 *)
Lemma curS_opened p : curS p (if state p =? stOpening then withState p stOpenMatched else p).
Proof. destruct (_ =? _); repeat split. Qed.
Lemma openBlock_up_cur : forall fuel p kind, curS p (openBlock_up fuel p kind) /\ (P12 p -> P12 (openBlock_up fuel p kind)).
Proof.
  induction fuel as [|f IH]; intros p kind; [split; [apply curS_refl|tauto]|]. cbn [openBlock_up].
  destruct (canContain _ _); [split; [apply curS_refl|tauto]|].
  destruct (cdepth p); [split; [repeat split|apply P_panic; discriminate]|].
  destruct (IH (withCont (closeLastChildAt p n (lineStart p)) (Some n)) kind) as [A B]. split; [exact A|exact B].
Qed.
Lemma G_openBlock p kind : G p -> G (openBlock p kind) /\ curS p (openBlock p kind).
Proof.
  intros H. unfold openBlock. destruct (_ || _).
  { split; [|repeat split]. destruct H as (A & B & C). split; [exact A|split; [exact B|apply P_panic; [discriminate|discriminate|exact C]]]. }
  cbv zeta. set (p0 := if state p =? stOpening then withState p stOpenMatched else p).
  destruct (openBlock_up_cur (S (cdepth p0)) p0 kind) as [Hc Hp].
  assert (Hcs : curS p (openBlock_up (S (cdepth p0)) p0 kind)) by (eapply curS_trans; [apply curS_opened|exact Hc]).
  split; [|exact Hcs].
  pose proof (G_opened p H) as (A & B & C).
  apply (G_tree (openBlock_up (S (cdepth p0)) p0 kind)); [repeat split|reflexivity|].
  split; [eapply Itab_curS; [exact Hc|exact A]|]. destruct Hc as (E1 & E2 & _). rewrite E1, E2. split; [exact B|apply Hp, C].
Qed.
Lemma G_endBlock p : G p -> G (endBlock p) /\ curS p (endBlock p).
Proof.
  intros H. unfold endBlock. destruct (_ || _).
  { split; [|repeat split]. destruct H as (A & B & C). split; [exact A|split; [exact B|apply P_panic; [discriminate|discriminate|exact C]]]. }
  cbv zeta. pose proof (G_opened p H) as (A & B & C). pose proof (curS_opened p) as Hc.
  destruct (cdepth _).
  - split; [|destruct Hc as (E1 & E2 & E3 & E4); repeat split; assumption]. split; [exact A|split; [exact B|apply P_panic; [discriminate|discriminate|exact C]]].
  - split; [|destruct Hc as (E1 & E2 & E3 & E4); repeat split; assumption]. split; [exact A|split; [exact B|exact C]].
Qed.

Lemma indent_zero p : Itab p -> indent p <= 0 -> indentLength (rest p) = 0.
Proof.
  intros Hi Hz. rewrite (indent_eq p Hi) in Hz. rewrite <- len_wsRun.
  destruct (wsRun p) eqn:Er; [reflexivity|]. exfalso.
  assert (Hne : wsRun p <> []) by (rewrite Er; discriminate). pose proof (wsWidth_pos p (proj1 Hi) Hne). lia.
Qed.
Lemma len_rest p : 0 <= li p <= len (line p) -> len (rest p) = len (line p) - li p.
Proof. intros H. unfold rest. apply len_from. exact H. Qed.
Lemma trim_len l : indentLength l + len (trimLeftSpTab l) = len l.
Proof. rewrite trimLeft_from. pose proof (indentLength_nonneg l). pose proof (indentLength_le l). rewrite len_from by lia. lia. Qed.

Lemma G_collectInline p kind n : G p -> 0 <= n -> li p + indentLength (rest p) + n <= len (line p) -> G (collectInline p kind n).
Proof.
  intros H Hn Hl. unfold collectInline.
  destruct (_ =? stDescendTerminated).
  { destruct H as (A & B & C). split; [exact A|split; [exact B|apply P_panic; [discriminate|discriminate|exact C]]]. }
  cbv zeta. set (p0 := if state p =? stOpening then withState p stOpenMatched else p).
  assert (H0p : G p0) by (apply G_opened, H). pose proof (curS_opened p) as Hc0. fold p0 in Hc0.
  assert (Er : rest p0 = rest p) by (apply rest_curS, Hc0). destruct Hc0 as (El & Eln & _).
  pose proof (indentLength_nonneg (rest p)) as Hnn.
  destruct (Z.ltb_spec 0 (indent p0)) as [Li|Li].
  - destruct (G_advance p0 (indentLength (rest p0)) H0p ltac:(rewrite Er; lia) ltac:(rewrite Er, El, Eln; lia)) as (Ha & La & Lna).
    set (p1 := updCont (advance p0 (indentLength (rest p0))) _).
    assert (H1 : G p1) by exact Ha.
    destruct (G_advance p1 n H1 Hn) as (Hb & _ & _).
    { change (li p1) with (li (advance p0 (indentLength (rest p0)))). change (line p1) with (line (advance p0 (indentLength (rest p0)))).
      rewrite La, Lna, Er, El, Eln. lia. }
    exact Hb.
  - assert (Ez : indentLength (rest p) = 0) by (rewrite <- Er; apply indent_zero; [apply H0p|lia]).
    destruct (G_advance p0 n H0p Hn ltac:(rewrite El, Eln; lia)) as (Hb & _ & _). exact Hb.
Qed.

Lemma G_matchRule p : G p -> G (snd (matchRule p)).
Proof.
  intros H. pose proof H as (A & B & C). unfold matchRule. cbv zeta.
  destruct (_ || _); [exact H|].
  destruct (_ =? ListItemKind).
  { unfold matchListItem. destruct (isRestBlank p); [destruct (negb _); [exact H|apply G_consumeIndent, H]|].
    destruct (_ <=? _); [apply G_consumeIndent, H|exact H]. }
  destruct (_ =? BlockQuoteKind).
  { unfold matchBlockQuote. cbv zeta. destruct (_ <=? _); [exact H|]. destruct (hasBytePrefix (bytesAfterIndent p) [62]) eqn:Eq; cbn [negb]; [|exact H]. cbn [snd].
    unfold eatQuoteMarker. cbv zeta.
    destruct (consume_all p A B) as (R1 & L1 & L2 & _). set (p1 := consumeIndent p (indent p)) in *.
    assert (H1 : G p1) by (apply G_consumeIndent, H).
    assert (Hne : 1 <= len (rest p1)).
    { rewrite R1. destruct (bytesAfterIndent p) as [|c0 t0]; [discriminate|rewrite len_cons; pose proof (len_nonneg t0); lia]. }
    rewrite (len_rest p1) in Hne by (destruct H1 as ((? & _) & ? & _); lia).
    destruct (G_advance p1 1 H1 ltac:(lia) ltac:(lia)) as (H2 & _ & _).
    destruct (0 <? _); [apply G_consumeIndent, H2|exact H2]. }
  destruct (_ =? FencedCodeBlockKind).
  { unfold matchFenced. cbv zeta. destruct (if _ <? _ then _ else false); cbn [snd]; [apply G_consumeLine|apply G_consumeIndent]; exact H. }
  destruct (_ =? IndentedCodeBlockKind).
  { unfold matchIndented. cbv zeta. destruct (_ <? _); [destruct (negb _)|]; cbn [snd]; try apply G_consumeIndent; exact H. }
  destruct (_ =? HTMLBlockKind).
  { unfold matchHTML. destruct (htmlEnd _ _); [|exact H]. destruct (isRestBlank _); [exact H|]. cbn [snd]. apply G_consumeLine.
    apply G_collectInline; [exact H|apply len_nonneg|].
    unfold bytesAfterIndent. pose proof (trim_len (rest p)). rewrite (len_rest p) in H0 by (destruct A; lia). lia. }
  exact H.
Qed.
Lemma G_descend_loop : forall fuel p d, G p -> G (snd (descend_loop fuel p d)).
Proof.
  induction fuel as [|f IH]; intros p d H; [exact H|]. cbn [descend_loop]. cbv zeta.
  destruct (getAt (S d) (root p)) as [c|]; [|exact H].
  destruct (negb (isOpen c)); [exact H|]. destruct (negb (hasMatch _)); [exact H|].
  pose proof (G_matchRule (withState (withCont p (Some (S d))) stDescending) H) as H2.
  destruct (matchRule _) as [ok p2]. cbn [snd] in H2.
  destruct (state p2 =? stDescendTerminated); [exact H2|]. destruct (negb ok); [exact H2|]. apply IH. exact H2.
Qed.

Lemma indentLength_from_nonws (l : bytes) i : 0 <= i -> (i < len l -> isSpTab (at_ l i) = false) -> indentLength (from_ l i) = 0.
Proof.
  intros Hi H. destruct (Z.lt_ge_cases i (len l)) as [L|L]; [|rewrite from_nil by exact L; reflexivity].
  rewrite (from_cons l i Hi L). cbn [indentLength]. rewrite (H L). reflexivity.
Qed.
Lemma rest_advance p n : G p -> 0 <= n -> li p + n <= len (line p) -> rest (advance p n) = from_ (rest p) n.
Proof.
  intros H Hn Hl. destruct (G_advance p n H Hn Hl) as (_ & La & Lna). unfold rest. rewrite La, Lna.
  rewrite from_from by (destruct H as ((? & _) & _); lia). reflexivity.
Qed.

(* after ConsumeIndent (Indent ()) and openBlock: the rest of the line is what the recognizer saw *)
Lemma start_prelude p kind : G p ->
  let p2 := openBlock (consumeIndent p (indent p)) kind in
  G p2 /\ rest p2 = bytesAfterIndent p /\ len (rest p2) = len (line p2) - li p2.
Proof.
  intros H. cbv zeta. pose proof H as (A & B & C). destruct (consume_all p A B) as (R1 & L1 & L2 & _).
  set (p1 := consumeIndent p (indent p)) in *. assert (H1 : G p1) by (apply G_consumeIndent, H).
  destruct (G_openBlock p1 kind H1) as [H2 Hc]. split; [exact H2|]. split; [rewrite (rest_curS p1 _ Hc); exact R1|].
  apply len_rest. destruct H2 as ((? & _) & ? & _). lia.
Qed.

Definition startOKG (f : lp -> lp) : Prop := forall p, G p -> G (f p).
Lemma G_startBlockQuote : startOKG startBlockQuote.
Proof.
  intros p H. unfold startBlockQuote. cbv zeta. destruct (_ <=? _); [exact H|].
  destruct (hasBytePrefix (bytesAfterIndent p) [62]) eqn:Eq; cbn [negb]; [|exact H].
  destruct (start_prelude p BlockQuoteKind H) as (H2 & R2 & L2). set (p2 := openBlock _ BlockQuoteKind) in *.
  assert (Hne : 1 <= len (rest p2)).
  { rewrite R2. destruct (bytesAfterIndent p) as [|c0 t0]; [discriminate|rewrite len_cons; pose proof (len_nonneg t0); lia]. }
  destruct (G_advance p2 1 H2 ltac:(lia) ltac:(lia)) as (H3 & _ & _).
  destruct (0 <? _); [apply G_consumeIndent, H3|exact H3].
Qed.
Lemma G_startATX : startOKG startATX.
Proof.
  intros p H. unfold startATX. cbv zeta. destruct (_ <=? _); [exact H|].
  destruct (parseATXHeading (bytesAfterIndent p)) as [[level cs] ce] eqn:Ea. destruct (Z.ltb_spec level 1); [exact H|].
  destruct (atx_bounds _ _ _ _ Ea ltac:(lia)) as (Bc & Be & Bn).
  destruct (start_prelude p ATXHeadingKind H) as (H2 & R2 & L2). set (p2 := openBlock _ ATXHeadingKind) in *.
  set (p2' := updCont p2 (fun b => set_bn b level)). assert (H2' : G p2') by exact H2.
  assert (R2' : rest p2' = bytesAfterIndent p) by exact R2. assert (L2' : len (rest p2') = len (line p2') - li p2') by exact L2.
  assert (Hcs : li p2' + cs <= len (line p2')) by (rewrite R2' in L2'; lia).
  destruct (G_advance p2' cs H2' ltac:(lia) Hcs) as (H3 & La & Lna).
  pose proof (rest_advance p2' cs H2' ltac:(lia) Hcs) as R3. rewrite R2' in R3.
  assert (H4 : G (collectInline (advance p2' cs) UnparsedKind (ce - cs))).
  { apply G_collectInline; [exact H3|lia|]. rewrite R3, La, Lna.
    destruct (Z.eq_dec cs ce) as [->|Nce].
    - pose proof (indentLength_le (from_ (bytesAfterIndent p) ce)) as Hle. rewrite len_from in Hle by lia. rewrite R2' in L2'. lia.
    - rewrite indentLength_from_nonws by (try lia; intros; apply Bn; lia). rewrite R2' in L2'. lia. }
  exact (proj1 (G_endBlock _ (G_consumeLine _ H4))).
Qed.

Lemma G_startFenced : startOKG startFenced.
Proof.
  intros p H. unfold startFenced. cbv zeta. destruct (_ <=? _); [exact H|].
  destruct (parseCodeFence (bytesAfterIndent p)) as [[[fc fnn] is_] ie] eqn:Ef. destruct (Z.eqb_spec fnn 0) as [|Nf]; [exact H|].
  destruct (start_prelude p FencedCodeBlockKind H) as (H2 & R2 & L2). set (p2 := openBlock _ FencedCodeBlockKind) in *.
  set (p4 := updCont (updCont p2 _) _). assert (H4 : G p4) by exact H2.
  assert (R4 : rest p4 = bytesAfterIndent p) by exact R2. assert (L4 : len (rest p4) = len (line p4) - li p4) by exact L2.
  apply G_consumeLine. destruct (spanValid (is_, ie)) eqn:Ev; [|exact H4].
  unfold spanValid in Ev. cbn [fst snd] in Ev. apply andb_true_iff in Ev. destruct Ev as [Ev _]. apply andb_true_iff in Ev. destruct Ev as [Ev _]. apply Z.leb_le in Ev.
  assert (Hn : 0 < fnn).
  { destruct (Z.lt_ge_cases 0 fnn); [assumption|]. pose proof (parseCodeFence_none _ _ _ _ _ Ef ltac:(lia)) as En. inversion En. lia. }
  destruct (parseCodeFence_bounds _ _ _ _ _ Ef Hn Ev) as (B1 & B2 & B3 & B4).
  assert (His : li p4 + is_ <= len (line p4)) by (rewrite R4 in L4; lia).
  destruct (G_advance p4 is_ H4 Ev His) as (H5 & La & Lna).
  pose proof (rest_advance p4 is_ H4 Ev His) as R5. rewrite R4 in R5.
  apply G_collectInline; [exact H5|lia|]. rewrite R5, La, Lna.
  rewrite indentLength_from_nonws; [rewrite R4 in L4; lia|lia|].
  intros _. unfold isSpaceTabOrLineEnding in B4. unfold isSpTab. apply orb_false_iff in B4. destruct B4 as [B4 _]. apply orb_false_iff in B4. tauto.
Qed.
Lemma G_startHTML : startOKG startHTML.
Proof.
  intros p H. unfold startHTML. cbv zeta. destruct (_ <=? _); [exact H|]. destruct (negb _); [exact H|].
  destruct (_ <? 0); [exact H|]. destruct (negb _ && _); [exact H|].
  destruct (G_openBlock p HTMLBlockKind H) as [H2 Hc]. set (p2 := openBlock p HTMLBlockKind) in *.
  set (p3 := updCont p2 _). assert (H3 : G p3) by exact H2.
  destruct (htmlEnd _ _); [|exact H3].
  assert (H4 : G (collectInline p3 RawHTMLKind (len (bytesAfterIndent p3)))).
  { apply G_collectInline; [exact H3|apply len_nonneg|].
    unfold bytesAfterIndent. pose proof (trim_len (rest p3)) as Ht. rewrite (len_rest p3) in Ht by (destruct H3 as ((? & _) & ? & _); lia). lia. }
  exact (proj1 (G_endBlock _ (G_consumeLine _ H4))).
Qed.
Lemma G_startSetext : startOKG startSetext.
Proof.
  intros p H. unfold startSetext. cbv zeta.
  do 4 (match goal with |- G (if ?c then _ else _) => destruct c end; [exact H|]).
  assert (H1 : G (updCont p (fun b => set_bn (set_bkind b SetextHeadingKind) (parseSetextHeadingUnderline (bytesAfterIndent p))))) by exact H.
  exact (proj1 (G_endBlock _ (G_consumeLine _ H1))).
Qed.
Lemma G_startThematic : startOKG startThematic.
Proof.
  intros p H. unfold startThematic. cbv zeta. destruct (_ <=? _); [exact H|].
  destruct (Z.ltb_spec (parseThematicBreak (bytesAfterIndent p)) 0) as [|Le]; [exact H|].
  pose proof (parseThematicBreak_le (bytesAfterIndent p)) as Hb.
  destruct (start_prelude p ThematicBreakKind H) as (H2 & R2 & L2). set (p2 := openBlock _ ThematicBreakKind) in *.
  destruct (G_advance p2 (parseThematicBreak (bytesAfterIndent p)) H2 Le ltac:(rewrite R2 in L2; lia)) as (H3 & _ & _).
  exact (proj1 (G_endBlock _ (G_consumeLine _ H3))).
Qed.
Lemma G_startIndented : startOKG startIndented.
Proof.
  intros p H. unfold startIndented. destruct (_ || _ || _); [exact H|].
  apply (proj1 (G_openBlock _ _ (G_consumeIndent _ _ H))).
Qed.
Lemma G_startListItem : startOKG startListItem.
Proof.
  intros p H. unfold startListItem. cbv zeta. destruct (_ <=? _); [exact H|].
  destruct (parseListMarker (bytesAfterIndent p)) as [[delim n] mend] eqn:Em.
  destruct (Z.ltb_spec mend 0) as [|Lm]; cbn [orb]; [exact H|].
  do 2 (match goal with |- G (if ?c then _ else _) => destruct c end; [exact H|]).
  pose proof (parseListMarker_le _ _ _ _ Em) as Hb.
  pose proof H as (A & B & C). destruct (consume_all p A B) as (R1 & L1 & L2 & _).
  set (p1 := consumeIndent p (indent p)) in *. assert (H1 : G p1) by (apply G_consumeIndent, H).
  set (cdelim := if (containerKind p1 =? ListKind) || (containerKind p1 =? ListItemKind) then bchar (contBlock p1) else 0).
  set (p2 := if negb (containerKind p1 =? ListKind) || negb (cdelim =? delim) then _ else p1).
  assert (H2 : G p2 /\ curS p1 p2).
  { unfold p2. match goal with |- G (if ?c then _ else _) /\ _ => destruct c end; [|split; [exact H1|apply curS_refl]].
    destruct (G_openBlock p1 ListKind H1) as [Ho Hc]. split; [exact Ho|exact Hc]. }
  destruct H2 as [H2 C2].
  destruct (G_openBlock p2 ListItemKind H2) as [H3 C3].
  set (p3 := updCont (openBlock p2 ListItemKind) _). assert (H3' : G p3) by exact H3.
  assert (C3' : curS p1 p3) by (eapply curS_trans; [exact C2|exact C3]).
  destruct (G_openBlock p3 ListMarkerKind H3') as [H4 C4].
  assert (C4' : curS p1 (openBlock p3 ListMarkerKind)) by (eapply curS_trans; [exact C3'|exact C4]).
  assert (R4 : rest (openBlock p3 ListMarkerKind) = bytesAfterIndent p) by (rewrite (rest_curS p1 _ C4'); exact R1).
  assert (L4 : len (rest (openBlock p3 ListMarkerKind)) = len (line (openBlock p3 ListMarkerKind)) - li (openBlock p3 ListMarkerKind)).
  { apply len_rest. destruct H4 as ((? & _) & ? & _). lia. }
  destruct (G_advance (openBlock p3 ListMarkerKind) mend H4 Lm ltac:(rewrite R4 in L4; lia)) as (H5 & _ & _).
  destruct (G_endBlock _ H5) as [Hq _].
  match goal with |- context [endBlock ?X] => set (q := endBlock X) in * end.
  destruct (isRestBlank q); [apply G_consumeLine; exact Hq|].
  destruct (indent q <? 1); [exact Hq|]. destruct (4 <? indent q); apply (G_consumeIndent q _ Hq).
Qed.

Lemma blockStarts_okG : Forall startOKG blockStarts.
Proof.
  unfold blockStarts. repeat (apply Forall_cons; [first [exact G_startBlockQuote|exact G_startATX|exact G_startFenced|exact G_startHTML
    |exact G_startSetext|exact G_startThematic|exact G_startListItem|exact G_startIndented]|]). apply Forall_nil.
Qed.
Lemma G_tryStarts : forall fs p, Forall startOKG fs -> G p -> G (snd (tryStarts fs p)).
Proof.
  induction fs as [|f r IH]; intros p Hfs H; [exact H|]. cbn [tryStarts]. cbv zeta. inversion Hfs as [|? ? Hf Hr]; subst.
  assert (H1 : G (f (withState p stOpening))) by (apply Hf; exact H).
  destruct (_ || _); [exact H1|]. apply IH; assumption.
Qed.
Lemma G_opening_loop : forall fuel p, G p -> G (snd (opening_loop fuel p)).
Proof.
  induction fuel as [|f IH]; intros p H; [exact H|]. cbn [opening_loop].
  destruct (_ || _); [|exact H].
  pose proof (G_tryStarts blockStarts p blockStarts_okG H) as H1. destruct (tryStarts blockStarts p) as [[|] p1]; cbn [snd] in H1.
  - destruct (_ =? stLineConsumed); [exact H1|apply IH; exact H1].
  - exact H1.
Qed.
Lemma G_openNewBlocks p am : G p -> G (snd (openNewBlocks p am)).
Proof.
  intros H. unfold openNewBlocks. destruct (_ =? 0); [exact H|].
  pose proof (G_opening_loop (S (length (line p))) p H) as H1. destruct (opening_loop _ p) as [ht p1]. cbn [snd] in H1.
  destruct am; cbn [snd]; [exact H1|]. unfold deferredClose. cbv zeta. destruct (_ && _); exact H1.
Qed.
Lemma G_addLineText p : G p -> G (addLineText p).
Proof.
  intros H. unfold addLineText. cbv zeta.
  set (p1 := if isRestBlank p then _ else p).
  assert (H1 : G p1) by (unfold p1; destruct (isRestBlank p); exact H).
  set (p2 := withRoot p1 _). assert (H2 : G p2) by exact H1.
  assert (Hgo : forall q, G q ->
    G (let k := containerKind q in
       let inlineKind := if isCode k then TextKind else if k =? HTMLBlockKind then RawHTMLKind else UnparsedKind in
       let q' := updCont q (fun b => set_bik b (bik b ++ [mkI inlineKind (lineStart q + li q) (lineStart q + len (line q))])) in
       if isCode k && negb (hasByteSuffixEOL (line q')) then
         updCont q' (fun b => set_bik b (bik b ++ [mkI SoftLineBreakKind (lineStart q' + len (line q')) (lineStart q' + len (line q'))]))
       else q')).
  { intros q Hq. cbv zeta. match goal with |- G (if ?c then _ else _) => destruct c end; exact Hq. }
  match goal with |- G (if ?c then _ else _) => destruct c end.
  - apply Hgo. match goal with |- G (if ?c then _ else _) => destruct c end; [|exact H2]. apply G_consumeIndent. exact H2.
  - match goal with |- G (if ?c then _ else _) => destruct c end; [|exact H2]. apply Hgo. apply G_consumeIndent.
    apply (proj1 (G_openBlock p2 ParagraphKind H2)).
Qed.

Theorem processLine_no12 st children ls src : 0 <= ls ->
  let pn := snd (processLine st children ls src) in pn <> 1 /\ pn <> 2.
Proof.
  intros Hls. unfold processLine. cbv zeta.
  assert (H0 : G (resetLP st children ls src)).
  { unfold resetLP. split; [split; [cbn; lia|]|split; [cbn; apply len_nonneg|split; cbn; discriminate]].
    cbn [li line col tabRem]. intros Hl Ha. apply computeTabRem_spec; [lia|exact Hl|exact Ha]. }
  pose proof (G_descend_loop (bheight (root (resetLP st children ls src))) _ O H0) as H1.
  fold (descendOpenBlocks (resetLP st children ls src)) in H1.
  destruct (descendOpenBlocks _) as [am p1]. cbn [snd] in H1.
  assert (H2 : G (snd (if negb (state p1 =? stDescendTerminated) then openNewBlocks p1 am else (false, p1)))).
  { destruct (negb _); [apply G_openNewBlocks; exact H1|exact H1]. }
  destruct (if negb (state p1 =? stDescendTerminated) then openNewBlocks p1 am else (false, p1)) as [ht p2]. cbn [snd] in H2.
  assert (H3 : G (if ht then addLineText p2 else p2)) by (destruct ht; [apply G_addLineText|]; exact H2).
  cbn [snd]. apply H3.
Qed.
Print Assumptions processLine_no12.
