(* QuoteSimFuel.v -- T51: the opening loop of openNewBlocks does not depend on surplus fuel (tab-free line).
   Measure: bytes left on the line, plus one when a block start will be attempted. A block start that matches without consuming
   the line either moves the cursor forward (block quote marker, list marker) or makes a line-accepting leaf the container
   (HTML block, indented code block). *)
From Coq Require Import List ZArith Lia Bool Arith.
Import ListNotations.
Require Import Base Tree Rdr Link Collect Html Recog LP Rules Starts Driver Cursor CursorX Rec17 Rec18 RecBounds L2Kind L2CC NoPanic47
  QuoteSimTree QuoteSimNest QuoteSimRecog.
Open Scope Z_scope.

Definition noTabL (l : bytes) : Prop := Forall (fun c => c <> 9) l.
Definition guardO (p : lp) : bool := (containerKind p =? ParagraphKind) || negb (acceptsLines (containerKind p)).
Definition CB (p : lp) : Prop := noTabL (line p) /\ 0 <= li p <= len (line p).
Definition prog (p p' : lp) : Prop :=
  line p' = line p /\
  (p' = p \/ state p' = stLineConsumed \/ (li p <= li p' <= len (line p) /\ (guardO p' = true -> li p + 1 <= li p'))).

Lemma noTabL_at l i : noTabL l -> at_ l i <> 9.
Proof.
  unfold noTabL. intros H. unfold at_. destruct (i <? 0); [discriminate|]. destruct (nth_in_or_default (Z.to_nat i) l 0) as [Hin|E]; [|rewrite E; discriminate].
  rewrite Forall_forall in H. apply H, Hin.
Qed.
Lemma Itab_CB p : CB p -> Itab p.
Proof. intros [Ht Hi]. split; [lia|]. intros _ E. exfalso. exact (noTabL_at _ _ Ht E). Qed.

Lemma li_opened' p : li (if state p =? stOpening then withState p stOpenMatched else p) = li p. Proof. destruct (_ =? _); reflexivity. Qed.
Lemma li_consumeIndent_loop_ge : forall f p n, 0 <= li p <= len (line p) ->
  li p <= li (consumeIndent_loop f p n) <= len (line p).
Proof.
  induction f as [|f IH]; intros p n H; [cbn; lia|]. cbn [consumeIndent_loop]. destruct (n <=? 0); [lia|]. cbv zeta.
  pose proof (li_opened' p) as L1. pose proof (line_opened p) as L2.
  set (p1 := if state p =? stOpening then withState p stOpenMatched else p) in *. clearbody p1. rewrite L1, L2.
  destruct (Z.ltb_spec (li p) (len (line p))) as [L|L]; cbn [andb]; [|unfold panic; cbn; lia].
  destruct (_ =? 32).
  - match goal with |- _ <= li (consumeIndent_loop f ?pp ?nn) <= _ =>
      assert (A1 : line pp = line p) by (unfold withCursor; cbn; exact L2); assert (A2 : li pp = li p + 1) by reflexivity;
      pose proof (IH pp nn ltac:(rewrite A1, A2; lia)) as X; rewrite A1, A2 in X; lia end.
  - destruct (_ =? 9); [|unfold panic; cbn; lia]. destruct (n <? _); [unfold withCursor; cbn; lia|].
    match goal with |- _ <= li (consumeIndent_loop f ?pp ?nn) <= _ =>
      assert (A1 : line pp = line p) by (unfold withCursor; cbn; exact L2); assert (A2 : li pp = li p + 1) by reflexivity;
      pose proof (IH pp nn ltac:(rewrite A1, A2; lia)) as X; rewrite A1, A2 in X; lia end.
Qed.
Lemma li_consumeIndent_ge p n : 0 <= li p <= len (line p) -> li p <= li (consumeIndent p n) <= len (line p).
Proof. apply li_consumeIndent_loop_ge. Qed.
Lemma li_advance_eq' p n : 0 <= n -> li p + n <= len (line p) -> li (advance p n) = li p + n.
Proof.
  intros Hn Hl. unfold advance. destruct (Z.ltb_spec n 0); [lia|]. destruct (Z.eqb_spec n 0); [lia|]. cbv zeta.
  rewrite li_opened', line_opened. destruct (Z.ltb_spec (len (line p)) (li p + n)); [lia|]. reflexivity.
Qed.
Lemma li_openBlock_up' : forall f p k, li (openBlock_up f p k) = li p.
Proof.
  induction f as [|f IH]; intros p k; [reflexivity|]. cbn [openBlock_up]. destruct (canContain _ _); [reflexivity|].
  destruct (cdepth p); [reflexivity|]. rewrite IH. reflexivity.
Qed.
Lemma li_openBlock' p k : li (openBlock p k) = li p.
Proof.
  unfold openBlock. destruct (_ || _); [reflexivity|]. cbv zeta. unfold withCont, updCont, withRoot. flds.
  change (li (closeLastChildAt ?x ?d ?e)) with (li x). unfold closeLastChildAt, withRoot. flds. rewrite li_openBlock_up'. apply li_opened'.
Qed.
Lemma line_openBlock' p k : line (openBlock p k) = line p.
Proof.
  unfold openBlock. destruct (_ || _); [reflexivity|]. cbv zeta. unfold withCont, updCont, withRoot, closeLastChildAt, withRoot. flds.
  assert (G : forall f pp, line (openBlock_up f pp k) = line pp).
  { induction f as [|f IH]; intros pp; [reflexivity|]. cbn [openBlock_up]. destruct (canContain _ _); [reflexivity|]. destruct (cdepth pp); [reflexivity|]. rewrite IH. reflexivity. }
  rewrite G. apply line_opened.
Qed.
Lemma li_endBlock' p : li (endBlock p) = li p.
Proof. unfold endBlock. destruct (_ || _); [reflexivity|]. cbv zeta. destruct (cdepth _); unfold panic, withCont, closeLastChildAt, withRoot; flds; apply li_opened'. Qed.
Lemma line_endBlock p : line (endBlock p) = line p.
Proof. unfold endBlock. destruct (_ || _); [reflexivity|]. cbv zeta. destruct (cdepth _); unfold panic, withCont, closeLastChildAt, withRoot; flds; apply line_opened. Qed.

Lemma state_consumeLine_st3' p : L2Kind2.st3 p -> state (consumeLine p) = stLineConsumed.
Proof.
  intros Hs. unfold consumeLine. cbv zeta.
  pose proof (L2Kind2.st3_advance p (len (line p) - li p) Hs) as H2. set (a := advance p (len (line p) - li p)) in *.
  destruct ((state a =? stOpening) || (state a =? stOpenMatched)) eqn:E1; [reflexivity|].
  apply orb_false_iff in E1. destruct E1 as [E1 E1']. apply Z.eqb_neq in E1, E1'.
  destruct (L2Kind2.st3_cases _ H2) as [Ee|[Ee|Ee]]; try contradiction. rewrite Ee. exact Ee.
Qed.
Lemma state_endBlock_consumed' p : state p = stLineConsumed -> state (endBlock p) = stLineConsumed.
Proof.
  intros Hs. unfold endBlock. rewrite Hs. change ((stLineConsumed =? stDescending) || (stLineConsumed =? stDescendTerminated)) with false. cbv iota. cbv zeta.
  change (stLineConsumed =? stOpening) with false. cbv iota. destruct (cdepth p); exact Hs.
Qed.

Definition startProg (f : lp -> lp) : Prop := forall p, E p -> CB p -> prog p (f p).
Lemma prog_same p : prog p p. Proof. split; [reflexivity|left; reflexivity]. Qed.
Lemma prog_consumed p p' : line p' = line p -> state p' = stLineConsumed -> prog p p'. Proof. intros A B. split; [exact A|right; left; exact B]. Qed.

Lemma guard_kind p K : E p -> ckind p K -> acceptsLines K = true -> K <> ParagraphKind -> guardO p = false.
Proof.
  intros He Hk Ha Hn. unfold guardO. rewrite (containerKind_of p K (proj1 (proj2 He)) Hk), Ha.
  replace (K =? ParagraphKind) with false by (symmetry; apply Z.eqb_neq, Hn). reflexivity.
Qed.

Lemma blockStarts_prog : Forall startProg blockStarts.
Proof.
  unfold blockStarts.
  apply Forall_cons.
  { intros p He [Ht Hi]. unfold startBlockQuote. cbv zeta. destruct (_ <=? _); [apply prog_same|]. destruct (negb (hasBytePrefix _ _)) eqn:Eb; [apply prog_same|].
    apply negb_false_iff in Eb. destruct (bytesAfterIndent p) as [|c r] eqn:Ebai; [discriminate|].
    destruct (consume_all p (Itab_CB p (conj Ht Hi)) ltac:(lia)) as (A & B & C & (D & _)). rewrite Ebai in A.
    set (p1 := consumeIndent p (indent p)) in *. pose proof (indentLength_nonneg (rest p)) as Hnn.
    assert (Hlt : li p1 < len (line p)).
    { destruct (Z.lt_ge_cases (li p1) (len (line p))) as [L|L]; [exact L|]. rewrite (rest_nil p1) in A by (rewrite D; lia). discriminate. }
    set (p2 := openBlock p1 BlockQuoteKind).
    assert (L2 : li p2 = li p1) by apply li_openBlock'. assert (N2 : line p2 = line p) by (unfold p2; rewrite line_openBlock'; exact D).
    assert (L3 : li (advance p2 1) = li p1 + 1) by (rewrite li_advance_eq'; [lia|lia|rewrite N2; lia]).
    assert (N3 : line (advance p2 1) = line p) by (rewrite line_advance; exact N2).
    destruct (0 <? indent (advance p2 1)).
    - pose proof (li_consumeIndent_ge (advance p2 1) 1 ltac:(rewrite N3, L3; lia)) as X. rewrite N3, L3 in X.
      split; [rewrite line_consumeIndent; exact N3|]. right. right. split; [lia|intros _; lia].
    - split; [exact N3|]. right. right. split; [lia|intros _; lia]. }
  apply Forall_cons.
  { intros p He Hc. unfold startATX. cbv zeta. destruct (_ <=? _); [apply prog_same|].
    destruct (parseATXHeading _) as [[level cs] ce]. destruct (level <? 1); [apply prog_same|].
    apply prog_consumed; [rewrite line_endBlock, line_consumeLine, line_collectInline, line_advance; cbn [line updCont withRoot setLP]; rewrite line_openBlock', line_consumeIndent; reflexivity|].
    apply state_endBlock_consumed', state_consumeLine_st3'. apply L2Kind2.st3_collectInline, L2Kind2.st3_advance. apply L2Kind2.st3_openBlock, L2Kind2.st3_consumeIndent, He. }
  apply Forall_cons.
  { intros p He Hc. unfold startFenced. cbv zeta. destruct (_ <=? _); [apply prog_same|].
    destruct (parseCodeFence _) as [[[fc fnn] is_] ie]. destruct (fnn =? 0); [apply prog_same|].
    assert (S4 : L2Kind2.st3 (updCont (updCont (openBlock (consumeIndent p (indent p)) FencedCodeBlockKind) (fun b => set_bn (set_bchar b fc) fnn)) (fun b => set_bindent b (indent p))))
      by (apply L2Kind2.st3_openBlock, L2Kind2.st3_consumeIndent, He).
    apply prog_consumed.
    - rewrite line_consumeLine. destruct (spanValid _); [rewrite line_collectInline, line_advance|]; cbn [line updCont withRoot setLP]; rewrite line_openBlock', line_consumeIndent; reflexivity.
    - apply state_consumeLine_st3'. destruct (spanValid _); [apply L2Kind2.st3_collectInline, L2Kind2.st3_advance|]; exact S4. }
  apply Forall_cons.
  { intros p He [Ht Hi]. unfold startHTML. cbv zeta. destruct (_ <=? _); [apply prog_same|]. destruct (negb _); [apply prog_same|].
    destruct (_ <? 0); [apply prog_same|]. destruct (negb _ && _); [apply prog_same|].
    destruct (E_openBlock p HTMLBlockKind He ltac:(discriminate)) as [H2 D2].
    match goal with |- prog p (if ?c then _ else _) => destruct c end.
    - apply prog_consumed; [rewrite line_endBlock, line_consumeLine, line_collectInline; cbn [line updCont withRoot setLP]; apply line_openBlock'|].
      apply state_endBlock_consumed', state_consumeLine_st3', L2Kind2.st3_collectInline. apply H2.
    - split; [cbn [line updCont withRoot setLP]; apply line_openBlock'|]. right. right. cbn [li updCont withRoot setLP]. rewrite li_openBlock'. split; [lia|].
      intros Hg. exfalso.
      assert (Hq : E (updCont (openBlock p HTMLBlockKind) (fun b => set_bn b (firstHtmlCond 0 7 (bytesAfterIndent p))))) by (apply E_setters; [exact H2|setters]).
      rewrite (guard_kind _ HTMLBlockKind Hq) in Hg; [discriminate| |reflexivity|discriminate].
      apply ckind_updCont; [intros b; destruct b; reflexivity|]. apply ckind_openBlock3. apply He. }
  apply Forall_cons.
  { intros p He Hc. unfold startSetext. cbv zeta. destruct (negb _); [apply prog_same|].
    do 3 (match goal with |- prog p (if ?c then _ else _) => destruct c end; [apply prog_same|]).
    apply prog_consumed; [rewrite line_endBlock, line_consumeLine; reflexivity|].
    apply state_endBlock_consumed', state_consumeLine_st3'. apply He. }
  apply Forall_cons.
  { intros p He Hc. unfold startThematic. cbv zeta. destruct (_ <=? _); [apply prog_same|]. destruct (_ <? 0); [apply prog_same|].
    apply prog_consumed; [rewrite line_endBlock, line_consumeLine, line_advance, line_openBlock', line_consumeIndent; reflexivity|].
    apply state_endBlock_consumed', state_consumeLine_st3', L2Kind2.st3_advance, L2Kind2.st3_openBlock, L2Kind2.st3_consumeIndent, He. }
  apply Forall_cons.
  { intros p He [Ht Hi]. unfold startListItem. cbv zeta. destruct (_ <=? _); [apply prog_same|].
    destruct (parseListMarker (bytesAfterIndent p)) as [[delim n] mend] eqn:Em.
    destruct ((mend <? 0) || _) eqn:Ec1; [apply prog_same|]. destruct (_ && isBlankLine _); [apply prog_same|].
    apply orb_false_iff in Ec1. destruct Ec1 as [Ec1 _]. apply Z.ltb_ge in Ec1.
    destruct (listMarker_last _ _ _ _ Em Ec1) as (M1 & M2 & _).
    destruct (consume_all p (Itab_CB p (conj Ht Hi)) ltac:(lia)) as (A & B & C & (D & _)).
    set (p1 := consumeIndent p (indent p)) in *. pose proof (indentLength_nonneg (rest p)) as Hnn.
    assert (Elen : len (bytesAfterIndent p) = len (line p) - li p1) by (rewrite <- A; unfold rest; rewrite D; apply len_from; lia).
    match goal with |- prog p ?X => match X with context [openBlock ?a ListItemKind] => set (p2 := a) end end.
    assert (L2 : li p2 = li p1 /\ line p2 = line p /\ L2Kind2.st3 p2).
    { unfold p2. destruct (negb _ || negb _); [cbn [li line updCont withRoot setLP]; rewrite li_openBlock', line_openBlock'|];
        (split; [reflexivity|split; [exact D|]]); [apply L2Kind2.st3_openBlock|]; apply L2Kind2.st3_consumeIndent, He. }
    destruct L2 as (L2 & N2 & S2). clearbody p2.
    set (p4 := openBlock (updCont (openBlock p2 ListItemKind) (fun b => set_bchar b delim)) ListMarkerKind).
    assert (L4 : li p4 = li p1) by (unfold p4; rewrite li_openBlock'; cbn [li updCont withRoot setLP]; rewrite li_openBlock'; exact L2).
    assert (N4 : line p4 = line p) by (unfold p4; rewrite line_openBlock'; cbn [line updCont withRoot setLP]; rewrite line_openBlock'; exact N2).
    assert (S4 : L2Kind2.st3 p4) by (unfold p4; apply L2Kind2.st3_openBlock, L2Kind2.st3_openBlock, S2). clearbody p4.
    assert (L5 : li (advance p4 mend) = li p1 + mend) by (rewrite li_advance_eq'; [lia|lia|rewrite N4; lia]).
    set (p6 := endBlock (advance p4 mend)).
    assert (L6 : li p6 = li p1 + mend) by (unfold p6; rewrite li_endBlock'; exact L5).
    assert (N6 : line p6 = line p) by (unfold p6; rewrite line_endBlock, line_advance; exact N4).
    assert (S6 : L2Kind2.st3 p6) by (unfold p6; apply L2Kind2.st3_endBlock, L2Kind2.st3_advance, S4). clearbody p6.
    destruct (isRestBlank p6).
    { apply prog_consumed; [rewrite line_consumeLine; exact N6|apply state_consumeLine_st3'; exact S6]. }
    destruct (indent p6 <? 1); [split; [exact N6|right; right; cbn [li updCont withRoot setLP]; split; [lia|intros _; lia]]|].
    destruct (4 <? indent p6).
    - pose proof (li_consumeIndent_ge p6 1 ltac:(rewrite N6; lia)) as X. rewrite N6 in X.
      split; [cbn [line updCont withRoot setLP]; rewrite line_consumeIndent; exact N6|right; right; cbn [li updCont withRoot setLP]; split; [lia|intros _; lia]].
    - pose proof (li_consumeIndent_ge p6 (indent p6) ltac:(rewrite N6; lia)) as X. rewrite N6 in X.
      split; [cbn [line updCont withRoot setLP]; rewrite line_consumeIndent; exact N6|right; right; cbn [li updCont withRoot setLP]; split; [lia|intros _; lia]]. }
  apply Forall_cons.
  { intros p He [Ht Hi]. unfold startIndented. destruct (_ || _ || _); [apply prog_same|].
    pose proof (li_consumeIndent_ge p codeBlockIndentLimit Hi) as X.
    destruct (E_openBlock (consumeIndent p codeBlockIndentLimit) IndentedCodeBlockKind (E_consumeIndent _ _ He) ltac:(discriminate)) as [H2 D2].
    split; [rewrite line_openBlock', line_consumeIndent; reflexivity|]. right. right. rewrite li_openBlock'. split; [lia|].
    intros Hg. exfalso. rewrite (guard_kind _ IndentedCodeBlockKind H2) in Hg; [discriminate| |reflexivity|discriminate].
    apply ckind_openBlock3. apply L2Kind2.st3_consumeIndent, He. }
  apply Forall_nil.
Qed.

Lemma tryStarts_prog : forall fs p, Forall startProg fs -> Forall startOKE fs -> F p -> CB p ->
  line (snd (tryStarts fs p)) = line p /\ F (snd (tryStarts fs p)) /\
  (fst (tryStarts fs p) = true ->
   state (snd (tryStarts fs p)) = stLineConsumed \/
   (li p <= li (snd (tryStarts fs p)) <= len (line p) /\ (guardO (snd (tryStarts fs p)) = true -> li p + 1 <= li (snd (tryStarts fs p))))).
Proof.
  induction fs as [|f r IH]; intros p Hp He Hf Hc; [split; [reflexivity|split; [exact Hf|discriminate]]|].
  cbn [tryStarts]. cbv zeta. inversion Hp as [|? ? Hp1 Hpr]; subst. inversion He as [|? ? He1 Her]; subst.
  assert (HE : E (withState p stOpening)) by (split; [left; left; reflexivity|exact Hf]).
  assert (HC : CB (withState p stOpening)) by exact Hc.
  destruct (Hp1 _ HE HC) as [Ln Pr]. pose proof (He1 _ HE) as E1. change (line (withState p stOpening)) with (line p) in Ln.
  destruct ((state (f (withState p stOpening)) =? stOpenMatched) || (state (f (withState p stOpening)) =? stLineConsumed)) eqn:Ec; cbn [fst snd].
  - split; [exact Ln|split; [apply E1|intros _]]. destruct Pr as [Pr|[Pr|Pr]].
    + rewrite Pr in Ec. discriminate.
    + left. exact Pr.
    + right. exact Pr.
  - assert (C1 : CB (f (withState p stOpening))).
    { destruct Hc as [Ht Hi]. split; [rewrite Ln; exact Ht|]. rewrite Ln. destruct Pr as [Pr|[Pr|Pr]].
      - rewrite Pr. exact Hi.
      - apply orb_false_iff in Ec. destruct Ec as [_ Ec]. apply Z.eqb_neq in Ec. contradiction.
      - change (li (withState p stOpening)) with (li p) in Pr. change (line (withState p stOpening)) with (line p) in Pr. lia. }
    destruct (IH (f (withState p stOpening)) Hpr Her (proj2 E1) C1) as (A & B & C). rewrite Ln in A.
    split; [exact A|split; [exact B|]]. intros Ht. specialize (C Ht). rewrite Ln in C.
    assert (Hge : li p <= li (f (withState p stOpening))).
    { destruct Pr as [Pr|[Pr|Pr]]; [rewrite Pr; cbn; lia| |change (li (withState p stOpening)) with (li p) in Pr; lia].
      apply orb_false_iff in Ec. destruct Ec as [_ Ec]. apply Z.eqb_neq in Ec. contradiction. }
    destruct C as [C|[C1' C2]]; [left; exact C|right]. split; [lia|intros Hg; specialize (C2 Hg); lia].
Qed.

Definition needO (p : lp) : nat := (Z.to_nat (len (line p) - li p) + (if guardO p then 1 else 0))%nat.

Lemma opening_loop_fuel : forall f f' p, F p -> CB p -> (needO p <= f)%nat -> (needO p <= f')%nat ->
  opening_loop f p = opening_loop f' p.
Proof.
  induction f as [|f IH]; intros f' p Hf Hc Hn Hn'.
  - assert (Hg : guardO p = false) by (unfold needO in Hn; destruct (guardO p); [lia|reflexivity]).
    destruct f' as [|f']; [reflexivity|]. cbn [opening_loop]. fold (guardO p). rewrite Hg. reflexivity.
  - destruct f' as [|f'].
    { assert (Hg : guardO p = false) by (unfold needO in Hn'; destruct (guardO p); [lia|reflexivity]).
      cbn [opening_loop]. fold (guardO p). rewrite Hg. reflexivity. }
    cbn [opening_loop]. fold (guardO p). destruct (guardO p) eqn:Hg; [|reflexivity].
    destruct (tryStarts_prog blockStarts p blockStarts_prog blockStarts_okE Hf Hc) as (A & B & C).
    destruct (tryStarts blockStarts p) as [b p1]. cbn [fst snd] in *. destruct b; [|reflexivity].
    destruct (Z.eqb_spec (state p1) stLineConsumed) as [Es|Es]; [reflexivity|].
    destruct (C eq_refl) as [C1|[C1 C2]]; [contradiction|].
    destruct Hc as [Ht Hi].
    assert (Hc1 : CB p1) by (split; [rewrite A; exact Ht|rewrite A; lia]).
    assert (N1 : (needO p1 <= Z.to_nat (len (line p) - li p))%nat).
    { unfold needO. rewrite A. destruct (guardO p1); [specialize (C2 eq_refl); lia|lia]. }
    unfold needO in Hn, Hn'. rewrite Hg in Hn, Hn'. apply IH; [exact B|exact Hc1|lia|lia].
Qed.
Print Assumptions opening_loop_fuel.
