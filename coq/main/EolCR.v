From Coq Require Import List ZArith Lia Bool.
Import ListNotations.
Require Import Base Tree Rdr Link Collect Html Recog LP Rules Starts Driver Rec16 Rec17 Rec18 L2Kind L2CC L2Bnd L2BndS TRdr TLine
  EolCRDefs EolCRBytes EolCRRdr EolCRLP.
Open Scope Z_scope.

(* ====================================================================================================
   C14 (ii), CR clause on the block layer: for an input without CR, replacing every LF by CR changes
   nothing in what parseBlocks returns, except that the Source of every root block is mapped likewise.
   ==================================================================================================== *)

(* ---- one line ---- *)
Lemma rel_goF q q' : relP q q' -> relP (goF q) (goF q').
Proof.
  intros H. unfold goF. cbv zeta. rewrite (rel_containerKind q q' H), (rel_len_line q q' H). eqf H lineStart. eqf H li.
  match goal with |- relP (if _ && negb (hasByteSuffixEOL (line ?a)) then _ else _) (if _ && negb (hasByteSuffixEOL (line ?a')) then _ else _) =>
    assert (H1 : relP a a') by (apply rel_updCont, H); set (u := a) in *; set (u' := a') in *; clearbody u u' end.
  rewrite (cr_hasByteSuffixEOL _ _ (proj1 (proj2 H1))), (rel_len_line u u' H1). eqf H1 lineStart.
  destruct (_ && _); [apply rel_updCont, H1|exact H1].
Qed.

Lemma rel_addLineText p p' : relP p p' -> relP (addLineText p) (addLineText p').
Proof.
  intros H. unfold addLineText. cbv zeta. rewrite (rel_isRestBlank p p' H).
  change (fun b : block => match lastBlock b with Some c => set_lastBlocks b [set_blast c true] | None => b end) with blankF.
  set (pa := if isRestBlank p then updCont p blankF else p). set (pa' := if isRestBlank p then updCont p' blankF else p').
  assert (Ha : relP pa pa') by (unfold pa, pa'; destruct (isRestBlank p); [apply rel_updCont, H|exact H]). clearbody pa pa'.
  rewrite (rel_contBlock pa pa' Ha), (rel_cdepth pa pa' Ha). eqf Ha lineStart. eqf Ha root.
  match goal with |- context [setLastBlankUpTo (cdepth pa) ?v (root pa)] => set (llb := v) end.
  pose proof (rel_withRoot pa pa' (setLastBlankUpTo (cdepth pa) llb (root pa)) Ha) as Hb.
  set (pb := withRoot pa _) in *. set (pb' := withRoot pa' _) in *. clearbody pb pb'.
  destruct (acceptsLines _).
  - rewrite (rel_len_line pb pb' Hb), (rel_at9 _ _ _ (proj1 (proj2 Hb))). eqf Hb li. eqf Hb tabRem. eqf Hb lineStart.
    match goal with |- context [if ?c then consumeIndent ?x ?n else pb] => set (cnd := c); set (pi := x) end.
    match goal with |- context [if cnd then consumeIndent ?x' ?n' else pb'] => set (pi' := x') end.
    assert (Hi : relP pi pi') by (apply rel_updCont, Hb).
    set (pc := if cnd then consumeIndent pi (tabRem pi) else pb). set (pc' := if cnd then consumeIndent pi' (tabRem pi') else pb').
    assert (Hc : relP pc pc').
    { unfold pc, pc'. destruct cnd; [|exact Hb]. replace (tabRem pi') with (tabRem pi) by (symmetry; apply Hi). apply rel_consumeIndent, Hi. }
    clearbody pc pc'. fold (goF pc). fold (goF pc'). apply rel_goF, Hc.
  - destruct (negb (isRestBlank p)); [|exact Hb].
    pose proof (rel_openBlock pb pb' ParagraphKind Hb) as Ho. rewrite (rel_indent _ _ Ho).
    fold (goF (consumeIndent (openBlock pb ParagraphKind) (indent (openBlock pb ParagraphKind)))).
    fold (goF (consumeIndent (openBlock pb' ParagraphKind) (indent (openBlock pb ParagraphKind)))).
    apply rel_goF, rel_consumeIndent, Ho.
Qed.

Lemma rel_resetLP st children ls src src' : crRel src src' -> relP (resetLP st children ls src) (resetLP st children ls src').
Proof.
  intros H. unfold resetLP. pose proof (crRel_from src src' ls H) as Hl. rewrite (cr_computeTabRem _ _ 0 0 Hl). apply relP_mk; assumption.
Qed.
Theorem cr_processLine st children ls src src' : crRel src src' -> processLine st children ls src' = processLine st children ls src.
Proof.
  intros H. unfold processLine. cbv zeta.
  pose proof (rel_descendOpenBlocks _ _ (rel_resetLP st children ls src src' H)) as [E H1].
  destruct (descendOpenBlocks (resetLP st children ls src)) as [am p1]. destruct (descendOpenBlocks (resetLP st children ls src')) as [am' p1'].
  cbn [fst snd] in E, H1. subst am'. rewrite (rel_state _ _ H1).
  assert (H2 : relBP (if negb (state p1 =? stDescendTerminated) then openNewBlocks p1 am else (false, p1))
                     (if negb (state p1 =? stDescendTerminated) then openNewBlocks p1' am else (false, p1'))).
  { destruct (negb _); [apply rel_openNewBlocks, H1|split; [reflexivity|exact H1]]. }
  destruct H2 as [E2 H2].
  destruct (if negb (state p1 =? stDescendTerminated) then openNewBlocks p1 am else (false, p1)) as [ht p2].
  destruct (if negb (state p1 =? stDescendTerminated) then openNewBlocks p1' am else (false, p1')) as [ht' p2']. cbn [fst snd] in E2, H2. subst ht'.
  assert (H3 : relP (if ht then addLineText p2 else p2) (if ht then addLineText p2' else p2')) by (destruct ht; [apply rel_addLineText, H2|exact H2]).
  destruct H3 as (_ & _ & A & _ & _ & _ & _ & _ & B & C). rewrite A, B, C. reflexivity.
Qed.

(* ---- the stream layer ---- *)
Definition relS (s s' : bpst) : Prop :=
  crRel (buf s) (buf s') /\ bi s' = bi s /\ boff s' = boff s /\ bline s' = bline s /\ pending s' = pending s.
Definition rootR (r r' : rootB) : Prop :=
  rb_line r' = rb_line r /\ rb_start r' = rb_start r /\ rb_end r' = rb_end r /\ crRel (rb_src r) (rb_src r') /\ rb_blk r' = rb_blk r.
Definition relNB (x y : nb) : Prop :=
  match x, y with
  | NBBlock r s, NBBlock r' s' => rootR r r' /\ relS s s'
  | NBEof s, NBEof s' => relS s s'
  | NBStuck, NBStuck => True
  | NBPanic n, NBPanic n' => n' = n
  | _, _ => False
  end.

Lemma rel_makeRoot children s s' : relS s s' ->
  match makeRoot children s, makeRoot children s' with
  | Some (r, t), Some (r', t') => rootR r r' /\ relS t t'
  | None, None => True
  | _, _ => False
  end.
Proof.
  intros (A & B & C & D & E). unfold makeRoot. destruct children as [|b rest]; [exact I|]. destruct (isOpen b); [exact I|]. cbv zeta.
  pose proof (crRel_upto _ _ (bend b) A) as Hu. rewrite B, C, D, (cr_unpadded _ _ Hu), (cr_lineCount _ _ Hu).
  split; [|repeat split; cbn [buf bi boff bline pending]; try reflexivity; apply crRel_from, A].
  repeat split; cbn [rb_line rb_start rb_end rb_src rb_blk]; try reflexivity. apply cr_fillNulls, Hu.
Qed.

Lemma sim_lineLoop : forall fuel st children ls s s' ns, relS s s' ->
  0 <= ls <= len (buf s) -> bi s = lineEnd (buf s) ls -> bndL ls ns children = true -> (ns = false -> ls = len (buf s)) ->
  relNB (lineLoop fuel st children ls s) (lineLoop fuel st children ls s').
Proof.
  induction fuel as [|f IH]; intros st children ls s s' ns HS Hls Hbi Hc Hn; [exact I|]. cbn [lineLoop].
  pose proof HS as (A & B & C & D & E). rewrite B.
  rewrite (cr_processLine st children ls _ _ (crRel_upto _ _ (bi s) A)).
  destruct (lineEnd_spec (buf s) ls Hls) as [A1 B1]. rewrite <- Hbi in A1, B1.
  set (ln := from_ (upto (buf s) (bi s)) ls).
  destruct (line_of (buf s) ls (bi s) ltac:(lia) ltac:(lia)) as [Ll _]. fold ln in Ll.
  set (ns' := if ns then hasByteSuffixEOL ln else false).
  assert (Hc' : bndL (bi s) ns' children = true).
  { unfold ns'. destruct ns.
    - pose proof (bndL_mono ls (bi s) children ltac:(lia) Hc) as Hm. destruct (hasByteSuffixEOL ln); [exact Hm|apply bndL_weaken, Hm].
    - rewrite (Hn eq_refl) in *. replace (bi s) with (len (buf s)) by lia. exact Hc. }
  assert (Hn' : ns' = false -> bi s = len (buf s)).
  { unfold ns'. destruct ns; [|intros _; rewrite (Hn eq_refl) in *; lia].
    intros Ee. destruct (Z.lt_ge_cases (bi s) (len (buf s))) as [Lt|Ge]; [|lia].
    exfalso. rewrite Hbi in Lt. pose proof (line_hasEOL (buf s) ls Hls Lt) as Hh. rewrite <- Hbi in Hh. fold ln in Hh. congruence. }
  pose proof (bnd_processLine (bi s) ns' st children ls (upto (buf s) (bi s)) ltac:(lia) ltac:(lia) ltac:(fold ln; lia)
                ltac:(rewrite len_upto by lia; lia) ltac:(unfold ns'; fold ln; destruct ns; [tauto|discriminate]) Hc') as H1.
  destruct (processLine st children ls (upto (buf s) (bi s))) as [[children' st'] pn]. cbn [fst] in H1.
  destruct (negb (pn =? 0)); [reflexivity|].
  pose proof (rel_makeRoot children' s s' HS) as Hm.
  destruct (makeRoot children' s) as [[r t]|]; destruct (makeRoot children' s') as [[r' t']|]; try contradiction; [exact Hm|].
  rewrite C, D, E, (cr_lineEnd_nonneg _ _ (bi s) A ltac:(lia)).
  apply (IH st' children' (bi s) _ _ ns'); cbn [buf bi]; try assumption; try lia; try reflexivity.
  repeat split; cbn [buf bi boff bline pending]; try reflexivity. exact A.
Qed.

Lemma sim_skipLoop : forall fuel s s', relS s s' -> bi s = 0 -> relNB (skipLoop fuel s) (skipLoop fuel s').
Proof.
  induction fuel as [|f IH]; intros s s' HS Hb; [exact I|]. cbn [skipLoop]. cbv zeta.
  pose proof HS as (A & B & C & D & E). rewrite B, C, D, E, Hb, (cr_lineEnd_nonneg _ _ 0 A ltac:(lia)).
  destruct (negb _); [cbn [relNB]; exact HS|].
  pose proof (crRel_upto _ _ (lineEnd (buf s) 0) A) as Hu. rewrite (cr_isBlankLine _ _ Hu), (cr_unpadded _ _ Hu).
  destruct (isBlankLine _).
  - apply IH; [|reflexivity]. repeat split; cbn [buf bi boff bline pending]; try reflexivity. apply crRel_from, A.
  - pose proof (len_nonneg (buf s)) as Hl0.
    apply (sim_lineLoop f 0 [] 0 _ _ true); cbn [buf bi]; [|lia|reflexivity|reflexivity|discriminate].
    repeat split; cbn [buf bi boff bline pending]; try reflexivity. exact A.
Qed.

Lemma sim_nextBlock fuel s s' ns : relS s s' -> SI s (pending s) ns -> relNB (nextBlock fuel s) (nextBlock fuel s').
Proof.
  intros HS (Hb & Hc & Hn). unfold nextBlock. pose proof HS as (A & B & C & D & E). rewrite E.
  pose proof (rel_makeRoot (pending s) s s' HS) as Hm.
  destruct (makeRoot (pending s) s) as [[r t]|]; destruct (makeRoot (pending s) s') as [[r' t']|]; try contradiction; [exact Hm|].
  rewrite B, C, D. destruct (pending s) as [|b0 rest] eqn:Ep.
  - pose proof (crRel_upto _ _ (bi s) A) as Hu. rewrite (cr_unpadded _ _ Hu), (cr_lineCount _ _ Hu).
    apply sim_skipLoop; [|reflexivity]. repeat split; cbn [buf bi boff bline pending]; try reflexivity. apply crRel_from, A.
  - rewrite (cr_lineEnd_nonneg _ _ (bi s) A ltac:(lia)).
    apply (sim_lineLoop fuel 0 (b0 :: rest) (bi s) _ _ ns); cbn [buf bi]; try assumption; try lia; try reflexivity.
    repeat split; cbn [buf bi boff bline pending]; try reflexivity. exact A.
Qed.

Lemma sim_allBlocks : forall fuel s s' acc acc' ns, relS s s' -> SI s (pending s) ns -> Forall2 rootR acc acc' ->
  Forall2 rootR (fst (allBlocks fuel s acc)) (fst (allBlocks fuel s' acc')) /\ snd (allBlocks fuel s' acc') = snd (allBlocks fuel s acc).
Proof.
  induction fuel as [|f IH]; intros s s' acc acc' ns HS HI Ha; [split; [exact Ha|reflexivity]|]. cbn [allBlocks].
  rewrite (crRel_length _ _ (proj1 HS)).
  pose proof (sim_nextBlock (3 + length (buf s)) s s' ns HS HI) as H.
  pose proof (SI_nextBlock (3 + length (buf s)) s ns HI) as Hok.
  destruct (nextBlock _ s) as [r t| t| |n]; destruct (nextBlock _ s') as [r' t'| t'| |n']; cbn [relNB] in H; try contradiction.
  - destruct H as [Hr Ht]. destruct Hok as [_ (ns' & Hs')]. apply (IH t t' _ _ ns' Ht Hs').
    apply Forall2_app; [exact Ha|constructor; [exact Hr|constructor]].
  - split; [exact Ha|reflexivity].
  - split; [exact Ha|reflexivity].
  - subst n'. split; [exact Ha|reflexivity].
Qed.

Definition mapSrc (f : bytes -> bytes) (r : rootB) : rootB :=
  {| rb_line := rb_line r; rb_start := rb_start r; rb_end := rb_end r; rb_src := f (rb_src r); rb_blk := rb_blk r |}.
Lemma rootR_map l l' : Forall2 rootR l l' -> l' = map (mapSrc cr) l.
Proof.
  induction 1 as [|r r' l l' (A & B & C & D & E) H IH]; [reflexivity|]. cbn [map]. rewrite <- IH. f_equal.
  destruct r as [a1 a2 a3 a4 a5], r' as [b1 b2 b3 b4 b5]. unfold mapSrc. simpl in *. subst. rewrite (crRel_is_cr _ _ D). reflexivity.
Qed.

Theorem parseBlocks_cr : forall s, ~ In 13 s ->
  parseBlocks (cr s) = (map (mapSrc cr) (fst (parseBlocks s)), snd (parseBlocks s)).
Proof.
  intros s Hs. unfold parseBlocks.
  pose proof (cr_pad _ _ (crRel_cr s Hs)) as Hp. rewrite (crRel_length _ _ Hp).
  set (s0 := {| buf := pad s; bi := 0; boff := 0; bline := 1; pending := [] |}).
  set (s0' := {| buf := pad (cr s); bi := 0; boff := 0; bline := 1; pending := [] |}).
  assert (HS : relS s0 s0') by (repeat split; exact Hp).
  assert (HI : SI s0 (pending s0) true).
  { unfold SI, s0. cbn [buf bi pending]. pose proof (len_nonneg (pad s)). repeat split; try lia; try discriminate. }
  destruct (sim_allBlocks (S (length (pad s))) s0 s0' [] [] true HS HI (Forall2_nil _)) as [A B].
  destruct (allBlocks (S (length (pad s))) s0' []) as [r' c']. destruct (allBlocks (S (length (pad s))) s0 []) as [r c].
  cbn [fst snd] in *. subst c'. rewrite (rootR_map _ _ A). reflexivity.
Qed.
Print Assumptions parseBlocks_cr.
