From Coq Require Import List ZArith Lia Bool.
Import ListNotations.
Require Import Base Tables Utf8 Tree Recog Inl3b Driver Inl3e Render WalkG RenderWalk.
Open Scope Z_scope.

Section P.
  Variable c : cfg.
  Variable refs : list (bytes * linkDef).
  Variable src : bytes.

  Notation preI := (preI c refs src). Notation postI := (postI c).
  Notation preB := (preB c src). Notation postB := (postB c).
  Notation rI := (fun f => renderI f c refs src).
  Notation rB := (fun f => renderB f c refs src).
  Notation specT := (spec pay isBlockPay bytes (preCB c refs src) (postCB c)).
  Notation specK := (spec_kids pay isBlockPay bytes (preCB c refs src) (postCB c)).

  (* the structural renderer, one level unfolded, is "pre ++ children ++ post" *)
  Lemma renderI_unfold f i :
    renderI (S f) c refs src i =
    let '(o, d) := preI i in if d then o ++ flat_map (renderI f c refs src) (ikids i) ++ postI i else o.
  Proof.
    cbn [renderI]. unfold RenderWalk.preI, RenderWalk.postI. set (k := ikind i).
    destruct ((k =? TextKind) || (k =? UnparsedKind)); [reflexivity|].
    destruct (k =? CharacterReferenceKind); [reflexivity|].
    destruct (k =? RawHTMLKind); [reflexivity|].
    destruct (k =? SoftLineBreakKind); [reflexivity|].
    destruct (k =? HardLineBreakKind); [reflexivity|].
    destruct (k =? EmphasisKind); [reflexivity|].
    destruct (k =? StrongKind); [reflexivity|].
    destruct (k =? CodeSpanKind); [reflexivity|].
    destruct (k =? LinkKind); [rewrite <- !app_assoc; reflexivity|].
    destruct (k =? ImageKind); [reflexivity|].
    destruct (k =? AutolinkKind); [reflexivity|].
    destruct (k =? IndentKind); [reflexivity|].
    destruct (k =? HTMLTagKind); [cbn [app]; rewrite app_nil_r; reflexivity|reflexivity].
  Qed.

  Definition kidsOfB f (b : block) : bytes :=
    match bkids b with
    | [] => flat_map (fun i => renderI (isize i) c refs src i) (bik b)
    | _ => flat_map (renderB f c refs src (isTightList b)) (bkids b)
    end.

  Lemma renderB_unfold f pt b :
    renderB (S f) c refs src pt b =
    let '(o, d) := preB pt b in if d then o ++ kidsOfB f b ++ postB pt b else o.
  Proof.
    cbn [renderB]. unfold RenderWalk.preB, RenderWalk.postB, kidsOfB, codeClass. set (k := bkind b).
    set (kids := match bkids b with [] => _ | _ :: _ => _ end).
    destruct (k =? ParagraphKind).
    { destruct pt; [cbn [app]; rewrite app_nil_r; reflexivity|reflexivity]. }
    destruct (k =? ThematicBreakKind); [reflexivity|].
    destruct (isHeading k); [reflexivity|].
    destruct (isCode k); [rewrite <- !app_assoc; reflexivity|].
    destruct (k =? BlockQuoteKind); [reflexivity|].
    destruct (k =? ListKind).
    { destruct (isOrdered b); [rewrite <- !app_assoc; reflexivity|reflexivity]. }
    destruct (k =? ListItemKind); [reflexivity|].
    destruct (k =? HTMLBlockKind); [|reflexivity].
    destruct (ignoreRaw c); cbn [negb app]; [reflexivity|rewrite app_nil_r; reflexivity].
  Qed.

  (* sizes of children *)
  Lemma isize_kid i x : In x (ikids i) -> (isize x < isize i)%nat.
  Proof.
    destruct i as [k s e ind r ks]. cbn [ikids isize]. induction ks as [|y l IH]; intros H; [destruct H|].
    cbn [fold_right]. destruct H as [->|H]; [lia|]. specialize (IH H). lia.
  Qed.
  Lemma bheight_kid b x : In x (bkids b) -> (bheight x < bheight b)%nat.
  Proof.
    destruct b as [k s e bk ik ind n ch l lb]. cbn [bkids bheight]. induction bk as [|y r IH]; intros H; [destruct H|].
    cbn [fold_right]. destruct H as [->|H]; [lia|]. specialize (IH H). lia.
  Qed.

  Lemma flat_map_ext_in' {A} (g h : A -> bytes) l : (forall x, In x l -> g x = h x) -> flat_map g l = flat_map h l.
  Proof. induction l as [|x l IH]; intros H; [reflexivity|]. cbn. rewrite H by (left; reflexivity). f_equal. apply IH. intros y Hy. apply H. right; assumption. Qed.

  (* the fuel of the structural renderer does not matter once it is enough *)
  Lemma renderI_fuel : forall f1 f2 i, (isize i <= f1)%nat -> (isize i <= f2)%nat ->
    renderI f1 c refs src i = renderI f2 c refs src i.
  Proof.
    induction f1 as [|f1 IH]; intros f2 i H1 H2.
    { destruct i; cbn in H1; lia. }
    destruct f2 as [|f2]; [destruct i; cbn in H2; lia|].
    rewrite !renderI_unfold. destruct (preI i) as [o [|]]; [|reflexivity].
    f_equal. f_equal. apply flat_map_ext_in'. intros x Hx. pose proof (isize_kid i x Hx). apply IH; lia.
  Qed.

  (* traversal of inline trees *)
  Lemma specI : forall f i parent blk idx dst, (isize i <= f)%nat ->
    specT (toTreeI i) parent blk idx dst = (dst ++ renderI f c refs src i, true).
  Proof.
    induction f as [|f IH]; intros i parent blk idx dst Hs; [destruct i; cbn in Hs; lia|].
    rewrite toTreeI_eq, spec_eq. cbn zeta. unfold preCB at 1. cbn [payload c_node].
    rewrite renderI_unfold. destruct (preI i) as [o d]. destruct d; [|reflexivity].
    assert (HK : forall l j dst0 p b0, (forall x, In x l -> (isize x <= f)%nat) ->
               specK p b0 (forestI l) j dst0 = (dst0 ++ flat_map (renderI f c refs src) l, true)).
    { induction l as [|x l IHl]; intros j dst0 p b0 Hl; [cbn; rewrite app_nil_r; reflexivity|].
      cbn [forestI]. change (specK p b0 (FCons pay (toTreeI x) (forestI l)) j dst0) with
        (let '(s', cont) := specT (toTreeI x) (Some p) b0 j dst0 in if cont then specK p b0 (forestI l) (j + 1) s' else (s', false)).
      rewrite IH by (apply Hl; left; reflexivity). cbn zeta.
      rewrite IHl by (intros y Hy; apply Hl; right; assumption). cbn [flat_map]. rewrite <- app_assoc. reflexivity. }
    cbn [kids_of]. rewrite HK by (intros x Hx; pose proof (isize_kid i x Hx); lia).
    unfold postCB. cbn [payload c_node]. rewrite <- !app_assoc. reflexivity.
  Qed.

  Lemma parentTight_of b ks j blk0 x :
    parentTight {| c_node := x; c_parent := Some (T pay (PB b) ks); c_block := blk0; c_index := j |} = isTightList b.
  Proof. reflexivity. Qed.

  Lemma specB : forall f b parent blk idx dst, (bheight b <= f)%nat ->
    specT (toTreeB b) parent blk idx dst =
    (dst ++ renderB f c refs src (parentTight {| c_node := toTreeB b; c_parent := parent; c_block := blk; c_index := idx |}) b, true).
  Proof.
    induction f as [|f IH]; intros b parent blk idx dst Hs; [destruct b; cbn in Hs; lia|].
    rewrite spec_eq. cbn zeta. unfold preCB at 1. rewrite toTreeB_eq at 1. cbn [payload c_node].
    set (pt := parentTight _).
    rewrite renderB_unfold. destruct (preB pt b) as [o d]. destruct d; [|reflexivity].
    assert (Hkids : specK (toTreeB b) (blk_of pay isBlockPay {| c_node := toTreeB b; c_parent := parent; c_block := blk; c_index := idx |})
                       (kids_of pay (toTreeB b)) 0 (dst ++ o) = ((dst ++ o) ++ kidsOfB f b, true)).
    { rewrite toTreeB_eq. cbn [kids_of]. unfold kidsOfB. set (p := T pay (PB b) _). set (b0 := blk_of _ _ _).
      destruct (bkids b) as [|k0 ks0] eqn:Ek; rewrite ?Ek.
      - (* inline children *)
        generalize (bik b) 0 (dst ++ o). induction l as [|x l IHl]; intros j dst0; [cbn; rewrite app_nil_r; reflexivity|].
        cbn [forestI]. change (specK p b0 (FCons pay (toTreeI x) (forestI l)) j dst0) with
          (let '(s', cont) := specT (toTreeI x) (Some p) b0 j dst0 in if cont then specK p b0 (forestI l) (j + 1) s' else (s', false)).
        rewrite (specI (isize x)) by lia. cbn zeta. rewrite IHl. cbn [flat_map]. rewrite <- app_assoc. reflexivity.
      - (* block children *)
        assert (Hall : forall x, In x (k0 :: ks0) -> (bheight x <= f)%nat).
        { intros x Hx. rewrite <- Ek in Hx. pose proof (bheight_kid b x Hx). lia. }
        revert Hall. generalize (k0 :: ks0) 0 (dst ++ o). induction l as [|x l IHl]; intros j dst0 Hall; [cbn; rewrite app_nil_r; reflexivity|].
        cbn [forestB]. change (specK p b0 (FCons pay (toTreeB x) (forestB l)) j dst0) with
          (let '(s', cont) := specT (toTreeB x) (Some p) b0 j dst0 in if cont then specK p b0 (forestB l) (j + 1) s' else (s', false)).
        rewrite IH by (apply Hall; left; reflexivity). cbn zeta. change (parentTight {| c_node := toTreeB x; c_parent := Some p; c_block := b0; c_index := j |}) with (isTightList b).
        rewrite IHl by (intros y Hy; apply Hall; right; assumption). cbn [flat_map]. rewrite <- app_assoc. reflexivity. }
    rewrite Hkids. unfold postCB. rewrite toTreeB_eq at 1. cbn [payload c_node]. fold pt. rewrite <- !app_assoc. reflexivity.
  Qed.

  (* C10: what Walk with the renderer's callbacks writes for a root block is the structural reading of the tree *)
  Theorem C10_appendBlock b f : (bheight b <= f)%nat ->
    appendBlock c refs src b = Some (renderB f c refs src false b).
  Proof.
    intros Hf. unfold appendBlock. rewrite walk_is_spec. rewrite (specB f) by assumption. reflexivity.
  Qed.
End P.
Print Assumptions C10_appendBlock.
