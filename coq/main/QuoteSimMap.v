(* QuoteSimMap.v -- T51 (C09, block-quote clause), stage 2: the position map on trees.
   rB sg eB lpMap : every block start is mapped by sg, every block end by eB (eB keeps negative ends: open blocks stay open),
   every inline entry is moved as a whole by the shift of its start (sg s - s) -- entries of the block layer lie inside one line --
   except the link-part entries of link reference definitions (label / destination / title), which are mapped by lpMap.
   Structural commutation lemmas (right spine, closing of lists). *)
From Coq Require Import List ZArith Lia Bool Arith.
Import ListNotations.
Require Import Base Tree Rdr Link Collect Html Recog LP Rules Starts Driver L2Kind L2CC QuoteSimTree.
Open Scope Z_scope.

Fixpoint mvI (n : Z) (i : inline) : inline :=
  match i with Inl k s e ind r kids => Inl k (s + n) (e + n) ind r (map (mvI n) kids) end.
Definition isLinkPart (k : Z) : bool := (k =? LinkLabelKind) || (k =? LinkDestinationKind) || (k =? LinkTitleKind).

Section Map.
  Variables (sg eB : Z -> Z) (lpMap : inline -> inline).
  Hypothesis eB_neg : forall e, e < 0 -> eB e = e.
  Hypothesis eB_pos : forall e, 0 <= e -> 0 <= eB e.

  Definition rI (u : inline) : inline := if isLinkPart (ikind u) then lpMap u else mvI (sg (istart u) - istart u) u.
  Fixpoint rB (b : block) : block :=
    match b with Blk k s e bk ik a n c l lb => Blk k (sg s) (eB e) (map rB bk) (map rI ik) a n c l lb end.
  Definition rRoot (b : block) : block := set_bkids b (map rB (bkids b)).

  Lemma bkind_rB b : bkind (rB b) = bkind b. Proof. destruct b; reflexivity. Qed.
  Lemma bstart_rB b : bstart (rB b) = sg (bstart b). Proof. destruct b; reflexivity. Qed.
  Lemma bend_rB b : bend (rB b) = eB (bend b). Proof. destruct b; reflexivity. Qed.
  Lemma bkids_rB b : bkids (rB b) = map rB (bkids b). Proof. destruct b; reflexivity. Qed.
  Lemma bik_rB b : bik (rB b) = map rI (bik b). Proof. destruct b; reflexivity. Qed.
  Lemma bindent_rB b : bindent (rB b) = bindent b. Proof. destruct b; reflexivity. Qed.
  Lemma bn_rB b : bn (rB b) = bn b. Proof. destruct b; reflexivity. Qed.
  Lemma bchar_rB b : bchar (rB b) = bchar b. Proof. destruct b; reflexivity. Qed.
  Lemma bloose_rB b : bloose (rB b) = bloose b. Proof. destruct b; reflexivity. Qed.
  Lemma blast_rB b : blastBlank (rB b) = blastBlank b. Proof. destruct b; reflexivity. Qed.
  Lemma isOpen_rB b : isOpen (rB b) = isOpen b.
  Proof.
    unfold isOpen. rewrite bend_rB. destruct (Z.ltb_spec (bend b) 0) as [L|L].
    - rewrite (eB_neg _ L). apply Z.ltb_lt, L.
    - apply Z.ltb_ge, eB_pos, L.
  Qed.
  Lemma bkind_rRoot b : bkind (rRoot b) = bkind b. Proof. destruct b; reflexivity. Qed.
  Lemma bkids_rRoot b : bkids (rRoot b) = map rB (bkids b). Proof. destruct b; reflexivity. Qed.
  Lemma isOpen_rRoot b : isOpen (rRoot b) = isOpen b. Proof. destruct b; reflexivity. Qed.
  Lemma bstart_rRoot b : bstart (rRoot b) = bstart b. Proof. destruct b; reflexivity. Qed.

  Lemma childCount_rB b : childCount (rB b) = childCount b.
  Proof. unfold childCount. rewrite bkids_rB, bik_rB. destruct (bkids b); cbn [map]; unfold len; cbn [length]; rewrite map_length; reflexivity. Qed.

  (* ---- the right spine ---- *)
  Lemma lastBlock_map (ks : list block) :
    match rev (map rB ks) with x :: _ => Some x | [] => None end = option_map rB (match rev ks with x :: _ => Some x | [] => None end).
  Proof. rewrite <- map_rev. destruct (rev ks); reflexivity. Qed.
  Lemma lastBlock_rB b : lastBlock (rB b) = option_map rB (lastBlock b).
  Proof. unfold lastBlock. rewrite bkids_rB. apply lastBlock_map. Qed.
  Lemma lastBlock_rRoot b : lastBlock (rRoot b) = option_map rB (lastBlock b).
  Proof. unfold lastBlock. rewrite bkids_rRoot. apply lastBlock_map. Qed.
  Lemma getAt_rB : forall d b, getAt d (rB b) = option_map rB (getAt d b).
  Proof.
    induction d as [|d IH]; intros b; [reflexivity|]. cbn [getAt]. rewrite lastBlock_rB. destruct (lastBlock b) as [c|]; [apply IH|reflexivity].
  Qed.
  Lemma getAt_rRoot_S d b : getAt (S d) (rRoot b) = option_map rB (getAt (S d) b).
  Proof. cbn [getAt]. rewrite lastBlock_rRoot. destruct (lastBlock b) as [c|]; [apply getAt_rB|reflexivity]. Qed.

  Lemma removelast_map {A B} (f : A -> B) (l : list A) : removelast (map f l) = map f (removelast l).
  Proof. induction l as [|x l IH]; [reflexivity|]. destruct l as [|y l]; [reflexivity|]. cbn [map removelast] in *. rewrite IH. reflexivity. Qed.
  Lemma set_lastBlocks_rB b repl : set_lastBlocks (rB b) (map rB repl) = rB (set_lastBlocks b repl).
  Proof. destruct b as [k s e bk ik a n c l lb]. unfold set_lastBlocks. cbn [rB bkids set_bkids]. rewrite removelast_map, map_app. reflexivity. Qed.
  Lemma set_lastBlocks_rRoot b repl : set_lastBlocks (rRoot b) (map rB repl) = rRoot (set_lastBlocks b repl).
  Proof. destruct b as [k s e bk ik a n c l lb]. unfold set_lastBlocks, rRoot. cbn [bkids set_bkids]. rewrite removelast_map, map_app. reflexivity. Qed.

  Lemma updAt_rB f g : forall d b, (forall x, getAt d b = Some x -> g (rB x) = rB (f x)) -> updAt d g (rB b) = rB (updAt d f b).
  Proof.
    induction d as [|d IH]; intros b H; cbn [updAt]; [apply H; reflexivity|].
    rewrite lastBlock_rB. destruct (lastBlock b) as [c|] eqn:El; [|reflexivity]. cbn [option_map].
    rewrite (IH c) by (intros x Hx; apply H; cbn [getAt]; rewrite El; exact Hx).
    change [rB (updAt d f c)] with (map rB [updAt d f c]). apply set_lastBlocks_rB.
  Qed.
  Lemma updAt_rRoot f g : forall d b, (d = O -> g (rRoot b) = rRoot (f b)) ->
    (forall x, (1 <= d)%nat -> getAt d b = Some x -> g (rB x) = rB (f x)) -> updAt d g (rRoot b) = rRoot (updAt d f b).
  Proof.
    intros [|d] b H0 H1; cbn [updAt]; [apply H0; reflexivity|].
    rewrite lastBlock_rRoot. destruct (lastBlock b) as [c|] eqn:El; [|reflexivity]. cbn [option_map].
    rewrite (updAt_rB f g d c) by (intros x Hx; apply H1; [lia|cbn [getAt]; rewrite El; exact Hx]).
    change [rB (updAt d f c)] with (map rB [updAt d f c]). apply set_lastBlocks_rRoot.
  Qed.

  Lemma bheight_rB : forall b, bheight (rB b) = bheight b.
  Proof.
    fix IH 1. intros [k s e bk ik a n c l lb]. cbn [rB bheight]. f_equal.
    induction bk as [|x bk IHl]; [reflexivity|]. cbn [map fold_right]. rewrite IH, IHl. reflexivity.
  Qed.
  Lemma bheight_rRoot b : bheight (rRoot b) = bheight b.
  Proof. apply bheight_kids_eq. rewrite bkids_rRoot, map_map. apply map_ext. intros x. apply bheight_rB. Qed.
  Lemma tipDepth_rB : forall f b, tipDepth f (rB b) = tipDepth f b.
  Proof.
    induction f as [|f IH]; intros b; [reflexivity|]. cbn [tipDepth]. rewrite lastBlock_rB. destruct (lastBlock b) as [c|]; [|reflexivity].
    cbn [option_map]. rewrite isOpen_rB, IH. reflexivity.
  Qed.
  Lemma tipDepth_rRoot f b : tipDepth f (rRoot b) = tipDepth f b.
  Proof.
    destruct f as [|f]; [reflexivity|]. cbn [tipDepth]. rewrite lastBlock_rRoot. destruct (lastBlock b) as [c|]; [|reflexivity].
    cbn [option_map]. rewrite isOpen_rB, tipDepth_rB. reflexivity.
  Qed.

  (* ---- closing a list ---- *)
  Lemma endsWithBlankLine_rB : forall f b, endsWithBlankLine f (rB b) = endsWithBlankLine f b.
  Proof.
    induction f as [|f IH]; intros b; [reflexivity|]. cbn [endsWithBlankLine]. rewrite blast_rB, bkind_rB, lastBlock_rB.
    destruct (blastBlank b); [reflexivity|]. destruct (negb _); [reflexivity|]. destruct (lastBlock b) as [c|]; [apply IH|reflexivity].
  Qed.
  Lemma existsb_combine_map {A} (g : A * block -> bool) (g' : A * block -> bool) :
    (forall i x, g (i, rB x) = g' (i, x)) -> forall (l : list A) (ks : list block), existsb g (combine l (map rB ks)) = existsb g' (combine l ks).
  Proof.
    intros H. induction l as [|i l IH]; intros ks; [reflexivity|]. destruct ks as [|x ks]; [reflexivity|]. cbn [map combine existsb]. rewrite H, IH. reflexivity.
  Qed.
  Lemma set_bloose_rB b v : set_bloose (rB b) v = rB (set_bloose b v). Proof. destruct b; reflexivity. Qed.
  Lemma onCloseList_rB b : onCloseList (rB b) = rB (onCloseList b).
  Proof.
    unfold onCloseList. cbv zeta. rewrite bloose_rB, bheight_rB, bkids_rB, map_length.
    match goal with |- (if _ || ?x then _ else _) = rB (if _ || ?y then _ else _) => assert (E : x = y) end.
    { apply existsb_combine_map. intros i item. rewrite endsWithBlankLine_rB, bkids_rB, map_length. f_equal.
      apply existsb_combine_map. intros j sb. rewrite endsWithBlankLine_rB. reflexivity. }
    rewrite E. destruct (bloose b || _); [|reflexivity].
    destruct b as [k s e bk ik a n c l lb]. cbn [rB set_bloose set_bkids bkids]. f_equal. rewrite !map_map. apply map_ext. intros x. apply set_bloose_rB.
  Qed.
End Map.
