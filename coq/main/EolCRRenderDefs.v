From Coq Require Import List ZArith Lia Bool.
Import ListNotations.
Require Import Base Tree Rdr Link Collect Inl3a Inl3e Driver Render EolCRDefs EolCRBytes EolCRRdr.
Open Scope Z_scope.

(* ====================================================================================================
   C14, CR clause, renderer: shared definitions.
   RE a b : "b is a, except that some LF of a are CR in b".
   dokI / dokB : the only fact about the parsed tree that the renderer needs -- the text of a link
   destination and of an autolink contains no line ending (normalizeURI would percent-encode LF and CR
   differently).  noEolb (EolCRRdr) : no byte 10 and no byte 13.
   ==================================================================================================== *)
Definition reB (x y : Z) : Prop := y = x \/ (x = 10 /\ y = 13).
Definition RE (a b : bytes) : Prop := Forall2 reB a b.
Definition normEol (l : bytes) : bytes := map (fun c => if c =? 13 then 10 else c) l.

Definition isTC (k : Z) : bool := (k =? TextKind) || (k =? CharacterReferenceKind).
(* a child of a destination: if it is a Text or CharacterReference node, its source text has no line ending *)
Definition kidNoEol (src : bytes) (c : inline) : bool :=
  if isTC (ikind c) then noEolb (sub src (istart c) (iend c)) else true.
(* the first child of an autolink (whatever its kind): its source text has no line ending *)
Definition spanNoEol (src : bytes) (c : inline) : bool := noEolb (sub src (istart c) (iend c)).
Fixpoint dokI (src : bytes) (i : inline) : bool :=
  match i with Inl k s e _ _ ks =>
    (if k =? LinkDestinationKind then forallb (kidNoEol src) ks else true) &&
    (if k =? AutolinkKind then match ks with c :: _ => spanNoEol src c | [] => true end else true) &&
    forallb (dokI src) ks
  end.
Fixpoint dokB (src : bytes) (b : block) : bool :=
  match b with Blk _ _ _ bk ik _ _ _ _ _ => forallb (dokI src) ik && forallb (dokB src) bk end.
Definition destOK_statement : Prop :=
  forall input, forallb (fun r => dokB (rb_src r) (rb_blk r)) (fst (parseFull input)) = true.

(* the two halves, before the inline pass *)
(* (a) the inline parser, on a leaf block whose entries satisfy the conditions of InlineSpans.parseInlines_spans *)
(* (b) the block layer: the children of every LinkDestination entry of every block *)
Definition destEntry (src : bytes) (u : inline) : bool :=
  if ikind u =? LinkDestinationKind then forallb (kidNoEol src) (ikids u) else true.
Fixpoint destB (src : bytes) (b : block) : bool :=
  match b with Blk _ _ _ bk ik _ _ _ _ _ => forallb (destEntry src) ik && forallb (destB src) bk end.
Definition destBlocks_statement : Prop :=
  forall input, forallb (fun r => destB (rb_src r) (rb_blk r)) (fst (parseBlocks input)) = true.
