From Coq Require Import List ZArith Lia Bool.
Import ListNotations.
Require Import Base Tree Rdr Link Collect Html Recog LP Rules Starts Driver.
Open Scope Z_scope.

(* the line environment (source, line start, line) never changes during a line *)
Definition envOf (p : lp) : bytes * Z * bytes := (source p, lineStart p, line p).

Lemma env_opened p : envOf (if state p =? stOpening then withState p stOpenMatched else p) = envOf p.
Proof. destruct (_ =? _); reflexivity. Qed.
Lemma env_advance p n : envOf (advance p n) = envOf p.
Proof.
  unfold advance. destruct (n <? 0); [reflexivity|]. destruct (n =? 0); [reflexivity|]. cbv zeta.
  destruct (_ <? _); [unfold panic; cbn; apply env_opened|]. unfold withCursor, envOf. cbn. fold (envOf (if state p =? stOpening then withState p stOpenMatched else p)).
  apply env_opened.
Qed.
Lemma env_consumeLine p : envOf (consumeLine p) = envOf p.
Proof.
  unfold consumeLine. cbv zeta. destruct (_ || _); [apply env_advance|]. destruct (_ =? stDescending); apply env_advance.
Qed.
Lemma env_consumeIndent_loop : forall fuel p n, envOf (consumeIndent_loop fuel p n) = envOf p.
Proof.
  induction fuel as [|f IH]; intros p n; [reflexivity|]. cbn [consumeIndent_loop]. destruct (n <=? 0); [reflexivity|]. cbv zeta.
  set (p0 := if state p =? stOpening then withState p stOpenMatched else p). assert (E0 : envOf p0 = envOf p) by apply env_opened.
  destruct (_ && (_ =? 32)); [rewrite IH; exact E0|]. destruct (_ && (_ =? 9)); [|exact E0].
  destruct (n <? _); [exact E0|rewrite IH; exact E0].
Qed.
Lemma env_consumeIndent p n : envOf (consumeIndent p n) = envOf p. Proof. apply env_consumeIndent_loop. Qed.
Lemma env_updCont p f : envOf (updCont p f) = envOf p. Proof. reflexivity. Qed.
Lemma env_closeLastChildAt p d e : envOf (closeLastChildAt p d e) = envOf p. Proof. reflexivity. Qed.
Lemma env_withCont p c : envOf (withCont p c) = envOf p. Proof. reflexivity. Qed.
Lemma env_withState p c : envOf (withState p c) = envOf p. Proof. reflexivity. Qed.
Lemma env_withRoot p c : envOf (withRoot p c) = envOf p. Proof. reflexivity. Qed.
Lemma env_panic p c : envOf (panic p c) = envOf p. Proof. reflexivity. Qed.
Lemma env_openBlock_up : forall fuel p kind, envOf (openBlock_up fuel p kind) = envOf p.
Proof.
  induction fuel as [|f IH]; intros p kind; [reflexivity|]. cbn [openBlock_up]. destruct (canContain _ _); [reflexivity|].
  destruct (cdepth p); [reflexivity|]. rewrite IH. reflexivity.
Qed.
Lemma env_openBlock p kind : envOf (openBlock p kind) = envOf p.
Proof.
  unfold openBlock. destruct (_ || _); [reflexivity|]. cbv zeta.
  rewrite env_withCont, env_updCont, env_closeLastChildAt, env_openBlock_up. apply env_opened.
Qed.
Lemma env_endBlock p : envOf (endBlock p) = envOf p.
Proof.
  unfold endBlock. destruct (_ || _); [reflexivity|]. cbv zeta. destruct (cdepth _); [rewrite env_panic; apply env_opened|].
  rewrite env_withCont, env_closeLastChildAt. apply env_opened.
Qed.
Lemma env_collectInline p kind n : envOf (collectInline p kind n) = envOf p.
Proof.
  unfold collectInline. destruct (_ =? stDescendTerminated); [reflexivity|]. cbv zeta.
  rewrite env_updCont, env_advance. destruct (0 <? _); [rewrite env_updCont, env_advance|]; apply env_opened.
Qed.
Lemma env_matchRule p : envOf (snd (matchRule p)) = envOf p.
Proof.
  unfold matchRule. cbv zeta. destruct (_ || _); [reflexivity|].
  destruct (_ =? ListItemKind).
  { unfold matchListItem. destruct (isRestBlank p); [destruct (negb _); [reflexivity|apply env_consumeIndent]|]. destruct (_ <=? _); [apply env_consumeIndent|reflexivity]. }
  destruct (_ =? BlockQuoteKind).
  { unfold matchBlockQuote. cbv zeta. destruct (_ <=? _); [reflexivity|]. destruct (negb _); [reflexivity|]. cbn [snd]. unfold eatQuoteMarker. cbv zeta.
    destruct (0 <? _); [rewrite env_consumeIndent|]; rewrite env_advance; apply env_consumeIndent. }
  destruct (_ =? FencedCodeBlockKind).
  { unfold matchFenced. cbv zeta. destruct (if _ <? _ then _ else false); cbn [snd]; [apply env_consumeLine|apply env_consumeIndent]. }
  destruct (_ =? IndentedCodeBlockKind).
  { unfold matchIndented. cbv zeta. destruct (_ <? _); [destruct (negb _)|]; cbn [snd]; try apply env_consumeIndent; reflexivity. }
  destruct (_ =? HTMLBlockKind); [|reflexivity].
  unfold matchHTML. destruct (htmlEnd _ _); [|reflexivity]. destruct (isRestBlank _); [reflexivity|]. cbn [snd]. rewrite env_consumeLine. apply env_collectInline.
Qed.
Lemma env_descend_loop : forall fuel p d, envOf (snd (descend_loop fuel p d)) = envOf p.
Proof.
  induction fuel as [|f IH]; intros p d; [reflexivity|]. cbn [descend_loop]. cbv zeta.
  destruct (getAt (S d) (root p)) as [c|]; [|reflexivity]. destruct (negb (isOpen c)); [reflexivity|].
  destruct (negb (hasMatch (bkind c))); [reflexivity|].
  pose proof (env_matchRule (withState (withCont p (Some (S d))) stDescending)) as Hm.
  destruct (matchRule _) as [ok p2]. cbn [snd] in Hm.
  destruct (_ =? stDescendTerminated); [cbn [snd]; rewrite env_withCont, env_closeLastChildAt; exact Hm|].
  destruct (negb ok); [cbn [snd]; rewrite env_withCont; exact Hm|]. rewrite IH. exact Hm.
Qed.

Ltac envs :=
  repeat first [rewrite env_consumeLine | rewrite env_endBlock | rewrite env_collectInline | rewrite env_advance | rewrite env_updCont
               | rewrite env_openBlock | rewrite env_consumeIndent ]; try reflexivity.

Lemma env_startBlockQuote p : envOf (startBlockQuote p) = envOf p.
Proof. unfold startBlockQuote. cbv zeta. destruct (_ <=? _); [reflexivity|]. destruct (negb _); [reflexivity|]. destruct (0 <? _); envs. Qed.
Lemma env_startATX p : envOf (startATX p) = envOf p.
Proof. unfold startATX. cbv zeta. destruct (_ <=? _); [reflexivity|]. destruct (parseATXHeading _) as [[l c] e]. destruct (l <? 1); [reflexivity|]. envs. Qed.
Lemma env_startFenced p : envOf (startFenced p) = envOf p.
Proof.
  unfold startFenced. cbv zeta. destruct (_ <=? _); [reflexivity|]. destruct (parseCodeFence _) as [[[a b] c] d]. destruct (b =? 0); [reflexivity|].
  destruct (spanValid _); envs.
Qed.
Lemma env_startHTML p : envOf (startHTML p) = envOf p.
Proof.
  unfold startHTML. cbv zeta. destruct (_ <=? _); [reflexivity|]. destruct (negb _); [reflexivity|]. destruct (_ <? 0); [reflexivity|].
  destruct (negb _ && _); [reflexivity|]. destruct (htmlEnd _ _); envs.
Qed.
Lemma env_startSetext p : envOf (startSetext p) = envOf p.
Proof.
  unfold startSetext. cbv zeta. destruct (negb _); [reflexivity|]. destruct (_ <=? _); [reflexivity|]. destruct (_ =? 0); [reflexivity|].
  destruct (negb _); [reflexivity|]. envs.
Qed.
Lemma env_startThematic p : envOf (startThematic p) = envOf p.
Proof. unfold startThematic. cbv zeta. destruct (_ <=? _); [reflexivity|]. destruct (_ <? 0); [reflexivity|]. envs. Qed.
Lemma env_startIndented p : envOf (startIndented p) = envOf p.
Proof. unfold startIndented. destruct (_ || _ || _); [reflexivity|]. envs. Qed.
Lemma env_startListItem p : envOf (startListItem p) = envOf p.
Proof.
  unfold startListItem. cbv zeta. destruct (_ <=? _); [reflexivity|]. destruct (parseListMarker _) as [[a b] c].
  destruct (_ || _); [reflexivity|]. destruct (_ && _); [reflexivity|].
  set (p1 := consumeIndent p (indent p)).
  set (p2 := if negb (containerKind p1 =? ListKind) || negb (_ =? a) then _ else p1).
  assert (E2 : envOf p2 = envOf p) by (unfold p2, p1; destruct (_ || _); envs).
  set (q := endBlock _). assert (Eq : envOf q = envOf p) by (unfold q; envs; exact E2).
  destruct (isRestBlank q); [envs; exact Eq|]. destruct (indent q <? 1); [envs; exact Eq|]. destruct (4 <? indent q); envs; exact Eq.
Qed.
Lemma env_tryStarts : forall fs p, (forall f, In f fs -> forall q, envOf (f q) = envOf q) -> envOf (snd (tryStarts fs p)) = envOf p.
Proof.
  induction fs as [|f r IH]; intros p Hf; [reflexivity|]. cbn [tryStarts]. cbv zeta.
  destruct (_ || _); [cbn [snd]; rewrite Hf by (left; reflexivity); reflexivity|].
  rewrite IH by (intros g Hg; apply Hf; right; exact Hg). rewrite Hf by (left; reflexivity). reflexivity.
Qed.
Lemma env_blockStarts f : In f blockStarts -> forall q, envOf (f q) = envOf q.
Proof.
  unfold blockStarts. intros H q. repeat (destruct H as [<-|H]; [first [apply env_startBlockQuote|apply env_startATX|apply env_startFenced|apply env_startHTML
    |apply env_startSetext|apply env_startThematic|apply env_startListItem|apply env_startIndented]|]). destruct H.
Qed.
Lemma env_opening_loop : forall fuel p, envOf (snd (opening_loop fuel p)) = envOf p.
Proof.
  induction fuel as [|f IH]; intros p; [reflexivity|]. cbn [opening_loop]. destruct (_ || _); [|reflexivity].
  pose proof (env_tryStarts blockStarts p env_blockStarts) as H. destruct (tryStarts blockStarts p) as [[|] p1]; cbn [snd] in *; [|exact H].
  destruct (_ =? stLineConsumed); [exact H|rewrite IH; exact H].
Qed.
Lemma env_deferredClose p : envOf (deferredClose p) = envOf p.
Proof. unfold deferredClose. cbv zeta. destruct (_ && _); reflexivity. Qed.
Lemma env_openNewBlocks p am : envOf (snd (openNewBlocks p am)) = envOf p.
Proof.
  unfold openNewBlocks. destruct (_ =? 0); [reflexivity|]. pose proof (env_opening_loop (S (length (line p))) p) as H.
  destruct (opening_loop _ p) as [ht p1]. cbn [snd] in H. destruct am; cbn [snd]; [exact H|rewrite env_deferredClose; exact H].
Qed.
