(* QLnCollect.v -- T64 (renderer): IS5a.collect_kindsC with one more fact about every character reference collected from the source:
   its bytes are character-reference bytes (QLnDefs.crb), in particular it contains no line feed. *)
From Coq Require Import List ZArith Lia Bool.
Import ListNotations.
Require Import Base Tables Utf8 Tree Rdr Link Collect Inl3a Props Leaf3e Leaf3n ShapesBase ShapesA ShapesR GI0 GI1 IS2 IS1 IS5a QLnDefs.
Open Scope Z_scope.

Section CollectL.
  Variable src : bytes.

  Lemma charref_atL p lim en : 0 <= p -> parseCharacterEscape (sub src p lim) = en -> 0 <= en -> nOK src CharacterReferenceKind p (p + en) = true.
  Proof.
    intros Hp H He. destruct (parseCharacterEscape_shape _ en H He) as (A0 & A1 & A2 & A3).
    pose proof (len_sub_le src p lim) as Hl1. rewrite len_sub in A3 by lia.
    apply charref_shape; try lia.
    - rewrite at_sub in A0 by lia. replace (p + 0) with p in A0 by lia. exact A0.
    - rewrite at_sub in A1 by lia. replace (p + en - 1) with (p + (en - 1)) by lia. exact A1.
  Qed.

  Definition freshL (tk : Z) (spans : list inline) (x : inline) : Prop :=
    (exists s e, x = mkI tk s e) \/ (exists s e, x = mkI CharacterReferenceKind s e /\ nOK src CharacterReferenceKind s e = true /\ rng crb src s e = true) \/
    (In x spans /\ ikind x = IndentKind).

  Lemma collect_kindsL tk esc : forall fuel r e ps acc spans, r_src r = src ->
    sublist (r_spans r) spans -> Forall (freshL tk spans) acc ->
    Forall (freshL tk spans) (fst (collect_loop fuel r e tk esc ps acc)).
  Proof.
    induction fuel as [|f IH]; intros r e ps acc spans Hsrc Hs Hacc; [exact Hacc|].
    cbn [collect_loop]. destruct (e <=? r_pos r); [exact Hacc|].
    pose proof (curNode_spans r) as Hc. pose proof (curNode_in r) as Hin. pose proof (curNode_src r) as Hcs.
    destruct (curNode r) as [cn r0]. cbn [fst snd] in Hc, Hin, Hcs.
    assert (Hs0 : sublist (r_spans r0) spans) by (eapply sublist_trans; eassumption).
    assert (Hsrc0 : r_src r0 = src) by congruence.
    assert (Hfresh : forall a b, freshL tk spans (mkI tk a b)) by (intros a b; left; eauto).
    assert (Hadd : forall (c : bool) l a b, Forall (freshL tk spans) l ->
              Forall (freshL tk spans) (if c then l ++ [mkI tk a b] else l)).
    { intros c l a b Hl. destruct c; [apply Forall_app; split; [exact Hl|constructor; [apply Hfresh|constructor]]|exact Hl]. }
    destruct (okind cn =? IndentKind) eqn:Ek.
    - destruct cn as [node|]; [|cbn in Ek; discriminate].
      apply IH.
      + rewrite skipSameNode_src. exact Hsrc0.
      + eapply sublist_trans; [apply skipSameNode_spans|exact Hs0].
      + apply Forall_app. split; [apply Hadd; exact Hacc|]. constructor; [|constructor].
        right. right. split; [apply Hs, Hin; reflexivity|]. cbn [okind] in Ek. apply Z.eqb_eq in Ek. exact Ek.
    - assert (Htail : forall r' ps' acc', r_src r' = src -> sublist (r_spans r') spans -> Forall (freshL tk spans) acc' ->
                Forall (freshL tk spans) (fst (if e <=? r_pos r' then (acc', ps') else let '(ok, r1) := next r' in
                   if negb ok then (acc', ps') else
                   if jumped r1 then
                     collect_loop f r1 e tk esc (r_pos r1) (if ps' <=? r_prev r1 then acc' ++ [mkI tk ps' (r_prev r1 + 1)] else acc')
                   else collect_loop f r1 e tk esc ps' acc'))).
      { intros r' ps' acc' Hsrc' Hs' Hacc'. destruct (e <=? r_pos r'); [exact Hacc'|]. pose proof (next_spans r') as Hn. pose proof (next_src r') as Hns.
        destruct (next r') as [ok r1]. cbn [snd] in Hn, Hns.
        destruct (negb ok); [exact Hacc'|].
        assert (Hs1' : sublist (r_spans r1) spans) by (eapply sublist_trans; eassumption).
        assert (Hsrc1' : r_src r1 = src) by congruence.
        destruct (jumped r1); apply IH; try assumption. apply Hadd; exact Hacc'. }
      destruct (esc && (okind cn =? UnparsedKind)); [|apply Htail; assumption].
      pose proof (current_spans r0) as Hcur. pose proof (current_src r0) as Hcurs. destruct (current r0) as [c r1]. cbn [snd] in Hcur, Hcurs.
      assert (Hs1 : sublist (r_spans r1) spans) by (eapply sublist_trans; eassumption).
      assert (Hsrc1 : r_src r1 = src) by congruence.
      destruct (c =? 92).
      { pose proof (next_spans r1) as Hn. pose proof (next_src r1) as Hns. destruct (next r1) as [ok r2]. cbn [snd] in Hn, Hns.
        assert (Hs2 : sublist (r_spans r2) spans) by (eapply sublist_trans; eassumption).
        assert (Hsrc2 : r_src r2 = src) by congruence.
        destruct (ok && _ && _); apply Htail; try assumption. apply Hadd; exact Hacc. }
      destruct (c =? 38); [|apply Htail; assumption].
      pose proof (remaining_spans r1) as Hrem. pose proof (remaining_src r1) as Hrems.
      destruct (remainingNodeBytes r1) as [rem r2] eqn:Erem. cbn [snd] in Hrem, Hrems.
      destruct (remaining_spec r1 rem r2 Erem) as (Hpos2 & Hremf).
      assert (Hs2 : sublist (r_spans r2) spans) by (eapply sublist_trans; eassumption).
      assert (Hsrc2 : r_src r2 = src) by congruence.
      destruct (Z.leb_spec 0 (parseCharacterEscape rem)) as [Hen|Hen]; [|apply Htail; assumption].
      pose proof (nextN_spans (Z.to_nat (parseCharacterEscape rem - 1)) r2) as HnN.
      pose proof (nextN_src (Z.to_nat (parseCharacterEscape rem - 1)) r2) as HnNs.
      pose proof (next_spans (nextN (Z.to_nat (parseCharacterEscape rem - 1)) r2)) as Hn.
      pose proof (next_src (nextN (Z.to_nat (parseCharacterEscape rem - 1)) r2)) as Hns.
      destruct (next (nextN (Z.to_nat (parseCharacterEscape rem - 1)) r2)) as [ok r4]. cbn [snd] in Hn, Hns.
      assert (Hacc2 : Forall (freshL tk spans)
                ((if ps <? r_pos r2 then acc ++ [mkI tk ps (r_pos r2)] else acc) ++
                 [mkI CharacterReferenceKind (r_pos r2) (r_pos r2 + parseCharacterEscape rem)])).
      { apply Forall_app. split; [apply Hadd; exact Hacc|constructor; [|constructor]]. right. left. eexists _, _. split; [reflexivity|].
        destruct Hremf as [->|(lim & Hp & ->)]; [exfalso; cbn in Hen; lia|].
        rewrite Hpos2. rewrite Hsrc1 in *. split; [apply (charref_atL _ lim); [exact Hp|reflexivity|exact Hen]|apply (charref_crb src _ lim); [exact Hp|reflexivity|exact Hen]]. }
      destruct (negb ok); [exact Hacc2|].
      apply IH; [congruence| |exact Hacc2]. eapply sublist_trans; [exact Hn|]. eapply sublist_trans; [exact HnN|exact Hs2].
  Qed.

  Lemma collectTextNodes_kindsL tk esc fuel r e spans : r_src r = src -> sublist (r_spans r) spans ->
    Forall (freshL tk spans) (collectTextNodes fuel r e tk esc).
  Proof.
    intros Hsrc Hs. unfold collectTextNodes.
    pose proof (collect_kindsL tk esc fuel r e (r_pos r) [] spans Hsrc Hs (Forall_nil _)) as H.
    destruct (collect_loop fuel r e tk esc (r_pos r) []) as [acc ps]. cbn [fst] in H.
    destruct (ps <? e); [|exact H]. apply Forall_app. split; [exact H|]. constructor; [left; eauto|constructor].
  Qed.

End CollectL.
