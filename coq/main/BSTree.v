From Coq Require Import List ZArith Lia Bool.
Import ListNotations.
Require Import Base Tree Rdr Link LP Rules L2Kind L2CC BSDef BSRdr.
Open Scope Z_scope.

(* ---- the span invariant, relative to an upper bound M ---- *)
Section AllP.
  Context {A : Type} (P : A -> Prop).
  Fixpoint allP (l : list A) : Prop := match l with [] => True | x :: r => P x /\ allP r end.
End AllP.
(* entries ascending from lo, all at most hi *)
Fixpoint ascI (lo hi : Z) (ik : list inline) : Prop :=
  match ik with [] => lo <= hi | u :: r => lo <= istart u /\ istart u <= iend u /\ ascI (iend u) hi r end.
(* children of a block with span [.., e): each starts at or after the running bound, ends inside a closed parent *)
Fixpoint chain (lo e : Z) (l : list block) {struct l} : Prop :=
  match l with
  | [] => True
  | c :: r => lo <= bstart c /\ (e < 0 \/ bend c <= e) /\ chain (Z.max (bstart c) (bend c)) e r
  end.
Fixpoint sp (M : Z) (b : block) : Prop :=
  match b with Blk K s e bk ik _ _ _ _ _ =>
    0 <= s <= M /\ (e < 0 \/ s <= e <= M) /\
    (e < 0 -> K <> SetextHeadingKind /\ (K = ParagraphKind -> ascI s M ik)) /\
    chain s e bk /\ allP (sp M) bk
  end.

Lemma sp_eq M b : sp M b <->
  (0 <= bstart b <= M /\ (bend b < 0 \/ bstart b <= bend b <= M) /\
   (bend b < 0 -> bkind b <> SetextHeadingKind /\ (bkind b = ParagraphKind -> ascI (bstart b) M (bik b))) /\
   chain (bstart b) (bend b) (bkids b) /\ allP (sp M) (bkids b)).
Proof. destruct b; reflexivity. Qed.

Lemma allP_app {A} (P : A -> Prop) a b : allP P (a ++ b) <-> allP P a /\ allP P b.
Proof. induction a as [|x a IH]; cbn [app allP]; [tauto|]. rewrite IH. tauto. Qed.
Lemma allP_In {A} (P : A -> Prop) l x : allP P l -> In x l -> P x.
Proof. induction l as [|y l IH]; [intros _ []|]. intros [HA HB] [->|H]; [exact HA|apply IH; assumption]. Qed.
Lemma allP_intro {A} (P : A -> Prop) l : (forall x, In x l -> P x) -> allP P l.
Proof. induction l as [|y l IH]; intros H; [exact I|]. split; [apply H; left; reflexivity|apply IH; intros x Hx; apply H; right; exact Hx]. Qed.
Lemma allP_impl {A} (P R : A -> Prop) l : (forall x, P x -> R x) -> allP P l -> allP R l.
Proof. intros H. induction l as [|y l IH]; [tauto|]. intros [HA HB]. split; [apply H, HA|apply IH, HB]. Qed.
Lemma allP_map {A B} (P : B -> Prop) (f : A -> B) l : allP P (map f l) <-> allP (fun x => P (f x)) l.
Proof. induction l as [|y l IH]; cbn [map allP]; [tauto|]. rewrite IH. tauto. Qed.

Lemma ascI_le lo hi ik : ascI lo hi ik -> lo <= hi.
Proof. revert lo. induction ik as [|u r IH]; intros lo H; [exact H|]. destruct H as (A & B & C). specialize (IH _ C). lia. Qed.
Lemma ascI_mono lo hi hi' ik : hi <= hi' -> ascI lo hi ik -> ascI lo hi' ik.
Proof. intros Hh. revert lo. induction ik as [|u r IH]; intros lo H; cbn [ascI] in *; [lia|]. destruct H as (A & B & C). auto. Qed.
Lemma ascI_snoc lo hi hi' ik u : ascI lo hi ik -> hi <= istart u -> istart u <= iend u -> iend u <= hi' -> ascI lo hi' (ik ++ [u]).
Proof.
  intros H A B C. revert lo H. induction ik as [|v r IH]; intros lo H; cbn [app ascI] in *; [lia|].
  destruct H as (H1 & H2 & H3). auto.
Qed.
Lemma ascI_all lo hi ik u : ascI lo hi ik -> In u ik -> lo <= istart u /\ istart u <= iend u /\ iend u <= hi.
Proof.
  revert lo. induction ik as [|v r IH]; intros lo H Hin; [destruct Hin|]. destruct H as (H1 & H2 & H3).
  pose proof (ascI_le _ _ _ H3). destruct Hin as [->|Hin]; [lia|]. specialize (IH _ H3 Hin). lia.
Qed.
Lemma ascI_sorted lo hi ik : ascI lo hi ik -> sortedS ik.
Proof.
  revert lo. induction ik as [|v r IH]; intros lo H; [exact I|]. destruct H as (H1 & H2 & H3). split; [|eapply IH; exact H3].
  intros j Hj. pose proof (ascI_all _ _ _ _ H3 Hj). lia.
Qed.

(* running bound after a list of children *)
Fixpoint run (lo : Z) (l : list block) : Z := match l with [] => lo | c :: r => run (Z.max (bstart c) (bend c)) r end.
Lemma chain_lo lo lo' e l : lo' <= lo -> chain lo e l -> chain lo' e l.
Proof. destruct l as [|c r]; [tauto|]. intros H (A & B & C). repeat split; try assumption; lia. Qed.
Lemma chain_app lo e a b : chain lo e (a ++ b) <-> chain lo e a /\ chain (run lo a) e b.
Proof. revert lo. induction a as [|c a IH]; intros lo; cbn [app chain run]; [tauto|]. rewrite IH. tauto. Qed.
Lemma run_app lo a b : run lo (a ++ b) = run (run lo a) b.
Proof. revert lo. induction a as [|c a IH]; intros lo; cbn [app run]; [reflexivity|apply IH]. Qed.
Lemma chain_replace_last lo e a c L : chain lo e (a ++ [c]) -> chain (bstart c) e L -> chain lo e (a ++ L).
Proof.
  rewrite !chain_app. intros [A B] HL. split; [exact A|]. cbn [chain] in B. eapply chain_lo; [|exact HL]. tauto.
Qed.
Lemma chain_end e e' lo l : (e' < 0 \/ (forall c, In c l -> bend c <= e')) -> chain lo e l -> chain lo e' l.
Proof.
  revert lo. induction l as [|c r IH]; intros lo H Hc; [exact I|]. destruct Hc as (A & B & C).
  split; [exact A|split]; [destruct H as [H|H]; [left; exact H|right; apply H; left; reflexivity]|].
  apply IH; [|exact C]. destruct H as [H|H]; [left; exact H|right; intros x Hx; apply H; right; exact Hx].
Qed.
Lemma run_le M lo l : lo <= M -> (forall c, In c l -> bstart c <= M /\ bend c <= M) -> run lo l <= M.
Proof.
  revert lo. induction l as [|c r IH]; intros lo H Hl; [exact H|]. cbn [run]. apply IH.
  - destruct (Hl c (or_introl eq_refl)). lia.
  - intros x Hx. apply Hl. right. exact Hx.
Qed.

Lemma sp_bounds M b : sp M b -> 0 <= bstart b <= M /\ bend b <= M.
Proof. rewrite sp_eq. intros (A & B & _). lia. Qed.
Lemma allP_sp_bounds M l : allP (sp M) l -> forall c, In c l -> bstart c <= M /\ bend c <= M.
Proof. intros H c Hc. pose proof (sp_bounds M c (allP_In _ _ _ H Hc)). lia. Qed.

Lemma sp_mono M M' : M <= M' -> forall b, sp M b -> sp M' b.
Proof.
  intros Hle. fix IH 1. intros [K s e bk ik a n c l lb]. cbn [sp]. intros (A & B & C & D & E).
  split; [lia|]. split; [lia|]. split; [|split; [exact D|]].
  - intros He. destruct (C He) as [C1 C2]. split; [exact C1|]. intros Hk. eapply ascI_mono; [exact Hle|auto].
  - clear D. induction bk as [|x r IHr]; [exact I|]. destruct E as [E1 E2]. split; [apply IH, E1|apply IHr, E2].
Qed.
Lemma allP_sp_mono M M' l : M <= M' -> allP (sp M) l -> allP (sp M') l.
Proof. intros H. apply allP_impl. apply sp_mono, H. Qed.

(* setters that keep the span, the kind, the entries and the children *)
Lemma sp_set_bn M b v : sp M (set_bn b v) <-> sp M b. Proof. destruct b; reflexivity. Qed.
Lemma sp_set_bchar M b v : sp M (set_bchar b v) <-> sp M b. Proof. destruct b; reflexivity. Qed.
Lemma sp_set_bindent M b v : sp M (set_bindent b v) <-> sp M b. Proof. destruct b; reflexivity. Qed.
Lemma sp_set_bloose M b v : sp M (set_bloose b v) <-> sp M b. Proof. destruct b; reflexivity. Qed.
Lemma sp_set_blast M b v : sp M (set_blast b v) <-> sp M b. Proof. destruct b; reflexivity. Qed.

Lemma bstart_set_bkids b v : bstart (set_bkids b v) = bstart b. Proof. destruct b; reflexivity. Qed.
Lemma bend_set_bkids b v : bend (set_bkids b v) = bend b. Proof. destruct b; reflexivity. Qed.
Lemma bik_set_bkids b v : bik (set_bkids b v) = bik b. Proof. destruct b; reflexivity. Qed.
Lemma bkids_set_bkids b v : bkids (set_bkids b v) = v. Proof. destruct b; reflexivity. Qed.
Lemma bstart_set_lastBlocks b v : bstart (set_lastBlocks b v) = bstart b. Proof. destruct b; reflexivity. Qed.
Lemma bend_set_lastBlocks b v : bend (set_lastBlocks b v) = bend b. Proof. destruct b; reflexivity. Qed.

Lemma sp_set_bkids M b ks : sp M b -> chain (bstart b) (bend b) ks -> allP (sp M) ks ->
  (bend b < 0 -> bkind b <> ParagraphKind \/ True) -> sp M (set_bkids b ks).
Proof.
  rewrite !sp_eq. rewrite bstart_set_bkids, bend_set_bkids, bkind_set_bkids, bik_set_bkids, bkids_set_bkids. tauto.
Qed.

Lemma lastBlock_split b c : lastBlock b = Some c -> bkids b = removelast (bkids b) ++ [c].
Proof.
  unfold lastBlock. intros H. destruct (rev (bkids b)) as [|x r] eqn:Er; [discriminate|]. inversion H; subst.
  assert (E : bkids b = rev r ++ [c]) by (rewrite <- (rev_involutive (bkids b)), Er; reflexivity).
  rewrite E at 1. rewrite E, removelast_last. reflexivity.
Qed.

Lemma sp_lastBlock M b c : sp M b -> lastBlock b = Some c -> sp M c.
Proof. rewrite sp_eq. intros (_ & _ & _ & _ & H) Hl. eapply allP_In; [exact H|eapply lastBlock_In; exact Hl]. Qed.

(* replace the last child c by a list L whose members start at or after c and end inside the parent *)
Lemma sp_set_lastBlocks M b c L : sp M b -> lastBlock b = Some c -> allP (sp M) L -> chain (bstart c) (bend b) L ->
  sp M (set_lastBlocks b L).
Proof.
  intros Hb Hl HL Hc. unfold set_lastBlocks. pose proof (lastBlock_split b c Hl) as Es.
  pose proof Hb as Hb'. rewrite sp_eq in Hb'. destruct Hb' as (_ & _ & _ & D & E).
  apply sp_set_bkids; [exact Hb| | |tauto].
  - rewrite Es in D. eapply chain_replace_last; eassumption.
  - rewrite Es in E. apply allP_app in E. apply allP_app. tauto.
Qed.
(* the last child's own membership facts *)
Lemma last_in_chain b c : chain (bstart b) (bend b) (bkids b) -> lastBlock b = Some c ->
  bstart b <= bstart c /\ (bend b < 0 \/ bend c <= bend b).
Proof.
  intros D Hl. rewrite (lastBlock_split b c Hl) in D. apply chain_app in D. destruct D as [D1 D2]. cbn [chain] in D2.
  split; [|tauto]. destruct D2 as (A & _).
  assert (G : forall lo l, chain lo (bend b) l -> lo <= run lo l).
  { intros lo l. revert lo. induction l as [|x l IH]; intros lo Hc; cbn [run]; [lia|]. destruct Hc as (P1 & _ & P3). specialize (IH _ P3). lia. }
  specialize (G _ _ D1). lia.
Qed.

(* right-spine update that keeps start and end of the updated block *)
Lemma sp_updAt_at M f : forall d b, sp M b ->
  (forall x, getAt d b = Some x -> sp M x -> sp M (f x) /\ bstart (f x) = bstart x /\ bend (f x) = bend x) ->
  sp M (updAt d f b) /\ bstart (updAt d f b) = bstart b /\ bend (updAt d f b) = bend b.
Proof.
  induction d as [|d IH]; intros b Hb Hf; [apply Hf; [reflexivity|exact Hb]|]. cbn [updAt].
  destruct (lastBlock b) as [c|] eqn:El; [|tauto].
  destruct (IH c (sp_lastBlock M b c Hb El)) as (A & B & C).
  { intros x Hx. apply Hf. cbn [getAt]. rewrite El. exact Hx. }
  split; [|split; [apply bstart_set_lastBlocks|apply bend_set_lastBlocks]].
  eapply sp_set_lastBlocks; [exact Hb|exact El|split; [exact A|exact I]|].
  cbn [chain]. rewrite B, C. pose proof Hb as Hb'. rewrite sp_eq in Hb'. destruct Hb' as (_ & _ & _ & D & _).
  destruct (last_in_chain b c D El) as [_ P]. repeat split; [lia|exact P].
Qed.

Lemma sp_getAt M : forall d b x, sp M b -> getAt d b = Some x -> sp M x.
Proof.
  induction d as [|d IH]; intros b x Hb H; [inversion H; subst; exact Hb|]. cbn [getAt] in H.
  destruct (lastBlock b) as [c|] eqn:El; [|discriminate]. eapply IH; [|exact H]. eapply sp_lastBlock; eassumption.
Qed.

(* the checker follows from the invariant *)
Lemma chain_inside s e l : chain s e l -> (e < 0 \/ s <= e) -> forallb (inside s e) l = true /\ ordered l = true.
Proof.
  intros H _. assert (G : forall lo, s <= lo -> chain lo e l -> forallb (inside s e) l = true /\ ordered l = true).
  { clear H. induction l as [|c r IH]; intros lo Hlo Hc; [split; reflexivity|]. destruct Hc as (A & B & C).
    destruct (IH (Z.max (bstart c) (bend c)) ltac:(lia) C) as [I1 I2]. split.
    - cbn [forallb]. rewrite I1, andb_true_r. unfold inside. apply andb_true_iff. split; [apply Z.leb_le; lia|].
      apply orb_true_iff. destruct B as [B|B]; [left; apply Z.ltb_lt; exact B|right; apply Z.leb_le; exact B].
    - destruct r as [|c2 r]; [reflexivity|]. change (ordered (c :: c2 :: r)) with (((bend c <? 0) || (bend c <=? bstart c2)) && ordered (c2 :: r)).
      rewrite I2, andb_true_r. destruct C as (C1 & _). apply orb_true_iff. destruct (Z.ltb_spec (bend c) 0); [left; reflexivity|right; apply Z.leb_le; lia]. }
  apply (G s); [lia|exact H].
Qed.
Lemma sp_bspans M : forall b, sp M b -> bspans b = true.
Proof.
  fix IH 1. intros [K s e bk ik a n c l lb]. cbn [sp bspans]. intros (A & B & _ & D & E).
  destruct (chain_inside s e bk D ltac:(lia)) as [I1 I2]. rewrite I1, I2.
  replace ((e <? 0) || (s <=? e)) with true.
  2:{ symmetry. apply orb_true_iff. destruct B as [B|B]; [left; apply Z.ltb_lt; exact B|right; apply Z.leb_le; lia]. }
  cbn [andb]. clear D I1 I2. induction bk as [|x r IHr]; [reflexivity|]. destruct E as [E1 E2]. cbn [forallb]. rewrite (IH x E1). apply IHr, E2.
Qed.
