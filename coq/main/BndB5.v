From Coq Require Import List ZArith Lia Bool.
Import ListNotations.
Require Import Base Tree Rdr Link Collect Html Recog LP Rules Starts Driver L2Kind L2CC BSDef BSRdr BSTree BSOcp BSOrph BSClose BSLine1 BSLine2 BSLine3 BSLine4 BSLine5
  GramTree GramLP GramLP2 Cursor CursorX NoPanic12 Rec16 Rec17 Rec18 RecBounds ShDef ShRdr ShClose ShEnv ShLine1 ShLine2 ShFresh ShStarts2.
Require Import Props ShapesBase ShapesA EntBase EntOcpDefs EntOcp EntTree EntCur EntLP1 EntLP2 EntLP3 EntLP4 BndDefs BndBDefs BndB1 BndB2 BndB3 BndB4.
Open Scope Z_scope.

(* ================================================================== *)
(* BndB5: block starts (all but ATX, list item, setext).  A start      *)
(* either returns its argument unchanged, or the tree it leaves is     *)
(* good and either the line is consumed or the cursor has still only   *)
(* moved over ASCII bytes other than NUL.                              *)
(* ================================================================== *)

Section Starts1.
  Variable B : bytes.
  Hypothesis HVB : asciiOK B.
  Hypothesis HV0 : boundary_ok B 0 = true.
  Hypothesis Hocp : OcpG B.
  Notation g := (gdb B).
  Notation XP := (XP B).
  Notation Cg := (Cg B).

  Definition startOKb (f : lp -> lp) : Prop :=
    forall p, XP p -> st_open p -> cleanA p ->
      f p = p \/ (gB g (root (f p)) = true /\ (state (f p) = stLineConsumed \/ cleanA (f p))).

  Lemma Cg_clean p : XP p -> cleanA p -> Cg p.
  Proof. intros [(A & A1 & _) _] Hc. apply (g_cur B HVB HV0); assumption. Qed.
  Lemma cleanA_consumeIndent p n : cleanA p -> cleanA (consumeIndent p n).
  Proof. apply cleanA_gstep, gstep_consumeIndent. Qed.
  Lemma X_consumeIndent' p n : XP p -> XP (consumeIndent p n). Proof. apply X_consumeIndent. Qed.

  (* an advance over bytes that are ASCII and not NUL *)
  Lemma cleanA_advance p n : 0 <= li p <= len (line p) -> cleanA p ->
    (forall j, 0 <= j < n -> at_ (rest p) j <> 0 /\ at_ (rest p) j < 128) -> cleanA (advance p n).
  Proof.
    intros Hc Hcl Hm.
    destruct (env_parts _ _ (env_advance p n)) as (_ & _ & El).
    destruct (adv_cases p n) as [E|(E1 & E2 & E3)]; [apply (cleanA_ext p); assumption|].
    apply (cleanA_move p); [exact El|exact Hcl|]. intros i Hi. rewrite E3 in Hi.
    specialize (Hm (i - li p) ltac:(lia)). rewrite rest_at in Hm by lia. replace (li p + (i - li p)) with i in Hm by lia. exact Hm.
  Qed.

  (* the line is consumed: the cursor stands at the end of the line *)
  Lemma g_consumeLine p : EP B p -> g (lineStart (consumeLine p) + li (consumeLine p)) = true.
  Proof.
    intros HE. pose proof HE as (A & (_ & A1) & _). rewrite (li_consumeLine p A1). destruct (env_parts _ _ (env_consumeLine p)) as (_ & X & _). rewrite X.
    apply (g_H B HVB), A.
  Qed.

  (* ---- block quote ---- *)
  Lemma sOKb_startBlockQuote : startOKb startBlockQuote.
  Proof.
    intros p HX Hs Hcl. unfold startBlockQuote. cbv zeta.
    destruct (_ <=? _); [left; reflexivity|].
    destruct (hasBytePrefix (bytesAfterIndent p) [62]) eqn:Eq; cbn [negb]; [|left; reflexivity]. right.
    pose proof HX as [(A & A1 & A2 & A3 & A4) _].
    set (p1 := consumeIndent p (indent p)).
    assert (H1 : XP p1) by (apply X_consumeIndent, HX).
    assert (S1 : st_open p1) by (eapply st_open_sstep; [apply sstep_consumeIndent|exact Hs]).
    pose proof (spstep_consumeIndent p (indent p)) as Sp1. fold p1 in Sp1.
    assert (C1 : cleanA p1) by (apply cleanA_consumeIndent, Hcl).
    pose proof (X_openBlock B HVB HV0 Hocp p1 BlockQuoteKind H1 S1 (Cg_clean p1 H1 C1) ltac:(discriminate) ltac:(discriminate) ltac:(discriminate) ltac:(left; discriminate)) as H2.
    set (p2 := openBlock p1 BlockQuoteKind) in *.
    assert (C2 : cleanA p2) by (eapply cleanA_curS; [apply curS_openBlock|exact C1]).
    destruct (after_blanks p p1 62 A1 Sp1 Eq eq_refl) as (B1 & B2 & B3 & B4).
    assert (Hb : gapB (at_ (line p2) (li p2))).
    { destruct (curS_openBlock p1 BlockQuoteKind) as (E1 & E2 & _). fold p2 in E1, E2. rewrite E1, E2, (cstep_line p p1 (proj1 Sp1)).
      destruct (Z.eq_dec (li p1) (li p + indentLength (rest p))) as [E|N]; [rewrite E, B2; right; right; reflexivity|apply isSpTab_gapB, B4; lia]. }
    pose proof (gstep_advance1 p2 Hb) as G3. set (p3 := advance p2 1) in *.
    assert (R3 : root p3 = root p2) by apply (root_cstep _ _ (cstep_advance p2 1)).
    assert (C3 : cleanA p3) by (eapply cleanA_gstep; eassumption).
    destruct (0 <? indent p3).
    - split; [rewrite (root_cstep _ _ (cstep_consumeIndent p3 1)), R3; apply H2|right; apply cleanA_consumeIndent, C3].
    - split; [rewrite R3; apply H2|right; exact C3].
  Qed.

  (* ---- indented code ---- *)
  Lemma sOKb_startIndented : startOKb startIndented.
  Proof.
    intros p HX Hs Hcl. unfold startIndented. destruct (_ || _ || _); [left; reflexivity|]. right.
    set (p1 := consumeIndent p codeBlockIndentLimit).
    assert (H1 : XP p1) by (apply X_consumeIndent, HX).
    assert (S1 : st_open p1) by (eapply st_open_sstep; [apply sstep_consumeIndent|exact Hs]).
    assert (C1 : cleanA p1) by (apply cleanA_consumeIndent, Hcl).
    pose proof (X_openBlock B HVB HV0 Hocp p1 IndentedCodeBlockKind H1 S1 (Cg_clean p1 H1 C1) ltac:(discriminate) ltac:(discriminate) ltac:(discriminate) ltac:(left; discriminate)) as H2.
    split; [apply H2|right; eapply cleanA_curS; [apply curS_openBlock|exact C1]].
  Qed.

  (* ---- thematic break ---- *)
  Lemma sOKb_startThematic : startOKb startThematic.
  Proof.
    intros p HX Hs Hcl. unfold startThematic. cbv zeta. destruct (_ <=? _); [left; reflexivity|]. destruct (_ <? 0); [left; reflexivity|]. right.
    set (p1 := consumeIndent p (indent p)).
    assert (H1 : XP p1) by (apply X_consumeIndent, HX).
    assert (S1 : st_open p1) by (eapply st_open_sstep; [apply sstep_consumeIndent|exact Hs]).
    assert (C1 : cleanA p1) by (apply cleanA_consumeIndent, Hcl).
    pose proof (X_openBlock B HVB HV0 Hocp p1 ThematicBreakKind H1 S1 (Cg_clean p1 H1 C1) ltac:(discriminate) ltac:(discriminate) ltac:(discriminate) ltac:(left; discriminate)) as H2.
    set (p2 := openBlock p1 ThematicBreakKind) in *.
    assert (E2 : st_open p2) by (apply st_open_OM, state_openBlock, S1).
    set (p3 := advance p2 (parseThematicBreak (bytesAfterIndent p))).
    assert (H3 : XP p3) by (apply X_advance, H2).
    assert (E3 : st_open p3) by (eapply st_open_sstep; [apply sstep_advance|exact E2]).
    assert (H4 : XP (consumeLine p3)) by (apply X_consumeLine, H3).
    assert (E4 : state (consumeLine p3) = stLineConsumed) by (apply LC_consumeLine, E3).
    pose proof (X_endBlock B HVB Hocp _ H4 (bdy_consumeLine B p3 (proj1 H3)) (g_consumeLine p3 (proj1 H3))) as H5.
    assert (E5 : state (endBlock (consumeLine p3)) = stLineConsumed) by (eapply LC_sstep; [apply sstep_endBlock|exact E4]).
    split; [apply H5|left; exact E5].
  Qed.

  (* ---- fenced code ---- *)
  Lemma ws_ascii c : isSpaceTabOrLineEnding c = true -> c <> 0 /\ c < 128.
  Proof. unfold isSpaceTabOrLineEnding. rewrite !orb_true_iff. intros [[[H|H]|H]|H]; apply Z.eqb_eq in H; lia. Qed.

  Lemma fence_n_pos l c n is_ ie : parseCodeFence l = (c, n, is_, ie) -> n <> 0 -> 0 < n.
  Proof.
    unfold parseCodeFence. destruct l as [|c0 r]; [intros H Hn; injection H as E1 E2 E3 E4; lia|].
    destruct (_ || _); [intros H Hn; injection H as E1 E2 E3 E4; lia|]. cbv zeta.
    remember (countWhile (fun c1 => c1 =? c0) (c0 :: r)) as cw eqn:Ecw. clear Ecw.
    destruct (Z.ltb_spec cw 3) as [L|L]; [intros H Hn; injection H as E1 E2 E3 E4; lia|].
    destruct (_ <? 0); [intros H Hn; injection H as E1 E2 E3 E4; lia|].
    destruct (_ && _); intros H Hn; injection H as E1 E2 E3 E4; lia.
  Qed.

  Lemma sOKb_startFenced : startOKb startFenced.
  Proof.
    intros p HX Hs Hcl. unfold startFenced. cbv zeta. destruct (_ <=? _); [left; reflexivity|].
    destruct (parseCodeFence (bytesAfterIndent p)) as [[[fc fnn] is] ie] eqn:Ef. destruct (Z.eqb_spec fnn 0) as [E0|N0]; [left; reflexivity|]. right.
    pose proof HX as [(A & (A0 & A1) & A2 & A3 & A4) _].
    destruct (consume_all p A3 ltac:(lia)) as (R1 & L1 & L2 & _).
    set (p1 := consumeIndent p (indent p)) in *.
    assert (H1 : XP p1) by (apply X_consumeIndent, HX).
    assert (S1 : st_open p1) by (eapply st_open_sstep; [apply sstep_consumeIndent|exact Hs]).
    assert (C1 : cleanA p1) by (apply cleanA_consumeIndent, Hcl).
    pose proof (X_openBlock B HVB HV0 Hocp p1 FencedCodeBlockKind H1 S1 (Cg_clean p1 H1 C1) ltac:(discriminate) ltac:(discriminate) ltac:(discriminate) ltac:(left; discriminate)) as H2.
    set (p2 := openBlock p1 FencedCodeBlockKind) in *.
    assert (E2 : st_open p2) by (apply st_open_OM, state_openBlock, S1).
    assert (K2 : ckind p2 FencedCodeBlockKind) by (apply ckind_openBlock, S1).
    pose proof (X_set_fence B p2 fc fnn H2) as H3. set (p3 := updCont p2 (fun b => set_bn (set_bchar b fc) fnn)) in *.
    assert (K3 : ckind p3 FencedCodeBlockKind) by (apply ckind_keeps; [apply keeps_fence|exact K2]).
    pose proof (X_set_bindent B p3 (indent p) H3) as H4. set (p4 := updCont p3 (fun b => set_bindent b (indent p))) in *.
    assert (K4 : ckind p4 FencedCodeBlockKind) by (apply ckind_keeps; [apply keeps_bindent|exact K3]).
    assert (E4 : st_open p4) by exact E2.
    assert (C4 : cleanA p4).
    { apply (cleanA_ext p2); [reflexivity|reflexivity|]. eapply cleanA_curS; [apply curS_openBlock|exact C1]. }
    assert (Hr4 : rest p4 = bytesAfterIndent p).
    { rewrite <- R1. destruct (curS_openBlock p1 FencedCodeBlockKind) as (X1 & X2 & _). fold p2 in X1, X2. unfold rest.
      change (line p4) with (line p2). change (li p4) with (li p2). rewrite X1, X2. reflexivity. }
    set (p5 := if spanValid (is, ie) then collectInline (advance p4 is) InfoStringKind (ie - is) else p4).
    assert (H5 : XP p5 /\ st_open p5).
    { unfold p5. destruct (spanValid (is, ie)) eqn:Esv; [|tauto].
      unfold spanValid in Esv. cbn [fst snd] in Esv.
      destruct (parseCodeFence_sound _ _ _ _ _ Ef (fence_n_pos _ _ _ _ _ Ef N0)) as (F1 & F2 & F3 & F4 & F5).
      assert (His : 0 <= is) by (apply andb_true_iff in Esv; destruct Esv as [Esv _]; apply andb_true_iff in Esv; destruct Esv as [Esv _]; apply Z.leb_le in Esv; exact Esv).
      destruct F5 as [(F5 & _)|(G1 & G2 & G3 & G4 & G5 & G6 & G7 & _)]; [lia|].
      set (pa := advance p4 is).
      assert (Ha : XP pa) by (apply X_advance, H4).
      assert (Ka : ckind pa FencedCodeBlockKind) by (eapply ckind_cstep; [apply cstep_advance|exact K4]).
      pose proof H4 as [(A4e & (A40 & A41) & _) _].
      assert (Ca : cleanA pa).
      { apply cleanA_advance; [exact A41|exact C4|]. intros j Hj. rewrite Hr4.
        destruct (Z.lt_ge_cases j fnn) as [L|L]; [rewrite F3 by lia; destruct F1 as [-> | ->]; lia|apply ws_ascii, G4; lia]. }
      assert (Hlr : len (rest p4) = len (line p4) - li p4) by (apply len_rest; exact A41).
      assert (Lia : li pa = li p4 + is) by (apply adv_li; [lia|rewrite Hr4 in Hlr; lia]).
      destruct (env_parts _ _ (env_advance p4 is)) as (_ & Ea2 & Ea3). fold pa in Ea2, Ea3.
      assert (Hra : forall j, 0 <= j -> at_ (rest pa) j = at_ (bytesAfterIndent p) (is + j)).
      { intros j Hj. rewrite rest_at by lia. rewrite Ea3, Lia. rewrite <- Hr4. rewrite rest_at by lia. f_equal. lia. }
      assert (Hia : indent pa = 0).
      { apply indent_nonblank. intros Hlt. specialize (Hra 0 ltac:(lia)). rewrite rest_at in Hra by lia. replace (li pa + 0) with (li pa) in Hra by lia.
        rewrite Hra. replace (is + 0) with is by lia. unfold isWs, isSpaceTabOrLineEnding in G5. unfold isSpTab.
        apply orb_false_iff in G5. destruct G5 as [G5 _]. apply orb_false_iff in G5. destruct G5 as [G5 _]. exact G5. }
      split.
      - apply (X_collectInline_free B HVB pa InfoStringKind (ie - is) FencedCodeBlockKind Ha Ka ltac:(repeat split; discriminate) ltac:(discriminate) (Cg_clean pa Ha Ca)).
        intros s e Hs' He Gs. destruct He as [->|(_ & -> & He)]; [exact Gs|].
        assert (Es : s = li pa) by (destruct Hs' as [[-> _]|[_ X]]; [reflexivity|lia]). subst s.
        pose proof Ha as [(Aae & _) _].
        destruct (Z.eq_dec (li pa + (ie - is)) (len (line pa))) as [Ee|Ne]; [rewrite Ee; apply (g_H B HVB), Aae|].
        assert (Hw : isWs (at_ (bytesAfterIndent p) ie) = true).
        { apply G7. split; [lia|]. rewrite <- Hr4, Hlr. change (line p4) with (line p2) in *. rewrite Ea3 in He, Ne. lia. }
        apply (g_at B pa); [exact Aae|lia| |].
        all: rewrite <- (rest_at pa (ie - is)) by lia; rewrite Hra by lia; replace (is + (ie - is)) with ie by lia; apply ws_ascii, Hw.
      - eapply st_open_sstep; [apply sstep_collectInline|]. eapply st_open_sstep; [apply sstep_advance|exact E4]. }
    destruct H5 as (H5 & E5).
    assert (E6 : state (consumeLine p5) = stLineConsumed) by (apply LC_consumeLine, E5).
    split; [rewrite (root_cstep _ _ (cstep_consumeLine p5)); apply H5|left; exact E6].
  Qed.

  (* ---- HTML block ---- *)
  Lemma sOKb_startHTML : startOKb startHTML.
  Proof.
    intros p HX Hs Hcl. unfold startHTML. cbv zeta. destruct (_ <=? _); [left; reflexivity|].
    destruct (negb (hasBytePrefix _ _)); [left; reflexivity|]. destruct (_ <? 0); [left; reflexivity|].
    destruct (negb _ && _); [left; reflexivity|]. right.
    pose proof (X_openBlock B HVB HV0 Hocp p HTMLBlockKind HX Hs (Cg_clean p HX Hcl) ltac:(discriminate) ltac:(discriminate) ltac:(discriminate) ltac:(left; discriminate)) as H2.
    set (p2 := openBlock p HTMLBlockKind) in *.
    assert (E2 : state p2 = stOpenMatched) by (apply state_openBlock, Hs).
    assert (C2 : cleanA p2) by (eapply cleanA_curS; [apply curS_openBlock|exact Hcl]).
    match goal with |- context [updCont p2 ?f] => pose proof (X_set_bn B p2 (firstHtmlCond 0 7 (bytesAfterIndent p)) H2) as H3; set (p3 := updCont p2 f) in * end.
    assert (C3 : cleanA p3) by (apply (cleanA_ext p2); [reflexivity|reflexivity|exact C2]).
    destruct (htmlEnd _ _).
    - assert (E3 : st_open p3) by (right; exact E2).
      assert (K3 : ckind p3 HTMLBlockKind) by (apply ckind_keeps; [apply keeps_bn|apply ckind_openBlock, Hs]).
      destruct (EP_collectInline_free B p3 RawHTMLKind (len (bytesAfterIndent p3)) HTMLBlockKind (proj1 H3) K3 ltac:(repeat split; discriminate) ltac:(discriminate)) as [H4e _].
      assert (H4 : XP (collectInline p3 RawHTMLKind (len (bytesAfterIndent p3)))).
      { split; [exact H4e|]. apply (gB_collect_rest B HVB); [apply H3|apply H3|apply Cg_clean; assumption]. }
      set (p4 := collectInline p3 RawHTMLKind (len (bytesAfterIndent p3))) in *.
      assert (E4 : st_open p4) by (eapply st_open_sstep; [apply sstep_collectInline|exact E3]).
      assert (H5 : XP (consumeLine p4)) by (apply X_consumeLine, H4).
      assert (E5 : state (consumeLine p4) = stLineConsumed) by (apply LC_consumeLine, E4).
      pose proof (X_endBlock B HVB Hocp _ H5 (bdy_consumeLine B p4 (proj1 H4)) (g_consumeLine p4 (proj1 H4))) as H6.
      assert (E6 : state (endBlock (consumeLine p4)) = stLineConsumed) by (eapply LC_sstep; [apply sstep_endBlock|exact E5]).
      split; [apply H6|left; exact E6].
    - split; [apply H3|right; exact C3].
  Qed.
End Starts1.
