(* QFull3d.v -- T64: more block-layer facts about the leaves of D:
     leaf_kidless   the entries of a leaf have no children (from the invariant En2Tree.en);
     leaf_shape     InlineShapes.bikOK' holds, or the leaf has a single empty entry (from ComposeShapes.parseBlocks_shapeHyp);
     leaf_transl    the position map is a translation on every entry (from the block-layer simulation, QS2Reloc.ceB0). *)
From Coq Require Import List ZArith Lia Bool.
Import ListNotations.
Require Import Base Tree LP Rules Driver Inl3a Inl3e SpanHypDef ShapeHypDef ShapeHyp InlineShapes ComposeShapes EntBase En2Tree BSTree ExDrv
  QuoteSimDefs QuoteSimReloc QuoteSimDrv1 QS2Reloc QFullDefs QFull1 QFull2 QFull3b QFull3c.
Open Scope Z_scope.

Lemma en_sub B M b b0 : subB b b0 -> en B M b0 -> en B M b.
Proof.
  induction 1 as [b|b c b0 Hs IH Hc]; intros H; [exact H|]. specialize (IH H). apply en_eq in IH. destruct IH as [_ IH].
  apply (allP_In _ _ _ IH Hc).
Qed.

Lemma shapeHypB_sub src : forall b0 b, subB b b0 -> (forall x, subB x b0 -> isLeafU x = true -> bkids x = []) ->
  forall f0, (bheight b0 <= f0)%nat -> shapeHypB f0 src b0 = true -> exists f, (bheight b <= f)%nat /\ shapeHypB f src b = true.
Proof.
  intros b0 b Hs HK f0 Hf0 H0. induction Hs as [b|b c b0 Hs IH Hc].
  - exists f0. split; assumption.
  - destruct (IH HK Hf0 H0) as (f & Hf & H). destruct f as [|f]; [pose proof (bheight_pos' b); lia|]. cbn [shapeHypB] in H.
    destruct (isLeafU b) eqn:E0.
    + rewrite (HK b Hs E0) in Hc. destruct Hc.
    + rewrite forallb_forall in H. exists f. split; [pose proof (bheight_kid' b c Hc); lia|apply H, Hc].
Qed.

Section Doc.
  Variable D : bytes.
  Hypothesis HT : tabFree D.
  Hypothesis Hne : D <> [].
  Notation roots := (fst (parseBlocks D)).

  Lemma leaf_kidless r b : In r roots -> subB b (rb_blk r) -> isLeafU b = true -> Forall (fun u => ikids u = []) (bik b).
  Proof.
    intros Hr Hb HL. destruct (leaf_kind D HT r b Hr Hb HL) as [Hk _].
    pose proof (parseBlocks_okRX D) as HX. rewrite Forall_forall in HX. destruct (HX r Hr) as (B & M & _ & _ & He & _).
    pose proof (en_sub B M b _ Hb He) as Hen. apply en_eq in Hen. destruct Hen as [(P1 & P2 & _) _].
    apply Forall_forall. intros u Hu.
    destruct Hk as [Hk|[Hk|Hk]].
    - destruct (P1 (or_introl Hk)) as (Hl & _). destruct (lines_entry B _ _ u Hl Hu) as (_ & _ & _ & K & _). exact K.
    - destruct (P1 (or_intror Hk)) as (Hl & _). destruct (lines_entry B _ _ u Hl Hu) as (_ & _ & _ & K & _). exact K.
    - destruct (P2 Hk) as [_ [E|(a & t & E & _)]]; rewrite E in Hu; [destruct Hu|]. destruct Hu as [<-|[]]. reflexivity.
  Qed.

  Lemma leaf_shape r b : In r roots -> subB b (rb_blk r) -> isLeafU b = true ->
    bikOK' (rb_src r) b = true \/ EntDefs.emptyOne (bik b) = true.
  Proof.
    intros Hr Hb HL. pose proof (parseBlocks_shapeHyp D) as H. unfold shapeHypRoots in H. rewrite forallb_forall in H.
    destruct (shapeHypB_sub (rb_src r) (rb_blk r) b Hb (fun x Hx => KidsNil_holds D HT Hne r x Hr Hx) (bheight (rb_blk r)) (le_n _) (H r Hr)) as (f & Hf & He).
    destruct f as [|f]; [pose proof (bheight_pos' b); lia|]. cbn [shapeHypB] in He. rewrite HL in He.
    apply orb_true_iff in He. destruct He as [He|He]; [left; rewrite <- bikOKX'_eq; exact He|right; exact He].
  Qed.

  Lemma leaf_transl r b u : In r roots -> subB b (rb_blk r) -> isLeafU b = true -> In u (bik b) ->
    forall x, istart u <= x < iend u -> sgO D (rb_start r) x = sgO D (rb_start r) (istart u) + (x - istart u).
  Proof.
    intros Hr Hb HL Hu. destruct (leaf_kind D HT r b Hr Hb HL) as [Hk _].
    destruct (sub_SubFacts D HT Hne r b Hr Hb) as (Ho & sD' & sQ' & M & B & _ & _ & F3 & _).
    apply QS2Reloc.ceB0_eq in F3. destruct F3 as (Ci & _).
    assert (Nk : bkind b <> LinkReferenceDefinitionKind) by (destruct Hk as [-> |[-> | ->]]; discriminate).
    specialize (Ci Nk). rewrite Forall_forall in Ci. destruct (Ci u Hu) as (_ & _ & _ & _ & _ & _ & _ & _ & K2). exact K2.
  Qed.
End Doc.
