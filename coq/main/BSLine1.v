From Coq Require Import List ZArith Lia Bool.
Import ListNotations.
Require Import Base Tree Rdr Link Collect Html Recog LP Rules Starts Driver L2Kind L2CC BSDef BSRdr BSTree BSOcp BSOrph BSClose.
Open Scope Z_scope.

(* ---- the line-parser invariants ---- *)
Definition env (p p' : lp) : Prop := lineStart p' = lineStart p /\ line p' = line p /\ source p' = source p.
Definition curP (p : lp) : Prop := 0 <= lineStart p /\ 0 <= li p <= len (line p).
Definition Mc (p : lp) : Z := lineStart p + li p.
Definition spineOpen (p : lp) : Prop := forall d x, (d <= cdepth p)%nat -> getAt d (root p) = Some x -> bend x < 0.
Definition BPb (M : Z) (p : lp) : Prop := curP p /\ sp M (root p) /\ spineOpen p /\ ccP p.
Definition BP (p : lp) : Prop := BPb (Mc p) p.
(* the open block below the container, if any, lies before the current line *)
Definition C1 (p : lp) : Prop := forall c, getAt (S (cdepth p)) (root p) = Some c -> bend c < 0 -> sp (lineStart p) c.
Definition wide (k : Z) : Prop := k = documentKind \/ k = BlockQuoteKind \/ k = ListItemKind.
Definition cleanC (p : lp) : Prop := forall x, getAt (cdepth p) (root p) = Some x -> sp (lineStart p) x.
Definition LI (p : lp) : Prop := forall x, getAt (cdepth p) (root p) = Some x -> sp (lineStart p) x \/ wide (bkind x).
Definition OPx (p : lp) : Prop := BP p /\ C1 p.

Definition cstep (p p' : lp) : Prop :=
  same_tree p p' /\ env p p' /\ (0 <= li p <= len (line p) -> li p <= li p' <= len (line p)).
Lemma cstep_refl p : cstep p p. Proof. repeat split; lia. Qed.
Lemma cstep_trans a b c : cstep a b -> cstep b c -> cstep a c.
Proof.
  intros (A1 & (A2 & A3 & A4) & A5) (B1 & (B2 & B3 & B4) & B5). split; [eapply same_trans; eassumption|]. split; [repeat split; congruence|].
  intros H. specialize (A5 H). rewrite A3 in B5. specialize (B5 ltac:(lia)). lia.
Qed.
Lemma cstep_opened p : cstep p (if state p =? stOpening then withState p stOpenMatched else p).
Proof. destruct (_ =? _); [|apply cstep_refl]. repeat split; cbn; lia. Qed.
Lemma cstep_withState p s : cstep p (withState p s). Proof. repeat split; cbn; lia. Qed.
Lemma cstep_panic p s : cstep p (panic p s). Proof. repeat split; cbn; lia. Qed.

Lemma cstep_advance p n : cstep p (advance p n).
Proof.
  unfold advance. destruct (Z.ltb_spec n 0); [apply cstep_panic|]. destruct (Z.eqb_spec n 0); [apply cstep_refl|]. cbv zeta.
  eapply cstep_trans; [apply cstep_opened|]. set (p0 := if state p =? stOpening then withState p stOpenMatched else p).
  destruct (Z.ltb_spec (len (line p0)) (li p0 + n)); [apply cstep_panic|].
  repeat split; cbn [li withCursor setLP]; lia.
Qed.
Lemma cstep_consumeLine p : cstep p (consumeLine p).
Proof.
  unfold consumeLine. cbv zeta. pose proof (cstep_advance p (len (line p) - li p)) as H.
  destruct (_ || _); [eapply cstep_trans; [exact H|apply cstep_withState]|].
  destruct (_ =? stDescending); [eapply cstep_trans; [exact H|apply cstep_withState]|exact H].
Qed.
Lemma cstep_consumeIndent_loop : forall fuel p n, cstep p (consumeIndent_loop fuel p n).
Proof.
  induction fuel as [|f IH]; intros p n; [apply cstep_refl|]. cbn [consumeIndent_loop].
  destruct (n <=? 0); [apply cstep_refl|]. cbv zeta.
  eapply cstep_trans; [apply cstep_opened|]. set (p0 := if state p =? stOpening then withState p stOpenMatched else p).
  destruct (Z.ltb_spec (li p0) (len (line p0))) as [L|L]; cbn [andb]; [|apply cstep_panic].
  assert (Hs : forall cl tr, cstep p0 (withCursor p0 (li p0 + 1) cl tr)) by (intros; repeat split; cbn [li withCursor setLP]; lia).
  destruct (at_ (line p0) (li p0) =? 32); [eapply cstep_trans; [apply Hs|apply IH]|].
  destruct (at_ (line p0) (li p0) =? 9); [|apply cstep_panic].
  destruct (n <? _); [repeat split; cbn [li withCursor setLP]; lia|].
  eapply cstep_trans; [apply Hs|apply IH].
Qed.
Lemma cstep_consumeIndent p n : cstep p (consumeIndent p n). Proof. apply cstep_consumeIndent_loop. Qed.

Lemma cstep_Mc p p' : cstep p p' -> curP p -> curP p' /\ Mc p <= Mc p' /\ lineStart p' = lineStart p /\ line p' = line p.
Proof. intros (_ & (E1 & E2 & _) & H) (A & B). specialize (H B). unfold curP, Mc. rewrite E1, E2. repeat split; lia. Qed.

Lemma BP_cstep p p' : cstep p p' -> BP p -> BP p'.
Proof.
  intros Hc (A & B & C & D). destruct (cstep_Mc p p' Hc A) as (A' & Hm & _). pose proof Hc as ((E1 & E2) & _ & _).
  split; [exact A'|]. split; [rewrite E1; eapply sp_mono; eassumption|]. split; [|eapply ccP_same; [split; eassumption|exact D]].
  intros d x Hd. unfold cdepth in *. rewrite E1. rewrite E2 in Hd. apply C, Hd.
Qed.
Lemma C1_cstep p p' : cstep p p' -> C1 p -> C1 p'.
Proof. intros ((E1 & E2) & (E3 & _) & _) H c. unfold cdepth. rewrite E1, E2, E3. apply H. Qed.
Lemma LI_cstep p p' : cstep p p' -> LI p -> LI p'.
Proof. intros ((E1 & E2) & (E3 & _) & _) H c. unfold cdepth. rewrite E1, E2, E3. apply H. Qed.
Lemma OPx_cstep p p' : cstep p p' -> OPx p -> OPx p'.
Proof. intros H [A B]. split; [eapply BP_cstep|eapply C1_cstep]; eassumption. Qed.

(* ---- tree facts along the right spine ---- *)
Lemma getAt_S_last : forall d r, getAt (S d) r = match getAt d r with Some y => lastBlock y | None => None end.
Proof.
  induction d as [|d IH]; intros r; [cbn [getAt]; destruct (lastBlock r); reflexivity|].
  rewrite getAt_S. destruct (lastBlock r) as [c|] eqn:El; [rewrite IH; cbn [getAt]; rewrite El; reflexivity|cbn [getAt]; rewrite El; reflexivity].
Qed.
Lemma cc_getAt : forall d r x, cc r = true -> getAt d r = Some x -> cc x = true.
Proof.
  induction d as [|d IH]; intros r x H E; [inversion E; subst; exact H|]. rewrite getAt_S in E.
  destruct (lastBlock r) as [c|] eqn:El; [|discriminate]. eapply IH; [|exact E]. eapply cc_lastBlock; eassumption.
Qed.
Lemma cc_spine d r y x : cc r = true -> getAt d r = Some y -> getAt (S d) r = Some x -> canContain (bkind y) (bkind x) = true.
Proof. intros H Ey Ex. rewrite getAt_S_last, Ey in Ex. eapply cc_lastBlock; [eapply cc_getAt; eassumption|exact Ex]. Qed.

Lemma getAt_updAt_low f : (forall x, bend (f x) = bend x) -> forall d' d r y, (d <= d')%nat ->
  getAt d (updAt d' f r) = Some y -> exists x, getAt d r = Some x /\ bend y = bend x /\ (d < d' -> bkind y = bkind x)%nat.
Proof.
  intros Hf. induction d' as [|k IH]; intros d r y Hd E.
  - replace d with O in * by lia. cbn [updAt getAt] in *. inversion E; subst. exists r. split; [reflexivity|split; [apply Hf|lia]].
  - cbn [updAt] in E. destruct (lastBlock r) as [c|] eqn:El.
    + destruct d as [|j].
      * cbn [getAt] in *. inversion E; subst. exists r. split; [reflexivity|split; [apply bend_set_lastBlocks|intros _; apply bkind_set_lastBlocks]].
      * rewrite getAt_S, lastBlock_set_last in E by (intros N; unfold lastBlock in El; rewrite N in El; discriminate).
        destruct (IH j c y ltac:(lia) E) as (x & A & B & C). exists x. split; [rewrite getAt_S, El; exact A|split; [exact B|intros; apply C; lia]].
    + exists y. split; [exact E|split; [reflexivity|reflexivity]].
Qed.
Lemma getAt_S_updAt f : forall d r, getAt (S d) (updAt d f r) = match getAt d r with Some x => lastBlock (f x) | None => None end.
Proof. intros d r. rewrite getAt_S_last, getAt_updAt_same. destruct (getAt d r); reflexivity. Qed.

(* ---- closing the last child of the block at depth d ---- *)
Lemma app_nonnil {A} (l : list A) x : l ++ [x] <> [].
Proof. intros E. apply app_eq_nil in E. destruct E; discriminate. Qed.
Lemma ocp_nonnil : forall fuel rfuel src orig orphan r result, ocp_loop fuel rfuel src orig orphan r result <> [].
Proof.
  induction fuel as [|f IH]; intros rfuel src orig orphan r result; [apply app_nonnil|]. cbn [ocp_loop]. cbv zeta.
  assert (Hwo : forall res x, (match orphan with Some o => (res ++ [x]) ++ [o] | None => res ++ [x] end) <> []) by (intros; destruct orphan; apply app_nonnil).
  destruct (parseLinkLabel rfuel r) as [[lspan linner] r1].
  destruct (negb (spanValid lspan)); [apply app_nonnil|].
  destruct (current r1) as [c r2]. destruct (negb (c =? 58)); [apply app_nonnil|].
  destruct (next r2) as [? r3]. destruct (skipLinkSpace rfuel r3) as [ok r4]. destruct (negb ok); [apply app_nonnil|].
  destruct (parseLinkDestination rfuel r4) as [[dspan dtext] r5]. destruct (negb (spanValid dspan)); [apply app_nonnil|].
  destruct (readEOL rfuel r5) as [destEOL r6]. destruct (current r6) as [c6 r7].
  destruct (_ && _ && _); [apply app_nonnil|].
  destruct (skipLinkSpace rfuel r7) as [ok2 r8]. destruct (negb ok2); [apply Hwo|].
  destruct (parseLinkTitle rfuel r8) as [[tspan ttext] r9].
  destruct (negb (spanValid tspan)).
  { destruct (destEOL <? 0); [apply app_nonnil|]. destruct (nodeIndexForPosition (bik orig) (r_pos r6) <? 0); [apply Hwo|apply IH]. }
  destruct (readEOL rfuel r9) as [titleEOL r10].
  destruct (titleEOL <? 0).
  { destruct (destEOL <? 0); [apply app_nonnil|]. destruct (nodeIndexForPosition (bik orig) (r_pos r6) <? 0); [apply Hwo|].
    rewrite app_assoc. apply app_nonnil. }
  destruct (nodeIndexForPosition (bik orig) (r_pos r10) <? 0); [apply Hwo|apply IH].
Qed.
Lemma closeBlock_nonnil src e : forall fuel b, closeBlock fuel src b e <> [].
Proof.
  destruct fuel as [|f]; intros b; [discriminate|]. cbn [closeBlock]. destruct (negb (isOpen b)); [discriminate|]. cbv zeta.
  destruct (_ =? ListKind); [discriminate|]. destruct (_ =? IndentedCodeBlockKind); [discriminate|].
  destruct (_ || _); [|discriminate]. unfold onCloseParagraph. destruct (bik _); [discriminate|apply ocp_nonnil].
Qed.
Lemma lastBlock_set_lastBlocks b L y : L <> [] -> lastBlock (set_lastBlocks b L) = Some y -> In y L.
Proof.
  intros HL. unfold lastBlock, set_lastBlocks. rewrite bkids_set_bkids, rev_app_distr.
  destruct (rev L) as [|z t] eqn:Er; [exfalso; apply HL; rewrite <- (rev_involutive L), Er; reflexivity|].
  cbn [app]. intros E. inversion E; subst. apply in_rev. rewrite Er. left. reflexivity.
Qed.

Lemma closeF_bend p e x : bend (closeF p e x) = bend x.
Proof. unfold closeF. destruct (lastBlock x); [apply bend_set_lastBlocks|reflexivity]. Qed.
Lemma closeF_bstart p e x : bstart (closeF p e x) = bstart x.
Proof. unfold closeF. destruct (lastBlock x); [apply bstart_set_lastBlocks|reflexivity]. Qed.

(* the tree after closing the last child c of the block at depth d at position e <= M:
   c must lie before e when it is open; the block at depth d must be open *)
Lemma sp_closeAt M p d e : sp M (root p) -> cc (root p) = true -> e <= M ->
  (forall x c, getAt d (root p) = Some x -> lastBlock x = Some c -> bend x < 0 /\ (bend c < 0 -> sp e c)) ->
  sp M (updAt d (closeF p e) (root p)).
Proof.
  intros Hs Hc He Hx. apply (sp_updAt_at M (closeF p e) d (root p) Hs).
  intros x Ex Sx. split; [|split; [apply closeF_bstart|apply closeF_bend]].
  unfold closeF. destruct (lastBlock x) as [c|] eqn:El; [|exact Sx].
  destruct (Hx x c Ex El) as [Ox Oc].
  pose proof (sp_lastBlock M x c Sx El) as Sc.
  destruct (Z.ltb_spec (bend c) 0) as [L|L].
  - assert (Cc : cc c = true) by (eapply cc_lastBlock; [eapply cc_getAt; eassumption|exact El]).
    destruct (sp_closeBlock (source p) e (bheight (root p)) c Cc (Oc L) (bend x) ltac:(left; exact Ox)) as [A B].
    eapply sp_set_lastBlocks; [exact Sx|exact El|eapply allP_sp_mono; eassumption|exact B].
  - assert (E : closeBlock (bheight (root p)) (source p) c e = [c]).
    { destruct (bheight (root p)); [reflexivity|]. cbn [closeBlock]. unfold isOpen. destruct (Z.ltb_spec (bend c) 0); [lia|reflexivity]. }
    rewrite E. eapply sp_set_lastBlocks; [exact Sx|exact El|split; [exact Sc|exact I]|]. cbn [chain]. repeat split; [lia|left; exact Ox].
Qed.

(* the new last child of the block at depth d is one of the closing results *)
Lemma closeAt_child p d e y : getAt (S d) (updAt d (closeF p e) (root p)) = Some y ->
  exists x c, getAt d (root p) = Some x /\ lastBlock x = Some c /\ In y (closeBlock (bheight (root p)) (source p) c e).
Proof.
  rewrite getAt_S_updAt. destruct (getAt d (root p)) as [x|] eqn:Ex; [|discriminate].
  unfold closeF. destruct (lastBlock x) as [c|] eqn:El; [|intros E; rewrite El in E; discriminate].
  intros E. exists x, c. split; [reflexivity|split; [exact El|]]. eapply lastBlock_set_lastBlocks; [apply closeBlock_nonnil|exact E].
Qed.

Lemma spineOpen_upd p f d c' : (forall x, bend (f x) = bend x) -> spineOpen p -> (c' <= d)%nat -> (c' <= cdepth p)%nat ->
  spineOpen (withCont (withRoot p (updAt d f (root p))) (Some c')).
Proof.
  intros Hf Ho H1 H2 j y Hj E. unfold cdepth in Hj. cbn [container withCont withRoot setLP root] in Hj, E.
  destruct (getAt_updAt_low f Hf d j (root p) y ltac:(lia) E) as (x & A & B & _). rewrite B. apply (Ho j x); [lia|exact A].
Qed.
