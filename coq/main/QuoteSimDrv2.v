(* QuoteSimDrv2.v -- T51: cutting a root block off the buffer (makeRoot) and the maps MO o.
   geB n b : every start, every closed end and every inline position of b is at least n (so offsetTree (-n) is a plain shift).
   From the "lines accounted" invariant la (LinesAccounted) every block that starts at or after n satisfies geB n. *)
From Coq Require Import List ZArith Lia Bool Arith.
Import ListNotations.
Require Import Base Tree Rdr Link Collect Html Recog LP Rules Starts Driver Rec16 Rec17 Rec18 L2Kind L2CC Props
  LADef LA1 LA12 QuoteSimDefs QuoteSimTree QuoteSimNest QuoteSimMap QuoteSimReloc QuoteSimLines QuoteSimDrv1.
Open Scope Z_scope.

Definition geI (n : Z) (u : inline) : Prop := isLinkPart (ikind u) = false /\ insideI u /\ n <= istart u <= iend u.
Fixpoint geB (n : Z) (b : block) : Prop :=
  match b with Blk k s e bk ik _ _ _ _ _ =>
    n <= s /\ (e < 0 \/ n <= e) /\ Forall (geI n) ik /\
    (fix go (l : list block) : Prop := match l with [] => True | x :: r => geB n x /\ go r end) bk end.
Lemma geB_eq n b : geB n b <-> n <= bstart b /\ (bend b < 0 \/ n <= bend b) /\ Forall (geI n) (bik b) /\ Forall (geB n) (bkids b).
Proof.
  destruct b as [k s e bk ik a nn c l lb]. cbn [geB bstart bend bik bkids].
  assert (E : forall l0, (fix go (l : list block) : Prop := match l with [] => True | x :: r => geB n x /\ go r end) l0 <-> Forall (geB n) l0).
  { induction l0 as [|x r IH]; [split; [constructor|exact (fun _ => I)]|]. split.
    - intros [A B]. constructor; [exact A|apply IH, B].
    - intros H. inversion H as [|? ? Ha Hb]. split; [exact Ha|apply IH; exact Hb]. }
  split; intros (A & B & C & F); (split; [exact A|split; [exact B|split; [exact C|apply E, F]]]).
Qed.

(* ---- from la ---- *)
Definition isCont (k : Z) : bool := (k =? documentKind) || (k =? ListKind) || (k =? ListItemKind) || (k =? BlockQuoteKind).
Lemma nokids b : cc b = true -> isCont (bkind b) = false -> bkids b = [].
Proof.
  intros Hc Hl. apply cc_parts in Hc. destruct Hc as [Hc _]. destruct (bkids b) as [|x r]; [reflexivity|]. exfalso. cbn [forallb] in Hc. apply andb_true_iff in Hc. destruct Hc as [Hc _].
  unfold isCont in Hl. unfold Rules.canContain in Hc. apply orb_false_iff in Hl. destruct Hl as [Hl H4]. apply orb_false_iff in Hl. destruct Hl as [Hl H3]. apply orb_false_iff in Hl. destruct Hl as [H1 H2].
  rewrite H1, H2, H3, H4 in Hc. discriminate.
Qed.
Lemma leaf_notCont k : isLeafK k = true -> isCont k = false.
Proof.
  unfold isLeafK, isCont. intros H. repeat (apply orb_true_iff in H; destruct H as [H|H]); apply Z.eqb_eq in H; subst k; reflexivity.
Qed.
Lemma allQ_Forall {A} (P : A -> Prop) l : allQ P l <-> Forall P l.
Proof. induction l as [|x r IH]; cbn [allQ]; [split; [constructor|exact (fun _ => I)]|]. split; [intros [A0 B]; constructor; [exact A0|apply IH, B]|intros H; inversion H; subst; split; [assumption|apply IH; assumption]]. Qed.

Lemma la_geB sD sQ sg src M : forall b, cc b = true -> la src M b -> ceB sD sQ sg b -> forall n, n <= bstart b -> geB n b.
Proof.
  apply (block_kids_ind (fun b => cc b = true -> la src M b -> ceB sD sQ sg b -> forall n, n <= bstart b -> geB n b)).
  intros b IH Hcc Hla Hce n Hn. apply la_eq in Hla. destruct Hla as (B1 & B2 & _ & Hbody & Hkids). apply ceB_eq in Hce. destruct Hce as (Kr & Hci & Hck).
  apply geB_eq. split; [exact Hn|]. split; [destruct B2 as [B2|[B2 _]]; [left; exact B2|right; lia]|].
  unfold body in Hbody. split.
  - destruct (isLeafK (bkind b)) eqn:El.
    + destruct Hbody as (Ht & _ & _). rewrite Forall_forall in *. intros u Hu. destruct (Hci u Hu) as (A1 & A2 & A3 & _).
      pose proof (tileS_In src _ _ _ (ispan u) Ht ltac:(apply in_map; exact Hu)) as (T1 & _). cbn [ispan fst] in T1. split; [exact A1|split; [exact A2|lia]].
    + destruct (bkind b =? ListMarkerKind); [destruct Hbody as [_ ->]; constructor|].
      destruct (Z.eqb_spec (bkind b) LinkReferenceDefinitionKind) as [E|_]; [contradiction|]. destruct Hbody as [_ ->]. constructor.
  - pose proof Hcc as Hcc0. apply cc_parts in Hcc. destruct Hcc as [_ Hccl]. unfold ccL in Hccl. rewrite forallb_forall in Hccl. apply allQ_Forall in Hkids. unfold ceL in Hck. rewrite Forall_forall in *.
    intros c Hc. apply IH; [exact Hc|apply Hccl, Hc|apply Hkids, Hc|apply Hck, Hc|].
    destruct (isLeafK (bkind b)) eqn:El.
    + exfalso. rewrite (nokids b Hcc0 (leaf_notCont _ El)) in Hc. destruct Hc.
    + destruct (Z.eqb_spec (bkind b) ListMarkerKind) as [Em|Em].
      * exfalso. rewrite (nokids b Hcc0) in Hc; [destruct Hc|rewrite Em; reflexivity].
      * destruct (Z.eqb_spec (bkind b) LinkReferenceDefinitionKind) as [E|_]; [contradiction|]. destruct Hbody as [Hch _].
        pose proof (tchain_starts src _ _ _ _ c Hch Hc). lia.
Qed.

(* ---- the cut ---- *)
Lemma ikind_shiftI' n u : ikind (shiftI n u) = ikind u. Proof. destruct u; reflexivity. Qed.
Lemma mvI_shiftI d n u : insideI u -> 0 <= n -> n <= istart u <= iend u -> mvI d (shiftI (- n) u) = mvI (d - n) u.
Proof.
  destruct u as [k s e ind r kids]. unfold insideI. cbn [istart iend ikids]. intros Hin Hn Hs. cbn [shiftI mvI].
  destruct (Z.leb_spec 0 e); [|lia]. f_equal; try lia. rewrite map_map. apply map_ext_in. intros c Hc. rewrite Forall_forall in Hin.
  destruct (Hin c Hc) as (A & B & C). destruct c as [k' s' e' ind' r' kids']. cbn [istart iend ikids] in *. subst kids'. cbn [shiftI mvI map].
  destruct (Z.leb_spec 0 e'); [|lia]. f_equal; lia.
Qed.

Section Cut.
  Variable D : bytes.
  Lemma sgO_cut o n x : sgO D (o + n) (x - n) = sgO D o x.
  Proof. unfold sgO. cbv zeta. replace (o + n + (x - n)) with (o + x) by lia. reflexivity. Qed.
  Lemma rI_cut o n u : 0 <= n -> geI n u -> rI (sgO D (o + n)) idI (shiftI (- n) u) = rI (sgO D o) idI u.
  Proof.
    intros Hn (A & B & C). unfold rI. rewrite ikind_shiftI', A. rewrite mvI_shiftI by assumption.
    destruct u as [k s e ind r kids]. cbn [shiftI istart]. replace (s + - n) with (s - n) by lia. rewrite sgO_cut. f_equal. lia.
  Qed.
  Lemma MO_cut o n : 0 <= n -> forall b, geB n b -> MO D (o + n) (shiftB (- n) b) = MO D o b.
  Proof.
    intros Hn. apply (block_kids_ind (fun b => geB n b -> MO D (o + n) (shiftB (- n) b) = MO D o b)). intros b IH H.
    apply geB_eq in H. destruct H as (A & B & C & F). destruct b as [k s e bk ik a nn c l lb]. cbn [bstart bend bik bkids] in *.
    unfold MO. cbn [shiftB rB]. f_equal.
    - replace (s + - n) with (s - n) by lia. apply sgO_cut.
    - unfold eBO. destruct (Z.leb_spec 0 e) as [L|L].
      + destruct B as [B|B]; [lia|]. destruct (Z.ltb_spec (e + - n) 0); [lia|]. destruct (Z.ltb_spec e 0); [lia|]. f_equal. lia.
      + destruct (Z.ltb_spec e 0); [reflexivity|lia].
    - rewrite map_map. apply map_ext_in. intros x Hx. rewrite Forall_forall in F. apply (IH x Hx (F x Hx)).
    - rewrite map_map. apply map_ext_in. intros u Hu. rewrite Forall_forall in C. apply rI_cut; [exact Hn|apply C, Hu].
  Qed.

  Lemma sub_from (X : bytes) n s e : 0 <= n <= s -> sub (from_ X n) (s - n) (e - n) = sub X s e.
  Proof. intros H. unfold sub. rewrite from_from by lia. f_equal; [f_equal; lia|lia]. Qed.
  Lemma insideI_shiftI n u : insideI u -> 0 <= n -> n <= istart u <= iend u -> insideI (shiftI (- n) u).
  Proof.
    destruct u as [k s e ind r kids]. unfold insideI. cbn [istart iend ikids shiftI]. intros Hin Hn Hs. apply Forall_forall. intros c Hc.
    apply in_map_iff in Hc. destruct Hc as (c0 & <- & Hc0). rewrite Forall_forall in Hin. destruct (Hin c0 Hc0) as (A & B & C).
    destruct c0 as [k' s' e' ind' r' kids']. cbn [istart iend ikids] in *. subst kids'. unfold kidIn. cbn [shiftI istart iend ikids map].
    destruct (Z.leb_spec 0 e'); [|lia]. repeat split; lia.
  Qed.
  Lemma ceI_cut sD sQ o n u : 0 <= n <= len sD -> geI n u -> ceI sD sQ (sgO D o) u -> ceI (from_ sD n) sQ (sgO D (o + n)) (shiftI (- n) u).
  Proof.
    intros Hn (G1 & G2 & G3) (A & I0 & B & C & P & E & F & K1 & K2). destruct u as [k s e ind r kids]. cbn [istart iend ikind] in *.
    unfold ceI. cbn [shiftI istart iend ikind]. destruct (Z.leb_spec 0 e); [|lia]. replace (s + - n) with (s - n) by lia. replace (e + - n) with (e - n) by lia.
    rewrite sgO_cut. split; [exact A|]. split; [apply (insideI_shiftI n (Inl k s e ind r kids)); [exact I0|lia|cbn; lia]|].
    split; [lia|]. split; [rewrite len_from by lia; lia|]. split; [exact P|]. split; [replace (e - n - (s - n)) with (e - s) by lia; exact E|].
    split; [replace (e - n - (s - n)) with (e - s) by lia; rewrite sub_from by lia; exact F|]. split.
    - unfold kidsIn in *. cbn [istart iend ikids] in *. apply Forall_forall. intros c Hc. apply in_map_iff in Hc. destruct Hc as (c0 & <- & Hc0).
      rewrite Forall_forall in K1. specialize (K1 c0 Hc0). destruct c0 as [k' s' e' ind' r' kids']. cbn [shiftI istart iend] in *.
      destruct (Z.leb_spec 0 e'); lia.
    - intros x Hx. replace x with ((x + n) - n) by lia. rewrite sgO_cut. rewrite (K2 (x + n)) by lia. lia.
  Qed.
  Lemma ceB_cut sD sQ o n : 0 <= n <= len sD -> forall b, geB n b -> ceB sD sQ (sgO D o) b -> ceB (from_ sD n) sQ (sgO D (o + n)) (shiftB (- n) b).
  Proof.
    intros Hn. apply (block_kids_ind (fun b => geB n b -> ceB sD sQ (sgO D o) b -> ceB (from_ sD n) sQ (sgO D (o + n)) (shiftB (- n) b))). intros b IH Hg Hc.
    apply geB_eq in Hg. destruct Hg as (A & B & C & F). apply ceB_eq in Hc. destruct Hc as (K & Ci & Ck). apply ceB_eq.
    destruct b as [k s e bk ik a nn c l lb]. cbn [bstart bend bik bkids bkind shiftB] in *. split; [exact K|]. split.
    - apply Forall_forall. intros u Hu. apply in_map_iff in Hu. destruct Hu as (u0 & <- & Hu0). rewrite Forall_forall in C, Ci. apply ceI_cut; [exact Hn|apply C, Hu0|apply Ci, Hu0].
    - unfold ceL in *. apply Forall_forall. intros x Hx. apply in_map_iff in Hx. destruct Hx as (x0 & <- & Hx0). rewrite Forall_forall in F, Ck. apply IH; [exact Hx0|apply F, Hx0|apply Ck, Hx0].
  Qed.
End Cut.

Print Assumptions la_geB.
Print Assumptions MO_cut.
Print Assumptions ceB_cut.
