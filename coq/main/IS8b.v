From Coq Require Import List ZArith Lia Bool.
Import ListNotations.
Require Import Base Tables Utf8 Tree Rdr Link Collect Inl3a Props Leaf3e RdrBound ShapesBase ShapesA ShapesR ShapesHT IS2 IS1 IS5a IS6a.
Open Scope Z_scope.

(* ================================================================== *)
(* IS8b: every node made by collectTextNodes has a valid span.         *)
(* ================================================================== *)

Lemma next_prev r ok r1 : next r = (ok, r1) -> r_prev r1 = r_pos r \/ (r_pos r1 = r_pos r /\ r_prev r1 = r_prev r).
Proof.
  intros E. destruct ok.
  - destruct (next_true r r1 E) as (_ & _ & _ & _ & _ & _ & Ep & _). left. exact Ep.
  - destruct (curNode_cases r) as [Ec|(pre & n & rest & E1 & Ec & E3)].
    + unfold next in E. rewrite Ec in E. inversion E; subst r1. right. split; reflexivity.
    + destruct (next_false r r1 E) as (_ & _ & Hf). destruct (Hf n ltac:(rewrite Ec; reflexivity)) as (A & _). left. exact A.
Qed.

Section CV.
  Variable src : bytes.
  Notation RBs := (RB (len src)).
  Lemma HBlen : -1 <= len src. Proof. pose proof (ShapesBase.len_nonneg src). lia. Qed.

  (* reader facts carried through the loop *)
  Definition RD (r : reader) : Prop := RI src r /\ RBs r /\ 0 <= r_pos r.
  Lemma RD_HB r : RD r -> HB src 0 r. Proof. intros (A & _ & C). split; assumption. Qed.
  Lemma RD_of r B : HB src B r -> RBs r -> 0 <= B -> RD r. Proof. intros (A & C) H H0. split; [exact A|]. split; [exact H|lia]. Qed.
  Lemma RD_curNode r : RD r -> RD (snd (curNode r)).
  Proof. intros H. apply (RD_of _ 0); [apply HB_curNode, RD_HB, H|apply RB_curNode, H|lia]. Qed.
  Lemma RD_current r : RD r -> RD (snd (current r)).
  Proof. intros H. apply (RD_of _ 0); [apply HB_current, RD_HB, H|apply RB_current, H|lia]. Qed.
  Lemma RD_remaining r : RD r -> RD (snd (remainingNodeBytes r)).
  Proof. intros H. apply (RD_of _ 0); [apply HB_remaining, RD_HB, H|apply RB_remaining, H|lia]. Qed.
  Lemma RD_next r : RD r -> RD (snd (next r)) /\ r_pos r <= r_pos (snd (next r)).
  Proof.
    intros H. assert (Hm : HB src (r_pos r) (snd (next r))) by (apply HB_next; split; [apply H|lia]).
    split; [|apply Hm]. destruct H as (A & B & C). apply (RD_of _ (r_pos r)); [exact Hm|apply RB_next', B|exact C].
  Qed.
  Lemma RD_skipSameNode : forall fuel r node, RD r -> RD (skipSameNode fuel r node).
  Proof.
    induction fuel as [|f IH]; intros r node H; [exact H|]. cbn [skipSameNode].
    destruct (RD_next r H) as (Hn & _). destruct (next r) as [ok r1]. cbn [snd] in Hn. destruct (negb ok); [exact Hn|].
    pose proof (RD_curNode r1 Hn) as Hc. destruct (curNode r1) as [[m|] r2]; cbn [snd] in Hc; [|exact Hc].
    destruct (_ && _ && _); [apply IH|]; exact Hc.
  Qed.

  (* the plain-text start and the reader *)
  Definition CI (ps : Z) (r : reader) : Prop := 0 <= ps <= r_pos r /\ (ps < r_pos r -> ps <= r_prev r + 1).
  Lemma CI_next ps r ok r1 : RD r -> CI ps r -> next r = (ok, r1) -> CI ps r1.
  Proof.
    intros H (A & B) E. destruct (RD_next r H) as (_ & Hm). rewrite E in Hm. cbn [snd] in Hm.
    destruct (next_prev r ok r1 E) as [Ep|(Ep1 & Ep2)].
    - split; [lia|]. intros _. rewrite Ep. lia.
    - split; [lia|]. intros L. rewrite Ep2. apply B. lia.
  Qed.
  Lemma CI_same ps r r' : r_pos r' = r_pos r -> r_prev r' = r_prev r -> CI ps r -> CI ps r'.
  Proof. intros E1 E2 (A & B). unfold CI. rewrite E1, E2. split; assumption. Qed.
  Lemma CI_at r : 0 <= r_pos r -> CI (r_pos r) r. Proof. intros H. split; [lia|intros; lia]. Qed.

  Definition okI (x : inline) : Prop := validI src x = true.
  Lemma okI_mk k a b : 0 <= a -> a <= b -> b <= len src -> okI (mkI k a b).
  Proof. intros A B C. unfold okI, mkI. cbn [validI forallb]. rewrite span_valid_intro by lia. reflexivity. Qed.

  (* steps inside one node that is not an Indent span *)
  Lemma nextN_contig node rest : ikind node <> IndentKind -> forall n r, r_spans r = node :: rest -> spanHas node (r_pos r) = true ->
    r_pos r + Z.of_nat n < iend node ->
    r_spans (nextN n r) = node :: rest /\ r_pos (nextN n r) = r_pos r + Z.of_nat n /\ r_src (nextN n r) = r_src r.
  Proof.
    intros Hk. induction n as [|n IH]; intros r Es Hh Hl; [cbn [nextN]; split; [exact Es|split; [lia|reflexivity]]|].
    cbn [nextN]. destruct (next_contig r node rest Es Hh Hk ltac:(lia)) as (r1 & N1 & S1 & P1 & Q1). rewrite N1. cbn [snd].
    pose proof (spanHas_range _ _ Hh) as (R1 & R2 & R3).
    destruct (IH r1 S1 ltac:(rewrite P1; apply spanHas_intro; lia) ltac:(lia)) as (A & B & C). repeat split; [exact A|lia|congruence].
  Qed.

  Lemma collect_valid tk esc (spans : list inline) : (forall x, In x spans -> okI x) -> forall fuel r e ps acc,
    RD r -> sublist (r_spans r) spans -> CI ps r -> e <= len src -> Forall okI acc ->
    Forall okI (fst (collect_loop fuel r e tk esc ps acc)) /\ 0 <= snd (collect_loop fuel r e tk esc ps acc).
  Proof.
    intros Hsp. induction fuel as [|f IH]; intros r e ps acc HR Hs HC He Hacc; [split; [exact Hacc|apply HC]|].
    cbn [collect_loop]. destruct (e <=? r_pos r); [split; [exact Hacc|apply HC]|].
    pose proof (RD_curNode r HR) as HR0. pose proof (curNode_spans r) as Hc. pose proof (curNode_in r) as Hin.
    destruct (curNode_fields r) as (_ & P0 & _ & V0). cbv zeta in P0, V0.
    destruct (curNode r) as [cn r0] eqn:Ecn. cbn [fst snd] in *.
    assert (Hs0 : sublist (r_spans r0) spans) by (eapply sublist_trans; eassumption).
    assert (HC0 : CI ps r0) by (apply (CI_same ps r); assumption).
    pose proof HR0 as (_ & (_ & HB1 & HB2) & HB0).
    destruct (okind cn =? IndentKind) eqn:Ek.
    - destruct cn as [node|]; [|cbn in Ek; discriminate].
      pose proof (RD_skipSameNode (S f) r0 node HR0) as HR1.
      apply IH; try assumption.
      + eapply sublist_trans; [apply skipSameNode_spans|exact Hs0].
      + apply CI_at. apply HR1.
      + apply Forall_app. split; [|constructor; [apply Hsp, Hs, Hin; reflexivity|constructor]].
        destruct (Z.ltb_spec ps (r_pos r0)) as [L|L]; [|exact Hacc]. apply Forall_app. split; [exact Hacc|constructor; [|constructor]].
        destruct HC0 as (C1 & C2). apply okI_mk; [lia|apply C2, L|lia].
    - assert (Htail : forall r' ps' acc', RD r' -> sublist (r_spans r') spans -> CI ps' r' -> Forall okI acc' ->
                let res := (if e <=? r_pos r' then (acc', ps') else let '(ok, r1) := next r' in
                   if negb ok then (acc', ps') else
                   if jumped r1 then
                     collect_loop f r1 e tk esc (r_pos r1) (if ps' <=? r_prev r1 then acc' ++ [mkI tk ps' (r_prev r1 + 1)] else acc')
                   else collect_loop f r1 e tk esc ps' acc') in Forall okI (fst res) /\ 0 <= snd res).
      { intros r' ps' acc' HR' Hs' HC' Hacc'. cbv zeta. destruct (e <=? r_pos r'); [split; [exact Hacc'|apply HC']|]. destruct (RD_next r' HR') as (HRn & _). pose proof (next_spans r') as Hn.
        destruct (next r') as [ok r1] eqn:En. cbn [snd] in HRn, Hn.
        pose proof (CI_next ps' r' ok r1 HR' HC' En) as HC1.
        destruct (negb ok); [split; [exact Hacc'|apply HC']|].
        assert (Hs1 : sublist (r_spans r1) spans) by (eapply sublist_trans; eassumption).
        pose proof HRn as (_ & (_ & HB1' & HB2') & HB0').
        destruct (jumped r1).
        - apply IH; try assumption; [apply CI_at; exact HB0'|].
          destruct (Z.leb_spec ps' (r_prev r1)) as [L|L]; [|exact Hacc']. apply Forall_app. split; [exact Hacc'|constructor; [|constructor]].
          apply okI_mk; [apply HC'|lia|lia].
        - apply IH; assumption. }
      destruct (esc && (okind cn =? UnparsedKind)) eqn:Eesc; [|apply Htail; assumption].
      pose proof (RD_current r0 HR0) as HR1. pose proof (current_spans r0) as Hcur.
      destruct (current_fields r0) as (_ & P1 & _ & V1). cbv zeta in P1, V1.
      destruct (current r0) as [c r1]. cbn [snd] in *.
      assert (Hs1 : sublist (r_spans r1) spans) by (eapply sublist_trans; eassumption).
      assert (HC1 : CI ps r1) by (apply (CI_same ps r0); assumption).
      destruct (c =? 92).
      { destruct (RD_next r1 HR1) as (HR2 & _). pose proof (next_spans r1) as Hn. destruct (next r1) as [ok r2] eqn:En. cbn [snd] in HR2, Hn.
        assert (Hs2 : sublist (r_spans r2) spans) by (eapply sublist_trans; eassumption).
        pose proof (CI_next ps r1 ok r2 HR1 HC1 En) as HC2.
        pose proof HR2 as (_ & (_ & HB1' & HB2') & HB0').
        destruct (ok && _ && _).
        - apply Htail; try assumption; [apply CI_at; exact HB0'|].
          destruct (Z.ltb_spec ps (r_prev r2)) as [L|L]; [|exact Hacc]. apply Forall_app. split; [exact Hacc|constructor; [|constructor]].
          apply okI_mk; [apply HC1|lia|lia].
        - apply Htail; assumption. }
      destruct (c =? 38); [|apply Htail; assumption].
      pose proof (RD_remaining r1 HR1) as HR2. pose proof (remaining_spans r1) as Hrem.
      destruct (remainingNodeBytes r1) as [rem r2] eqn:Erem. cbn [snd] in *.
      assert (Hs2 : sublist (r_spans r2) spans) by (eapply sublist_trans; eassumption).
      destruct (Z.leb_spec 0 (parseCharacterEscape rem)) as [Hen|Hen].
      2:{ apply Htail; try assumption. unfold remainingNodeBytes in Erem. destruct (curNode_fields r1) as (_ & P2 & _ & V2). cbv zeta in P2, V2.
          destruct (curNode r1) as [[nn|] rr]; inversion Erem; subst; cbn [snd] in *; apply (CI_same ps r1); assumption. }
      (* a character reference inside the current (Unparsed) node *)
      unfold remainingNodeBytes in Erem.
      destruct (curNode_cases r1) as [Ec1|(pre & n & rest & E1 & Ec1 & E3)]; rewrite Ec1 in Erem; inversion Erem; subst rem r2; clear Erem.
      { exfalso. cbn in Hen. lia. }
      pose proof HR1 as ((Hsrc1 & Hok1) & _ & _). rewrite ?Hsrc1 in *.
      set (en := parseCharacterEscape (sub src (r_pos r1) (iend n))) in *.
      pose proof (spanHas_range _ _ E3) as (R1 & R2 & R3).
      rewrite E1 in Hok1. apply spOK_app_r in Hok1. pose proof (spOK_iend _ _ _ Hok1) as Hie.
      destruct (parseCharacterEscape_shape _ en eq_refl Hen) as (A0 & A1 & A2 & A3). rewrite len_sub in A3 by lia.
      rewrite at_sub in A0 by lia. replace (r_pos r1 + 0) with (r_pos r1) in A0 by lia.
      assert (Hkn : ikind n <> IndentKind).
      { intros Ek2. pose proof (spOK_cons _ _ _ Hok1) as (_ & _ & _ & D & _).
        destruct (indent_blank src n _ (D Ek2) E3) as [L|L]; [lia|]. rewrite A0 in L. discriminate. }
      cbn [withSpans r_pos].
      destruct (nextN_contig n rest Hkn (Z.to_nat (en - 1)) (withSpans r1 (n :: rest)) eq_refl E3 ltac:(cbn [withSpans r_pos]; lia)) as (N1 & N2 & N3).
      cbn [withSpans r_pos r_src] in N2, N3.
      set (r3 := nextN (Z.to_nat (en - 1)) (withSpans r1 (n :: rest))) in *.
      assert (HR3 : RD r3).
      { clear - HR2. unfold r3. generalize (Z.to_nat (en - 1)). intros k. revert HR2. generalize (withSpans r1 (n :: rest)).
        induction k as [|k IHk]; intros r HRr; [exact HRr|]. cbn [nextN]. apply IHk. apply RD_next, HRr. }
      destruct (RD_next r3 HR3) as (HR4 & Hm4). pose proof (next_spans r3) as Hn4.
      destruct (next r3) as [ok r4] eqn:En4. cbn [snd] in HR4, Hm4, Hn4.
      assert (Hacc2 : Forall okI ((if ps <? r_pos r1 then acc ++ [mkI tk ps (r_pos r1)] else acc) ++ [mkI CharacterReferenceKind (r_pos r1) (r_pos r1 + en)])).
      { apply Forall_app. split; [|constructor; [apply okI_mk; lia|constructor]].
        destruct (Z.ltb_spec ps (r_pos r1)) as [L|L]; [|exact Hacc]. apply Forall_app. split; [exact Hacc|constructor; [|constructor]].
        apply okI_mk; [apply HC1|lia|lia]. }
      destruct ok; cbn [negb]; [|split; [exact Hacc2|cbn [snd]; lia]].
      apply IH; try assumption.
      + eapply sublist_trans; [exact Hn4|]. unfold r3. eapply sublist_trans; [apply nextN_spans|]. cbn [withSpans r_spans].
        intros x Hx. apply Hs1. rewrite E1. apply in_or_app. right. exact Hx.
      + destruct (next_step src r3 r4 (proj1 HR3) En4) as (_ & _ & Ep4 & Hcase).
        rewrite at_sub in A1 by lia.
        assert (Hp4 : r_pos r1 + en <= r_pos r4).
        { destruct Hcase as [(P & _)|[(P & [L|L])|(P & _)]]; try lia.
          rewrite N2 in L. replace (r_pos r1 + Z.of_nat (Z.to_nat (en - 1))) with (r_pos r1 + (en - 1)) in L by lia. rewrite A1 in L. discriminate. }
        split; [lia|]. intros _. rewrite Ep4, N2. lia.
  Qed.

  Lemma collectTextNodes_valid tk esc spans fuel r e : (forall x, In x spans -> okI x) -> RD r -> sublist (r_spans r) spans -> e <= len src ->
    Forall okI (collectTextNodes fuel r e tk esc).
  Proof.
    intros Hsp HR Hs He. unfold collectTextNodes.
    destruct (collect_valid tk esc spans Hsp fuel r e (r_pos r) [] HR Hs (CI_at r ltac:(apply HR)) He (Forall_nil _)) as (H1 & H2).
    destruct (collect_loop fuel r e tk esc (r_pos r) []) as [acc ps]. cbn [fst snd] in *.
    destruct (Z.ltb_spec ps e); [|exact H1]. apply Forall_app. split; [exact H1|]. constructor; [apply okI_mk; lia|constructor].
  Qed.
End CV.
