From Coq Require Import List ZArith Lia Bool.
Import ListNotations.
Require Import Base Tree Rdr Link Collect Html Recog LP Rules Starts Driver Leaf3e RdrBound L2Kind L2Kind2 L2CC TRdr TDefs TOcp TInv TDesc TStarts TLine.
Open Scope Z_scope.

Lemma lastClosed_ne l : lastClosed l -> l <> [].
Proof. intros (pre & c & -> & _) E. destruct pre; discriminate. Qed.
Lemma doneRoot_ne l : doneRoot l -> l <> [] -> lastClosed l.
Proof. intros [E|H] N; [congruence|exact H]. Qed.
Lemma len0_nil {A} (l : list A) : len l = 0 -> l = [].
Proof. destruct l; [reflexivity|]. unfold len. cbn [length]. lia. Qed.

Lemma after_descend p1 am : ccP p1 -> CU p1 -> Rb false p1 -> OKroot p1 -> state p1 <> stDescendTerminated -> isOpen (root p1) = true ->
  let ht := fst (openNewBlocks p1 am) in let p2 := snd (openNewBlocks p1 am) in
  let p3 := if ht then addLineText p2 else p2 in
  (GoodL 0 (ks p3) /\ nonlastLe (lineStart p1) (ks p3)) /\ (NE p1 -> NE p3) /\ (line p1 = [] -> NE p1 -> lastClosed (ks p3)) /\ state p3 <> stDescendTerminated /\
  (cdepth p1 = O -> st_open p1 -> isRestBlank p1 = false -> am = true -> NE p3).
Proof.
  intros Hcc HC HR HO Hs4 Hop. cbv zeta. unfold openNewBlocks.
  destruct (Z.eqb_spec (len (line p1)) 0) as [E0|E0].
  - (* end of input *)
    cbn [fst snd].
    destruct (eof_spec false p1 (proj1 Hcc) Hop (proj1 HC) HR HO) as [[G1 G1'] G2]. apply UB_nonlast in G1'.
    match goal with |- context [withRoot p1 ?r] => set (rt := r) in * end.
    change (ks (withCont (withRoot p1 rt) None)) with (bkids rt). change (state (withCont (withRoot p1 rt) None)) with (state p1).
    split; [split; [exact G1|exact G1']|]. split; [intros Hn; unfold NE; change (ks (withCont (withRoot p1 rt) None)) with (bkids rt); apply lastClosed_ne, G2, Hn|].
    split; [intros _ Hn; apply G2, Hn|]. split; [exact Hs4|].
    intros _ _ Hb _. exfalso. unfold isRestBlank, rest in Hb. rewrite (len0_nil _ E0) in Hb. unfold from_ in Hb. rewrite skipn_nil' in Hb. discriminate.
  - assert (Hl : 0 < len (line p1)) by (unfold len in *; lia).
    assert (HI : OI p1) by (split; [exact Hcc|split; [exact HC|split; [exact HR|left; exact HO]]]).
    pose proof (opening_loop_spec (S (length (line p1))) p1 HI Hl) as HOP.
    destruct (opening_loop (S (length (line p1))) p1) as [ht0 p2']. cbn [fst snd] in HOP.
    destruct HOP as (a & b & c & d & e & g & h & i).
    assert (Hnl : line p1 = [] -> False) by (intros E; rewrite E in Hl; unfold len in Hl; cbn in Hl; lia).
    destruct ht0.
    + destruct (g eq_refl) as (g1 & g2 & g3).
      assert (S2 : state p2' <> stDescendTerminated) by (destruct g3 as [E|[E|E]]; rewrite E; [exact Hs4|discriminate|discriminate]).
      destruct am; cbn [fst snd].
      * destruct (addLineText_spec p2' b g1 (AOK_PHs p2' g2)) as (A1 & A2 & A3). rewrite (proj1 e) in A1.
        split; [exact A1|]. split; [intros Hn; destruct i as [i|[_ [i|i]]]; [apply A2, i|apply A2; rewrite i; exact Hn|apply A2; rewrite i; exact Hn]|].
        split; [intros E; destruct (Hnl E)|].
        split; [destruct (stSame_addLineText p2') as [E|E]; rewrite E; [exact S2|discriminate]|].
        intros Ed Hso Hb _. destruct i as [i|[_ i]]; [apply A2, i|].
        apply A3; destruct i as [-> | ->]; try assumption; try apply Hcc; try (left; reflexivity).
      * destruct (deferred_spec false p2' b g1 d) as (D1 & D2 & D3 & D4 & D5).
        destruct (addLineText_spec (deferredClose p2') D2 D1 (AOK_deferred p2' (proj1 b) g1 g2)) as (A1 & A2 & A3).
        rewrite (proj1 D3), (proj1 e) in A1.
        split; [exact A1|].
        split; [intros Hn; apply A2, D4; destruct i as [i|[_ [i|i]]]; [exact i|rewrite i; exact Hn|rewrite i; exact Hn]|].
        split; [intros E; destruct (Hnl E)|].
        split; [destruct (stSame_addLineText (deferredClose p2')) as [E|E]; rewrite E; [rewrite D5; exact S2|discriminate]|].
        intros _ _ _ Ef. discriminate.
    + assert (Hn2 : NE p2') by (destruct i as [i|[i _]]; [exact i|discriminate]).
      specialize (h eq_refl).
      destruct am; cbn [fst snd].
      * split; [split; [apply c|rewrite <- (proj1 e); apply (UB_nonlast _ _ _ (proj2 c))]|]. split; [intros _; exact Hn2|]. split; [intros E; destruct (Hnl E)|]. split; [rewrite h; discriminate|intros; exact Hn2].
      * destruct (deferred_spec (ldb p2') p2' b c d) as (D1 & D2 & D3 & D4 & D5).
        split; [split; [apply D1|rewrite <- (proj1 e), <- (proj1 D3); apply (UB_nonlast _ _ _ (proj2 D1))]|]. split; [intros _; apply D4, Hn2|]. split; [intros E; destruct (Hnl E)|].
        split; [rewrite D5, h; discriminate|intros; apply D4, Hn2].
Qed.

Lemma descend_nokids fuel p : ks p = [] -> descend_loop fuel p O = (true, withCont p (Some O)).
Proof.
  intros E. destruct fuel as [|f]; [reflexivity|]. cbn [descend_loop]. cbv zeta. cbn [getAt]. unfold lastBlock. unfold ks in E. rewrite E. reflexivity.
Qed.

Theorem processLine_good st children ls src :
  0 <= ls -> GoodL 0 children -> UB ls false children -> ccF children = true ->
  (children = [] \/ (0 < ls /\ exists c, children = [c])) ->
  (st = stDescendTerminated -> HM children) ->
  (children = [] -> isBlankLine (from_ src ls) = false /\ (st = stOpening \/ st = stOpenMatched)) ->
  let r := processLine st children ls src in
  (GoodL 0 (fst (fst r)) /\ nonlastLe ls (fst (fst r))) /\ fst (fst r) <> [] /\ (from_ src ls = [] -> lastClosed (fst (fst r))) /\
  (snd (fst r) = stDescendTerminated -> lastClosed (fst (fst r)) \/ HM (fst (fst r))).
Proof.
  intros Hls HG HU Hcf HK Hst Hemp. cbv zeta. unfold processLine. cbv zeta.
  set (p0 := resetLP st children ls src).
  assert (Hcc0 : ccP p0).
  { unfold ccP, wf, p0, resetLP, cdepth. cbn [root container]. split; [reflexivity|split; [exact Hcf|eexists; reflexivity]]. }
  assert (HC0 : CU p0).
  { unfold CU, p0, resetLP. cbn [lineStart li line]. split; [exact Hls|]. unfold len. lia. }
  assert (HR0 : Rb false p0) by (split; [exact HG|exact HU]).
  assert (HO0 : OKroot p0).
  { unfold OKroot. change (ks p0) with children. change (lineStart p0) with ls. destruct HK as [HK|HK]; [left; exact HK|right; left; exact HK]. }
  assert (Hop0 : isOpen (root p0) = true) by reflexivity.
  assert (Hline : line p0 = from_ src ls) by reflexivity.
  destruct (bheight_S (root p0)) as [f0 Ef0].
  pose proof (descend_spec (bheight (root p0)) p0 O HC0) as HD.
  pose proof (ccP_descend_loop (bheight (root p0)) p0 O Hcc0 ltac:(eexists; reflexivity)) as Hcc1.
  pose proof (bendroot_descend_loop (bheight (root p0)) p0 O) as Hb1.
  unfold descendOpenBlocks.
  destruct HK as [HK|(Hls0 & c & HK)].
  - (* no child yet: the line is not blank *)
    destruct (Hemp HK) as [Hnb Hso].
    rewrite (descend_nokids _ p0 HK).
    set (p1 := withCont p0 (Some O)).
    assert (S1 : state p1 <> stDescendTerminated) by (change (state p1) with st; destruct Hso as [-> | ->]; discriminate).
    replace (negb (state p1 =? stDescendTerminated)) with true by (symmetry; apply negb_true_iff, Z.eqb_neq; exact S1).
    pose proof (after_descend p1 true Hcc0 HC0 HR0 HO0 S1 Hop0) as HA. cbv zeta in HA.
    destruct (openNewBlocks p1 true) as [ht p2]. cbn [fst snd] in HA. destruct HA as (A1 & A2 & A3 & A4 & A5).
    cbn [fst snd].
    assert (Hn : NE (if ht then addLineText p2 else p2)).
    { apply A5; [reflexivity|destruct Hso as [E|E]; [left|right]; exact E| |reflexivity].
      unfold isRestBlank, rest. change (line p1) with (from_ src ls). change (li p1) with 0. exact Hnb. }
    split; [exact A1|]. split; [exact Hn|]. split.
    + intros E. rewrite E in Hnb. discriminate.
    + intros E. exfalso. exact (A4 E).
  - assert (Hn0 : NE p0) by (unfold NE; change (ks p0) with children; rewrite HK; discriminate).
    specialize (HD ltac:(intros E; split; [reflexivity|split; [apply Hst, E|rewrite Ef0; discriminate]])).
    destruct (descend_loop (bheight (root p0)) p0 O) as [am p1]. cbn [snd] in HD, Hcc1, Hb1.
    destruct HD as (E01 & HC1 & HT & HD).
    assert (Els : lineStart p1 = ls) by apply E01.
    destruct (Z.eqb_spec (state p1) stDescendTerminated) as [S4|S4].
    + (* the line was consumed while descending *)
      cbn [negb fst snd].
      assert (Hne : from_ src ls = [] -> False).
      { intros E. specialize (HT S4). rewrite Hline, E in HT. unfold len in HT. cbn in HT. lia. }
      destruct HD as [[D1 D2]|(_ & _ & p2 & D1 & D2 & D3 & D4)].
      * pose proof (D2 S4 eq_refl) as Hhm.
        split; [split; [eapply ksRel_GoodL; [exact D1|exact HG]|apply (UB_nonlast ls false); eapply ksRel_UB; [exact D1|exact HU]]|]. split; [intros E; destruct Hhm as (pre & c0 & Ek & _); unfold ks in Ek; rewrite E in Ek; destruct pre; discriminate|].
        split; [intros E; destruct (Hne E)|]. intros _. right. exact Hhm.
      * assert (HR2 : Rb false p2) by (apply (Rb_ksRel false p0 p2 D1 (proj1 D2) HR0)).
        assert (L2 : lineStart p2 = ls) by apply D2.
        assert (A1 : lineStart p2 <= lineStart p2 + li p2) by lia. assert (A2 : lineStart p2 < lineStart p2 + li p2) by lia.
        destruct (Rb_close0 false true p2 (lineStart p2 + li p2) ltac:(lia) HR2 A1 (or_introl A2) (or_intror eq_refl) (fun _ => eq_refl)) as [[G1 G2] G3].
        assert (Hn2 : NE p2) by (unfold NE in *; intros E; apply (ksRel_nil _ _ D1) in E; exact (Hn0 E)).
        assert (Ek : bkids (root p1) = ks (closeLastChildAt p2 0 (lineStart p2 + li p2))) by (unfold ks; rewrite D4; reflexivity).
        assert (Hlc : lastClosed (bkids (root p1))) by (rewrite Ek; apply doneRoot_ne; [exact G3|apply NE_close, Hn2]).
        split; [rewrite Ek; split; [exact G1|rewrite <- L2; apply (UB_nonlast _ true), G2]|]. split; [apply lastClosed_ne, Hlc|]. split; [intros _; exact Hlc|intros _; left; exact Hlc].
    + replace (negb (state p1 =? stDescendTerminated)) with true by (symmetry; apply negb_true_iff, Z.eqb_neq; exact S4).
      destruct HD as [[D1 _]|(_ & D2 & _)]; [|congruence].
      assert (HR1 : Rb false p1) by (apply (Rb_ksRel false p0 p1 D1 (proj1 E01) HR0)).
      assert (HO1 : OKroot p1) by (apply (OKroot_ksRel p0 p1 D1 (proj1 E01) HO0)).
      assert (Hn1 : NE p1) by (unfold NE in *; intros E; apply (ksRel_nil _ _ D1) in E; exact (Hn0 E)).
      assert (Hop1 : isOpen (root p1) = true) by (unfold isOpen; rewrite Hb1; reflexivity).
      pose proof (after_descend p1 am Hcc1 HC1 HR1 HO1 S4 Hop1) as HA. cbv zeta in HA.
      destruct (openNewBlocks p1 am) as [ht p2]. cbn [fst snd] in HA. destruct HA as (A1 & A2 & A3 & A4 & A5). rewrite Els in A1.
      cbn [fst snd]. split; [exact A1|]. split; [apply A2, Hn1|]. split.
      * intros E. apply A3; [|exact Hn1]. destruct E01 as (_ & El & _). rewrite El. exact E.
      * intros E. exfalso. exact (A4 E).
Qed.
Print Assumptions processLine_good.
