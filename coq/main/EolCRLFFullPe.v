From Coq Require Import List ZArith Lia Bool.
Import ListNotations.
Require Import Base Tables Utf8 Tree Rdr Link Collect Html Recog Inl3a Inl3b Inl3c Inl3d PEProof IFTree IFPe ShapesBase
  EolCRLFDefs EolCRLFSimBytes EolCRLFSimStream EolGenCrlfRdrDefs EolGenCrlfRdrStep EolGenCrlfRdrColl EolCRLFFullNode EolCRLFFullSt.
Open Scope Z_scope.

(* C14 (ii), CRLF clause, inline layer: processEmphasis.  pe_loop never reads the source, but it shortens the text
   nodes of delimiter runs by 1 or 2 bytes: phiP commutes with that only because those nodes contain no LF.
   Invariants on the run over R:
     QS st : every node named by a '*' / '_' delimiter on the stack is non-empty, starts at a non-negative offset and holds no LF;
     ND st : the identities on the stack are pairwise distinct;
   together with IFPe.TI (positive identities unique and below nid). *)

Lemma faL_and (Q1 Q2 : pn -> Prop) : forall l, faL Q1 l -> faL Q2 l -> faL (fun n => Q1 n /\ Q2 n) l.
Proof.
  assert (G : forall n, faN Q1 n -> faN Q2 n -> faN (fun n => Q1 n /\ Q2 n) n).
  { fix IH 1. intros [i k s e ind r ks]. cbn [faN pkids]. intros [A B] [C D]. split; [split; assumption|]. clear A C.
    induction ks as [|x ks IHk]; [exact I|]. destruct B as [B1 B2]. destruct D as [D1 D2]. split; [apply IH; assumption|apply IHk; assumption]. }
  induction l as [|n l IH]; intros H1 H2; [exact I|]. destruct H1 as [A B]. destruct H2 as [C D]. split; [apply G; assumption|apply IH; assumption].
Qed.
Lemma faL_hdrs (H : list hdr) : forall l, (forall h, In h (hdrs l) -> In h H) -> faL (fun n => In (hd1 n) H) l.
Proof.
  assert (G : forall n, (forall h, In h (hdrN n) -> In h H) -> faN (fun n => In (hd1 n) H) n).
  { fix IH 1. intros [i k s e ind r ks] Hn. rewrite hdrN_eq in Hn. cbn [pid ps pe pkids] in Hn. cbn [faN pkids]. split; [apply Hn; left; reflexivity|].
    assert (Hk : forall h, In h (hdrs ks) -> In h H) by (intros h Hh; apply Hn; right; exact Hh). clear Hn.
    induction ks as [|x ks IHk]; [exact I|]. rewrite hdrs_cons in Hk. split.
    - apply IH. intros h Hh. apply Hk, in_or_app. left. exact Hh.
    - apply IHk. intros h Hh. apply Hk, in_or_app. right. exact Hh. }
  induction l as [|n l IH]; intros Hl; [exact I|]. rewrite hdrs_cons in Hl. split.
  - apply G. intros h Hh. apply Hl, in_or_app. left. exact Hh.
  - apply IH. intros h Hh. apply Hl, in_or_app. right. exact Hh.
Qed.
Lemma uniq_hfind H h : cnt (key h) H <= 1 -> In h H -> hfind (key h) H = Some h.
Proof.
  induction H as [|x H IH]; intros Hc Hi; [destruct Hi|]. rewrite cnt_cons in Hc. rewrite hfind_cons. pose proof (cnt_nonneg (key h) H) as Hn.
  destruct Hi as [->|Hi]; [rewrite Z.eqb_refl; reflexivity|].
  destruct (Z.eqb_spec (key x) (key h)) as [E|E].
  - exfalso. assert (1 <= cnt (key h) H); [|lia]. clear -Hi. induction H as [|y H IH]; [destruct Hi|]. rewrite cnt_cons. pose proof (cnt_nonneg (key h) H).
    destruct Hi as [->|Hi]; [rewrite Z.eqb_refl; lia|]. specialize (IH Hi). destruct (key y =? key h); lia.
  - apply IH; [lia|exact Hi].
Qed.
Lemma NoDup_map_nth {A} (f : A -> Z) (d : A) : forall l i j, NoDup (map f l) -> (i < length l)%nat -> (j < length l)%nat -> i <> j ->
  f (nth i l d) <> f (nth j l d).
Proof.
  induction l as [|x l IH]; intros i j Hn Hi Hj Hij; [cbn in Hi; lia|]. cbn [map] in Hn. inversion Hn as [|a b Hx Hl]; subst.
  destruct i as [|i]; destruct j as [|j]; [lia| | |].
  - cbn [nth]. intros E. apply Hx. rewrite E. apply in_map, nth_In. cbn in Hj. lia.
  - cbn [nth]. intros E. apply Hx. rewrite <- E. apply in_map, nth_In. cbn in Hi. lia.
  - cbn [nth]. apply IH; [exact Hl|cbn in Hi; lia|cbn in Hj; lia|lia].
Qed.

Lemma Subl_map' {A B} (f : A -> B) a b : Subl a b -> Subl (map f a) (map f b).
Proof. intros H. induction H; cbn [map]; constructor; assumption. Qed.
Lemma NoDup_Subl {A} (a b : list A) : Subl a b -> NoDup b -> NoDup a.
Proof.
  intros H. induction H as [|x a b H IH|x a b H IH]; intros Hn; [constructor| |].
  - inversion Hn as [|y l Hx Hl]; subst. constructor; [intros Hi; apply Hx; eapply Subl_In; eassumption|apply IH, Hl].
  - inversion Hn; subst. apply IH. assumption.
Qed.

Section Pe.
  Variable R : bytes.
  Notation P := (phiP R).
  Notation R' := (crlf R).
  Notation F := (phiI R).
  Notation N := (phiN R).
  Notation stC := (stC R).

  Definition noLF (a b : Z) : Prop := forall k, a <= k < b -> at_ R k <> 10.
  Lemma P_flat a b x y : noLF a b -> a <= x -> x <= y -> y <= b -> P y = P x + (y - x).
  Proof.
    intros H Hx Hxy Hy. replace y with (x + Z.of_nat (Z.to_nat (y - x))) at 1 by lia. rewrite P_add_noLF; [lia|].
    intros k Hk. apply H. lia.
  Qed.
  Lemma noLF_sub a b a' b' : noLF a b -> a <= a' -> b' <= b -> noLF a' b'.
  Proof. intros H Ha Hb k Hk. apply H. lia. Qed.

  Definition emphD (d : delim) : bool := (d_typ d =? tStar) || (d_typ d =? tUnder).
  Definition fpN (n : pn) : Prop := 0 <= ps n /\ ps n < pe n /\ noLF (ps n) (pe n).
  Definition Qd (S0 : list delim) (n : pn) : Prop := forall d, In d S0 -> emphD d = true -> pid n = d_node d -> fpN n.
  Definition QS (st : ist) : Prop := faL (Qd (stk st)) (rk st).
  Definition ND (st : ist) : Prop := NoDup (map d_node (stk st)).

  Lemma Qd_setKids S0 n ks : Qd S0 n -> Qd S0 (setKids n ks).
  Proof. intros H d Hd He Hp. destruct n. cbn [setKids pid] in Hp. specialize (H d Hd He Hp). exact H. Qed.
  Lemma Qd_sub S0 S1 : (forall d, In d S1 -> emphD d = true -> exists d0, In d0 S0 /\ emphD d0 = true /\ d_node d0 = d_node d) ->
    forall n, Qd S0 n -> Qd S1 n.
  Proof. intros Hs n H d Hd He Hp. destruct (Hs d Hd He) as (d0 & A & B & C). apply (H d0 A B). congruence. Qed.
  Lemma QS_setStk st v : QS st -> (forall d, In d v -> emphD d = true -> exists d0, In d0 (stk st) /\ emphD d0 = true /\ d_node d0 = d_node d) -> QS (setStk st v).
  Proof. intros H Hv. unfold QS. change (rk (setStk st v)) with (rk st). change (stk (setStk st v)) with v. eapply faL_impl; [apply Qd_sub, Hv|exact H]. Qed.
  Lemma sub_In (v S0 : list delim) : (forall d, In d v -> In d S0) ->
    forall d, In d v -> emphD d = true -> exists d0, In d0 S0 /\ emphD d0 = true /\ d_node d0 = d_node d.
  Proof. intros H d Hd He. exists d. split; [apply H, Hd|]. split; [exact He|reflexivity]. Qed.

  Lemma plen_fp n : fpN n -> plen (N n) = plen n /\ plen n = pe n - ps n.
  Proof.
    intros (A & B & C). unfold plen. rewrite ps_N, pe_N.
    pose proof (phiP_ge R (ps n) A) as G1. pose proof (phiP_lt R _ _ B) as G2.
    rewrite (spanLen_eq (ps n) (pe n)) by lia. rewrite (spanLen_eq (P (ps n)) (P (pe n))) by lia.
    split; [|reflexivity]. rewrite (P_flat (ps n) (pe n) (ps n) (pe n) C); lia.
  Qed.
  Lemma plen_nodeOf_crlf st st' d : stC st st' -> QS st -> In d (stk st) -> emphD d = true ->
    plen (nodeOf st' (d_node d)) = plen (nodeOf st (d_node d)).
  Proof.
    intros H HQ Hd He. rewrite (cC_nodeOf R _ _ _ H). unfold nodeOf.
    destruct (findNode (fsize (rk st)) (d_node d) (rk st)) as [m|] eqn:E; [|reflexivity].
    pose proof (faL_findNode _ _ _ _ _ HQ E) as Hm. pose proof (findNode_pid _ _ _ _ E) as Hp.
    apply (plen_fp m (Hm d Hd He Hp)).
  Qed.
  (* with unique identities, every node of the forest carrying a positive identity is the one nodeOf finds *)
  Lemma nodeOf_uniq st n : TI st -> In (hd1 n) (Hs st) -> 0 < pid n -> hd1 (nodeOf st (pid n)) = hd1 n.
  Proof.
    intros (U & _) Hi Hp. pose proof (uniq_hfind (Hs st) (hd1 n) (U (pid n) Hp) Hi) as Hf. change (key (hd1 n)) with (pid n) in Hf.
    unfold nodeOf. pose proof (findNode_hfind (pid n) (fsize (rk st)) (rk st) (le_n _)) as G. fold (Hs st) in G. rewrite Hf in G.
    destruct (findNode (fsize (rk st)) (pid n) (rk st)) as [m|]; [|discriminate G]. cbn [option_map] in G. congruence.
  Qed.
  Lemma hd1_plen n m : hd1 n = hd1 m -> plen n = plen m.
  Proof. unfold hd1, plen. intros E. inversion E. congruence. Qed.
  Lemma rk_inHdr st : faL (fun n => In (hd1 n) (Hs st)) (rk st).
  Proof. apply faL_hdrs. intros h Hh. exact Hh. Qed.

  Lemma ND_setStk st v : ND st -> Subl v (stk st) -> ND (setStk st v).
  Proof. intros H Hs. unfold ND. change (stk (setStk st v)) with v. eapply NoDup_Subl; [apply Subl_map', Hs|exact H]. Qed.
  Lemma QS_setStk_Subl st v : QS st -> Subl v (stk st) -> QS (setStk st v).
  Proof. intros H Hs. apply QS_setStk; [exact H|]. apply sub_In. intros d Hd. eapply Subl_In; eassumption. Qed.
  Lemma emphD_closer c : closerLike c = true -> emphD c = true.
  Proof. unfold closerLike, emphD. intros H. apply andb_true_iff in H. apply H. Qed.
  Lemma emphD_match o c : isEmphMatch o c = true -> emphD o = true.
  Proof. unfold isEmphMatch, emphD. intros H. rewrite !andb_true_iff in H. tauto. Qed.
  Lemma nthD_node_ne l i j : NoDup (map d_node l) -> 0 <= i < len l -> 0 <= j < len l -> i <> j -> d_node (nthD l i) <> d_node (nthD l j).
  Proof. intros Hn Hi Hj Hij. unfold nthD, len in *. apply NoDup_map_nth; [exact Hn|lia|lia|lia]. Qed.

  (* the shortening of a delimiter node commutes with the position map *)
  Definition shO (k : Z) (n : pn) : pn := setSpan n (ps n) (pe n - k).
  Definition shC (k : Z) (n : pn) : pn := setSpan n (ps n + k) (pe n).
  Lemma shO_N k n : fpN n -> 0 <= k <= pe n - ps n -> shO k (N n) = N (shO k n).
  Proof.
    intros (A & B & C) Hk. unfold shO. rewrite ps_N, pe_N, <- setSpan_N. f_equal.
    rewrite (P_flat (ps n) (pe n) (pe n - k) (pe n) C); lia.
  Qed.
  Lemma shC_N k n : fpN n -> 0 <= k <= pe n - ps n -> shC k (N n) = N (shC k n).
  Proof.
    intros (A & B & C) Hk. unfold shC. rewrite ps_N, pe_N, <- setSpan_N. f_equal.
    rewrite (P_flat (ps n) (pe n) (ps n) (ps n + k) C); lia.
  Qed.

  (* what is known about the nodes after the two updates of a match *)
  Definition Q4 (S0 : list delim) (io ic wo wc : Z) (n : pn) : Prop :=
    (pid n = io -> 0 <= ps n /\ noLF (ps n) (pe n) /\ pe n - ps n = wo /\ 0 <= wo) /\ (pid n = ic -> 0 <= ps n /\ noLF (ps n) (pe n) /\ pe n - ps n = wc /\ 0 <= wc) /\ (forall d, In d S0 -> emphD d = true -> d_node d <> io -> d_node d <> ic -> pid n = d_node d -> fpN n).
  Lemma Q4_setKids S0 io ic wo wc n ks : Q4 S0 io ic wo wc n -> Q4 S0 io ic wo wc (setKids n ks).
  Proof. destruct n. exact (fun H => H). Qed.

  (* an update that keeps kids and changes the predicate *)
  Lemma faL_updNode_kp2 (Q Q' : pn -> Prop) id g : (forall n, pkids (g n) = pkids n) -> (forall n, Q n -> Q' n) ->
    (forall n, Q n -> pid n = id -> Q' (g n)) -> (forall n ks, Q' n -> Q' (setKids n ks)) ->
    forall f l, faL Q l -> faL Q' (updNode f id g l).
  Proof.
    intros Hkp Himp Hg Hk. induction f as [|f IH]; intros l Hl; [eapply faL_impl; [exact Himp|exact Hl]|]. cbn [updNode]. apply faL_intro. intros m Hm.
    apply in_map_iff in Hm. destruct Hm as (n & <- & Hn). pose proof (faL_In Q l n Hl Hn) as Hq. apply faN_eq in Hq. destruct Hq as [Hq Hks].
    destruct (Z.eqb_spec (pid n) id) as [E|E].
    - apply faN_eq. split; [apply Hg; assumption|]. rewrite Hkp. eapply faL_impl; [exact Himp|exact Hks].
    - apply faN_eq. split; [apply Hk, Himp, Hq|]. destruct n; cbn [setKids pkids] in *. apply IH, Hks.
  Qed.
  Lemma pkids_shO k n : pkids (shO k n) = pkids n. Proof. destruct n; reflexivity. Qed.
  Lemma pkids_shC k n : pkids (shC k n) = pkids n. Proof. destruct n; reflexivity. Qed.

  Lemma delStack_one_ne (l : list delim) i d : NoDup (map d_node l) -> 0 <= i < len l -> In d (delStack l i (i + 1)) -> d_node d <> d_node (nthD l i).
  Proof.
    intros Hn Hi Hd. unfold delStack, upto, from_, nthD, len in *.
    assert (E : l = firstn (Z.to_nat i) l ++ nth (Z.to_nat i) l {| d_typ := 0; d_flags := 0; d_n := 0; d_node := -1 |} :: skipn (Z.to_nat (i + 1)) l).
    { replace (Z.to_nat (i + 1)) with (S (Z.to_nat i)) by lia.
      assert (G : forall (j : nat) (l0 : list delim), (j < length l0)%nat ->
                  l0 = firstn j l0 ++ nth j l0 {| d_typ := 0; d_flags := 0; d_n := 0; d_node := -1 |} :: skipn (S j) l0).
      { clear. induction j as [|j IH]; intros l0 Hj; (destruct l0 as [|x l0]; [cbn in Hj; lia|]); [reflexivity|].
        cbn [firstn nth skipn app]. f_equal. apply IH. cbn in Hj. lia. }
      apply G. lia. }
    rewrite E in Hn. rewrite map_app in Hn. cbn [map] in Hn. apply NoDup_remove_2 in Hn. intros Eq. apply Hn. rewrite <- Eq, <- map_app. apply in_map. exact Hd.
  Qed.

  (* the header of an identity after the tree surgery of a match *)
  Lemma Wh_after st o c k kind : TI st -> o <> c -> 0 < o < nid st -> 0 < c < nid st ->
    let s1 := updN st o (shO k) in let s2 := updN s1 c (shC k) in let sB := fst (wrap s2 kind o (Some c)) in
    hfind o (Hs sB) = option_map (Go k) (hfind o (Hs st)) /\ hfind c (Hs sB) = option_map (Gc k) (hfind c (Hs st)).
  Proof.
    intros HT Hoc Ho Hc. cbv zeta.
    set (s1 := updN st o (shO k)). set (s2 := updN s1 c (shC k)).
    assert (R1 : Forall2 (Rupd o (Go k)) (Hs st) (Hs s1)) by (unfold s1; rewrite Hs_updN; apply updNode_rel; intros n; [apply pkids_setSpan|apply hd1_Go]).
    assert (R2 : Forall2 (Rupd c (Gc k)) (Hs s1) (Hs s2)) by (unfold s2; rewrite Hs_updN; apply updNode_rel; intros n; [apply pkids_setSpan|apply hd1_Gc]).
    assert (E1 : hfind o (Hs s1) = option_map (Go k) (hfind o (Hs st))).
    { unfold s1. rewrite Hs_updN. apply updNode_hfind; [intros n; apply pkids_setSpan|intros n; apply hd1_Go|apply Go_key|apply le_n]. }
    assert (E2 : hfind c (Hs s2) = option_map (Gc k) (hfind c (Hs s1))).
    { unfold s2. rewrite Hs_updN. apply updNode_hfind; [intros n; apply pkids_setSpan|intros n; apply hd1_Gc|apply Gc_key|apply le_n]. }
    assert (Hn2 : nid s2 = nid st) by reflexivity.
    assert (HI : Ins (nid s2) (Hs s2) (Hs (fst (wrap s2 kind o (Some c))))) by (rewrite Hs_wrap; apply wrapIn_Ins).
    split.
    - rewrite (Ins_hfind (nid s2) o ltac:(change (nid s2) with (nid st); lia) _ _ HI), (rel_hfind_other c (Gc k) (Gc_key k) o ltac:(congruence) _ _ R2). exact E1.
    - rewrite (Ins_hfind (nid s2) c ltac:(change (nid s2) with (nid st); lia) _ _ HI), E2, (rel_hfind_other o (Go k) (Go_key k) c ltac:(congruence) _ _ R1). reflexivity.
  Qed.
  Lemma rk_wrap st kind o eid : rk (fst (wrap st kind o eid)) =
    wrapIn (fsize (rk st)) (nid st) kind o eid (match eid with Some i => Some (ps (nodeOf st i)) | None => None end) (rootEnd st) (rk st).
  Proof. reflexivity. Qed.

  (* the remaining length of a matched delimiter node after the surgery, read off the header list *)
  Lemma after_len (Q : pn -> Prop) st id (G : hdr -> hdr) (H2 : list hdr) w k :
    faL Q (rk st) -> (forall n, Q n -> pid n = id -> fpN n /\ pe n - ps n = w /\ k <= w) -> 0 <= k ->
    hfind id H2 = option_map G (hfind id (Hs st)) -> (G = Go k \/ G = Gc k) -> Wh id H2 <> 0 -> 0 < w - k.
  Proof.
    intros HQ Hq Hk E HG Hne. unfold Wh in Hne. rewrite E in Hne.
    pose proof (findNode_hfind id (fsize (rk st)) (rk st) (le_n _)) as G0. fold (Hs st) in G0.
    destruct (findNode (fsize (rk st)) id (rk st)) as [m|] eqn:Em; cbn [option_map] in G0; rewrite <- G0 in Hne; [|exfalso; apply Hne; reflexivity].
    destruct (Hq m (faL_findNode _ _ _ _ _ HQ Em) (findNode_pid _ _ _ _ Em)) as ((A & B & _) & Hw & Hkw).
    cbn [option_map] in Hne. unfold hd1 in Hne. destruct HG as [-> | ->]; cbn [Go Gc] in Hne; apply spanLen_pos in Hne; lia.
  Qed.

  Lemma pe_step_sim sb st st' ob cp : stC st st' -> TI st -> QS st -> ND st -> Inv sb (stk st) ob cp ->
    match pe_step st ob cp, pe_step st' ob cp with
    | Some (s1, ob1, cp1), Some (s1', ob1', cp1') => ob1' = ob1 /\ cp1' = cp1 /\ stC s1 s1' /\ QS s1 /\ ND s1
    | None, None => True
    | _, _ => False
    end.
  Proof.
    intros H HT HQ HN HI. unfold pe_step. cbv zeta. rewrite (stC_stk R _ _ H).
    set (stack := stk st) in *.
    set (cp1 := pe_findCloser (S (length stack)) stack cp).
    destruct (Z.ltb_spec cp1 0) as [Lc|Lc]; [exact I|].
    destruct (findCloser_spec _ _ _ _ eq_refl Lc) as [Hc1 Hcl]. fold cp1 in Hc1, Hcl.
    set (c := nthD stack cp1) in *.
    destruct HI as (Hsb & Hob & Hsbcp & Hrng & Hno).
    pose proof (obIndex_range c Hcl) as Hoi.
    assert (Hlo : sb <= getOB ob (obIndex c) <= cp) by (apply Hrng; unfold OBN; lia).
    set (lo := getOB ob (obIndex c)) in *.
    set (oi := pe_findOpener (S (length stack)) stack (cp1 - 1) lo c).
    destruct (Z.leb_spec lo oi) as [Lo|Lo].
    2:{ destruct (negb (hasFlag c fOpener)).
        - split; [reflexivity|]. split; [reflexivity|]. split; [apply stC_setStk, H|].
          split; [apply QS_setStk_Subl; [exact HQ|apply Subl_delStack; lia]|apply ND_setStk; [exact HN|apply Subl_delStack; lia]].
        - split; [reflexivity|]. split; [reflexivity|]. split; [exact H|]. split; assumption. }
    (* a match *)
    assert (Hfo : (Z.to_nat (cp1 - 1 - lo + 1) < S (length stack))%nat) by (unfold len in Hc1; lia).
    destruct (findOpener_spec stack c lo (S (length stack)) (cp1 - 1) Hfo) as [(Hr & _)|(Hr & Hm & _)]; fold oi in Hr; [lia|]. fold oi in Hm.
    set (o := nthD stack oi) in *.
    assert (Ho : In o stack) by (apply nthD_In; lia). assert (Hc : In c stack) by (apply nthD_In; lia).
    pose proof (emphD_match o c Hm) as Eo. pose proof (emphD_closer c Hcl) as Ec.
    assert (Hne : d_node o <> d_node c) by (apply nthD_node_ne; [exact HN|lia|lia|lia]).
    destruct HT as (HU & HB & HS1 & HS2). assert (HT : TI st) by (split; [exact HU|split; [exact HB|split; assumption]]).
    pose proof (HS1 o Ho) as Hio. pose proof (HS1 c Hc) as Hic.
    rewrite (plen_nodeOf_crlf st st' o H HQ Ho Eo), (plen_nodeOf_crlf st st' c H HQ Hc Ec).
    set (io := d_node o) in *. set (ic := d_node c) in *.
    set (wo := plen (nodeOf st io)). set (wc := plen (nodeOf st ic)).
    set (strong := (2 <=? wo) && (2 <=? wc)). set (k := if strong then 2 else 1).
    set (kindE := if strong then StrongKind else EmphasisKind).
    fold (shO k). fold (shC k).
    assert (Hk0 : 1 <= k) by (unfold k; destruct strong; lia).
    set (rest := fun n : pn => forall d, In d stack -> emphD d = true -> d_node d <> io -> d_node d <> ic -> pid n = d_node d -> fpN n).
    set (Qa := fun n : pn => (pid n = io -> fpN n /\ pe n - ps n = wo /\ k <= wo) /\ (pid n = ic -> fpN n /\ pe n - ps n = wc /\ k <= wc) /\ rest n).
    assert (HA : faL Qa (rk st)).
    { eapply faL_impl; [|apply (faL_and _ _ _ (rk_inHdr st) HQ)]. cbv beta. intros n [Hin Hq].
      assert (G : forall d, In d stack -> emphD d = true -> pid n = d_node d -> fpN n /\ pe n - ps n = plen (nodeOf st (d_node d))).
      { intros d Hd He Hp. pose proof (Hq d Hd He Hp) as Hf. split; [exact Hf|].
        pose proof (HS1 d Hd) as Hid. pose proof (nodeOf_uniq st n HT Hin ltac:(lia)) as Hu. rewrite Hp in Hu.
        rewrite (hd1_plen _ _ Hu). symmetry. apply (plen_fp n Hf). }
      split; [|split].
      - intros Hp. destruct (G o Ho Eo Hp) as [Hf Hw]. fold io wo in Hw. split; [exact Hf|]. split; [exact Hw|].
        unfold k, strong. destruct Hf as (_ & Hlt & _). destruct (Z.leb_spec 2 wo); destruct (2 <=? wc); cbn [andb]; lia.
      - intros Hp. destruct (G c Hc Ec Hp) as [Hf Hw]. fold ic wc in Hw. split; [exact Hf|]. split; [exact Hw|].
        unfold k, strong. destruct Hf as (_ & Hlt & _). destruct (2 <=? wo); destruct (Z.leb_spec 2 wc); cbn [andb]; lia.
      - intros d Hd He _ _ Hp. apply (Hq d Hd He Hp). }
    (* first update *)
    assert (H1 : stC (updN st io (shO k)) (updN st' io (shO k))).
    { eapply stC_updN; [exact H|exact HA|]. cbv beta. intros n [A _] Hp. destruct (A Hp) as (Hf & Hw & Hkw). apply shO_N; [exact Hf|lia]. }
    set (s1 := updN st io (shO k)) in *. set (s1' := updN st' io (shO k)) in *.
    set (Qb := fun n : pn => (pid n = io -> 0 <= ps n /\ noLF (ps n) (pe n) /\ (pe n - ps n = wo - k \/ pe n - ps n = wo) /\ k <= wo) /\
                             (pid n = ic -> fpN n /\ pe n - ps n = wc /\ k <= wc) /\ rest n).
    assert (HB1 : faL Qb (rk s1)).
    { unfold s1, updN. change (rk (setRk st ?v)) with v. apply (faL_updNode_kp2 Qa Qb io (shO k)); [apply pkids_shO| | | |exact HA].
      - intros n (A & B & C). split; [|split; assumption]. intros Hp. destruct (A Hp) as ((A1 & A2 & A3) & A4 & A5). split; [exact A1|]. split; [exact A3|]. split; [right; exact A4|exact A5].
      - intros n (A & B & C) Hp. destruct (A Hp) as ((A1 & A2 & A3) & A4 & A5). unfold shO. destruct n as [i0 k0 s0 e0 ind0 r0 ks0]. cbn [setSpan pid ps pe] in *.
        split; [|split]; cbn [ps pe pid].
        + intros _. split; [exact A1|]. split; [eapply noLF_sub; [exact A3|lia|lia]|]. split; [left; lia|exact A5].
        + intros Hp2. cbn [pid] in Hp2. exfalso. apply Hne. congruence.
        + intros d Hd He N1 N2 Hp2. cbn [pid] in Hp2. exfalso. apply N1. congruence.
      - intros n ks. destruct n. exact (fun X => X). }
    (* second update *)
    assert (H2 : stC (updN s1 ic (shC k)) (updN s1' ic (shC k))).
    { eapply stC_updN; [exact H1|exact HB1|]. cbv beta. intros n (_ & B & _) Hp. destruct (B Hp) as (Hf & Hw & Hkw). apply shC_N; [exact Hf|lia]. }
    set (s2 := updN s1 ic (shC k)) in *. set (s2' := updN s1' ic (shC k)) in *.
    set (Qc := fun n : pn => (pid n = io -> 0 <= ps n /\ noLF (ps n) (pe n) /\ (pe n - ps n = wo - k \/ pe n - ps n = wo) /\ k <= wo) /\
                             (pid n = ic -> 0 <= ps n /\ noLF (ps n) (pe n) /\ (pe n - ps n = wc - k \/ pe n - ps n = wc) /\ k <= wc) /\ rest n).
    assert (Qc_kids : forall n ks, Qc n -> Qc (setKids n ks)) by (intros n ks; destruct n; exact (fun X => X)).
    assert (HC2 : faL Qc (rk s2)).
    { unfold s2, updN. change (rk (setRk s1 ?v)) with v. apply (faL_updNode_kp2 Qb Qc ic (shC k)); [apply pkids_shC| | |exact Qc_kids|exact HB1].
      - intros n (A & B & C). split; [exact A|]. split; [|exact C]. intros Hp. destruct (B Hp) as ((A1 & A2 & A3) & A4 & A5). split; [exact A1|]. split; [exact A3|]. split; [right; exact A4|exact A5].
      - intros n (A & B & C) Hp. destruct (B Hp) as ((A1 & A2 & A3) & A4 & A5). unfold shC. destruct n as [i0 k0 s0 e0 ind0 r0 ks0]. cbn [setSpan pid ps pe] in *.
        split; [|split]; cbn [ps pe pid].
        + intros Hp2. cbn [pid] in Hp2. exfalso. apply Hne. congruence.
        + intros _. split; [lia|]. split; [eapply noLF_sub; [exact A3|lia|lia]|]. split; [left; lia|exact A5].
        + intros d Hd He N1 N2 Hp2. cbn [pid] in Hp2. exfalso. apply N2. congruence. }
    (* the new container *)
    pose proof (A_surgery st io ic k kindE (conj HU HB) Hio Hic Hk0) as HS. cbv zeta in HS. fold (shO k) in HS. fold (shC k) in HS. fold s1 s2 in HS.
    destruct HS as (HF3 & Hn3 & _).
    pose proof (Wh_after st io ic k kindE HT Hne Hio Hic) as HW. cbv zeta in HW. fold s1 s2 in HW. destruct HW as [HWo HWc].
    assert (HC3 : faL Qc (rk (fst (wrap s2 kindE io (Some ic))))).
    { rewrite rk_wrap. apply faL_wrapIn; [|exact Qc_kids|exact HC2]. intros s e ks. change (nid s2) with (nid st).
      split; [|split]; [intros Hp; cbn [pid] in Hp; lia|intros Hp; cbn [pid] in Hp; lia|].
      intros d Hd He _ _ Hp. cbn [pid] in Hp. pose proof (HS1 d Hd). lia. }
    pose proof (cC_wrap R s2 s2' kindE io (Some ic) H2) as [_ H3].
    assert (Hstk3 : stk (fst (wrap s2 kindE io (Some ic))) = stack) by reflexivity.
    destruct (wrap s2 kindE io (Some ic)) as [s3 w3]. destruct (wrap s2' kindE io (Some ic)) as [s3' w3']. cbn [fst] in H3, HF3, Hn3, HWo, HWc, HC3, Hstk3.
    rewrite (stC_stk R _ _ H3), Hstk3.
    set (l1 := delStack stack (oi + 1) cp1).
    assert (Hl1 : Subl l1 stack) by (apply Subl_delStack; lia).
    assert (Hlen1 : len l1 = len stack - (cp1 - (oi + 1))) by (apply len_delStack; lia).
    assert (Eo1 : nthD l1 oi = o) by (unfold l1; rewrite nthD_del by lia; destruct (Z.ltb_spec oi (oi + 1)); [reflexivity|lia]).
    assert (Ec1 : nthD l1 (oi + 1) = c).
    { unfold l1. rewrite nthD_del by lia. destruct (Z.ltb_spec (oi + 1) (oi + 1)); [lia|]. unfold c. f_equal. lia. }
    assert (HN1 : NoDup (map d_node l1)) by (eapply NoDup_Subl; [apply Subl_map', Hl1|exact HN]).
    pose proof (stC_setStk R _ _ l1 H3) as H4.
    set (s4 := setStk s3 l1) in *. set (s4' := setStk s3' l1) in *.
    rewrite (cC_nodeOf R _ _ io H4), plen_N0.
    change (stk s4) with l1. change (stk s4') with l1.
    (* the lengths after the surgery *)
    assert (Ho4 : plen (nodeOf s4 io) <> 0 -> 0 < wo - k).
    { rewrite plen_nodeOf. change (hdrs (rk s4)) with (Hs s3). apply (after_len Qa st io (Go k) (Hs s3) wo k HA); [|lia|exact HWo|left; reflexivity].
      intros n (A & _) Hp. exact (A Hp). }
    assert (Hc4 : Wh ic (Hs s3) <> 0 -> 0 < wc - k).
    { apply (after_len Qa st ic (Gc k) (Hs s3) wc k HA); [|lia|exact HWc|right; reflexivity]. intros n (_ & B & _) Hp. exact (B Hp). }
    (* from the facts about the nodes to the stack predicate, for a stack that no longer holds the emptied delimiters *)
    assert (Fin : forall (S1 : list delim) l, (forall d, In d S1 -> In d stack) ->
              ((exists d, In d S1 /\ d_node d = io) -> 0 < wo - k) -> ((exists d, In d S1 /\ d_node d = ic) -> 0 < wc - k) -> faL Qc l -> faL (Qd S1) l).
    { intros S1 l Hsub Hso Hsc Hl. eapply faL_impl; [|exact Hl]. intros n (A & B & C) d Hd He Hp.
      destruct (Z.eq_dec (d_node d) io) as [E1|E1].
      - rewrite E1 in Hp. destruct (A Hp) as (A1 & A2 & A3 & A4). pose proof (Hso (ex_intro _ d (conj Hd E1))). split; [exact A1|]. split; [lia|exact A2].
      - destruct (Z.eq_dec (d_node d) ic) as [E2|E2].
        + rewrite E2 in Hp. destruct (B Hp) as (A1 & A2 & A3 & A4). pose proof (Hsc (ex_intro _ d (conj Hd E2))). split; [exact A1|]. split; [lia|exact A2].
        + apply (C d (Hsub d Hd) He E1 E2 Hp). }
    destruct (plen (nodeOf s4 io) =? 0) eqn:Eo4.
    - (* the opener node is used up *)
      apply Z.eqb_eq in Eo4.
      set (l2 := delStack l1 oi (oi + 1)).
      assert (Hl2 : Subl l2 l1) by (apply Subl_delStack; lia).
      assert (Ec2 : nthD l2 oi = c) by (unfold l2; rewrite nthD_del by lia; destruct (Z.ltb_spec oi oi); [lia|]; rewrite <- Ec1; f_equal; lia).
      assert (Hlen2 : len l2 = len l1 - 1) by (unfold l2; rewrite len_delStack by lia; lia).
      assert (HN2 : NoDup (map d_node l2)) by (eapply NoDup_Subl; [apply Subl_map', Hl2|exact HN1]).
      assert (Hno2 : forall d, In d l2 -> d_node d <> io) by (intros d Hd; unfold io; rewrite <- Eo1; apply (delStack_one_ne l1 oi d HN1 ltac:(lia) Hd)).
      pose proof (stC_setStk R _ _ l2 (stC_removeNode R _ _ io H4)) as H5.
      set (s5 := setStk (removeNode s4 io) l2) in *. set (s5' := setStk (removeNode s4' io) l2) in *.
      rewrite (cC_nodeOf R _ _ ic H5), plen_N0. change (stk s5) with l2. change (stk s5') with l2.
      assert (HC5 : faL Qc (rk s5)) by (unfold s5, removeNode; change (rk (setStk (setRk s4 ?v) l2)) with v; apply faL_removeId; [exact Qc_kids|exact HC3]).
      assert (Hc5 : plen (nodeOf s5 ic) <> 0 -> 0 < wc - k).
      { rewrite plen_nodeOf. intros Hw. apply Hc4. change (hdrs (rk s5)) with (Hs (removeNode s4 io)) in Hw. rewrite Hs_removeNode in Hw.
        change (rk s4) with (rk s3) in Hw.
        destruct (Subseq_hfind ic _ _ (removeId_Subseq io (fsize (rk s3)) (rk s3)) (proj1 HF3 ic ltac:(lia))) as [E|E]; unfold Wh in *; fold (Hs s3) in E; rewrite E in Hw; [exact Hw|exfalso; apply Hw; reflexivity]. }
      destruct (plen (nodeOf s5 ic) =? 0) eqn:Ec5.
      + replace (oi + 1 - 1) with oi by lia. set (l3 := delStack l2 oi (oi + 1)).
        assert (Hl3 : Subl l3 l2) by (apply Subl_delStack; lia).
        split; [reflexivity|]. split; [reflexivity|]. split; [apply stC_setStk, stC_removeNode, H5|]. split.
        * unfold QS. change (stk (setStk (removeNode s5 ic) l3)) with l3. change (rk (setStk (removeNode s5 ic) l3)) with (removeId (fsize (rk s5)) ic (rk s5)).
          apply Fin; [intros d Hd; eapply Subl_In; [exact Hl1|]; eapply Subl_In; [exact Hl2|]; eapply Subl_In; eassumption| | |apply faL_removeId; [exact Qc_kids|exact HC5]].
          -- intros (d & Hd & E). exfalso. apply (Hno2 d); [eapply Subl_In; eassumption|exact E].
          -- intros (d & Hd & E). exfalso. revert E. unfold ic. rewrite <- Ec2. apply (delStack_one_ne l2 oi d HN2 ltac:(lia) Hd).
        * unfold ND. change (stk (setStk (removeNode s5 ic) l3)) with l3. eapply NoDup_Subl; [apply Subl_map', Hl3|exact HN2].
      + apply Z.eqb_neq in Ec5.
        split; [reflexivity|]. split; [reflexivity|]. split; [exact H5|]. split.
        * unfold QS. change (stk s5) with l2. apply Fin; [intros d Hd; eapply Subl_In; [exact Hl1|]; eapply Subl_In; eassumption| | |exact HC5].
          -- intros (d & Hd & E). exfalso. apply (Hno2 d Hd E).
          -- intros _. apply Hc5, Ec5.
        * exact HN2.
    - (* the opener node stays *)
      apply Z.eqb_neq in Eo4. rewrite (cC_nodeOf R _ _ ic H4), plen_N0.
      assert (HC4 : faL Qc (rk s4)) by exact HC3.
      assert (Hc4' : plen (nodeOf s4 ic) <> 0 -> 0 < wc - k) by (rewrite plen_nodeOf; exact Hc4).
      destruct (plen (nodeOf s4 ic) =? 0) eqn:Ec5.
      + set (l3 := delStack l1 (oi + 1) (oi + 1 + 1)).
        assert (Hl3 : Subl l3 l1) by (apply Subl_delStack; lia).
        split; [reflexivity|]. split; [reflexivity|]. split; [apply stC_setStk, stC_removeNode, H4|]. split.
        * unfold QS. change (stk (setStk (removeNode s4 ic) l3)) with l3. change (rk (setStk (removeNode s4 ic) l3)) with (removeId (fsize (rk s4)) ic (rk s4)).
          apply Fin; [intros d Hd; eapply Subl_In; [exact Hl1|]; eapply Subl_In; eassumption| | |apply faL_removeId; [exact Qc_kids|exact HC4]].
          -- intros _. apply Ho4, Eo4.
          -- intros (d & Hd & E). exfalso. revert E. unfold ic. rewrite <- Ec1. apply (delStack_one_ne l1 (oi + 1) d HN1 ltac:(lia) Hd).
        * unfold ND. change (stk (setStk (removeNode s4 ic) l3)) with l3. eapply NoDup_Subl; [apply Subl_map', Hl3|exact HN1].
      + apply Z.eqb_neq in Ec5.
        split; [reflexivity|]. split; [reflexivity|]. split; [exact H4|]. split.
        * unfold QS. change (stk s4) with l1. apply Fin; [intros d Hd; eapply Subl_In; eassumption| | |exact HC4].
          -- intros _. apply Ho4, Eo4.
          -- intros _. apply Hc4', Ec5.
        * exact HN1.
  Qed.

  Lemma pe_loop_sim sb : forall f st st' ob cp, stC st st' -> TI st -> QS st -> ND st -> Inv sb (stk st) ob cp ->
    stC (pe_loop f st ob cp) (pe_loop f st' ob cp) /\ QS (pe_loop f st ob cp) /\ ND (pe_loop f st ob cp).
  Proof.
    induction f as [|f IH]; intros st st' ob cp H HT HQ HN HI; [split; [exact H|split; assumption]|]. rewrite !pe_loop_step.
    pose proof (pe_step_sim sb st st' ob cp H HT HQ HN HI) as HS.
    destruct (pe_step st ob cp) as [[[s1 ob1] cp1]|] eqn:E; destruct (pe_step st' ob cp) as [[[s1' ob1'] cp1']|]; try contradiction; [|split; [exact H|split; assumption]].
    destruct HS as (-> & -> & H1 & HQ1 & HN1). destruct (pe_step_inv sb st ob cp s1 ob1 cp1 HI HT E) as (A & B & _).
    apply IH; assumption.
  Qed.
  Lemma processEmphasisF_sim pf st st' sb : stC st st' -> TI st -> QS st -> ND st -> 0 <= sb ->
    stC (processEmphasisF pf st sb) (processEmphasisF pf st' sb) /\ QS (processEmphasisF pf st sb) /\ ND (processEmphasisF pf st sb) /\
    TI (processEmphasisF pf st sb).
  Proof.
    intros H HT HQ HN Hsb. unfold processEmphasisF. cbv zeta.
    destruct (pe_loop_sim sb pf st st' (repeat sb 14) sb H HT HQ HN (Inv_init sb _ Hsb)) as (H1 & HQ1 & HN1).
    destruct (pe_loop_inv sb pf st (repeat sb 14) sb (Inv_init sb _ Hsb) HT) as [HT1 HM1].
    set (s1 := pe_loop pf st (repeat sb 14) sb) in *. set (s1' := pe_loop pf st' (repeat sb 14) sb) in *.
    rewrite (stC_stk R _ _ H1).
    assert (HSub : Subl (upto (stk s1) sb) (stk s1)) by apply Subl_firstn.
    split; [apply stC_setStk, H1|]. split; [apply QS_setStk_Subl; assumption|]. split; [apply ND_setStk; assumption|].
    destruct HT1 as (U & B & S1 & S2). split; [exact U|]. split; [exact B|].
    split; intros d Hd; [apply S1|apply S2]; (eapply Subl_In; [exact HSub|exact Hd]).
  Qed.
End Pe.

Print Assumptions processEmphasisF_sim.
