From Coq Require Import List ZArith Lia Bool.
Import ListNotations.
Require Import Base Tree Rdr Link Collect ShapesBase ShapesR IFBase EolCRLFDefs EolCRLFSimBytes EolCRLFSimStream EolGenCrlfRdrDefs EolGenCrlfRdrStep.
Open Scope Z_scope.

Section Next.
  Variable R : bytes.
  Variable Eb : Z.
  Hypothesis R13 : ~ In 13 R.
  Notation P := (phiP R).
  Notation R' := (crlf R).
  Notation F := (phiI R).
  Notation RR := (RR R Eb).
  Notation RR0 := (RR0 R Eb).
  Notation RM := (RM R Eb).
  Notation PVc := (PVc R).
  Notation SPI := (SPI R Eb).

  Lemma mk_RR sp p v pv p' pv' : SPI sp -> p' = P p -> pv' + 1 = P (pv + 1) ->
    RR {| r_src := R; r_spans := sp; r_pos := p; r_vpos := v; r_prev := pv |}
       {| r_src := R'; r_spans := map F sp; r_pos := p'; r_vpos := v; r_prev := pv' |}.
  Proof. intros H1 H2 H3. split; [repeat split; try reflexivity; try assumption; apply H1|exact H3]. Qed.

  (* ---------------------------------------------------------------- the stutter state *)
  Lemma RM_cn r m : RM r m -> fst (curNode m) = option_map F (fst (curNode r)) /\ r_spans (snd (curNode m)) = r_spans m.
  Proof.
    intros (A & B & C & D & E & G & H & _).
    destruct (curNode_fields r) as (A1 & A2 & A3 & A4). cbv zeta in *.
    destruct (curNode_F R (snd (curNode r)) m C) as [X Y].
    { rewrite A2, D. apply posR_mid, H. }
    rewrite curNode_idem in X, Y. split; [exact X|]. rewrite Y, C. reflexivity.
  Qed.
  Lemma RM_cur_r x m : RM x m -> RM x (snd (current m)).
  Proof.
    intros H. pose proof (RM_cn x m H) as [_ Y]. destruct (current_fields m) as (B1 & B2 & B3 & B4). cbv zeta in *.
    assert (Es : r_spans (snd (current m)) = r_spans m) by (destruct (current_snd m) as [E|E]; rewrite E; [reflexivity|exact Y]).
    unfold EolGenCrlfRdrStep.RM in *. rewrite Es, B1, B2, B3, B4. exact H.
  Qed.
  Lemma RM_lt r m : RM r m -> r_pos r < len R.
  Proof.
    intros (_ & _ & _ & _ & _ & _ & H & _). unfold at_ in H. destruct (r_pos r <? 0); [discriminate|].
    destruct (Z.lt_ge_cases (r_pos r) (len R)) as [L|L]; [exact L|]. rewrite nth_overflow in H; [discriminate|unfold len in L; lia].
  Qed.
  Lemma RM_current r m : RM r m -> cur r = 10 /\ cur m = 10 /\ RM (snd (current r)) (snd (current m)).
  Proof.
    intros H. pose proof (RM_cn r m H) as [X _]. pose proof (RM_lt r m H) as Hl. pose proof H as (A & B & C & D & E & G & H10 & Hpv & node & Hn & Hk).
    split; [apply (cur_at R); [exact A|exact H10|rewrite Hn; exact Hk]|]. split; [|apply RM_cur_r, RM_cur_l, H].
    unfold cur, current. rewrite B, D, len_R', (posR_le R _ _ _ (posR_mid R _ H10)).
    destruct (Z.leb_spec (len R) (r_pos r)) as [L|L]; [lia|]. rewrite Hn in X. cbn [option_map] in X.
    destruct (curNode m) as [n' m1]. cbn [fst] in X. subst n'. cbn [okind]. rewrite ikind_phiI.
    destruct (Z.eqb_spec (ikind node) IndentKind); [contradiction|]. rewrite (at_P1 R _ H10). reflexivity.
  Qed.

  Lemma SPI_nextSpan sp i sp2 : SPI sp -> nextSpan sp = Some (i, sp2) -> SPI sp2.
  Proof. intros H E. destruct (nextSpan_split _ _ _ E) as (pre & rest & E1 & E2). subst sp sp2. eapply SPI_app_r; exact H. Qed.
  Lemma SPI_tl u sp : SPI (u :: sp) -> SPI sp.
  Proof. intros H. apply (SPI_app_r R Eb [u] sp H). Qed.

  Lemma RM_next r m : RM r m ->
    fst (next m) = fst (next r) /\ RR (snd (next r)) (snd (next m)) /\ PVc (snd (next r)) (snd (next m)).
  Proof.
    intros H. pose proof (RM_cn r m H) as [X Y]. pose proof H as (A & B & C & D & E & G & H10 & Hpv & node & Hn & Hk).
    pose proof (P_succ_lf R _ H10) as Hs.
    unfold next.
    destruct (curNode_cases r) as [Ec|(pre & n & rest & E1 & Ec & E3)]; rewrite Ec in Hn, C, X; cbn [fst snd withSpans r_spans] in Hn, C, X; [discriminate|].
    inversion Hn; subst n. clear Hn. rewrite Ec.
    assert (G1 : SPI (node :: rest)) by (rewrite E1 in G; eapply SPI_app_r; exact G).
    destruct (curNode_fields m) as (B1 & B2 & B3 & B4). cbv zeta in *.
    destruct (curNode m) as [n' m1]. cbn [fst snd] in *. subst n'.
    destruct m1 as [s1 sp1 p1 v1 pv1]. cbn [r_src r_spans r_pos r_vpos r_prev] in *. subst s1 sp1 p1 v1 pv1.
    rewrite B, C, D, E, Hpv. cbn [withSpans r_src r_spans r_pos r_vpos r_prev map tl option_map]. rewrite ikind_phiI, iend_phiI.
    destruct (Z.eqb_spec (ikind node) IndentKind) as [K|K]; [contradiction|]. cbn [andb negb].
    replace (P (r_pos r) + 1 + 1) with (P (r_pos r + 1)) by lia. rewrite phiP_ltb.
    destruct (r_pos r + 1 <? iend node).
    - cbn [fst snd]. split; [reflexivity|]. rewrite A, at_P0, (at_P1 R _ H10), H10. change (10 =? 0) with false. cbv iota.
      split; [apply mk_RR; [exact G1|reflexivity|lia]|]. unfold EolGenCrlfRdrStep.PVc. cbn [r_prev]. lia.
    - rewrite nextSpan_F. destruct (nextSpan rest) as [[i sp2]|] eqn:En; cbn [option_map fst snd].
      + split; [reflexivity|]. rewrite istart_phiI, cnvp_F by exact R13. rewrite A.
        split; [apply mk_RR; [eapply SPI_nextSpan; [apply (SPI_tl node), G1|exact En]|reflexivity|lia]|].
        unfold EolGenCrlfRdrStep.PVc. cbn [r_prev]. lia.
      + split; [reflexivity|]. rewrite A.
        split; [apply (mk_RR []); [apply SPI_nil|lia|lia]|]. unfold EolGenCrlfRdrStep.PVc. cbn [r_prev]. lia.
  Qed.

  (* ---------------------------------------------------------------- one step from a synchronised pair *)
  Lemma ind_pos n rest p : SPI (n :: rest) -> ikind n = IndentKind -> spanHas n p = true -> p = istart n /\ at_ R p <> 10.
  Proof.
    intros (_ & _ & _ & C & _) K Hh. cbn [forallb] in C. apply andb_true_iff in C. destruct C as [C _]. unfold indOK1 in C. rewrite K in C.
    change (IndentKind =? IndentKind) with true in C. cbn [negb orb] in C. apply andb_true_iff in C. destruct C as [C1 C2].
    apply Z.eqb_eq in C1. apply negb_true_iff, Z.eqb_neq in C2. pose proof (spanHas_range _ _ Hh) as (S1 & S2 & S3).
    assert (p = istart n) by lia. subst p. split; [reflexivity|exact C2].
  Qed.

  Lemma leave_sim rest q v : SPI rest -> at_ R q <> 10 ->
    let X := match nextSpan rest with
             | Some (i, sp) => (true, {| r_src := R; r_spans := sp; r_pos := istart i; r_vpos := computeNullVirtualPosition R (istart i); r_prev := q |})
             | None => (false, {| r_src := R; r_spans := []; r_pos := q + 1; r_vpos := v; r_prev := q |})
             end in
    let X' := match nextSpan (map F rest) with
              | Some (i, sp) => (true, {| r_src := R'; r_spans := sp; r_pos := istart i; r_vpos := computeNullVirtualPosition R' (istart i); r_prev := P q |})
              | None => (false, {| r_src := R'; r_spans := []; r_pos := P q + 1; r_vpos := v; r_prev := P q |})
              end in
    fst X' = fst X /\ RR (snd X) (snd X').
  Proof.
    intros G N10. cbv zeta. pose proof (P_succ_n R _ N10) as Hs.
    rewrite nextSpan_F. destruct (nextSpan rest) as [[i sp2]|] eqn:En; cbn [option_map fst snd].
    - split; [reflexivity|]. rewrite istart_phiI, cnvp_F by exact R13.
      apply mk_RR; [eapply SPI_nextSpan; [exact G|exact En]|reflexivity|lia].
    - split; [reflexivity|]. apply (mk_RR []); [apply SPI_nil|lia|lia].
  Qed.

  Lemma RR_next r r' : RR r r' ->
    (fst (next r') = fst (next r) /\ RR (snd (next r)) (snd (next r')) /\ (cur r = 10 -> fst (next r) = false))
    \/ (cur r = 10 /\ InNode r /\ exists m, next r' = (true, m) /\ RM r m).
  Proof.
    intros H. pose proof (RR_curNode R Eb r r' H) as [X Y]. pose proof H as ((A & B & C & D & E & G) & HP).
    destruct (curNode_fields r') as (B1 & B2 & B3 & B4). cbv zeta in *.
    destruct (curNode_cases r) as [Ec|(pre & n & rest & E1 & Ec & E3)].
    - left. unfold next. rewrite Ec in X, Y |- *. cbn [fst snd] in X, Y. destruct (curNode r') as [n' r1']. cbn [fst snd] in *. subst n'. cbn [option_map fst snd].
      split; [reflexivity|]. split; [exact Y|]. intros _; reflexivity.
    - assert (HIn : InNode r) by (exists n; rewrite Ec; reflexivity).
      assert (G1 : SPI (n :: rest)) by (rewrite E1 in G; eapply SPI_app_r; exact G).
      pose proof (spanHas_range _ _ E3) as (S1 & S2 & S3).
      assert (Kc : okind (fst (curNode r)) = ikind n) by (rewrite Ec; reflexivity).
      unfold next. rewrite Ec in X, Y |- *. cbn [fst snd] in X, Y. destruct Y as ((_ & Y2 & Y3 & Y4 & Y5 & _) & _).
      destruct (curNode r') as [n' r1']. cbn [fst snd] in *. subst n'. cbn [option_map].
      destruct r1' as [s1 sp1 p1 v1 pv1]. cbn [withSpans r_src r_spans r_pos r_vpos r_prev] in *. subst s1 sp1 p1 v1 pv1.
      rewrite A. cbn [map tl]. rewrite ikind_phiI, iindent_phiI, iend_phiI.
      assert (Hv : at_ R (r_pos r) <> 10 -> cur r = 10 -> False).
      { intros N10 N1. destruct (cur_10 R r A N1) as [Q _]. contradiction. }
      pose proof (fun N10 => leave_sim rest (r_pos r) (r_vpos r) (SPI_tl n rest G1) N10) as Hgo. cbv zeta in Hgo.
      destruct (Z.eqb_spec (ikind n) IndentKind) as [K|K]; cbn [andb negb].
      + (* an Indent node: one byte wide, not on an LF *)
        left. destruct (ind_pos n rest (r_pos r) G1 K E3) as [Ep N10]. pose proof (P_succ_n R _ N10) as Hs.
        destruct (r_vpos r <? iindent n).
        * cbn [fst snd]. split; [reflexivity|]. split; [|intros N1; destruct (Hv N10 N1)].
          apply mk_RR; [exact G1|reflexivity|lia].
        * destruct (Hgo N10) as [Q1 Q2]. split; [exact Q1|]. split; [exact Q2|]. intros N1. destruct (Hv N10 N1).
      + destruct (Z.eq_dec (at_ R (r_pos r)) 10) as [E10|N10].
        * (* the reader over crlf R steps from the CR to the LF *)
          right. split; [apply (cur_at R); [exact A|exact E10|rewrite Kc; exact K]|]. split; [exact HIn|].
          pose proof (P_succ_lf R _ E10) as Hs. pose proof (phiP_mono R (r_pos r + 1) (iend n) ltac:(lia)) as Hm.
          replace (P (r_pos r) + 1 <? P (iend n)) with true by (symmetry; apply Z.ltb_lt; lia).
          rewrite (at_P1 R _ E10). change (10 =? 0) with false. cbv iota. eexists. split; [reflexivity|].
          unfold EolGenCrlfRdrStep.RM. rewrite Ec. cbn [fst snd withSpans r_src r_spans r_pos r_vpos r_prev map].
          repeat (split; [first [reflexivity|assumption]|]). exists n. split; [reflexivity|exact K].
        * left. pose proof (P_succ_n R _ N10) as Hs.
          replace (P (r_pos r) + 1 <? P (iend n)) with (r_pos r + 1 <? iend n) by (rewrite <- Hs, phiP_ltb; reflexivity).
          destruct (r_pos r + 1 <? iend n).
          -- cbn [fst snd]. split; [reflexivity|]. rewrite <- Hs, !at_P0. split; [|intros N1; destruct (Hv N10 N1)].
             apply mk_RR; [exact G1|reflexivity|lia].
          -- destruct (Hgo N10) as [Q1 Q2]. split; [exact Q1|]. split; [exact Q2|]. intros N1. destruct (Hv N10 N1).
  Qed.

  Lemma RR_next_n r r' : RR r r' -> cur r <> 10 ->
    fst (next r') = fst (next r) /\ RR (snd (next r)) (snd (next r')).
  Proof. intros H N. destruct (RR_next r r' H) as [(L1 & L2 & _)|(E & _)]; [tauto|contradiction]. Qed.
End Next.
