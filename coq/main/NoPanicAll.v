From Coq Require Import List ZArith Lia Bool.
Import ListNotations.
Require Import Base Tree Rdr Link Collect Html Recog LP Rules Starts Driver Rec16 Rec17 Rec18 L2Kind L2CC L2Bnd L2BndS.
Require NoPanic3 NoPanic568 NoPanic47 NoPanic12.
Open Scope Z_scope.

(* C04, block layer: no panic site is ever reported *)
Theorem processLine_no_panic st children ls src : 0 <= ls -> ccF children = true ->
  forall k, 1 <= k <= 8 -> snd (processLine st children ls src) <> k.
Proof.
  intros Hls Hc k Hk.
  pose proof (NoPanic12.processLine_no12 st children ls src Hls) as [N1 N2].
  pose proof (NoPanic3.processLine_no3 st children ls src) as N3.
  pose proof (NoPanic47.processLine_no47 st children ls src Hc) as [N4 N7].
  pose proof (NoPanic568.processLine_no568 st children ls src) as (N5 & N6 & N8).
  cbv zeta in *. assert (E : k = 1 \/ k = 2 \/ k = 3 \/ k = 4 \/ k = 5 \/ k = 6 \/ k = 7 \/ k = 8) by lia.
  destruct E as [->|[->|[->|[->|[->|[->|[->| ->]]]]]]]; assumption.
Qed.

Definition nbNP (x : nb) : Prop := match x with NBPanic site => forall k, 1 <= k <= 8 -> site <> k | _ => True end.

Lemma lineLoop_np : forall fuel st children ls s, 0 <= ls <= len (buf s) -> bi s = lineEnd (buf s) ls -> ccF children = true ->
  nbNP (lineLoop fuel st children ls s).
Proof.
  induction fuel as [|f IH]; intros st children ls s Hls Hbi Hc; [exact I|]. cbn [lineLoop].
  pose proof (processLine_no_panic st children ls (upto (buf s) (bi s)) ltac:(lia) Hc) as Hn.
  pose proof (cc_processLine st children ls (upto (buf s) (bi s)) Hc) as Hc'.
  destruct (processLine st children ls (upto (buf s) (bi s))) as [[children' st'] pn]. cbn [fst snd] in Hn, Hc'.
  destruct (negb (pn =? 0)); [exact Hn|].
  destruct (makeRoot children' s) as [[r s']|]; [exact I|].
  destruct (lineEnd_spec (buf s) ls Hls) as [A _]. rewrite <- Hbi in A.
  apply IH; cbn [buf bi]; [lia|reflexivity|exact Hc'].
Qed.
Lemma skipLoop_np : forall fuel s, bi s = 0 -> nbNP (skipLoop fuel s).
Proof.
  induction fuel as [|f IH]; intros s Hb; [exact I|]. cbn [skipLoop]. cbv zeta.
  destruct (negb _); [exact I|]. destruct (isBlankLine _); [apply IH; reflexivity|].
  apply lineLoop_np; cbn [buf bi]; [pose proof (len_nonneg (buf s)); lia|rewrite Hb; reflexivity|reflexivity].
Qed.
Lemma nextBlock_np fuel s : 0 <= bi s <= len (buf s) -> ccF (pending s) = true -> nbNP (nextBlock fuel s).
Proof.
  intros Hb Hc. unfold nextBlock. destruct (makeRoot (pending s) s) as [[r s']|]; [exact I|].
  destruct (pending s) as [|b0 rest] eqn:Ep; [apply skipLoop_np; reflexivity|].
  apply lineLoop_np; cbn [buf bi]; [exact Hb|reflexivity|exact Hc].
Qed.

Lemma allBlocks_np : forall fuel s acc ns, SI s (pending s) ns -> ccF (pending s) = true ->
  forall k, 1 <= k <= 8 -> snd (allBlocks fuel s acc) <> k.
Proof.
  induction fuel as [|f IH]; intros s acc ns HS Hc k Hk; [cbn; lia|]. cbn [allBlocks].
  pose proof (SI_nextBlock (3 + length (buf s)) s ns HS) as H1.
  pose proof (cc_nextBlock (3 + length (buf s)) s Hc) as H2.
  pose proof (nextBlock_np (3 + length (buf s)) s ltac:(apply HS) Hc) as H3.
  destruct (nextBlock _ s) as [r s'| | |site]; [|cbn; lia|cbn; lia|cbn; apply H3; exact Hk].
  destruct H1 as [_ (ns' & Hs')]. destruct H2 as [_ Hc']. apply (IH s' _ ns' Hs' Hc' k Hk).
Qed.

Theorem parseBlocks_no_panic input : forall k, 1 <= k <= 8 -> snd (parseBlocks input) <> k.
Proof.
  unfold parseBlocks. apply (allBlocks_np _ _ _ true); [|reflexivity].
  unfold SI. cbn [buf bi pending]. pose proof (len_nonneg (pad input)). repeat split; try lia.
Qed.
Print Assumptions parseBlocks_no_panic.
