From Coq Require Import List ZArith Lia Bool.
Import ListNotations.
Require Import Base Tables Utf8 Tree Rdr Link Collect Html Recog Inl3a Inl3b Inl3c Inl3d Inl3e LP Rules Starts Driver Props.
Require Import BlockShapesNul ComposeBase GI0 IS2 IS1 LADef LA1 LA12 C13Full ExInv1.
Open Scope Z_scope.

(* ================================================================================================
   T52, ExemptInfo: the InfoString entry of a fenced code block satisfies Props.shapesI in the root's source.
     B    the buffer the root was cut from,  src = fillNulls (upto B n)  the root's Source,  raw  the text of LinesAccounted
   From ExInv1.inv B: the children of the entry are childless Text / CharacterReference nodes and a CharacterReference child
   selects "&" .. ";" in B (hence in src: the two bytes are not NUL).  From la: the entry lies in its block and its children
   lie, in order, in the entry.
   ================================================================================================ *)
Section Root.
  Variables (B src raw : bytes) (n : Z).
  Hypothesis Hn : 0 <= n <= len B.
  Hypothesis Esrc : src = fillNulls (upto B n).
  Hypothesis Htri : tri (upto B n).
  Hypothesis Lraw : len raw = len src.

  Lemma Lsrc : len src = n. Proof. exact (src_len B (upto B n) src n Hn eq_refl Esrc). Qed.

  Lemma src_byte i c : 0 <= i < n -> at_ B i = c -> c <> 0 -> at_ src i = c.
  Proof. intros Hi E N. exact (simz_val _ _ c (src_simz B (upto B n) src n eq_refl Esrc Htri i Hi) E N). Qed.

  (* a child of an exempt entry, once its span is known to be valid *)
  Lemma kid_shape k : kidOK B k = true -> span_valid (len src) (istart k) (iend k) = true -> shapesI src k = true.
  Proof.
    unfold kidOK. intros H Hv. apply andb_true_iff in H. destruct H as [H H3]. apply andb_true_iff in H. destruct H as [H1 H2].
    destruct k as [kd s e ind rf ks]. cbn [ikids ikind istart iend] in *. apply nilb_true in H1. subst ks.
    cbn [shapesI forallb]. rewrite Hv, andb_true_r. cbn [andb].
    unfold kkind in H2. destruct (Z.eqb_spec kd TextKind) as [->|N1]; [reflexivity|]. destruct (Z.eqb_spec kd IndentKind) as [->|N2]; [reflexivity|].
    cbn [orb] in H2. apply Z.eqb_eq in H2. subst kd.
    pose proof Hv as Hv'. apply span_valid_elim in Hv'. rewrite Lsrc in Hv'.
    destruct (crOK_elim B _ H3 eq_refl ltac:(cbn [istart]; lia) ltac:(cbn [istart iend]; lia)) as (P1 & P2 & P3). cbn [istart iend] in *.
    pose proof (charref_shape src s e ltac:(lia) P1 (src_byte s 38 ltac:(lia) P2 ltac:(discriminate)) (src_byte (e - 1) 59 ltac:(lia) P3 ltac:(discriminate))) as Hok.
    unfold nOK in Hok. apply andb_true_iff in Hok. apply Hok.
  Qed.

  Lemma kid_leaf k : kidOK B k = true -> leavesI k = [(istart k, iend k)].
  Proof.
    unfold kidOK. intros H. apply andb_true_iff in H. destruct H as [H _]. apply andb_true_iff in H. destruct H as [H1 _].
    destruct k as [kd s e ind rf ks]. cbn [ikids] in H1. apply nilb_true in H1. subst ks. reflexivity.
  Qed.

  (* an entry whose children are as above and lie inside it *)
  Lemma entry_shape u : span_valid (len src) (istart u) (iend u) = true -> (forall t, shapeInline t (ikind u) = true) ->
    forallb (kidOK B) (ikids u) = true ->
    (forall k, In k (ikids u) -> istart u <= istart k /\ istart k <= iend k /\ iend k <= iend u) -> shapesI src u = true.
  Proof.
    intros Hv Hs Hk Hin. destruct u as [kd s e ind rf ks]. cbn [ikids ikind istart iend] in *. cbn [shapesI]. rewrite Hv, Hs. cbn [andb].
    apply forallb_forall. intros k Hkin. rewrite forallb_forall in Hk. apply kid_shape; [apply Hk, Hkin|].
    apply span_valid_elim in Hv. destruct (Hin k Hkin) as (A & A1 & A2). apply span_valid_intro; lia.
  Qed.

  Lemma kids_in_entry u : forallb (kidOK B) (ikids u) = true -> lvOK u ->
    forall k, In k (ikids u) -> istart u <= istart k /\ istart k <= iend k /\ iend k <= iend u.
  Proof.
    intros Hk Hl k Hin. unfold lvOK in Hl. destruct u as [kd s e ind rf ks]. cbn [ikids istart iend leavesI] in *.
    destruct ks as [|k0 r]; [destruct Hin|].
    assert (Hse : In (istart k, iend k) (flat_map leavesI (k0 :: r))).
    { apply in_flat_map. exists k. split; [exact Hin|]. rewrite forallb_forall in Hk. rewrite (kid_leaf k (Hk k Hin)). left. reflexivity. }
    apply (ordIn_In _ _ _ _ Hl Hse).
  Qed.

  (* ---- the info string of a fenced code block ---- *)
  Lemma info_ok b u : bkind b = FencedCodeBlockKind -> ikind u = InfoStringKind -> In u (bik b) ->
    ExInv1.inv B b = true -> la raw (len raw) b -> shapesI src u = true.
  Proof.
    intros HK Hk Hu Hi Hla. rewrite la_eq in Hla. destruct Hla as (L1 & L2 & _ & Lb & _). unfold body in Lb. rewrite HK in Lb.
    change (isLeafK FencedCodeBlockKind) with true in Lb. cbv iota in Lb. destruct Lb as (Lt & Le & _).
    destruct (tileS_In raw _ _ _ (ispan u) Lt (in_map ispan _ _ Hu)) as (T1 & T2 & T3). cbn [ispan fst snd] in T1, T2, T3.
    assert (Hhi : hiOf (len raw) b <= len src) by (rewrite <- Lraw; apply hiOf_le; lia).
    rewrite ExInv1.inv_eq in Hi. apply andb_true_iff in Hi. destruct Hi as [Hi _]. rewrite forallb_forall in Hi. specialize (Hi u Hu).
    unfold eE in Hi. rewrite Hk in Hi. change (isExK InfoStringKind) with true in Hi. cbv iota in Hi.
    rewrite Forall_forall in Le. destruct (Le u Hu) as (_ & _ & Hlv).
    apply entry_shape; [apply span_valid_intro; lia|rewrite Hk; reflexivity|exact Hi|apply kids_in_entry; assumption].
  Qed.
End Root.
