From Coq Require Import List ZArith Lia Bool.
Import ListNotations.
Require Import Base Tree Rdr Link Collect Html Recog LP Rules Starts Driver Rec16 Rec17 Rec18 RecBounds Cursor CursorX L2Kind L2CC SpanSmall NoPanic12
  ShEnv GramTree GramLP GramLP2 EolInv EolCRBytes EolHtmlInv EolCRLFSimTree EolCRLFSimFuelWf EolCRLFSimFuel Props LADef EolFinalDefs EolFinalSimBytes EolFinalSimTree EolFinalGenOcp EolFinalGenTree EolFinalGenClose EolFinalGenInv
  EolFinalGenLP EolFinalGenLP2 EolFinalGenLP3 EolFinalGenRules EolFinalGenStarts EolFinalSimHM.
Require L2Kind2.
Open Scope Z_scope.

Section GenLine.
Context {HO : OcpFinC}.

(* C14 (i), final newline: one whole line in the two runs. *)

Lemma blockStarts_sOK L : Forall (sOK L) blockStarts.
Proof.
  unfold blockStarts.
  apply Forall_cons; [apply FQ_startBlockQuote|]. apply Forall_cons; [apply FQ_startATX|]. apply Forall_cons; [apply FQ_startFenced|].
  apply Forall_cons; [apply FQ_startHTML|]. apply Forall_cons; [apply FQ_startSetext|]. apply Forall_cons; [apply FQ_startThematic|].
  apply Forall_cons; [apply FQ_startListItem|]. apply Forall_cons; [apply FQ_startIndented|]. apply Forall_nil.
Qed.

Lemma Sp_withState L p s : Sp L p -> Sp L (withState p s).
Proof. intros (A & B & C). apply Sp_mk; [destruct A as (A1 & A2 & A3); split; [exact A1|split; [exact A2|exact A3]]|apply (ccP_same p); [split; reflexivity|exact B]|exact C]. Qed.

Lemma FQ_tryStarts L : forall fs p q, Forall (sOK L) fs -> Forall startOKG fs -> Forall startOKc fs -> Forall (startOKq L) fs ->
  FQ L p q -> li q = li p -> Sp L p ->
  fst (tryStarts fs q) = fst (tryStarts fs p) /\ FQ L (snd (tryStarts fs p)) (snd (tryStarts fs q)) /\
  (fst (tryStarts fs p) = false \/ state (snd (tryStarts fs p)) <> stLineConsumed -> li (snd (tryStarts fs q)) = li (snd (tryStarts fs p))) /\ Sp L (snd (tryStarts fs p)).
Proof.
  induction fs as [|f r IH]; intros p q H1 H2 H3 H4 H Es HS; [split; [reflexivity|split; [exact H|split; [intros _; exact Es|exact HS]]]|].
  cbn [tryStarts]. cbv zeta. inversion H1 as [|? ? F1 R1]; subst. inversion H2 as [|? ? F2 R2]; subst. inversion H3 as [|? ? F3 R3]; subst. inversion H4 as [|? ? F4 R4]; subst.
  pose proof (Sp_withState L p stOpening HS) as S0. assert (O0 : st_open (withState p stOpening)) by (left; reflexivity).
  destruct (F1 (withState p stOpening) (withState q stOpening) (FQ_withState L p q stOpening H) Es S0 O0) as [Hf Hsame].
  assert (Sf : Sp L (f (withState p stOpening))).
  { destruct S0 as (A & B & C). apply Sp_mk; [apply F2, A|apply F3; assumption|apply F4; assumption]. }
  rewrite (FQ_state L _ _ Hf).
  destruct ((state (f (withState p stOpening)) =? stOpenMatched) || (state (f (withState p stOpening)) =? stLineConsumed)) eqn:Em.
  - split; [reflexivity|split; [exact Hf|split; [|exact Sf]]]. cbn [fst snd]. intros [X|X]; [discriminate|apply Hsame, X].
  - apply IH; try assumption. apply Hsame. intros E. rewrite E in Em. discriminate.
Qed.

Lemma FQ_opening_loop L : forall fuel p q, FQ L p q -> li q = li p -> Sp L p ->
  fst (opening_loop fuel q) = fst (opening_loop fuel p) /\ FQ L (snd (opening_loop fuel p)) (snd (opening_loop fuel q)) /\
  (fst (opening_loop fuel p) = true -> li (snd (opening_loop fuel q)) = li (snd (opening_loop fuel p))) /\ Sp L (snd (opening_loop fuel p)).
Proof.
  induction fuel as [|f IH]; intros p q H Es HS; [split; [reflexivity|split; [exact H|split; [intros _; exact Es|exact HS]]]|].
  cbn [opening_loop]. rewrite (FQ_containerKind L p q H (Sp_cc L p HS)).
  destruct (_ || _); [|split; [reflexivity|split; [exact H|split; [intros _; exact Es|exact HS]]]].
  destruct (FQ_tryStarts L blockStarts p q (blockStarts_sOK L) blockStarts_okG blockStarts_okc (blockStarts_okq L) H Es HS) as (E1 & H1 & Hs1 & S1).
  destruct (tryStarts blockStarts p) as [m p1]. destruct (tryStarts blockStarts q) as [m' q1]. cbn [fst snd] in *. subst m'.
  destruct m.
  - rewrite (FQ_state L p1 q1 H1). destruct (Z.eqb_spec (state p1) stLineConsumed) as [Ec|Nc].
    + split; [reflexivity|split; [exact H1|split; [cbn [fst]; discriminate|exact S1]]].
    + apply IH; [exact H1|apply Hs1; right; exact Nc|exact S1].
  - split; [reflexivity|split; [exact H1|split; [intros _; apply Hs1; left; reflexivity|exact S1]]].
Qed.

(* the two runs call the loop with different fuels *)
Lemma Sp_INV L p : Sp L p -> INV p. Proof. intros (A & (_ & _ & B) & _). split; assumption. Qed.
Lemma FQ_opening_fuel L p q : FQ L p q -> li q = li p -> Sp L p ->
  fst (opening_loop (S (length (line q))) q) = fst (opening_loop (S (length (line p))) p) /\
  FQ L (snd (opening_loop (S (length (line p))) p)) (snd (opening_loop (S (length (line q))) q)) /\
  (fst (opening_loop (S (length (line p))) p) = true -> li (snd (opening_loop (S (length (line q))) q)) = li (snd (opening_loop (S (length (line p))) p))) /\
  Sp L (snd (opening_loop (S (length (line p))) p)).
Proof.
  intros H Es HS.
  assert (Ef : opening_loop (S (length (line q))) p = opening_loop (S (length (line p))) p).
  { assert (Eq : line q = line p ++ [10]) by apply H. pose proof (FQ_li L p q H) as Hli.
    apply opening_loop_fuel; [apply (Sp_INV L p HS)| |]; rewrite ?Eq, ?app_length; unfold len in *; cbn [length]; lia. }
  rewrite <- Ef. apply FQ_opening_loop; assumption.
Qed.

Lemma FQ_deferredClose L p q : FQ L p q -> Sp L p -> FQ L (deferredClose p) (deferredClose q) /\ li (deferredClose p) = li p /\ li (deferredClose q) = li q.
Proof.
  intros H HS. pose proof (Sp_cc L p HS) as Hc. pose proof (FQ_L0 L p q H) as L0. unfold deferredClose. cbv zeta.
  rewrite (FQ_isRestBlank L p q H), (FQ_bheight L p q H).
  assert (Er : root q = finB L (root p)) by apply H. rewrite Er, (tipDepth_F L L0 _ _ Hc), (getAt_F L _ _ Hc).
  assert (Ek : match option_map (finB L) (getAt (tipDepth (bheight (root p)) (root p)) (root p)) with Some t => bkind t =? ParagraphKind | None => false end =
               match getAt (tipDepth (bheight (root p)) (root p)) (root p) with Some t => bkind t =? ParagraphKind | None => false end).
  { destruct (getAt _ (root p)); [cbn [option_map]; rewrite bkind_F; reflexivity|reflexivity]. }
  rewrite Ek. destruct (negb (isRestBlank p) && _).
  - split; [apply FQ_withCont, H|split; reflexivity].
  - split; [|split; reflexivity]. rewrite (FQ_cdepth L p q H), (FQ_ls L p q H).
    apply FQ_closeLastChildAt; [exact H|exact Hc|apply (Sp_QP L p HS)|apply (FQ_ls0 L p q H)|].
    left. split; [reflexivity|left]. pose proof (FQ_ls_lt L p q H). lia.
Qed.

Lemma FQ_openNewBlocks L p q am : FQ L p q -> li q = li p -> Sp L p ->
  fst (openNewBlocks q am) = fst (openNewBlocks p am) /\ FQ L (snd (openNewBlocks p am)) (snd (openNewBlocks q am)) /\
  (fst (openNewBlocks p am) = true -> li (snd (openNewBlocks q am)) = li (snd (openNewBlocks p am))).
Proof.
  intros H Es HS. unfold openNewBlocks.
  assert (Lp : len (line p) =? 0 = false).
  { apply Z.eqb_neq. assert (Lok : lastOK (line p)) by apply H. pose proof (lastOK_pos _ Lok). lia. }
  assert (Lq : len (line q) =? 0 = false).
  { apply Z.eqb_neq. assert (Eq : line q = line p ++ [10]) by apply H. rewrite Eq, fs_len_app, fs_len1. pose proof (len_nonneg (line p)). lia. }
  rewrite Lp, Lq. destruct (FQ_opening_fuel L p q H Es HS) as (E1 & H1 & Hs1 & S1).
  destruct (opening_loop (S (length (line p))) p) as [ht p1]. destruct (opening_loop (S (length (line q))) q) as [ht' q1]. cbn [fst snd] in *. subst ht'.
  destruct am; [split; [reflexivity|split; [exact H1|exact Hs1]]|].
  destruct (FQ_deferredClose L p1 q1 H1 S1) as (H2 & A & B). split; [reflexivity|split; [exact H2|]]. cbn [fst snd]. intros X. rewrite A, B. apply Hs1, X.
Qed.

(* ---- addLineText ---- *)
Definition blankF (b : block) : block := match lastBlock b with Some c => set_lastBlocks b [set_blast c true] | None => b end.
Definition goF (q : lp) : lp :=
  let k := containerKind q in
  let inlineKind := if isCode k then TextKind else if k =? HTMLBlockKind then RawHTMLKind else UnparsedKind in
  let q' := updCont q (fun b => set_bik b (bik b ++ [mkI inlineKind (lineStart q + li q) (lineStart q + len (line q))])) in
  if isCode k && negb (hasByteSuffixEOL (line q')) then
    updCont q' (fun b => set_bik b (bik b ++ [mkI SoftLineBreakKind (lineStart q' + len (line q')) (lineStart q' + len (line q'))]))
  else q'.

Definition Cq (L : Z) (p : lp) : Prop := ccP p /\ QP L p.
Lemma Sp_Cq L p : Sp L p -> Cq L p. Proof. intros (_ & A & B). split; assumption. Qed.

Lemma F_blankF L x : cc x = true -> finB L (blankF x) = blankF (finB L x).
Proof.
  intros Hc. unfold blankF. rewrite (lastBlock_F L x Hc). destruct (lastBlock x) as [c|] eqn:El; cbn [option_map]; [|reflexivity].
  rewrite (F_set_lastBlocks L x _ (lastBlock_nonLM x c Hc El)). cbn [map]. rewrite F_set_blast. reflexivity.
Qed.
Lemma bkind_blankF b : bkind (blankF b) = bkind b.
Proof. unfold blankF. destruct (lastBlock b); [apply bkind_set_lastBlocks|reflexivity]. Qed.
Lemma Cq_blankF L p : Cq L p -> Cq L (updCont p blankF).
Proof.
  intros [A B]. split.
  - apply ccP_updCont; [exact A|]. intros x _ Hx. split; [|apply bkind_blankF]. unfold blankF. destruct (lastBlock x) as [c|] eqn:El; [|exact Hx].
    eapply cc_set_lastBlocks; [exact Hx|exact El|]. constructor; [|constructor]. rewrite cc_set_blast, bkind_set_blast. split; [eapply cc_lastBlock; eassumption|apply compat_refl].
  - apply QP_updCont; [exact B|]. intros SS x Hx. unfold blankF. destruct (lastBlock x) as [c|] eqn:El; [|exact Hx].
    apply (allB_set_lastBlocks (qP2 L SS (source p)) (qP2_kids L SS (source p))); [exact Hx|]. cbn [forallb]. rewrite andb_true_r.
    pose proof (qB2_set_blast L SS (source p) c true) as E. unfold qB2 in E. rewrite E. eapply allB_lastBlock; eassumption.
Qed.

Lemma cc_upd_blast v d rt : cc rt = true -> cc (updAt d (fun b => set_blast b v) rt) = true.
Proof. intros H. apply (cc_updAt_at (fun b => set_blast b v) d rt H). intros y _ Hy. rewrite cc_set_blast, bkind_set_blast. split; [exact Hy|apply compat_refl]. Qed.
Lemma F_setLastBlank L v : forall d rt, cc rt = true -> finB L (setLastBlankUpTo d v rt) = setLastBlankUpTo d v (finB L rt).
Proof.
  induction d as [|d IH]; intros rt Hc; cbn [setLastBlankUpTo].
  - apply updAt_F; [exact Hc|intros x; apply F_set_blast].
  - rewrite IH by (apply cc_upd_blast, Hc). f_equal. apply updAt_F; [exact Hc|intros x; apply F_set_blast].
Qed.
Lemma qb_setLastBlank L SS src v : forall d rt, qB2 L SS src rt = true -> qB2 L SS src (setLastBlankUpTo d v rt) = true.
Proof.
  assert (Step : forall d rt, qB2 L SS src rt = true -> qB2 L SS src (updAt d (fun b => set_blast b v) rt) = true).
  { intros d rt H. apply (allB_updAt (qP2 L SS src) (qP2_kids L SS src)); [exact H|]. intros x Hx. pose proof (qB2_set_blast L SS src x v) as E. unfold qB2 in E. rewrite E. exact Hx. }
  induction d as [|d IH]; intros rt H; cbn [setLastBlankUpTo]; [apply Step, H|apply IH, Step, H].
Qed.
Lemma Cq_setLastBlank L p v d : Cq L p -> Cq L (withRoot p (setLastBlankUpTo d v (root p))).
Proof.
  intros [A B]. destruct A as (A1 & A2 & A3). destruct (cc_setLastBlankUpTo v d (root p) (cdepth p) A2 A3) as (A' & B' & C'). split.
  - unfold ccP, wf, cdepth. cbn [root container withRoot setLP]. fold (cdepth p). split; [rewrite B'; exact A1|split; [exact A'|exact C']].
  - destruct B as [(SS & B1 & B2) B3]. split; [|exact B3]. exists SS. split; [cbn [root source withRoot setLP]; apply qb_setLastBlank, B1|exact B2].
Qed.
Lemma FQ_withRoot L p q r : FQ L p q -> FQ L (withRoot p r) (withRoot q (finB L r)).
Proof. intros H. fqsplit H. unfold withRoot. flds. apply FQ_mk; assumption. Qed.

(* appending an entry that the paragraph invariant tolerates *)
Lemma qb_add_ik2 L x u : qB L x = true -> ikind u <> SoftLineBreakKind -> fixI L u = true -> qB L (set_bik x (bik x ++ [u])) = true.
Proof.
  intros H Hu Hf. apply (allB_parts (qP L)) in H. destruct H as [H1 H2]. unfold qB. rewrite allB_eq.
  replace (bkids (set_bik x (bik x ++ [u]))) with (bkids x) by (destruct x; reflexivity). rewrite H2, andb_true_r.
  unfold qP in *. replace (bkind (set_bik x (bik x ++ [u]))) with (bkind x) by (destruct x; reflexivity).
  replace (bik (set_bik x (bik x ++ [u]))) with (bik x ++ [u]) by (destruct x; reflexivity).
  apply andb_true_iff in H1. destruct H1 as [A B]. apply andb_true_iff. split.
  - destruct (negb (isCode (bkind x))); [reflexivity|]. cbn [orb] in *. rewrite nslbL_app, A. cbn.
    replace (ikind u =? SoftLineBreakKind) with false by (symmetry; apply Z.eqb_neq; exact Hu). reflexivity.
  - destruct (negb (bkind x =? ParagraphKind)); [reflexivity|]. cbn [orb] in *. rewrite forallb_app, B. cbn. rewrite Hf. reflexivity.
Qed.
(* the weaker bundle that survives the appends of addLineText: the paragraph part of the invariant is dropped *)
Definition Cw (L : Z) (p : lp) : Prop := ccP p /\ qB L (root p) = true.
Lemma Cq_Cw L p : Cq L p -> Cw L p. Proof. intros [A B]. split; [exact A|apply QP_qB, B]. Qed.
Lemma Cw_add_indent L p s e n : Cw L p -> Cw L (updCont p (fun b => set_bik b (bik b ++ [Inl IndentKind s e n [] []]))).
Proof.
  intros [A B]. split; [apply (ccP_updCont_ik p (fun b => bik b ++ [_])), A|].
  unfold updCont. cbn [root withRoot setLP]. apply (allB_updAt (qP L) (qP_kids L)); [exact B|]. intros x Hx. apply qb_add_ik2; [exact Hx|discriminate|reflexivity].
Qed.
Lemma Cw_same L p p' : same_tree p p' -> Cw L p -> Cw L p'.
Proof. intros Hs [A B]. split; [eapply ccP_same; eassumption|destruct Hs as [E _]; rewrite E; exact B]. Qed.

Lemma updCont_fuse p f g : updCont (updCont p f) g = updCont p (fun x => g (f x)).
Proof. unfold updCont, withRoot. cbn [root container li col tabRem state panicked setLP cdepth source lineStart line]. rewrite updAt_fuse. reflexivity. Qed.

Lemma FQ_goF L a b K : FQ L a b -> li b = li a -> Cw L a -> containerKind a = K -> ckind a K ->
  (K = ParagraphKind \/ K = HTMLBlockKind \/ K = FencedCodeBlockKind \/ K = IndentedCodeBlockKind) -> FQ L (goF a) (goF b).
Proof.
  intros H Es [Hc Hq] EK Hk HK. pose proof (ccP_cc a Hc) as Hcc. unfold goF. cbv zeta. rewrite (FQ_containerKind L a b H Hcc), EK.
  assert (Eq : line b = line a ++ [10]) by apply H. assert (Lok : lastOK (line a)) by apply H.
  change (line (updCont b ?f)) with (line b). change (line (updCont a ?f)) with (line a). change (lineStart (updCont a ?f)) with (lineStart a).
  rewrite Eq, suffix_app10, (lastOK_noSuffix _ Lok), fs_len_app, fs_len1, (FQ_ls L a b H), Es. cbn [negb]. rewrite andb_false_r, andb_true_r.
  pose proof (FQ_end L a b H) as Hend. replace (lineStart a + (len (line a) + 1)) with (L + 1) by lia. rewrite Hend.
  destruct (isCode K) eqn:Ec.
  - (* code: Text + SoftLineBreak against Text with the newline *)
    rewrite updCont_fuse. apply FQ_updCont_at; [exact H|exact Hcc|]. intros x Hx. pose proof (Hk x Hx) as Ex.
    assert (N : bkind x <> ListMarkerKind) by (rewrite Ex; destruct HK as [->|[->|[->| ->]]]; discriminate).
    pose proof (allB_getAt (qP L) _ _ _ Hq Hx) as Hqx. apply (allB_parts (qP L)) in Hqx. destruct Hqx as [Hqx _].
    unfold qP in Hqx. rewrite Ex, Ec in Hqx. cbn [negb orb] in Hqx. apply andb_true_iff in Hqx. destruct Hqx as [Hn _].
    replace (bik (set_bik x (bik x ++ [mkI TextKind (lineStart a + li a) L]))) with (bik x ++ [mkI TextKind (lineStart a + li a) L]) by (destruct x; reflexivity).
    replace (set_bik (set_bik x (bik x ++ [mkI TextKind (lineStart a + li a) L])) ((bik x ++ [mkI TextKind (lineStart a + li a) L]) ++ [mkI SoftLineBreakKind L L]))
      with (set_bik x (bik x ++ [mkI TextKind (lineStart a + li a) L; mkI SoftLineBreakKind L L])) by (destruct x; cbn [set_bik]; rewrite <- app_assoc; reflexivity).
    rewrite (F_set_bik L x _ N), bik_F. replace (bkind x =? ListMarkerKind) with false by (symmetry; apply Z.eqb_neq; exact N).
    f_equal. unfold finI. rewrite Ex. unfold isCode in Ec.
    destruct ((K =? ParagraphKind) || (K =? HTMLBlockKind)) eqn:E1; [exfalso; destruct HK as [->|[->|[->| ->]]]; discriminate|]. rewrite Ec.
    unfold mkI. rewrite finCode_text_slb, (finCode_nslb L _ Hn). reflexivity.
  - (* paragraph or HTML block: the entry gains the newline *)
    apply (FQ_append L a b K); [exact H|exact Hc|exact Hq|exact Hk|destruct HK as [->|[->|[->| ->]]]; discriminate|].
    unfold appOK. destruct HK as [->|[->|[->| ->]]]; try discriminate; cbn [Z.eqb Pos.eqb orb ParagraphKind HTMLBlockKind];
      unfold mkI, bumpI; cbn [Z.eqb Pos.eqb UnparsedKind RawHTMLKind IndentKind]; rewrite bump_L; reflexivity.
Qed.

Lemma acceptsLines_cases K : acceptsLines K = true -> hasMatch K = true ->
  K = ParagraphKind \/ K = HTMLBlockKind \/ K = FencedCodeBlockKind \/ K = IndentedCodeBlockKind.
Proof.
  unfold acceptsLines, hasMatch. intros A B.
  destruct (Z.eqb_spec K FencedCodeBlockKind); [tauto|]. destruct (Z.eqb_spec K IndentedCodeBlockKind); [tauto|].
  destruct (Z.eqb_spec K ATXHeadingKind) as [E|]; [rewrite E in B; vm_compute in B; discriminate B|]. destruct (Z.eqb_spec K HTMLBlockKind); [tauto|].
  destruct (Z.eqb_spec K ParagraphKind); [tauto|discriminate].
Qed.

Lemma FQ_addLineText L p q : FQ L p q -> li q = li p -> Cq L p -> HM p -> L2Kind2.goodSt p -> FQ L (addLineText p) (addLineText q).
Proof.
  intros H Es HC HH Hgs. unfold addLineText. cbv zeta. rewrite (FQ_isRestBlank L p q H).
  change (fun b : block => match lastBlock b with Some c => set_lastBlocks b [set_blast c true] | None => b end) with blankF.
  set (pa := if isRestBlank p then updCont p blankF else p). set (pa' := if isRestBlank p then updCont q blankF else q).
  assert (Ha : FQ L pa pa' /\ li pa' = li pa /\ Cq L pa /\ containerKind pa = containerKind p /\ state pa = state p /\ li pa = li p /\ line pa = line p /\ tabRem pa = tabRem p).
  { unfold pa, pa'. destruct (isRestBlank p); [|split; [exact H|split; [exact Es|split; [exact HC|repeat split]]]].
    split; [apply FQ_updCont_at; [exact H|apply ccP_cc, HC|intros x Hx; apply F_blankF; eapply cc_getAt; [apply ccP_cc, HC|exact Hx]]|].
    split; [exact Es|]. split; [apply Cq_blankF, HC|]. split; [apply L2Kind2.containerKind_updCont; intros b; apply bkind_blankF|repeat split]. }
  destruct Ha as (Ha & Esa & Ca & Ka & Sta & Lia & Lna & Tra). clearbody pa pa'.
  pose proof (ccP_cc pa (proj1 Ca)) as Hcca.
  rewrite (FQ_contBlock L pa pa' Ha Hcca), bkind_F, bstart_F, (FQ_cdepth L pa pa' Ha), (FQ_ls L pa pa' Ha).
  assert (Ecc : (bkind (contBlock pa) =? ListItemKind) && (childCount (finB L (contBlock pa)) =? 1) = (bkind (contBlock pa) =? ListItemKind) && (childCount (contBlock pa) =? 1)).
  { destruct (Z.eqb_spec (bkind (contBlock pa)) ListItemKind) as [E|N]; [|reflexivity]. cbn [andb].
    rewrite childCount_F; [reflexivity|apply cc_contBlock, Hcca|rewrite E; reflexivity]. }
  rewrite Ecc. assert (Er : root pa' = finB L (root pa)) by apply Ha. rewrite Er.
  match goal with |- context [setLastBlankUpTo (cdepth pa) ?v (root pa)] => set (llb := v) end.
  rewrite <- (F_setLastBlank L llb (cdepth pa) (root pa) Hcca).
  pose proof (FQ_withRoot L pa pa' (setLastBlankUpTo (cdepth pa) llb (root pa)) Ha) as Hb.
  pose proof (Cq_setLastBlank L pa llb (cdepth pa) Ca) as Cb.
  assert (Kb : containerKind (withRoot pa (setLastBlankUpTo (cdepth pa) llb (root pa))) = containerKind p).
  { rewrite <- Ka. unfold containerKind, contBlock, cdepth. cbn [root container withRoot setLP]. fold (cdepth pa).
    pose proof (L2Kind2.kindAt_setLastBlankUpTo llb (cdepth pa) (cdepth pa) (root pa)) as E.
    destruct (getAt (cdepth pa) (setLastBlankUpTo _ _ _)); destruct (getAt (cdepth pa) (root pa)); cbn in E; try congruence; reflexivity. }
  set (pb := withRoot pa _) in *. set (pb' := withRoot pa' _) in *.
  assert (Esb : li pb' = li pb) by exact Esa. assert (Stb : state pb = state p) by exact Sta. assert (Lib : li pb = li p) by exact Lia.
  assert (Lnb : line pb = line p) by exact Lna. assert (Trb : tabRem pb = tabRem p) by exact Tra. clearbody pb pb'.
  change (bkind (contBlock pa)) with (containerKind pa). rewrite Ka.
  pose proof (Cb) as [Cbc Cbq].
  destruct (acceptsLines (containerKind p)) eqn:Ea.
  - pose proof (acceptsLines_cases _ Ea HH) as HK.
    assert (Etab : (li pb' <? len (line pb')) && (at_ (line pb') (li pb') =? 9) && (0 <? tabRem pb') && (tabRem pb' <? 4) =
                   (li pb <? len (line pb)) && (at_ (line pb) (li pb) =? 9) && (0 <? tabRem pb) && (tabRem pb <? 4)).
    { assert (Eq : line pb' = line pb ++ [10]) by apply Hb. pose proof (FQ_li L pb pb' Hb) as Hli.
      assert (Hcu : col pb' = col pb /\ tabRem pb' = tabRem pb).
      { destruct Hb as (_ & _ & _ & _ & _ & _ & _ & _ & _ & _ & Hcu & _). destruct Hcu as [(_ & A & B)|[A B]]; [tauto|lia]. }
      destruct Hcu as [_ Et]. rewrite Et, Eq, Esb, fs_len_app, fs_len1.
      destruct (Z.ltb_spec (li pb) (len (line pb))) as [Lt|Ge].
      - replace (li pb <? len (line pb) + 1) with true by (symmetry; apply Z.ltb_lt; lia). rewrite at_app10_lt by lia. reflexivity.
      - assert (li pb = len (line pb)) by lia. replace (li pb <? len (line pb) + 1) with true by (symmetry; apply Z.ltb_lt; lia).
        rewrite H0, at_app10_end. reflexivity. }
    rewrite Etab.
    assert (Et2 : tabRem pb' = tabRem pb).
    { destruct Hb as (_ & _ & _ & _ & _ & _ & _ & _ & _ & Hli & Hcu & _). destruct Hcu as [(_ & _ & B)|[A B]]; [exact B|lia]. }
    match goal with |- context [if ?c then consumeIndent ?x ?n else pb] => set (cnd := c); set (pi := x) end.
    match goal with |- context [if cnd then consumeIndent ?x' ?n' else pb'] => set (pi' := x') end.
    set (pc := if cnd then consumeIndent pi (tabRem pi) else pb). set (pc' := if cnd then consumeIndent pi' (tabRem pi') else pb').
    assert (Hc : FQ L pc pc' /\ li pc' = li pc /\ Cw L pc /\ containerKind pc = containerKind p).
    { unfold pc, pc'. destruct cnd; [|split; [exact Hb|split; [exact Esb|split; [apply Cq_Cw, Cb|exact Kb]]]].
      assert (Hi : FQ L pi pi').
      { unfold pi, pi'. rewrite (FQ_ls L pb pb' Hb), Esb, Et2.
        apply (FQ_append L pb pb' (containerKind p)); [exact Hb|exact Cbc|apply (QP_qB L pb Cbq)|rewrite <- Kb; apply ckind_self| |apply appOK_indent].
        destruct HK as [->|[->|[->| ->]]]; discriminate. }
      change (tabRem pi') with (tabRem pb'). change (tabRem pi) with (tabRem pb). rewrite Et2.
      destruct (FQ_consumeIndent' L _ _ (tabRem pb) Hi) as [Hj Hsj].
      split; [exact Hj|]. split; [apply Hsj; exact Esb|]. split.
      - eapply Cw_same; [apply same_consumeIndent|]. apply Cw_add_indent, Cq_Cw, Cb.
      - rewrite (containerKind_same _ _ (same_consumeIndent _ _)). unfold pi. rewrite L2Kind2.containerKind_updCont; [exact Kb|intros b; apply bkind_set_bik]. }
    destruct Hc as (Hc & Esc & Cc & Kc). clearbody pc pc'.
    fold (goF pc). fold (goF pc'). apply (FQ_goF L pc pc' (containerKind p)); [exact Hc|exact Esc|exact Cc|exact Kc|rewrite <- Kc; apply ckind_self|exact HK].
  - destruct (negb (isRestBlank p)); [|exact Hb].
    assert (So : st_open pb) by (unfold st_open; rewrite Stb; apply Hgs, Ea).
    pose proof (FQ_openBlock L pb pb' ParagraphKind Hb Esb Cbc Cbq) as Ho. rewrite (FQ_indent L _ _ Ho).
    destruct (li_openBlock pb ParagraphKind) as [A1 _]. destruct (li_openBlock pb' ParagraphKind) as [B1 _].
    destruct (FQ_consumeIndent' L _ _ (indent (openBlock pb ParagraphKind)) Ho) as [Hj Hsj].
    fold (goF (consumeIndent (openBlock pb ParagraphKind) (indent (openBlock pb ParagraphKind)))).
    fold (goF (consumeIndent (openBlock pb' ParagraphKind) (indent (openBlock pb ParagraphKind)))).
    assert (Co : Cq L (openBlock pb ParagraphKind)) by (split; [apply ccP_openBlock; [exact Cbc|left; discriminate]|apply QP_openBlock, Cbq]).
    assert (Ck : ckind (consumeIndent (openBlock pb ParagraphKind) (indent (openBlock pb ParagraphKind))) ParagraphKind).
    { eapply ckind_same; [apply same_consumeIndent|]. apply ckind_openBlock, So. }
    apply (FQ_goF L _ _ ParagraphKind); [exact Hj|apply Hsj; rewrite A1, B1; exact Esb| | |exact Ck|left; reflexivity].
    + eapply Cw_same; [apply same_consumeIndent|apply Cq_Cw, Co].
    + apply containerKind_of; [apply ccP_consumeIndent, Co|exact Ck].
Qed.

(* ---- one line ---- *)
Lemma QP_openNewBlocks L p am : QP L p -> QP L (snd (openNewBlocks p am)).
Proof.
  intros H. unfold openNewBlocks. destruct (_ =? 0).
  - cbn [snd]. pose proof (QP_ls L p H) as Hls. destruct H as [(SS & A & B) C]. split; [|exact C]. exists SS. split; [|exact B]. cbn [root source withCont withRoot setLP].
    pose proof (qB2_closeBlock L SS (source p) (lineStart p) Hls (bheight (root p)) (root p) A) as Hc.
    destruct (closeBlock _ _ _ _) as [|b r]; [exact A|]. cbn [forallb] in Hc. apply andb_true_iff in Hc. tauto.
  - pose proof (QP_opening_loop L (S (length (line p))) p H) as H1. destruct (opening_loop _ p) as [ht p1]. cbn [snd] in H1.
    destruct am; cbn [snd]; [exact H1|apply QP_deferredClose, H1].
Qed.

Lemma F_root0 L children : 0 <= L -> finB L (Blk documentKind 0 (-1) children [] 0 0 0 false false) = Blk documentKind 0 (-1) (map (finB L) children) [] 0 0 0 false false.
Proof. intros L0. cbn [finB]. change (documentKind =? ListMarkerKind) with false. cbv iota. rewrite (bump_neg L L0) by lia. reflexivity. Qed.

Lemma FQ_reset L st children ls src : len src = L -> 0 <= ls -> ls + len (from_ src ls) = L -> lastOK (from_ src ls) ->
  FQ L (resetLP st children ls src) (resetLP st (map (finB L) children) ls (src ++ [10])).
Proof.
  intros EL Hls Hend Lok. assert (L0 : 0 <= L) by (rewrite <- EL; apply len_nonneg). pose proof (len_nonneg (from_ src ls)) as Hn.
  unfold resetLP. rewrite (from_app10 src ls) by lia. rewrite (computeTabRem_app10 (from_ src ls) 0 0) by lia.
  rewrite <- (F_root0 L children L0). apply FQ_mk; try assumption; [reflexivity|lia|left; repeat split].
Qed.
Lemma qB2_root0 L SS src children : forallb (qB2 L SS src) children = true -> qB2 L SS src (Blk documentKind 0 (-1) children [] 0 0 0 false false) = true.
Proof. intros Hq. unfold qB2 in *. cbn [allB]. rewrite Hq. reflexivity. Qed.
Lemma Sp_reset L SS st children ls src : EV src SS ls -> 0 <= ls -> ccF children = true -> forallb (qB2 L SS src) children = true -> Sp L (resetLP st children ls src).
Proof.
  intros N Hls Hc Hq. apply Sp_mk.
  - unfold resetLP. split; [split; [cbn; lia|]|split; [cbn; apply len_nonneg|split; cbn; discriminate]].
    cbn [li line col tabRem]. intros Hl Ha. apply computeTabRem_spec; [lia|exact Hl|exact Ha].
  - unfold ccP, wf, resetLP, cdepth. cbn [root container]. split; [reflexivity|split; [exact Hc|eexists; reflexivity]].
  - split; [|cbn [li resetLP]; lia]. exists SS. unfold resetLP. cbn [root source lineStart]. split; [apply qB2_root0, Hq|exact N].
Qed.

Theorem fin_processLine L SS st children ls src :
  EV src SS ls -> len src = L -> 0 <= ls -> ls + len (from_ src ls) = L -> lastOK (from_ src ls) ->
  ccF children = true -> forallb (qB2 L SS src) children = true ->
  processLine st (map (finB L) children) ls (src ++ [10]) =
    (map (finB L) (fst (fst (processLine st children ls src))), snd (fst (processLine st children ls src)), snd (processLine st children ls src)).
Proof.
  intros N EL Hls Hend Lok Hc Hq. unfold processLine. cbv zeta.
  pose proof (FQ_reset L st children ls src EL Hls Hend Lok) as H0. pose proof (Sp_reset L SS st children ls src N Hls Hc Hq) as S0.
  pose proof (HM_at_text st children ls src Hc) as HHM. cbv zeta in HHM.
  set (p0 := resetLP st children ls src) in *. set (q0 := resetLP st (map (finB L) children) ls (src ++ [10])) in *.
  assert (Es0 : li q0 = li p0) by reflexivity.
  destruct (FQ_descendOpenBlocks L p0 q0 H0 Es0 S0) as (E1 & H1 & Hs1).
  assert (S1 : Sp L (snd (descendOpenBlocks p0))).
  { destruct S0 as (A & B & C). unfold descendOpenBlocks. apply Sp_mk; [apply G_descend_loop, A|apply ccP_descend_loop; [exact B|eexists; reflexivity]|apply QP_descend_loop, C]. }
  destruct (descendOpenBlocks p0) as [am p1]. destruct (descendOpenBlocks q0) as [am' q1]. cbn [fst snd] in *. subst am'.
  rewrite (FQ_state L p1 q1 H1).
  assert (Fin : forall a b, FQ L a b -> cc (root a) = true -> (bkids (root b), state b, panicked b) = (map (finB L) (bkids (root a)), state a, panicked a)).
  { intros a b Hab Hca. rewrite (FQ_state L a b Hab), (FQ_panicked L a b Hab). assert (Er : root b = finB L (root a)) by apply Hab. rewrite Er, (bkids_F L _ Hca). reflexivity. }
  fold DT in Hs1. destruct (Z.eqb_spec (state p1) stDescendTerminated) as [Edt|Ndt]; cbn [negb fst snd].
  - apply Fin; [exact H1|apply (Sp_cc L p1 S1)].
  - destruct (FQ_openNewBlocks L p1 q1 am H1 (Hs1 Ndt) S1) as (E2 & H2 & Hs2).
    assert (S2 : Cq L (snd (openNewBlocks p1 am))) by (split; [apply ccP_openNewBlocks, (Sp_ccP L p1 S1)|apply QP_openNewBlocks, (Sp_QP L p1 S1)]).
    assert (Lp : len (line p1) <> 0) by (assert (Lok1 : lastOK (line p1)) by apply H1; pose proof (lastOK_pos _ Lok1); lia).
    pose proof (HHM am Lp) as HM2. pose proof (L2Kind2.openNewBlocks_good p1 am) as Gd.
    destruct (openNewBlocks p1 am) as [ht p2]. destruct (openNewBlocks q1 am) as [ht' q2]. cbn [fst snd] in *. subst ht'.
    destruct ht.
    + apply Fin; [apply FQ_addLineText; [exact H2|apply Hs2; reflexivity|exact S2|exact HM2|apply Gd; reflexivity]|apply ccP_cc, ccP_addLineText, (proj1 S2)].
    + apply Fin; [exact H2|apply ccP_cc, (proj1 S2)].
Qed.
Print Assumptions fin_processLine.
End GenLine.
