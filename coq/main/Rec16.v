From Coq Require Import List ZArith Lia Bool.
Import ListNotations.
Require Import Base Recog.
Open Scope Z_scope.

(* ---------- list markers (spec 5.2): a bullet -, + or *; or 1-9 digits followed by . or ) ;
   in both cases followed by a space, a tab or the end of the line ---------- *)
Definition sep (l : bytes) : bool := hasTabOrSpacePrefixOrEOL l.
Definition value (ds : bytes) (n0 : Z) : Z := fold_left (fun a c => a * 10 + (c - 48)) ds n0.

Inductive list_marker : bytes -> Z -> Z -> Z -> Prop :=
| LM_bullet c rest : c = 45 \/ c = 43 \/ c = 42 -> sep rest = true -> list_marker (c :: rest) c 0 1
| LM_ordered ds d rest : (1 <= length ds <= 9)%nat -> forallb isASCIIDigit ds = true -> d = 46 \/ d = 41 ->
    sep rest = true -> list_marker (ds ++ d :: rest) d (value ds 0) (len ds + 1).

(* list-recursive reading of the digit loop: k positions may still be inspected *)
Fixpoint lm_ref (k : nat) (l : bytes) (i n : Z) : Z * Z * Z :=
  match k with
  | O => (0, 0, -1)
  | S k' =>
    match l with
    | [] => (0, 0, -1)
    | c :: r =>
      if isASCIIDigit c then lm_ref k' r (i + 1) (n * 10 + (c - 48))
      else if (c =? 46) || (c =? 41) then (if sep r then (c, n, i + 1) else (0, 0, -1))
      else (0, 0, -1)
    end
  end.

Lemma from_cons (l : bytes) i : 0 <= i -> i < len l -> from_ l i = at_ l i :: from_ l (i + 1).
Proof.
  intros H0 H1. unfold from_, at_, len in *. destruct (Z.ltb_spec i 0); [lia|].
  replace (Z.to_nat (i + 1)) with (S (Z.to_nat i)) by lia.
  assert (Hn : (Z.to_nat i < length l)%nat) by lia. revert Hn. generalize (Z.to_nat i). clear.
  intros n. revert l. induction n as [|n IH]; intros l Hn.
  - destruct l; [cbn in Hn; lia|reflexivity].
  - destruct l as [|x l]; [cbn in Hn; lia|]. cbn [skipn nth]. apply IH. cbn in Hn. lia.
Qed.
Lemma from_nil (l : bytes) i : len l <= i -> from_ l i = [].
Proof. intros H. unfold from_, len in *. apply skipn_all2. lia. Qed.

Lemma lm_bridge line : forall fuel i n, 10 - i < Z.of_nat fuel -> 0 <= i ->
  lm_digits fuel line i n = lm_ref (Z.to_nat (10 - i)) (from_ line i) i n.
Proof.
  induction fuel as [|f IH]; intros i n Hf Hi; [replace (Z.to_nat (10 - i)) with O by lia; reflexivity|]. cbn [lm_digits].
  destruct (Z.leb_spec 10 i) as [H10|H10]; cbn [orb].
  { replace (Z.to_nat (10 - i)) with O by lia. reflexivity. }
  destruct (Z.leb_spec (len line) i) as [Hl|Hl].
  { rewrite (from_nil line i Hl). destruct (Z.to_nat (10 - i)); reflexivity. }
  rewrite (from_cons line i Hi Hl).
  replace (Z.to_nat (10 - i)) with (S (Z.to_nat (10 - (i + 1)))) by lia. cbn [lm_ref].
  destruct (isASCIIDigit (at_ line i)); [apply IH; lia|]. reflexivity.
Qed.

Definition ord_spec (k : nat) (l ds : bytes) (d : Z) (rest : bytes) : Prop :=
  l = ds ++ d :: rest /\ (length ds < k)%nat /\ forallb isASCIIDigit ds = true /\ (d = 46 \/ d = 41) /\ sep rest = true.

Lemma lm_ref_sound : forall k l i n d m e, lm_ref k l i n = (d, m, e) -> 0 <= e ->
  exists ds rest, ord_spec k l ds d rest /\ m = value ds n /\ e = i + len ds + 1.
Proof.
  induction k as [|k IH]; intros l i n d m e H He; [cbn in H; inversion H; lia|].
  destruct l as [|c r]; [cbn in H; inversion H; lia|]. cbn [lm_ref] in H.
  destruct (isASCIIDigit c) eqn:Ed.
  - destruct (IH _ _ _ _ _ _ H He) as (ds & rest & (E1 & E2 & E3 & E4 & E5) & Em & Ee).
    exists (c :: ds), rest. split; [|split].
    + unfold ord_spec. subst r. cbn [app length forallb]. rewrite Ed, E3. repeat split; try tauto; lia.
    + exact Em.
    + unfold len in *. cbn [length]. lia.
  - destruct ((c =? 46) || (c =? 41)) eqn:Ec; [|inversion H; lia].
    destruct (sep r) eqn:Es; [|inversion H; lia]. inversion H; subst.
    assert (Hdl : d = 46 \/ d = 41) by (apply orb_true_iff in Ec; destruct Ec as [Ec|Ec]; apply Z.eqb_eq in Ec; tauto).
    exists [], r. split; [|split; [reflexivity|unfold len; cbn; lia]].
    unfold ord_spec. cbn [app length forallb]. repeat split; try lia; assumption.
Qed.

Lemma lm_ref_complete : forall ds k l i n d rest, ord_spec k l ds d rest ->
  lm_ref k l i n = (d, value ds n, i + len ds + 1).
Proof.
  induction ds as [|c ds IH]; intros k l i n d rest (E1 & E2 & E3 & E4 & E5).
  - cbn [app] in E1. subst l. destruct k as [|k]; [cbn in E2; lia|]. cbn [lm_ref].
    assert (Hd : isASCIIDigit d = false) by (destruct E4 as [->| ->]; reflexivity).
    assert (Hc : (d =? 46) || (d =? 41) = true) by (destruct E4 as [->| ->]; reflexivity).
    rewrite Hd, Hc, E5. unfold len. cbn. f_equal. lia.
  - cbn [app] in E1. subst l. destruct k as [|k]; [cbn in E2; lia|]. cbn [lm_ref].
    cbn [forallb] in E3. apply andb_true_iff in E3. destruct E3 as [Ec E3]. rewrite Ec.
    rewrite (IH k (ds ++ d :: rest) (i + 1) (n * 10 + (c - 48)) d rest).
    + cbn [value fold_left]. unfold len. cbn [length]. f_equal. lia.
    + unfold ord_spec. cbn [length] in E2. repeat split; try assumption; lia.
Qed.

Theorem parseListMarker_sound line d n e : parseListMarker line = (d, n, e) -> 0 <= e -> list_marker line d n e.
Proof.
  intros H He. destruct line as [|c r]; [cbn in H; inversion H; lia|]. unfold parseListMarker in H.
  destruct ((c =? 45) || (c =? 43) || (c =? 42)) eqn:Eb.
  - destruct (hasTabOrSpacePrefixOrEOL r) eqn:Es; [|inversion H; lia]. inversion H; subst.
    apply LM_bullet; [|exact Es].
    apply orb_true_iff in Eb. destruct Eb as [Eb|Eb]; [apply orb_true_iff in Eb; destruct Eb as [Eb|Eb]|]; apply Z.eqb_eq in Eb; tauto.
  - destruct (isASCIIDigit c) eqn:Ed; [|inversion H; lia].
    rewrite (lm_bridge (c :: r) 11 1 (c - 48)) in H by (cbn; lia).
    change (from_ (c :: r) 1) with r in H. change (Z.to_nat (10 - 1)) with 9%nat in H.
    destruct (lm_ref_sound _ _ _ _ _ _ _ H He) as (ds & rest & (E1 & E2 & E3 & E4 & E5) & Em & Ee).
    subst r n e.
    replace (1 + len ds + 1) with (len (c :: ds) + 1) by (unfold len; cbn [length]; lia).
    change (value ds (c - 48)) with (value (c :: ds) 0).
    change (c :: ds ++ d :: rest) with ((c :: ds) ++ d :: rest).
    apply LM_ordered; [cbn [length]; lia|cbn [forallb]; rewrite Ed, E3; reflexivity|assumption|assumption].
Qed.

Theorem parseListMarker_complete line d n e : list_marker line d n e -> parseListMarker line = (d, n, e).
Proof.
  intros H. destruct H as [c rest Hc Hs|ds d rest Hl Hd Hdl Hs].
  - unfold parseListMarker. replace ((c =? 45) || (c =? 43) || (c =? 42)) with true by (destruct Hc as [->|[->| ->]]; reflexivity).
    unfold sep in Hs. rewrite Hs. reflexivity.
  - destruct ds as [|c ds]; [cbn in Hl; lia|]. cbn [app]. unfold parseListMarker.
    cbn [forallb] in Hd. apply andb_true_iff in Hd. destruct Hd as [Hc Hd].
    assert (Hnb : (c =? 45) || (c =? 43) || (c =? 42) = false).
    { unfold isASCIIDigit in Hc. apply andb_true_iff in Hc. destruct Hc as [H1 H2]. apply Z.leb_le in H1, H2.
      repeat (apply orb_false_iff; split); apply Z.eqb_neq; lia. }
    rewrite Hnb, Hc.
    rewrite (lm_bridge (c :: ds ++ d :: rest) 11 1 (c - 48)) by (cbn; lia).
    change (from_ (c :: ds ++ d :: rest) 1) with (ds ++ d :: rest). change (Z.to_nat (10 - 1)) with 9%nat.
    rewrite (lm_ref_complete ds 9 (ds ++ d :: rest) 1 (c - 48) d rest).
    + change (value (c :: ds) 0) with (value ds (c - 48)). unfold len. cbn [length]. f_equal. lia.
    + unfold ord_spec. cbn [length] in Hl. repeat split; try assumption; lia.
Qed.

(* a failed parse has exactly one shape *)
Lemma lm_ref_none : forall k l i n d m e, lm_ref k l i n = (d, m, e) -> 0 <= i -> e < 0 -> (d, m, e) = (0, 0, -1).
Proof.
  induction k as [|k IH]; intros l i n d m e H Hi He; [cbn in H; congruence|].
  destruct l as [|c r]; [cbn in H; congruence|]. cbn [lm_ref] in H.
  destruct (isASCIIDigit c); [eapply IH; [exact H|lia|exact He]|].
  destruct ((c =? 46) || (c =? 41)); [|congruence]. destruct (sep r); [|congruence]. inversion H; subst. lia.
Qed.
Theorem parseListMarker_none line d n e : parseListMarker line = (d, n, e) -> e < 0 -> (d, n, e) = (0, 0, -1).
Proof.
  intros H He. destruct line as [|c r]; [cbn in H; congruence|]. unfold parseListMarker in H.
  destruct ((c =? 45) || (c =? 43) || (c =? 42)).
  - destruct (hasTabOrSpacePrefixOrEOL r); [inversion H; subst; lia|congruence].
  - destruct (isASCIIDigit c); [|congruence].
    rewrite (lm_bridge (c :: r) 11 1 (c - 48)) in H by (cbn; lia). eapply lm_ref_none; [exact H|lia|exact He].
Qed.

(* the number of an ordered marker is within 0..999999999 *)
Lemma value_bounds : forall ds n0, forallb isASCIIDigit ds = true -> 0 <= n0 ->
  n0 * 10 ^ len ds <= value ds n0 <= n0 * 10 ^ len ds + (10 ^ len ds - 1).
Proof.
  induction ds as [|c ds IH]; intros n0 Hd H0.
  - unfold len; cbn. lia.
  - cbn [forallb] in Hd. apply andb_true_iff in Hd. destruct Hd as [Hc Hd].
    unfold isASCIIDigit in Hc. apply andb_true_iff in Hc. destruct Hc as [H1 H2]. apply Z.leb_le in H1, H2.
    cbn [value fold_left]. fold (value ds (n0 * 10 + (c - 48))).
    specialize (IH (n0 * 10 + (c - 48)) Hd ltac:(lia)).
    replace (len (c :: ds)) with (len ds + 1) by (unfold len; cbn [length]; lia).
    rewrite Z.pow_add_r by (unfold len; lia). change (10 ^ 1) with 10.
    assert (0 < 10 ^ len ds) by (apply Z.pow_pos_nonneg; unfold len; lia). nia.
Qed.
Corollary ordered_number_range ds : (length ds <= 9)%nat -> forallb isASCIIDigit ds = true -> 0 <= value ds 0 <= 999999999.
Proof.
  intros Hl Hd. pose proof (value_bounds ds 0 Hd ltac:(lia)) as H.
  assert (10 ^ len ds <= 10 ^ 9) by (apply Z.pow_le_mono_r; unfold len; lia). change (10 ^ 9) with 1000000000 in *. lia.
Qed.

Print Assumptions parseListMarker_sound.
Print Assumptions parseListMarker_complete.
Print Assumptions ordered_number_range.
