(* IRender2.v -- T71 (renderer, list item): QRender2 + QRender3 redone for an ARBITRARY position map sg into a text Q, of which only
   two facts are used: a span of D that lies in one line is copied verbatim to Q at sg (sub_sg), and sg is a translation on such a span
   (sg_line).  The tree maps are QInlDefs.qI3 D sg and the block map gB3 (starts by sg, ends by eB e = sg (e - 1) + 1).
   The proofs are those of QRender2.v / QRender3.v (T64). *)
From Coq Require Import List ZArith Lia Bool.
Import ListNotations.
Require Import Base Tables Utf8 Tree Recog Inl3b LP Driver Inl3e Render RenderWalkProof QuoteSimDefs QCutsDef QCuts QIRdrBase QInlDefs LA2 QRender1 QRenderDefs QRender2 QRender3.
Open Scope Z_scope.

Section Gen.
  Variables (D Q : bytes) (sg : Z -> Z).
  (* the two facts about the position map: a span of D inside one line is copied verbatim, and sg is a translation on it *)
  Hypothesis sub_sg : forall a b, 0 <= a -> a < b -> b <= len D -> noLFin D a (b - 1) -> sub Q (sg a) (sg (b - 1) + 1) = sub D a b.
  Hypothesis sg_line : forall a b, 0 <= a -> b <= len D -> noLFin D a (b - 1) -> forall x, a <= x < b -> sg x = sg a + (x - a).
  Variables (src : bytes) (o : Z).
  Hypothesis o_nn : 0 <= o.
  Hypothesis src_sub : forall s e, 0 <= s -> s <= e -> e <= len src -> e + o <= len D /\ sub D (s + o) (e + o) = sub src s e.

  Definition pieceG (p : Z * Z) : bytes := sub Q (sg (fst p)) (sg (snd p - 1) + 1).
  Lemma cuts_concatG a e : 0 <= a -> a < e -> e <= len D -> concat (map pieceG (cuts D a e)) = sub D a e.
  Proof.
    intros Ha Hae He. rewrite <- (cuts_concat D a e Ha Hae). f_equal. apply map_ext_in. intros p Hp.
    destruct (cuts_inv D a e p Hae Hp) as (B1 & B2 & B3 & B4). unfold pieceG, pieceD. apply sub_sg; try lia. exact B4.
  Qed.

  Definition mp (i : inline) : list inline := qI3 D sg (shiftI o i).
  Definition she (e : Z) : Z := if 0 <=? e then e + o else e.
  Definition img (i : inline) : inline :=
    match i with Inl k s e ind rf ks => Inl k (sg (s + o)) (eE sg (s + o) (she e)) ind rf (flat_map mp ks) end.
  Lemma mp_eq k s e ind rf ks : mp (Inl k s e ind rf ks) =
    if splitK k && (s + o <? she e) then map (fun p => Inl k (sg (fst p)) (sg (snd p - 1) + 1) ind rf (flat_map mp ks)) (cuts D (s + o) (she e))
    else [img (Inl k s e ind rf ks)].
  Proof.
    unfold mp at 1. cbn [shiftI qI3]. cbv zeta. rewrite fm_map. fold (she e). reflexivity.
  Qed.
  Lemma mp_props i : forall p, In p (mp i) -> ikind p = ikind i /\ iref p = iref i /\ iindent p = iindent i /\ ikids p = flat_map mp (ikids i).
  Proof.
    destruct i as [k s e ind rf ks]. rewrite mp_eq. intros p Hp. destruct (splitK k && (s + o <? she e)).
    - apply in_map_iff in Hp. destruct Hp as (q & <- & _). cbn. repeat split; reflexivity.
    - destruct Hp as [<-|[]]. cbn. repeat split; reflexivity.
  Qed.
  Lemma mp_nonempty i : mp i <> [].
  Proof.
    destruct i as [k s e ind rf ks]. rewrite mp_eq. destruct (splitK k && (s + o <? she e)); [|discriminate].
    pose proof (cuts_nonempty D (s + o) (she e)) as H. destruct (cuts D (s + o) (she e)); [contradiction|discriminate].
  Qed.
  Lemma ikind_img i : ikind (img i) = ikind i. Proof. destruct i; reflexivity. Qed.
  Lemma mp_nosplit i : splitK (ikind i) = false -> mp i = [img i].
  Proof. destruct i as [k s e ind rf ks]. cbn [ikind]. intros E. rewrite mp_eq, E. reflexivity. Qed.

  Lemma she_in s e : inSp src s e = true -> she e = e + o.
  Proof. intros H. apply inSp_parts in H. unfold she. destruct (Z.leb_spec 0 e); [reflexivity|lia]. Qed.

  (* a span of src inside one line *)
  Lemma noLF_D s e : inSp src s e = true -> noLFl (sub src s (e - 1)) = true -> noLFin D (s + o) (e + o - 1).
  Proof.
    intros Hi Hn x Hx. pose proof (inSp_parts _ _ _ Hi) as (A & B & C).
    destruct (src_sub s (e - 1) A ltac:(lia) ltac:(lia)) as [L E].
    pose proof (noLFl_at _ Hn (x - (s + o))) as G. rewrite <- E in G.
    rewrite len_sub in G by lia. rewrite at_sub in G by lia. replace (s + o + (x - (s + o))) with x in G by lia. apply G. lia.
  Qed.
  Lemma oneLn_facts k s e ind rf ks (i := Inl k s e ind rf ks) : oneLn src s e = true ->
    mp i = [img i] /\ spanOf Q (img i) = spanOf src i /\ iend (img i) - istart (img i) = e - s.
  Proof.
    intros H. unfold oneLn in H. apply andb_true_iff in H. destruct H as [Hi Hn]. pose proof (inSp_parts _ _ _ Hi) as (A & B & C).
    pose proof (noLF_D s e Hi Hn) as Hno. destruct (src_sub s e A B C) as [L E].
    unfold i. rewrite mp_eq. unfold img. rewrite (she_in s e Hi). unfold spanOf. cbn [istart iend]. unfold eE.
    destruct (Z.ltb_spec (s + o) (e + o)) as [Lt|Ge].
    - pose proof (sg_line (s + o) (e + o) ltac:(lia) L Hno (e + o - 1) ltac:(lia)) as T.
      split; [|split; [rewrite sub_sg by (try lia; exact Hno); exact E|rewrite T; lia]].
      destruct (splitK k); [|reflexivity]. cbn [andb]. rewrite (cuts_single D (s + o) (e + o) Lt Hno). reflexivity.
    - assert (e = s) by lia. subst e. rewrite andb_false_r. split; [reflexivity|]. split; [rewrite !sub_nil by lia; reflexivity|lia].
  Qed.
  (* a Text span, cut at line ends *)
  Lemma text_pieces s e : inSp src s e = true -> s < e -> concat (map (pieceG) (cuts D (s + o) (e + o))) = sub src s e.
  Proof.
    intros Hi Hlt. pose proof (inSp_parts _ _ _ Hi) as (A & B & C). destruct (src_sub s e A B C) as [L E].
    rewrite cuts_concatG by lia. exact E.
  Qed.
  Lemma text_empty k s e ind rf ks (i := Inl k s e ind rf ks) : inSp src s e = true -> (s + o <? she e) = false ->
    spanOf Q (img i) = [] /\ spanOf src i = [].
  Proof.
    intros Hi Hlt. rewrite (she_in s e Hi) in Hlt. apply Z.ltb_ge in Hlt. pose proof (inSp_parts _ _ _ Hi) as (A & B & C).
    unfold i, img, spanOf. cbn [istart iend]. rewrite (she_in s e Hi). unfold eE. destruct (Z.ltb_spec (s + o) (e + o)); [lia|].
    split; apply sub_nil; lia.
  Qed.

  (* ---- textOfChildren ---- *)
  Lemma toc_kid c : okI src c = true -> flat_map (tocF Q) (mp c) = tocF src c.
  Proof.
    destruct c as [k s e ind rf ks]. intros H. destruct (okI_parts _ _ _ _ _ _ _ H) as (P1 & P2 & P3 & P4 & P5 & P6).
    destruct (k =? TextKind) eqn:ET.
    - specialize (P1 eq_refl). rewrite mp_eq. unfold splitK. rewrite ET. cbn [orb andb]. destruct (s + o <? she e) eqn:El.
      + rewrite (she_in s e P1) in *. apply Z.ltb_lt in El. rewrite fm_map. unfold tocF at 1. cbn [ikind]. rewrite ET.
        unfold spanOf. cbn [istart iend]. change (fun x : Z * Z => sub Q (sg (fst x)) (sg (snd x - 1) + 1)) with (pieceG).
        rewrite flat_map_concat_map. etransitivity; [apply (text_pieces s e P1); lia|]. unfold tocF. cbn [ikind]. rewrite ET. reflexivity.
      + destruct (text_empty k s e ind rf ks P1 El) as [E1 E2]. cbn [flat_map]. rewrite app_nil_r. unfold tocF. rewrite ikind_img. cbn [ikind]. rewrite ET, E1, E2. reflexivity.
    - destruct (k =? CharacterReferenceKind) eqn:EC.
      + assert (Hl : lineK k = true) by (unfold lineK; rewrite EC; rewrite orb_true_r; reflexivity).
        destruct (oneLn_facts k s e ind rf ks (P2 Hl)) as (M1 & M2 & _). rewrite M1. cbn [flat_map]. rewrite app_nil_r.
        unfold tocF. rewrite ikind_img. cbn [ikind]. rewrite ET, EC. f_equal. exact M2.
      + rewrite fm_nil; [unfold tocF; cbn [ikind]; rewrite ET, EC; reflexivity|].
        intros p Hp. destruct (mp_props _ p Hp) as (K & _). cbn [ikind] in K. unfold tocF. rewrite K, ET, EC. reflexivity.
  Qed.
  Lemma toc_mp d d' : okI src d = true -> leafK (ikind d) = false -> In d' (mp d) -> textOfChildren Q d' = textOfChildren src d.
  Proof.
    intros H HL Hd. destruct (mp_props d d' Hd) as (_ & _ & _ & K). rewrite !textOfChildren_tocF, K, fm_fm.
    apply fm_ext. intros c Hc. apply toc_kid. destruct d as [k s e ind rf ks]. destruct (okI_parts _ _ _ _ _ _ _ H) as (_ & _ & _ & _ & _ & P6).
    cbn [ikind] in HL. specialize (P6 HL). rewrite forallb_forall in P6. apply P6, Hc.
  Qed.

  (* ---- fuel bookkeeping ---- *)
  Lemma isize_pos i : (1 <= isize i)%nat. Proof. destruct i. cbn. lia. Qed.
  Lemma kids_bound i f' : (forall p, In p (mp i) -> (isize p <= S f')%nat) -> forall x, In x (ikids i) -> forall p, In p (mp x) -> (isize p <= f')%nat.
  Proof.
    intros H x Hx p Hp. pose proof (mp_nonempty i) as Hne. destruct (mp i) as [|q l] eqn:Eq; [contradiction|].
    assert (Hq : In q (mp i)) by (rewrite Eq; left; reflexivity). destruct (mp_props i q Hq) as (_ & _ & _ & K).
    assert (In p (ikids q)) by (rewrite K; apply in_flat_map; exists x; split; assumption).
    pose proof (isize_kid q p H0). specialize (H q (or_introl eq_refl)). lia.
  Qed.

  (* ---- altText ---- *)
  Lemma altText_mp : forall f f' i, okI src i = true -> (isize i <= f)%nat -> (forall p, In p (mp i) -> (isize p <= f')%nat) ->
    flat_map (altText f' Q) (mp i) = altText f src i.
  Proof.
    induction f as [|f IH]; intros f' i H Hf Hf'; [pose proof (isize_pos i); lia|].
    destruct f' as [|f'].
    { exfalso. pose proof (mp_nonempty i) as Hne. destruct (mp i) as [|q l]; [contradiction|]. specialize (Hf' q (or_introl eq_refl)). pose proof (isize_pos q). lia. }
    pose proof (kids_bound i f' Hf') as Hkb.
    destruct i as [k s e ind rf ks]. destruct (okI_parts _ _ _ _ _ _ _ H) as (P1 & P2 & P3 & P4 & P5 & P6).
    assert (Hrec : leafK k = false -> flat_map (altText f' Q) (flat_map mp ks) = flat_map (altText f src) ks).
    { intros HL. specialize (P6 HL). rewrite fm_fm. apply fm_ext. intros x Hx. apply IH.
      - rewrite forallb_forall in P6. apply P6, Hx.
      - pose proof (isize_kid (Inl k s e ind rf ks) x Hx). lia.
      - apply (Hkb x Hx). }
    rewrite mp_eq. destruct (splitK k && (s + o <? she e)) eqn:Esp.
    - apply andb_true_iff in Esp. destruct Esp as [Ek El]. rewrite fm_map. cbn [altText ikind ikids].
      destruct (k =? TextKind) eqn:ET.
      + specialize (P1 eq_refl). rewrite (she_in s e P1) in *. apply Z.ltb_lt in El.
        unfold spanOf. cbn [istart iend]. change (fun x : Z * Z => escapeHTML (sub Q (sg (fst x)) (sg (snd x - 1) + 1))) with (fun x => escapeHTML (pieceG x)).
        rewrite (fm_hom escapeHTML (pieceG)) by (reflexivity || apply escapeHTML_app). f_equal. apply (text_pieces s e P1). lia.
      + unfold splitK in Ek. rewrite ET in Ek. cbn [orb] in Ek. specialize (P3 Ek). subst ks. apply Z.eqb_eq in Ek. subst k.
        cbn [flat_map]. apply fm_nil. intros x _. reflexivity.
    - cbn [flat_map]. rewrite app_nil_r. unfold img. cbn [altText ikind ikids].
      destruct (k =? TextKind) eqn:ET.
      + specialize (P1 eq_refl). unfold splitK in Esp. rewrite ET in Esp. cbn [orb andb] in Esp.
        destruct (text_empty k s e ind rf ks P1 Esp) as [E1 E2]. unfold img in E1. rewrite E1, E2. reflexivity.
      + destruct (k =? CharacterReferenceKind) eqn:EC.
        * assert (Hl : lineK k = true) by (unfold lineK; rewrite EC; rewrite orb_true_r; reflexivity).
          destruct (oneLn_facts k s e ind rf ks (P2 Hl)) as (_ & M2 & _). exact M2.
        * destruct ((k =? IndentKind) || (k =? SoftLineBreakKind) || (k =? HardLineBreakKind)) eqn:E3; [reflexivity|].
          destruct ((k =? LinkDestinationKind) || (k =? LinkTitleKind) || (k =? LinkLabelKind)) eqn:E4; [reflexivity|]. apply Hrec.
          apply orb_false_iff in E3. destruct E3 as [E3 E3c]. apply orb_false_iff in E3. destruct E3 as [E3a E3b].
          apply orb_false_iff in E4. destruct E4 as [_ E4c]. unfold leafK. rewrite ET, EC, E3a, E3b, E3c, E4c. reflexivity.
  Qed.

  (* ---- link reference and link parts ---- *)
  Lemma rev_mp_cons a : exists p l, rev (mp a) = p :: l /\ In p (mp a).
  Proof.
    pose proof (mp_nonempty a) as Hne. destruct (rev (mp a)) as [|p l] eqn:E.
    - exfalso. apply Hne. rewrite <- (rev_involutive (mp a)), E. reflexivity.
    - exists p, l. split; [reflexivity|]. apply in_rev. rewrite E. left. reflexivity.
  Qed.
  Lemma linkReference_img i : linkReference (img i) = linkReference i.
  Proof.
    destruct i as [k s e ind rf ks]. unfold linkReference, img. cbn [ikind ikids iref].
    destruct ((k =? LinkKind) || (k =? ImageKind)); [|reflexivity].
    rewrite rev_fm. destruct (rev ks) as [|a R1]; [reflexivity|]. cbn [flat_map].
    destruct (rev_mp_cons a) as (p & l & E & Hp). rewrite E. cbn [app]. destruct (mp_props a p Hp) as (K1 & K2 & _). rewrite K1, K2. reflexivity.
  Qed.
  Lemma partK_nosplit kk : isPartK kk = true -> splitK kk = false.
  Proof.
    unfold isPartK, splitK. intros H. apply orb_true_iff in H. destruct H as [H|H]; apply Z.eqb_eq in H; subst kk; reflexivity.
  Qed.
  Lemma linkPart_img k s e ind rf ks kk (i := Inl k s e ind rf ks) : tailOK ks = true -> isPartK kk = true ->
    match linkPart i kk with
    | None => linkPart (img i) kk = None
    | Some d => In d ks /\ linkPart (img i) kk = Some (img d)
    end.
  Proof.
    intros HT Hkk. unfold linkPart, i, img. cbn [ikids]. rewrite !lastTwo_firstn, rev_fm. unfold tailOK in HT.
    assert (Hin : forall x, In x (rev ks) -> In x ks) by (intros x Hx; apply in_rev; exact Hx).
    destruct (rev ks) as [|a R1]; [reflexivity|]. cbn [flat_map]. rewrite firstn_cons. cbn [find].
    assert (Hfa : forall x, In x (mp a) -> (ikind x =? kk) = (ikind a =? kk)) by (intros x Hx; destruct (mp_props a x Hx) as (K & _); rewrite K; reflexivity).
    destruct (ikind a =? kk) eqn:Ea.
    - (* the last child is the part *)
      assert (Es : splitK (ikind a) = false) by (apply Z.eqb_eq in Ea; rewrite Ea; apply partK_nosplit, Hkk).
      rewrite (mp_nosplit a Es). cbn [rev app]. rewrite firstn_cons. cbn [find]. rewrite ikind_img, Ea. split; [apply Hin; left; reflexivity|reflexivity].
    - destruct R1 as [|b R2].
      + rewrite firstn_nil. cbn [find flat_map]. rewrite app_nil_r. apply find_none. intros x Hx. apply in_firstn in Hx. apply Hfa, in_rev, Hx.
      + rewrite firstn_cons, firstn_O. cbn [find flat_map].
        assert (Hfb : forall x, In x (mp b) -> (ikind x =? kk) = (ikind b =? kk)) by (intros x Hx; destruct (mp_props b x Hx) as (K & _); rewrite K; reflexivity).
        destruct (ikind b =? kk) eqn:Eb.
        * assert (Esb : splitK (ikind b) = false) by (apply Z.eqb_eq in Eb; rewrite Eb; apply partK_nosplit, Hkk).
          assert (Esa : splitK (ikind a) = false).
          { apply Z.eqb_eq in Eb. rewrite Eb, Hkk in HT. cbn [negb] in HT. rewrite orb_false_r in HT. apply negb_true_iff in HT. exact HT. }
          rewrite (mp_nosplit a Esa), (mp_nosplit b Esb). cbn [rev app]. rewrite !firstn_cons, firstn_O. cbn [find]. rewrite !ikind_img, Ea, Eb.
          split; [apply Hin; right; left; reflexivity|reflexivity].
        * apply find_none. intros x Hx.
          destruct (rev_mp_cons a) as (a1 & A & EA & HA). destruct (rev_mp_cons b) as (b1 & B & EB & HB). rewrite EA, EB in Hx.
          assert (HAall : forall y, In y (a1 :: A) -> In y (mp a)) by (intros y Hy; apply in_rev; rewrite EA; exact Hy).
          cbn [app] in Hx. rewrite firstn_cons in Hx. destruct Hx as [<-|Hx]; [apply Hfa, HA|].
          destruct A as [|a2 A].
          -- cbn [app] in Hx. rewrite firstn_cons, firstn_O in Hx. destruct Hx as [<-|[]]. apply Hfb, HB.
          -- cbn [app] in Hx. rewrite firstn_cons, firstn_O in Hx. destruct Hx as [<-|[]]. apply Hfa, HAall. right; left; reflexivity.
  Qed.
  Lemma defOf_img refs k s e ind rf ks (i := Inl k s e ind rf ks) : okI src i = true -> (k =? LinkKind) || (k =? ImageKind) = true ->
    defOf refs Q (img i) = defOf refs src i.
  Proof.
    intros H Hk. destruct (okI_parts _ _ _ _ _ _ _ H) as (_ & _ & _ & _ & P5 & P6). specialize (P5 Hk).
    assert (HLk : leafK k = false).
    { apply orb_true_iff in Hk. destruct Hk as [E|E]; apply Z.eqb_eq in E; subst k; reflexivity. }
    specialize (P6 HLk). rewrite forallb_forall in P6.
    unfold defOf. rewrite (linkReference_img i). destruct (negb (len (linkReference i) =? 0)); [reflexivity|].
    pose proof (linkPart_img k s e ind rf ks LinkDestinationKind P5 eq_refl) as HD.
    pose proof (linkPart_img k s e ind rf ks LinkTitleKind P5 eq_refl) as HT. fold i in HD, HT.
    assert (Htoc : forall d, In d ks -> isPartK (ikind d) = true -> textOfChildren Q (img d) = textOfChildren src d).
    { intros d Hd Hs. apply toc_mp; [apply P6, Hd| |rewrite (mp_nosplit d (partK_nosplit _ Hs)); left; reflexivity].
      unfold isPartK in Hs. apply orb_true_iff in Hs. destruct Hs as [E|E]; apply Z.eqb_eq in E; rewrite E; reflexivity. }
    assert (HkD : forall d kk, linkPart i kk = Some d -> ikind d = kk).
    { intros d kk E. unfold linkPart in E. apply find_some in E. destruct E as [_ E]. apply Z.eqb_eq, E. }
    destruct (linkPart i LinkDestinationKind) as [d|] eqn:ED; destruct (linkPart i LinkTitleKind) as [t|] eqn:ETt.
    - destruct HD as [Id ->]. destruct HT as [It ->]. rewrite (Htoc d Id), (Htoc t It); [reflexivity| |].
      + rewrite (HkD t _ ETt). reflexivity.
      + rewrite (HkD d _ ED). reflexivity.
    - destruct HD as [Id ->]. rewrite HT. rewrite (Htoc d Id); [reflexivity|]. rewrite (HkD d _ ED). reflexivity.
    - destruct HT as [It ->]. rewrite HD. rewrite (Htoc t It); [reflexivity|]. rewrite (HkD t _ ETt). reflexivity.
    - rewrite HD, HT. reflexivity.
  Qed.

  (* ---- renderI ---- *)
  Variables (c : cfg) (refs : list (bytes * linkDef)).
  Hypothesis c_safe : ignoreRaw c = true.

  Lemma renderI_mp : forall f f' i, okI src i = true -> (isize i <= f)%nat -> (forall p, In p (mp i) -> (isize p <= f')%nat) ->
    flat_map (renderI f' c refs Q) (mp i) = renderI f c refs src i.
  Proof.
    induction f as [|f IH]; intros f' i H Hf Hf'; [pose proof (isize_pos i); lia|].
    destruct f' as [|f'].
    { exfalso. pose proof (mp_nonempty i) as Hne. destruct (mp i) as [|q l]; [contradiction|]. specialize (Hf' q (or_introl eq_refl)). pose proof (isize_pos q). lia. }
    pose proof (kids_bound i f' Hf') as Hkb.
    destruct i as [k s e ind rf ks]. destruct (okI_parts _ _ _ _ _ _ _ H) as (P1 & P2 & P3 & P4 & P5 & P6).
    assert (Hrec : leafK k = false -> flat_map (renderI f' c refs Q) (flat_map mp ks) = flat_map (renderI f c refs src) ks).
    { intros HL. specialize (P6 HL). rewrite fm_fm. apply fm_ext. intros x Hx. apply IH.
      - rewrite forallb_forall in P6. apply P6, Hx.
      - pose proof (isize_kid (Inl k s e ind rf ks) x Hx). lia.
      - apply (Hkb x Hx). }
    pose proof (mp_eq k s e ind rf ks) as Emp. rewrite Emp. destruct (splitK k && (s + o <? she e)) eqn:Esp.
    - apply andb_true_iff in Esp. destruct Esp as [Ek El]. rewrite fm_map. cbn [renderI ikind ikids istart iend iindent].
      destruct (k =? TextKind) eqn:ET.
      + specialize (P1 eq_refl). rewrite (she_in s e P1) in *. apply Z.ltb_lt in El. cbn [orb].
        unfold spanOf. cbn [istart iend]. change (fun x : Z * Z => escapeHTML (sub Q (sg (fst x)) (sg (snd x - 1) + 1))) with (fun x => escapeHTML (pieceG x)).
        rewrite (fm_hom escapeHTML (pieceG)) by (reflexivity || apply escapeHTML_app). f_equal. apply (text_pieces s e P1). lia.
      + unfold splitK in Ek. rewrite ET in Ek. cbn [orb] in Ek. apply Z.eqb_eq in Ek. subst k. rewrite c_safe.
        apply fm_nil. intros x _. reflexivity.
    - cbn [flat_map]. rewrite app_nil_r. unfold img. cbn [renderI ikind ikids istart iend iindent].
      destruct (k =? TextKind) eqn:ET.
      { specialize (P1 eq_refl). unfold splitK in Esp. rewrite ET in Esp. cbn [orb andb] in Esp.
        destruct (text_empty k s e ind rf ks P1 Esp) as [E1 E2]. unfold img in E1. cbn [orb]. rewrite E1, E2. reflexivity. }
      assert (HL : lineK k = true -> spanOf Q (Inl k (sg (s + o)) (eE sg (s + o) (she e)) ind rf (flat_map mp ks)) = spanOf src (Inl k s e ind rf ks) /\
                                   eE sg (s + o) (she e) - sg (s + o) = e - s).
      { intros Hl. destruct (oneLn_facts k s e ind rf ks (P2 Hl)) as (_ & M2 & M3). unfold img in M2, M3. cbn [istart iend] in M3. split; assumption. }
      destruct (k =? UnparsedKind) eqn:EU.
      { cbn [orb]. destruct HL as [M2 _]; [unfold lineK; rewrite EU; reflexivity|]. rewrite M2. reflexivity. }
      cbn [orb]. destruct (k =? CharacterReferenceKind) eqn:EC.
      { destruct HL as [M2 _]; [unfold lineK; rewrite EC, orb_true_r; reflexivity|]. exact M2. }
      destruct (k =? RawHTMLKind) eqn:ER; [rewrite c_safe; reflexivity|].
      destruct (k =? SoftLineBreakKind) eqn:ES.
      { destruct HL as [M2 M3]; [unfold lineK; rewrite ES, orb_true_r; reflexivity|]. rewrite M3, M2. reflexivity. }
      destruct (k =? HardLineBreakKind); [reflexivity|].
      destruct (k =? EmphasisKind) eqn:EE; [rewrite Hrec by (apply Z.eqb_eq in EE; rewrite EE; reflexivity); reflexivity|].
      destruct (k =? StrongKind) eqn:ESt; [rewrite Hrec by (apply Z.eqb_eq in ESt; rewrite ESt; reflexivity); reflexivity|].
      destruct (k =? CodeSpanKind) eqn:ECs; [rewrite Hrec by (apply Z.eqb_eq in ECs; rewrite ECs; reflexivity); reflexivity|].
      destruct (k =? LinkKind) eqn:ELk.
      { pose proof (defOf_img refs k s e ind rf ks H ltac:(rewrite ELk; reflexivity)) as HD. cbv zeta in HD. unfold img in HD. rewrite HD.
        rewrite Hrec by (apply Z.eqb_eq in ELk; rewrite ELk; reflexivity). reflexivity. }
      destruct (k =? ImageKind) eqn:EIm.
      { pose proof (defOf_img refs k s e ind rf ks H ltac:(rewrite ELk, EIm; reflexivity)) as HD. cbv zeta in HD. unfold img in HD. rewrite HD.
        pose proof (altText_mp (isize (Inl k s e ind rf ks)) (isize (img (Inl k s e ind rf ks))) (Inl k s e ind rf ks) H (le_n _)) as HA.
        rewrite Emp in HA. cbn [flat_map] in HA. rewrite app_nil_r in HA. unfold img in HA. rewrite HA; [reflexivity|].
        intros p [<-|[]]. apply le_n. }
      destruct (k =? AutolinkKind) eqn:EA.
      { specialize (P4 eq_refl). destruct ks as [|t r]; [reflexivity|]. destruct t as [kt st et it rt kst]. cbn [istart iend] in P4.
        destruct (oneLn_facts kt st et it rt kst P4) as (M1 & M2 & _). cbn [flat_map]. rewrite M1. cbn [app]. rewrite M2. reflexivity. }
      destruct (k =? IndentKind); [reflexivity|].
      destruct (k =? HTMLTagKind) eqn:EH; [rewrite Hrec by (apply Z.eqb_eq in EH; rewrite EH; reflexivity); reflexivity|]. reflexivity.
  Qed.

  (* ---- blocks ---- *)
  Definition eB (e : Z) : Z := if e <=? 0 then e else sg (e - 1) + 1.
  Fixpoint gB3 (b : block) : block :=
    match b with Blk k s e bk ik a nn c0 l lb =>
      Blk k (sg s) (eB e) (map gB3 bk) (flat_map (qI3 D sg) ik) a nn c0 l lb end.
  Definition mpB (b : block) : block := gB3 (shiftB o b).
  Lemma mpB_eq k s e bk ik a nn ch l lb : mpB (Blk k s e bk ik a nn ch l lb) =
    Blk k (sg (s + o)) (eB (she e)) (map mpB bk) (flat_map mp ik) a nn ch l lb.
  Proof. unfold mpB at 1. cbn [shiftB gB3]. rewrite map_map, fm_map. reflexivity. Qed.

  Lemma kidsI_mp ik : forallb (okI src) ik = true ->
    flat_map (fun i => renderI (isize i) c refs Q i) (flat_map mp ik) = flat_map (fun i => renderI (isize i) c refs src i) ik.
  Proof.
    intros H. rewrite forallb_forall in H. rewrite fm_fm. apply fm_ext. intros x Hx.
    set (M := fold_right (fun q a => (isize q + a)%nat) O (mp x)).
    rewrite (fm_ext (fun p => renderI (isize p) c refs Q p) (renderI M c refs Q)).
    - apply renderI_mp; [apply H, Hx|apply le_n|]. intros p Hp. apply isize_le_sum, Hp.
    - intros p Hp. apply renderI_fuel; [apply le_n|apply isize_le_sum, Hp].
  Qed.

  Lemma listItemNumber_mp b : okB src b = true -> listItemNumber Q (mpB b) = listItemNumber src b.
  Proof.
    destruct b as [k s e bk ik a nn ch l lb]. intros H. destruct (okB_parts _ _ _ _ _ _ _ _ _ _ _ H) as (_ & _ & _ & P4).
    rewrite mpB_eq. unfold listItemNumber, isOrdered. cbn [bchar bkind bkids].
    destruct (negb ((ch =? 46) || (ch =? 41)) || negb (k =? ListItemKind)); [reflexivity|].
    destruct bk as [|m bk']; [reflexivity|]. cbn [map]. cbn [forallb] in P4. apply andb_true_iff in P4. destruct P4 as [Pm _].
    destruct m as [km sm em bkm ikm am nm cm lm lbm]. rewrite mpB_eq. cbn [bkind bstart bend].
    destruct (km =? ListMarkerKind) eqn:EM; [|reflexivity]. cbn [negb].
    destruct (okB_parts _ _ _ _ _ _ _ _ _ _ _ Pm) as (Q1 & _). destruct (Q1 EM) as [Hlt Hol].
    unfold oneLn in Hol. apply andb_true_iff in Hol. destruct Hol as [Hi Hn]. pose proof (inSp_parts _ _ _ Hi) as (A & B & C).
    rewrite (she_in sm em Hi). unfold eB. destruct (Z.leb_spec (em + o) 0); [lia|].
    destruct (src_sub sm em A B C) as [L E]. rewrite sub_sg; [rewrite E; reflexivity|lia|lia|exact L|].
    apply (noLF_D sm em Hi Hn).
  Qed.

  Lemma first_mp (i0 : inline) rest : exists q l, flat_map mp (i0 :: rest) = q :: l /\ In q (mp i0).
  Proof.
    cbn [flat_map]. pose proof (mp_nonempty i0) as Hne. destruct (mp i0) as [|q l0]; [contradiction|].
    exists q, (l0 ++ flat_map mp rest). split; [reflexivity|left; reflexivity].
  Qed.

  Lemma renderB_mp : forall f f' pt b, okB src b = true -> (bheight b <= f)%nat -> (bheight b <= f')%nat ->
    renderB f' c refs Q pt (mpB b) = renderB f c refs src pt b.
  Proof.
    induction f as [|f IH]; intros f' pt b H Hf Hf'; [destruct b; cbn [bheight] in Hf; lia|].
    destruct f' as [|f']; [destruct b; cbn [bheight] in Hf'; lia|].
    destruct b as [k s e bk ik a nn ch l lb]. destruct (okB_parts _ _ _ _ _ _ _ _ _ _ _ H) as (_ & _ & P3 & P4).
    rewrite mpB_eq.
    assert (HkB : forall tight, flat_map (renderB f' c refs Q tight) (map mpB bk) = flat_map (renderB f c refs src tight) bk).
    { intros tight. rewrite fm_map. apply fm_ext. intros x Hx. pose proof (bheight_kid (Blk k s e bk ik a nn ch l lb) x Hx) as Hh.
      rewrite forallb_forall in P4. apply IH; [apply P4, Hx|lia|lia]. }
    pose proof (kidsI_mp ik P3) as HkI.
    assert (Hinfo : match flat_map mp ik with
                    | i0 :: _ => if ikind i0 =? InfoStringKind then Some (textOfChildren Q i0) else None | [] => None end =
                    match ik with i0 :: _ => if ikind i0 =? InfoStringKind then Some (textOfChildren src i0) else None | [] => None end).
    { destruct ik as [|i0 rest]; [reflexivity|]. destruct (first_mp i0 rest) as (q & l0 & E & Hq). rewrite E.
      destruct (mp_props i0 q Hq) as (K & _). rewrite K. destruct (ikind i0 =? InfoStringKind) eqn:EI; [|reflexivity].
      f_equal. apply toc_mp; [|apply Z.eqb_eq in EI; rewrite EI; reflexivity|exact Hq]. cbn [forallb] in P3. apply andb_true_iff in P3. apply P3. }
    assert (Hlin : match map mpB bk with it :: _ => listItemNumber Q it | [] => -1 end = match bk with it :: _ => listItemNumber src it | [] => -1 end).
    { destruct bk as [|b0 bk']; [reflexivity|]. cbn [map]. apply listItemNumber_mp. cbn [forallb] in P4. apply andb_true_iff in P4. apply P4. }
    cbn [renderB]. unfold isTightList. cbn [bkind bkids bik bn bchar bloose]. rewrite HkB, HkI.
    assert (Hkids : match map mpB bk with
                    | [] => flat_map (fun i => renderI (isize i) c refs src i) ik
                    | _ :: _ => flat_map (renderB f c refs src (((k =? ListKind) || (k =? ListItemKind)) && negb l)) bk end =
                    match bk with
                    | [] => flat_map (fun i => renderI (isize i) c refs src i) ik
                    | _ :: _ => flat_map (renderB f c refs src (((k =? ListKind) || (k =? ListItemKind)) && negb l)) bk end)
      by (destruct bk; reflexivity).
    rewrite Hkids. clear Hkids.
    destruct (k =? ParagraphKind); [reflexivity|]. destruct (k =? ThematicBreakKind); [reflexivity|]. destruct (isHeading k); [reflexivity|].
    destruct (isCode k).
    { destruct (k =? FencedCodeBlockKind); [|reflexivity].
      destruct ik as [|i0 rest]; [reflexivity|]. destruct (first_mp i0 rest) as (q & l0 & E & Hq). rewrite E in Hinfo |- *.
      destruct (mp_props i0 q Hq) as (K & _). rewrite K in Hinfo |- *. destruct (ikind i0 =? InfoStringKind); [|reflexivity].
      injection Hinfo as Hinfo. rewrite Hinfo. reflexivity. }
    destruct (k =? BlockQuoteKind); [reflexivity|].
    destruct (k =? ListKind).
    { unfold isOrdered. cbn [bchar]. destruct ((ch =? 46) || (ch =? 41)); [|reflexivity]. rewrite Hlin. reflexivity. }
    destruct (k =? ListItemKind); [reflexivity|]. destruct (k =? HTMLBlockKind); [|reflexivity]. rewrite c_safe. reflexivity.
  Qed.

  (* ---- the reference map ---- *)
  Lemma extractDefs_mp : forall f f' b acc, okB src b = true -> (bheight b <= f)%nat -> (bheight b <= f')%nat ->
    extractDefs f' Q (mpB b) acc = extractDefs f src b acc.
  Proof.
    induction f as [|f IH]; intros f' b acc H Hf Hf'; [destruct b; cbn [bheight] in Hf; lia|].
    destruct f' as [|f']; [destruct b; cbn [bheight] in Hf'; lia|].
    destruct b as [k s e bk ik a nn ch l lb]. destruct (okB_parts _ _ _ _ _ _ _ _ _ _ _ H) as (_ & P2 & P3 & P4).
    rewrite mpB_eq. cbn [extractDefs bkind bik bkids]. destruct (k =? LinkReferenceDefinitionKind) eqn:EK.
    - specialize (P2 eq_refl). unfold defHead in P2. destruct ik as [|l0 rest]; [reflexivity|].
      apply andb_true_iff in P2. destruct P2 as [Sl Sd]. apply negb_true_iff in Sl.
      cbn [forallb] in P3. apply andb_true_iff in P3. destruct P3 as [Ol P3].
      cbn [flat_map]. rewrite (mp_nosplit l0 Sl). cbn [app].
      destruct rest as [|d rest2]; [reflexivity|]. apply andb_true_iff in Sd. destruct Sd as [Kd Kt]. apply Z.eqb_eq in Kd.
      assert (Sd : splitK (ikind d) = false) by (rewrite Kd; reflexivity).
      cbn [forallb] in P3. apply andb_true_iff in P3. destruct P3 as [Od P3].
      cbn [flat_map]. rewrite (mp_nosplit d Sd). cbn [app].
      assert (Er : iref (img l0) = iref l0) by (destruct l0; reflexivity). rewrite Er.
      destruct ((len (iref l0) =? 0) || existsb (fun kv => Utf8.bytes_eqb (fst kv) (iref l0)) acc); [reflexivity|].
      f_equal. f_equal.
      assert (Ed : textOfChildren Q (img d) = textOfChildren src d).
      { apply toc_mp; [exact Od|rewrite Kd; reflexivity|]. rewrite (mp_nosplit d Sd). left. reflexivity. }
      rewrite Ed. destruct rest2 as [|t rest3]; [reflexivity|]. apply Z.eqb_eq in Kt.
      destruct (first_mp t rest3) as (q & l1 & E & Hq). rewrite E.
      cbn [forallb] in P3. apply andb_true_iff in P3. destruct P3 as [Ot _].
      rewrite (toc_mp t q Ot ltac:(rewrite Kt; reflexivity) Hq). reflexivity.
    - clear P2 P3 H. revert acc. induction bk as [|x bk IHbk]; intros acc; [reflexivity|].
      cbn [map fold_left]. cbn [forallb] in P4. apply andb_true_iff in P4. destruct P4 as [Ox P4].
      assert (Hx : (bheight x <= f)%nat /\ (bheight x <= f')%nat).
      { pose proof (bheight_kid (Blk k s e (x :: bk) ik a nn ch l lb) x (or_introl eq_refl)). lia. }
      rewrite (IH f' x acc Ox (proj1 Hx) (proj2 Hx)). apply IHbk; [| |exact P4].
      + cbn [bheight fold_right] in Hf |- *. lia.
      + cbn [bheight fold_right] in Hf' |- *. lia.
  Qed.
End Gen.
