(* ChkW8.v -- T30, stage 2: from the invariant W of a root block (ChkW7.parseBlocks_okRW), the entry kinds (L2Kind2), the
   emptiness of SoftLineBreak entries (L2Bnd) and an explicit bound on the entries, to the executable check ChkB.blkOK on
   the NUL-filled source text; the theorem chkDoc_of_bounds_partial. *)
From Coq Require Import List ZArith Lia Bool.
Import ListNotations.
Require Import Base Tables Utf8 Tree Rdr Link Collect Html Recog Inl3a Inl3b Inl3c Inl3d Inl3e LP Rules Starts Driver Render Safe MainTok
  L2Kind2 L2Bnd L2BndS ShapesBase C17bytes C17chk C17tags C17local ChkA ChkHT ChkCollect ChkComp1 ChkComp2 ChkComp3 ChkB
  ChkW1 ChkW7.
Open Scope Z_scope.

(* ---- the NUL filling changes a byte only into a byte of U+FFFD ---- *)
Definition fffd (c : Z) : bool := (c =? 239) || (c =? 191) || (c =? 189).
Lemma len_fill : forall l k, len (fill_aux k l) = len l.
Proof.
  induction l as [|b r IH]; intros k; [reflexivity|]. cbn [fill_aux].
  destruct k as [|[|[|k]]]; try (destruct (b =? 0)); rewrite !len_cons, IH; reflexivity.
Qed.
Lemma fill_at : forall l k i, at_ (fill_aux k l) i = at_ l i \/ fffd (at_ (fill_aux k l) i) = true.
Proof.
  induction l as [|b r IH]; intros k i; [left; reflexivity|].
  destruct (Z.ltb_spec i 0) as [L|L]; [left; rewrite !at_neg by lia; reflexivity|].
  destruct (Z.eq_dec i 0) as [->|N].
  - cbn [fill_aux]. destruct k as [|[|[|k]]]; try (right; reflexivity);
      (destruct (Z.eqb_spec b 0) as [->|Nb]; [right; reflexivity|left; reflexivity]).
  - cbn [fill_aux]. destruct k as [|[|[|k]]]; try (destruct (b =? 0)); rewrite !(at_S' _ _ i) by lia; apply IH.
Qed.
Lemma fffd_sep c : fffd c = true -> sepByte c = true.
Proof. unfold fffd, sepByte. intros H. repeat (apply orb_true_iff in H; destruct H as [H|H]); rewrite H; rewrite ?orb_true_r; reflexivity. Qed.
Lemma fffd_blank c : fffd c = true -> blankish c = true.
Proof. unfold fffd, blankish. intros H. repeat (apply orb_true_iff in H; destruct H as [H|H]); rewrite H; rewrite ?orb_true_r; reflexivity. Qed.

Section T.
  Variable srcW : bytes.
  Variable n : Z.
  Hypothesis Hn : 0 <= n <= len srcW.
  Let pre := upto srcW n.
  Let fsrc := fillNulls pre.

  Lemma len_fsrc : len fsrc = n.
  Proof. unfold fsrc, fillNulls. rewrite len_fill. unfold pre. rewrite ShapesBase.len_upto. lia. Qed.
  Lemma fsrc_at i : 0 <= i < n -> at_ fsrc i = at_ srcW i \/ fffd (at_ fsrc i) = true.
  Proof.
    intros Hi. destruct (fill_at pre 0 i) as [E|E]; [left|right; exact E].
    unfold fsrc, fillNulls. rewrite E. unfold pre. apply at_upto. lia.
  Qed.
  Lemma sep_transfer e : 0 < e <= n -> isEolB (at_ srcW (e - 1)) = true -> sepByte (at_ fsrc (e - 1)) = true.
  Proof.
    intros He H. destruct (fsrc_at (e - 1) ltac:(lia)) as [E|E]; [|apply fffd_sep, E].
    rewrite E. unfold isEolB in H. unfold sepByte. apply orb_true_iff in H. destruct H as [H|H]; rewrite H; rewrite ?orb_true_r; reflexivity.
  Qed.
  Lemma blank_transfer s e : 0 <= s -> e <= n -> forallb isSpTab (sub srcW s e) = true -> forallb blankish (sub fsrc s e) = true.
  Proof.
    intros Hs He H. apply forallb_at. intros i Hi. pose proof (len_sub_le fsrc s e) as Hl.
    rewrite at_sub by lia. destruct (fsrc_at (s + i) ltac:(lia)) as [E|E]; [|apply fffd_blank, E].
    rewrite E. pose proof (at_forallb _ _ H i) as H1. rewrite len_sub_in in H1 by lia. specialize (H1 ltac:(lia)).
    rewrite at_sub in H1 by lia. unfold blankish. rewrite H1. reflexivity.
  Qed.

  (* the explicit bound on an entry: it starts at a non-negative offset and, when not empty, ends inside the root's text *)
  Definition ebnd (u : inline) : bool := (0 <=? istart u) && ((iend u <=? istart u) || (iend u <=? n)).

  Lemma gd_sep u : ebnd u = true -> gd srcW u = true -> (iend u <=? istart u) || sepByte (at_ fsrc (iend u - 1)) = true.
  Proof.
    unfold ebnd, gd. intros Hb H. apply andb_true_iff in Hb. destruct Hb as [B1 B2]. apply Z.leb_le in B1.
    destruct (Z.leb_spec (iend u) (istart u)) as [L|L]; [reflexivity|]. cbn [orb] in *. apply Z.leb_le in B2.
    apply orb_true_iff in H. destruct H as [H|H]; [apply orb_true_iff in H; destruct H as [H|H]; [apply Z.leb_le in H; lia|discriminate]|].
    apply sep_transfer; [lia|exact H].
  Qed.
  Lemma gd_closedRaw u : ebnd u = true -> gd srcW u = true -> closedRaw (sub fsrc (istart u) (iend u)) = true.
  Proof.
    intros Hb H. pose proof (gd_sep u Hb H) as Hs. unfold ebnd in Hb. apply andb_true_iff in Hb. destruct Hb as [B1 _]. apply Z.leb_le in B1.
    apply endsOK_closedRaw. apply orb_true_iff in Hs. destruct Hs as [Hs|Hs].
    - apply Z.leb_le in Hs. unfold sub, upto. replace (Z.to_nat (iend u - istart u)) with O by lia. reflexivity.
    - apply span_endsOK; [exact B1|apply sepByte_okLast, Hs|apply sepByte_nonzero, Hs].
  Qed.
  Lemma ib_indOK u : ikind u = IndentKind -> ebnd u = true -> ib srcW u = true -> indOK fsrc u = true.
  Proof.
    intros Hk Hb H. unfold indOK. rewrite Hk. change (IndentKind =? IndentKind) with true. cbn [negb orb].
    unfold ebnd in Hb. apply andb_true_iff in Hb. destruct Hb as [B1 B2]. apply Z.leb_le in B1.
    unfold ib in H. apply orb_true_iff in H. destruct H as [H|H]; [apply Z.ltb_lt in H; lia|].
    apply andb_true_iff in H. destruct H as [_ H2]. apply orb_true_iff in B2. destruct B2 as [B2|B2]; apply Z.leb_le in B2.
    - unfold sub, upto. replace (Z.to_nat (iend u - istart u)) with O by lia. reflexivity.
    - apply blank_transfer; assumption.
  Qed.
End T.

(* ---- the bound on the entries of a block tree (constrained kinds only) ---- *)
Fixpoint bndsB (n : Z) (b : block) : bool :=
  match b with Blk _ _ _ bk ik _ _ _ _ _ => forallb (fun u => freeK u || ebnd n u) ik && forallb (bndsB n) bk end.
Lemma bndsB_eq n b : bndsB n b = forallb (fun u => freeK u || ebnd n u) (bik b) && forallb (bndsB n) (bkids b).
Proof. destruct b; reflexivity. Qed.

Section Final.
  Variable srcW : bytes.
  Variable n : Z.
  Hypothesis Hn : 0 <= n <= len srcW.
  Variables (H : Z) (ns : bool).
  Let fsrc := fillNulls (upto srcW n).

  Lemma kidless_iClosed u : kidless u = true -> iClosed false fsrc u = nodeOK fsrc (ikind u) (istart u) (iend u).
  Proof.
    intros Hk. rewrite iClosed_eq. unfold kidless in Hk. destruct (ikids u); [cbn [forallb]; apply andb_true_r|discriminate].
  Qed.

  (* one entry of a rendered block *)
  Lemma entry_closed K u : rendK K = true -> ek K u = true -> entOK H ns u = true ->
    (ikind u = RawHTMLKind -> closedRaw (sub fsrc (istart u) (iend u)) = true) -> entOKb fsrc u = true.
  Proof.
    intros Hr He Hb Hraw. unfold entOKb. destruct (Z.eqb_spec (ikind u) InfoStringKind) as [Ei|Ni]; [reflexivity|]. cbn [orb].
    unfold ek in He. cbv zeta in He.
    destruct (Z.eqb_spec (ikind u) UnparsedKind) as [E1|N1].
    { apply andb_true_iff in He. destruct He as [He _]. apply andb_true_iff in He. destruct He as [He _].
      rewrite (kidless_iClosed u He). apply nodeOK_unprot. rewrite E1. reflexivity. }
    destruct ((ikind u =? TextKind) || (ikind u =? SoftLineBreakKind)) eqn:E2.
    { apply andb_true_iff in He. destruct He as [He _]. rewrite (kidless_iClosed u He).
      apply orb_true_iff in E2. destruct E2 as [E2|E2]; apply Z.eqb_eq in E2.
      - apply nodeOK_unprot. rewrite E2. reflexivity.
      - unfold nodeOK. rewrite E2. change (SoftLineBreakKind =? CharacterReferenceKind) with false.
        change (SoftLineBreakKind =? SoftLineBreakKind) with true. change (SoftLineBreakKind =? RawHTMLKind) with false. cbv iota. cbn [andb]. rewrite andb_true_r.
        unfold entOK in Hb. rewrite E2 in Hb. change (SoftLineBreakKind =? SoftLineBreakKind) with true in Hb. cbv iota in Hb.
        apply andb_true_iff in Hb. destruct Hb as [_ Hb]. apply andb_true_iff in Hb. destruct Hb as [Hb _]. apply andb_true_iff in Hb. destruct Hb as [Hb _].
        apply Z.eqb_eq in Hb. rewrite Hb. unfold sub, upto. replace (Z.to_nat (iend u - iend u)) with O by lia. reflexivity. }
    destruct ((ikind u =? RawHTMLKind) || (ikind u =? IndentKind)) eqn:E3.
    { rewrite (kidless_iClosed u He). apply orb_true_iff in E3. destruct E3 as [E3|E3]; apply Z.eqb_eq in E3.
      - unfold nodeOK. rewrite E3. change (RawHTMLKind =? CharacterReferenceKind) with false.
        change (RawHTMLKind =? SoftLineBreakKind) with false. change (RawHTMLKind =? RawHTMLKind) with true. cbv iota. cbn [andb]. apply Hraw, E3.
      - apply nodeOK_unprot. rewrite E3. reflexivity. }
    destruct (Z.eqb_spec (ikind u) InfoStringKind) as [E4|N4]; [contradiction|].
    apply andb_true_iff in He. destruct He as [_ He]. apply Z.eqb_eq in He. subst K. discriminate.
  Qed.

  Lemma ents_In K xr xu : forall ik u, ents srcW K xr xu ik = true -> In u ik -> exists er eu, eok srcW K er eu u = true.
  Proof.
    induction ik as [|v r IH]; intros u He Hin; [destruct Hin|]. cbn [ents] in He. apply andb_true_iff in He. destruct He as [A B].
    destruct Hin as [->|Hin]; [eauto|apply IH; assumption].
  Qed.
  Lemma notfree_ebnd u : (ikind u = UnparsedKind \/ ikind u = RawHTMLKind \/ ikind u = IndentKind) -> freeK u || ebnd n u = true -> ebnd n u = true.
  Proof.
    intros Hk Hb. apply orb_true_iff in Hb. destruct Hb as [Hb|Hb]; [|exact Hb]. unfold freeK in Hb. apply negb_true_iff in Hb.
    destruct Hk as [E|[E|E]]; rewrite E in Hb; discriminate.
  Qed.

  Lemma sepEnds_of_ents K xr xu : forall ik, (forall v, In v ik -> ikind v = UnparsedKind \/ ikind v = IndentKind) ->
    forallb (fun u => freeK u || ebnd n u) ik = true -> ents srcW K xr xu ik = true -> sepEndsb fsrc ik = true.
  Proof.
    induction ik as [|u r IH]; intros Hk Hb He; [reflexivity|]. destruct r as [|v r]; [reflexivity|].
    change (sepEndsb fsrc (u :: v :: r)) with
      (((ikind u =? IndentKind) || (iend u <=? istart u) || sepByte (at_ fsrc (iend u - 1))) && sepEndsb fsrc (v :: r)).
    cbn [forallb] in Hb. apply andb_true_iff in Hb. destruct Hb as [B1 B2].
    change (ents srcW K xr xu (u :: v :: r)) with (eok srcW K (xr && false) (xu && false) u && ents srcW K xr xu (v :: r)) in He.
    apply andb_true_iff in He. destruct He as [E1 E2].
    rewrite (IH ltac:(intros w Hw; apply Hk; right; exact Hw) B2 E2), andb_true_r.
    destruct (Hk u (or_introl eq_refl)) as [Eu|Eu]; [|rewrite Eu; reflexivity].
    rewrite <- orb_assoc. apply orb_true_iff. right.
    unfold eok in E1. rewrite Eu in E1. change (UnparsedKind =? UnparsedKind) with true in E1. cbv iota in E1.
    apply andb_true_iff in E1. destruct E1 as [_ E1]. rewrite !andb_false_r, orb_false_r in E1.
    apply (gd_sep srcW n); [apply notfree_ebnd; [left; exact Eu|exact B1]|exact E1].
  Qed.

  Lemma entsB_of_ents K x xu : rendK K = true -> forall ik, forallb (ek K) ik = true -> forallb (entOK H ns) ik = true ->
    forallb (fun u => freeK u || ebnd n u) ik = true -> ents srcW K x xu ik = true ->
    entsB fsrc (x && (K =? HTMLBlockKind)) ik = true.
  Proof.
    intros Hr. induction ik as [|u r IH]; intros Hk Hb Hn' He; [reflexivity|].
    cbn [forallb] in Hk, Hb, Hn'. apply andb_true_iff in Hk. destruct Hk as [K1 K2]. apply andb_true_iff in Hb. destruct Hb as [B1 B2].
    apply andb_true_iff in Hn'. destruct Hn' as [N1 N2].
    cbn [ents] in He. apply andb_true_iff in He. destruct He as [E1 E2].
    assert (Hraw : forall er eu, eok srcW K er eu u = true -> ikind u = RawHTMLKind ->
              (K =? HTMLBlockKind) = true /\ (gd srcW u = true \/ er = true)).
    { intros er eu He Ek. unfold eok in He. rewrite Ek in He. change (RawHTMLKind =? UnparsedKind) with false in He.
      change (RawHTMLKind =? RawHTMLKind) with true in He. cbv iota in He. apply andb_true_iff in He. destruct He as [A B].
      split; [exact A|]. apply orb_true_iff in B. exact B. }
    destruct r as [|v r].
    - cbn [entsB]. cbn [nilb] in E1. rewrite !andb_true_r in E1.
      destruct (Z.eqb_spec (ikind u) RawHTMLKind) as [Ek|Nk].
      + destruct (Hraw _ _ E1 Ek) as [HH [Hg|Hx]].
        * rewrite (entry_closed K u Hr K1 B1); [reflexivity|]. intros _.
          apply (gd_closedRaw srcW n); [apply notfree_ebnd; [right; left; exact Ek|exact N1]|exact Hg].
        * rewrite Hx, HH. cbn [andb]. apply orb_true_r.
      + rewrite (entry_closed K u Hr K1 B1); [reflexivity|]. intros Ek. contradiction.
    - change (entsB fsrc (x && (K =? HTMLBlockKind)) (u :: v :: r)) with (entOKb fsrc u && entsB fsrc (x && (K =? HTMLBlockKind)) (v :: r)).
      rewrite (IH K2 B2 N2 E2), andb_true_r. apply (entry_closed K u Hr K1 B1). intros Ek.
      cbn [nilb] in E1. destruct (Hraw _ _ E1 Ek) as [_ [Hg|Hx]]; [|rewrite andb_false_r in Hx; discriminate].
      apply (gd_closedRaw srcW n); [apply notfree_ebnd; [right; left; exact Ek|exact N1]|exact Hg].
  Qed.

  Lemma bikIn_of_ents K xr xu ik : rendK K = true -> existsb isUnp ik = true -> forallb (ek K) ik = true ->
    forallb (fun u => freeK u || ebnd n u) ik = true -> ents srcW K xr xu ik = true -> bikIn fsrc ik = true.
  Proof.
    intros Hr Hu Hk Hb He.
    apply existsb_exists in Hu. destruct Hu as (u0 & Hin0 & Eu0). unfold isUnp in Eu0. apply Z.eqb_eq in Eu0.
    rewrite forallb_forall in Hk, Hb.
    (* the block is neither an HTML block nor a code block *)
    destruct (ents_In K xr xu ik u0 He Hin0) as (er & eu & E0). unfold eok in E0. rewrite Eu0 in E0.
    change (UnparsedKind =? UnparsedKind) with true in E0. cbv iota in E0. apply andb_true_iff in E0. destruct E0 as [NH _]. apply negb_true_iff in NH.
    pose proof (Hk u0 Hin0) as K0. unfold ek in K0. cbv zeta in K0. rewrite Eu0 in K0. change (UnparsedKind =? UnparsedKind) with true in K0. cbv iota in K0.
    apply andb_true_iff in K0. destruct K0 as [K0 _]. apply andb_true_iff in K0. destruct K0 as [_ NC]. apply negb_true_iff in NC.
    assert (Hall : forall v, In v ik -> (ikind v = UnparsedKind \/ ikind v = IndentKind) /\ kidless v = true).
    { intros v Hv. pose proof (Hk v Hv) as Kv. unfold ek in Kv. cbv zeta in Kv. rewrite NC in Kv.
      destruct (Z.eqb_spec (ikind v) UnparsedKind) as [E1|N1].
      { apply andb_true_iff in Kv. destruct Kv as [Kv _]. apply andb_true_iff in Kv. tauto. }
      destruct ((ikind v =? TextKind) || (ikind v =? SoftLineBreakKind)); [rewrite andb_false_r in Kv; discriminate|].
      destruct (Z.eqb_spec (ikind v) RawHTMLKind) as [E3|N3].
      { exfalso. destruct (ents_In K xr xu ik v He Hv) as (er' & eu' & Ev). unfold eok in Ev. rewrite E3 in Ev.
        change (RawHTMLKind =? UnparsedKind) with false in Ev. change (RawHTMLKind =? RawHTMLKind) with true in Ev. cbv iota in Ev.
        rewrite NH in Ev. discriminate. }
      destruct (Z.eqb_spec (ikind v) IndentKind) as [E4|N4]; [cbn [orb] in Kv; tauto|]. cbn [orb] in Kv.
      destruct (ikind v =? InfoStringKind).
      - apply Z.eqb_eq in Kv. subst K. discriminate.
      - apply andb_true_iff in Kv. destruct Kv as [_ Kv]. apply Z.eqb_eq in Kv. subst K. discriminate. }
    unfold bikIn. apply andb_true_iff. split; [apply andb_true_iff; split|].
    - apply forallb_forall. intros v Hv. destruct (Hall v Hv) as [Kv Lv]. apply andb_true_iff. split.
      + rewrite (kidless_iClosed v Lv). apply nodeOK_unprot. destruct Kv as [E|E]; rewrite E; reflexivity.
      + pose proof (notfree_ebnd v ltac:(destruct Kv as [E|E]; [left|right; right]; exact E) (Hb v Hv)) as Hbv.
        unfold ebnd in Hbv. apply andb_true_iff in Hbv. tauto.
    - apply (sepEnds_of_ents K xr xu); [intros v Hv; apply (Hall v Hv)|apply forallb_forall; exact Hb|exact He].
    - unfold indBlank. apply forallb_forall. intros v Hv. destruct (Z.eqb_spec (ikind v) IndentKind) as [E|N].
      + apply (ib_indOK srcW n Hn); [exact E|apply notfree_ebnd; [right; right; exact E|apply Hb, Hv]|].
        destruct (ents_In K xr xu ik v He Hv) as (er' & eu' & Ev). unfold eok in Ev. rewrite E in Ev. exact Ev.
      + unfold indOK. apply Z.eqb_neq in N. rewrite N. reflexivity.
  Qed.

  Theorem blkOK_of_W : forall b x, Wb srcW x b = true -> L2Kind2.inv b = true -> bnd H ns b = true -> bndsB n b = true ->
    blkOK fsrc x b = true.
  Proof.
    fix IH 1. intros b x HW HI HB HN. rewrite blkOK_eq.
    apply Wb_parts in HW. destruct HW as [HL HWk]. apply inv_parts in HI. destruct HI as [HIe HIk].
    apply bnd_parts in HB. destruct HB as [HBl HBk]. rewrite bndsB_eq in HN. apply andb_true_iff in HN. destruct HN as [HNe HNk].
    apply andb_true_iff. split.
    - destruct (rendK (bkind b)) eqn:Er; [|reflexivity]. cbn [negb orb].
      unfold ChkW1.loc in HL. apply andb_true_iff in HL. destruct HL as [HE _].
      unfold L2Bnd.loc in HBl. apply andb_true_iff in HBl. destruct HBl as [_ HBe].
      assert (Nr : (bkind b =? LinkReferenceDefinitionKind) = false).
      { destruct (Z.eqb_spec (bkind b) LinkReferenceDefinitionKind) as [E|N]; [rewrite E in Er; discriminate|reflexivity]. }
      rewrite Nr in HBe. cbn [orb] in HBe.
      destruct ((0 <? len (bik b)) && hasUnparsed b) eqn:Ew.
      + apply andb_true_iff in Ew. destruct Ew as [_ Ew]. eapply bikIn_of_ents; eassumption.
      + eapply entsB_of_ents; eassumption.
    - clear HL HIe HBl HNe. destruct b as [K s e bk ik a nn c l lb]. cbn [bkids] in *.
      unfold invL, bndL in *. revert x HWk HIk HBk HNk. induction bk as [|k r IHr]; intros x HWk HIk HBk HNk; [reflexivity|].
      cbn [forallb] in HIk, HBk, HNk. apply andb_true_iff in HIk. destruct HIk as [I1 I2]. apply andb_true_iff in HBk. destruct HBk as [B1 B2].
      apply andb_true_iff in HNk. destruct HNk as [N1 N2].
      destruct r as [|k2 r]; [cbn [ChkW1.WL blkOKL] in *; apply IH; assumption|].
      rewrite WL_cons in HWk by discriminate. apply andb_true_iff in HWk. destruct HWk as [W1 W2].
      change (blkOKL fsrc x (k :: k2 :: r)) with (blkOK fsrc false k && blkOKL fsrc x (k2 :: r)).
      rewrite (IH k false W1 I1 B1 N1). apply IHr; assumption.
  Qed.
End Final.

(* ---- the side condition: a bound on the line entries of the block-layer output ---- *)
Definition entryBounds (input : bytes) : bool :=
  forallb (fun r => bndsB (len (rb_src r)) (rb_blk r)) (fst (parseBlocks input)).

Theorem blocksOK_of_bounds input : entryBounds input = true -> blocksOK input = true.
Proof.
  unfold entryBounds, blocksOK. intros Hb. pose proof (parseBlocks_okRW input) as HW. pose proof (L2Kind2.parseBlocks_kinds input) as HK.
  pose proof (parseBlocks_bounds input) as HB.
  rewrite forallb_forall in *. rewrite Forall_forall in HW, HK, HB. intros r Hr.
  destruct (HW r Hr) as (srcW & Hw & Hn & Es). destruct (HB r Hr) as (H & ns & _ & Hbnd).
  rewrite Es. apply (blkOK_of_W srcW (bend (rb_blk r)) Hn H ns); [exact Hw|apply HK, Hr|exact Hbnd|].
  specialize (Hb r Hr). rewrite Es in Hb. unfold fillNulls in Hb. rewrite len_fill, ShapesBase.len_upto in Hb.
  replace (Z.min (Z.max 0 (bend (rb_blk r))) (len srcW)) with (bend (rb_blk r)) in Hb by lia. exact Hb.
Qed.

(* chkDoc for every input whose line entries lie inside the source text of their root block *)
Theorem chkDoc_of_bounds_partial : forall c input, filterOn c = true -> entryBounds input = true -> chkDoc c input = true.
Proof. intros c input Hf Hb. apply chkDoc_of_blocksOK_partial; [exact Hf|apply blocksOK_of_bounds, Hb]. Qed.
Print Assumptions chkDoc_of_bounds_partial.
