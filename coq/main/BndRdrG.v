From Coq Require Import List ZArith Lia Bool.
Import ListNotations.
Require Import Base Tables Utf8 Tree Rdr Link Collect Html Recog Props.
Require Import Inl3a Inl3e Leaf3e ShapesBase ShapesR ShapesA IS2 IS5a IS8b BndDefs BndBDefs.
Open Scope Z_scope.

(* ================================================================== *)
(* BndRdrG: BndRdr for an abstract predicate g on positions.           *)
(* Every span of the list has good ends; the reader's position is      *)
(* good whenever it is not inside a span.                              *)
(* ================================================================== *)
Section Rd.
  Variable src : bytes.
  Variable g : Z -> bool.
  (* a position after / at an ASCII byte other than NUL is good; so are the end of the source and negative positions *)
  Hypothesis Gp : forall p, at_ src (p - 1) <> 0 -> at_ src (p - 1) < 128 -> g p = true.
  Hypothesis Gc : forall p, at_ src p <> 0 -> at_ src p < 128 -> g p = true.
  Hypothesis Ge : g (len src) = true.
  Hypothesis Gn : forall p, p < 0 -> g p = true.
  Notation bok := g.

  Lemma spOK_bound i r : spOK src (i :: r) = true -> iend i <= len src.
  Proof.
    cbn [spOK]. intros H. apply andb_true_iff in H. destruct H as [H _]. apply andb_true_iff in H. destruct H as [H _].
    apply andb_true_iff in H. destruct H as [H _]. apply andb_true_iff in H. destruct H as [_ H]. apply Z.leb_le in H. exact H.
  Qed.
  Lemma blank_ascii c : isSpTab c = true -> c <> 0 /\ c < 128.
  Proof. intros H. apply blank_not in H. lia. Qed.

  Definition gsp (x : inline) : Prop := gI g x = true.
  Definition GS (l : list inline) : Prop := forall x, In x l -> gsp x.
  Lemma gsp_start x : gsp x -> bok (istart x) = true.
  Proof. unfold gsp. intros H. apply (gI_parts g x H). Qed.
  Lemma gsp_end x : gsp x -> bok (iend x) = true.
  Proof. unfold gsp. intros H. apply (gI_parts g x H). Qed.
  Lemma gsp_mk k a b : bok a = true -> bok b = true -> gsp (mkI k a b).
  Proof. intros A B. apply gI_mkI; assumption. Qed.
  Lemma GS_sub l l' : sublist l' l -> GS l -> GS l'.
  Proof. intros Hs H x Hx. apply H, Hs, Hx. Qed.

  Definition QR (r : reader) : Prop := RI src r /\ GS (r_spans r) /\ (InNode r \/ bok (r_pos r) = true).

  Lemma QR_RI r : QR r -> RI src r. Proof. intros H; apply H. Qed.

  Lemma InNode_curNode r : InNode r -> InNode (snd (curNode r)).
  Proof. intros (n & H). exists n. rewrite curNode_idem. exact H. Qed.
  Lemma curNode_pos r : r_pos (snd (curNode r)) = r_pos r.
  Proof. destruct (curNode_cases r) as [E|(pre & n & rest & _ & E & _)]; rewrite E; reflexivity. Qed.
  Lemma curNode_prev r : r_prev (snd (curNode r)) = r_prev r.
  Proof. destruct (curNode_cases r) as [E|(pre & n & rest & _ & E & _)]; rewrite E; reflexivity. Qed.
  Lemma current_pos r : r_pos (snd (current r)) = r_pos r.
  Proof. destruct (current_snd r) as [E|E]; rewrite E; [reflexivity|apply curNode_pos]. Qed.
  Lemma current_prev r : r_prev (snd (current r)) = r_prev r.
  Proof. destruct (current_snd r) as [E|E]; rewrite E; [reflexivity|apply curNode_prev]. Qed.

  Lemma QR_curNode r : QR r -> QR (snd (curNode r)).
  Proof.
    intros (A & B & C). split; [apply RI_curNode, A|]. split; [eapply GS_sub; [apply curNode_spans|exact B]|].
    destruct C as [C|C]; [left; apply InNode_curNode, C|right; rewrite curNode_pos; exact C].
  Qed.
  Lemma QR_current r : QR r -> QR (snd (current r)).
  Proof. intros H. destruct (current_snd r) as [E|E]; rewrite E; [exact H|apply QR_curNode, H]. Qed.
  Lemma QR_remaining r : QR r -> QR (snd (remainingNodeBytes r)).
  Proof. intros H. unfold remainingNodeBytes. pose proof (QR_curNode r H) as H1. destruct (curNode r) as [[n|] r']; exact H1. Qed.

  (* the byte under a reader that reports an ASCII byte other than 0 is ASCII and not NUL *)
  Lemma cur_ascii r c : QR r -> cur r = c -> c <> 0 -> c < 128 -> at_ src (r_pos r) <> 0 /\ at_ src (r_pos r) < 128.
  Proof.
    intros ((Es & Hok) & _ & _) Hc Hc0 Hlt. unfold cur, current in Hc. rewrite Es in Hc.
    destruct (Z.leb_spec (len src) (r_pos r)) as [L|L]; [cbn [fst] in Hc; lia|].
    destruct (curNode_cases r) as [E|(pre & n & rest & E1 & E & E3)]; rewrite E in Hc; cbn [okind fst] in Hc.
    - change (0 =? IndentKind) with false in Hc. cbv iota in Hc.
      destruct (Z.eqb_spec (at_ src (r_pos r)) 0) as [E0|E0]; [cbn [fst] in Hc; unfold nullRepl in Hc; destruct (_ =? 0); [lia|destruct (_ =? 1); lia]|]. cbn [fst] in Hc. lia.
    - destruct (Z.eqb_spec (ikind n) IndentKind) as [Ek|Ek].
      + rewrite E1 in Hok. apply spOK_app_r in Hok. destruct (spOK_cons _ _ _ Hok) as (_ & _ & _ & D & _).
        destruct (indent_blank src n (r_pos r) (D Ek) E3) as [X|X]; [lia|]. apply blank_ascii, X.
      + destruct (Z.eqb_spec (at_ src (r_pos r)) 0) as [E0|E0]; [cbn [fst] in Hc; unfold nullRepl in Hc; destruct (_ =? 0); [lia|destruct (_ =? 1); lia]|]. cbn [fst] in Hc. lia.
  Qed.
  (* the byte under a reader inside an indentation span is a blank *)
  Lemma indent_byte r pre n rest : RI src r -> r_spans r = pre ++ n :: rest -> ikind n = IndentKind -> spanHas n (r_pos r) = true ->
    at_ src (r_pos r) <> 0 /\ at_ src (r_pos r) < 128.
  Proof.
    intros (Es & Hok) Epre Hk Hh. rewrite Epre in Hok. apply spOK_app_r in Hok. pose proof (spOK_bound _ _ Hok) as Hb.
    destruct (spOK_cons _ _ _ Hok) as (_ & _ & _ & D & _). pose proof (spanHas_range _ _ Hh) as (R1 & R2 & R3).
    destruct (indent_blank src n (r_pos r) (D Hk) Hh) as [X|X]; [lia|]. apply blank_ascii, X.
  Qed.

  (* a successful step *)
  Lemma QR_next_true r r1 : QR r -> next r = (true, r1) -> QR r1.
  Proof.
    intros (A & B & _) H. destruct (next_step src r r1 A H) as (A1 & I1 & _).
    split; [exact A1|]. split; [|left; exact I1]. eapply GS_sub; [|exact B].
    pose proof (next_spans r) as Hs. rewrite H in Hs. exact Hs.
  Qed.
  (* where a successful step from an ASCII byte arrives *)
  Lemma next_good r r1 : QR r -> next r = (true, r1) -> at_ src (r_pos r) <> 0 /\ at_ src (r_pos r) < 128 -> bok (r_pos r1) = true.
  Proof.
    intros (A & B & _) H [Hb0 Hb]. destruct (next_true r r1 H) as (node & rest & Ec & Hh & (pre & Epre) & _ & _ & Hcase).
    pose proof (spanHas_range _ _ Hh) as (R1 & R2 & R3).
    destruct Hcase as [(_ & Ep & _)|[(_ & Ep & _)|(pre' & j & rest' & Er & _ & Ep & _)]].
    - rewrite Ep. apply Gc; assumption.
    - rewrite Ep. apply Gp; replace (r_pos r + 1 - 1) with (r_pos r) by lia; assumption.
    - rewrite Ep. apply gsp_start, (B j). rewrite Epre. apply in_or_app. right. right. rewrite Er. apply in_or_app. right. left. reflexivity.
  Qed.
  (* the previous position recorded by a step from inside a span *)
  Lemma next_prev_in r ok r1 : InNode r -> next r = (ok, r1) -> r_prev r1 = r_pos r.
  Proof.
    intros (n & Hn) H. destruct ok.
    - destruct (next_true r r1 H) as (_ & _ & _ & _ & _ & _ & Ep & _). exact Ep.
    - destruct (next_false r r1 H) as (_ & _ & Hf). apply (Hf n Hn).
  Qed.
  (* a failed step *)
  Lemma QR_next_false r r1 : QR r -> next r = (false, r1) -> QR r1.
  Proof.
    intros (A & B & C) H. destruct (next_false r r1 H) as (E1 & E2 & Hf).
    split; [split; [destruct A; congruence|rewrite E1; reflexivity]|]. split; [rewrite E1; intros x []|]. right.
    destruct (curNode_cases r) as [E|(pre & n & rest & Epre & E & E3)].
    - assert (Er : r1 = snd (curNode r)) by (unfold next in H; rewrite E in H |- *; inversion H; reflexivity).
      rewrite Er, curNode_pos. destruct C as [(m & Hm)|C]; [rewrite E in Hm; discriminate|exact C].
    - destruct (Hf n ltac:(rewrite E; reflexivity)) as (_ & Ep & Hk). rewrite Ep.
      pose proof (spanHas_range _ _ E3) as (R1 & R2 & R3).
      destruct Hk as [Hk|Hk].
      + destruct (indent_byte r pre n rest A Epre Hk E3) as [X0 X1].
        apply Gp; replace (r_pos r + 1 - 1) with (r_pos r) by lia; assumption.
      + rewrite <- Hk. apply gsp_end, (B n). rewrite Epre. apply in_or_app. right. left. reflexivity.
  Qed.
  Lemma QR_next r : QR r -> QR (snd (next r)).
  Proof. intros H. destruct (next r) as [[|] r1] eqn:E; cbn [snd]; [eapply QR_next_true|eapply QR_next_false]; eassumption. Qed.

  (* after a step, if the reader stands in an indentation span, the position after the previous one is good *)
  Lemma next_indent_prev r r1 : QR r -> next r = (true, r1) -> okind (fst (curNode r1)) = IndentKind -> bok (r_prev r1 + 1) = true.
  Proof.
    intros (A & B & _) H Hk. destruct (next_true r r1 H) as (node & rest & Ec & Hh & (pre & Epre) & _ & Ep & Hcase).
    pose proof (spanHas_range _ _ Hh) as (R1 & R2 & R3). rewrite Ep.
    assert (Hind : ikind node = IndentKind -> bok (r_pos r + 1) = true).
    { intros Ek. destruct (indent_byte r pre node rest A Epre Ek Hh) as [X0 X1].
      apply Gp; replace (r_pos r + 1 - 1) with (r_pos r) by lia; assumption. }
    destruct Hcase as [(Ek & _)|[(Ek & Ep1 & Elt & Esp)|(pre' & j & rest' & Er & _ & _ & Ecase)]].
    - apply Hind, Ek.
    - exfalso. rewrite (curNode_head node rest r1 Esp) in Hk; [cbn [fst okind] in Hk; contradiction|].
      rewrite Ep1. apply spanHas_intro; lia.
    - destruct Ecase as [Ek|Ee]; [apply Hind, Ek|]. replace (r_pos r + 1) with (iend node) by lia.
      apply gsp_end, (B node). rewrite Epre. apply in_or_app. right. left. reflexivity.
  Qed.

  Lemma QR_nextN : forall n r, QR r -> QR (nextN n r).
  Proof. induction n as [|n IH]; intros r H; [exact H|]. cbn [nextN]. apply IH, QR_next, H. Qed.

  (* inside an indentation span the reader's position is good *)
  Lemma indent_pos_ascii r m : QR r -> fst (curNode r) = Some m -> ikind m = IndentKind -> at_ src (r_pos r) <> 0 /\ at_ src (r_pos r) < 128.
  Proof.
    intros (A & _ & _) Hn Hk.
    destruct (curNode_cases r) as [E|(pre & n & rest & Epre & E & E3)]; rewrite E in Hn; [discriminate|]. inversion Hn; subst n.
    apply (indent_byte r pre m rest A Epre Hk E3).
  Qed.
  Lemma indent_pos_good r m : QR r -> fst (curNode r) = Some m -> ikind m = IndentKind -> bok (r_pos r) = true.
  Proof. intros HQ Hn Hk. destruct (indent_pos_ascii r m HQ Hn Hk) as [X0 X1]. apply Gc; assumption. Qed.

  (* skipping an indentation span: the reader ends at a good position *)
  Lemma skipSameNode_good node : ikind node = IndentKind -> forall fuel r, QR r ->
    (exists m, fst (curNode r) = Some m /\ ikind m = IndentKind) ->
    QR (skipSameNode fuel r node) /\ bok (r_pos (skipSameNode fuel r node)) = true.
  Proof.
    intros Hk. induction fuel as [|f IH]; intros r HQ (m & Hn & Hkm).
    { cbn [skipSameNode]. split; [exact HQ|]. eapply indent_pos_good; eassumption. }
    cbn [skipSameNode]. destruct (next r) as [[|] r1] eqn:En; cbn [negb].
    - pose proof (QR_next_true r r1 HQ En) as HQ1.
      assert (Hb1 : bok (r_pos r1) = true) by (apply (next_good r r1 HQ En); eapply indent_pos_ascii; eassumption).
      destruct (curNode r1) as [[m'|] r2] eqn:Ec1.
      + assert (Er2 : r2 = snd (curNode r1)) by (rewrite Ec1; reflexivity).
        destruct ((ikind m' =? ikind node) && (istart m' =? istart node) && (iend m' =? iend node)) eqn:Em.
        * apply andb_true_iff in Em. destruct Em as [Em _]. apply andb_true_iff in Em. destruct Em as [Em _]. apply Z.eqb_eq in Em.
          rewrite Er2. apply IH; [apply QR_curNode, HQ1|]. exists m'. rewrite curNode_idem, Ec1. split; [reflexivity|congruence].
        * rewrite Er2. split; [apply QR_curNode, HQ1|rewrite curNode_pos; exact Hb1].
      + assert (Er2 : r2 = snd (curNode r1)) by (rewrite Ec1; reflexivity).
        rewrite Er2. split; [apply QR_curNode, HQ1|rewrite curNode_pos; exact Hb1].
    - pose proof (QR_next_false r r1 HQ En) as HQ1. split; [exact HQ1|].
      destruct HQ1 as (_ & _ & [(x & Hx)|Hb]); [|exact Hb]. destruct (next_false r r1 En) as (E1 & _). rewrite (curNode_nil r1 E1) in Hx. discriminate.
  Qed.

  (* ---------------------------------------------------------------- collectTextNodes *)
  Lemma jumped_good r r1 : QR r -> next r = (true, r1) -> jumped r1 = true ->
    bok (r_prev r1 + 1) = true /\ bok (r_pos r1) = true.
  Proof.
    intros (A & B & _) H Hj. destruct (next_true r r1 H) as (node & rest & Ec & Hh & (pre & Epre) & _ & Ep & Hcase).
    pose proof (spanHas_range _ _ Hh) as (R1 & R2 & R3). unfold jumped in Hj. apply andb_true_iff in Hj. destruct Hj as [_ Hj].
    apply Z.ltb_lt in Hj. rewrite Ep in *.
    destruct Hcase as [(_ & Ep1 & _)|[(_ & Ep1 & _)|(pre' & j & rest' & Er & _ & Ep1 & Ecase)]]; [lia|lia|]. split.
    - destruct Ecase as [Ek|Ee].
      + destruct (indent_byte r pre node rest A Epre Ek Hh) as [X0 X1].
        apply Gp; replace (r_pos r + 1 - 1) with (r_pos r) by lia; assumption.
      + replace (r_pos r + 1) with (iend node) by lia. apply gsp_end, (B node). rewrite Epre. apply in_or_app. right. left. reflexivity.
    - rewrite Ep1. apply gsp_start, (B j). rewrite Epre. apply in_or_app. right. right. rewrite Er. apply in_or_app. right. left. reflexivity.
  Qed.

  Definition IC (ps : Z) (r : reader) : Prop :=
    okind (fst (curNode r)) = IndentKind -> r_pos r <= ps \/ bok (r_prev r + 1) = true.

  Lemma Forall_snoc {A} (P : A -> Prop) l x : Forall P l -> P x -> Forall P (l ++ [x]).
  Proof. intros H Hx. apply Forall_app. split; [exact H|constructor; [exact Hx|constructor]]. Qed.

  Lemma collect_good tk esc : forall fuel r e ps acc, QR r -> bok ps = true -> IC ps r -> Forall gsp acc ->
    Forall gsp (fst (collect_loop fuel r e tk esc ps acc)) /\ bok (snd (collect_loop fuel r e tk esc ps acc)) = true.
  Proof.
    induction fuel as [|f IH]; intros r e ps acc HQ Hps HIC Hacc; [split; assumption|].
    cbn [collect_loop]. destruct (e <=? r_pos r); [split; assumption|].
    pose proof (QR_curNode r HQ) as HQ0. pose proof (curNode_in r) as Hin. pose proof (curNode_pos r) as Ep0. pose proof (curNode_prev r) as Epv0.
    pose proof (curNode_idem r) as Eid. unfold IC in HIC.
    destruct (curNode r) as [cn r0] eqn:Ecn. cbn [fst snd] in *.
    assert (Hadd : forall (c : bool) l a b, Forall gsp l -> (c = true -> bok a = true /\ bok b = true) ->
              Forall gsp (if c then l ++ [mkI tk a b] else l)).
    { intros c l a b Hl Hc. destruct c; [|exact Hl]. destruct (Hc eq_refl). apply Forall_snoc; [exact Hl|apply gsp_mk; assumption]. }
    assert (Htail : forall r' ps' acc', QR r' -> bok ps' = true -> Forall gsp acc' ->
              let res := (if e <=? r_pos r' then (acc', ps') else
                 let '(ok, r1) := next r' in
                 if negb ok then (acc', ps') else
                 if jumped r1 then
                   collect_loop f r1 e tk esc (r_pos r1) (if ps' <=? r_prev r1 then acc' ++ [mkI tk ps' (r_prev r1 + 1)] else acc')
                 else collect_loop f r1 e tk esc ps' acc') in
              Forall gsp (fst res) /\ bok (snd res) = true).
    { intros r' ps' acc' HQ' Hps' Hacc'. cbv zeta. destruct (e <=? r_pos r'); [split; assumption|].
      destruct (next r') as [[|] r1] eqn:En; cbn [negb]; [|split; assumption].
      pose proof (QR_next_true r' r1 HQ' En) as HQ1.
      destruct (jumped r1) eqn:Ej.
      - destruct (jumped_good r' r1 HQ' En Ej) as [G1 G2]. apply IH; [exact HQ1|exact G2|intros _; left; lia|].
        apply Hadd; [exact Hacc'|intros _; split; assumption].
      - apply IH; [exact HQ1|exact Hps'| |exact Hacc']. intros Hk. right. apply (next_indent_prev r' r1 HQ' En Hk). }
    destruct (okind cn =? IndentKind) eqn:Ek.
    - destruct cn as [node|]; [|cbn in Ek; discriminate]. cbn [okind] in Ek. apply Z.eqb_eq in Ek.
      destruct (skipSameNode_good node Ek (S f) r0 HQ0) as [HQ1 Hb1].
      { exists node. rewrite Eid. split; [reflexivity|exact Ek]. }
      apply IH; [exact HQ1|exact Hb1|intros _; left; lia|].
      apply Forall_snoc; [|apply (proj1 (proj2 HQ)), Hin; reflexivity].
      apply Hadd; [exact Hacc|]. intros Hlt. apply Z.ltb_lt in Hlt. split; [exact Hps|].
      rewrite Epv0. destruct (HIC Ek) as [X|X]; [lia|exact X].
    - cbn [andb].
      destruct (esc && (okind cn =? UnparsedKind)); [|apply Htail; assumption].
      pose proof (QR_current r0 HQ0) as HQ1. pose proof (current_pos r0) as Ep1.
      assert (Ecur : fst (current r0) = cur r0) by reflexivity.
      destruct (current r0) as [c r1] eqn:Ecu. cbn [fst snd] in *.
      destruct (Z.eqb_spec c 92) as [E92|N92].
      { assert (H92 : at_ src (r_pos r1) = 92).
        { destruct (cur_src r0 92) as (A1 & _); [congruence|reflexivity|]. rewrite (proj1 (QR_RI r0 HQ0)) in A1. rewrite Ep1. exact A1. }
        pose proof (QR_next r1 HQ1) as HQ2.
        destruct (next r1) as [ok r2] eqn:En. cbn [snd] in HQ2.
        destruct (ok && (r_pos r2 <? e) && isASCIIPunctuation (cur r2)) eqn:Ec2; [|apply Htail; assumption].
        apply andb_true_iff in Ec2. destruct Ec2 as [Ec2 Hp]. apply andb_true_iff in Ec2. destruct Ec2 as [Eok _]. subst ok.
        assert (Hb2 : bok (r_pos r2) = true).
        { assert (Hpa : cur r2 <> 0 /\ cur r2 < 128).
          { unfold isASCIIPunctuation in Hp.
            repeat (apply orb_true_iff in Hp; destruct Hp as [Hp|Hp]); apply andb_true_iff in Hp; destruct Hp as [Hp1 Hp]; apply Z.leb_le in Hp, Hp1; lia. }
          destruct (cur_ascii r2 (cur r2) HQ2 eq_refl (proj1 Hpa) (proj2 Hpa)) as [X0 X1]. apply Gc; assumption. }
        apply Htail; [exact HQ2|exact Hb2|]. apply Hadd; [exact Hacc|]. intros _. split; [exact Hps|].
        destruct (next_true r1 r2 En) as (_ & _ & _ & _ & _ & _ & Epv & _). rewrite Epv. apply Gc; rewrite H92; lia. }
      destruct (Z.eqb_spec c 38) as [E38|N38]; [|apply Htail; assumption].
      assert (H38 : at_ src (r_pos r1) = 38 /\ 0 <= r_pos r1).
      { destruct (cur_src r0 38) as (A1 & A2 & _); [congruence|reflexivity|]. rewrite (proj1 (QR_RI r0 HQ0)) in A1. rewrite Ep1. split; [exact A1|lia]. }
      destruct H38 as [H38 Hp1].
      pose proof (QR_remaining r1 HQ1) as HQ2. pose proof (remaining_spec r1) as Hrs.
      destruct (remainingNodeBytes r1) as [rem r2] eqn:Erem. cbn [snd] in HQ2. destruct (Hrs rem r2 eq_refl) as (Ep2 & Hrem).
      destruct (Z.leb_spec 0 (parseCharacterEscape rem)) as [Hen|Hen]; [|apply Htail; assumption].
      set (en := parseCharacterEscape rem) in *.
      destruct (parseCharacterEscape_shape rem en eq_refl Hen) as (A0 & A1 & A2 & A3).
      assert (Hend : bok (r_pos r2 + en) = true).
      { destruct Hrem as [En0|(lim & _ & Er)]; [rewrite En0 in A3; change (len (@nil Z)) with 0 in A3; lia|].
        rewrite (proj1 (QR_RI r1 HQ1)) in Er. rewrite Er in A1, A3. pose proof (len_sub_le src (r_pos r1) lim) as Hl1.
        rewrite at_sub in A1 by lia. rewrite Ep2.
        apply Gp; replace (r_pos r1 + en - 1) with (r_pos r1 + (en - 1)) by lia; rewrite A1; lia. }
      assert (Hb2 : bok (r_pos r2) = true) by (rewrite Ep2; apply Gc; rewrite H38; lia).
      assert (Hacc2 : Forall gsp ((if ps <? r_pos r2 then acc ++ [mkI tk ps (r_pos r2)] else acc) ++
                                  [mkI CharacterReferenceKind (r_pos r2) (r_pos r2 + en)])).
      { apply Forall_snoc; [apply Hadd; [exact Hacc|intros _; split; assumption]|apply gsp_mk; assumption]. }
      pose proof (QR_nextN (Z.to_nat (en - 1)) r2 HQ2) as HQ3.
      destruct (next (nextN (Z.to_nat (en - 1)) r2)) as [[|] r4] eqn:En4; cbn [negb]; [|split; [exact Hacc2|exact Hend]].
      apply IH; [eapply QR_next_true; eassumption|exact Hend| |exact Hacc2].
      intros Hk. right. apply (next_indent_prev _ r4 HQ3 En4 Hk).
  Qed.

  Lemma collectTextNodes_good tk esc fuel r e : QR r -> bok (r_pos r) = true -> bok e = true ->
    Forall gsp (collectTextNodes fuel r e tk esc).
  Proof.
    intros HQ Hp He. unfold collectTextNodes.
    destruct (collect_good tk esc fuel r e (r_pos r) [] HQ Hp ltac:(intros _; left; lia) (Forall_nil _)) as [H1 H2].
    destruct (collect_loop fuel r e tk esc (r_pos r) []) as [acc ps]. cbn [fst snd] in *.
    destruct (ps <? e); [|exact H1]. apply Forall_snoc; [exact H1|apply gsp_mk; assumption].
  Qed.
End Rd.
