(* T63-F1, processEmphasis and a trailing node, part B: pe_loop leaves a childless node appended at the end of the root
   level where it is (under the forest invariant PEI of GI3: an opener at a level has its closer after it at that level). *)
From Coq Require Import List ZArith Lia Bool.
Import ListNotations.
Require Import Base Tables Utf8 Tree Rdr Link Collect Html Recog Inl3a Inl3b Inl3c Inl3d Driver Inl3e.
Require Import GI0 GI1 GI2 GI3 GI4 GI5 IS0 IFTree IFPe PEProof EolFinalFullPeA.
Open Scope Z_scope.

Lemma nodup_split_unique {A} (x : A) : forall a b a' b', NoDup (a ++ x :: b) -> a ++ x :: b = a' ++ x :: b' -> a = a' /\ b = b'.
Proof.
  induction a as [|y a IH]; intros b a' b' Hn E.
  - destruct a' as [|z a']; [injection E as E; split; [reflexivity|exact E]|]. cbn [app] in E. injection E as E1 E2. subst z. exfalso.
    cbn [app] in Hn. apply NoDup_cons_iff in Hn. destruct Hn as [Hni _]. apply Hni. rewrite E2. apply in_or_app. right. left. reflexivity.
  - destruct a' as [|z a'].
    + cbn [app] in E. injection E as E1 E2. subst y. exfalso. cbn [app] in Hn. apply NoDup_cons_iff in Hn. destruct Hn as [Hni _]. apply Hni. apply in_or_app. right. left. reflexivity.
    + cbn [app] in E. injection E as E1 E2. subst z. cbn [app] in Hn. apply NoDup_cons_iff in Hn. destruct Hn as [_ Hn'].
      destruct (IH b a' b' Hn' E2) as [-> ->]. split; reflexivity.
Qed.

Lemma splitAtId_ids o : forall l, In o (ids l) -> exists X, ids (fst (splitAtId o l)) = X ++ [o] /\ ~ In o X.
Proof.
  induction l as [|x l IH]; intros Hi; [contradiction|]. cbn [splitAtId]. destruct (Z.eqb_spec (pid x) o) as [E|E].
  - exists []. cbn. split; [rewrite E; reflexivity|tauto].
  - cbn [ids map] in Hi. destruct Hi as [Hi|Hi]; [contradiction|]. destruct (IH Hi) as (X & E1 & E2).
    destruct (splitAtId o l) as [a b]. cbn [fst] in *. exists (pid x :: X). change (ids (x :: a)) with (pid x :: ids a). rewrite E1. split; [reflexivity|].
    intros [H|H]; [contradiction|exact (E2 H)].
Qed.

Lemma fl_app S a b : fl S (a ++ b) = fl S a ++ fl S b. Proof. unfold fl. apply filter_app. Qed.
Lemma fl_one_in S x : In x S -> fl S [x] = [x].
Proof. intros H. unfold fl. cbn [filter]. rewrite (proj2 (memZ_In x S) H). reflexivity. Qed.
Lemma fl_one_notin S x : ~ In x S -> fl S [x] = [].
Proof. intros H. unfold fl. cbn [filter]. destruct (memZ x S) eqn:E; [exfalso; apply H, memZ_In, E|reflexivity]. Qed.

(* the closer is found after the opener *)
Lemma found_c H D1 o D2 c D3 l : NoDup H -> H = D1 ++ o :: D2 ++ c :: D3 -> fl H (ids l) = H -> In o (ids l) ->
  In c (ids (snd (splitAtId o l))).
Proof.
  intros Hn EH Hf Ho. destruct (splitAtId_ids o l Ho) as (X & E1 & E2). pose proof (sAt_app o l) as Ea.
  destruct (splitAtId o l) as [pre post]. cbn [fst snd] in *.
  assert (HoH : In o H) by (rewrite EH; apply in_or_app; right; left; reflexivity).
  rewrite Ea, ids_app, fl_app, E1, fl_app, (fl_one_in H o HoH) in Hf. rewrite <- app_assoc in Hf. cbn [app] in Hf.
  assert (E' : fl H X ++ o :: fl H (ids post) = D1 ++ o :: (D2 ++ c :: D3)) by (rewrite Hf; exact EH).
  assert (Hn' : NoDup (fl H X ++ o :: fl H (ids post))) by (rewrite Hf; exact Hn).
  destruct (nodup_split_unique o _ _ _ _ Hn' E') as [_ E].
  assert (Hc : In c (fl H (ids post))) by (rewrite E; apply in_or_app; right; left; reflexivity).
  apply fl_In in Hc. tauto.
Qed.

Section Frame.
  Variable t : pn.
  Hypothesis Hkt : pkids t = [].
  Local Notation tid := (pid t).

  Lemma ids_updN st id g : (forall n, er (g n) = er n) -> ids (rk (updN st id g)) = ids (rk st).
  Proof. intros Hg. apply RF_ids. apply span_frame, Hg. Qed.

  (* where the wrap acts: not at the root level, or with the closer after the opener *)
  Lemma wrap_cond st D1 o D2 c D3 (rk2 : list pn) :
    PEI true [] (sids (D1 ++ o :: D2 ++ c :: D3)) (app1 st t) -> ~ In tid (sids (D1 ++ o :: D2 ++ c :: D3)) ->
    ids rk2 = ids (rk st) ->
    hasId (d_node o) rk2 = false \/ In (d_node c) (ids (snd (splitAtId (d_node o) rk2))).
  Proof.
    intros HP Ht Ei. set (H := sids (D1 ++ o :: D2 ++ c :: D3)) in *.
    assert (EH : H = sids D1 ++ d_node o :: sids D2 ++ d_node c :: sids D3).
    { unfold H. rewrite sids_app. cbn [sids map]. f_equal. f_equal. fold (sids (D2 ++ c :: D3)). rewrite sids_app. reflexivity. }
    destruct (hasId (d_node o) rk2) eqn:Eh; [right|left; reflexivity]. apply hasId_In in Eh.
    destruct HP as [_ _ _ _ Hnd (B1 & _)]. apply lpb_spec in B1. change (rk (app1 st t)) with (rk st ++ [t]) in B1.
    rewrite ids_app in B1. cbn [ids map] in B1. rewrite !fl_app, (fl_one_notin H tid Ht), !app_nil_r, <- Ei in B1.
    assert (HoH : In (d_node o) H) by (rewrite EH; apply in_or_app; right; left; reflexivity).
    destruct B1 as [B1|[_ B1]].
    - exfalso. exact (proj1 (fl_nil_iff H (ids rk2)) B1 _ Eh HoH).
    - apply (found_c H (sids D1) (d_node o) (sids D2) (d_node c) (sids D3) rk2 Hnd EH B1 Eh).
  Qed.

  Lemma stk_app1 st n : stk (app1 st n) = stk st. Proof. reflexivity. Qed.
  Lemma nid_app1 st n : nid (app1 st n) = nid st. Proof. reflexivity. Qed.

  Lemma pe_step_app1 st ob cp : PEI true [] (sids (stk st)) (app1 st t) -> OBI 0 ob -> 0 <= cp -> ~ In tid (sids (stk st)) ->
    forall n', pid n' = tid -> pkids n' = [] ->
    pe_step (app1 st n') ob cp = match pe_step st ob cp with None => None | Some (s, o, c) => Some (app1 s n', o, c) end.
  Proof.
    intros HP HO Hcp Ht n' Hn Hk'. unfold pe_step. cbv zeta. rewrite !stk_app1.
    remember (pe_findCloser (S (length (stk st))) (stk st) cp) as cp1 eqn:Ecp1.
    destruct (Z.ltb_spec cp1 0) as [Hneg|Hpos]; [reflexivity|].
    destruct (findCloser_spec _ _ _ _ (eq_sym Ecp1) Hpos) as [Hcp1 Hcl].
    remember (nthD (stk st) cp1) as c eqn:Ec. pose proof (obIndex_range c Hcl) as Hobi.
    remember (getOB ob (obIndex c)) as lo eqn:Elo.
    assert (Hlo : 0 <= lo) by (subst lo; apply HO; unfold OBN; lia).
    remember (pe_findOpener (S (length (stk st))) (stk st) (cp1 - 1) lo c) as oi eqn:Eoi.
    destruct (Z.leb_spec lo oi) as [Hfound|Hnone]; [|destruct (negb (hasFlag c fOpener)); reflexivity].
    assert (Hoi : lo <= oi <= cp1 - 1).
    { pose proof (findOpener_spec (stk st) c lo (S (length (stk st))) (cp1 - 1)) as Hs.
      assert (Hf : (Z.to_nat (cp1 - 1 - lo + 1) < S (length (stk st)))%nat) by (unfold len in *; lia).
      specialize (Hs Hf). cbn zeta in Hs. rewrite <- Eoi in Hs. destruct Hs as [(A1 & _)|(A1 & _)]; lia. }
    remember (nthD (stk st) oi) as o eqn:Eo.
    destruct (split_at2 (stk st) oi cp1 ltac:(lia) ltac:(lia) ltac:(lia)) as (P & D2s & D3s & Esplit & HlenP & HlenD2).
    rewrite <- Eo, <- Ec in Esplit.
    assert (Hno : pid n' <> d_node o).
    { rewrite Hn. intros E. apply Ht. rewrite Esplit, sids_app. apply in_or_app. right. left. symmetry. exact E. }
    assert (Hnc : pid n' <> d_node c).
    { rewrite Hn. intros E. apply Ht. rewrite Esplit, sids_app. apply in_or_app. right. right. change (sids (D2s ++ c :: D3s)) with (map d_node (D2s ++ c :: D3s)). rewrite map_app. apply in_or_app. right. left. symmetry. exact E. }
    rewrite !(plen_app1 n' Hk' st) by assumption.
    set (strong := (2 <=? plen (nodeOf st (d_node o))) && (2 <=? plen (nodeOf st (d_node c)))).
    set (k := if strong then 2 else 1).
    rewrite !(updN_app1 n' Hk') by assumption.
    set (X := updN (updN st (d_node o) (fun n => setSpan n (ps n) (pe n - k))) (d_node c) (fun n => setSpan n (ps n + k) (pe n))).
    assert (Hw : hasId (d_node o) (rk X) = false \/ In (d_node c) (ids (snd (splitAtId (d_node o) (rk X))))).
    { apply (wrap_cond st P o D2s c D3s (rk X)); [rewrite <- Esplit; exact HP|rewrite <- Esplit; exact Ht|].
      unfold X. rewrite !ids_updN by (intros; apply er_setSpan). reflexivity. }
    rewrite (wrap_app1 n' Hk' X _ (d_node o) (d_node c) Hno Hnc Hw).
    destruct (wrap X (if strong then StrongKind else EmphasisKind) (d_node o) (Some (d_node c))) as [st3 wid]. cbn [fst].
    rewrite !stk_app1, setStk_app1. rewrite (plen_app1 n' Hk') by assumption.
    destruct (plen (nodeOf (setStk st3 (delStack (stk st3) (oi + 1) cp1)) (d_node o)) =? 0).
    - rewrite (removeNode_app1 n' Hk') by assumption. rewrite !stk_app1, setStk_app1. rewrite (plen_app1 n' Hk') by assumption.
      match goal with |- context [plen (nodeOf ?S (d_node c)) =? 0] => destruct (plen (nodeOf S (d_node c)) =? 0) end.
      + rewrite (removeNode_app1 n' Hk') by assumption. reflexivity.
      + reflexivity.
    - rewrite (plen_app1 n' Hk') by assumption.
      match goal with |- context [plen (nodeOf ?S (d_node c)) =? 0] => destruct (plen (nodeOf S (d_node c)) =? 0) end.
      + rewrite (removeNode_app1 n' Hk') by assumption. reflexivity.
      + reflexivity.
  Qed.

  Lemma sids_delStack l i j x : In x (sids (delStack l i j)) -> In x (sids l).
  Proof. unfold sids. rewrite !in_map_iff. intros (d & E & Hd). exists d. split; [exact E|eapply In_delStack; exact Hd]. Qed.

  Lemma pe_step_inv st ob cp s ob' cp' : OBI 0 ob -> 0 <= cp -> pe_step st ob cp = Some (s, ob', cp') ->
    OBI 0 ob' /\ 0 <= cp' /\ (forall x, In x (sids (stk s)) -> In x (sids (stk st))).
  Proof.
    intros HO Hcp. unfold pe_step. cbv zeta.
    remember (pe_findCloser (S (length (stk st))) (stk st) cp) as cp1 eqn:Ecp1.
    destruct (Z.ltb_spec cp1 0) as [Hneg|Hpos]; [discriminate|].
    destruct (findCloser_spec _ _ _ _ (eq_sym Ecp1) Hpos) as [Hcp1 Hcl].
    remember (nthD (stk st) cp1) as c eqn:Ec. pose proof (obIndex_range c Hcl) as Hobi.
    remember (getOB ob (obIndex c)) as lo eqn:Elo.
    assert (Hlo : 0 <= lo) by (subst lo; apply HO; unfold OBN; lia).
    remember (pe_findOpener (S (length (stk st))) (stk st) (cp1 - 1) lo c) as oi eqn:Eoi.
    destruct (Z.leb_spec lo oi) as [Hfound|Hnone].
    - assert (HOB1 : OBI 0 (map (fun b : Z => if oi + 1 <? b then oi + 1 else b) ob)).
      { apply OBI_map; [exact HO|]. intros b Hb. destruct (oi + 1 <? b); lia. }
      assert (HOB2 : OBI 0 (map (fun b : Z => if oi <? b then b - 1 else b) (map (fun b : Z => if oi + 1 <? b then oi + 1 else b) ob))).
      { apply OBI_map; [exact HOB1|]. intros b Hb. destruct (Z.ltb_spec oi b); lia. }
      destruct (wrap _ _ _ _) as [st3 wid] eqn:Ew.
      assert (Es3 : stk st3 = stk st) by (change st3 with (fst (st3, wid)); rewrite <- Ew; reflexivity).
      destruct (plen _ =? 0); destruct (plen _ =? 0); intros E; inversion E; subst; cbn [stk setStk removeNode setRk];
        (split; [assumption|]); (split; [lia|]); intros x Hx; repeat (apply sids_delStack in Hx); rewrite Es3 in Hx; exact Hx.
    - assert (HOB' : OBI 0 (setOB ob (obIndex c) cp1)) by (apply OBI_set; [exact HO|unfold OBN; lia|lia]).
      destruct (negb (hasFlag c fOpener)); intros E; inversion E; subst; cbn [stk setStk]; (split; [assumption|]); (split; [lia|]); intros x Hx.
      + apply sids_delStack in Hx. exact Hx.
      + exact Hx.
  Qed.

  Lemma pe_loop_app1 : forall f st ob cp, PEI true [] (sids (stk st)) (app1 st t) -> OBI 0 ob -> 0 <= cp -> ~ In tid (sids (stk st)) ->
    forall n', pid n' = tid -> pkids n' = [] -> pe_loop f (app1 st n') ob cp = app1 (pe_loop f st ob cp) n'.
  Proof.
    induction f as [|f IH]; intros st ob cp HP HO Hcp Ht n' Hn Hk'; [reflexivity|].
    rewrite !pe_loop_step, (pe_step_app1 st ob cp HP HO Hcp Ht n' Hn Hk').
    destruct (pe_step st ob cp) as [[[s ob'] cp']|] eqn:E; [|reflexivity].
    destruct (pe_step_inv st ob cp s ob' cp' HO Hcp E) as (HO' & Hcp' & Hsub).
    apply IH; try assumption.
    - destruct (pe_loop_PEI true [] 1 (app1 st t) ob cp (stk st) eq_refl HP HO ltac:(cbn; lia)) as (high' & B1 & B2 & _).
      rewrite pe_loop_step, (pe_step_app1 st ob cp HP HO Hcp Ht t eq_refl Hkt), E in B1, B2. cbn [pe_loop] in B1, B2.
      cbn [app] in B1. rewrite stk_app1 in B1. rewrite B1. exact B2.
    - intros Hi. apply Ht, Hsub, Hi.
  Qed.

  Lemma processEmphasisF_app1 pf st : PEI true [] (sids (stk st)) (app1 st t) -> ~ In tid (sids (stk st)) ->
    forall n', pid n' = tid -> pkids n' = [] -> processEmphasisF pf (app1 st n') 0 = app1 (processEmphasisF pf st 0) n'.
  Proof.
    intros HP Ht n' Hn Hk'. unfold processEmphasisF. rewrite (pe_loop_app1 pf st (repeat 0 14) 0 HP (OBI_init 0) ltac:(lia) Ht n' Hn Hk'). reflexivity.
  Qed.
End Frame.
