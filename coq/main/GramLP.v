From Coq Require Import List ZArith Lia Bool.
Import ListNotations.
Require Import Base Tree Rdr Link Collect Html Recog LP Rules Starts Driver Render L2Kind L2CC GramDefs GramTree.
Require L2Kind2.
Open Scope Z_scope.

(* ================= the block grammar invariant through the line parser ================= *)

(* containment (L2CC.ccP) + grammar of the whole tree + the spine down to the container is open *)
Definition GI (p : lp) : Prop := ccP p /\ gb (root p) = true /\ so (cdepth p) (root p) = true.

Lemma gb_getAt : forall d r x, gb r = true -> getAt d r = Some x -> gb x = true.
Proof.
  induction d as [|d IH]; intros r x Hr Hx.
  - cbn in Hx. inversion Hx; subst. exact Hr.
  - rewrite getAt_S in Hx. destruct (lastBlock r) as [c|] eqn:El; [|discriminate].
    apply (IH c); [eapply gb_lastBlock; eassumption|exact Hx].
Qed.
Lemma cc_getAt : forall d r x, cc r = true -> getAt d r = Some x -> cc x = true.
Proof.
  induction d as [|d IH]; intros r x Hr Hx.
  - cbn in Hx. inversion Hx; subst. exact Hr.
  - rewrite getAt_S in Hx. destruct (lastBlock r) as [c|] eqn:El; [|discriminate].
    apply (IH c); [eapply cc_lastBlock; eassumption|exact Hx].
Qed.

Lemma GI_same_cd p p' : root p' = root p -> cdepth p' = cdepth p -> GI p -> GI p'.
Proof. intros E1 E2 (A & B & C). split; [eapply ccP_same_cd; eassumption|]. rewrite E1, E2. tauto. Qed.
Lemma GI_same p p' : same_tree p p' -> GI p -> GI p'.
Proof. intros [E1 E2]. apply GI_same_cd; [exact E1|unfold cdepth; rewrite E2; reflexivity]. Qed.
Lemma GI_advance p n : GI p -> GI (advance p n). Proof. apply GI_same, same_advance. Qed.
Lemma GI_consumeLine p : GI p -> GI (consumeLine p). Proof. apply GI_same, same_consumeLine. Qed.
Lemma GI_consumeIndent p n : GI p -> GI (consumeIndent p n). Proof. apply GI_same, same_consumeIndent. Qed.
Lemma GI_opened p : GI p -> GI (if state p =? stOpening then withState p stOpenMatched else p).
Proof. apply GI_same, same_opened. Qed.

Lemma GI_wf p : GI p -> exists x, getAt (cdepth p) (root p) = Some x /\ isOpen x = true.
Proof. intros (_ & _ & C). apply so_getAt, C. Qed.

(* an update at depth d >= d' with a function that keeps kind, end, and (for items) delimiter and looseness;
   afterwards depth d' <= cdepth is the container *)
Lemma GI_updRoot p d f d' : GI p ->
  (forall x, getAt d (root p) = Some x -> cc x = true -> gb x = true ->
     cc (f x) = true /\ gb (f x) = true /\ sameAs x (f x)) ->
  (forall x, isOpen (f x) = isOpen x) ->
  (d' <= d)%nat -> (d' <= cdepth p)%nat ->
  GI (withCont (withRoot p (updAt d f (root p))) (Some d')).
Proof.
  intros (A & B & C) Hf Ho Hle Hlc.
  assert (Hw : exists x, getAt d' (root p) = Some x).
  { destruct (so_getAt _ _ C) as (x & Hx & _). eapply getAt_le; [exact Hlc|exact Hx]. }
  split; [|split].
  - apply ccP_updRoot; [exact A| |].
    + intros x Hx Hcx.
      assert (Hgx : gb x = true) by (exact (gb_getAt _ _ _ B Hx)).
      destruct (Hf x Hx Hcx Hgx) as (H1 & _ & H3 & _). split; [exact H1|exact H3].
    + destruct Hw as (x & Hx). eapply getAt_updAt_below; eassumption.
  - cbn [root withCont withRoot setLP].
    apply (gb_updAt_at f d (root p) B). intros x Hx Hgx.
    assert (Hcx : cc x = true) by (destruct A as (_ & A & _); exact (cc_getAt _ _ _ A Hx)).
    destruct (Hf x Hx Hcx Hgx) as (_ & H2 & H3). split; [exact H2|left; exact H3].
  - cbn [root container cdepth withCont withRoot setLP].
    apply so_updAt; [exact Ho|exact Hle|]. eapply so_le; [exact Hlc|exact C].
Qed.

Lemma GI_updCont p f : GI p ->
  (forall x, getAt (cdepth p) (root p) = Some x -> cc x = true -> gb x = true ->
     cc (f x) = true /\ gb (f x) = true /\ sameAs x (f x)) ->
  (forall x, isOpen (f x) = isOpen x) ->
  GI (updCont p f).
Proof.
  intros H Hf Ho.
  apply (GI_same_cd (withCont (withRoot p (updAt (cdepth p) f (root p))) (Some (cdepth p)))); [reflexivity|reflexivity|].
  apply GI_updRoot; [exact H|exact Hf|exact Ho|lia|lia].
Qed.

Lemma GI_withCont p d : GI p -> so d (root p) = true -> GI (withCont p (Some d)).
Proof.
  intros (A & B & C) Hs. split; [|split; [exact B|exact Hs]].
  apply ccP_withCont; [exact A|]. destruct (so_getAt _ _ Hs) as (x & Hx & _). eauto.
Qed.

(* ---- closing the last child ---- *)
Lemma closeF_gb p e x : gb x = true -> gb (closeF p e x) = true /\ sameAs x (closeF p e x).
Proof.
  intros Hx. unfold closeF. destruct (lastBlock x) as [c|] eqn:El; [|split; [exact Hx|apply sameAs_refl]].
  split; [|apply sameAs_set_lastBlocks].
  eapply gb_set_lastBlocks; [exact Hx|exact El|]. apply gb_closeBlock. eapply gb_lastBlock; eassumption.
Qed.
Lemma closeF_open p e x : isOpen (closeF p e x) = isOpen x.
Proof. unfold closeF. destruct (lastBlock x); [apply isOpen_set_lastBlocks|reflexivity]. Qed.

Lemma GI_closeAt p d e d' : GI p -> (d' <= d)%nat -> (d' <= cdepth p)%nat ->
  GI (withCont (closeLastChildAt p d e) (Some d')).
Proof.
  intros H Hle Hlc. unfold closeLastChildAt. fold (closeF p e).
  apply (GI_updRoot p d (closeF p e) d'); [exact H| |apply closeF_open|exact Hle|exact Hlc].
  intros x _ Hcx Hgx. destruct (closeF_ok p e x Hcx) as [A _]. destruct (closeF_gb p e x Hgx) as [B C]. tauto.
Qed.
Lemma GI_closeHere p e : GI p -> GI (closeLastChildAt p (cdepth p) e).
Proof.
  intros H.
  apply (GI_same_cd (withCont (closeLastChildAt p (cdepth p) e) (Some (cdepth p)))); [reflexivity|reflexivity|].
  apply GI_closeAt; [exact H|lia|lia].
Qed.

(* ---- openBlock ---- *)
Lemma GI_openBlock_up : forall fuel p kind, GI p -> GI (openBlock_up fuel p kind).
Proof.
  induction fuel as [|f IH]; intros p kind H; [assumption|]. cbn [openBlock_up].
  destruct (canContain _ _); [assumption|]. destruct (cdepth p) as [|d] eqn:Ed; [apply (GI_same p); [split; reflexivity|exact H]|].
  apply IH. apply GI_closeAt; [exact H|lia|lia].
Qed.

(* the state just before the new block is attached *)
Definition obPre (p : lp) (kind : Z) : lp :=
  let p0 := if state p =? stOpening then withState p stOpenMatched else p in
  let p2 := openBlock_up (S (cdepth p0)) p0 kind in
  closeLastChildAt p2 (cdepth p2) (lineStart p2).
Definition obPos (p : lp) (kind : Z) : Z := lineStart (obPre p kind) + li (obPre p kind).

Lemma st_open_test p : st_open p -> (state p =? stDescending) || (state p =? stDescendTerminated) = false.
Proof. intros [E|E]; rewrite E; reflexivity. Qed.
Lemma openBlock_eq p K : st_open p ->
  openBlock p K = withCont (updCont (obPre p K) (appendB (newBlock K (obPos p K)))) (Some (S (cdepth (obPre p K)))).
Proof. intros Hs. unfold openBlock. rewrite (st_open_test p Hs). reflexivity. Qed.

Lemma GI_obPre p K : GI p -> (K <> ListItemKind \/ canContain (containerKind p) K = true) ->
  GI (obPre p K) /\ canContain (containerKind (obPre p K)) K = true.
Proof.
  intros H Hk. unfold obPre. cbv zeta.
  set (p0 := if state p =? stOpening then withState p stOpenMatched else p).
  assert (H0 : GI p0) by (apply GI_opened, H).
  assert (K0 : K <> ListItemKind \/ canContain (containerKind p0) K = true).
  { rewrite (containerKind_same p p0 (same_opened p)). exact Hk. }
  set (p2 := openBlock_up (S (cdepth p0)) p0 K).
  assert (H2 : GI p2) by (apply GI_openBlock_up, H0).
  assert (A2 : canContain (containerKind p2) K = true) by (apply openBlock_up_accepts; [apply H0|lia|exact K0]).
  split; [apply GI_closeHere, H2|]. rewrite containerKind_closeHere. exact A2.
Qed.

Lemma bkind_appendB y b : bkind (appendB y b) = bkind b. Proof. destruct b; reflexivity. Qed.
Lemma bchar_appendB y b : bchar (appendB y b) = bchar b. Proof. destruct b; reflexivity. Qed.
Lemma bloose_appendB y b : bloose (appendB y b) = bloose b. Proof. destruct b; reflexivity. Qed.
Lemma sameAs_appendB y b : sameAs b (appendB y b).
Proof. split; [apply bkind_appendB|]. intros _. split; [apply bchar_appendB|apply bloose_appendB]. Qed.

Lemma gbLocK_append K' ks ik op n ch lo y :
  gbLocK K' ks ik op n ch lo = true -> canContain K' (bkind y) = true -> bkind y <> ListMarkerKind ->
  (bkind y = ListItemKind -> op = true /\ bchar y = ch /\ bloose y = false) ->
  gbLocK K' (ks ++ [y]) ik op n ch lo = true.
Proof.
  intros H Hc Nm Hi. unfold gbLocK in *.
  destruct (Z.eqb_spec K' ListItemKind) as [E|N1].
  { subst K'. unfold canContain in Hc. cbn [Z.eqb Pos.eqb ListItemKind documentKind ListKind] in Hc.
    destruct ks as [|m rest]; [discriminate|]. cbn [app itemKids] in *. apply andb_true_iff in H. destruct H as [Hm Hr].
    rewrite Hm, forallb_app, Hr. cbn [forallb andb]. rewrite andb_true_r. unfold notMarkerItem.
    apply negb_true_iff in Hc. rewrite Hc, orb_false_r. apply negb_true_iff, Z.eqb_neq, Nm. }
  destruct (Z.eqb_spec K' ListMarkerKind) as [E|N2]; [subst K'; discriminate|].
  destruct (Z.eqb_spec K' ThematicBreakKind) as [E|N3]; [subst K'; discriminate|]. cbn [orb] in *.
  destruct (Z.eqb_spec K' LinkReferenceDefinitionKind) as [E|N4]; [subst K'; discriminate|].
  destruct (Z.eqb_spec K' ListKind) as [E|N5]; [|exact H].
  subst K'. unfold canContain in Hc. cbn [Z.eqb Pos.eqb ListItemKind documentKind ListKind] in Hc.
  apply Z.eqb_eq in Hc. destruct (Hi Hc) as (Ho & Ec & El).
  apply andb_true_iff in H. destruct H as [H1 H2]. apply andb_true_iff. split.
  - rewrite forallb_app, H1. cbn [forallb andb]. rewrite Hc, Ec, !Z.eqb_refl. reflexivity.
  - destruct lo; [rewrite Ho; reflexivity|]. rewrite forallb_app, H2. cbn [forallb andb]. rewrite El. reflexivity.
Qed.

Lemma contBlock_at p x : getAt (cdepth p) (root p) = Some x -> contBlock p = x.
Proof. intros H. unfold contBlock. rewrite H. reflexivity. Qed.

(* attach a well-formed open block below the container and make it the container *)
Lemma GI_append q y : GI q -> canContain (containerKind q) (bkind y) = true ->
  cc y = true -> gb y = true -> isOpen y = true -> bkind y <> ListMarkerKind ->
  (bkind y = ListItemKind -> bchar y = bchar (contBlock q) /\ bloose y = false) ->
  GI (withCont (updCont q (appendB y)) (Some (S (cdepth q)))).
Proof.
  intros (A & B & C) Hc Hcy Hgy Hoy Nm Hi.
  destruct (so_getAt _ _ C) as (x0 & Hx0 & Ox0).
  assert (Hf : forall x, getAt (cdepth q) (root q) = Some x -> cc x = true -> gb x = true ->
             cc (appendB y x) = true /\ gb (appendB y x) = true).
  { intros x Hx Hcx Hgx. rewrite Hx0 in Hx. inversion Hx; subst x0. clear Hx.
    assert (Ek : containerKind q = bkind x) by (unfold containerKind; rewrite (contBlock_at q x Hx0); reflexivity).
    rewrite Ek in Hc. split.
    - apply cc_parts in Hcx. destruct Hcx as [Y1 Y2]. unfold appendB. apply cc_set_bkids.
      + rewrite forallb_app, Y1. cbn [forallb andb]. rewrite Hc. reflexivity.
      + unfold ccL in *. rewrite forallb_app, Y2. cbn [forallb]. rewrite Hcy. reflexivity.
    - apply gb_parts in Hgx. destruct Hgx as [G1 G2]. unfold appendB. apply gb_intro.
      + rewrite gbLoc_set_bkids. apply gbLocK_append; [exact G1|exact Hc|exact Nm|].
        intros Ei. destruct (Hi Ei) as [E1 E2]. rewrite (contBlock_at q x Hx0) in E1. tauto.
      + rewrite bkids_set_bkids, gbL_app, G2, gbL_one. exact Hgy. }
  pose proof A as (A1 & A2 & _).
  split; [|split].
  - unfold ccP, wf, cdepth. cbn [root container withCont withRoot setLP updCont]. fold (cdepth q).
    destruct (cc_updAt_at (appendB y) (cdepth q) (root q) A2) as [Hcc _].
    { intros x Hx Hcx.
      assert (Hgx : gb x = true) by (exact (gb_getAt _ _ _ B Hx)).
      split; [apply (Hf x Hx Hcx Hgx)|left; apply bkind_appendB]. }
    split; [|split; [exact Hcc|]].
    + rewrite bkind_updAt; [exact A1|]. intros _. apply bkind_appendB.
    + exists y. apply (getAt_S_append_some y (cdepth q) (root q) x0 Hx0).
  - cbn [root withCont withRoot setLP updCont].
    apply (gb_updAt_at (appendB y) (cdepth q) (root q) B). intros x Hx Hgx.
    assert (Hcx : cc x = true) by (exact (cc_getAt _ _ _ A2 Hx)).
    split; [apply (Hf x Hx Hcx Hgx)|left; apply sameAs_appendB].
  - cbn [root container cdepth withCont withRoot setLP updCont]. fold (cdepth q). apply so_append; assumption.
Qed.
