From Coq Require Import List ZArith Lia Bool.
Import ListNotations.
Require Import Base Tree Rdr Link Collect Html Recog LP Rules Starts Driver Render L2Kind L2CC GramDefs GramTree GramLP GramLP2 GramLP3 GramLP4.
Require L2Kind2.
Require Import TDefs TOcp TInv TDesc TStarts TLine StreamFuel BSLine1 BSLine3 TilLP1 TilLP8 TilLP10 TilLP11
  ReparseSwap ReparseOpen ReparseStarts ReparseTry ReparseDesc ReparsePass ReparseTip ReparseDead ReparseOcp ReparseAnch.
Open Scope Z_scope.

(* T50 continuation, file 9: a line that closes the single open root child c at its own start T is processed exactly as if c had
   been closed (top down, closeBlock) before the line. *)
Definition fin (am : bool) (p1 : lp) : list block * Z * Z :=
  let '(ht, p2) := if negb (state p1 =? stDescendTerminated) then openNewBlocks p1 am else (false, p1) in
  let p3 := if ht then addLineText p2 else p2 in
  (bkids (root p3), state p3, panicked p3).
Lemma processLine_fin st ch ls src :
  processLine st ch ls src = fin (fst (descendOpenBlocks (resetLP st ch ls src))) (snd (descendOpenBlocks (resetLP st ch ls src))).
Proof. unfold processLine, fin. destruct (descendOpenBlocks _) as [am p1]. reflexivity. Qed.

Definition closedAt (T : Z) (r : list block * Z * Z) : Prop :=
  exists h rest, fst (fst r) = h :: rest /\ isOpen h = false /\ bend h = T.
Lemma open1_not_closedAt T rt s pn : open1r rt -> ~ closedAt T (bkids rt, s, pn).
Proof. intros (x & E & Ho) (h & rest & E' & Hc & _). cbn [fst] in E'. rewrite E in E'. inversion E'; subst. congruence. Qed.

Lemma opening_loop_S n p : (containerKind p =? ParagraphKind) || negb (acceptsLines (containerKind p)) = true ->
  opening_loop (S n) p =
  match tryStarts blockStarts p with
  | (true, p1) => if state p1 =? stLineConsumed then (false, p1) else opening_loop n p1
  | (false, p1) => (true, p1)
  end.
Proof. intros H. cbn [opening_loop]. rewrite H. reflexivity. Qed.
Lemma tryStarts_reset p : tryStarts blockStarts p = tryStarts blockStarts (withState p stOpening).
Proof. reflexivity. Qed.

Section LineB.
  Variables (src : bytes) (T : Z) (c : block).
  Hypothesis Hop : isOpen c = true.
  Hypothesis Hcf : ccF [c] = true.
  Hypothesis Hgb : gbL [c] = true.
  Hypothesis HT : 0 <= T.
  Hypothesis Hln : from_ src T <> [].
  Definition L : list block := closeBlock (bheight (root0 [c])) src c T.
  Hypothesis Lcl : Forall closedB L.

  Lemma Lne : L <> []. Proof. apply StreamFuel.closeBlock_nonempty. Qed.
  Lemma HL : L = closeBlock (bheight (root0 [c])) src c T. Proof. reflexivity. Qed.
  Notation ln := (from_ src T).
  Definition P (d : nat) (s : Z) : lp :=
    {| source := src; root := root0 [c]; container := Some d; lineStart := T; line := ln; li := 0; col := 0;
       tabRem := computeTabRem ln 0 0; state := s; panicked := 0 |}.
  Definition Q (s : Z) : lp :=
    {| source := src; root := root0 L; container := Some O; lineStart := T; line := ln; li := 0; col := 0;
       tabRem := computeTabRem ln 0 0; state := s; panicked := 0 |}.
  Notation RO := (ReparseOpen.RO src T c).
  Notation sw := (ReparseOpen.sw L).

  Lemma cc_c : cc c = true.
  Proof. unfold ccF in Hcf. apply andb_true_iff in Hcf. destruct Hcf as [_ H]. unfold ccL in H. cbn [forallb] in H. apply andb_true_iff in H. tauto. Qed.
  Lemma len_ln_pos : 0 < len ln. Proof. apply len_pos_of_ne, Hln. Qed.

  Lemma RO_P d s : RO d (P d s). Proof. repeat split. Qed.
  Lemma sw_P d s : sw (P d s) = Q s. Proof. reflexivity. Qed.
  Lemma CU_P d s : CU (P d s). Proof. unfold CU, P. cbn. pose proof len_ln_pos. lia. Qed.
  Lemma GI_P d s : (d <= 1)%nat -> GI (P d s).
  Proof.
    intros Hd. split; [|split].
    - split; [reflexivity|]. split.
      + change (root (P d s)) with (root0 [c]). rewrite cc_eq. exact Hcf.
      + unfold wf. change (cdepth (P d s)) with d. destruct d as [|[|d]]; [eexists; reflexivity|eexists; reflexivity|lia].
    - change (root (P d s)) with (root0 [c]). apply gb_intro; [reflexivity|exact Hgb].
    - change (cdepth (P d s)) with d. change (root (P d s)) with (root0 [c]).
      destruct d as [|[|d]]; [reflexivity| |lia]. rewrite so_S. change (lastBlock (root0 [c])) with (Some c). cbn [so]. rewrite Hop. reflexivity.
  Qed.
  Lemma close0_P d s : closeLastChildAt (P d s) 0 T = swapRC (P d s) (root0 L) (Some d).
  Proof. apply (close0_c src T c L HL). Qed.
  Lemma GI_Q s : GI (Q s).
  Proof.
    pose proof (GI_closeHere (P 0 s) T (GI_P 0 s ltac:(lia))) as H. change (cdepth (P 0 s)) with O in H. rewrite close0_P in H. exact H.
  Qed.
  Lemma IT_Q s : IT (Q s).
  Proof.
    split; [apply GI_Q|]. split; [unfold CU, Q; cbn; pose proof len_ln_pos; lia|]. split.
    - split; [eexists; reflexivity|]. intros x Hx. change (getAt (cdepth (Q s)) (root (Q s))) with (Some (root0 L)) in Hx.
      inversion Hx; subst x. unfold lastClosedB.
      destruct (snoc_of_ne L Lne) as (pre & y & E). rewrite E, root0_snoc_last.
      pose proof Lcl as Hc. rewrite E in Hc. apply Forall_app in Hc. destruct Hc as [_ Hc]. inversion Hc; subst. assumption.
    - split; discriminate.
  Qed.

  (* the run on the closed children *)
  Lemma descend_Q s : descendOpenBlocks (Q s) = (true, Q s).
  Proof.
    unfold descendOpenBlocks. destruct (bheight_S (root (Q s))) as [n ->]. cbn [descend_loop]. cbv zeta.
    destruct (snoc_of_ne L Lne) as (pre & y & E).
    assert (Eg : getAt 1 (root (Q s)) = Some y).
    { change (getAt 1 (root (Q s))) with (match lastBlock (root0 L) with Some x => Some x | None => None end). rewrite E, root0_snoc_last. reflexivity. }
    rewrite Eg. pose proof Lcl as Hc. rewrite E in Hc. apply Forall_app in Hc. destruct Hc as [_ Hc]. inversion Hc as [|? ? Hy _]; subst.
    rewrite Hy. reflexivity.
  Qed.
  Lemma processLine_Q : processLine 0 L T src = fin true (Q 0).
  Proof. rewrite processLine_fin. change (resetLP 0 L T src) with (Q 0). rewrite descend_Q. reflexivity. Qed.

  (* ---- the common part of the run ---- *)
  Definition fin2 (ht : bool) (p2 : lp) : list block * Z * Z :=
    let p3 := if ht then addLineText p2 else p2 in (bkids (root p3), state p3, panicked p3).
  Lemma fin_open am p1 : state p1 <> stDescendTerminated -> line p1 = ln ->
    fin am p1 = (let '(ht, p2) := opening_loop (S (length ln)) p1 in if am then fin2 ht p2 else fin2 ht (deferredClose p2)).
  Proof.
    intros Hs Hl. unfold fin, fin2. replace (state p1 =? stDescendTerminated) with false by (symmetry; apply Z.eqb_neq; exact Hs).
    cbn [negb]. unfold openNewBlocks. rewrite Hl.
    replace (len ln =? 0) with false by (symmetry; apply Z.eqb_neq; pose proof len_ln_pos; lia).
    destruct (opening_loop (S (length ln)) p1) as [ht p2]. destruct am; reflexivity.
  Qed.
  Lemma fin_Q : fin true (Q 0) = (let '(ht, p2) := opening_loop (S (length ln)) (Q 0) in fin2 ht p2).
  Proof. rewrite fin_open; [|discriminate|reflexivity]. destruct (opening_loop _ _). reflexivity. Qed.

  Definition ckOK (d : nat) : Prop :=
    containerKind (P d 0) = documentKind \/ containerKind (P d 0) = ParagraphKind \/ containerKind (P d 0) = ListKind.
  Lemma guard_P d s : ckOK d -> (containerKind (P d s) =? ParagraphKind) || negb (acceptsLines (containerKind (P d s))) = true.
  Proof. change (containerKind (P d s)) with (containerKind (P d 0)). intros [-> |[-> | ->]]; reflexivity. Qed.

  (* all starts agree: the two runs are equal from the first start on *)
  Lemma run_same d s am : s <> stDescendTerminated -> ckOK d ->
    tryStarts blockStarts (Q 0) = tryStarts blockStarts (P d stOpening) -> fin am (P d s) = fin true (Q 0).
  Proof.
    intros Hs Hck E. rewrite fin_Q, (fin_open am (P d s) Hs eq_refl).
    assert (El : opening_loop (S (length ln)) (P d s) = opening_loop (S (length ln)) (Q 0)).
    { rewrite (opening_loop_S _ (P d s) (guard_P d s Hck)), (opening_loop_S _ (Q 0) eq_refl).
      rewrite (tryStarts_reset (P d s)). change (withState (P d s) stOpening) with (P d stOpening). rewrite E. reflexivity. }
    rewrite El. pose proof (IT_opening_loop (S (length ln)) (Q 0) (IT_Q 0)) as HI.
    destruct (opening_loop (S (length ln)) (Q 0)) as [ht p2]. cbn [snd] in HI.
    destruct am; [reflexivity|]. rewrite (deferredClose_tip p2); [reflexivity|apply HI|apply HI].
  Qed.

  (* no start fired *)
  Lemma loop_none d s : ckOK d -> tryStarts blockStarts (P d stOpening) = (false, P d stOpening) ->
    opening_loop (S (length ln)) (P d s) = (true, P d stOpening).
  Proof.
    intros Hck E. rewrite (opening_loop_S _ (P d s) (guard_P d s Hck)), (tryStarts_reset (P d s)).
    change (withState (P d s) stOpening) with (P d stOpening). rewrite E. reflexivity.
  Qed.
  Lemma loop_none_Q : tryStarts blockStarts (Q 0) = (false, Q 0) -> opening_loop (S (length ln)) (Q 0) = (true, Q 0).
  Proof. intros E. rewrite (opening_loop_S _ (Q 0) eq_refl), E. reflexivity. Qed.

  Lemma open1_P d s : open1r (root (P d s)). Proof. exists c. split; [reflexivity|exact Hop]. Qed.

  (* the line is added to the open paragraph / code block / HTML block c *)
  Lemma text_dead p : root p = root0 [c] -> (1 <= cdepth p)%nat -> acceptsLines (containerKind p) = true ->
    ~ closedAt T (fin2 true p).
  Proof.
    intros Er Hd Ha. unfold fin2. apply open1_not_closedAt. apply addLineText_stays; [exact Hd| |left; exact Ha].
    rewrite Er. exists c. split; [reflexivity|exact Hop].
  Qed.

  (* lazy continuation: the deferred close moves the container to the open paragraph at the tip *)
  Lemma lazy_dead p : root p = root0 [c] ->
    negb (isRestBlank p) && (match getAt (tipDepth (bheight (root p)) (root p)) (root p) with Some t => bkind t =? ParagraphKind | None => false end) = true ->
    ~ closedAt T (fin2 true (deferredClose p)).
  Proof.
    intros Er Hc. unfold deferredClose. cbv zeta. rewrite Hc.
    set (tipD := tipDepth (bheight (root p)) (root p)) in *.
    apply andb_true_iff in Hc. destruct Hc as [_ Hc].
    destruct (getAt tipD (root p)) as [t|] eqn:Et; [|discriminate]. apply Z.eqb_eq in Hc.
    apply text_dead.
    - exact Er.
    - change (cdepth (withCont p (Some tipD))) with tipD. destruct tipD as [|n]; [|lia]. cbn in Et. inversion Et; subst t. rewrite Er in Hc. discriminate.
    - unfold containerKind, contBlock. change (cdepth (withCont p (Some tipD))) with tipD. change (root (withCont p (Some tipD))) with (root p).
      rewrite Et, Hc. reflexivity.
  Qed.
  Lemma tipKind_cond p : tipKind p = ParagraphKind ->
    (match getAt (tipDepth (bheight (root p)) (root p)) (root p) with Some t => bkind t =? ParagraphKind | None => false end) = true.
  Proof. unfold tipKind. destruct (getAt _ _); [intros ->; reflexivity|discriminate]. Qed.

  Notation TSres := (ReparseTry.TSres L).
  Lemma ts_P d : scen c d -> ckOK d -> TSres (P d stOpening).
  Proof.
    intros Hd Hck. apply (tryStarts_sim src T c L HL Lne Lcl d); [apply RO_P|reflexivity|exact Hd|exact Hck].
  Qed.

  (* ---- c was not matched by the line (container: the root) ---- *)
  Lemma ckOK_0 : ckOK 0. Proof. left. reflexivity. Qed.
  Theorem run_U s : s <> stDescendTerminated -> closedAt T (fin false (P 0 s)) -> fin false (P 0 s) = fin true (Q 0).
  Proof.
    intros Hs Hcl.
    destruct (ts_P 0 ltac:(left; reflexivity) ckOK_0) as [E|E1 E2|E1 HB|lv Ek _ _|(Ek & _) _].
    - apply (run_same 0 s false Hs ckOK_0). exact E.
    - rewrite (fin_open false (P 0 s) Hs eq_refl), (loop_none 0 s ckOK_0 E1) in Hcl |- *.
      rewrite fin_Q, (loop_none_Q E2).
      destruct (negb (isRestBlank (P 0 stOpening)) &&
        (match getAt (tipDepth (bheight (root (P 0 stOpening))) (root (P 0 stOpening))) (root (P 0 stOpening)) with Some t => bkind t =? ParagraphKind | None => false end)) eqn:Ec.
      + exfalso. exact (lazy_dead (P 0 stOpening) eq_refl Ec Hcl).
      + unfold deferredClose. cbv zeta. rewrite Ec. change (cdepth (P 0 stOpening)) with O. change (lineStart (P 0 stOpening)) with T.
        rewrite close0_P. reflexivity.
    - exfalso. rewrite (fin_open false (P 0 s) Hs eq_refl), (loop_none 0 s ckOK_0 E1) in Hcl.
      destruct HB as [HB|[HB1 HB2]]; [discriminate|].
      apply (lazy_dead (P 0 stOpening) eq_refl); [|exact Hcl]. rewrite HB2, (tipKind_cond _ HB1). reflexivity.
    - discriminate.
    - discriminate.
  Qed.

  (* ---- c takes lines and is no paragraph: the line is added to it ---- *)
  Theorem run_leaf p1 : acceptsLines (bkind c) = true -> bkind c <> ParagraphKind -> state p1 = stDescending ->
    root p1 = root0 [c] -> container p1 = Some 1%nat -> line p1 = ln -> ~ closedAt T (fin true p1).
  Proof.
    intros Ha Hnp Hs Er Ec El.
    assert (Ek : containerKind p1 = bkind c) by (unfold containerKind, contBlock, cdepth; rewrite Ec, Er; reflexivity).
    rewrite (fin_open true p1 ltac:(rewrite Hs; discriminate) El). cbn [opening_loop]. rewrite Ek, Ha.
    replace (bkind c =? ParagraphKind) with false by (symmetry; apply Z.eqb_neq; exact Hnp). cbn [orb negb].
    apply text_dead; [exact Er|unfold cdepth; rewrite Ec; lia|rewrite Ek; exact Ha].
  Qed.

  (* ---- c is a paragraph that the line continues or interrupts (container: c) ---- *)
  Lemma setext_dead lv : bkind c = ParagraphKind ->
    let pS := endBlock (consumeLine (updCont (P 1 stOpening) (retag lv))) in
    state pS = stLineConsumed /\ Forall (ocpP (T + len ln)) (bkids (root pS)).
  Proof.
    intros Hk. cbv zeta. set (q := consumeLine (updCont (P 1 stOpening) (retag lv))).
    assert (Sq : state q = stLineConsumed) by (apply state_consumeLine_open; left; reflexivity).
    assert (Lq : li q = len ln) by (apply (li_consumeLine (updCont (P 1 stOpening) (retag lv))); cbn; pose proof len_ln_pos; lia).
    destruct (same_consumeLine (updCont (P 1 stOpening) (retag lv))) as [Rq Cq]. fold q in Rq, Cq.
    assert (Rq' : root q = root0 [retag lv c]) by (rewrite Rq; reflexivity).
    assert (Cq' : container q = Some 1%nat) by (rewrite Cq; reflexivity).
    assert (Eq : lineStart q = T /\ source q = src).
    { destruct (cstep_consumeLine (updCont (P 1 stOpening) (retag lv))) as (_ & (A & _ & B) & _). fold q in A, B. rewrite A, B. split; reflexivity. }
    split; [rewrite state_endBlock_ne0; [exact Sq|rewrite Sq; discriminate]|].
    unfold endBlock. rewrite Sq. cbn [Z.eqb orb]. change (stLineConsumed =? stDescending) with false. change (stLineConsumed =? stDescendTerminated) with false.
    cbn [orb]. change (stLineConsumed =? stOpening) with false. cbv iota. unfold cdepth. rewrite Cq'.
    rewrite closeLastChildAt_clF. cbn [root withCont withRoot setLP updAt]. rewrite Rq', clF_root0_single. cbn [bkids root0].
    destruct (bheight_S (root0 [retag lv c])) as [h ->].
    destruct Eq as [E1 E2]. rewrite E1, E2, Lq.
    apply closeBlock_para_all; [destruct c; exact Hop|right; destruct c; reflexivity].
  Qed.

  Lemma ckOK_para : bkind c = ParagraphKind -> ckOK 1. Proof. intros H. right. left. exact H. Qed.
  Lemma scen_para : bkind c = ParagraphKind -> scen c 1.
  Proof. intros H. right. split; [reflexivity|]. intros K _. rewrite H. reflexivity. Qed.

  Theorem run_MP s : bkind c = ParagraphKind -> s <> stDescendTerminated ->
    (forall h rest, fst (fst (fin true (P 1 s))) = h :: rest -> bkind h <> LinkReferenceDefinitionKind) ->
    closedAt T (fin true (P 1 s)) -> fin true (P 1 s) = fin true (Q 0).
  Proof.
    intros Hk Hs Hnr Hcl.
    assert (Hacc : acceptsLines (containerKind (P 1 stOpening)) = true).
    { change (containerKind (P 1 stOpening)) with (bkind c). rewrite Hk. reflexivity. }
    destruct (ts_P 1 (scen_para Hk) (ckOK_para Hk)) as [E|E1 E2|E1 HB|lv Ek Epre ES|(Ek & _) _].
    - apply (run_same 1 s true Hs (ckOK_para Hk)). exact E.
    - exfalso. rewrite (fin_open true (P 1 s) Hs eq_refl), (loop_none 1 s (ckOK_para Hk) E1) in Hcl.
      exact (text_dead (P 1 stOpening) eq_refl ltac:(cbn; lia) Hacc Hcl).
    - exfalso. rewrite (fin_open true (P 1 s) Hs eq_refl), (loop_none 1 s (ckOK_para Hk) E1) in Hcl.
      exact (text_dead (P 1 stOpening) eq_refl ltac:(cbn; lia) Hacc Hcl).
    - exfalso. destruct (setext_dead lv Hk) as [SS SF]. cbv zeta in SS, SF. rewrite <- ES in SS, SF.
      assert (Et : tryStarts blockStarts (P 1 stOpening) = (true, startSetext (P 1 stOpening))).
      { rewrite Epre. cbn [tryStarts]. cbv zeta. change (withState (P 1 stOpening) stOpening) with (P 1 stOpening). rewrite SS. reflexivity. }
      assert (El : opening_loop (S (length ln)) (P 1 s) = (false, startSetext (P 1 stOpening))).
      { rewrite (opening_loop_S _ (P 1 s) (guard_P 1 s (ckOK_para Hk))), (tryStarts_reset (P 1 s)).
        change (withState (P 1 s) stOpening) with (P 1 stOpening). rewrite Et, SS. reflexivity. }
      rewrite (fin_open true (P 1 s) Hs eq_refl), El in Hcl, Hnr. unfold fin2 in Hcl, Hnr. cbn [fst] in Hnr.
      destruct Hcl as (h & rest & Eh & Hc & Hb). cbn [fst] in Eh. rewrite Eh in SF. inversion SF as [|? ? Hh _]; subst.
      destruct Hh as [Hh|[Hh|Hh]]; [exact (Hnr h rest Eh Hh)|pose proof len_ln_pos; lia|congruence].
    - exfalso. change (containerKind (P 1 stOpening)) with (bkind c) in Ek. rewrite Hk in Ek. discriminate.
  Qed.

  (* ---- an anchored state: c stays open ---- *)
  Lemma dead_tail (ht am : bool) p2 : IA p2 -> ~ closedAt T (if am then fin2 ht p2 else fin2 ht (deferredClose p2)).
  Proof.
    intros (G & _ & J).
    assert (J' : JA (if am then p2 else deferredClose p2)) by (destruct am; [exact J|apply JA_deferredClose; assumption]).
    assert (E : (if am then fin2 ht p2 else fin2 ht (deferredClose p2)) = fin2 ht (if am then p2 else deferredClose p2)) by (destruct am; reflexivity).
    rewrite E. unfold fin2. apply open1_not_closedAt. destruct ht; [apply JA_addLineText_open, J'|apply JA_open1, J'].
  Qed.
  Lemma dead_run (am : bool) p1 : IA p1 -> state p1 <> stDescendTerminated -> line p1 = ln -> ~ closedAt T (fin am p1).
  Proof.
    intros H Hs Hl. rewrite (fin_open am p1 Hs Hl).
    pose proof (IA_opening_loop (S (length ln)) p1 H) as H2. destruct (opening_loop (S (length ln)) p1) as [ht p2]. cbn [snd] in H2.
    apply dead_tail, H2.
  Qed.

  (* ---- assembling: descendOpenBlocks, then one of the scenarios ---- *)
  Lemma p0_P st : ReparseDesc.p0 src T c st = P 0 st. Proof. reflexivity. Qed.
  Lemma pd_P d : ReparseDesc.pd src T c d = P d stDescending. Proof. reflexivity. Qed.

  Lemma anch_of d p1 : root p1 = root0 [c] -> container p1 = Some d -> anchored c d -> wf p1 -> JA p1.
  Proof.
    intros Er Ec Ha (x & Hx). unfold cdepth in Hx. rewrite Ec, Er in Hx.
    assert (Hone : open1r (root p1)) by (rewrite Er; exists c; split; [reflexivity|exact Hop]).
    assert (Hw1 : wide (bkind c) -> JA p1).
    { intros Hw. exists 1%nat. split; [exact Hone|]. split; [unfold cdepth; rewrite Ec; destruct Ha as [Ha|[Ha _]]; lia|].
      exists (bkind c). split; [rewrite Er; reflexivity|exact Hw]. }
    destruct Ha as [Ha|[_ Hw]]; [|apply Hw1, Hw].
    (* depth >= 2: c has a last child x2 *)
    destruct (getAt_le d 2 (root0 [c]) x Ha Hx) as (x2 & Hx2).
    change (getAt 2 (root0 [c])) with (match lastBlock c with Some y => Some y | None => None end) in Hx2.
    destruct (lastBlock c) as [y|] eqn:El; [|discriminate]. inversion Hx2; subst x2.
    destruct (cc_lastBlock c y cc_c El) as [_ Hcan].
    unfold canContain in Hcan.
    destruct (Z.eqb_spec (bkind c) documentKind) as [E|N1]; [apply Hw1; left; exact E|].
    destruct (Z.eqb_spec (bkind c) ListKind) as [E|N2].
    - apply Z.eqb_eq in Hcan. exists 2%nat. split; [exact Hone|]. split; [unfold cdepth; rewrite Ec; lia|].
      exists (bkind y). split; [rewrite Er; unfold kindAt; change (getAt 2 (root0 [c])) with (match lastBlock c with Some y => Some y | None => None end); rewrite El; reflexivity|].
      right. right. exact Hcan.
    - destruct (Z.eqb_spec (bkind c) ListItemKind) as [E|N3]; [apply Hw1; right; right; exact E|].
      destruct (Z.eqb_spec (bkind c) BlockQuoteKind) as [E|N4]; [apply Hw1; right; left; exact E|discriminate].
  Qed.

  Theorem lineB_nolist st : bkind c <> ListKind -> (st = stDescendTerminated -> hasMatch (bkind c) = true) ->
    (bkind c = ParagraphKind -> forall h rest, fst (fst (processLine st [c] T src)) = h :: rest -> bkind h <> LinkReferenceDefinitionKind) ->
    closedAt T (processLine st [c] T src) -> processLine st [c] T src = processLine 0 L T src.
  Proof.
    intros Hnl Hst Hnr Hcl. rewrite processLine_Q. rewrite processLine_fin in Hcl, Hnr |- *.
    change (resetLP st [c] T src) with (ReparseDesc.p0 src T c st) in *.
    pose proof (descend_class src T c Hop cc_c HT st) as HD.
    pose proof (GI_descend_loop (bheight (root (P 0 st))) (P 0 st) O (GI_P 0 st ltac:(lia)) eq_refl) as HG.
    change (descend_loop (bheight (root (P 0 st))) (P 0 st) 0) with (descendOpenBlocks (ReparseDesc.p0 src T c st)) in HG.
    destruct (descendOpenBlocks (ReparseDesc.p0 src T c st)) as [am p1]. cbn [fst snd] in *.
    destruct HD as [Hm Ea E1|y Es Ek Eb Hl|c' Es Ek Ho|Ea E1|Hk Ea E1 Hb|Hk E1 _|Ha Hnp Ea Es Er Ec Ev HC|d Es Er Ec Ha Ev HC].
    - (* no match rule *)
      subst am p1. rewrite p0_P in *. destruct (Z.eq_dec st stDescendTerminated) as [E|N]; [rewrite (Hst E) in Hm; discriminate|].
      apply run_U; assumption.
    - (* c ended at the end of the line *)
      exfalso. unfold fin in Hcl. rewrite Es in Hcl. cbn in Hcl. destruct Hcl as (h & rest & Eh & _ & Hb). cbn [fst] in Eh. rewrite Ek in Eh.
      inversion Eh; subst h. pose proof len_ln_pos. change (ReparseDesc.ln src T) with ln in *. lia.
    - exfalso. unfold fin in Hcl. rewrite Es in Hcl. cbn in Hcl. destruct Hcl as (h & rest & Eh & Hc & _). cbn [fst] in Eh. rewrite Ek in Eh.
      inversion Eh; subst h. congruence.
    - subst am p1. rewrite pd_P in *. apply run_U; [discriminate|assumption].
    - subst am p1. rewrite pd_P in *. apply run_MP; [exact Hk|discriminate|exact (Hnr Hk)|exact Hcl].
    - contradiction.
    - exfalso. subst am. apply (run_leaf p1 Ha Hnp Es Er Ec); [|exact Hcl]. destruct Ev as (_ & E & _). exact E.
    - exfalso. apply (dead_run am p1); [|rewrite Es; discriminate|destruct Ev as (_ & E & _); exact E|exact Hcl].
      split; [exact HG|]. split; [exact HC|]. apply (anch_of d); [exact Er|exact Ec|exact Ha|apply HG].
  Qed.
End LineB.
