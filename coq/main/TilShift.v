From Coq Require Import List ZArith Lia Bool.
Import ListNotations.
Require Import Base Tree Rdr Link Collect Html Recog LP Rules Starts Driver Render L2Kind L2CC GramDefs GramTree
  Rec17 Rec18 L2BndS BSDef BSRdr BSTree BSShift TilBase TilDefs TilLP12.
Open Scope Z_scope.

(* ================= the invariant on the root children, relative to the buffer ================= *)

Definition KS (b : bytes) (m : Z) (ch : list block) : Prop :=
  (forall c, In c ch -> 0 <= bend c -> good b (bend c)) /\
  (forall c, In c (removelast ch) -> isOpen c = false) /\
  (forall c, lastL ch = Some c -> isOpen c = true -> bkind c <> SetextHeadingKind) /\
  (forall c, lastL ch = Some c -> isOpen c = false -> blankR b (bend c) m) /\
  (forall c, lastL ch = Some c -> isOpen c = true -> bkind c = ParagraphKind ->
     exists m', PIk b m' (bik c) /\ m' <= m /\ blankR b m' m).

(* ---- moving between two byte strings that agree below n ---- *)
Section Transfer.
  Variables (s s' : bytes) (n : Z).
  Hypothesis Hgood : forall x, x <= n -> good s x -> good s' x.
  Hypothesis Hat : forall i, i < n -> at_ s' i = at_ s i.
  Hypothesis Hlen : n <= len s'.

  Lemma blankR_tr a c : c <= n -> blankR s a c -> blankR s' a c.
  Proof. intros Hc H i Hi. rewrite Hat by lia. apply H, Hi. Qed.
  Lemma piOK_tr u : iend u <= n -> piOK s u -> piOK s' u.
  Proof.
    intros He (A & B & C & D & E & F). split; [exact A|]. split; [exact B|]. split; [exact C|]. split; [lia|]. split; [apply Hgood; assumption|].
    intros Hk. destruct (F Hk) as [F1 F2]. split; [exact F1|]. rewrite Hat by lia. exact F2.
  Qed.
  Lemma pch_tr : forall ik lo, (forall u, In u ik -> iend u <= n) -> pch s lo ik -> pch s' lo ik.
  Proof.
    induction ik as [|u r IH]; intros lo Hn H; [exact I|]. cbn [pch] in *. destruct H as (A & B & C & D & E).
    assert (Hu : iend u <= n) by (apply Hn; left; reflexivity).
    assert (Hs : istart u < iend u) by apply D.
    split; [exact A|]. split; [apply blankR_tr; [lia|exact B]|]. split; [apply Hgood; [lia|exact C]|].
    split; [apply piOK_tr; assumption|]. apply IH; [intros v Hv; apply Hn; right; exact Hv|exact E].
  Qed.
  Lemma PIk_tr m ik : (forall u, In u ik -> iend u <= n) -> PIk s m ik -> PIk s' m ik.
  Proof.
    destruct ik as [|u r]; [intros; exact I|]. intros Hn (A & B & C). split; [apply piOK_tr; [apply Hn; left; reflexivity|exact A]|].
    split; [apply pch_tr; [intros v Hv; apply Hn; right; exact Hv|exact B]|exact C].
  Qed.
End Transfer.

Lemma pch_iend_le s : forall ik lo, pch s lo ik -> forall u, In u ik -> iend u <= lastE lo ik.
Proof.
  induction ik as [|v r IH]; intros lo H u Hu; [destruct Hu|]. cbn [pch lastE] in *. destruct H as (A & B & C & D & E).
  destruct Hu as [<-|Hu]; [apply (lastE_ge s r _ E)|apply (IH _ E u Hu)].
Qed.
Lemma PIk_iend_le s m ik : PIk s m ik -> forall u, In u ik -> iend u <= m.
Proof.
  destruct ik as [|v r]; [intros _ u []|]. intros (A & B & C) u [<-|Hu]; rewrite <- C; [apply (lastE_ge s r _ B)|apply (pch_iend_le s r _ B u Hu)].
Qed.
Lemma PIk_iend_len s m ik : PIk s m ik -> forall u, In u ik -> iend u <= len s.
Proof.
  destruct ik as [|v r]; [intros _ u []|]. intros (A & B & C) u [<-|Hu]; [apply A|].
  clear A C. revert B. generalize (iend v). induction r as [|w r IH]; intros lo B; [destruct Hu|]. cbn [pch] in B. destruct B as (_ & _ & _ & D & E).
  destruct Hu as [<-|Hu]; [apply D|apply (IH Hu _ E)].
Qed.

(* into and out of the part of the buffer read so far *)
Lemma KIn_of_KS b ls bi ch : 0 <= ls <= bi -> bi <= len b -> KS b ls ch ->
  (forall c, lastL ch = Some c -> isOpen c = true) -> (forall c, In c ch -> bend c <= ls) -> KIn (upto b bi) ls ch.
Proof.
  intros Hls Hbi (A & B & C & D & E) Ho Hb.
  assert (Hl : len (upto b bi) = bi) by (apply len_upto; lia).
  assert (Hg : forall x, x <= bi -> good b x -> good (upto b bi) x) by (intros x Hx; apply good_upto_of; exact Hx).
  assert (Ha : forall i, i < bi -> at_ (upto b bi) i = at_ b i) by (intros i Hi; apply at_upto_lt; exact Hi).
  split; [|split; [exact B|split; [exact Ho|split]]].
  - intros c Hc H0. apply Hg; [specialize (Hb c Hc); lia|apply A; assumption].
  - intros c Hc. apply C; [exact Hc|apply Ho, Hc].
  - intros c Hc Hk. destruct (E c Hc (Ho c Hc) Hk) as (m & P1 & P2 & P3). exists m. split; [|split; [exact P2|]].
    + apply (PIk_tr b (upto b bi) bi Hg Ha ltac:(lia)); [|exact P1]. intros u Hu. pose proof (PIk_iend_le b m _ P1 u Hu). lia.
    + apply (blankR_tr b (upto b bi) bi Ha); [lia|exact P3].
Qed.
Lemma KS_of_KOut b bi ch : 0 <= bi <= len b -> LBd b bi -> KOut (upto b bi) ch -> (forall c, In c ch -> bend c <= bi) -> KS b bi ch.
Proof.
  intros Hbi HL (A & B & C & D & E) Hb.
  assert (Hl : len (upto b bi) = bi) by (apply len_upto; lia).
  assert (Hg : forall x, x <= bi -> good (upto b bi) x -> good b x) by (intros x Hx; apply good_of_upto; assumption).
  assert (Ha : forall i, i < bi -> at_ b i = at_ (upto b bi) i) by (intros i Hi; symmetry; apply at_upto_lt; exact Hi).
  split; [|split; [exact B|split; [exact C|split]]].
  - intros c Hc H0. apply Hg; [apply Hb, Hc|apply A; assumption].
  - intros c Hc Ho. specialize (D c Hc Ho). rewrite Hl in D. apply (blankR_tr (upto b bi) b bi Ha); [lia|exact D].
  - intros c Hc Ho Hk. destruct (E c Hc Ho Hk) as (m & P1 & P2 & P3). rewrite Hl in P2, P3. exists m. split; [|split; [exact P2|]].
    + apply (PIk_tr (upto b bi) b bi Hg Ha ltac:(lia)); [|exact P1]. intros u Hu. pose proof (PIk_iend_len _ m _ P1 u Hu). lia.
    + apply (blankR_tr (upto b bi) b bi Ha); [lia|exact P3].
Qed.

(* ---- cutting the front of the buffer at n ---- *)
Lemma ikind_shiftI n i : ikind (shiftI n i) = ikind i. Proof. destruct i; reflexivity. Qed.
Lemma istart_shiftI n i : istart (shiftI n i) = istart i + n. Proof. destruct i; reflexivity. Qed.
Lemma iend_shiftI n i : 0 <= iend i -> iend (shiftI n i) = iend i + n.
Proof. destruct i as [k s e ind r ks]. cbn [iend shiftI]. intros H. destruct (Z.leb_spec 0 e); [reflexivity|lia]. Qed.
Lemma blankR_cut b n a c : 0 <= n <= a -> blankR b a c -> blankR (from_ b n) (a - n) (c - n).
Proof. intros Hn H. apply blankR_from; [lia|lia|]. replace (n + (a - n)) with a by lia. replace (n + (c - n)) with c by lia. exact H. Qed.

Section Cut.
  Variables (b : bytes) (n : Z).
  Hypothesis Hn : 0 <= n <= len b.
  Lemma piOK_cut u : n <= istart u -> piOK b u -> piOK (from_ b n) (shiftI (- n) u).
  Proof.
    intros Hs (A & B & C & D & E & F). unfold piOK. rewrite ikind_shiftI, istart_shiftI, iend_shiftI by lia.
    split; [exact A|]. split; [lia|]. split; [lia|]. split; [rewrite len_from by lia; lia|].
    split; [replace (iend u + - n) with (iend u - n) by lia; apply good_from; [lia|exact E]|].
    intros Hk. destruct (F Hk) as [F1 F2]. split; [lia|]. rewrite at_from by lia. replace (n + (istart u + - n)) with (istart u) by lia. exact F2.
  Qed.
  Lemma pch_cut : forall ik lo, n <= lo -> pch b lo ik -> pch (from_ b n) (lo - n) (map (shiftI (- n)) ik) /\
    lastE (lo - n) (map (shiftI (- n)) ik) = lastE lo ik - n.
  Proof.
    induction ik as [|u r IH]; intros lo Hlo H; [split; [exact I|reflexivity]|]. cbn [map pch lastE] in *.
    destruct H as (A & B & C & D & E).
    assert (Hs : istart u < iend u) by apply D. assert (H0 : 0 <= istart u) by apply D.
    rewrite istart_shiftI, iend_shiftI by lia. replace (iend u + - n) with (iend u - n) by lia.
    destruct (IH (iend u) ltac:(lia) E) as [I1 I2].
    split; [|exact I2]. split; [lia|]. split; [replace (istart u + - n) with (istart u - n) by lia; apply blankR_cut; [lia|exact B]|].
    split; [replace (istart u + - n) with (istart u - n) by lia; apply good_from; [lia|exact C]|].
    split; [apply piOK_cut; [lia|exact D]|exact I1].
  Qed.
  Lemma PIk_cut m ik : (forall u, In u ik -> n <= istart u) -> PIk b m ik -> PIk (from_ b n) (m - n) (map (shiftI (- n)) ik).
  Proof.
    destruct ik as [|u r]; [intros; exact I|]. intros Hs (A & B & C). cbn [map PIk].
    assert (Hu : n <= istart u) by (apply Hs; left; reflexivity).
    assert (Hse : istart u < iend u) by apply A. assert (H0 : 0 <= istart u) by apply A.
    rewrite iend_shiftI by lia. replace (iend u + - n) with (iend u - n) by lia.
    destruct (pch_cut r (iend u) ltac:(lia) B) as [I1 I2].
    split; [apply piOK_cut; assumption|]. split; [exact I1|]. rewrite I2, C. reflexivity.
  Qed.
End Cut.

Lemma lastL_map (g : block -> block) l : lastL (map g l) = option_map g (lastL l).
Proof. unfold lastL. rewrite <- map_rev. destruct (rev l); reflexivity. Qed.
Lemma removelast_map (g : block -> block) : forall l, removelast (map g l) = map g (removelast l).
Proof. induction l as [|x [|y r] IH]; [reflexivity|reflexivity|]. change (map g (x :: y :: r)) with (g x :: map g (y :: r)).
  change (removelast (g x :: map g (y :: r))) with (g x :: removelast (map g (y :: r))). rewrite IH. reflexivity. Qed.
Lemma bkind_shiftB m c : bkind (shiftB m c) = bkind c. Proof. destruct c; reflexivity. Qed.
Lemma bik_shiftB m c : bik (shiftB m c) = map (shiftI m) (bik c). Proof. destruct c; reflexivity. Qed.
Lemma isOpen_shiftB n c : (0 <= bend c -> n <= bend c) -> isOpen (shiftB (- n) c) = isOpen c.
Proof.
  intros H. unfold isOpen. rewrite bend_shiftB. destruct (Z.leb_spec 0 (bend c)) as [L|L]; [|reflexivity].
  specialize (H L). destruct (Z.ltb_spec (bend c + - n) 0); destruct (Z.ltb_spec (bend c) 0); try reflexivity; lia.
Qed.

Lemma KS_cut b m n rest : 0 <= n <= m -> m <= len b -> KS b m rest ->
  (forall c, In c rest -> n <= bstart c /\ (0 <= bend c -> bstart c <= bend c) /\
     (isOpen c = true -> bkind c = ParagraphKind -> forall u, In u (bik c) -> bstart c <= istart u)) ->
  KS (from_ b n) (m - n) (map (shiftB (- n)) rest).
Proof.
  intros Hn Hm (A & B & C & D & E) Hord.
  assert (Hop : forall c, In c rest -> isOpen (shiftB (- n) c) = isOpen c).
  { intros c Hc. apply isOpen_shiftB. intros H0. destruct (Hord c Hc) as (O1 & O2 & _). specialize (O2 H0). lia. }
  split; [|split; [|split; [|split]]].
  - intros c' Hc' H0. apply in_map_iff in Hc'. destruct Hc' as (c & <- & Hc). rewrite bend_shiftB in *.
    destruct (Z.leb_spec 0 (bend c)) as [L|L]; [|lia]. destruct (Hord c Hc) as (O1 & O2 & _). specialize (O2 L).
    replace (bend c + - n) with (bend c - n) by lia. apply good_from; [lia|apply A; assumption].
  - intros c' Hc'. rewrite removelast_map in Hc'. apply in_map_iff in Hc'. destruct Hc' as (c & <- & Hc).
    rewrite (Hop c (removelast_In _ _ Hc)). apply B, Hc.
  - intros c' Hc' Ho'. rewrite lastL_map in Hc'. destruct (lastL rest) as [c|] eqn:El; [|discriminate]. inversion Hc'; subst c'.
    rewrite bkind_shiftB. rewrite (Hop c (lastL_In _ _ El)) in Ho'. apply (C c eq_refl Ho').
  - intros c' Hc' Ho'. rewrite lastL_map in Hc'. destruct (lastL rest) as [c|] eqn:El; [|discriminate]. inversion Hc'; subst c'.
    rewrite (Hop c (lastL_In _ _ El)) in Ho'. rewrite bend_shiftB.
    assert (L : 0 <= bend c) by (unfold isOpen in Ho'; apply Z.ltb_ge in Ho'; exact Ho').
    destruct (Z.leb_spec 0 (bend c)); [|lia]. destruct (Hord c (lastL_In _ _ El)) as (O1 & O2 & _). specialize (O2 L).
    replace (bend c + - n) with (bend c - n) by lia. apply blankR_cut; [lia|apply (D c eq_refl Ho')].
  - intros c' Hc' Ho' Hk'. rewrite lastL_map in Hc'. destruct (lastL rest) as [c|] eqn:El; [|discriminate]. inversion Hc'; subst c'.
    rewrite (Hop c (lastL_In _ _ El)) in Ho'. rewrite bkind_shiftB in Hk'. rewrite bik_shiftB.
    destruct (E c eq_refl Ho' Hk') as (m' & P1 & P2 & P3). destruct (Hord c (lastL_In _ _ El)) as (O1 & _ & O3).
    destruct (bik c) as [|u r] eqn:Eb.
    + exists (m - n). split; [exact I|]. split; [lia|apply blankR_empty; lia].
    + assert (Hm' : n <= m').
      { pose proof (PIk_iend_le b m' _ P1 u (or_introl eq_refl)) as X. assert (Y : istart u < iend u) by apply P1.
        specialize (O3 Ho' Hk' u (or_introl eq_refl)). lia. }
      exists (m' - n). split; [|split; [lia|apply blankR_cut; [lia|exact P3]]].
      apply PIk_cut; [lia| |exact P1]. intros v Hv. specialize (O3 Ho' Hk' v Hv). lia.
Qed.
