(* QFull3.v -- T64: from the core of the inline simulation (QInlCoreDef.parseInlines_quote_core_statement) to QFull1.LeafSimAt D:
     leaf_hyps        every leaf of a tab-free document that satisfies bikOK' satisfies QInlCoreDef.LeafHyps (no vacuity: all fields are
                      proved from the block layer);
     LeafSim_of_core  parseInlines_quote_core_statement -> LeafSimAt D   (the leaf with a single empty entry is handled directly);
     parseFull_quote_of_core / renderDoc_quote_of_core  the two statements of the task from the core. *)
From Coq Require Import List ZArith Lia Bool.
Import ListNotations.
Require Import Base Tree LP Rules Driver Inl3a Inl3e Render SpanHypDef ShapesR InlineShapes EntDefs QuoteSimMap QuoteSimDefs QuoteSimDrv1
  QCutsDef QIRdrBase QInlDefs QInlBytesEmph QInlBytesInst QInlHtml QInlGapParen QInlCoreDef QFullDefs QFull1 QFull2 QFull3a QFull3b QFull3c QFull3d QRender.
Open Scope Z_scope.

Lemma spOK_In src : forall sp u, spOK src sp = true -> In u sp -> istart u < iend u.
Proof.
  induction sp as [|i r IH]; intros u H Hu; [destruct Hu|]. destruct (spOK_cons src i r H) as (_ & A & _ & _ & _ & Hr).
  destruct Hu as [<-|Hu]; [exact A|apply IH; assumption].
Qed.

(* the image of an Unparsed entry without children *)
Lemma entry_img D o u : 0 <= o -> ikind u = UnparsedKind -> ikids u = [] -> 0 <= istart u <= iend u ->
  (forall x, istart u <= x < iend u -> sgO D o x = sgO D o (istart u) + (x - istart u)) ->
  qI D (shiftI o u) = [mvS (sgO D o) u].
Proof.
  intros Ho Hk Hn Hse Ht. destruct u as [k s e ind rf ks]. cbn [ikind ikids istart iend] in *. subst k ks.
  cbn [shiftI map]. destruct (Z.leb_spec 0 e) as [_|X]; [|lia]. cbn [qI flat_map]. cbv zeta.
  change (UnparsedKind =? TextKind) with false. cbn [andb]. unfold mvS. cbn [istart mvI map].
  pose proof (sgO_sigma D o Ho s ltac:(lia)) as Es.
  assert (E1 : sigma D (s + o) = s + (sgO D o s - s)) by (replace (s + o) with (o + s) by lia; lia).
  assert (E2 : epsilon D (s + o) (e + o) = e + (sgO D o s - s)).
  { unfold epsilon. destruct (Z.ltb_spec (e + o) 0); [lia|]. destruct (Z.ltb_spec (s + o) (e + o)) as [L|L].
    - pose proof (Ht (e - 1) ltac:(lia)) as E. rewrite (sgO_sigma D o Ho (e - 1)) in E by lia.
      replace (e + o - 1) with (o + (e - 1)) by lia. lia.
    - replace (s + o) with (o + s) by lia. lia. }
  rewrite E1, E2. reflexivity.
Qed.
Lemma entries_img D o : 0 <= o -> forall l, Forall (fun u => ikind u = UnparsedKind /\ ikids u = [] /\ 0 <= istart u <= iend u /\
    (forall x, istart u <= x < iend u -> sgO D o x = sgO D o (istart u) + (x - istart u))) l ->
  flat_map (qI D) (map (shiftI o) l) = map (mvS (sgO D o)) l.
Proof.
  intros Ho. induction 1 as [|u r (A & B & C & T) _ IH]; [reflexivity|]. cbn [map flat_map]. rewrite (entry_img D o u Ho A B C T), IH. reflexivity.
Qed.
Lemma bik_img D o b : bik (qB D (shiftB o b)) = flat_map (qI D) (map (shiftI o) (bik b)).
Proof. destruct b; reflexivity. Qed.
Lemma bend_img D o b : 0 <= o -> 0 < bend b -> bend (qB D (shiftB o b)) = sgO D o (bend b - 1) + 1.
Proof.
  intros Ho Hb. destruct b as [k s e bk ik a n c l lb]. cbn [bend] in Hb. cbn [shiftB qB bend].
  destruct (Z.leb_spec 0 e); [|lia]. unfold epsB. destruct (Z.leb_spec (e + o) 0); [lia|].
  rewrite (sgO_sigma D o Ho (e - 1)) by lia. replace (o + (e - 1)) with (e + o - 1) by lia. reflexivity.
Qed.

Section Doc.
  Variable D : bytes.
  Hypothesis HT : tabFree D.
  Hypothesis Hne : D <> [].
  Notation roots := (fst (parseBlocks D)).
  Let HK : KidsNilAt D := KidsNil_holds D HT Hne.

  Lemma leaf_entries_facts r b : In r roots -> subB b (rb_blk r) -> isLeafU b = true ->
    Forall (fun u => ikind u = UnparsedKind /\ ikids u = [] /\ 0 <= istart u <= iend u /\
       (forall x, istart u <= x < iend u -> sgO D (rb_start r) x = sgO D (rb_start r) (istart u) + (x - istart u))) (bik b).
  Proof.
    intros Hr Hb HL. apply Forall_forall. intros u Hu.
    destruct (leaf_kind D HT r b Hr Hb HL) as [_ HU]. rewrite Forall_forall in HU.
    pose proof (leaf_kidless D HT r b Hr Hb HL) as HN. rewrite Forall_forall in HN.
    destruct (leaf_bounds D HT Hne r b u Hr Hb HL Hu) as (B1 & B2 & _).
    split; [apply HU, Hu|]. split; [apply HN, Hu|]. split; [lia|]. apply (leaf_transl D HT Hne r b u Hr Hb HL Hu).
  Qed.

  Lemma leaf_hyps r b : In r roots -> subB b (rb_blk r) -> isLeafU b = true -> bikOK' (rb_src r) b = true ->
    LeafHyps (rb_src r) (quote D) (sgO D (rb_start r)) b (qB D (shiftB (rb_start r) b)).
  Proof.
    intros Hr Hb HL Hok.
    destruct (root_geom D HT r Hr) as (G1 & G2 & G3 & G4 & G5 & G6 & G7 & G8 & G9).
    set (o := rb_start r) in *. set (sD := rb_src r) in *.
    assert (EsD : sD = upto (from_ D o) (rb_end r - o)) by (exact G4).
    destruct (bikOK'_parts sD b Hok) as (Hsp & _).
    destruct (leaf_kind D HT r b Hr Hb HL) as [Hk HU]. rewrite Forall_forall in HU.
    assert (Hne' : bik b <> []).
    { unfold isLeafU in HL. apply andb_true_iff in HL. destruct HL as [HL _]. apply Z.ltb_lt in HL. intros E. rewrite E in HL. change (len (@nil inline)) with 0 in HL. lia. }
    assert (Hbb := leaf_block_bounds D HT r b Hr Hb). fold sD in Hbb. destruct Hbb as [Hbs Hbe].
    assert (Hend : 0 < bend b).
    { destruct (bik b) as [|u0 rest] eqn:Eb; [contradiction|].
      assert (Hu0 : In u0 (bik b)) by (rewrite Eb; left; reflexivity).
      destruct (leaf_bounds D HT Hne r b u0 Hr Hb HL Hu0) as (B1 & _ & _ & _ & B5).
      pose proof (spOK_In sD (bik b) u0 ltac:(rewrite Eb; exact Hsp) Hu0). lia. }
    constructor.
    - (* SGood *)
      rewrite EsD. apply (SGood_region D (QFull2.D_nul D HT) o (rb_end r - o)); [exact G1|lia|lia|].
      replace (o + (rb_end r - o)) with (rb_end r) by lia. destruct G8 as [G8|G8]; [right; exact G8|left; exact G8].
    - (* GapSp *)
      rewrite EsD. apply (GapSp_region_whole D o (rb_end r - o)); [exact G1|lia|lia|exact G7].
    - (* GapNoParen *)
      apply (GapNoParen_quote D o sD G1); [lia|exact G9].
    - exact Hne'.
    - (* gsp *)
      apply Forall_forall. intros u Hu. destruct (leaf_bounds D HT Hne r b u Hr Hb HL Hu) as (B1 & B2 & B3 & _). fold sD in B3.
      pose proof (spOK_In sD (bik b) u Hsp Hu) as Hlt.
      split; [exact B1|]. split; [exact Hlt|]. split; [exact B3|]. split; [apply (leaf_transl D HT Hne r b u Hr Hb HL Hu)|]. split; [apply HU, Hu|].
      destruct Hk as [Hk|[Hk|Hk]].
      + destruct (para_entry D HT Hne r b u Hr Hb HL (or_introl Hk) Hu) as [_ [E|E]]; [right; left; exact E|left; exact E].
      + destruct (para_entry D HT Hne r b u Hr Hb HL (or_intror Hk) Hu) as [_ [E|E]]; [right; left; exact E|left; exact E].
      + destruct (atx_entry D HT Hne r b Hr Hb HL Hk) as (u1 & E1 & _). right. right. exists []. rewrite E1 in Hu |- *. destruct Hu as [<-|[]]. reflexivity.
    - exact Hok.
    - apply (leaf_entriesOKX D HK r b Hr Hb HL).
    - exact Hbs.
    - split; [exact Hend|exact Hbe].
    - (* the byte behind the last entry *)
      intros pre u E Hlt N10.
      assert (Hu : In u (bik b)) by (rewrite E; apply in_or_app; right; left; reflexivity).
      destruct Hk as [Hk|[Hk|Hk]].
      + destruct (para_entry D HT Hne r b u Hr Hb HL (or_introl Hk) Hu) as [_ [X|X]]; [fold sD in X; lia|contradiction].
      + destruct (para_entry D HT Hne r b u Hr Hb HL (or_intror Hk) Hu) as [_ [X|X]]; [fold sD in X; lia|contradiction].
      + destruct (atx_entry D HT Hne r b Hr Hb HL Hk) as (u1 & E1 & A). rewrite E1 in Hu. destruct Hu as [<-|[]].
        apply A; [|exact Hlt]. apply (spOK_In sD (bik b) u1 Hsp). rewrite E1. left. reflexivity.
    - apply (leaf_kidless D HT r b Hr Hb HL).
    - rewrite bik_img. apply (entries_img D o G1). apply (leaf_entries_facts r b Hr Hb HL).
    - apply (bend_img D o b G1 Hend).
  Qed.

  (* ---- the leaf simulation, given the core ---- *)
  Hypothesis Core : parseInlines_quote_core_statement.

  Theorem LeafSim_of_core : LeafSimAt D.
  Proof.
    intros r b Hr Hb HL. destruct (root_geom D HT r Hr) as (G1 & _ & _ & _ & _ & _ & _ & _ & G9).
    destruct (leaf_shape D HT Hne r b Hr Hb HL) as [Hok|He].
    - rewrite (Core _ _ _ b _ (refsOf roots) (leaf_hyps r b Hr Hb HL Hok)).
      apply (qI3_shift_list D (rb_src r) (rb_start r) G1 G9). apply (leaf_valid D HK r b _ Hr Hb HL).
    - (* a single empty entry: the inline parser returns the empty forest on both sides *)
      rewrite (parseInlines_emptyOne (rb_src r) _ b He). cbn [map flat_map].
      apply parseInlines_emptyOne. rewrite bik_img, (entries_img D (rb_start r) G1 _ (leaf_entries_facts r b Hr Hb HL)).
      destruct (bik b) as [|u [|v rest]]; try discriminate He. cbn [emptyOne] in He. cbn [map emptyOne].
      apply andb_true_iff in He. destruct He as [He He3]. apply andb_true_iff in He. destruct He as [He1 He2]. apply Z.eqb_eq in He2.
      destruct u as [k s e ind rf ks]. cbn [ikind istart iend ikids] in *. unfold mvS. cbn [istart mvI ikind iend ikids].
      rewrite He1. cbn [andb]. destruct ks; [|discriminate He3]. cbn [map]. rewrite He2. rewrite Z.eqb_refl. reflexivity.
  Qed.

  Theorem parseFull_quote_of_core_at : exists lb, parseFull (quote D) = ([quoteRoot D lb (quoteKids3 D (fst (parseFull D)))], 0).
  Proof. apply (parseFull_quote_of D HT Hne LeafSim_of_core (EntSame_holds D HT Hne) HK). Qed.
End Doc.

Theorem parseFull_quote_of_core : parseInlines_quote_core_statement -> parseFull_quote_statement.
Proof. intros Core D HT Hne. apply (parseFull_quote_of_core_at D HT Hne Core). Qed.
Print Assumptions parseFull_quote_of_core.

Theorem renderDoc_quote_of_core : parseInlines_quote_core_statement -> renderDoc_quote_statement.
Proof. intros Core. apply renderDoc_quote_of_tree_statement, parseFull_quote_of_core, Core. Qed.
Print Assumptions renderDoc_quote_of_core.
