From Coq Require Import List ZArith Lia Bool.
Import ListNotations.
Require Import Base Tree Rdr Link Collect Html Recog LP Rules Starts Driver Rec16 Rec17 Rec18 L2Kind L2CC ShEnv EolCRLFSimTree
  EolFinalDefs EolFinalSimBytes EolFinalSimTree.
Open Scope Z_scope.

(* C14 (i), final newline: the single-run invariant of the last line before its text is added: code blocks hold no
   SoftLineBreak entry and no entry of a paragraph ends at L (qB, EolFinalSimTree), for inputs without '['. *)
Section Q.
  Variable L : Z.
  Notation qb := (qB L).
  Definition QP (p : lp) : Prop := qb (root p) = true /\ ~ In 91 (source p).

  Lemma QP_same p p' : same_tree p p' -> envOf p' = envOf p -> QP p -> QP p'.
  Proof. intros [E _] Ee [A B]. unfold envOf in Ee. injection Ee as E1 _ _. split; [rewrite E; exact A|rewrite E1; exact B]. Qed.
  Lemma QP_opened p : QP p -> QP (if state p =? stOpening then withState p stOpenMatched else p).
  Proof. intros H. destruct (_ =? _); exact H. Qed.
  Lemma QP_advance p n : QP p -> QP (advance p n). Proof. apply QP_same; [apply same_advance|apply env_advance]. Qed.
  Lemma QP_consumeLine p : QP p -> QP (consumeLine p). Proof. apply QP_same; [apply same_consumeLine|apply env_consumeLine]. Qed.
  Lemma QP_consumeIndent p n : QP p -> QP (consumeIndent p n). Proof. apply QP_same; [apply same_consumeIndent|apply env_consumeIndent]. Qed.
  Lemma QP_withCont p c : QP p -> QP (withCont p c). Proof. exact (fun H => H). Qed.
  Lemma QP_withState p c : QP p -> QP (withState p c). Proof. exact (fun H => H). Qed.
  Lemma QP_panic p c : QP p -> QP (panic p c). Proof. exact (fun H => H). Qed.

  Lemma qb_updAt_at f d r : qb r = true -> (forall x, getAt d r = Some x -> qb x = true -> qb (f x) = true) -> qb (updAt d f r) = true.
  Proof. apply (allB_updAt_at (qP L) (qP_kids L)). Qed.
  Lemma QP_updCont_at p f : QP p -> (forall x, getAt (cdepth p) (root p) = Some x -> qb x = true -> qb (f x) = true) -> QP (updCont p f).
  Proof. intros [A B] Hf. split; [|exact B]. unfold updCont. cbn [root withRoot setLP]. apply qb_updAt_at; assumption. Qed.
  Lemma QP_updCont p f : QP p -> (forall x, qb x = true -> qb (f x) = true) -> QP (updCont p f).
  Proof. intros H Hf. apply QP_updCont_at; [exact H|]. intros x _. apply Hf. Qed.

  Lemma qb_closeBlock src e fuel b : ~ In 91 src -> qb b = true -> forallb qb (closeBlock fuel src b e) = true.
  Proof. intros N H. apply (allB_closeBlock (qP L) (qP_kids L) (fun _ => True) (qP_end L) (qP_loose L) (qP_indented L) src e N I fuel b H). Qed.
  Lemma QP_closeLastChildAt p d e : QP p -> QP (closeLastChildAt p d e).
  Proof.
    intros [A B]. split; [|exact B]. unfold closeLastChildAt. cbn [root withRoot setLP]. apply qb_updAt_at; [exact A|].
    intros x _ Hx. destruct (lastBlock x) as [c|] eqn:El; [|exact Hx].
    apply (allB_set_lastBlocks (qP L) (qP_kids L)); [exact Hx|]. apply qb_closeBlock; [exact B|]. eapply allB_lastBlock; eassumption.
  Qed.
  Lemma QP_openBlock_up : forall fuel p kind, QP p -> QP (openBlock_up fuel p kind).
  Proof.
    induction fuel as [|f IH]; intros p kind H; [exact H|]. cbn [openBlock_up].
    destruct (canContain _ _); [exact H|]. destruct (cdepth p); [exact H|]. apply IH. apply (QP_closeLastChildAt p n (lineStart p) H).
  Qed.
  Lemma qb_newBlock k s : qb (newBlock k s) = true.
  Proof. unfold qB, newBlock. cbn [allB]. unfold qP. cbn [bik bkind nslbL forallb]. rewrite !orb_true_r. reflexivity. Qed.
  Lemma qb_append x y : qb x = true -> qb y = true -> qb (set_bkids x (bkids x ++ [y])) = true.
  Proof.
    intros Hx Hy. apply (allB_set_bkids (qP L) (qP_kids L)); [exact Hx|]. rewrite forallb_app. cbn [forallb]. fold qb. rewrite Hy.
    apply (allB_parts (qP L)) in Hx. destruct Hx as [_ Hx]. fold qb in Hx. rewrite Hx. reflexivity.
  Qed.
  Lemma QP_openBlock p kind : QP p -> QP (openBlock p kind).
  Proof.
    intros H. unfold openBlock. destruct (_ || _); [exact H|]. cbv zeta.
    match goal with |- QP (withCont ?q _) => change (QP q) end. apply QP_updCont.
    - apply QP_closeLastChildAt, QP_openBlock_up, QP_opened, H.
    - intros x Hx. apply qb_append; [exact Hx|apply qb_newBlock].
  Qed.
  Lemma QP_endBlock p : QP p -> QP (endBlock p).
  Proof.
    intros H. unfold endBlock. destruct (_ || _); [exact H|]. cbv zeta.
    destruct (cdepth _) eqn:Ed; [destruct (state p =? stOpening); exact H|].
    match goal with |- QP (withCont ?q _) => change (QP q) end. apply QP_closeLastChildAt, QP_opened, H.
  Qed.

  (* entries *)
  Lemma qb_add_ik x u : qb x = true -> ikind u <> SoftLineBreakKind -> bkind x <> ParagraphKind -> qb (set_bik x (bik x ++ [u])) = true.
  Proof.
    intros H Hu Hk. apply (allB_parts (qP L)) in H. destruct H as [H1 H2]. unfold qB. rewrite allB_eq.
    replace (bkids (set_bik x (bik x ++ [u]))) with (bkids x) by (destruct x; reflexivity). rewrite H2, andb_true_r.
    unfold qP in *. replace (bkind (set_bik x (bik x ++ [u]))) with (bkind x) by (destruct x; reflexivity).
    replace (bik (set_bik x (bik x ++ [u]))) with (bik x ++ [u]) by (destruct x; reflexivity).
    apply andb_true_iff in H1. destruct H1 as [A _]. apply andb_true_iff. split.
    - destruct (negb (isCode (bkind x))); [reflexivity|]. cbn [orb] in *. rewrite nslbL_app, A. cbn.
      replace (ikind u =? SoftLineBreakKind) with false by (symmetry; apply Z.eqb_neq; exact Hu). reflexivity.
    - replace (bkind x =? ParagraphKind) with false by (symmetry; apply Z.eqb_neq; exact Hk). reflexivity.
  Qed.
  Lemma ikind_info src a b : ikind (parseInfoString src a b) = InfoStringKind.
  Proof. unfold parseInfoString. destruct (infoString_loop _ src a b a []). reflexivity. Qed.

  Lemma QP_collectInline p kind n K : QP p -> ckind p K -> K <> ParagraphKind -> kind <> SoftLineBreakKind -> QP (collectInline p kind n).
  Proof.
    intros H Hc HK Hk. unfold collectInline. destruct (_ =? stDescendTerminated); [exact H|]. cbv zeta.
    set (p0 := if state p =? stOpening then withState p stOpenMatched else p).
    assert (H0 : QP p0) by (apply QP_opened, H).
    assert (C0 : ckind p0 K) by (eapply ckind_same; [apply same_opened|exact Hc]).
    set (p1 := if 0 <? indent p0 then _ else p0).
    assert (H1 : QP p1 /\ ckind p1 K).
    { unfold p1. destruct (0 <? indent p0); [|tauto]. split.
      - apply QP_updCont_at; [apply QP_advance, H0|]. intros x Hx Hq. apply qb_add_ik; [exact Hq|discriminate|].
        rewrite (ckind_same p0 (advance p0 _) K (same_advance p0 _) C0 x Hx). exact HK.
      - apply ckind_updCont; [intros b; apply bkind_set_bik|]. eapply ckind_same; [apply same_advance|exact C0]. }
    destruct H1 as [H1 C1].
    apply QP_updCont_at; [apply QP_advance, H1|]. intros x Hx Hq. apply qb_add_ik; [exact Hq| |].
    - destruct (kind =? InfoStringKind); [rewrite ikind_info; discriminate|exact Hk].
    - rewrite (ckind_same p1 (advance p1 n) K (same_advance p1 n) C1 x Hx). exact HK.
  Qed.

  (* match rules *)
  Lemma QP_matchRule p : QP p -> QP (snd (matchRule p)).
  Proof.
    intros H. unfold matchRule. cbv zeta.
    destruct (_ || _); [exact H|].
    destruct (_ =? ListItemKind).
    { unfold matchListItem. destruct (isRestBlank p); [destruct (negb _); [exact H|apply QP_consumeIndent, H]|].
      destruct (_ <=? _); [apply QP_consumeIndent, H|exact H]. }
    destruct (_ =? BlockQuoteKind).
    { unfold matchBlockQuote. cbv zeta. destruct (_ <=? _); [exact H|]. destruct (negb _); [exact H|]. cbn [snd].
      unfold eatQuoteMarker. cbv zeta. destruct (0 <? _); repeat first [apply QP_consumeIndent|apply QP_advance]; exact H. }
    destruct (_ =? FencedCodeBlockKind).
    { unfold matchFenced. cbv zeta. destruct (if _ <? _ then _ else false); cbn [snd]; [apply QP_consumeLine|apply QP_consumeIndent]; exact H. }
    destruct (_ =? IndentedCodeBlockKind).
    { unfold matchIndented. cbv zeta. destruct (_ <? _); [destruct (negb _)|]; cbn [snd]; try apply QP_consumeIndent; exact H. }
    destruct (containerKind p =? HTMLBlockKind) eqn:EH.
    { unfold matchHTML. destruct (htmlEnd _ _); [|exact H]. destruct (isRestBlank _); [exact H|]. cbn [snd]. apply QP_consumeLine.
      apply (QP_collectInline p RawHTMLKind _ (containerKind p)); [exact H|apply ckind_self| |discriminate].
      apply Z.eqb_eq in EH. rewrite EH. discriminate. }
    exact H.
  Qed.
  Lemma QP_descend_loop : forall fuel p d, QP p -> QP (snd (descend_loop fuel p d)).
  Proof.
    induction fuel as [|f IH]; intros p d H; [exact H|]. cbn [descend_loop]. cbv zeta.
    destruct (getAt (S d) (root p)) as [c|]; [|exact H].
    destruct (negb (isOpen c)); [exact H|]. destruct (negb (hasMatch _)); [exact H|].
    pose proof (QP_matchRule (withState (withCont p (Some (S d))) stDescending) H) as H2.
    destruct (matchRule _) as [ok p2]. cbn [snd] in H2.
    destruct (state p2 =? stDescendTerminated); [cbn [snd]; apply (QP_closeLastChildAt p2 d _ H2)|].
    destruct (negb ok); [exact H2|]. apply IH. exact H2.
  Qed.

  (* ---- block starts ---- *)
  Lemma qb_set_bn x v : qb (set_bn x v) = qb x. Proof. destruct x; reflexivity. Qed.
  Lemma qb_set_bchar x v : qb (set_bchar x v) = qb x. Proof. destruct x; reflexivity. Qed.
  Lemma qb_set_bindent x v : qb (set_bindent x v) = qb x. Proof. destruct x; reflexivity. Qed.
  Lemma qb_set_blast x v : qb (set_blast x v) = qb x. Proof. destruct x; reflexivity. Qed.
  Ltac chainq H :=
    repeat match goal with
    | |- QP (consumeLine _) => apply QP_consumeLine
    | |- QP (endBlock _) => apply QP_endBlock
    | |- QP (advance _ _) => apply QP_advance
    | |- QP (consumeIndent _ _) => apply QP_consumeIndent
    | |- QP (openBlock _ _) => apply QP_openBlock
    | |- QP (updCont _ _) => apply QP_updCont; [|intros ? ?; rewrite ?qb_set_bn, ?qb_set_bchar, ?qb_set_bindent; assumption]
    end;
    try exact H.

  Lemma QP_startBlockQuote p : QP p -> QP (startBlockQuote p).
  Proof. intros H. unfold startBlockQuote. cbv zeta. destruct (_ <=? _); [exact H|]. destruct (negb _); [exact H|]. destruct (0 <? _); chainq H. Qed.
  Lemma QP_startATX p : st_open p -> QP p -> QP (startATX p).
  Proof.
    intros Hs H. unfold startATX. cbv zeta. destruct (_ <=? _); [exact H|].
    destruct (parseATXHeading _) as [[level cs] ce]. destruct (level <? 1); [exact H|].
    apply QP_endBlock, QP_consumeLine.
    apply (QP_collectInline _ _ _ ATXHeadingKind); [chainq H| |discriminate|discriminate].
    eapply ckind_same; [apply same_advance|]. apply ckind_updCont; [intros b; destruct b; reflexivity|].
    apply ckind_openBlock, st_open_consumeIndent, Hs.
  Qed.
  Lemma QP_startFenced p : st_open p -> QP p -> QP (startFenced p).
  Proof.
    intros Hs H. unfold startFenced. cbv zeta. destruct (_ <=? _); [exact H|].
    destruct (parseCodeFence _) as [[[fc fnn] is_] ie]. destruct (fnn =? 0); [exact H|].
    apply QP_consumeLine. destruct (spanValid _); [|chainq H].
    apply (QP_collectInline _ _ _ FencedCodeBlockKind); [chainq H| |discriminate|discriminate].
    eapply ckind_same; [apply same_advance|].
    apply ckind_updCont; [intros b; destruct b; reflexivity|]. apply ckind_updCont; [intros b; destruct b; reflexivity|].
    apply ckind_openBlock, st_open_consumeIndent, Hs.
  Qed.
  Lemma QP_startHTML p : st_open p -> QP p -> QP (startHTML p).
  Proof.
    intros Hs H. unfold startHTML. cbv zeta. destruct (_ <=? _); [exact H|]. destruct (negb _); [exact H|].
    destruct (_ <? 0); [exact H|]. destruct (negb _ && _); [exact H|]. destruct (htmlEnd _ _); [|chainq H].
    apply QP_endBlock, QP_consumeLine. apply (QP_collectInline _ _ _ HTMLBlockKind); [chainq H| |discriminate|discriminate].
    apply ckind_updCont; [intros b; destruct b; reflexivity|]. apply ckind_openBlock, Hs.
  Qed.
  Lemma qb_set_bkind_setext x : qb x = true -> qb (set_bkind x SetextHeadingKind) = true.
  Proof.
    intros H. apply (allB_parts (qP L)) in H. destruct H as [H1 H2]. unfold qB. rewrite allB_eq.
    replace (bkids (set_bkind x SetextHeadingKind)) with (bkids x) by (destruct x; reflexivity). rewrite H2, andb_true_r.
    destruct x; reflexivity.
  Qed.
  Lemma QP_startSetext p : QP p -> QP (startSetext p).
  Proof.
    intros H. unfold startSetext. cbv zeta. destruct (negb (containerKind p =? ParagraphKind)); [exact H|].
    do 3 (match goal with |- QP (if ?c then _ else _) => destruct c end; [exact H|]).
    apply QP_endBlock, QP_consumeLine. apply QP_updCont; [exact H|]. intros x Hx. rewrite qb_set_bn. apply qb_set_bkind_setext, Hx.
  Qed.
  Lemma QP_startThematic p : QP p -> QP (startThematic p).
  Proof. intros H. unfold startThematic. cbv zeta. destruct (_ <=? _); [exact H|]. destruct (_ <? 0); [exact H|]. chainq H. Qed.
  Lemma QP_startListItem p : QP p -> QP (startListItem p).
  Proof.
    intros H. unfold startListItem. cbv zeta. destruct (_ <=? _); [exact H|].
    destruct (parseListMarker _) as [[delim n] mend]. destruct (_ || _); [exact H|]. destruct (_ && _); [exact H|].
    match goal with |- context [endBlock ?X] => assert (H1 : QP (endBlock X)) end.
    { destruct (negb _ || negb _); chainq H. }
    match goal with |- context [endBlock ?X] => set (q := endBlock X) in * end.
    destruct (isRestBlank q); [chainq H1|].
    destruct (indent q <? 1); [chainq H1|]. destruct (4 <? indent q); chainq H1.
  Qed.
  Lemma QP_startIndented p : QP p -> QP (startIndented p).
  Proof. intros H. unfold startIndented. destruct (_ || _ || _); [exact H|]. chainq H. Qed.

  Definition startOKq (f : lp -> lp) : Prop := forall p, st_open p -> QP p -> QP (f p).
  Lemma blockStarts_okq : Forall startOKq blockStarts.
  Proof.
    unfold blockStarts.
    apply Forall_cons; [intros p Hs H; apply QP_startBlockQuote; assumption|].
    apply Forall_cons; [intros p Hs H; apply QP_startATX; assumption|].
    apply Forall_cons; [intros p Hs H; apply QP_startFenced; assumption|].
    apply Forall_cons; [intros p Hs H; apply QP_startHTML; assumption|].
    apply Forall_cons; [intros p Hs H; apply QP_startSetext; assumption|].
    apply Forall_cons; [intros p Hs H; apply QP_startThematic; assumption|].
    apply Forall_cons; [intros p Hs H; apply QP_startListItem; assumption|].
    apply Forall_cons; [intros p Hs H; apply QP_startIndented; assumption|].
    apply Forall_nil.
  Qed.
  Lemma QP_tryStarts : forall fs p, Forall startOKq fs -> QP p -> QP (snd (tryStarts fs p)).
  Proof.
    induction fs as [|f r IH]; intros p Hfs H; [exact H|]. cbn [tryStarts]. cbv zeta. inversion Hfs as [|? ? Hf Hr]; subst.
    assert (H1 : QP (f (withState p stOpening))) by (apply Hf; [left; reflexivity|exact H]).
    destruct (_ || _); [exact H1|]. apply IH; assumption.
  Qed.
  Lemma QP_opening_loop : forall fuel p, QP p -> QP (snd (opening_loop fuel p)).
  Proof.
    induction fuel as [|f IH]; intros p H; [exact H|]. cbn [opening_loop].
    destruct (_ || _); [|exact H].
    pose proof (QP_tryStarts blockStarts p blockStarts_okq H) as H1. destruct (tryStarts blockStarts p) as [[|] p1]; cbn [snd] in H1.
    - destruct (_ =? stLineConsumed); [exact H1|apply IH; exact H1].
    - exact H1.
  Qed.
  Lemma QP_deferredClose p : QP p -> QP (deferredClose p).
  Proof. intros H. unfold deferredClose. cbv zeta. destruct (_ && _); [exact H|apply QP_closeLastChildAt, H]. Qed.
End Q.
