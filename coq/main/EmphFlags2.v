(* EmphFlags2.v -- layer (a) of the widened slice: emphasisFlags with neighbours that are CHARACTERS of the alphabet of EmphSpec2.v
   (ASCII, or a well-formed two- / three-byte UTF-8 sequence of one of the explicit families) computes canOpen2 / canClose2.
   Contents: UTF-8 round trips for the model's decodeRune / decodeLastRune and for the spec's firstRune / lastRune (general in the
   code point: 128 <= c < 2048, and 2048 <= c < 65536 outside the surrogates); the model's two tables agree with specWs2 / specPunct2
   on every character of the alphabet (by enumeration of the finite families and of the range U+00C0..U+024F); emphasisFlags_spec2. *)
From Coq Require Import List ZArith Lia Bool.
Import ListNotations.
Require Import Base Tables Utf8 Tree Inl3a Inl3b SliceBase EmphSpec EmphFlags EmphTok EmphSpec2.
Open Scope Z_scope.

(* ---------------------------------------------------------------------------------------------- *)
(* 1. the code points of the alphabet                                                              *)
(* ---------------------------------------------------------------------------------------------- *)
Definition cp2 (c : Z) : Prop := 128 <= c < 2048.
Definition cp3 (c : Z) : Prop := (2048 <= c < 55296) \/ (57344 <= c < 65536).

Lemma memZ2_In c l : memZ2 c l = true -> In c l.
Proof. unfold memZ2. intros H. apply existsb_exists in H. destruct H as (x & Hx & E). apply Z.eqb_eq in E. subst x. exact Hx. Qed.
Lemma uniChar_range c : uniChar c = true -> cp2 c \/ cp3 c.
Proof.
  unfold uniChar, uniLetter, cp2, cp3. intros H. apply orb_true_iff in H. destruct H as [H|H]; [apply orb_true_iff in H; destruct H as [H|H]|].
  - apply memZ2_In in H. cbn [In uniWsL] in H. repeat (destruct H as [H|H]; [subst c; lia|]). contradiction.
  - apply memZ2_In in H. cbn [In uniPunctL] in H. repeat (destruct H as [H|H]; [subst c; lia|]). contradiction.
  - apply orb_true_iff in H. destruct H as [H|H].
    + apply andb_true_iff in H. destruct H as [H _]. apply andb_true_iff in H. destruct H as [H _]. apply andb_true_iff in H.
      destruct H as [A B]. apply Z.leb_le in A, B. lia.
    + apply memZ2_In in H. cbn [In uniLetterL] in H. repeat (destruct H as [H|H]; [subst c; lia|]). contradiction.
Qed.
Lemma textAscii2_range c : textAscii2 c = true -> 32 <= c < 127 /\ c <> 42 /\ c <> 95.
Proof.
  unfold textAscii2. intros H. apply orb_true_iff in H. destruct H as [H|H]; [apply orb_true_iff in H; destruct H as [H|H]; [apply orb_true_iff in H; destruct H as [H|H]|]|].
  - apply EmphTok.letter_range in H. lia.
  - unfold isDigitB in H. apply andb_true_iff in H. destruct H as [A B]. apply Z.leb_le in A, B. lia.
  - apply Z.eqb_eq in H. lia.
  - apply memZ2_In in H. cbn [In asciiPunct2] in H. repeat (destruct H as [H|H]; [subst c; lia|]). contradiction.
Qed.
Lemma textChar_cases c : textChar c = true -> (32 <= c < 127 /\ c <> 42 /\ c <> 95 /\ textAscii2 c = true) \/ ((cp2 c \/ cp3 c) /\ uniChar c = true).
Proof.
  unfold textChar. intros H. apply orb_true_iff in H. destruct H as [H|H].
  - left. pose proof (textAscii2_range c H). tauto.
  - right. split; [apply uniChar_range; exact H|exact H].
Qed.

(* ---------------------------------------------------------------------------------------------- *)
(* 2. UTF-8 round trips                                                                            *)
(* ---------------------------------------------------------------------------------------------- *)
Lemma enc1 c : c < 128 -> enc c = [c].
Proof. intros H. unfold enc. destruct (Z.ltb_spec c 128); [reflexivity|lia]. Qed.
Lemma enc2 c : cp2 c -> exists b0 b1, enc c = [b0; b1] /\ 194 <= b0 <= 223 /\ 128 <= b1 <= 191 /\ (b0 - 192) * 64 + (b1 - 128) = c.
Proof.
  intros [H1 H2]. unfold enc. destruct (Z.ltb_spec c 128); [lia|]. destruct (Z.ltb_spec c 2048); [|lia].
  exists (192 + c / 64), (128 + c mod 64). split; [reflexivity|].
  pose proof (Z.div_mod c 64 ltac:(lia)) as D1. pose proof (Z.mod_pos_bound c 64 ltac:(lia)) as D2.
  set (q := c / 64) in *. set (m := c mod 64) in *. clearbody q m. lia.
Qed.
Lemma enc3 c : cp3 c -> exists b0 b1 b2, enc c = [b0; b1; b2] /\ 224 <= b0 <= 239 /\ 128 <= b1 <= 191 /\ 128 <= b2 <= 191 /\
  (b0 = 224 -> 160 <= b1) /\ (b0 = 237 -> b1 <= 159) /\ (b0 - 224) * 4096 + (b1 - 128) * 64 + (b2 - 128) = c.
Proof.
  intros Hc. unfold enc. destruct (Z.ltb_spec c 128); [unfold cp3 in Hc; lia|]. destruct (Z.ltb_spec c 2048); [unfold cp3 in Hc; lia|].
  exists (224 + c / 4096), (128 + (c / 64) mod 64), (128 + c mod 64). split; [reflexivity|].
  assert (E : c / 4096 = c / 64 / 64) by (rewrite Z.div_div by lia; reflexivity). rewrite E.
  pose proof (Z.div_mod c 64 ltac:(lia)) as D1. pose proof (Z.mod_pos_bound c 64 ltac:(lia)) as D2.
  pose proof (Z.div_mod (c / 64) 64 ltac:(lia)) as D3. pose proof (Z.mod_pos_bound (c / 64) 64 ltac:(lia)) as D4.
  set (q1 := c / 64) in *. set (m0 := c mod 64) in *. set (q2 := q1 / 64) in *. set (m1 := q1 mod 64) in *.
  clearbody q2 m1. clearbody q1 m0. clear E. unfold cp3 in Hc. lia.
Qed.

(* the model's decoders *)
Lemma decodeRune_enc c rest : 0 <= c -> (c < 128 \/ cp2 c \/ cp3 c) -> fst (decodeRune (enc c ++ rest)) = c.
Proof.
  intros H0 [H|[H|H]].
  - rewrite enc1 by exact H. cbn [app decodeRune]. destruct (Z.ltb_spec c 128); [reflexivity|lia].
  - destruct (enc2 c H) as (b0 & b1 & -> & Hb0 & Hb1 & E). cbn [app decodeRune].
    destruct (Z.ltb_spec b0 128); [lia|]. destruct (Z.leb_spec 194 b0); [|lia]. destruct (Z.leb_spec b0 223); [|lia]. cbn [andb].
    unfold isCont. destruct (Z.leb_spec 128 b1); [|lia]. destruct (Z.leb_spec b1 191); [|lia]. cbn [andb fst]. exact E.
  - destruct (enc3 c H) as (b0 & b1 & b2 & -> & Hb0 & Hb1 & Hb2 & Hlo & Hhi & E). cbn [app decodeRune].
    destruct (Z.ltb_spec b0 128); [lia|]. destruct (Z.leb_spec 194 b0); [|lia]. destruct (Z.leb_spec b0 223); [lia|]. cbn [andb].
    destruct (Z.leb_spec 224 b0); [|lia]. destruct (Z.leb_spec b0 239); [|lia]. cbn [andb].
    assert (Elo : ((if b0 =? 224 then 160 else 128) <=? b1) = true).
    { apply Z.leb_le. destruct (Z.eqb_spec b0 224); [apply Hlo; assumption|lia]. }
    assert (Ehi : (b1 <=? (if b0 =? 237 then 159 else 191)) = true).
    { apply Z.leb_le. destruct (Z.eqb_spec b0 237); [apply Hhi; assumption|lia]. }
    rewrite Elo, Ehi. unfold isCont. destruct (Z.leb_spec 128 b2); [|lia]. destruct (Z.leb_spec b2 191); [|lia]. cbn [andb fst]. exact E.
Qed.

Lemma at_snoc2 (p : bytes) x y : at_ (p ++ [x; y]) (len p) = x /\ at_ (p ++ [x; y]) (len p + 1) = y.
Proof.
  split; [apply sl_at_app_len|]. replace (p ++ [x; y]) with ((p ++ [x]) ++ [y]) by (rewrite <- app_assoc; reflexivity).
  replace (len p + 1) with (len (p ++ [x])) by (rewrite sl_len_app; reflexivity). apply sl_at_app_len.
Qed.
Lemma sub_suffix (p m : bytes) : sub (p ++ m) (len p) (len p + len m) = m.
Proof. rewrite <- (app_nil_r m) at 1. apply sl_sub_app. Qed.

Lemma decodeLastRune_enc p c : 0 <= c -> (c < 128 \/ cp2 c \/ cp3 c) -> fst (decodeLastRune (p ++ enc c)) = c.
Proof.
  intros H0 [H|[H|H]].
  - rewrite enc1 by exact H. apply decodeLastRune_ascii. lia.
  - pose proof (decodeRune_enc c [] H0 (or_intror (or_introl H))) as Hd. rewrite app_nil_r in Hd.
    destruct (enc2 c H) as (b0 & b1 & Ee & Hb0 & Hb1 & E). rewrite Ee in *.
    pose proof (sl_len_nonneg p) as Hp. destruct (at_snoc2 p b0 b1) as [A0 A1].
    unfold decodeLastRune. rewrite sl_len_app. change (len [b0; b1]) with 2.
    destruct (Z.eqb_spec (len p + 2) 0); [lia|]. replace (len p + 2 - 1) with (len p + 1) by lia. rewrite A1.
    destruct (Z.ltb_spec b1 128); [lia|].
    replace (len p + 1 - 1) with (len p) by lia.
    assert (Eb : dlr_back 4 (p ++ [b0; b1]) (len p) (if len p + 2 - 4 <? 0 then 0 else len p + 2 - 4) = len p).
    { set (lim := if len p + 2 - 4 <? 0 then 0 else len p + 2 - 4).
      assert (Hlim : lim <= len p) by (unfold lim; destruct (Z.ltb_spec (len p + 2 - 4) 0); lia).
      cbn [dlr_back]. destruct (Z.ltb_spec (len p) lim); [lia|]. rewrite A0. unfold runeStart.
      destruct (Z.leb_spec 128 b0); [|lia]. destruct (Z.leb_spec b0 191); [lia|]. reflexivity. }
    rewrite Eb. destruct (Z.ltb_spec (len p) 0); [lia|].
    replace (len p + 2) with (len p + len [b0; b1]) by reflexivity. rewrite sub_suffix.
    destruct (decodeRune [b0; b1]) as [rn size] eqn:Er. cbn [fst] in Hd. subst rn.
    assert (Es : size = 2).
    { cbn [decodeRune] in Er. destruct (Z.ltb_spec b0 128); [lia|]. destruct (Z.leb_spec 194 b0); [|lia]. destruct (Z.leb_spec b0 223); [|lia].
      cbn [andb] in Er. unfold isCont in Er. destruct (Z.leb_spec 128 b1); [|lia]. destruct (Z.leb_spec b1 191); [|lia]. cbn [andb] in Er.
      inversion Er. reflexivity. }
    subst size. change (len [b0; b1]) with 2. rewrite Z.eqb_refl. reflexivity.
  - pose proof (decodeRune_enc c [] H0 (or_intror (or_intror H))) as Hd. rewrite app_nil_r in Hd.
    destruct (enc3 c H) as (b0 & b1 & b2 & Ee & Hb0 & Hb1 & Hb2 & Hlo & Hhi & E). rewrite Ee in *.
    pose proof (sl_len_nonneg p) as Hp.
    assert (A0 : at_ (p ++ [b0; b1; b2]) (len p) = b0) by apply sl_at_app_len.
    assert (A1 : at_ (p ++ [b0; b1; b2]) (len p + 1) = b1).
    { replace (p ++ [b0; b1; b2]) with ((p ++ [b0]) ++ b1 :: [b2]) by (rewrite <- app_assoc; reflexivity).
      replace (len p + 1) with (len (p ++ [b0])) by (rewrite sl_len_app; reflexivity). apply sl_at_app_len. }
    assert (A2 : at_ (p ++ [b0; b1; b2]) (len p + 2) = b2).
    { replace (p ++ [b0; b1; b2]) with ((p ++ [b0; b1]) ++ [b2]) by (rewrite <- app_assoc; reflexivity).
      replace (len p + 2) with (len (p ++ [b0; b1])) by (rewrite sl_len_app; reflexivity). apply sl_at_app_len. }
    unfold decodeLastRune. rewrite sl_len_app. change (len [b0; b1; b2]) with 3.
    destruct (Z.eqb_spec (len p + 3) 0); [lia|]. replace (len p + 3 - 1) with (len p + 2) by lia. rewrite A2.
    destruct (Z.ltb_spec b2 128); [lia|].
    replace (len p + 2 - 1) with (len p + 1) by lia.
    assert (Eb : dlr_back 4 (p ++ [b0; b1; b2]) (len p + 1) (if len p + 3 - 4 <? 0 then 0 else len p + 3 - 4) = len p).
    { set (lim := if len p + 3 - 4 <? 0 then 0 else len p + 3 - 4).
      assert (Hlim : lim <= len p) by (unfold lim; destruct (Z.ltb_spec (len p + 3 - 4) 0); lia).
      cbn [dlr_back]. replace (len p + 1 - 1) with (len p) by lia.
      destruct (Z.ltb_spec (len p + 1) lim); [lia|]. rewrite A1. unfold runeStart.
      destruct (Z.leb_spec 128 b1); [|lia]. destruct (Z.leb_spec b1 191); [|lia]. cbn [andb negb].
      destruct (Z.ltb_spec (len p) lim); [lia|]. rewrite A0.
      destruct (Z.leb_spec 128 b0); [|lia]. destruct (Z.leb_spec b0 191); [lia|]. reflexivity. }
    rewrite Eb. destruct (Z.ltb_spec (len p) 0); [lia|].
    replace (len p + 3) with (len p + len [b0; b1; b2]) by reflexivity. rewrite sub_suffix.
    destruct (decodeRune [b0; b1; b2]) as [rn size] eqn:Er. cbn [fst] in Hd. subst rn.
    assert (Es : size = 3).
    { cbn [decodeRune] in Er. destruct (Z.ltb_spec b0 128); [lia|]. destruct (Z.leb_spec 194 b0); [|lia]. destruct (Z.leb_spec b0 223); [lia|].
      cbn [andb] in Er. destruct (Z.leb_spec 224 b0); [|lia]. destruct (Z.leb_spec b0 239); [|lia]. cbn [andb] in Er.
      assert (Elo : ((if b0 =? 224 then 160 else 128) <=? b1) = true).
      { apply Z.leb_le. destruct (Z.eqb_spec b0 224); [apply Hlo; assumption|lia]. }
      assert (Ehi : (b1 <=? (if b0 =? 237 then 159 else 191)) = true).
      { apply Z.leb_le. destruct (Z.eqb_spec b0 237); [apply Hhi; assumption|lia]. }
      rewrite Elo, Ehi in Er. unfold isCont in Er. destruct (Z.leb_spec 128 b2); [|lia]. destruct (Z.leb_spec b2 191); [|lia]. cbn [andb] in Er.
      inversion Er. reflexivity. }
    subst size. change (len [b0; b1; b2]) with 3. rewrite Z.eqb_refl. reflexivity.
Qed.

(* the spec's decoders *)
Lemma firstRune_enc c rest : (c < 128 \/ cp2 c \/ cp3 c) -> firstRune (enc c ++ rest) = Some c.
Proof.
  intros [H|[H|H]].
  - rewrite enc1 by exact H. cbn [app firstRune]. destruct (Z.ltb_spec c 128); [reflexivity|lia].
  - destruct (enc2 c H) as (b0 & b1 & -> & Hb0 & Hb1 & E). cbn [app firstRune].
    destruct (Z.ltb_spec b0 128); [lia|]. destruct (Z.ltb_spec b0 224); [|lia]. f_equal. exact E.
  - destruct (enc3 c H) as (b0 & b1 & b2 & -> & Hb0 & Hb1 & Hb2 & _ & _ & E). cbn [app firstRune].
    destruct (Z.ltb_spec b0 128); [lia|]. destruct (Z.ltb_spec b0 224); [lia|]. f_equal. exact E.
Qed.
Lemma lastRune_enc p c : (c < 128 \/ cp2 c \/ cp3 c) -> lastRune (p ++ enc c) = Some c.
Proof.
  intros [H|[H|H]]; unfold lastRune; rewrite rev_app_distr.
  - rewrite enc1 by exact H. cbn [rev app]. destruct (Z.ltb_spec c 128); [reflexivity|lia].
  - destruct (enc2 c H) as (b0 & b1 & -> & Hb0 & Hb1 & E). cbn [rev app].
    destruct (Z.ltb_spec b1 128); [lia|]. destruct (Z.leb_spec 192 b0); [|lia]. f_equal. exact E.
  - destruct (enc3 c H) as (b0 & b1 & b2 & -> & Hb0 & Hb1 & Hb2 & _ & _ & E). cbn [rev app].
    destruct (Z.ltb_spec b2 128); [lia|]. destruct (Z.leb_spec 192 b1); [lia|]. f_equal. exact E.
Qed.

(* ---------------------------------------------------------------------------------------------- *)
(* 3. the model's tables agree with the spec's classes on the alphabet                             *)
(* ---------------------------------------------------------------------------------------------- *)
Definition clsOKb (c : Z) : bool :=
  Bool.eqb (isUnicodeWhitespace c) (specWs2 c) && Bool.eqb (isUnicodePunctuation c) (specPunct2 c).
Lemma range_forallb (P : Z -> bool) lo n :
  forallb P (map (fun i => lo + Z.of_nat i) (seq 0 n)) = true -> forall c, lo <= c < lo + Z.of_nat n -> P c = true.
Proof.
  intros H c Hc. rewrite forallb_forall in H. apply H. apply in_map_iff. exists (Z.to_nat (c - lo)). split; [lia|].
  apply in_seq. lia.
Qed.
Lemma list_forallb (P : Z -> bool) l c : forallb P l = true -> memZ2 c l = true -> P c = true.
Proof. intros H Hc. rewrite forallb_forall in H. apply H. apply memZ2_In. exact Hc. Qed.

Lemma cls_ascii : forall c, 0 <= c < 0 + Z.of_nat 128 -> ((c =? 12) || clsOKb c) = true.
Proof. apply range_forallb. vm_compute. reflexivity. Qed.
Lemma cls_latin : forall c, 192 <= c < 192 + Z.of_nat 400 -> clsOKb c = true.
Proof. apply range_forallb. vm_compute. reflexivity. Qed.
Lemma cls_ws : forallb clsOKb uniWsL = true. Proof. vm_compute. reflexivity. Qed.
Lemma cls_punct : forallb clsOKb uniPunctL = true. Proof. vm_compute. reflexivity. Qed.
Lemma cls_letter : forallb clsOKb uniLetterL = true. Proof. vm_compute. reflexivity. Qed.

Definition okCls (o : option Z) : Prop :=
  isUnicodeWhitespace (charOf o) = wsO2 o /\ isUnicodePunctuation (charOf o) = puO2 o.
Lemma clsOKb_okCls c : clsOKb c = true -> okCls (Some c).
Proof.
  unfold clsOKb, okCls. cbn [charOf wsO2 puO2]. intros H. apply andb_true_iff in H. destruct H as [A B].
  apply eqb_prop in A. apply eqb_prop in B. split; assumption.
Qed.
Lemma okCls_None : okCls None. Proof. split; reflexivity. Qed.
Lemma okCls_lf : okCls (Some 10). Proof. split; reflexivity. Qed.
Lemma okCls_ascii c : 0 <= c < 128 -> c <> 12 -> okCls (Some c).
Proof.
  intros Hc H12. apply clsOKb_okCls. pose proof (cls_ascii c ltac:(lia)) as H. destruct (Z.eqb_spec c 12); [contradiction|exact H].
Qed.
Lemma okCls_uni c : uniChar c = true -> okCls (Some c).
Proof.
  intros H. apply clsOKb_okCls. unfold uniChar, uniLetter in H.
  apply orb_true_iff in H. destruct H as [H|H]; [apply orb_true_iff in H; destruct H as [H|H]|].
  - exact (list_forallb _ _ _ cls_ws H).
  - exact (list_forallb _ _ _ cls_punct H).
  - apply orb_true_iff in H. destruct H as [H|H]; [|exact (list_forallb _ _ _ cls_letter H)].
    apply andb_true_iff in H. destruct H as [H _]. apply andb_true_iff in H. destruct H as [H _]. apply andb_true_iff in H.
    destruct H as [A B]. apply Z.leb_le in A, B. apply cls_latin. lia.
Qed.
Lemma okCls_textChar c : textChar c = true -> okCls (Some c).
Proof. intros H. destruct (textChar_cases c H) as [(R & _)|(_ & U)]; [apply okCls_ascii; lia|apply okCls_uni; exact U]. Qed.

(* ---------------------------------------------------------------------------------------------- *)
(* 4. the flag word                                                                                *)
(* ---------------------------------------------------------------------------------------------- *)
Definition flagWord2 (ch : Z) (prev next : option Z) : Z :=
  (if canOpen2 ch prev next then fOpener else 0) + (if canClose2 ch prev next then fCloser else 0).
(* the character before / after a run as the model computes it *)
Definition nbPrev (pre : bytes) (prev : option Z) : Prop :=
  (if 0 <? len pre then fst (decodeLastRune pre) else 32) = charOf prev /\ okCls prev.
Definition nbNext (post : bytes) (next : option Z) : Prop :=
  (if 0 <? len post then fst (decodeRune post) else 32) = charOf next /\ okCls next.

Theorem emphasisFlags_spec2 (pre run post : bytes) ch r prev next :
  run = ch :: r -> nbPrev pre prev -> nbNext post next ->
  emphasisFlags (pre ++ run ++ post) (len pre) (len pre + len run) = flagWord2 ch prev next.
Proof.
  intros Hrun [Ep [Hpw Hpp]] [En [Hnw Hnp]]. unfold emphasisFlags.
  rewrite sl_upto_app_len. rewrite Ep.
  assert (Enext : (if len pre + len run <? len (pre ++ run ++ post) then fst (decodeRune (from_ (pre ++ run ++ post) (len pre + len run))) else 32)
                  = charOf next).
  { rewrite app_assoc. rewrite <- sl_len_app. rewrite sl_from_app_len. rewrite (sl_len_app (pre ++ run) post). rewrite <- En.
    pose proof (sl_len_nonneg post). destruct (Z.ltb_spec (len (pre ++ run)) (len (pre ++ run) + len post)), (Z.ltb_spec 0 (len post)); try reflexivity; lia. }
  cbv zeta. rewrite Enext. rewrite Hpw, Hpp, Hnw, Hnp.
  assert (Eat : at_ (pre ++ run ++ post) (len pre) = ch) by (rewrite Hrun; cbn [app]; apply sl_at_app_len).
  rewrite Eat. unfold flagWord2, canOpen2, canClose2, leftFlanking2, rightFlanking2. apply flags_bool.
Qed.
Print Assumptions emphasisFlags_spec2.

(* neighbours that are characters of the alphabet *)
Lemma cp_of_textChar c : textChar c = true -> 0 <= c /\ (c < 128 \/ cp2 c \/ cp3 c).
Proof.
  intros H. destruct (textChar_cases c H) as [(R & _)|([U|U] & _)]; [lia| |].
  - unfold cp2 in U. split; [lia|right; left; exact U].
  - split; [unfold cp3 in U; lia|right; right; exact U].
Qed.
Lemma nbPrev_nil : nbPrev [] None. Proof. split; [reflexivity|apply okCls_None]. Qed.
Lemma nbPrev_char p c : textChar c = true -> nbPrev (p ++ enc c) (Some c).
Proof.
  intros H. destruct (cp_of_textChar c H) as [H0 Hc]. split; [|apply okCls_textChar; exact H].
  assert (Hl : 0 < len (p ++ enc c)).
  { rewrite sl_len_app. pose proof (sl_len_nonneg p). destruct Hc as [Hc|[Hc|Hc]].
    - rewrite enc1 by exact Hc. change (len [c]) with 1. lia.
    - destruct (enc2 c Hc) as (b0 & b1 & -> & _). change (len [b0; b1]) with 2. lia.
    - destruct (enc3 c Hc) as (b0 & b1 & b2 & -> & _). change (len [b0; b1; b2]) with 3. lia. }
  destruct (Z.ltb_spec 0 (len (p ++ enc c))); [|lia]. cbn [charOf]. apply decodeLastRune_enc; assumption.
Qed.
Lemma nbPrev_delim p ch : ch = 42 \/ ch = 95 -> nbPrev (p ++ [ch]) (Some ch).
Proof.
  intros H. split; [|apply okCls_ascii; lia]. rewrite sl_len_app. change (len [ch]) with 1. pose proof (sl_len_nonneg p).
  destruct (Z.ltb_spec 0 (len p + 1)); [|lia]. cbn [charOf]. apply decodeLastRune_ascii. lia.
Qed.
Lemma nbNext_char c rest : textChar c = true -> nbNext (enc c ++ rest) (Some c).
Proof.
  intros H. destruct (cp_of_textChar c H) as [H0 Hc]. split; [|apply okCls_textChar; exact H].
  assert (Hl : 0 < len (enc c ++ rest)).
  { rewrite sl_len_app. pose proof (sl_len_nonneg rest). destruct Hc as [Hc|[Hc|Hc]].
    - rewrite enc1 by exact Hc. change (len [c]) with 1. lia.
    - destruct (enc2 c Hc) as (b0 & b1 & -> & _). change (len [b0; b1]) with 2. lia.
    - destruct (enc3 c Hc) as (b0 & b1 & b2 & -> & _). change (len [b0; b1; b2]) with 3. lia. }
  destruct (Z.ltb_spec 0 (len (enc c ++ rest))); [|lia]. cbn [charOf]. apply decodeRune_enc; assumption.
Qed.
Lemma nbNext_ascii c rest : 0 <= c < 128 -> c <> 12 -> nbNext (c :: rest) (Some c).
Proof.
  intros Hc H12. split; [|apply okCls_ascii; assumption]. rewrite sl_len_cons. pose proof (sl_len_nonneg rest).
  destruct (Z.ltb_spec 0 (len rest + 1)); [|lia]. cbn [charOf decodeRune]. destruct (Z.ltb_spec c 128); [reflexivity|lia].
Qed.
Lemma flagWord2_lf ch p : flagWord2 ch p (Some 10) = flagWord2 ch p None.
Proof. reflexivity. Qed.
