From Coq Require Import List ZArith Lia Bool.
Import ListNotations.
Require Import Base Tree Rdr Link Collect Html Recog LP Rules Starts Driver L2Kind2 L2CC GramTree GramLP GramLP2 TDefs TOcp StreamFuel ReparseSwap.
Open Scope Z_scope.

(* T50 continuation, file 2: the line parser state just before the open root child c is closed at the line start T, compared with
   the state in which c has already been replaced by its closing L = closeBlock .. c T: the first openBlock makes them equal. *)
Definition clF (h : nat) (src : bytes) (e : Z) (b : block) : block :=
  match lastBlock b with Some x => set_lastBlocks b (closeBlock h src x e) | None => b end.
Lemma closeLastChildAt_clF p d e : closeLastChildAt p d e = withRoot p (updAt d (clF (bheight (root p)) (source p) e) (root p)).
Proof. reflexivity. Qed.

Lemma root0_snoc_last pre x : lastBlock (root0 (pre ++ [x])) = Some x.
Proof. unfold lastBlock, root0. cbn [bkids]. rewrite rev_app_distr. reflexivity. Qed.
Lemma set_lastBlocks_root0 K repl : set_lastBlocks (root0 K) repl = root0 (removelast K ++ repl).
Proof. reflexivity. Qed.
Lemma snoc_of_ne {A} (l : list A) : l <> [] -> exists pre x, l = pre ++ [x].
Proof. intros H. destruct (list_snoc_cases l) as [E|E]; [contradiction|exact E]. Qed.

Lemma clF_root0_closed h src e K : K <> [] -> Forall closedB K -> clF h src e (root0 K) = root0 K.
Proof.
  intros Hn Hc. destruct (snoc_of_ne K Hn) as (pre & x & ->). unfold clF. rewrite root0_snoc_last.
  apply Forall_app in Hc. destruct Hc as [_ Hx]. inversion Hx as [|? ? Hx' _]; subst.
  rewrite (TOcp.closeBlock_closed h src x e Hx'). rewrite set_lastBlocks_root0, removelast_snoc. reflexivity.
Qed.
Lemma clF_root0_single h src e c : clF h src e (root0 [c]) = root0 (closeBlock h src c e).
Proof. reflexivity. Qed.

Section Collapse.
  Variables (src : bytes) (T : Z) (c : block) (L : list block).
  Hypothesis HL : L = closeBlock (bheight (root0 [c])) src c T.
  Hypothesis Lne : L <> [].
  Hypothesis Lcl : Forall closedB L.

  Definition RO (d : nat) (p : lp) : Prop := root p = root0 [c] /\ container p = Some d /\ source p = src /\ lineStart p = T.
  Definition sw (p : lp) : lp := swapRC p (root0 L) (Some O).

  Lemma RO_same d p p' : same_tree p p' -> source p' = source p -> lineStart p' = lineStart p -> RO d p -> RO d p'.
  Proof. intros [A B] C D (E1 & E2 & E3 & E4). unfold RO. rewrite A, B, C, D. tauto. Qed.

  Lemma openBlock_up_stop f p K : canContain (containerKind p) K = true -> openBlock_up (S f) p K = p.
  Proof. intros H. cbn [openBlock_up]. rewrite H. reflexivity. Qed.
  Lemma openBlock_up_step f p K d : canContain (containerKind p) K = false -> cdepth p = S d ->
    openBlock_up (S f) p K = openBlock_up f (withCont (closeLastChildAt p d (lineStart p)) (Some d)) K.
  Proof. intros H E. cbn [openBlock_up]. rewrite H, E. reflexivity. Qed.

  Definition mkp (ln : bytes) (rt : block) (d : nat) (i cl tr st pn : Z) : lp :=
    {| source := src; root := rt; container := Some d; lineStart := T; line := ln; li := i; col := cl; tabRem := tr; state := st; panicked := pn |}.
  Lemma ck_mkp0 ln K i cl tr st pn : containerKind (mkp ln (root0 K) O i cl tr st pn) = documentKind. Proof. reflexivity. Qed.
  Lemma ck_mkp1 ln i cl tr st pn : containerKind (mkp ln (root0 [c]) 1 i cl tr st pn) = bkind c. Proof. reflexivity. Qed.
  Lemma close0_c ln d i cl tr st pn :
    closeLastChildAt (mkp ln (root0 [c]) d i cl tr st pn) O T = mkp ln (root0 L) d i cl tr st pn.
  Proof. rewrite closeLastChildAt_clF. cbn [root source mkp updAt]. rewrite clF_root0_single, <- HL. reflexivity. Qed.
  Lemma close0_L ln d i cl tr st pn :
    closeLastChildAt (mkp ln (root0 L) d i cl tr st pn) O T = mkp ln (root0 L) d i cl tr st pn.
  Proof. rewrite closeLastChildAt_clF. cbn [root source mkp updAt]. rewrite (clF_root0_closed _ _ _ L Lne Lcl). reflexivity. Qed.

  Lemma obPre_collapse d p K : RO d p -> st_open p -> K <> ListItemKind ->
    (d = O \/ (d = 1%nat /\ canContain (bkind c) K = false)) -> obPre (sw p) K = obPre p K.
  Proof.
    intros (E1 & E2 & E3 & E4) Hs HK Hd.
    assert (Hdoc : canContain documentKind K = true).
    { unfold canContain. change (documentKind =? documentKind) with true. cbv iota. apply negb_true_iff, Z.eqb_neq, HK. }
    destruct p as [s rt ct ls ln i cl tr st pn]. cbn [root container source lineStart] in E1, E2, E3, E4. subst s rt ct ls.
    assert (Hst : st = stOpening \/ st = stOpenMatched) by exact Hs. clear Hs.
    unfold obPre, sw, swapRC, setLP. cbn [state li col tabRem panicked source lineStart line root container]. cbv zeta.
    fold (mkp ln (root0 L) O i cl tr st pn). fold (mkp ln (root0 [c]) d i cl tr st pn).
    assert (R1 : forall rt d0, (if st =? stOpening then withState (mkp ln rt d0 i cl tr st pn) stOpenMatched else mkp ln rt d0 i cl tr st pn) =
                 mkp ln rt d0 i cl tr stOpenMatched pn).
    { intros rt d0. destruct Hst as [-> | ->]; reflexivity. }
    rewrite !R1. clear R1.
    change (cdepth (mkp ln (root0 L) O i cl tr stOpenMatched pn)) with O.
    change (cdepth (mkp ln (root0 [c]) d i cl tr stOpenMatched pn)) with d.
    rewrite (openBlock_up_stop O (mkp ln (root0 L) O i cl tr stOpenMatched pn) K) by (rewrite ck_mkp0; exact Hdoc).
    change (cdepth (mkp ln (root0 L) O i cl tr stOpenMatched pn)) with O.
    change (lineStart (mkp ln (root0 L) O i cl tr stOpenMatched pn)) with T. rewrite close0_L.
    destruct Hd as [->|[-> Hcc]].
    - rewrite (openBlock_up_stop O) by (rewrite ck_mkp0; exact Hdoc).
      change (cdepth (mkp ln (root0 [c]) O i cl tr stOpenMatched pn)) with O.
      change (lineStart (mkp ln (root0 [c]) O i cl tr stOpenMatched pn)) with T. rewrite close0_c. reflexivity.
    - rewrite (openBlock_up_step 1 _ K O) by (try rewrite ck_mkp1; try exact Hcc; reflexivity).
      change (lineStart (mkp ln (root0 [c]) 1 i cl tr stOpenMatched pn)) with T. rewrite close0_c.
      change (withCont (mkp ln (root0 L) 1 i cl tr stOpenMatched pn) (Some O)) with (mkp ln (root0 L) O i cl tr stOpenMatched pn).
      rewrite (openBlock_up_stop O) by (rewrite ck_mkp0; exact Hdoc).
      change (cdepth (mkp ln (root0 L) O i cl tr stOpenMatched pn)) with O.
      change (lineStart (mkp ln (root0 L) O i cl tr stOpenMatched pn)) with T. rewrite close0_L. reflexivity.
  Qed.

  Lemma st_open_sw p : st_open p -> st_open (sw p). Proof. exact (fun H => H). Qed.

  Lemma openBlock_collapse d p K : RO d p -> st_open p -> K <> ListItemKind ->
    (d = O \/ (d = 1%nat /\ canContain (bkind c) K = false)) -> openBlock (sw p) K = openBlock p K.
  Proof.
    intros HR Hs HK Hd. rewrite (openBlock_eq p K Hs), (openBlock_eq (sw p) K (st_open_sw p Hs)).
    unfold obPos. rewrite (obPre_collapse d p K HR Hs HK Hd). reflexivity.
  Qed.
End Collapse.
