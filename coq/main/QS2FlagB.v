(* QS2FlagB.v -- T58b part B: the invariant W through the primitives of the line parser.
   K M p : every block on the path root..container (depth >= 1) is open, and when the line has been consumed by a block start
           and the container is the document again, the last top-level child is closed and ends at M (or is flagged).
   W M p : K together with the context (NoPanic47.E: st3, ccP, no panic 4/7; TInv.CU: cursor) and M = lineStart + len line. *)
From Coq Require Import List ZArith Lia Bool.
Import ListNotations.
Require Import Base Tree Rdr Link Collect Html Recog LP Rules Starts Driver L2Kind2 L2CC TDefs TOcp TInv TDesc TStarts NoPanic47 BSOrph QS2FlagA.
Open Scope Z_scope.

Definition Mp (p : lp) : Z := lineStart p + len (line p).
Definition K (M : Z) (p : lp) : Prop :=
  PO p /\ (state p = stLineConsumed -> cdepth p = O -> topDone M (root p)).
Definition W (M : Z) (p : lp) : Prop := E p /\ CU p /\ K M p /\ Mp p = M.

Lemma Mp_envS p p' : envS p p' -> Mp p' = Mp p.
Proof. intros (A & B & _). unfold Mp. rewrite A, B. reflexivity. Qed.

(* ---- the state never becomes stLineConsumed except by consumeLine ---- *)
Lemma lc_opened p : state (if state p =? stOpening then withState p stOpenMatched else p) = stLineConsumed -> state p = stLineConsumed.
Proof. destruct (Z.eqb_spec (state p) stOpening) as [E0|E0]; [cbn; discriminate|tauto]. Qed.
Lemma lc_advance p n : state (advance p n) = stLineConsumed -> state p = stLineConsumed.
Proof.
  destruct (Z.eq_dec (state p) stOpening) as [E0|E0].
  - intros H. exfalso. destruct (st_open_advance p n (or_introl E0)) as [A|A]; rewrite A in H; discriminate.
  - rewrite state_advance_ne0 by exact E0. tauto.
Qed.
Lemma lc_consumeIndent p n : state (consumeIndent p n) = stLineConsumed -> state p = stLineConsumed.
Proof.
  destruct (Z.eq_dec (state p) stOpening) as [E0|E0].
  - intros H. exfalso. destruct (st_open_consumeIndent p n (or_introl E0)) as [A|A]; rewrite A in H; discriminate.
  - rewrite state_consumeIndent_ne0 by exact E0. tauto.
Qed.

Lemma cdepth_sameT p p' : sameT p p' -> cdepth p' = cdepth p.
Proof. intros (_ & A & _). unfold cdepth. rewrite A. reflexivity. Qed.

Lemma K_same M p p' : sameT p p' -> (state p' = stLineConsumed -> state p = stLineConsumed) -> K M p -> K M p'.
Proof.
  intros HT Hs [A B]. pose proof (cdepth_sameT p p' HT) as Ec. destruct HT as (Er & _). split.
  - unfold PO. rewrite Er, Ec. exact A.
  - intros S2 C0. rewrite Er. apply B; [apply Hs, S2|rewrite <- Ec; exact C0].
Qed.

Lemma W_advance M p n : W M p -> W M (advance p n).
Proof.
  intros (a & b & c & d). split; [apply E_advance, a|]. split; [apply CU_advance, b|].
  split; [apply (K_same M p); [apply sameT_advance|apply lc_advance|exact c]|].
  rewrite (Mp_envS p); [exact d|apply envS_sameT, sameT_advance].
Qed.
Lemma W_consumeIndent M p n : W M p -> W M (consumeIndent p n).
Proof.
  intros (a & b & c & d). split; [apply E_consumeIndent, a|]. split; [apply CU_consumeIndent, b|].
  split; [apply (K_same M p); [apply sameT_consumeIndent|apply lc_consumeIndent|exact c]|].
  rewrite (Mp_envS p); [exact d|apply envS_sameT, sameT_consumeIndent].
Qed.
(* consumeLine: below the root only *)
Lemma W_consumeLine M p : W M p -> (1 <= cdepth p)%nat -> W M (consumeLine p).
Proof.
  intros (a & b & c & d) Hd. split; [apply E_consumeLine, a|]. split; [apply CU_consumeLine, b|].
  pose proof (sameT_consumeLine p) as HT. pose proof (cdepth_sameT _ _ HT) as Ec.
  split; [|rewrite (Mp_envS p); [exact d|apply envS_sameT, HT]].
  destruct c as [A _]. destruct HT as (Er & _). split; [unfold PO; rewrite Er, Ec; exact A|]. intros _ C0. lia.
Qed.

(* ---- setters ---- *)
Definition setterK (f : block -> block) : Prop :=
  forall x, cc (f x) = cc x /\ bkind (f x) = bkind x /\ bend (f x) = bend x /\ bkids (f x) = bkids x.
Ltac settersK := intros x; destruct x; repeat split; reflexivity.

Lemma K_updCont M p f : bp f -> (forall x, bkids (f x) = bkids x) -> K M p -> K M (updCont p f).
Proof.
  intros Hb Hk [A B]. split.
  - change (PO (updCont p f)) with (POr (cdepth p) (updAt (cdepth p) f (root p))). apply POr_updAt_bp; [exact Hb|lia|exact A].
  - intros S2 C0. change (cdepth (updCont p f)) with (cdepth p) in C0. change (state (updCont p f)) with (state p) in S2.
    unfold updCont. cbn [root withRoot setLP]. rewrite C0. cbn [updAt].
    eapply topDone_lastBlock; [apply lastBlock_kids, Hk|]. apply B; assumption.
Qed.
Lemma W_setters M p f : W M p -> setterK f -> W M (updCont p f).
Proof.
  intros (a & b & c & d) Hf. split; [apply E_setters; [exact a|intros x; destruct (Hf x) as (A & B & _); tauto]|]. split; [exact b|].
  split; [|exact d]. apply K_updCont; [intros x; apply Hf|intros x; apply Hf|exact c].
Qed.
Lemma bp_set_bik g : bp (fun b => set_bik b (g b)). Proof. intros x. destruct x; reflexivity. Qed.
Lemma K_updCont_ik M p g : K M p -> K M (updCont p (fun b => set_bik b (g b))).
Proof. apply K_updCont; [apply bp_set_bik|intros x; destruct x; reflexivity]. Qed.

Lemma K_opened M p : K M p -> K M (if state p =? stOpening then withState p stOpenMatched else p).
Proof. apply K_same; [apply sameT_opened|apply lc_opened]. Qed.

Lemma K_collectInline M p kind n : K M p -> K M (collectInline p kind n).
Proof.
  intros H. unfold collectInline. destruct (_ =? stDescendTerminated); [exact H|]. cbv zeta.
  apply (K_updCont_ik M _ (fun b => bik b ++ [_])).
  apply (K_same M _ _ (sameT_advance _ _) (lc_advance _ _)).
  destruct (0 <? _); [|apply K_opened, H].
  apply (K_updCont_ik M _ (fun b => bik b ++ [_])).
  apply (K_same M _ _ (sameT_advance _ _) (lc_advance _ _)). apply K_opened, H.
Qed.
Lemma W_collectInline M p kind n : W M p -> W M (collectInline p kind n).
Proof.
  intros (a & b & c & d). split; [apply E_collectInline, a|]. split; [apply CU_collectInline, b|].
  split; [apply K_collectInline, c|]. rewrite (Mp_envS p); [exact d|apply envS_collectInline].
Qed.

(* ---- closing: the open path above the closed block stays ---- *)
Lemma PO_closeAt p d e d' : PO p -> (d' <= d)%nat -> (d' <= cdepth p)%nat -> PO (withCont (closeLastChildAt p d e) (Some d')).
Proof.
  intros H Hle Hc. rewrite closeLastChildAt_eq.
  change (PO (withCont (withRoot p (updAt d (TInv.closeF p e) (root p))) (Some d'))) with (POr d' (updAt d (TInv.closeF p e) (root p))).
  apply POr_updAt_bp; [apply bp_closeF|exact Hle|]. eapply POr_le; [exact Hc|exact H].
Qed.

Lemma PO_openBlock_up : forall fuel p k, PO p -> PO (openBlock_up fuel p k).
Proof.
  induction fuel as [|f IH]; intros p k H; [exact H|]. cbn [openBlock_up]. destruct (canContain _ _); [exact H|].
  destruct (cdepth p) as [|d] eqn:Ed; [exact H|]. apply IH. apply PO_closeAt; [exact H|lia|lia].
Qed.

Lemma PO_openBlock p k : PO p -> PO (openBlock p k).
Proof.
  intros H. unfold openBlock. destruct (_ || _); [exact H|]. cbv zeta.
  set (p0 := if state p =? stOpening then withState p stOpenMatched else p).
  assert (H0 : PO p0) by (unfold p0; destruct (_ =? _); exact H).
  pose proof (PO_openBlock_up (S (cdepth p0)) p0 k H0) as H1. set (p1 := openBlock_up (S (cdepth p0)) p0 k) in *.
  pose proof (PO_closeAt p1 (cdepth p1) (lineStart p1) (cdepth p1) H1 ltac:(lia) ltac:(lia)) as H2.
  set (p2 := closeLastChildAt p1 (cdepth p1) (lineStart p1)) in *.
  unfold PO in *. cbn [root container withCont withRoot setLP cdepth updCont] in *. fold (cdepth p2).
  change (cdepth p2) with (cdepth p1).
  fold (appendNb (newBlock k (lineStart p2 + li p2))).
  apply POr_S.
  - apply POr_updAt_bp; [apply bp_appendNb|lia|exact H2].
  - intros x Hx. unfold appendNb in Hx. apply getAt_S_append in Hx. subst x. reflexivity.
Qed.

Lemma K_openBlock M p k : K M p -> K M (openBlock p k) .
Proof.
  intros [A B]. split; [apply PO_openBlock, A|].
  unfold openBlock. destruct (_ || _) eqn:Ed; [exact B|]. cbv zeta. intros _ C0. cbn in C0. discriminate.
Qed.
Lemma W_openBlock M p k : W M p -> k <> ListItemKind -> W M (openBlock p k) /\ (1 <= cdepth (openBlock p k))%nat.
Proof.
  intros (a & b & c & d) Hk. destruct (E_openBlock p k a Hk) as [a' Hd]. split; [|exact Hd].
  split; [exact a'|]. split; [eapply CU_curS; [apply curS_openBlock|exact b]|]. split; [apply K_openBlock, c|].
  rewrite (Mp_envS p); [exact d|apply curS_openBlock].
Qed.
Lemma W_openBlock' M p k : W M p -> canContain (containerKind p) k = true -> W M (openBlock p k) /\ (1 <= cdepth (openBlock p k))%nat.
Proof.
  intros (a & b & c & d) Hk. destruct (E_openBlock' p k a Hk) as [a' Hd]. split; [|exact Hd].
  split; [exact a'|]. split; [eapply CU_curS; [apply curS_openBlock|exact b]|]. split; [apply K_openBlock, c|].
  rewrite (Mp_envS p); [exact d|apply curS_openBlock].
Qed.

(* ---- endBlock ---- *)
(* what the close at the end of the line must deliver when the container is a child of the document *)
Definition CloseEnd (p : lp) : Prop :=
  forall c, getAt 1 (root p) = Some c -> isOpen c = true ->
    exists pre x, closeBlock (bheight (root p)) (source p) c (lineStart p + li p) = pre ++ [x] /\ bend x = lineStart p + li p.

Lemma PO_endBlock p : PO p -> PO (endBlock p).
Proof.
  intros H. unfold endBlock. destruct (_ || _); [exact H|]. cbv zeta.
  set (p0 := if state p =? stOpening then withState p stOpenMatched else p).
  assert (H0 : PO p0) by (unfold p0; destruct (_ =? _); exact H).
  destruct (cdepth p0) as [|d] eqn:Ed; [exact H0|]. apply PO_closeAt; [exact H0|lia|lia].
Qed.

Lemma K_endBlock_deep M p : K M p -> (2 <= cdepth p)%nat -> K M (endBlock p).
Proof.
  intros [A B] Hd. split; [apply PO_endBlock, A|]. unfold endBlock.
  destruct (_ || _); [intros _ C0; change (cdepth (panic p 6)) with (cdepth p) in C0; lia|]. cbv zeta.
  set (p0 := if state p =? stOpening then withState p stOpenMatched else p).
  assert (E0 : cdepth p0 = cdepth p) by (unfold p0; destruct (_ =? _); reflexivity).
  destruct (cdepth p0) as [|d] eqn:Ed; [intros _ C0; change (cdepth (panic p0 7)) with (cdepth p0) in C0; lia|].
  intros _ C0. change (cdepth (withCont (closeLastChildAt p0 d (lineStart p0 + li p0)) (Some d))) with d in C0. lia.
Qed.

Lemma K_endBlock_top M p : K M p -> CU p -> li p = len (line p) -> Mp p = M -> CloseEnd p -> K M (endBlock p).
Proof.
  intros [A B] HC Hli HM HE. split; [apply PO_endBlock, A|]. unfold endBlock. destruct (_ || _); [exact B|]. cbv zeta.
  set (p0 := if state p =? stOpening then withState p stOpenMatched else p).
  assert (E0 : cdepth p0 = cdepth p /\ root p0 = root p /\ lineStart p0 = lineStart p /\ li p0 = li p /\ source p0 = source p)
    by (unfold p0; destruct (_ =? _); repeat split; reflexivity).
  destruct E0 as (E1 & E2 & E3 & E4 & E5).
  destruct (cdepth p0) as [|d] eqn:Ed.
  { intros S2 C0. change (root (panic p0 7)) with (root p0). rewrite E2. apply B; [apply lc_opened; exact S2|lia]. }
  intros _ C0. change (cdepth (withCont (closeLastChildAt p0 d (lineStart p0 + li p0)) (Some d))) with d in C0. subst d. rewrite closeLastChildAt_eq. cbn [root withCont withRoot setLP updAt].
  unfold TInv.closeF. rewrite E2, E3, E4, E5. intros b Hb.
  destruct (lastBlock (root p)) as [c|] eqn:El.
  2:{ rewrite El in Hb. discriminate. }
  assert (Hc1 : getAt 1 (root p) = Some c) by (rewrite getAt_1; exact El).
  assert (Hco : isOpen c = true) by (apply (A 1%nat c); [lia|exact Hc1]).
  destruct (HE c Hc1 Hco) as (pre & x & Ecl & Hbx). rewrite Ecl, lastBlock_set_lastBlocks_snoc in Hb. inversion Hb; subst b.
  destruct HC as [L0 L1]. unfold Mp in HM. unfold isOpen. rewrite Hbx. split; [apply Z.ltb_ge; lia|left; lia].
Qed.

Lemma W_endBlock_deep M p : W M p -> (2 <= cdepth p)%nat -> W M (endBlock p).
Proof.
  intros (a & b & c & d) Hd. split; [apply E_endBlock; [exact a|lia]|]. split; [eapply CU_curS; [apply curS_endBlock|exact b]|].
  split; [apply K_endBlock_deep; assumption|]. rewrite (Mp_envS p); [exact d|apply curS_endBlock].
Qed.

(* CloseEnd from the kind of the container *)
Lemma CloseEnd_kind p K0 : (cdepth p = 1%nat -> ckind p K0) -> K0 <> ParagraphKind -> K0 <> SetextHeadingKind -> (cdepth p = 1%nat) -> CloseEnd p.
Proof.
  intros Hk N1 N2 Hd c Hc Ho. specialize (Hk Hd). unfold ckind in Hk. rewrite Hd in Hk. specialize (Hk c Hc).
  destruct (bheight_S (root p)) as [f Ef]. rewrite Ef.
  destruct (closeBlock_keep_end f (source p) c (lineStart p + li p) Ho ltac:(rewrite Hk; exact N1) ltac:(rewrite Hk; exact N2)) as (x & E1 & E2 & _).
  exists [], x. split; [exact E1|exact E2].
Qed.

(* the close at the end of a consumed line: endBlock (consumeLine q) *)
Lemma W_endBlock_consume M q : W M q -> (1 <= cdepth q)%nat -> (cdepth q = 1%nat -> CloseEnd (consumeLine q)) -> W M (endBlock (consumeLine q)).
Proof.
  intros Hq Hd HE. pose proof (W_consumeLine M q Hq Hd) as (a & b & c & d).
  pose proof (cd_consumeLine q) as Ec.
  split; [apply E_endBlock; [exact a|lia]|]. split; [eapply CU_curS; [apply curS_endBlock|exact b]|].
  split; [|rewrite (Mp_envS (consumeLine q)); [exact d|apply curS_endBlock]].
  destruct (Nat.eq_dec (cdepth q) 1) as [E1|N1].
  - apply K_endBlock_top; [exact c|exact b| |exact d|apply HE, E1].
    destruct (sameT_consumeLine q) as (_ & _ & _ & El & _). rewrite El. apply li_consumeLine. destruct Hq as (_ & (_ & L) & _). exact L.
  - apply K_endBlock_deep; [exact c|lia].
Qed.
