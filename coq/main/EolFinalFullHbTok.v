(* T63-F1, direction D2: single-run fact about one step of the tokeniser.  TS is the start of a trailing run of spaces / line endings
   of the source that begins with two spaces; a step taken before TS does not end after TS. *)
From Coq Require Import List ZArith Lia Bool.
Import ListNotations.
Require Import Base Tables Utf8 Tree Rdr Link Collect Html Recog Inl3a Inl3b Inl3c Inl3d Inl3e Driver.
Require Import ShapesBase ShapesR ShapesA ShapesCS ShapesHT IFBase IFPe IFTokDef IFFrame IFTokAux IFTokRes IFTokLoop IS5b IS6b SpanSmall.
Open Scope Z_scope.

(* the code span scanner: the content start follows a backtick *)
Section Ticks.
  Variables (src : bytes) (sp0 : list inline).
  Notation RJ := (ShapesCS.RJ src sp0).
  Lemma cs_open_tick : forall f r n c, RJ r -> InNode r ->
    (snd (cs_open f r n c) = c \/ at_ src (snd (cs_open f r n c) - 1) = 96) /\
    (forall r1 n1 c1, fst (cs_open f r n c) = Some (r1, n1, c1) -> c1 = c \/ at_ src (c1 - 1) = 96).
  Proof.
    induction f as [|f IH]; intros r n c HJ HI; [cbn; split; [left; reflexivity|discriminate]|]. cbn [cs_open].
    destruct (Z.eqb_spec (cur r) 96) as [Ec|Ec]; [|cbn; split; [left; reflexivity|intros ? ? ? E; inversion E; left; reflexivity]].
    rewrite next_current. pose proof HJ as ((Hs & _) & _). destruct (cur_tick src r Hs Ec) as (Ht & _).
    destruct (next r) as [ok r1] eqn:En. destruct ok; cbn [negb].
    - destruct (tick_step src sp0 r r1 HJ Ht En) as (HJ1 & HI1 & _ & Hp & _).
      destruct (IH r1 (n + 1) (r_pos r1) HJ1 HI1) as [A B].
      assert (Hb : at_ src (r_pos r1 - 1) = 96) by (rewrite Hp; replace (r_pos r + 1 - 1) with (r_pos r) by lia; exact Ht).
      split; [right; destruct A as [A|A]; [rewrite A; exact Hb|exact A]|].
      intros r2 n2 c2 E. right. destruct (B r2 n2 c2 E) as [X|X]; [rewrite X; exact Hb|exact X].
    - destruct HI as (node & Hn). destruct (next_false r r1 En) as (_ & _ & Hf). destruct (Hf node Hn) as (_ & Hp & _).
      cbn [fst snd]. split; [right; rewrite Hp; replace (r_pos r + 1 - 1) with (r_pos r) by lia; exact Ht|discriminate].
  Qed.
End Ticks.

Lemma phlb_allW rem : fst (parseHardLineBreakSpace rem) <= len rem /\
  forall i, 0 <= i < fst (parseHardLineBreakSpace rem) -> isSpEol (at_ rem i) = true.
Proof.
  pose proof (hlb_bounds rem) as [_ Hb]. split; [exact Hb|].
  destruct rem as [|c0 [|c1 r]].
  - cbn. intros; lia.
  - unfold parseHardLineBreakSpace. destruct (Z.eq_dec c0 32) as [->|N]; [cbn [fst]; intros i Hi; replace i with 0 by lia; reflexivity|].
    replace (fst match c0 with 32 => (1, false) | _ => (0, false) end) with 0; [intros; lia|].
    destruct c0 as [|p|p]; try reflexivity. do 6 (destruct p as [p|p|]; try reflexivity). congruence.
  - destruct (Z.eq_dec c0 32) as [->|N].
    2:{ assert (E : parseHardLineBreakSpace (c0 :: c1 :: r) = (0, false)).
        { unfold parseHardLineBreakSpace. destruct c0 as [|p|p]; try reflexivity. do 6 (destruct p as [p|p|]; try reflexivity). congruence. }
        rewrite E. cbn [fst]. intros; lia. }
    destruct (Z.eq_dec c1 32) as [->|N1].
    2:{ assert (E : parseHardLineBreakSpace (32 :: c1 :: r) = (1, false)).
        { unfold parseHardLineBreakSpace. destruct c1 as [|p|p]; try reflexivity. do 6 (destruct p as [p|p|]; try reflexivity). congruence. }
        rewrite E. cbn [fst]. intros i Hi. replace i with 0 by lia. reflexivity. }
    change (parseHardLineBreakSpace (32 :: 32 :: r)) with (hlb_rest r 2). intros i Hi.
    destruct (Z.eq_dec i 0) as [->|N0]; [reflexivity|]. destruct (Z.eq_dec i 1) as [->|N1']; [reflexivity|].
    destruct (hlb_rest r 2) as [e b] eqn:Eh. cbn [fst] in Hi.
    assert (Ea : at_ (32 :: 32 :: r) i = at_ r (i - 2)).
    { rewrite (SpanSmall.at_consS 32 (32 :: r) i) by lia. rewrite (SpanSmall.at_consS 32 r (i - 1)) by lia. f_equal. lia. }
    rewrite Ea. destruct b.
    + destruct (hlb_rest_true r 2 e Eh) as [_ Hall]. rewrite forallb_forall in Hall. apply Hall. unfold at_. destruct (Z.ltb_spec (i - 2) 0); [lia|].
      apply nth_In. destruct (hlb_rest_true r 2 e Eh) as [Ee _]. unfold len in Ee. lia.
    + destruct (hlb_rest_false r 2 e Eh) as (_ & _ & Hj). apply Hj. lia.
Qed.

Section TS.
  Variables (src : bytes) (U : list inline).
  Hypothesis HOK : spOK src U = true.
  Variables rf tf : nat.
  Hypothesis Hrf : len src + ibudget U < Z.of_nat rf.
  Local Notation E := (len src).
  Variable TS : Z.
  Hypothesis HT1 : 0 <= TS /\ TS + 2 <= E.
  Hypothesis HT2 : at_ src TS = 32.
  Hypothesis HT3 : forall i, TS <= i < E -> isSpEol (at_ src i) = true.
  Hypothesis HT4 : isSpEol (at_ src (TS - 1)) = false.
  Local Notation K := (IFTokLoop.K src U).
  Local Notation d0 := (mkI 0 0 0).

  Lemma byte_le e c : at_ src (e - 1) = c -> c <> 0 -> isSpEol c = false -> e <= TS.
  Proof.
    intros Ha H0 Hw. assert (Hnz : at_ src (e - 1) <> 0) by congruence. apply at_nonzero_lt in Hnz.
    destruct (Z_le_gt_dec e TS) as [Hle|Hgt]; [exact Hle|]. exfalso.
    pose proof (HT3 (e - 1) ltac:(lia)) as X. rewrite Ha in X. congruence.
  Qed.
  Lemma next_le pos : pos < TS -> pos + 1 <= TS. Proof. lia. Qed.

  Definition inE (st : ist) (pos : Z) : Prop :=
    isrc st = src /\ unp st = U /\ 0 <= upos st < len U /\ istart (nth (Z.to_nat (upos st)) U d0) <= pos < spanEnd st.
  Lemma K_inE st pos : K st pos -> upos st < len U -> pos < spanEnd st -> inE st pos.
  Proof. intros (Es & Eu & Hp0 & Hu0 & Hlo) Hu Hlt. split; [exact Es|]. split; [exact Eu|]. split; [lia|]. split; [apply Hlo, Hu|exact Hlt]. Qed.
  Lemma inE_addText st pos a b : inE st pos -> inE (addText st a b) pos.
  Proof.
    intros (A & B & C & D). destruct (fr_addText st a b) as [F1 F2]. pose proof (ux_addText st a b) as X. unfold ux in X.
    unfold inE, spanEnd in *. rewrite F1, F2, X. tauto.
  Qed.
  Lemma unpFrom_inE st pos : inE st pos -> unpFrom st = nth (Z.to_nat (upos st)) U d0 :: from_ U (upos st + 1) /\ spOK src (unpFrom st) = true /\
    spanEnd st = iend (nth (Z.to_nat (upos st)) U d0).
  Proof.
    intros (A & B & C & D). split; [unfold unpFrom; rewrite B; apply from_nth; lia|]. split; [unfold unpFrom; rewrite B; apply spOK_from, HOK|].
    rewrite spanEnd_nth by (rewrite B; lia). rewrite B. reflexivity.
  Qed.

  Lemma pebF_TS st start : inE st start -> at_ src start = 93 -> start < TS -> snd (parseEndBracketF rf tf st start) <= TS.
  Proof.
    intros HE H93 Hlt. pose proof HE as (Es & Eu & Hj & Hp).
    assert (H1 : start + 1 <= TS) by (apply (byte_le (start + 1) 93); [replace (start + 1 - 1) with start by lia; exact H93|lia|reflexivity]).
    unfold parseEndBracketF. cbv zeta. rewrite Es.
    destruct (fr_lookFor st) as [F1 F2]. pose proof (ux_lookFor st) as Hux. unfold ux in Hux.
    assert (Hse1 : spanEnd (fst (lookForLinkOrImage st)) = spanEnd st) by (unfold spanEnd; rewrite F1, F2, Hux; reflexivity).
    destruct (lookForLinkOrImage st) as [st1 odi]. cbn [fst snd] in *.
    assert (HE1 : inE st1 start) by (unfold inE; rewrite F1, F2, Hux, Hse1; exact HE).
    destruct (unpFrom_inE st1 start HE1) as (Euf & Hok1 & _). pose proof HE1 as (Es1 & Eu1 & _).
    destruct (odi <? 0); [exact H1|].
    set (od := nthD (stk st1) odi). set (kind := if d_typ od =? tImage then ImageKind else LinkKind). set (bracket := nodeOf st1 (d_node od)).
    destruct ((start + 1 <? spanEnd st1) && (at_ src (start + 1) =? 40)) eqn:Eg.
    - destruct (parseInlineLink rf st1 (start + 1)) as [[ispan [dspan dtext]] [tspan ttext]] eqn:Epil.
      destruct (spanValid ispan) eqn:Ev.
      + destruct (parseInlineLink_end rf st1 (start + 1) ispan _ _ ltac:(rewrite Es1; exact Hok1) Epil Ev) as (_ & E41 & _). rewrite Es1 in E41.
        rewrite (surjective_pairing (wrap st1 kind (d_node od) None)). cbn [snd]. apply (byte_le (snd ispan) 41 E41); [lia|reflexivity].
      + apply andb_true_iff in Eg. destruct Eg as [_ Eg2]. apply Z.eqb_eq in Eg2. rewrite Eg2. change (40 =? 91) with false. rewrite !andb_false_r. cbv iota.
        change (spanValid nullSpan) with false. cbv iota.
        destruct (negb (matchRef st1 _)); [exact H1|]. rewrite (surjective_pairing (wrap st1 kind (d_node od) None)). exact H1.
    - set (isC := (start + 2 <? spanEnd st1) && (at_ src (start + 1) =? 91) && (at_ src (start + 2) =? 93)).
      assert (HisC : isC = true -> start + 3 <= TS).
      { unfold isC. intros X. apply andb_true_iff in X. destruct X as [_ X]. apply Z.eqb_eq in X.
        apply (byte_le (start + 3) 93); [replace (start + 3 - 1) with (start + 2) by lia; exact X|lia|reflexivity]. }
      destruct (negb isC && (start + 1 <? spanEnd st1) && (at_ src (start + 1) =? 91)) eqn:Eg2.
      + apply andb_true_iff in Eg2. destruct Eg2 as [Eg2 _]. apply andb_true_iff in Eg2. destruct Eg2 as [EC0 _]. apply negb_true_iff in EC0. rewrite EC0.
        destruct (parseLinkLabel rf (newReader src (unpFrom st1) (start + 1))) as [[lspan linner] rr] eqn:Ell.
        destruct (spanValid lspan) eqn:Evl.
        * assert (HRI : RI src (newReader src (unpFrom st1) (start + 1))) by (split; [reflexivity|exact Hok1]).
          destruct (parseLinkLabel_end src rf _ lspan linner rr HRI Ell Evl) as (_ & E93 & _).
          destruct (negb (matchRef st1 _)); [exact H1|]. rewrite (surjective_pairing (wrap st1 kind (d_node od) None)). cbn [snd].
          apply (byte_le (snd lspan) 93 E93); [lia|reflexivity].
        * destruct (negb (matchRef st1 _)); [exact H1|]. rewrite (surjective_pairing (wrap st1 kind (d_node od) None)). exact H1.
      + destruct isC.
        * destruct (negb (matchRef st1 _)); [exact H1|]. rewrite (surjective_pairing (wrap st1 kind (d_node od) None)). cbn [snd]. apply HisC. reflexivity.
        * change (spanValid nullSpan) with false. cbv iota.
          destruct (negb (matchRef st1 _)); [exact H1|]. rewrite (surjective_pairing (wrap st1 kind (d_node od) None)). exact H1.
  Qed.
  Lemma istepF_TS st pos ps : inE st pos -> pos < TS ->
    snd (fst (istepF rf tf st pos ps)) <= TS /\ (snd (istepF rf tf st pos ps) = ps \/ snd (istepF rf tf st pos ps) = snd (fst (istepF rf tf st pos ps))).
  Proof.
    intros HE Hlt. pose proof HE as (Es & Eu & Hj & Hp). destruct (unpFrom_inE st pos HE) as (Euf & Hok1 & Hse).
    assert (HEa : forall a b, inE (addText st a b) pos) by (intros; apply inE_addText, HE).
    assert (H1 : pos + 1 <= TS) by lia.
    unfold istepF. cbv zeta. rewrite Es.
    destruct ((at_ src pos =? 42) || (at_ src pos =? 95)) eqn:Ed.
    { pose proof (parseDelimiterRun_shape (addText st ps pos) pos) as (P1 & P2 & _). cbv zeta in P1, P2. rewrite (proj1 (fr_addText st ps pos)), Es in P2.
      destruct (parseDelimiterRun (addText st ps pos) pos) as [st1 e]. cbn [fst snd] in *. split; [|right; reflexivity].
      apply (byte_le e (at_ src pos)); [apply P2; lia| |]; apply orb_true_iff in Ed; destruct Ed as [X|X]; apply Z.eqb_eq in X; rewrite X; [lia|lia|reflexivity|reflexivity]. }
    clear Ed. destruct (at_ src pos =? 91).
    { destruct (addNode (addText st ps pos) TextKind pos (pos + 1) []) as [st1 id]. cbn [fst snd]. split; [exact H1|right; reflexivity]. }
    destruct (Z.eqb_spec (at_ src pos) 93) as [E93|_].
    { pose proof (pebF_TS (addText st ps pos) pos (HEa ps pos) E93 Hlt) as Q.
      destruct (parseEndBracketF rf tf (addText st ps pos) pos) as [st1 e]. cbn [fst snd] in *. split; [exact Q|right; reflexivity]. }
    destruct (at_ src pos =? 33).
    { destruct (Z.leb_spec (spanEnd st) (pos + 1)) as [Hs|Hs]; cbn [orb]; [cbn [fst snd]; split; [exact H1|left; reflexivity]|].
      destruct (Z.eqb_spec (at_ src (pos + 1)) 91) as [E91|N91]; cbn [negb]; [|cbn [fst snd]; split; [exact H1|left; reflexivity]].
      destruct (addNode (addText st ps pos) TextKind pos (pos + 2) []) as [st1 id]. cbn [fst snd]. split; [|right; reflexivity].
      apply (byte_le (pos + 2) 91); [replace (pos + 2 - 1) with (pos + 1) by lia; exact E91|lia|reflexivity]. }
    destruct (Z.eqb_spec (at_ src pos) 32) as [E32|_].
    { destruct (phlb_allW (sub src pos (spanEnd st))) as [B1 B2].
      destruct (IFTokAux.spOK_In src U _ HOK (nth_In_Z U (upos st) d0 Hj)) as (A1 & A2 & A3). rewrite <- Hse in A3.
      rewrite (SpanSmall.len_sub src pos (spanEnd st) ltac:(lia) A3) in B1.
      assert (Hpe : pos + fst (parseHardLineBreakSpace (sub src pos (spanEnd st))) <= TS).
      { destruct (Z_le_gt_dec (pos + fst (parseHardLineBreakSpace (sub src pos (spanEnd st)))) TS) as [X|X]; [exact X|]. exfalso.
        specialize (B2 (TS - 1 - pos) ltac:(lia)). rewrite SpanSmall.at_sub in B2 by lia. replace (pos + (TS - 1 - pos)) with (TS - 1) in B2 by lia. congruence. }
      destruct (parseHardLineBreakSpace (sub src pos (spanEnd st))) as [e ok]. cbn [fst] in Hpe.
      destruct (ok && negb (isLastSpan st)); cbn [fst snd]; split; [exact Hpe|right; reflexivity|exact Hpe|left; reflexivity]. }
    destruct (Z.eqb_spec (at_ src pos) 96) as [E96|_].
    { assert (HcS : at_ src (fst (fst (parseCodeSpan rf st pos)) - 1) = 96).
      { unfold parseCodeSpan. rewrite Es, Euf. set (u := nth (Z.to_nat (upos st)) U d0) in *. set (rest := from_ U (upos st + 1)) in *.
        assert (Hh : spanHas u pos = true) by (apply spanHas_intro; destruct (IFTokAux.spOK_In src U u HOK (nth_In_Z U (upos st) d0 Hj)); lia).
        assert (HJ0 : ShapesCS.RJ src (u :: rest) (newReader src (u :: rest) pos)) by (split; [split; [reflexivity|rewrite <- Euf; exact Hok1]|apply Leaf3e.sublist_refl]).
        assert (HI0 : InNode (newReader src (u :: rest) pos)) by (exists u; rewrite (curNode_head u rest (newReader src (u :: rest) pos) eq_refl Hh); reflexivity).
        pose proof (cur_new_at src u rest pos 96 ltac:(rewrite <- Euf; exact Hok1) ltac:(lia) E96 ltac:(lia) eq_refl) as Hcur.
        destruct (cs_open_tick src (u :: rest) rf (newReader src (u :: rest) pos) 0 pos HJ0 HI0) as [A B].
        assert (Hne : snd (cs_open rf (newReader src (u :: rest) pos) 0 pos) <> pos \/ (1 <= rf)%nat) by (right; pose proof (ShapesBase.len_nonneg src); pose proof (ibudget_nonneg U); lia).
        destruct rf as [|f]; [pose proof (ShapesBase.len_nonneg src); pose proof (ibudget_nonneg U); lia|].
        (* the first byte is a backtick: the content start moved *)
        cbn [cs_open] in A, B |- *. rewrite Hcur in A, B |- *. cbn [Z.eqb Pos.eqb] in A, B |- *. rewrite next_current in A, B |- *.
        destruct (next (newReader src (u :: rest) pos)) as [ok r1] eqn:En. destruct ok; cbn [negb] in A, B |- *.
        - destruct (tick_step src (u :: rest) _ r1 HJ0 E96 En) as (HJ1 & HI1 & _ & Hp1 & _). cbn [newReader r_pos] in Hp1.
          destruct (cs_open_tick src (u :: rest) f r1 (0 + 1) (r_pos r1) HJ1 HI1) as [A' B'].
          assert (Hb : at_ src (r_pos r1 - 1) = 96) by (rewrite Hp1; replace (pos + 1 - 1) with pos by lia; exact E96).
          destruct (cs_open f r1 (0 + 1) (r_pos r1)) as [[[[r2 n2] c2]|] c3] eqn:Eo; cbn [fst snd] in *.
          + destruct (cs_close (S f) r2 n2) as [ce se]. cbn [fst]. destruct (B' r2 n2 c2 eq_refl) as [X|X]; [rewrite X; exact Hb|exact X].
          + destruct A' as [X|X]; [rewrite X; exact Hb|exact X].
        - cbn [fst snd]. destruct A as [X|X]; [|exact X]. exfalso.
          destruct HI0 as (node & Hn). destruct (next_false _ r1 En) as (_ & _ & Hf). destruct (Hf node Hn) as (_ & Hp1 & _). cbn [newReader r_pos] in Hp1. cbn [snd] in X. lia. }
      destruct (parseCodeSpan rf st pos) as [[cS cE] sE] eqn:Ecp. cbn [fst] in HcS.
      destruct (Z.leb_spec 0 sE) as [HsE|HsE]; cbn [fst snd].
      - split; [|right; reflexivity].
        assert (Hok : spOK (isrc st) (unpFrom st) = true) by (rewrite Es; exact Hok1).
        assert (Hfu : len (isrc st) - pos + ibudget (unpFrom st) < Z.of_nat rf).
        { rewrite Es. unfold unpFrom. rewrite Eu. pose proof (ibudget_skipn (Z.to_nat (upos st)) U) as Hb. unfold from_.
          destruct (IFTokAux.spOK_In src U _ HOK (nth_In_Z U (upos st) d0 Hj)) as (A1 & _). lia. }
        destruct (parseCodeSpan_shape rf st pos cS cE sE Hok Hfu Ecp HsE) as (n & N1 & N2 & N3 & N4 & _ & _ & N5 & _).
        specialize (N5 (sE - 1) ltac:(lia)). rewrite Es in N5. apply (byte_le sE 96 N5); [lia|reflexivity].
      - split; [apply (byte_le cS 96 HcS); [lia|reflexivity]|left; reflexivity]. }
    destruct (Z.eqb_spec (at_ src pos) 60) as [E60|_].
    { destruct (IFTokAux.spOK_In src U _ HOK (nth_In_Z U (upos st) d0 Hj)) as (A1 & A2 & A3). rewrite <- Hse in A3.
      destruct (Z.leb_spec 0 (parseAutolink (sub src pos (spanEnd st)))) as [Ha|Ha]; cbn [fst snd].
      { split; [|right; reflexivity]. destruct (parseAutolink_shape _ _ eq_refl Ha) as (_ & S2 & S3 & _).
        rewrite (SpanSmall.len_sub src pos (spanEnd st) ltac:(lia) A3) in S3. rewrite SpanSmall.at_sub in S2 by lia.
        apply (byte_le (parseAutolink (sub src pos (spanEnd st)) + pos) 62); [rewrite <- S2; f_equal; lia|lia|reflexivity]. }
      destruct (parseHTMLTag rf (newReader src (unpFrom st) pos)) as [ts te] eqn:Eht.
      destruct (spanValid (ts, te)) eqn:Ev; cbn [negb fst snd]; [|split; [exact H1|left; reflexivity]].
      destruct (parseHTMLTag_shape rf (newReader src (unpFrom st) pos) ts te Hok1 Eht Ev) as (_ & _ & T3 & _). cbn [newReader r_src] in T3.
      split; [apply (byte_le te 62 T3); [lia|reflexivity]|right; reflexivity]. }
    destruct (Z.eqb_spec (at_ src pos) 92) as [E92|_].
    { assert (Hb : snd (parseBackslash (addText st ps pos) pos) <= TS).
      { unfold parseBackslash. cbv zeta. rewrite (proj1 (fr_addText st ps pos)), Es.
        destruct ((spanEnd (addText st ps pos) <=? pos + 1) || (at_ src (pos + 1) =? 10) || (at_ src (pos + 1) =? 13)) eqn:Ec.
        - destruct (isLastSpan _); cbn [snd]; [exact H1|].
          destruct (eolRun_spec src (spanEnd (addText st ps pos)) (length src) (pos + 1)) as (R1 & R2 & _).
          destruct (Z_le_gt_dec (eolRun (length src) src (pos + 1) (spanEnd (addText st ps pos))) TS) as [X|X]; [exact X|]. exfalso.
          specialize (R2 TS ltac:(lia)). unfold IS2.isEol in R2. rewrite HT2 in R2. discriminate.
        - apply orb_false_iff in Ec. destruct Ec as [Ec _]. apply orb_false_iff in Ec. destruct Ec as [Ec _].
          destruct (isASCIIPunctuation (at_ src (pos + 1))) eqn:Epu; cbn [snd]; [|exact H1].
          apply (byte_le (pos + 2) (at_ src (pos + 1))); [f_equal; lia| |].
          + intros X. rewrite X in Epu. discriminate.
          + destruct (isSpEol (at_ src (pos + 1))) eqn:Ew; [|reflexivity]. exfalso. unfold isSpEol in Ew.
            apply orb_true_iff in Ew. destruct Ew as [Ew|Ew]; [apply orb_true_iff in Ew; destruct Ew as [Ew|Ew]|]; apply Z.eqb_eq in Ew; rewrite Ew in Epu; discriminate. }
      destruct (parseBackslash (addText st ps pos) pos) as [st1 e]. cbn [fst snd] in *. split; [exact Hb|right; reflexivity]. }
    destruct (at_ src pos =? 38).
    { destruct (IFTokAux.spOK_In src U _ HOK (nth_In_Z U (upos st) d0 Hj)) as (A1 & A2 & A3). rewrite <- Hse in A3.
      destruct (Z.ltb_spec (parseCharacterEscape (sub src pos (spanEnd st))) 0) as [He|He]; cbn [fst snd]; [split; [exact H1|left; reflexivity]|].
      split; [|right; reflexivity]. destruct (parseCharacterEscape_shape _ _ eq_refl He) as (_ & S2 & S3 & S4).
      rewrite (SpanSmall.len_sub src pos (spanEnd st) ltac:(lia) A3) in S4. rewrite SpanSmall.at_sub in S2 by lia.
      apply (byte_le (pos + parseCharacterEscape (sub src pos (spanEnd st))) 59); [rewrite <- S2; f_equal; lia|lia|reflexivity]. }
    destruct (at_ src pos =? 10).
    { cbn [fst snd]. split; [exact H1|right; reflexivity]. }
    destruct (at_ src pos =? 13); cbn [fst snd]; [|split; [exact H1|left; reflexivity]].
    split; [|right; reflexivity].
    destruct ((pos + 1 <? spanEnd (addText st ps pos)) && (at_ src (pos + 1) =? 10)) eqn:Ew; [|exact H1].
    apply andb_true_iff in Ew. destruct Ew as [_ Ew]. apply Z.eqb_eq in Ew.
    destruct (Z.eq_dec (pos + 1) TS) as [X|X]; [rewrite X, HT2 in Ew; discriminate|lia].
  Qed.
End TS.
