From Coq Require Import List ZArith Lia Bool String Ascii.
Import ListNotations.
Require Import Base Tree LP Driver Inl3e Props BShDef.
Open Scope Z_scope.

Fixpoint bs (s : string) : bytes :=
  match s with EmptyString => [] | String c r => Z.of_nat (nat_of_ascii c) :: bs r end.
Definition nl := String (ascii_of_nat 10) EmptyString.
Definition tab := String (ascii_of_nat 9) EmptyString.
Definition cr := String (ascii_of_nat 13) EmptyString.
Definition nul := String (ascii_of_nat 0) EmptyString.
Definition chk (input : bytes) : bool * Z :=
  let '(rs, code) := parseBlocks input in
  (forallb (fun r => bshapes (rb_src r) (rb_blk r)) rs, code).
Definition chkF (input : bytes) : bool * Z :=
  let '(rs, code) := parseFull input in
  (forallb (fun r => bshapes (rb_src r) (rb_blk r)) rs, code).
Open Scope string_scope.
Definition t1 := bs ("- a" ++ nl ++ "- b" ++ nl ++ nl ++ "  c" ++ nl ++ "1. x" ++ nl ++ "   - y" ++ nl ++ "123456789) z" ++ nl ++ "   + w" ++ nl).
Definition t2 := bs ("> a" ++ nl ++ "> > b" ++ nl ++ "c" ++ nl ++ nl ++ " > d" ++ nl ++ "   >" ++ tab ++ "e").
Definition t3 := bs ("-" ++ tab ++ "a" ++ nl ++ "1." ++ tab ++ tab ++ "b" ++ nl ++ "*" ++ nl ++ "+ " ++ nl).
Definition t4 := bs ("Head" ++ nl ++ "====  " ++ nl ++ "[a]: /b" ++ nl ++ "h2" ++ nl ++ "---" ++ tab ++ cr ++ nl ++ "x" ++ cr ++ "  =" ++ cr ++ "y" ++ nl ++ "   -").
Definition t5 := bs ("```go" ++ nl ++ "x" ++ nl ++ nl ++ "y").
Definition t6 := bs ("###### x ######" ++ nl ++ "#" ++ nl ++ "#" ++ tab ++ "t" ++ nl ++ "## " ++ nl ++ "  ### a" ++ cr ++ nl ++ "####### no" ++ nl ++ "#").
Definition t7 := bs ("~~~~ info ``" ++ nl ++ "a" ++ nl ++ "~~~~~" ++ nl ++ "  ````" ++ nl ++ "  b" ++ nl ++ "```" ++ nl ++ "  ````" ++ nl ++ "```x" ++ nl).
Definition t8 := bs ("> - # h" ++ nl ++ ">   ## k ##" ++ nl ++ ">   para" ++ nl ++ ">   ===" ++ nl ++ "> - ```" ++ nl ++ ">   c" ++ nl).
Definition t9 := bs ("- [a]: /b" ++ nl ++ "  c" ++ nl ++ "  ===" ++ nl ++ "> [x]: /y" ++ cr ++ nl ++ "> [z]: /w 'tt" ++ nl ++ "> t'" ++ nl ++ "lazy" ++ nl).
Definition t10 := bs ("a" ++ nul ++ "b" ++ nl ++ "- " ++ nul ++ nl ++ "  x" ++ nul ++ nl ++ "=" ++ nl ++ nul ++ nl ++ "> " ++ nul ++ nl ++ "# " ++ nul ++ nl ++ "```" ++ nul ++ nl ++ nul ++ nl ++ "```").
Definition t11 := bs ("[a]: /b" ++ nl ++ "[c]: /d" ++ nl ++ "===" ++ nl).
Definition t12 := bs ("  [a]: /b" ++ nl ++ "  [c]" ++ nl ++ "===" ++ nl ++ "[q]: /r" ++ nl ++ "x" ++ nl ++ "-- " ++ tab ++ nl).
Definition t13 := bs ("1. a" ++ nl ++ nl ++ "   b" ++ nl ++ "2. c" ++ nl ++ "- x" ++ nl ++ "* y" ++ nl ++ "  > z" ++ nl ++ "  > w").
Definition t14 := bs ("> > quote" ++ nl ++ ">> q2" ++ nl ++ ">" ++ tab ++ "> q3" ++ nl ++ nl ++ ">>>" ++ nl).
Definition t15 := bs ("10. a" ++ nl ++ "    1) b" ++ nl ++ "       - c" ++ nl ++ "         + d" ++ nl ++ "0. z").
Definition t16 := bs ("a" ++ nl ++ "  ==  " ++ nl ++ "b" ++ nl ++ " -" ++ cr ++ "c" ++ nl ++ "=" ++ cr ++ nl ++ "d" ++ nl ++ "=").
Definition t17 := bs ("> [a]: /b" ++ nl ++ "> ===" ++ nl ++ "- [x]: /y" ++ nl ++ "  [z]" ++ nl ++ "  ---" ++ nl ++ tab ++ "z").
Definition t18 := bs ("- ```" ++ nl ++ "  x" ++ nl ++ "~~~" ++ nl ++ "> ~~~" ++ nl ++ "x" ++ nl ++ "> ```").
Definition t19 := bs ("[a]: /b" ++ nl ++ "x" ++ nl ++ "  ===" ++ nl ++ "[c]: /d 't'" ++ nl ++ "[e]: /f" ++ nl ++ "y" ++ nl ++ "---" ++ nl).
Definition t20 := bs ("[a]: /b 'x" ++ nl ++ "t'" ++ nl ++ "w" ++ nl ++ "=" ++ nl).
Definition all := [t1;t2;t3;t4;t5;t6;t7;t8;t9;t10;t11;t12;t13;t14;t15;t16;t17;t18;t19;t20].
Eval vm_compute in map chk all.
Eval vm_compute in map chkF all.
