(* QLnInlSt2.v -- T64 (renderer), towards lineOK: parseEndBracket, collectCodeSpan, istep, iloop, outer, parseInlines keep the invariant IL. *)
From Coq Require Import List ZArith Lia Bool.
Import ListNotations.
Require Import Base Tables Utf8 Tree Rdr Link Collect Html Recog Inl3a Inl3b Inl3c Inl3d Inl3e.
Require Import Leaf3e Leaf3n ShapesBase IS5a EolCRRenderInlG EolCRRenderInlSt QLnDefs QLnCollect QLnInlG QLnInlSt.
Open Scope Z_scope.

Section St2.
  Variable src : bytes.
  Notation BR := (BR src).
  Notation IL := (IL src).

  (* the forest satisfies BR with a bound b that may be smaller than nid (just after a wrap: b is the identity of the new node) *)
  Record IL2 (b : Z) (st : ist) : Prop := mkIL2 {
    i2_g : forallb (BR b) (rk st) = true;
    i2_b : 1 <= b <= nid st;
    i2_src : isrc st = src;
    i2_unp : forall u, In u (unp st) -> entOK u }.
  Lemma IL2_IL b st : IL2 b st -> IL st.
  Proof. intros [A B C D]. constructor; [apply (BRF_mono src b); [lia|exact A]|lia|exact C|exact D]. Qed.
  Lemma IL2_setStk b st v : IL2 b st -> IL2 b (setStk st v). Proof. intros [A B C D]. constructor; assumption. Qed.
  Lemma IL2_setUpos b st v : IL2 b st -> IL2 b (setUpos st v). Proof. intros [A B C D]. constructor; assumption. Qed.
  Lemma IL2_advanceTo b st p : IL2 b st -> IL2 b (advanceTo st p).
  Proof. intros H. unfold advanceTo. destruct (0 <=? _); apply IL2_setUpos, H. Qed.
  Lemma IL2_updN b st id g : IL2 b st -> (forall n, BR b n = true -> pid n = id -> BR b (g n) = true) -> IL2 b (updN st id g).
  Proof. intros [A B C D] Hg. unfold updN. constructor; cbn [rk nid isrc unp setRk]; try assumption. apply BR_updNode; assumption. Qed.
  Lemma IL2_span b st s e : IL2 b st -> IL2 b (updN st b (fun n => setSpan n s e)).
  Proof. intros H. apply IL2_updN; [exact H|]. intros n Hn E. apply BR_setSpan_fresh; [lia|exact Hn]. Qed.
  Lemma IL2_spanRef b st s e rf : IL2 b st -> IL2 b (updN st b (fun n => setRef (setSpan n s e) rf)).
  Proof. intros H. apply IL2_updN; [exact H|]. intros n Hn E. rewrite BR_setRef. apply BR_setSpan_fresh; [lia|exact Hn]. Qed.
  Lemma IL2_appendKid b st id k : IL2 b st -> BR b k = true -> IL2 b (appendKid st id k).
  Proof. intros H Hk. unfold appendKid. apply IL2_updN; [exact H|]. intros n Hn _. apply BR_appendKid; assumption. Qed.
  Lemma IL2_unpFrom b st : IL2 b st -> forall u, In u (unpFrom st) -> entOK u.
  Proof. intros H u Hu. apply (i2_unp _ _ H). unfold unpFrom in Hu. eapply from_in, Hu. Qed.

  Lemma part_BR b st K s e rf tk esc fuel pos e' (c : bool) : IL2 b st -> brk K = false -> brk tk = false ->
    BR b (PN 0 K s e 0 rf (if c then kidsOf (collectTextNodes fuel (newReader src (unpFrom st) pos) e' tk esc) else [])) = true.
  Proof.
    intros H HK Htk. apply BR_mk; cbn [pkind ps pe pid pkids]; [apply nodeOK_other, HK|rewrite HK; discriminate|].
    destruct c; [|reflexivity]. apply kids_BR; [apply (i2_b _ _ H)|apply (IL2_unpFrom b st H)|exact Htk].
  Qed.

  Ltac il2 HK :=
    first [ exact HK
          | match goal with
            | |- IL2 _ (if ?c then _ else _) => destruct c eqn:?; il2 HK
            | |- IL2 _ (appendKid _ _ _) => apply IL2_appendKid; [il2 HK|il2 HK]
            | |- IL2 _ (updN _ _ (fun n => setSpan n _ _)) => apply IL2_span; il2 HK
            | |- IL2 _ (updN _ _ (fun n => setRef (setSpan n _ _) _)) => apply IL2_spanRef; il2 HK
            | |- IL2 _ (advanceTo _ _) => apply IL2_advanceTo; il2 HK
            | |- QLnInlG.BR _ _ (PN 0 _ _ _ 0 _ _) = true => apply part_BR; [il2 HK|reflexivity|reflexivity]
            end ].

  Lemma IL_parseEndBracket st start : IL st -> IL (fst (parseEndBracket st start)).
  Proof.
    intros H. pose proof (il_src _ _ H) as Esrc. unfold parseEndBracket. cbv zeta.
    assert (H1 : IL (fst (lookForLinkOrImage st))) by (unfold lookForLinkOrImage; apply IL_lfl; exact H).
    assert (Es1 : isrc (fst (lookForLinkOrImage st)) = isrc st) by (rewrite (il_src _ _ H1), Esrc; reflexivity).
    destruct (lookForLinkOrImage st) as [st1 odi]. cbn [fst snd] in H1, Es1.
    destruct (Z.ltb_spec odi 0) as [Hneg|Hpos]. { cbn [fst]. apply IL_addText. exact H1. }
    remember (if d_typ (nthD (stk st1) odi) =? tImage then ImageKind else LinkKind) as kind eqn:Ekind.
    assert (Hk : brk kind = false) by (subst kind; destruct (_ =? tImage); reflexivity).
    destruct (wrap_forest src st1 kind (d_node (nthD (stk st1) odi)) None H1 Hk) as (HF & Elid & Enid & Eis & Eun & _).
    assert (HK : IL2 (nid st1) (fst (wrap st1 kind (d_node (nthD (stk st1) odi)) None))).
    { constructor; [exact HF|pose proof (il_nid _ _ H1); lia|rewrite Eis; apply (il_src _ _ H1)|rewrite Eun; apply (il_unp _ _ H1)]. }
    assert (Hfail : IL (setStk (addText st1 start (start + 1)) (delStack (stk st1) odi (odi + 1)))) by (apply IL_setStk, IL_addText, H1).
    clear HF Enid Eis Eun. unfold wrap in HK, Elid |- *. cbn [fst snd] in HK, Elid. cbv iota beta.
    set (st2 := bumpId (setRk st1 _)) in *. rewrite Esrc in *.
    match goal with |- context [match ?X with Some _ => _ | None => _ end] => destruct X as [[[[[ispan dspan] dtext] tspan] ttext]|] eqn:EX end.
    - cbn [fst]. apply IL_finishLink. apply (IL2_IL (nid st1)). il2 HK.
    - clear EX.
      match goal with |- IL (fst (match ?X with pair _ _ => _ end)) => destruct X as [lspan linner] end.
      destruct (_ && _ && _).
      + destruct (negb (matchRef _ _)); [cbn [fst]; assumption|].
        cbn [fst]. apply IL_finishLink. apply (IL2_IL (nid st1)). il2 HK.
      + destruct (spanValid lspan).
        * destruct (negb (matchRef _ _)); [cbn [fst]; assumption|].
          cbn [fst]. apply IL_finishLink. apply (IL2_IL (nid st1)). apply IL2_advanceTo, IL2_span, IL2_appendKid; [exact HK|].
          pose proof (part_BR (nid st1) st1 LinkLabelKind (fst lspan) (snd lspan)
                        (transformLinkReference (rfuelOf st) src (collectTextNodes (rfuelOf st) (newReader src (unpFrom st1) (fst linner)) (snd linner) TextKind false))
                        TextKind false (rfuelOf st) (fst linner) (snd linner) true) as HP.
          apply HP; [|reflexivity|reflexivity]. constructor; [apply (BRF_mono src (nid st1)); [lia|apply (il_g _ _ H1)]|pose proof (il_nid _ _ H1); lia|apply (il_src _ _ H1)|apply (il_unp _ _ H1)].
        * destruct (negb (matchRef _ _)); [cbn [fst]; assumption|].
          cbn [fst]. apply IL_finishLink. apply (IL2_IL (nid st1)). il2 HK.
  Qed.

  (* ---- collectCodeSpan: the children are childless Text / Indent nodes ---- *)
  Definition flatL (n : pn) : Prop := lfb n = true.
  Lemma flatLF l : Forall flatL l -> forallb lfb l = true.
  Proof. intros H. apply forallb_forall. rewrite Forall_forall in H. exact H. Qed.
  Lemma cs_addSpan_flatL s0 acc s e : Forall flatL acc -> Forall flatL (cs_addSpan s0 acc s e).
  Proof.
    intros H. unfold cs_addSpan. cbv zeta.
    repeat match goal with |- context [if ?c then _ else _] => destruct c end;
      repeat (apply Forall_app; split); try assumption; repeat constructor.
  Qed.
  Lemma flatL_setInd n v : flatL n -> flatL (setInd n v). Proof. destruct n; cbn; tauto. Qed.
  Lemma flatL_setSpan n s e : flatL n -> flatL (setSpan n s e). Proof. destruct n; cbn; tauto. Qed.
  Lemma Forall_revL {A} (P : A -> Prop) l : Forall P l -> Forall P (rev l).
  Proof. intros H. rewrite Forall_forall in *. intros x Hx. apply H. apply in_rev. assumption. Qed.
  Lemma strip_flatL s0 sl : Forall flatL sl -> Forall flatL (stripCodeSpanSpace s0 sl).
  Proof.
    intros H. unfold stripCodeSpanSpace.
    destruct (negb (existsb _ sl)); [assumption|].
    destruct sl as [|f r]; [assumption|].
    destruct (rev (f :: r)) as [|lst rr] eqn:Er; [assumption|].
    destruct (negb _ || negb _); [assumption|].
    cbv zeta.
    assert (H1 : Forall flatL (if pkind f =? IndentKind
                               then if pind (setInd f (pind f - 1)) =? 0 then r else setInd f (pind f - 1) :: r
                               else if plen (setSpan f (ps f + 1) (pe f)) =? 0 then r else setSpan f (ps f + 1) (pe f) :: r)).
    { inversion H as [|? ? Hf Hr]; subst.
      destruct (pkind f =? IndentKind); [destruct (pind _ =? 0)|destruct (plen _ =? 0)]; try assumption;
        constructor; try assumption; [apply flatL_setInd|apply flatL_setSpan]; assumption. }
    set (sl1 := if pkind f =? IndentKind then _ else _) in *.
    destruct (rev sl1) as [|l rr'] eqn:Er1; [assumption|].
    assert (H2 : Forall flatL (l :: rr')) by (rewrite <- Er1; apply Forall_revL; assumption).
    inversion H2 as [|? ? Hl Hrr]; subst.
    destruct (pkind l =? IndentKind); match goal with |- context [if ?c then _ else _] => destruct c end;
      try (apply Forall_revL; assumption);
      apply (Forall_revL flatL (_ :: rr')); constructor; try assumption; [apply flatL_setInd|apply flatL_setSpan]; assumption.
  Qed.

  Lemma IL_collectCodeSpan st a b c d : IL st -> IL (collectCodeSpan st a b c d).
  Proof.
    intros H. unfold collectCodeSpan. cbv zeta.
    destruct (nodeIndexForPosition (unpFrom st) d =? 0).
    - apply IL_plain; [assumption|reflexivity|]. apply flatLF, strip_flatL, cs_addSpan_flatL. constructor.
    - match goal with |- context [?F (Z.to_nat _) (cs_addSpan (isrc st) [] ?x ?y) (upos st)] =>
        assert (HM : forall k acc up, Forall flatL acc -> Forall flatL (fst (F k acc up))) end.
      { induction k as [|k IHk]; intros acc up Ha; [exact Ha|]. cbn [fst]. apply IHk.
        destruct (ikind _ =? UnparsedKind); [apply cs_addSpan_flatL|]; assumption. }
      match goal with |- context [?F (Z.to_nat ?n) (cs_addSpan (isrc st) [] ?x ?y) (upos st)] =>
        specialize (HM (Z.to_nat n) (cs_addSpan (isrc st) [] x y) (upos st) (cs_addSpan_flatL _ _ _ _ (Forall_nil _)));
        destruct (F (Z.to_nat n) (cs_addSpan (isrc st) [] x y) (upos st)) as [acc up] end.
      cbn [fst] in HM.
      apply IL_plain; [apply IL_setUpos; assumption|reflexivity|].
      apply flatLF, strip_flatL, cs_addSpan_flatL. assumption.
  Qed.

  (* ---- one step of the tokeniser ---- *)
  Lemma IL_istep st pos pl : IL st -> IL (fst (fst (istep st pos pl))).
  Proof.
    intros H. pose proof (il_src _ _ H) as Esrc. unfold istep. cbv zeta.
    assert (HT : IL (addText st pl pos)) by (apply IL_addText; assumption).
    destruct ((_ =? 42) || (_ =? 95)).
    { pose proof (IL_parseDelimiterRun src _ pos HT) as H2. destruct (parseDelimiterRun _ pos) as [st2 e]. exact H2. }
    destruct (_ =? 91).
    { match goal with |- context [addNode ?a ?b ?c ?d ?e] =>
        pose proof (fun mk => IL_push src a b c d e mk HT eq_refl eq_refl) as H2; destruct (addNode a b c d e) as [st2 id] end.
      cbn [fst snd] in *. apply (H2 (fun id => {| d_typ := _; d_flags := _; d_n := _; d_node := id |})). }
    destruct (_ =? 93).
    { pose proof (IL_parseEndBracket _ pos HT) as H2. destruct (parseEndBracket _ pos) as [st2 e]. exact H2. }
    destruct (_ =? 33).
    { destruct (_ || _); [exact H|].
      match goal with |- context [addNode ?a ?b ?c ?d ?e] =>
        pose proof (fun mk => IL_push src a b c d e mk HT eq_refl eq_refl) as H2; destruct (addNode a b c d e) as [st2 id] end.
      cbn [fst snd] in *. apply (H2 (fun id => {| d_typ := _; d_flags := _; d_n := _; d_node := id |})). }
    destruct (_ =? 32).
    { destruct (parseHardLineBreakSpace _) as [e ok]. destruct (ok && _); [|exact H].
      cbn [fst]. apply IL_setIgn. apply IL_plain; [assumption|reflexivity|reflexivity]. }
    destruct (_ =? 96).
    { destruct (parseCodeSpan (rfuelOf st) st pos) as [[cS cE] sE]. destruct (0 <=? sE); [|exact H].
      cbn [fst]. apply IL_collectCodeSpan. exact HT. }
    destruct (_ =? 60).
    { destruct (0 <=? parseAutolink _).
      - cbn [fst]. apply IL_plain; [exact HT|reflexivity|reflexivity].
      - destruct (parseHTMLTag _ _) as [ts te]. destruct (negb _); [exact H|]. cbn [fst].
        apply IL_advanceTo.
        assert (HT' : IL (addText st pl ts)) by (apply IL_addText; assumption).
        apply IL_addNode; [exact HT'|reflexivity|]. rewrite Esrc. apply kids_BR; [pose proof (il_nid _ _ HT'); lia|apply (unpFrom_ent src _ HT')|reflexivity]. }
    destruct (_ =? 92).
    { pose proof (IL_parseBackslash src _ pos HT) as H2. destruct (parseBackslash _ pos) as [st2 e]. exact H2. }
    destruct (Z.eqb_spec (at_ (isrc st) pos) 38) as [E38|E38].
    { destruct (Z.ltb_spec (parseCharacterEscape (sub (isrc st) pos (spanEnd st))) 0) as [L|L]; [exact H|]. cbn [fst].
      apply IL_addNode; [exact HT| |reflexivity]. unfold nodeOK. change (CharacterReferenceKind =? CharacterReferenceKind) with true. cbv iota.
      rewrite <- Esrc. apply (charref_crb (isrc st) pos (spanEnd st)); [|reflexivity|exact L].
      pose proof (at_nonzero_lt (isrc st) pos ltac:(rewrite E38; discriminate)). lia. }
    destruct (_ =? 10).
    { cbn [fst]. destruct (negb _); [|assumption]. apply IL_addNode; [exact HT| |reflexivity].
      unfold nodeOK. change (SoftLineBreakKind =? CharacterReferenceKind) with false. change (SoftLineBreakKind =? SoftLineBreakKind) with true. cbv iota.
      apply rng_empty. lia. }
    destruct (Z.eqb_spec (at_ (isrc st) pos) 13) as [E13|E13].
    { cbn [fst]. destruct (negb _); [|assumption]. apply IL_addNode; [exact HT| |reflexivity].
      unfold nodeOK. change (SoftLineBreakKind =? CharacterReferenceKind) with false. change (SoftLineBreakKind =? SoftLineBreakKind) with true. cbv iota.
      apply rng_spec. intros x Hx. assert (x = pos) by (destruct (_ && _); lia). subst x. rewrite <- Esrc, E13. reflexivity. }
    exact H.
  Qed.

  Lemma iloop_IL : forall fuel st pos pl, IL st -> IL (fst (iloop fuel st pos pl)).
  Proof.
    induction fuel as [|f IH]; intros st pos pl H; cbn [iloop]; [exact H|].
    destruct (_ && _); [|exact H].
    pose proof (IL_istep st pos pl H) as H2. destruct (istep st pos pl) as [[st' pos'] pl']. cbn [fst] in H2. apply IH, H2.
  Qed.

  Lemma IL_pushU st u : IL st -> entOK u -> IL (setRk st (rk st ++ [ofInline u])).
  Proof.
    intros H [Hk Hb]. apply IL_setRk; [exact H|]. apply BRF_app. split; [exact (il_g _ _ H)|]. cbn [forallb]. rewrite andb_true_r.
    apply lfb_BR. destruct u as [k s e ind rf ks]. cbn [ikids ikind] in *. subst ks. unfold lfb. cbn. rewrite Hb. reflexivity.
  Qed.
  Lemma nth_ent st j : IL st -> entOK (nth j (unp st) (mkI 0 0 0)).
  Proof.
    intros H. destruct (nth_in_or_default j (unp st) (mkI 0 0 0)) as [Hin|Hd]; [apply (il_unp _ _ H), Hin|rewrite Hd; split; reflexivity].
  Qed.

  Lemma outer_IL : forall fuel st, IL st -> IL (outer fuel st).
  Proof.
    induction fuel as [|f IH]; intros st H; cbn [outer]; [exact H|].
    destruct (_ <=? _); [exact H|]. cbv zeta.
    set (u := nth (Z.to_nat (upos st)) (unp st) (mkI 0 0 0)). pose proof (nth_ent st (Z.to_nat (upos st)) H) as Hu. fold u in Hu.
    apply IH. apply IL_setUpos.
    destruct (ikind u =? 0); [apply IL_setIgn, H|].
    destruct (ikind u =? IndentKind).
    { destruct (negb (ign st)); [apply IL_pushU; assumption|exact H]. }
    destruct (ikind u =? UnparsedKind).
    { match goal with |- context [iloop ?F ?S ?P ?Q] => pose proof (iloop_IL F S P Q (IL_setIgn src st false H)) as H2; destruct (iloop F S P Q) as [st' pl'] end.
      cbn [fst] in H2. apply IL_addText, H2. }
    apply (IL_pushU (setIgn st false) u); [apply IL_setIgn, H|exact Hu].
  Qed.

  Theorem parseInlines_LNI m b : (forall u, In u (bik b) -> entOK u) -> forallb (LNI src) (parseInlines src m b) = true.
  Proof.
    intros HU. unfold parseInlines. cbv zeta.
    set (st0 := {| rk := []; isrc := src; unp := bik b; upos := 0; stk := []; ign := false; nid := 1; rootEnd := bend b; matcher := m |}).
    assert (G0 : IL st0) by (constructor; cbn [rk nid stk isrc unp st0]; [reflexivity|lia|reflexivity|exact HU]).
    pose proof (IL_processEmphasis src _ 0 (outer_IL (S (length (bik b))) st0 G0)) as H.
    apply (BRF_LNI src _ _ (il_g _ _ H)).
  Qed.
End St2.
Print Assumptions parseInlines_LNI.
