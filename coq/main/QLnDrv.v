From Coq Require Import List ZArith Lia Bool.
Import ListNotations.
Require Import Base Tables Utf8 Tree Rdr Link Collect Html Recog Inl3a Inl3b Inl3c Inl3d Inl3e LP Rules Starts Driver Leaf3e RdrBound
  L2Kind L2CC L2CCfull L2Bnd L2BndS Rec16 Rec17 Rec18
  BSDef BSRdr BSTree BSOcp BSOrph BSClose BSLine1 BSLine2 BSLine3 BSLine4 BSLine5 BSLine6 BSLine7 BSLine8 BSErase BSLine9 BSLine10 BSShift BlockSpans.
Require Import BlockShapesNul.
Require Import ShapesBase EntBase EntOcpDefs EntOcp En2Tree EntCur En2LP1 En2LP8 En2Drv.
Require Import ExRdr ExOcp ExInv2 QLnInv1.
Open Scope Z_scope.

(* ================================================================================================
   T52, part 5 (ExDrv): the two new invariants through the stream layer, next to the invariants of En2Drv (whose
   driver lemmas are repeated with the two extra components, so that the root fact shares the buffer B):
     QLnInv1.inv B   children of the exempt entries (kinds, childlessness, '&' .. ';' of character references in B);
     ExInv2.invX    spans of the entries of definition blocks.
   ================================================================================================ *)

(* ---- the paragraph facts needed at the start of a line, from the invariant en ---- *)
Lemma lines_gB B M L : M <= L -> forall ik, lines B M ik -> gB L ik = true.
Proof.
  intros HM. unfold gB. induction ik as [|u r IH]; [reflexivity|]. intros (A & A1 & A2).
  specialize (IH A2). apply andb_true_iff in IH. destruct IH as [I1 I2].
  cbn [sortedSb forallb]. rewrite I1, I2, !andb_true_r. apply andb_true_iff. split.
  - apply forallb_forall. intros j Hj. apply Z.leb_le. apply (A1 j Hj).
  - unfold spLb. destruct A as [(_ & _ & U1 & U2 & U3 & _)|((_ & _ & V1 & V2 & _) & Hn)].
    + apply andb_true_iff. split; [apply andb_true_iff; split|]; [apply Z.leb_le|apply Z.ltb_lt|apply Z.leb_le]; lia.
    + destruct r as [|v r']; [destruct Hn|]. destruct Hn as [_ Ev]. cbn [forallb] in I2. apply andb_true_iff in I2. destruct I2 as [I2 _].
      unfold spLb in I2. apply andb_true_iff in I2. destruct I2 as [I2 I3]. apply andb_true_iff in I2. destruct I2 as [_ I2].
      apply Z.ltb_lt in I2. apply Z.leb_le in I3.
      apply andb_true_iff. split; [apply andb_true_iff; split|]; [apply Z.leb_le|apply Z.ltb_lt|apply Z.leb_le]; lia.
Qed.

Lemma en_inv2 src B M : M <= len src -> forall b, en B M b -> invX b = true -> inv2 src b = true.
Proof.
  intros HM. fix IH 1. intros [K s e bk ik a n c l lb] He Hx. cbn [en] in He. destruct He as [Hik Hk].
  cbn [invX] in Hx. apply andb_true_iff in Hx. destruct Hx as [Hx Hxk]. cbn [inv2]. rewrite Hx, andb_true_r.
  apply andb_true_iff. split.
  - unfold locQ. cbn [bend bkind bik]. destruct (Z.ltb_spec e 0) as [L|L]; [|reflexivity]. destruct (isPSb K) eqn:Ep; [|reflexivity]. cbn [andb negb orb].
    destruct Hik as (P1 & _ & P3 & _).
    assert (HP : isPS K) by (unfold isPSb in Ep; apply orb_true_iff in Ep; destruct Ep as [Ep|Ep]; apply Z.eqb_eq in Ep; [left|right]; exact Ep).
    destruct (P1 HP) as (Hl & _). rewrite (bound_open M e L) in Hl. rewrite (lines_gB B M (len src) HM ik Hl). cbn [andb].
    pose proof (P3 L) as N. apply Z.eqb_neq in N. rewrite N. reflexivity.
  - clear Hik Hx. induction bk as [|x r IHr]; [reflexivity|]. cbn [forallb allP] in *. destruct Hk as [A B']. apply andb_true_iff in Hxk. destruct Hxk as [C D].
    rewrite (IH x A C), (IHr B' D). reflexivity.
Qed.
Lemma en_inv2L src B M l : M <= len src -> allP (en B M) l -> invXL l = true -> inv2L src l = true.
Proof.
  intros HM. induction l as [|x r IH]; [reflexivity|]. cbn [allP]. intros [A B'] H. unfold invXL in H. cbn [forallb] in H. apply andb_true_iff in H. destruct H as [C D].
  unfold inv2L. cbn [forallb]. rewrite (en_inv2 src B M HM x A C). apply IH; assumption.
Qed.

(* ---- the shift of the pending blocks ---- *)
Lemma inv1_shift B n : 0 <= n -> forall b, QLnInv1.inv B b = true -> QLnInv1.inv (from_ B n) (shiftB (- n) b) = true.
Proof.
  intros Hn. fix IH 1. intros [k s e bk ik a nn c l lb] H. cbn [QLnInv1.inv] in H. apply andb_true_iff in H. destruct H as [Hi Hk].
  cbn [shiftB QLnInv1.inv]. apply andb_true_iff. split.
  - clear Hk. induction ik as [|x r IHr]; [reflexivity|]. cbn [map forallb] in *. apply andb_true_iff in Hi. destruct Hi as [A B']. rewrite (eE_shift B n x Hn A), (IHr B'). reflexivity.
  - clear Hi. induction bk as [|x r IHr]; [reflexivity|]. cbn [map forallb] in *. apply andb_true_iff in Hk. destruct Hk as [A B']. rewrite (IH x A), (IHr B'). reflexivity.
Qed.
Lemma inE_shift s e n u : 0 <= s -> inE s e u = true -> inE (s + - n) (if 0 <=? e then e + - n else e) (shiftI (- n) u) = true.
Proof.
  destruct u as [kd a b ind rf ks]. unfold inE. cbn [shiftI istart iend]. intros Hs H. apply andb_true_iff in H. destruct H as [H C]. apply andb_true_iff in H. destruct H as [A B'].
  apply Z.leb_le in A, B', C. destruct (Z.leb_spec 0 b); [|lia]. destruct (Z.leb_spec 0 e); [|lia].
  apply andb_true_iff. split; [apply andb_true_iff; split|]; apply Z.leb_le; lia.
Qed.
Lemma invX_shift n : 0 <= n -> forall b, invX b = true -> invX (shiftB (- n) b) = true.
Proof.
  intros Hn. fix IH 1. intros [k s e bk ik a nn c l lb] H. cbn [invX] in H. apply andb_true_iff in H. destruct H as [Hx Hk].
  cbn [shiftB invX]. apply andb_true_iff. split.
  - clear Hk. unfold locX in *. cbn [bkind bstart bend bik] in *. destruct (k =? LinkReferenceDefinitionKind); [|reflexivity]. cbn [negb orb] in *.
    destruct (Z.leb_spec 0 (s + - n)) as [L|L]; [|reflexivity]. cbn [negb orb].
    destruct (Z.leb_spec 0 s) as [L'|L']; [|lia]. cbn [negb orb] in Hx. apply andb_true_iff in Hx. destruct Hx as [A B'].
    apply Z.leb_le in A. apply andb_true_iff. split; [destruct (Z.leb_spec 0 e); [apply Z.leb_le|]; lia|].
    rewrite forallb_forall in *. intros x Hxi. apply in_map_iff in Hxi. destruct Hxi as (y & <- & Hy). apply inE_shift; [exact L'|apply B', Hy].
  - clear Hx. induction bk as [|x r IHr]; [reflexivity|]. cbn [map forallb] in *. apply andb_true_iff in Hk. destruct Hk as [A B']. rewrite (IH x A), (IHr B'). reflexivity.
Qed.

(* ---- the stream state ---- *)
Definition XJ (s : bpst) (ch : list block) : Prop := QLnInv1.invL (buf s) ch = true /\ invXL ch = true.
Definition okRL (r : rootB) : Prop :=
  exists B M, 0 <= bend (rb_blk r) <= len B /\ rb_src r = fillNulls (upto B (bend (rb_blk r))) /\ en B M (rb_blk r) /\
              tri (upto B (bend (rb_blk r))) /\ QLnInv1.inv B (rb_blk r) = true /\ invX (rb_blk r) = true.
Definition okNL (x : nb) : Prop :=
  match x with NBBlock r s' => okRL r /\ (exists ns, SJ s' (pending s') ns) /\ EJ s' (pending s') /\ XJ s' (pending s') | _ => True end.

Lemma XJ_makeRoot s children ns r s' : SJ s children ns -> EJ s children -> XJ s children -> makeRoot children s = Some (r, s') ->
  okRL r /\ EJ s' (pending s') /\ XJ s' (pending s').
Proof.
  intros HS HE [X1 X2] Hm. destruct (EJ_makeRoot _ _ _ _ _ HS HE Hm) as [_ He'].
  destruct HS as ((Hb & Hc & Hn) & Hcc & Ha & Hch). destruct HE as (He & Hp & Ht).
  unfold makeRoot in Hm. destruct children as [|b rest]; [discriminate|].
  destruct (isOpen b) eqn:Eo; [discriminate|]. inversion Hm; subst. clear Hm.
  unfold isOpen in Eo. apply Z.ltb_ge in Eo. cbn [rb_blk rb_src buf pending] in *.
  unfold QLnInv1.invL in X1. cbn [forallb] in X1. apply andb_true_iff in X1. destruct X1 as [A1 A2].
  unfold invXL in X2. cbn [forallb] in X2. apply andb_true_iff in X2. destruct X2 as [B1 B2].
  destruct Ha as [Sb Sr]. destruct He as [Eb Er]. pose proof (sp_bounds _ _ Sb) as Hbb.
  destruct (tri_cut (buf s) Ht (bend b) (en_end_bdy _ _ _ Eb Eo)) as [T1 T2].
  split; [|split; [exact He'|split]].
  - exists (buf s), (bi s). cbn [rb_blk rb_src]. split; [lia|]. split; [reflexivity|]. split; [exact Eb|]. split; [exact T1|]. split; assumption.
  - unfold QLnInv1.invL. rewrite forallb_forall in *. intros x Hx. apply in_map_iff in Hx. destruct Hx as (y & <- & Hy). apply inv1_shift; [exact Eo|apply A2, Hy].
  - unfold invXL. rewrite forallb_forall in *. intros x Hx. apply in_map_iff in Hx. destruct Hx as (y & <- & Hy). apply invX_shift; [exact Eo|apply B2, Hy].
Qed.

Lemma XJ_lineLoop : forall fuel st children ls s ns, 0 <= ls <= len (buf s) -> bi s = lineEnd (buf s) ls ->
  bndL ls ns children = true -> (ns = false -> ls = len (buf s)) -> ccF children = true -> kidsOK ls children ->
  allP (en (buf s) ls) children -> prevOK (buf s) ls -> tri (buf s) ->
  QLnInv1.invL (buf s) children = true -> invXL children = true ->
  okNL (lineLoop fuel st children ls s).
Proof.
  induction fuel as [|f IH]; intros st children ls s ns Hls Hbi Hc Hn Hcc Hk He Hp Ht X1 X2; [exact I|]. cbn [lineLoop].
  destruct (lineEnd_spec (buf s) ls Hls) as [A B]. rewrite <- Hbi in A, B.
  set (ln := from_ (upto (buf s) (bi s)) ls).
  destruct (line_of (buf s) ls (bi s) ltac:(lia) ltac:(lia)) as [Ll _]. fold ln in Ll.
  set (ns' := if ns then hasByteSuffixEOL ln else false).
  assert (Hc' : bndL (bi s) ns' children = true).
  { unfold ns'. destruct ns.
    - pose proof (bndL_mono ls (bi s) children ltac:(lia) Hc) as Hm. destruct (hasByteSuffixEOL ln); [exact Hm|apply bndL_weaken, Hm].
    - rewrite (Hn eq_refl) in *. replace (bi s) with (len (buf s)) by lia. exact Hc. }
  assert (Hn' : ns' = false -> bi s = len (buf s)).
  { unfold ns'. destruct ns; [|intros _; rewrite (Hn eq_refl) in *; lia].
    intros Ee. destruct (Z.lt_ge_cases (bi s) (len (buf s))) as [Lt|Ge]; [|lia].
    exfalso. rewrite Hbi in Lt. pose proof (line_hasEOL (buf s) ls Hls Lt) as Hh. rewrite <- Hbi in Hh. fold ln in Hh. congruence. }
  pose proof (bnd_processLine (bi s) ns' st children ls (upto (buf s) (bi s)) ltac:(lia) ltac:(lia) ltac:(fold ln; lia)
                ltac:(rewrite L2BndS.len_upto by lia; lia) ltac:(unfold ns'; fold ln; destruct ns; [tauto|discriminate]) Hc') as H1.
  pose proof (sp_processLine (bi s) ns' st children ls (upto (buf s) (bi s)) ltac:(lia) ltac:(lia) ltac:(fold ln; lia)
                ltac:(rewrite L2BndS.len_upto by lia; lia) ltac:(unfold ns'; fold ln; destruct ns; [tauto|discriminate]) Hc' Hcc Hk) as H2.
  pose proof (cc_processLine st children ls (upto (buf s) (bi s)) Hcc) as H3.
  pose proof (ent_processLine (buf s) (bi s) st children ls ltac:(lia) ltac:(lia) ltac:(lia) Hp
                ltac:(rewrite Hbi; apply lineEnd_lineOK, Hls) Hcc Hk He) as H4.
  pose proof (QLnInv1.inv_processLine (upto (buf s) (bi s)) (buf s) (agreeNZ_upto (buf s) (bi s)) st children ls X1) as H5.
  assert (Hi2 : inv2L (upto (buf s) (bi s)) children = true).
  { apply (en_inv2L _ (buf s) ls); [rewrite L2BndS.len_upto by lia; lia|exact He|exact X2]. }
  pose proof (X_processLine (upto (buf s) (bi s)) (bi s) ltac:(lia) ns' st children ls ltac:(lia) ltac:(fold ln; lia)
                ltac:(rewrite L2BndS.len_upto by lia; lia) ltac:(unfold ns'; fold ln; destruct ns; [tauto|discriminate]) Hc' Hi2) as H6.
  destruct (processLine st children ls (upto (buf s) (bi s))) as [[children' st'] pn]. cbn [fst] in H1, H2, H3, H4, H5, H6.
  destruct (negb (pn =? 0)); [exact I|].
  assert (HS : SJ s children' ns') by (split; [repeat split; try lia; assumption|split; assumption]).
  assert (Hp' : prevOK (buf s) (bi s)).
  { destruct (Z.lt_ge_cases (bi s) (len (buf s))) as [Lt|Ge]; [|right; right; lia]. destruct (B Lt) as [_ D]. right. left. apply isEOLb_z, D. }
  assert (HE : EJ s children') by (split; [assumption|split; assumption]).
  assert (HX : XJ s children') by (split; assumption).
  destruct (makeRoot children' s) as [[r s']|] eqn:Em.
  - cbn [okNL]. destruct (SJ_makeRoot _ _ _ _ _ HS Em) as [_ Hs']. destruct (XJ_makeRoot _ _ _ _ _ HS HE HX Em) as (Hr & He' & Hx').
    split; [exact Hr|split; [eauto|split; assumption]].
  - apply (IH st' children' (bi s) _ ns'); cbn [buf bi]; try assumption; try lia; reflexivity.
Qed.

Lemma XJ_skipLoop : forall fuel s, bi s = 0 -> tri (buf s) -> okNL (skipLoop fuel s).
Proof.
  induction fuel as [|f IH]; intros s Hb Ht; [exact I|]. cbn [skipLoop]. cbv zeta.
  destruct (negb _); [exact I|].
  assert (Hls : 0 <= bi s <= len (buf s)) by (pose proof (len_nonneg (buf s)); lia).
  destruct (isBlankLine _).
  - apply IH; [reflexivity|]. cbn [buf]. apply tri_cut; [exact Ht|]. apply prevOK_bdy.
    destruct (lineEnd_spec (buf s) (bi s) Hls) as [A B]. destruct (Z.lt_ge_cases (lineEnd (buf s) (bi s)) (len (buf s))) as [Lt|Ge]; [|right; right; lia].
    destruct (B Lt) as [_ D]. right. left. apply isEOLb_z, D.
  - apply (XJ_lineLoop f 0 [] 0 _ true); cbn [buf bi];
      [lia|rewrite Hb; reflexivity|reflexivity|discriminate|reflexivity|split; exact I|exact I|left; reflexivity|exact Ht|reflexivity|reflexivity].
Qed.

Lemma XJ_nextBlock fuel s ns : SJ s (pending s) ns -> EJ s (pending s) -> XJ s (pending s) -> okNL (nextBlock fuel s).
Proof.
  intros HS HE HX. unfold nextBlock. destruct (makeRoot (pending s) s) as [[r s']|] eqn:Em.
  - cbn [okNL]. destruct (SJ_makeRoot _ _ _ _ _ HS Em) as [_ Hs']. destruct (XJ_makeRoot _ _ _ _ _ HS HE HX Em) as (Hr & He' & Hx').
    split; [exact Hr|split; [eauto|split; assumption]].
  - destruct HS as ((Hb & Hc & Hn) & Hcc & Hk). destruct HE as (He & Hp & Ht). destruct HX as [X1 X2]. destruct (pending s) as [|b0 rest] eqn:Ep.
    + apply XJ_skipLoop; [reflexivity|]. cbn [buf]. apply tri_cut; [exact Ht|apply prevOK_bdy, Hp].
    + apply (XJ_lineLoop fuel 0 (b0 :: rest) (bi s) _ ns); cbn [buf bi]; try assumption; try lia; reflexivity.
Qed.

Lemma XJ_allBlocks : forall fuel s acc ns, SJ s (pending s) ns -> EJ s (pending s) -> XJ s (pending s) -> Forall okRL acc ->
  Forall okRL (fst (allBlocks fuel s acc)).
Proof.
  induction fuel as [|f IH]; intros s acc ns HS HE HX Ha; [exact Ha|]. cbn [allBlocks].
  pose proof (XJ_nextBlock (3 + length (buf s)) s ns HS HE HX) as Hn.
  destruct (nextBlock _ s) as [r s'| | |]; try exact Ha.
  destruct Hn as (Hr & (ns' & Hs') & He' & Hx'). apply (IH s' _ ns'); [exact Hs'|exact He'|exact Hx'|].
  apply Forall_app. split; [exact Ha|]. constructor; [exact Hr|constructor].
Qed.

Theorem parseBlocks_okRL : forall input, Forall okRL (fst (parseBlocks input)).
Proof.
  intros input. unfold parseBlocks. apply (XJ_allBlocks _ _ _ true); [| | |constructor].
  - split; [|split; [reflexivity|split; exact I]].
    unfold SI. cbn [buf bi pending]. pose proof (len_nonneg (pad input)). repeat split; try lia.
  - split; [exact I|split; [left; reflexivity|apply tri_pad]].
  - split; reflexivity.
Qed.
Print Assumptions parseBlocks_okRL.
