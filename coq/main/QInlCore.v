(* QInlCore.v -- T64 (asm): THE CORE THEOREM of T64.  The inline pass on a leaf of quote D is the image of the inline pass on the
   corresponding leaf of D:   parseInlines sQ m c = flat_map (qI3 sD sg) (parseInlines sD m b)
   for a leaf b of D and its image c in quote D that satisfy QInlCoreDef.LeafHyps, which includes ONE fact about the gaps of quote D
   beyond SGood / GapSp: GapNoParen sD sQ sg (the byte of sQ just behind the image of a line feed of sD is not ')';
   in quote D it is '>' or lies behind the end of quote D).  Without it the statement is false in the abstract setting: after an
   unterminated multi-line title ("[a](b 'c" + LF at the end of the leaf) the quoted reader, exhausted behind the last line feed,
   tests that byte for ')' (Inl3d.parseInlineLink: `cur r5 =? 41`).
   Files (compile order): QInlStep0 QInlStep1 QInlStep2 QInlStep3 QInlStep4 QInlStepF QInlStep5 QInlStep8 QInlStep6 QInlStep6b QInlStepLab
   QInlStep7 QInlStep9 QInlStep10 QInlCore. *)
From Coq Require Import List ZArith Lia Bool.
Import ListNotations.
Require Import Base Tree Rdr Inl3a Inl3e ShapesR ShapesComp3 InlineShapes SpanHypDef QCutsDef QIRdrBase QInlDefs QInlBytesEmph QInlHtml.
Require Import QInlCoreDef QInlStep5 QInlStep6 QInlStep8 QInlStep10.
Open Scope Z_scope.

Lemma ordered_inX_le : forall ks lo hi v, ordered_inX lo hi ks = true -> In v ks -> iend v <= hi.
Proof.
  induction ks as [|k r IH]; intros lo hi v H Hv; [destruct Hv|]. cbn [ordered_inX] in H. apply andb_true_iff in H. destruct H as [H Hr].
  apply andb_true_iff in H. destruct H as [_ H]. apply Z.leb_le in H. destruct Hv as [<-|Hv]; [exact H|apply (IH (iend k) hi v Hr Hv)].
Qed.

(* the core: QInlCoreDef.LeafHyps contains the gap fact as the field LH_gapp (QInlGapParen.GapNoParen, the same definition as
   QInlStep6.GapNoParen) *)
Theorem parseInlines_quote_core_gap : forall sD sQ sg b c m,
  LeafHyps sD sQ sg b c -> QInlStep6.GapNoParen sD sQ sg ->
  parseInlines sQ m c = flat_map (qI3 sD sg) (parseInlines sD m b).
Proof.
  intros sD sQ sg b c m [SG GP _ Hne HG Hbik Hent Hst Hend HNG Hkids Hcb Hce] HGN.
  destruct (bikOK'_parts sD b Hbik) as (HOK & _ & _ & HLn).
  assert (HKl : forall u, In u (bik b) -> ikids u = []) by (rewrite Forall_forall in Hkids; exact Hkids).
  unfold entriesOKX in Hent. apply andb_true_iff in Hent. destruct Hent as [Hent HTl]. apply andb_true_iff in Hent. destruct Hent as [Hent _].
  apply andb_true_iff in Hent. destruct Hent as [Hent _]. apply andb_true_iff in Hent. destruct Hent as [Hbas _].
  unfold entriesBasicX in Hbas. apply andb_true_iff in Hbas. destruct Hbas as [Hord _].
  apply (parseInlines_q sD sQ sg (bik b) SG GP HG HOK HKl HLn HNG (bracket_ok sD sQ sg (bik b) SG GP HG HOK HKl HLn HNG HTl HGN) b c m eq_refl Hcb ltac:(lia) Hce).
  intros v Hv. apply (ordered_inX_le (bik b) (bstart b) (bend b) v Hord Hv).
Qed.
Print Assumptions parseInlines_quote_core_gap.

Theorem parseInlines_quote_core : parseInlines_quote_core_statement.
Proof. intros sD sQ sg b c m HL. apply (parseInlines_quote_core_gap sD sQ sg b c m HL). exact (LH_gapp _ _ _ _ _ HL). Qed.
Print Assumptions parseInlines_quote_core.
