From Coq Require Import List ZArith Lia Bool.
Import ListNotations.
Require Import Base Tables Utf8 Tree Rdr Link Collect Html Recog Inl3a Inl3b Inl3c Inl3d ShapesBase ShapesR IFBase IFLink.
Open Scope Z_scope.

(* ================================================================ C04 (1): the HTML tag scanner (Html.v, parseHTMLTag of Inl3d.v) *)
Section H.
  Variable src : bytes.
  Notation PL := (PL src).
  Notation prog := (prog src).
  Notation mu := (nu src).
  Ltac f0 H := f0s src H.

  (* ---------------------------------------------------------------- tag name *)
  Lemma tagName_loop_prog : forall fuel r, PL r -> prog r (tagName_loop fuel r).
  Proof.
    induction fuel as [|f IH]; intros r H; [apply prog_refl; exact H|]. cbn [tagName_loop]. rstep src.
    destruct (_ || _ || _); [|pfin]. rstep src. dok; [|pfin]. ptr IH.
  Qed.
  Lemma tagName_loop_fuel : forall f1 f2 r, PL r -> mu r < Z.of_nat f1 -> mu r < Z.of_nat f2 -> tagName_loop f1 r = tagName_loop f2 r.
  Proof.
    induction f1 as [|f1 IH]; intros f2 r H H1 H2; [f0 H|]. destruct f2 as [|f2]; [f0 H|]. cbn [tagName_loop]. rstep src.
    destruct (_ || _ || _); [|reflexivity]. rstep src. dok; [|reflexivity]. oktrue. rec IH.
  Qed.
  Lemma parseHTMLTagName_prog fuel r : PL r -> prog r (snd (parseHTMLTagName fuel r)).
  Proof.
    intros H. unfold parseHTMLTagName. rstep src. destruct (negb _); [cbn [snd]; pfin|]. rstep src.
    dok; [|cbn [snd]; pfin]. cbn [snd]. ptr tagName_loop_prog.
  Qed.
  Lemma parseHTMLTagName_fuel f1 f2 r : PL r -> mu r < Z.of_nat f1 -> mu r < Z.of_nat f2 -> parseHTMLTagName f1 r = parseHTMLTagName f2 r.
  Proof.
    intros H H1 H2. unfold parseHTMLTagName. rstep src. destruct (negb _); [reflexivity|]. rstep src.
    dok; [|reflexivity]. rewrite (tagName_loop_fuel f1 f2) by (assumption || lia). reflexivity.
  Qed.

  (* ---------------------------------------------------------------- attributes *)
  Lemma attrName_loop_prog : forall fuel r, PL r -> prog r (snd (attrName_loop fuel r)).
  Proof.
    induction fuel as [|f IH]; intros r H; [apply prog_refl; exact H|]. cbn [attrName_loop]. rstep src.
    destruct (isAttrNameChar _); [|cbn [snd]; pfin]. rstep src. dok; [|cbn [snd]; pfin]. ptr IH.
  Qed.
  Lemma attrName_loop_fuel : forall f1 f2 r, PL r -> mu r < Z.of_nat f1 -> mu r < Z.of_nat f2 -> attrName_loop f1 r = attrName_loop f2 r.
  Proof.
    induction f1 as [|f1 IH]; intros f2 r H H1 H2; [f0 H|]. destruct f2 as [|f2]; [f0 H|]. cbn [attrName_loop]. rstep src.
    destruct (isAttrNameChar _); [|reflexivity]. rstep src. dok; [|reflexivity]. oktrue. rec IH.
  Qed.
  Lemma untilQuote_prog : forall fuel r q, PL r -> prog r (snd (untilQuote fuel r q)).
  Proof.
    induction fuel as [|f IH]; intros r q H; [apply prog_refl; exact H|]. cbn [untilQuote]. rstep src.
    destruct (_ =? q); [cbn [snd]; pfin|]. dok; [|cbn [snd]; pfin]. ptr IH.
  Qed.
  Lemma untilQuote_fuel : forall f1 f2 r q, PL r -> mu r < Z.of_nat f1 -> mu r < Z.of_nat f2 -> untilQuote f1 r q = untilQuote f2 r q.
  Proof.
    induction f1 as [|f1 IH]; intros f2 r q H H1 H2; [f0 H|]. destruct f2 as [|f2]; [f0 H|]. cbn [untilQuote]. rstep src.
    destruct (_ =? q); [reflexivity|]. dok; [|reflexivity]. oktrue. rec IH.
  Qed.
  Lemma unquoted_loop_prog : forall fuel r, PL r -> prog r (unquoted_loop fuel r).
  Proof.
    induction fuel as [|f IH]; intros r H; [apply prog_refl; exact H|]. cbn [unquoted_loop]. rstep src.
    dok; [|pfin]. rstep src. destruct (isUnquotedAttributeValueChar _); [|pfin]. ptr IH.
  Qed.
  Lemma unquoted_loop_fuel : forall f1 f2 r, PL r -> mu r < Z.of_nat f1 -> mu r < Z.of_nat f2 -> unquoted_loop f1 r = unquoted_loop f2 r.
  Proof.
    induction f1 as [|f1 IH]; intros f2 r H H1 H2; [f0 H|]. destruct f2 as [|f2]; [f0 H|]. cbn [unquoted_loop]. rstep src.
    dok; [|reflexivity]. oktrue. rstep src. destruct (isUnquotedAttributeValueChar _); [|reflexivity]. rec IH.
  Qed.

  Lemma parseHTMLAttribute_prog fuel r : PL r -> prog r (snd (parseHTMLAttribute fuel r)).
  Proof.
    intros H. unfold parseHTMLAttribute. rstep src. destruct (_ && _ && _); [cbn [snd]; pfin|]. rstep src.
    dok; [|cbn [snd]; pfin]. subp attrName_loop attrName_loop_prog. dok; [|cbn [snd]; pfin].
    subp skipLinkSpace (skipLinkSpace_prog src). dok; [|cbn [snd]; pfin]. rstep src.
    destruct (negb (_ =? 61)); [cbn [snd]; pfin|]. rstep src. dok; [|cbn [snd]; pfin].
    subp skipLinkSpace (skipLinkSpace_prog src). dok; [|cbn [snd]; pfin]. rstep src.
    destruct ((_ =? 39) || (_ =? 34)).
    - rstep src. dok; [|cbn [snd]; pfin]. ptr untilQuote_prog.
    - destruct (isUnquotedAttributeValueChar _); [cbn [snd]; ptr unquoted_loop_prog|cbn [snd]; pfin].
  Qed.
  Lemma parseHTMLAttribute_fuel f1 f2 r : PL r -> mu r < Z.of_nat f1 -> mu r < Z.of_nat f2 ->
    parseHTMLAttribute f1 r = parseHTMLAttribute f2 r.
  Proof.
    intros H H1 H2. unfold parseHTMLAttribute. rstep src. destruct (_ && _ && _); [reflexivity|]. rstep src.
    dok; [|reflexivity]. rewrite (attrName_loop_fuel f1 f2) by (assumption || lia).
    subp attrName_loop attrName_loop_prog. dok; [|reflexivity].
    rewrite (skipLinkSpace_fuel src f1 f2) by (assumption || lia).
    subp skipLinkSpace (skipLinkSpace_prog src). dok; [|reflexivity]. rstep src.
    destruct (negb (_ =? 61)); [reflexivity|]. rstep src. dok; [|reflexivity].
    rewrite (skipLinkSpace_fuel src f1 f2) by (assumption || lia).
    subp skipLinkSpace (skipLinkSpace_prog src). dok; [|reflexivity]. rstep src.
    destruct ((_ =? 39) || (_ =? 34)).
    - rstep src. dok; [|reflexivity]. rec untilQuote_fuel.
    - destruct (isUnquotedAttributeValueChar _); [|reflexivity]. rewrite (unquoted_loop_fuel f1 f2) by (assumption || lia). reflexivity.
  Qed.

  (* ---------------------------------------------------------------- open / closing tag *)
  Lemma openTag_loop_prog : forall fuel r, PL r -> prog r (snd (openTag_loop fuel r)).
  Proof.
    induction fuel as [|f IH]; intros r H; [apply prog_refl; exact H|]. cbn [openTag_loop].
    subp skipLinkSpace (skipLinkSpace_prog src). dok; [|cbn [snd]; pfin]. rstep src.
    destruct (_ =? 47).
    - rstep src. destruct (_ || _); [cbn [snd]; pfin|]. rstep src. destruct (negb _); [cbn [snd]; pfin|]. rstep src. cbn [snd]. pfin.
    - destruct (_ =? 62); [rstep src; cbn [snd]; pfin|]. destruct (_ =? r_pos r); [cbn [snd]; pfin|].
      subp parseHTMLAttribute parseHTMLAttribute_prog. dok; [|cbn [snd]; pfin]. ptr IH.
  Qed.
  Lemma openTag_loop_fuel : forall f1 f2 r, PL r -> mu r < Z.of_nat f1 -> mu r < Z.of_nat f2 -> openTag_loop f1 r = openTag_loop f2 r.
  Proof.
    induction f1 as [|f1 IH]; intros f2 r H H1 H2; [f0 H|]. destruct f2 as [|f2]; [f0 H|]. cbn [openTag_loop].
    rewrite (skipLinkSpace_fuel src (S f1) (S f2)) by (assumption || lia).
    subp skipLinkSpace (skipLinkSpace_prog src). dok; [|reflexivity]. rstep src.
    destruct (_ =? 47); [reflexivity|]. destruct (_ =? 62); [reflexivity|].
    match goal with |- context [?a =? r_pos r] => destruct (Z.eqb_spec a (r_pos r)) as [Eq|Ne]; [reflexivity|] end.
    rewrite (parseHTMLAttribute_fuel (S f1) (S f2)) by (assumption || lia).
    subp parseHTMLAttribute parseHTMLAttribute_prog. dok; [|reflexivity]. rec IH.
  Qed.
  Lemma parseHTMLOpenTag_prog fuel r : PL r -> prog r (snd (parseHTMLOpenTag fuel r)).
  Proof.
    intros H. unfold parseHTMLOpenTag. subp parseHTMLTagName parseHTMLTagName_prog. dok; [|cbn [snd]; pfin]. ptr openTag_loop_prog.
  Qed.
  Lemma parseHTMLOpenTag_fuel f1 f2 r : PL r -> mu r < Z.of_nat f1 -> mu r < Z.of_nat f2 -> parseHTMLOpenTag f1 r = parseHTMLOpenTag f2 r.
  Proof.
    intros H H1 H2. unfold parseHTMLOpenTag. rewrite (parseHTMLTagName_fuel f1 f2) by (assumption || lia).
    subp parseHTMLTagName parseHTMLTagName_prog. dok; [|reflexivity]. rec openTag_loop_fuel.
  Qed.
  Lemma parseHTMLClosingTag_prog fuel r : PL r -> prog r (snd (parseHTMLClosingTag fuel r)).
  Proof.
    intros H. unfold parseHTMLClosingTag. rstep src. destruct (negb _); [cbn [snd]; pfin|]. rstep src.
    destruct (_ || _); [cbn [snd]; pfin|]. subp parseHTMLTagName parseHTMLTagName_prog. dok; [|cbn [snd]; pfin].
    subp skipLinkSpace (skipLinkSpace_prog src). dok; [|cbn [snd]; pfin]. rstep src. destruct (negb _); [cbn [snd]; pfin|].
    rstep src. cbn [snd]. pfin.
  Qed.
  Lemma parseHTMLClosingTag_fuel f1 f2 r : PL r -> mu r < Z.of_nat f1 -> mu r < Z.of_nat f2 ->
    parseHTMLClosingTag f1 r = parseHTMLClosingTag f2 r.
  Proof.
    intros H H1 H2. unfold parseHTMLClosingTag. rstep src. destruct (negb _); [reflexivity|]. rstep src.
    destruct (_ || _); [reflexivity|]. rewrite (parseHTMLTagName_fuel f1 f2) by (assumption || lia).
    subp parseHTMLTagName parseHTMLTagName_prog. dok; [|reflexivity].
    rewrite (skipLinkSpace_fuel src f1 f2) by (assumption || lia). reflexivity.
  Qed.

  (* ---------------------------------------------------------------- processing instruction, declaration, comment, CDATA *)
  Lemma ht_pi_fuel : forall f1 f2 r start, PL r -> mu r < Z.of_nat f1 -> mu r < Z.of_nat f2 -> ht_pi f1 r start = ht_pi f2 r start.
  Proof.
    induction f1 as [|f1 IH]; intros f2 r start H H1 H2; [f0 H|]. destruct f2 as [|f2]; [f0 H|]. cbn [ht_pi]. unfold cur. rstep src.
    cbn [fst snd]. destruct (negb _).
    - rstep src. dok; [|reflexivity]. oktrue. rec IH.
    - rstep src. destruct ok; cbn [negb orb]; [|reflexivity]. oktrue. destruct (jumped _); [reflexivity|]. rstep src. cbn [fst].
      destruct (_ =? 62); [reflexivity|].
      match goal with |- ht_pi f1 ?x _ = _ => assert (PL x) by assumption end. rec IH.
  Qed.
  Lemma ht_until_fuel : forall f1 f2 r c, PL r -> mu r < Z.of_nat f1 -> mu r < Z.of_nat f2 -> ht_until f1 r c = ht_until f2 r c.
  Proof.
    induction f1 as [|f1 IH]; intros f2 r c H H1 H2; [f0 H|]. destruct f2 as [|f2]; [f0 H|]. cbn [ht_until]. unfold cur. rstep src.
    cbn [fst snd]. destruct (_ =? c); [reflexivity|]. rstep src. dok; [|reflexivity]. oktrue. rec IH.
  Qed.
  Lemma rem_facts r : PL r -> PL (snd (remainingNodeBytes r)) /\ mu (snd (remainingNodeBytes r)) = mu r /\
    r_pos (snd (remainingNodeBytes r)) = r_pos r.
  Proof. intros H. split; [apply PL_remaining, H|]. split; [apply nu_remaining|apply pos_remaining]. Qed.
  Ltac remstep :=
    match goal with |- context [remainingNodeBytes ?r] =>
      match goal with Hr : PL r |- _ =>
        let H := fresh "Hr" in pose proof (rem_facts r Hr) as H;
        let b := fresh "rem" in let r' := fresh "r" in destruct (remainingNodeBytes r) as [b r'] eqn:?; cbn [snd] in H;
        let H1 := fresh "HP" in let H2 := fresh "Hm" in let H3 := fresh "Hp" in destruct H as (H1 & H2 & H3)
      end
    end.
  Lemma ht_comment_fuel : forall f1 f2 r start, PL r -> mu r < Z.of_nat f1 -> mu r < Z.of_nat f2 -> ht_comment f1 r start = ht_comment f2 r start.
  Proof.
    induction f1 as [|f1 IH]; intros f2 r start H H1 H2; [f0 H|]. destruct f2 as [|f2]; [f0 H|]. cbn [ht_comment]. remstep.
    destruct (hasBytePrefix _ [45; 45; 62]); [reflexivity|]. destruct (hasBytePrefix _ [45; 45]); [reflexivity|].
    rstep src. dok; [|reflexivity]. oktrue. rec IH.
  Qed.
  Lemma ht_cdata_fuel : forall f1 f2 r start, PL r -> mu r < Z.of_nat f1 -> mu r < Z.of_nat f2 -> ht_cdata f1 r start = ht_cdata f2 r start.
  Proof.
    induction f1 as [|f1 IH]; intros f2 r start H H1 H2; [f0 H|]. destruct f2 as [|f2]; [f0 H|]. cbn [ht_cdata]. remstep.
    destruct (hasBytePrefix _ [93; 93; 62]); [reflexivity|].
    rstep src. dok; [|reflexivity]. oktrue. rec IH.
  Qed.
  Lemma nextNok_prog : forall n r r', PL r -> nextNok n r = Some r' -> prog r r'.
  Proof.
    induction n as [|n IH]; intros r r' H E; [inversion E; subst; apply prog_refl; exact H|]. cbn [nextNok] in E. revert E. rstep src.
    dok; [|discriminate]. intros E. eapply prog_trans; [|eapply IH; [|exact E]; assumption]. pfin.
  Qed.

  Theorem parseHTMLTag_fuel f1 f2 r : PL r -> mu r < Z.of_nat f1 -> mu r < Z.of_nat f2 -> parseHTMLTag f1 r = parseHTMLTag f2 r.
  Proof.
    intros H H1 H2. unfold parseHTMLTag. unfold cur. rstep src. cbn [fst snd]. destruct (negb _); [reflexivity|].
    rstep src. destruct (_ || _); [reflexivity|]. rstep src. cbn [fst snd].
    destruct (_ =? 63).
    - rstep src. dok; [|reflexivity]. rec ht_pi_fuel.
    - destruct (_ =? 33).
      + rstep src. destruct (_ || _); [reflexivity|]. remstep.
        destruct (_ && _).
        * rstep src. cbn [snd]. rewrite (ht_until_fuel f1 f2) by (assumption || lia). reflexivity.
        * destruct (hasBytePrefix _ [45; 45]).
          -- rstep src. cbn [snd]. rstep src. destruct (_ || _); [reflexivity|]. remstep.
             destruct (_ || _); [reflexivity|]. rec ht_comment_fuel.
          -- destruct (hasBytePrefix _ _); [|reflexivity].
             match goal with |- context [nextNok 7 ?x] => destruct (nextNok 7 x) as [rq|] eqn:E4; [|reflexivity];
               pose proof (nextNok_prog 7 x rq ltac:(assumption) E4) as (? & ? & ? & ?) end.
             rec ht_cdata_fuel.
      + destruct (_ =? 47).
        * rewrite (parseHTMLClosingTag_fuel f1 f2) by (assumption || lia). reflexivity.
        * rewrite (parseHTMLOpenTag_fuel f1 f2) by (assumption || lia). reflexivity.
  Qed.
End H.
