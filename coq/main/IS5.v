From Coq Require Import List ZArith Lia Bool.
Import ListNotations.
Require Import Base Tables Utf8 Tree Rdr Link Collect Html Recog Inl3a Inl3b Inl3c Inl3d Inl3e Props PEProof.
Require Import Leaf3e RdrBound GI0 GI1 GI2 GI3 GI4 GI5 GI6 ShapesBase ShapesR IS0 IS2 IS1 IS3 IS4 IS5a IS5b IS6a IS8b IS8c.
Open Scope Z_scope.

(* ================================================================== *)
(* IS5: finishLink and parseEndBracket keep J.                         *)
(* ================================================================== *)

(* ---------------------------------------------------------------- processEmphasis leaves the stack below its bottom alone *)
Lemma upto_delStack {A} (l : list A) i j sb : 0 <= sb -> sb <= i -> i <= j -> upto (delStack l i j) sb = upto l sb.
Proof.
  intros H0 Hi Hj. unfold delStack, upto, from_.
  rewrite firstn_app. rewrite firstn_firstn. replace (Init.Nat.min (Z.to_nat sb) (Z.to_nat i)) with (Z.to_nat sb) by lia.
  rewrite firstn_length.
  destruct (Nat.le_gt_cases (Z.to_nat i) (length l)) as [L|L].
  - replace (Z.to_nat sb - Init.Nat.min (Z.to_nat i) (length l))%nat with O by lia. cbn [firstn]. apply app_nil_r.
  - rewrite skipn_all2 by lia. rewrite firstn_nil. apply app_nil_r.
Qed.

Lemma pe_loop_prefix sb : 0 <= sb -> forall fuel st ob cp, OBI sb ob -> sb <= cp ->
  upto (stk (pe_loop fuel st ob cp)) sb = upto (stk st) sb.
Proof.
  intros Hsb. induction fuel as [|f IH]; intros st ob cp HO Hcp; [reflexivity|].
  cbn [pe_loop].
  remember (pe_findCloser (S (length (stk st))) (stk st) cp) as cp1 eqn:Ecp1.
  destruct (Z.ltb_spec cp1 0) as [Hneg|Hpos]; [reflexivity|].
  destruct (findCloser_spec _ _ _ _ (eq_sym Ecp1) Hpos) as [Hcp1 Hcl].
  remember (nthD (stk st) cp1) as c eqn:Ec.
  pose proof (obIndex_range c Hcl) as Hobi.
  remember (getOB ob (obIndex c)) as lo eqn:Elo.
  assert (Hlo : sb <= lo) by (subst lo; apply HO; unfold OBN; lia).
  remember (pe_findOpener (S (length (stk st))) (stk st) (cp1 - 1) lo c) as oi eqn:Eoi.
  destruct (Z.leb_spec lo oi) as [Hfound|Hnone].
  - pose proof (findOpener_spec (stk st) c lo (S (length (stk st))) (cp1 - 1)) as Hs.
    assert (Hf : (Z.to_nat (cp1 - 1 - lo + 1) < S (length (stk st)))%nat) by (unfold len in *; lia).
    specialize (Hs Hf). cbn zeta in Hs. rewrite <- Eoi in Hs.
    destruct Hs as [(A1 & _)|(Hoi & _)]; [lia|].
    assert (HOB1 : OBI sb (map (fun b : Z => if oi + 1 <? b then oi + 1 else b) ob)).
    { apply OBI_map; [exact HO|]. intros b Hb. destruct (oi + 1 <? b); lia. }
    assert (HOB2 : OBI sb (map (fun b : Z => if oi <? b then b - 1 else b) (map (fun b : Z => if oi + 1 <? b then oi + 1 else b) ob))).
    { apply OBI_map; [exact HOB1|]. intros b Hb. destruct (Z.ltb_spec oi b); lia. }
    match goal with |- context [wrap ?A ?K ?X ?Y] => destruct (wrap A K X Y) as [st3 wid] eqn:Ew;
      assert (Es3 : stk st3 = stk st) by (change st3 with (fst (st3, wid)); rewrite <- Ew; reflexivity) end.
    rewrite !stk_setStk.
    destruct (plen (nodeOf _ (d_node (nthD (stk st) oi))) =? 0); cbv beta iota; rewrite ?stk_setStk;
      destruct (plen (nodeOf _ (d_node c)) =? 0); rewrite IH by (assumption || lia); cbn [stk setStk removeNode setRk];
      rewrite ?upto_delStack by lia; rewrite Es3; reflexivity.
  - assert (HOB' : OBI sb (setOB ob (obIndex c) cp1)) by (apply OBI_set; [exact HO|unfold OBN; lia|lia]).
    destruct (negb (hasFlag c fOpener)); rewrite IH by (assumption || lia); [|reflexivity].
    cbn [stk setStk]. apply upto_delStack; lia.
Qed.

Lemma processEmphasis_stk st low od high : stk st = low ++ od :: high -> stk (processEmphasis st (len low + 1)) = low ++ [od].
Proof.
  intros Es. unfold processEmphasis. cbn [stk setStk]. pose proof (PEProof.len_nonneg low) as Hl.
  rewrite (pe_loop_prefix (len low + 1)); [| lia | |lia].
  - rewrite Es. replace (low ++ od :: high) with ((low ++ [od]) ++ high) by (rewrite <- app_assoc; reflexivity).
    replace (len low + 1) with (len (low ++ [od])) by (rewrite PEProof.len_app; reflexivity). apply upto_app_len.
  - destruct (OBI_init (len low + 1)) as [A B]. split; assumption.
Qed.

Section FL.
  Variable src : bytes.
  Variable U : list inline.
  Hypothesis HU : forall u, In u U -> ikids u = [].
  Hypothesis HOK : spOK src U = true.
  Notation J := (J src U).
  Notation chain := (chain src).

  (* a stack related entry by entry (same node, same type) *)
  Lemma chain_rel rk : forall s s' lo hi, Forall2 (fun d d' => d_node d' = d_node d /\ d_typ d' = d_typ d) s s' ->
    chain rk lo s hi -> chain rk lo s' hi.
  Proof.
    induction s as [|d r IH]; intros s' lo hi HR H; inversion HR as [|? d' ? r' [E1 E2] HR']; subst; [exact H|].
    destruct H as (a & b & A & B & C & D & E). exists a, b. rewrite E1. repeat split; try assumption.
    - unfold dOK in *. rewrite E2. exact D.
    - apply IH; assumption.
  Qed.
  Lemma J_stk_rel hi st s' : Forall2 (fun d d' => d_node d' = d_node d /\ d_typ d' = d_typ d) (stk st) s' -> J hi st -> J hi (setStk st s').
  Proof.
    intros HR [A B C D E F G V].
    assert (Hs : sids s' = sids (stk st)).
    { clear - HR. induction HR as [|d d' r r' [E1 _] _ IH]; [reflexivity|]. cbn [sids map] in *. rewrite E1. f_equal. exact IH. }
    constructor; cbn [setStk isrc unp nid rk stk]; try assumption.
    - clear - HR E. induction HR as [|d d' r r' [E1 _] _ IH]; [constructor|]. inversion E; subst. constructor; [rewrite E1; assumption|apply IH; assumption].
    - rewrite Hs. exact F.
    - apply (chain_rel _ (stk st)); assumption.
  Qed.
  Lemma deact_rel odi : forall s a,
    Forall2 (fun d d' => d_node d' = d_node d /\ d_typ d' = d_typ d) s
      (map (fun id : Z * delim => let '(i, d) := id in if (i <? odi) && (d_typ d =? tLink) then clearFlag d fActive else d)
           (combine (map Z.of_nat (seq a (length s))) s)).
  Proof.
    induction s as [|x s IH]; intros a; cbn [length seq map combine]; [constructor|]. constructor; [|apply IH].
    destruct (_ && _); [|split; reflexivity]. unfold clearFlag. destruct (hasFlag x fActive); split; reflexivity.
  Qed.

  Lemma finishLink_J hi st kind low od high : J hi st -> stk st = low ++ od :: high -> J hi (finishLink st kind (len low)).
  Proof.
    intros HJ Es. unfold finishLink. pose proof (PEProof.len_nonneg low) as Hl.
    replace (nthD (stk st) (len low)) with od by (rewrite Es; symmetry; apply nthD_app_len).
    pose proof (processEmphasis_J src U hi st (len low + 1) HJ ltac:(lia)) as H1.
    pose proof (processEmphasis_stk st low od high Es) as Es1.
    set (st1 := processEmphasis st (len low + 1)) in *.
    assert (H2 : J hi (setStk (removeNode st1 (d_node od)) low)).
    { destruct H1 as [A B C D E F G V]. rewrite Es1 in G, E, F.
      apply chain_app in G. destruct G as (m & GP & (s & e & Od & Hm & Hse & Dd & Gn)). cbn in Gn.
      constructor; cbn [setStk removeNode setRk isrc unp nid rk stk]; try assumption.
      - apply removeId_idb. exact D.
      - apply Forall_app in E. tauto.
      - apply removeId_cok. eapply cokF_mono; [| apply Z.le_refl |exact F]. intros x Hx. apply memZ_In in Hx. apply memZ_In.
        rewrite sids_app. apply in_or_app. left. exact Hx.
      - apply (chain_weaken src _ _ 0 m); [lia|lia|]. apply (chain_ext src (rk st1)); [|exact GP].
        intros d Hd. apply occF_removeId.
        + apply (chain_other src _ _ _ _ _ s e GP Od Hse); [left; lia|exact Hd].
        + rewrite Od. constructor; [reflexivity|constructor].
        + destruct (chain_In src _ _ _ _ d GP Hd) as (s' & e' & Od' & _). rewrite Od'. constructor; [reflexivity|constructor].
      - apply removeId_vok. exact V. }
    replace (delStack (stk (removeNode st1 (d_node od))) (len low) (len low + 1)) with low.
    2:{ change (stk (removeNode st1 (d_node od))) with (stk st1). rewrite Es1.
        pose proof (delStack_app3 low [od] (@nil delim)) as Hd. rewrite app_nil_r in Hd. change (len [od]) with 1 in Hd. rewrite Hd. symmetry. apply app_nil_r. }
    destruct (kind =? LinkKind); [|exact H2].
    change (stk (setStk (removeNode st1 (d_node od)) low)) with low.
    apply (J_stk_rel hi (setStk (removeNode st1 (d_node od)) low)); [|exact H2]. apply deact_rel.
  Qed.

  (* ---------------------------------------------------------------- the wrapper of a link, with its span *)
  Definition LS (st0 : ist) (pre M : list pn) (kind : Z) (T : list pn) (rf : bytes) (s e : Z) (st' : ist) : Prop :=
    (exists ind, rk st' = pre ++ [PN (nid st0) kind s e ind rf (M ++ T)]) /\
    nid st' = nid st0 + 1 /\ stk st' = stk st0 /\ unp st' = unp st0 /\ isrc st' = isrc st0.

  Lemma wrap_None_LS st kind id pre M : In id (ids (rk st)) -> splitAtId id (rk st) = (pre, M) ->
    exists s e, LS st pre M kind [] [] s e (fst (wrap st kind id None)).
  Proof.
    intros Hi Esp. unfold wrap, LS. cbn [fst bumpId setRk rk nid stk unp isrc].
    destruct (fsize_S (rk st)) as [f ->]. cbn [wrapIn]. replace (hasId id (rk st)) with true by (symmetry; apply hasId_In, Hi).
    unfold wrapLevel. rewrite Esp, splitBeforeId_none. rewrite !app_nil_r. eexists _, _. split; [eexists; reflexivity|]. repeat split.
  Qed.

  Section LSops.
    Variables (st0 : ist) (pre M : list pn) (kind : Z).
    Hypothesis Hpre : forallb (idb (nid st0)) pre = true.

    Lemma LS_upd T rf s e T' rf' s' e' g st' :
      (forall ind, exists ind', g (PN (nid st0) kind s e ind rf (M ++ T)) = PN (nid st0) kind s' e' ind' rf' (M ++ T')) ->
      LS st0 pre M kind T rf s e st' -> LS st0 pre M kind T' rf' s' e' (updN st' (nid st0) g).
    Proof.
      intros Hg ((ind & Er) & E2 & E3 & E4 & E5). split; [|repeat split; assumption].
      destruct (Hg ind) as (ind' & Eg). exists ind'.
      pose proof (updN_last st' pre _ g Er) as Hu. cbn [pid] in Hu. rewrite (Hu Hpre), Eg. reflexivity.
    Qed.
    Lemma LS_span T rf s e a b st' : LS st0 pre M kind T rf s e st' ->
      LS st0 pre M kind T rf a b (updN st' (nid st0) (fun n => setSpan n a b)).
    Proof. apply LS_upd. intros ind. eexists. reflexivity. Qed.
    Lemma LS_spanRef T rf s e a b lab st' : LS st0 pre M kind T rf s e st' ->
      LS st0 pre M kind T lab a b (updN st' (nid st0) (fun n => setRef (setSpan n a b) lab)).
    Proof. apply LS_upd. intros ind. eexists. reflexivity. Qed.
    Lemma LS_append T rf s e k st' : LS st0 pre M kind T rf s e st' ->
      LS st0 pre M kind (T ++ [k]) rf s e (appendKid st' (nid st0) k).
    Proof. unfold appendKid. apply LS_upd. intros ind. eexists. cbn [setKids pkids]. rewrite <- app_assoc. reflexivity. Qed.
    Lemma LS_advanceTo T rf s e p st' : LS st0 pre M kind T rf s e st' -> LS st0 pre M kind T rf s e (advanceTo st' p).
    Proof. intros H. unfold advanceTo. destruct (0 <=? _); exact H. Qed.
  End LSops.

  Lemma J_of_LS hi st0 pre M kind T rf s e st3 : J hi st0 -> rk st0 = pre ++ M ->
    LS st0 pre M kind T rf s e st3 -> (isC kind = true -> nOK src kind s e = true) -> forallb (zok src) T = true ->
    span_valid (len src) s e = true -> vokF src T = true -> J hi st3.
  Proof.
    intros [A B C D E F G V] Er ((ind & Er3) & E2 & E3 & E4 & E5) Hk HT Hsv HTv.
    rewrite Er in V. rewrite vokF_app in V. apply andb_true_iff in V. destruct V as [Vp Vm].
    rewrite Er in D, F. rewrite idbF_app in D. apply andb_true_iff in D. destruct D as [Dp Dm].
    rewrite cokF_app in F. apply andb_true_iff in F. destruct F as [Fp Fm].
    assert (HTz : forallb zid T = true).
    { apply forallb_forall. intros x Hx. rewrite forallb_forall in HT. apply zok_zid with (src := src), HT, Hx. }
    constructor; rewrite ?Er3, ?E2, ?E3, ?E4, ?E5; try assumption; try lia.
    - rewrite idbF_app. rewrite (idbF_mono (nid st0) (nid st0 + 1)) by (lia || exact Dp). cbn [forallb idb andb].
      replace (0 <=? nid st0) with true by (symmetry; apply Z.leb_le; lia).
      replace (nid st0 <? nid st0 + 1) with true by (symmetry; apply Z.ltb_lt; lia). cbn [andb]. rewrite andb_true_r.
      rewrite idbF_app. rewrite (idbF_mono (nid st0) (nid st0 + 1)) by (lia || exact Dm). apply zidF_idbF; [lia|exact HTz].
    - eapply Forall_impl; [|exact E]. cbn. intros d Hd. lia.
    - rewrite cokF_app. apply andb_true_iff. split; [eapply cokF_mono; [intros x Hx; exact Hx| |exact Fp]; lia|].
      unfold cokF at 1. cbn [forallb cok]. rewrite andb_true_r. apply andb_true_iff. split.
      + destruct (isC kind); [|reflexivity]. rewrite Hk by reflexivity. rewrite (sidsN st0 E).
        replace (0 <=? nid st0) with true by (symmetry; apply Z.leb_le; lia).
        replace (nid st0 <? nid st0 + 1) with true by (symmetry; apply Z.ltb_lt; lia). reflexivity.
      + fold (cokF src (sids (stk st0)) (nid st0 + 1) (M ++ T)). rewrite cokF_app. apply andb_true_iff. split.
        * eapply cokF_mono; [intros x Hx; exact Hx| |exact Fm]. lia.
        * apply zokF_cokF; [lia|apply sids0, E|exact HT].
    - apply (chain_ext src (rk st0)); [|exact G]. intros d Hd. rewrite Er, !occF_app, occF_cons, occF_nil, occS_eq. cbn [pid pkids].
      rewrite Forall_forall in E. specialize (E d Hd). destruct (Z.eqb_spec (nid st0) (d_node d)) as [E1|_]; [lia|]. cbn [app].
      rewrite occF_app, (occF_zid (d_node d) T HTz) by lia. rewrite !app_nil_r. reflexivity.
    - rewrite vokF_app, Vp. cbn [andb vokF forallb vok]. rewrite Hsv. fold (vokF src (M ++ T)). rewrite vokF_app, Vm, HTv. reflexivity.
  Qed.

  (* ---------------------------------------------------------------- parseEndBracket *)
  Lemma stk_addText st s e : stk (addText st s e) = stk st.
  Proof. unfold addText, addNode. destruct (spanLen s e =? 0); reflexivity. Qed.

  Lemma kids_part st fuel pos e esc : isrc st = src -> unp st = U ->
    forallb (zok src) (kidsOf (collectTextNodes fuel (newReader src (unpFrom st) pos) e TextKind esc)) = true.
  Proof.
    intros Es Eu. unfold kidsOf. apply (kids_zok src U); [exact HU|reflexivity|reflexivity|].
    cbn [newReader r_spans]. unfold unpFrom, from_. rewrite Eu. apply sublist_skipn.
  Qed.

  Lemma U_valid x : In x U -> validI src x = true.
  Proof.
    intros Hx. pose proof (HU x Hx) as Hk. destruct (spOK_all src U HOK x Hx) as (A & B & C & _).
    destruct x as [k s e ind rf ks]. cbn [ikids istart iend] in *. subst ks. cbn [validI forallb]. rewrite span_valid_intro by lia. reflexivity.
  Qed.
  Lemma kids_valid st fuel pos e tk esc : isrc st = src -> unp st = U -> 0 <= pos <= len src -> e <= len src ->
    vokF src (kidsOf (collectTextNodes fuel (newReader src (unpFrom st) pos) e tk esc)) = true.
  Proof.
    intros Es Eu Hp He. unfold kidsOf, vokF. apply forallb_forall. intros x Hx. apply in_map_iff in Hx. destruct Hx as (i & <- & Hi).
    apply validI_vok.
    assert (HokF : spOK src (unpFrom st) = true) by (unfold unpFrom; rewrite Eu; apply spOK_from, HOK).
    pose proof (collectTextNodes_valid src tk esc U fuel (newReader src (unpFrom st) pos) e U_valid) as Hc.
    assert (HR : RD src (newReader src (unpFrom st) pos)).
    { split; [split; [reflexivity|exact HokF]|]. split; [apply RB_newReader; [exact HokF|lia]|cbn; lia]. }
    specialize (Hc HR). rewrite Forall_forall in Hc. apply Hc; [|exact He|exact Hi].
    cbn [newReader r_spans]. unfold unpFrom, from_. rewrite Eu. apply sublist_skipn.
  Qed.
  Lemma spanValid_elim sp : spanValid sp = true -> 0 <= fst sp /\ 0 <= snd sp /\ fst sp <= snd sp.
  Proof. unfold spanValid. rewrite !andb_true_iff. intros ((A & B) & C). apply Z.leb_le in A, B, C. tauto. Qed.

  Lemma parseEndBracket_J tw hi st start : MI tw U st -> J hi st -> hi <= start -> at_ src start = 93 ->
    J hi (fst (parseEndBracket st start)).
  Proof.
    intros HM HJ Hhi H93. pose proof (j_src _ _ _ _ HJ) as Esrc. pose proof (j_unp _ _ _ _ HJ) as Eunp.
    assert (Hs93 : 0 <= start < len src) by (apply in_src; rewrite H93; discriminate).
    unfold parseEndBracket. cbv zeta. unfold lookForLinkOrImage.
    destruct (lfl_spec (S (length (stk st))) st (len (stk st) - 1) ltac:(lia)) as [(Er & Hst1)|(Hr & E1 & Htyp & Hact)].
    { destruct (lfl (S (length (stk st))) st (len (stk st) - 1)) as [st1 odi]. cbn [fst snd] in *. subst odi.
      cbn [Z.ltb Z.compare]. cbn [fst]. apply J_addText; [|lia].
      destruct Hst1 as [->|(j & Hj & ->)]; [exact HJ|]. apply J_delStack; [exact HJ|lia..]. }
    destruct (lfl (S (length (stk st))) st (len (stk st) - 1)) as [st1 odi]. cbn [fst snd] in *. subst st1.
    replace (odi <? 0) with false by (symmetry; apply Z.ltb_ge; lia).
    destruct (split_at1 (stk st) odi Hr) as (low & high & Es & Hlow).
    remember (nthD (stk st) odi) as od eqn:Eod.
    remember (if d_typ od =? tImage then ImageKind else LinkKind) as kind eqn:Ekind.
    pose proof HM as [M1 M2 M3 M4 M5 M6 M7 M8 M9 M10].
    assert (Hod_in : In od (stk st)) by (rewrite Es; apply in_or_app; right; left; reflexivity).
    assert (Hod : In (d_node od) (ids (rk st))).
    { apply (al_In _ _ _ M6). unfold GI3.sids. apply in_map, Hod_in. }
    destruct (splitAtId (d_node od) (rk st)) as [pre M] eqn:Esplit.
    assert (Erk : rk st = pre ++ M) by (pose proof (sAt_app (d_node od) (rk st)) as Happ; rewrite Esplit in Happ; exact Happ).
    assert (Hpre : forallb (idb (nid st)) pre = true).
    { pose proof (j_idb _ _ _ _ HJ) as D. rewrite Erk, idbF_app in D. apply andb_true_iff in D. tauto. }
    destruct (wrap_None_LS st kind (d_node od) pre M Hod Esplit) as (s0 & e0 & LS0).
    (* the bracket node *)
    destruct (chain_In src _ _ _ _ od (j_chain _ _ _ _ HJ) Hod_in) as (sb & eb & Ob & Hsb & Hseb & Hebhi & Dob).
    pose proof (nodeOf_occ st _ _ Ob) as Sb.
    assert (Epsb : ps (nodeOf st (d_node od)) = sb) by (unfold sig in Sb; inversion Sb; reflexivity).
    assert (Hshape : forall E, start + 1 <= E -> (at_ src (E - 1) = 93 \/ at_ src (E - 1) = 41) -> isC kind = true -> nOK src kind sb E = true).
    { intros E HE Hlast _. subst kind. unfold IS3.dOK, tStar, tUnder, tLink, tImage in *.
      destruct Dob as [(T & _)|[(T & _)|[(T & Ee & A1)|(T & Ee & A1 & A2)]]]; try (destruct Htyp as [Ht|Ht]; rewrite Ht in T; discriminate).
      - rewrite T. cbn [Z.eqb]. apply link_shape; try assumption; lia.
      - rewrite T. cbn [Z.eqb]. apply image_shape; try assumption; lia. }
    assert (Hfail : J hi (setStk (addText st start (start + 1)) (delStack (stk st) odi (odi + 1)))).
    { rewrite <- (stk_addText st start (start + 1)). apply J_delStack; [apply J_addText; [exact HJ|lia]|lia|lia|rewrite stk_addText; lia]. }
    assert (HkC : isC kind = true) by (subst kind; destruct (_ =? tImage); reflexivity).
    assert (Hfinish : forall T rf E st3, LS st pre M kind T rf sb E st3 -> start + 1 <= E ->
              (at_ src (E - 1) = 93 \/ at_ src (E - 1) = 41) -> forallb (zok src) T = true -> vokF src T = true -> J hi (finishLink st3 kind odi)).
    { intros T rf E st3 HLS HE Hlast HT HTv. rewrite <- Hlow. apply (finishLink_J hi st3 kind low od high).
      - pose proof (Hshape E HE Hlast HkC) as Hn. pose proof Hn as Hn2. unfold nOK in Hn2. apply andb_true_iff in Hn2. destruct Hn2 as [Hsv _].
        apply (J_of_LS hi st pre M kind T rf sb E st3 HJ Erk HLS); [intros _; exact Hn|exact HT|exact Hsv|exact HTv].
      - destruct HLS as (_ & _ & -> & _). exact Es. }
    assert (HokF : spOK (isrc st) (unpFrom st) = true) by (rewrite Esrc; unfold unpFrom; rewrite Eunp; apply spOK_from, HOK).
    match goal with |- context [match ?X with Some _ => _ | None => _ end] => destruct X as [[[[[ispan dspan] dtext] tspan] ttext]|] eqn:Etry end.
    - (* inline link *)
      destruct ((start + 1 <? spanEnd st) && (at_ (isrc st) (start + 1) =? 40)); [|discriminate].
      destruct (parseInlineLink (rfuelOf st) st (start + 1)) as [[is0 [ds0 dt0]] [ts0 tt0]] eqn:Ep.
      destruct (spanValid is0) eqn:Ev; [|discriminate]. inversion Etry; subst is0 ds0 dt0 ts0 tt0. clear Etry.
      destruct (parseInlineLink_end _ _ _ _ _ _ HokF Ep Ev) as (Pf & P41 & Pge). rewrite Esrc in P41.
      assert (Hs1 : start + 1 + 1 <= len (isrc st)).
      { rewrite Esrc. pose proof (in_src src (snd ispan - 1) ltac:(rewrite P41; discriminate)). lia. }
      destruct (parseInlineLink_res _ _ _ _ _ _ _ _ HokF Hs1 Ep Ev) as (Bd & Bt). rewrite Esrc in Bd, Bt.
      destruct (wrap st kind (d_node od) None) as [st2 lid] eqn:Ew.
      assert (Elid : lid = nid st) by (change lid with (snd (st2, lid)); rewrite <- Ew; reflexivity).
      assert (LS2 : LS st pre M kind [] [] s0 e0 st2) by exact LS0.
      subst lid. rewrite Epsb. cbn [fst].
      pose proof (LS_span st pre M kind Hpre [] [] s0 e0 sb (snd ispan) st2 LS2) as LS3.
      set (st3 := updN st2 (nid st) (fun n => setSpan n sb (snd ispan))) in *.
      set (Td := if spanValid dspan then
                   [PN 0 LinkDestinationKind (fst dspan) (snd dspan) 0 []
                      (if spanValid dtext then kidsOf (collectTextNodes (rfuelOf st) (newReader (isrc st) (unpFrom st3) (fst dtext)) (snd dtext) TextKind true) else [])]
                 else []).
      set (st4 := if spanValid dspan then appendKid st3 (nid st) (PN 0 LinkDestinationKind (fst dspan) (snd dspan) 0 []
                      (if spanValid dtext then kidsOf (collectTextNodes (rfuelOf st) (newReader (isrc st) (unpFrom st3) (fst dtext)) (snd dtext) TextKind true) else [])) else st3).
      assert (U3 : isrc st3 = src /\ unp st3 = U) by (destruct LS3 as (_ & _ & _ & -> & ->); split; assumption).
      assert (LS4 : LS st pre M kind Td [] sb (snd ispan) st4).
      { unfold st4, Td. destruct (spanValid dspan); [|exact LS3]. apply (LS_append st pre M kind Hpre [] [] sb (snd ispan)). exact LS3. }
      assert (HTd : forallb (zok src) Td = true).
      { unfold Td. destruct (spanValid dspan); [|reflexivity]. cbn [forallb zok]. change (isC LinkDestinationKind) with false. cbv iota.
        rewrite andb_true_r. cbn [Z.eqb andb]. destruct (spanValid dtext); [|reflexivity]. rewrite Esrc. apply kids_part; apply U3. }
      assert (HTdv : vokF src Td = true).
      { unfold Td. destruct (spanValid dspan) eqn:Evd; [|reflexivity]. destruct (Bd eq_refl) as (Bd1 & Bd2). destruct (spanValid_elim _ Evd) as (V1 & V2 & V3).
        cbn [vokF forallb vok]. rewrite span_valid_intro by lia. cbn [andb]. rewrite andb_true_r.
        destruct (spanValid dtext) eqn:Evt; [|reflexivity]. destruct (spanValid_elim _ Evt) as (W1 & W2 & W3).
        rewrite Esrc. apply kids_valid; [apply U3|apply U3|lia|lia]. }
      assert (U4 : isrc st4 = src /\ unp st4 = U) by (destruct LS4 as (_ & _ & _ & -> & ->); split; assumption).
      set (kt := PN 0 LinkTitleKind (fst tspan) (snd tspan) 0 []
                    (if spanValid ttext then kidsOf (collectTextNodes (rfuelOf st) (newReader (isrc st) (unpFrom st4) (fst ttext)) (snd ttext) TextKind true) else [])).
      set (Tt := if spanValid tspan then Td ++ [kt] else Td).
      set (st5 := if spanValid tspan then appendKid st4 (nid st) kt else st4).
      assert (LS5 : LS st pre M kind Tt [] sb (snd ispan) st5).
      { unfold st5, Tt. destruct (spanValid tspan); [|exact LS4]. apply (LS_append st pre M kind Hpre Td [] sb (snd ispan)). exact LS4. }
      assert (HTt : forallb (zok src) Tt = true).
      { unfold Tt. destruct (spanValid tspan); [|exact HTd]. rewrite forallb_app, HTd. cbn [andb forallb]. rewrite andb_true_r.
        unfold kt. cbn [zok]. change (isC LinkTitleKind) with false. cbv iota. cbn [Z.eqb andb].
        destruct (spanValid ttext); [|reflexivity]. rewrite Esrc. apply kids_part; apply U4. }
      assert (HTtv : vokF src Tt = true).
      { unfold Tt. destruct (spanValid tspan) eqn:Evd; [|exact HTdv]. rewrite vokF_app, HTdv. cbn [andb vokF forallb]. rewrite andb_true_r.
        destruct (Bt eq_refl) as (Bt1 & Bt2). destruct (spanValid_elim _ Evd) as (V1 & V2 & V3).
        unfold kt. cbn [vok]. rewrite span_valid_intro by lia. cbn [andb].
        destruct (spanValid ttext) eqn:Evt; [|reflexivity]. destruct (spanValid_elim _ Evt) as (W1 & W2 & W3).
        rewrite Esrc. apply kids_valid; [apply U4|apply U4|lia|lia]. }
      apply (Hfinish Tt [] (snd ispan)); [apply LS_advanceTo; exact LS5|lia|right; exact P41|exact HTt|exact HTtv].
    - match goal with |- J hi (fst (match ?X with pair _ _ => _ end)) => destruct X as [lspan linner] eqn:Elab end.
      destruct ((start + 2 <? spanEnd st) && (at_ (isrc st) (start + 1) =? 91) && (at_ (isrc st) (start + 2) =? 93)) eqn:Ecoll.
      + (* collapsed reference *)
        destruct (negb (matchRef _ _)); [cbn [fst]; exact Hfail|].
        destruct (wrap st kind (d_node od) None) as [st2 lid] eqn:Ew.
        assert (Elid : lid = nid st) by (change lid with (snd (st2, lid)); rewrite <- Ew; reflexivity).
        assert (LS2 : LS st pre M kind [] [] s0 e0 st2) by exact LS0.
        subst lid. rewrite Epsb. cbn [fst].
        apply andb_true_iff in Ecoll. destruct Ecoll as [_ E93']. apply Z.eqb_eq in E93'. rewrite Esrc in E93'.
        eapply (Hfinish [] _ (start + 3)); [apply (LS_spanRef st pre M kind Hpre [] [] s0 e0); exact LS2|lia| |reflexivity|reflexivity].
        left. replace (start + 3 - 1) with (start + 2) by lia. exact E93'.
      + destruct (spanValid lspan) eqn:Evl.
        * (* full reference *)
          destruct (negb (matchRef _ _)); [cbn [fst]; exact Hfail|].
          cbn [negb andb] in Elab.
          destruct ((start + 1 <? spanEnd st) && (at_ (isrc st) (start + 1) =? 91)); [|inversion Elab; subst; discriminate].
          destruct (parseLinkLabel (rfuelOf st) (newReader (isrc st) (unpFrom st) (start + 1))) as [[a b] r'] eqn:Epl.
          inversion Elab; subst a b. clear Elab.
          assert (HRI0 : RI (isrc st) (newReader (isrc st) (unpFrom st) (start + 1))) by (split; [reflexivity|exact HokF]).
          destruct (parseLinkLabel_end (isrc st) _ _ _ _ _ HRI0 Epl Evl) as (Pf & P93 & Pge).
          cbn [newReader r_pos] in Pf, Pge. rewrite Esrc in P93.
          pose proof (parseLinkLabel_inner_ge (isrc st) _ _ _ _ _ HRI0 Epl Evl) as Hig. cbn [newReader r_pos] in Hig.
          assert (HRB0 : RB (len src) (newReader (isrc st) (unpFrom st) (start + 1))).
          { rewrite Esrc. apply RB_newReader; [rewrite <- Esrc; exact HokF|lia]. }
          assert (HBl : -1 <= len src) by (pose proof (ShapesBase.len_nonneg src); lia).
          pose proof (parseLinkLabel_inner (len src) HBl _ _ _ _ _ HRB0 Epl Evl) as Hie.
          pose proof (parseLinkLabel_inner_le (len src) _ _ _ _ _ HRB0 Epl Evl) as Hile.
          destruct (wrap st kind (d_node od) None) as [st2 lid] eqn:Ew.
          assert (Elid : lid = nid st) by (change lid with (snd (st2, lid)); rewrite <- Ew; reflexivity).
          assert (LS2 : LS st pre M kind [] [] s0 e0 st2) by exact LS0.
          subst lid. rewrite Epsb. cbn [fst].
          eapply (Hfinish _ [] (snd lspan)).
          -- apply LS_advanceTo. apply (LS_span st pre M kind Hpre _ [] s0 e0). apply (LS_append st pre M kind Hpre [] [] s0 e0). exact LS2.
          -- lia.
          -- left. exact P93.
          -- cbn [app forallb zok]. change (isC LinkLabelKind) with false. cbv iota. cbn [Z.eqb andb]. rewrite andb_true_r.
             rewrite Esrc. apply kids_part; assumption.
          -- cbn [app vokF forallb vok]. rewrite andb_true_r. destruct (spanValid_elim _ Evl) as (V1 & V2 & V3).
             pose proof (in_src src (snd lspan - 1) ltac:(rewrite P93; discriminate)).
             rewrite span_valid_intro by lia. cbn [andb]. rewrite Esrc. apply kids_valid; [exact Esrc|exact Eunp|lia|lia].
        * (* shortcut reference *)
          destruct (negb (matchRef _ _)); [cbn [fst]; exact Hfail|].
          destruct (wrap st kind (d_node od) None) as [st2 lid] eqn:Ew.
          assert (Elid : lid = nid st) by (change lid with (snd (st2, lid)); rewrite <- Ew; reflexivity).
          assert (LS2 : LS st pre M kind [] [] s0 e0 st2) by exact LS0.
          subst lid. rewrite Epsb. cbn [fst].
          eapply (Hfinish [] _ (start + 1)); [apply (LS_spanRef st pre M kind Hpre [] [] s0 e0); exact LS2|lia| |reflexivity|reflexivity].
          left. replace (start + 1 - 1) with start by lia. exact H93.
  Qed.
End FL.
