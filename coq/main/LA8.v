From Coq Require Import List ZArith Lia Bool.
Import ListNotations.
Require Import Base Tree Rdr Link Collect Html Recog LP Rules Starts Driver Rec16 Rec17 Rec18 RecBounds Cursor CursorX NoPanic12 NoPanic3
  L2Kind L2CC BSDef BSRdr BSTree BSOrph BSClose BSLine1 BSLine2 BSLine3 BSLine4 BSLine5 BSLine6
  BSLine7 BSLine8 LADef LA1 LA2 LA3 LA4 LA5 LARec LA6 LA7.
Open Scope Z_scope.

(* ===== the block starts, part 2: list items (mirrors BSLine6) ===== *)

Lemma Lfin_bindent q v : LOP q -> LLI q -> LOP (updCont q (fun b => set_bindent b v)) /\ LLI (updCont q (fun b => set_bindent b v)).
Proof.
  intros A L. split; [apply LOP_field; [exact A|apply keeps_bindent|intros s0 M x; apply la_set_bindent]|].
  apply LLI_updCont_field; [apply keeps_bindent|intros s0 M x; apply la_set_bindent|exact L].
Qed.
Lemma wideC_same p p' : same_tree p p' -> wideC p -> wideC p'.
Proof. intros [E1 E2] H z. unfold cdepth. rewrite E1, E2. apply H. Qed.
Lemma wideC_updCont_keeps p f : keeps f -> wideC p -> wideC (updCont p f).
Proof.
  intros Hk H z Ez. change (cdepth (updCont p f)) with (cdepth p) in Ez. cbn [root updCont withRoot setLP] in Ez.
  rewrite getAt_updAt_same in Ez. destruct (getAt (cdepth p) (root p)) as [x|] eqn:Ex; [|discriminate]. cbn in Ez. inversion Ez; subst z.
  destruct (Hk x) as (_ & _ & _ & K4). rewrite K4. apply H, Ex.
Qed.
Lemma wide_not_para k : wide k -> k <> ParagraphKind.
Proof. intros [E|[E|E]]; rewrite E; discriminate. Qed.

Lemma sOKL_startListItem : startOKL startListItem.
Proof.
  intros p Hs H HL H3 HS. unfold startListItem. cbv zeta.
  assert (SCp : SC p) by (intros E; destruct Hs as [E'|E']; rewrite E' in E; discriminate).
  assert (Same : LOP p /\ LLI2 p /\ (LLI p \/ ms p) /\ SC p /\ (p = p \/ containerKind p <> ParagraphKind)).
  { destruct (sameL p H HL) as (A & B & C & D). tauto. }
  destruct (_ <=? _); [exact Same|].
  destruct (parseListMarker _) as [[delim n] mend] eqn:Epm.
  match goal with |- context [if ?c then p else _] => destruct c eqn:Eg end; [exact Same|].
  match goal with |- context [if ?c then p else _] => destruct c end; [exact Same|]. clear Same.
  apply orb_false_iff in Eg. destruct Eg as [Eg _]. apply Z.ltb_ge in Eg.
  pose proof (parseListMarker_le _ _ _ _ Epm) as Hmle.
  pose proof H as ((C & _) & _). pose proof (proj1 H3) as Hi.
  destruct (consume_ind p C Hi) as (A1 & A2 & A3 & A4 & A5).
  destruct (idl_bounds p C) as [I1 I2]. pose proof (len_bai p C) as Lb.
  set (p1 := consumeIndent p (indent p)) in *.
  pose proof (ntstep_consumeIndent p (indent p) C) as Hn1. fold p1 in Hn1.
  assert (H1 : LOP p1) by (eapply LOP_ntstep; eassumption). assert (L1 : LLI p1) by (eapply LLI_cstep; [apply Hn1|exact HL]).
  assert (S1 : st_open p1) by (apply st_open_consumeIndent, Hs).
  set (cdelim := if (containerKind p1 =? ListKind) || (containerKind p1 =? ListItemKind) then bchar (contBlock p1) else 0).
  set (p2 := if negb (containerKind p1 =? ListKind) || negb (cdelim =? delim) then _ else p1).
  assert (H2 : LOP p2 /\ containerKind p2 = ListKind /\ st_open p2 /\ curE p1 p2).
  { unfold p2. destruct (negb (containerKind p1 =? ListKind) || negb (cdelim =? delim)) eqn:Ec.
    - assert (A : LOP (openBlock p1 ListKind)) by (apply LOP_openBlock; [exact H1|discriminate|exact L1|discriminate]).
      assert (A' : LOP (updCont (openBlock p1 ListKind) (fun b => set_bchar b delim))) by (apply LOP_field; [exact A|apply keeps_bchar|intros s0 M x; apply la_set_bchar]).
      split; [exact A'|split; [|split]].
      + apply containerKind_of; [apply A'|]. apply ckind_updCont; [intros b; apply bkind_set_bchar|]. apply ckind_openBlock, S1.
      + apply st_open_state. apply (state_openBlock p1 ListKind S1).
      + eapply curE_trans; [apply curE_openBlock|apply curE_updCont].
    - apply orb_false_iff in Ec. destruct Ec as [Ec _]. apply negb_false_iff, Z.eqb_eq in Ec. split; [exact H1|split; [exact Ec|split; [exact S1|apply curE_refl]]]. }
  destruct H2 as (H2 & K2 & S2 & E12).
  set (p3 := updCont (openBlock p2 ListItemKind) (fun b => set_bchar b delim)).
  assert (A3o : LOP (openBlock p2 ListItemKind)).
  { apply LOP_openBlock_ns; [exact H2|discriminate|]. left. rewrite K2. reflexivity. }
  assert (A3' : LOP p3) by (apply LOP_field; [exact A3o|apply keeps_bchar|intros s0 M x; apply la_set_bchar]).
  assert (B3 : ckind p3 ListItemKind) by (apply ckind_updCont; [intros b; apply bkind_set_bchar|apply ckind_openBlock, S2]).
  assert (S3 : st_open p3) by (apply st_open_state; apply (state_openBlock p2 ListItemKind S2)).
  assert (K3 : containerKind p3 = ListItemKind) by (apply containerKind_of; [apply A3'|exact B3]).
  assert (E23 : curE p2 p3) by (eapply curE_trans; [apply curE_openBlock|apply curE_updCont]).
  set (p4 := openBlock p3 ListMarkerKind).
  assert (A4' : LOP p4) by (apply LOP_openBlock_ns; [exact A3'|discriminate|left; rewrite K3; reflexivity]).
  assert (B4 : ckind p4 ListMarkerKind) by (apply ckind_openBlock, S3).
  assert (St4 : state p4 = stOpenMatched) by (apply (state_openBlock p3 ListMarkerKind S3)).
  assert (E14 : curE p1 p4) by (eapply curE_trans; [exact E12|]; eapply curE_trans; [exact E23|apply curE_openBlock]).
  destruct (curE_facts _ _ E14) as (G1 & G2 & G3 & _ & _ & _ & _ & _ & G9).
  destruct (curE_facts _ _ (curE_openBlock p3 ListMarkerKind)) as (Q1 & _ & Q3 & _). fold p4 in Q1, Q3.
  pose proof (curP_curE _ _ E14 A4) as C4.
  assert (Hcont : forall c, getAt (cdepth p4) (root p4) = Some c -> bstart c = Mc p4 /\ bkids c = []).
  { intros c Ec. pose proof (openBlock_cont p3 ListMarkerKind c S3 Ec) as E. subst c. unfold newBlock, Mc. cbn [bstart bkids]. rewrite Q1, Q3. split; reflexivity. }
  set (p5 := advance p4 mend).
  pose proof (cstep_advance p4 mend) as Hc5. fold p5 in Hc5.
  assert (L5 : li p5 = li p4 + mend) by (unfold p5; apply li_advance; [exact C4|lia|rewrite G1, G2, A1, A2; lia]).
  destruct A4' as [HB4 _].
  assert (HB5 : LB (Mc p4) p5) by (eapply LB_cstep; [exact Hc5|exact HB4|lia|apply NT_empty; lia]).
  assert (B5 : ckind p5 ListMarkerKind) by (eapply ckind_cstep'; eassumption).
  assert (M5 : ms p5) by (eapply ms_sstep; [apply sstep_advance|left; exact St4]).
  assert (St5 : state p5 = stOpenMatched) by (apply (state_sstep_om p4 p5); [apply sstep_advance|exact St4]).
  destruct (cstep_Mc p4 p5 Hc5 C4) as (C5 & Hm5 & _).
  assert (Hbd5 : bnd0 (source p5) (Mc p5)).
  { right; right. destruct (marker_last _ _ _ _ Epm Eg) as [Hm1 Hm2]. destruct HB5 as (_ & St5' & _). pose proof C4 as (_ & C4b). pose proof C as (_ & Cb).
    unfold Mc. replace (lineStart p5 + li p5 - 1) with (lineStart p5 + (li p5 - 1)) by lia. rewrite <- line_at by (try assumption; lia).
    destruct Hc5 as (_ & (_ & El5 & _) & _). rewrite El5, L5, G1, G2, A1, A2.
    replace (li p + idl p + mend - 1) with (li p + idl p + (mend - 1)) by lia. rewrite <- bai_at by (try assumption; lia). exact Hm2. }
  destruct (LB_endBlock_marker (Mc p4) p5 HB5 (ms_nd _ M5) B5 Hm5 Hbd5) as (Aq & C1q & Wq).
  { intros c Ec. destruct Hc5 as ((R1 & R2) & _). unfold cdepth in Ec. rewrite R1, R2 in Ec. apply Hcont, Ec. }
  set (q := endBlock p5) in *.
  assert (LOPq : LOP q) by (split; assumption). pose proof (wideC_LLI q Wq) as Lq.
  assert (Stq : state q = stOpenMatched) by (apply (state_sstep_om p5 q); [apply sstep_endBlock|exact St5]).
  pose proof Aq as (Cq & _).
  assert (Fin : forall q' v, ntstep q q' -> state q' = stOpenMatched -> let r := updCont q' (fun b => set_bindent b v) in
            LOP r /\ LLI2 r /\ (LLI r \/ ms r) /\ SC r /\ (r = p \/ containerKind r <> ParagraphKind)).
  { intros q' v Hn' Hst r. destruct (Lfin_bindent q' v ltac:(eapply LOP_ntstep; eassumption) ltac:(eapply LLI_cstep; [apply Hn'|exact Lq])) as [P1 P2].
    split; [exact P1|split; [left; exact P2|split; [left; exact P2|split; [apply SC_of_state; exact Hst|right]]]].
    apply wide_not_para. apply wideC_kind; [apply P1|]. apply wideC_updCont_keeps; [apply keeps_bindent|]. eapply wideC_same; [apply Hn'|exact Wq]. }
  destruct (isRestBlank q) eqn:Erb.
  - destruct (Lfin_bindent q (indent p + mend + 1) LOPq Lq) as [P1 P2].
    set (q1 := updCont q (fun b => set_bindent b (indent p + mend + 1))) in *.
    assert (Nq : ntstep q1 (consumeLine q1)) by (apply ntstep_consumeLine; [exact Cq|apply (restBlank_NTl q Cq Erb)]).
    split; [eapply LOP_ntstep; eassumption|]. assert (L : LLI (consumeLine q1)) by (eapply LLI_cstep; [apply Nq|exact P2]).
    split; [left; exact L|]. split; [left; exact L|]. split.
    + apply SC_of_li. rewrite li_consumeLine by exact Cq. destruct (cstep_consumeLine q1) as (_ & (_ & E2 & _) & _). rewrite E2. reflexivity.
    + right. apply wide_not_para. apply wideC_kind; [eapply LOP_ntstep; eassumption|]. eapply wideC_same; [apply Nq|]. apply wideC_updCont_keeps; [apply keeps_bindent|exact Wq].
  - destruct (indent q <? 1); [apply Fin; [apply ntstep_refl|exact Stq]|].
    destruct (4 <? indent q); (apply Fin; [apply ntstep_consumeIndent, Cq|apply (state_sstep_om q _); [apply sstep_consumeIndent|exact Stq]]).
Qed.

(* ===== the setext heading start (mirrors BSLine7-8) ===== *)
Lemma eok_kind src K K' u : isParaK K' = isParaK K -> eok src K u -> eok src K' u.
Proof. intros E [A B]. split; [exact A|rewrite E; exact B]. Qed.

Lemma la_setext_close n src x level e : OcpLoopSpec src -> e <= len src -> bnd0 src e ->
  cc x = true -> bkind x = ParagraphKind -> bend x < 0 -> 0 <= bstart x <= e ->
  tileS src (bstart x) e (map ispan (bik x)) -> Forall (eok src ParagraphKind) (bik x) -> indOK (bik x) ->
  lastIsPara (onCloseParagraph src x) = true ->
  let L := closeBlock (S n) src (set_bn (set_bkind x SetextHeadingKind) level) e in
  allQ (la src e) L /\ tchain src false (bstart x) e L /\ lastBend e L.
Proof.
  intros HO Hel Hbe Hc HK Ho H0 Ht Hf Hio HP L.
  set (gx := set_bn (set_bkind x SetextHeadingKind) level).
  assert (F : bkids gx = bkids x /\ bik gx = bik x /\ bstart gx = bstart x /\ bend gx = bend x /\ bkind gx = SetextHeadingKind) by (destruct x; repeat split).
  destruct F as (F1 & F2 & F3 & F4 & F5).
  pose proof (para_no_kids x Hc HK) as Hk.
  set (b1 := set_bend gx e).
  assert (G : bkids b1 = [] /\ bik b1 = bik x /\ bstart b1 = bstart x /\ bend b1 = e /\ bkind b1 = SetextHeadingKind).
  { unfold b1. rewrite bk_set_bend, bik_set_bend, bstart_set_bend, bend_set_bend, bkind_set_bend. rewrite F1, Hk. tauto. }
  destruct G as (G1 & G2 & G3 & G4 & G5).
  assert (EL : L = onCloseParagraph src b1).
  { unfold L. fold gx. cbn [closeBlock]. unfold isOpen. rewrite F4. destruct (Z.ltb_spec (bend x) 0); [|lia]. cbn [negb]. cbv zeta. fold b1.
    rewrite G5. reflexivity. }
  assert (Hf' : Forall (eok src (bkind b1)) (bik b1)).
  { rewrite G2, G5. eapply Forall_impl; [|exact Hf]. intros u. apply eok_kind. reflexivity. }
  rewrite EL. unfold onCloseParagraph in *. destruct (bik x) as [|first rest] eqn:Eb.
  - rewrite G2. split; [split; [|exact I]|split].
    + apply la_leaf_closed; [exact G1|lia|lia|lia|rewrite G4; exact Hbe|]. rewrite body_leaf by (rewrite G5; reflexivity). rewrite hiOf_closed by lia.
      rewrite G4, G3, G2. split; [exact Ht|split; [constructor|intros _; exact I]].
    + apply tchain_one; rewrite ?G3, ?G4; try lia; apply NT_empty; lia.
    + apply (lastBend_snoc e [] b1). exact G4.
  - cbv zeta in *. rewrite HK in HP. change (ParagraphKind =? SetextHeadingKind) with false in HP. cbv iota in HP.
    assert (Eik : bik x = bik b1) by (rewrite Eb, G2; reflexivity).
    rewrite G5. change (SetextHeadingKind =? SetextHeadingKind) with true. cbv iota. rewrite G2.
    rewrite (ocp_orphan_irrel _ _ src x b1 _ _ [] [] Eik HP).
    pose proof (ocp_last_bend _ _ src x b1 _ [] [] Eik HP) as HLb. rewrite G4 in HLb.
    destruct (HO e b1 first rest G1 G4 ltac:(rewrite G5; reflexivity) Hel Hbe ltac:(rewrite G3; lia) ltac:(rewrite G3, G2; exact Ht) Hf' ltac:(rewrite G2; exact Hio) G2) as [P1 P2].
    unfold ocpRun in P1, P2. rewrite G2 in P1, P2. rewrite G3 in P2. split; [exact P1|split; [exact P2|exact HLb]].
Qed.

Lemma sOKL_startSetext : startOKL startSetext.
Proof.
  intros p Hs H HL H3 HS.
  assert (SCp : SC p) by (intros E; destruct Hs as [E'|E']; rewrite E' in E; discriminate).
  assert (Same : LOP p /\ LLI2 p /\ (LLI p \/ ms p) /\ SC p /\ (p = p \/ containerKind p <> ParagraphKind)).
  { destruct (sameL p H HL) as (A & B & C & D). tauto. }
  pose proof (ccP_startSetext p ltac:(apply H)) as Hcc. revert Hcc. unfold startSetext. cbv zeta.
  destruct (negb (containerKind p =? ParagraphKind)) eqn:Ek; [intros _; exact Same|].
  destruct (_ <=? _); [intros _; exact Same|]. destruct (Z.eqb_spec (parseSetextHeadingUnderline (bytesAfterIndent p)) 0) as [E0|N0]; [intros _; exact Same|].
  destruct (containerHasParagraphContent p) eqn:PC; cbn [negb]; [|intros _; exact Same]. clear Same.
  apply negb_false_iff, Z.eqb_eq in Ek.
  set (level := parseSetextHeadingUnderline (bytesAfterIndent p)).
  set (g := fun b : block => set_bn (set_bkind b SetextHeadingKind) level).
  destruct H as [HB H1]. pose proof HB as (A & St & B & C & D). pose proof St as (_ & _ & HO & _).
  destruct (cdepth p) as [|d] eqn:Ed.
  { exfalso. rewrite (containerKind_root p Ed) in Ek. destruct D as (D1 & _). rewrite D1 in Ek. discriminate. }
  destruct (wf_le p (S d) D ltac:(lia)) as (x & Ex). destruct (wf_le p d D ltac:(lia)) as (y & Ey).
  assert (Kx : bkind x = ParagraphKind) by (rewrite <- Ek; symmetry; apply containerKind_at; rewrite Ed; exact Ex).
  assert (Ox : bend x < 0) by (apply (C (S d) x); [lia|exact Ex]).
  assert (Cx : cc x = true) by (eapply cc_getAt; [apply D|exact Ex]).
  assert (Ly : lastBlock y = Some x) by (rewrite getAt_S_last, Ey in Ex; exact Ex).
  assert (HP : lastIsPara (onCloseParagraph (source p) x) = true).
  { unfold containerHasParagraphContent in PC. rewrite Ek in PC. change (negb (ParagraphKind =? ParagraphKind)) with false in PC. cbv iota zeta in PC.
    unfold contBlock in PC. rewrite Ed, Ex in PC. exact PC. }
  set (q0 := updCont p g).
  assert (Cq0 : curP q0) by exact A.
  (* the rest of the line is the underline: nothing to cover *)
  assert (Hrest : NTl q0 (li q0) (len (line q0))).
  { change (NTl p (li p) (len (line p))). destruct (idl_bounds p A) as [I1 I2]. eapply NTl_app; [apply NTl_indent, A|]. fold (idl p).
    pose proof (NTa_bai p 0 _ A ltac:(lia) (setext_all _ N0)) as Hn. rewrite len_bai in Hn by exact A. intros i Hi. apply Hn. lia. }
  assert (Hn6 : ntstep q0 (if state (consumeLine q0) =? stOpening then withState (consumeLine q0) stOpenMatched else consumeLine q0)).
  { eapply ntstep_trans; [exact Cq0|apply ntstep_consumeLine; [exact Cq0|exact Hrest]|apply ntstep_opened]. }
  assert (Nq : nd (consumeLine q0)) by (apply ms_consumeLine, st_open_nd; exact Hs).
  unfold endBlock. fold q0.
  replace ((state (consumeLine q0) =? stDescending) || (state (consumeLine q0) =? stDescendTerminated)) with false
    by (destruct Nq as [-> |[-> | ->]]; reflexivity).
  cbv zeta. set (p6 := if state (consumeLine q0) =? stOpening then withState (consumeLine q0) stOpenMatched else consumeLine q0) in *.
  pose proof Hn6 as [Hc Hnt6]. destruct Hc as ((E1 & E2) & (E3 & E4 & E5) & E6).
  assert (Ecd : cdepth p6 = S d) by (unfold cdepth; rewrite E2; exact Ed).
  rewrite Ecd. intros Hcc.
  assert (Acur : curP p6 /\ Mc p <= Mc p6).
  { specialize (E6 ltac:(apply A)). unfold curP, Mc. rewrite E3, E4. change (lineStart q0) with (lineStart p). change (line q0) with (line p).
    change (li q0) with (li p) in E6. change (line q0) with (line p) in E6. destruct A. lia. }
  destruct Acur as [A6 Hm].
  assert (Hli6 : li p6 = len (line p)).
  { unfold p6. assert (E : li (consumeLine q0) = len (line q0)) by (apply li_consumeLine, Cq0). destruct (_ =? _); exact E. }
  assert (Hnt : NT (source p) (Mc p) (Mc p6)).
  { unfold Mc. rewrite E3. change (lineStart q0) with (lineStart p). apply NTl_NT; [exact A|exact St|apply A|]. exact Hnt6. }
  assert (St6 : ST p6) by (apply (ST_env q0); [split; [exact E3|split; [exact E4|exact E5]]|exact St]).
  pose proof (Mc_le p6 A6 St6) as HM6. change (source q0) with (source p) in E5. rewrite E5 in HM6.
  set (e := lineStart p6 + li p6). change e with (Mc p6) in *.
  set (CB := fun c : block => closeBlock (bheight (root p6)) (source p6) c (Mc p6)).
  assert (Eroot : updAt d (closeF p6 (Mc p6)) (root p6) = updAt d (clG CB g) (root p)).
  { rewrite E1. change (root q0) with (updAt (cdepth p) g (root p)). rewrite Ed. change (closeF p6 (Mc p6)) with (clF CB). apply fuse. }
  destruct (bheight_S (root p6)) as (n & En).
  assert (Sx : la (source p) (Mc p) x) by (eapply la_getAt; eassumption).
  assert (Hx : 0 <= bstart x <= Mc p6 /\ tileS (source p) (bstart x) (Mc p6) (map ispan (bik x)) /\ Forall (eok (source p) ParagraphKind) (bik x) /\ indOK (bik x)).
  { pose proof Sx as Sx'. rewrite la_eq in Sx'. destruct Sx' as (X1 & _ & _ & X4 & _). rewrite body_leaf in X4 by (rewrite Kx; reflexivity).
    rewrite hiOf_open in X4 by exact Ox. destruct X4 as (X4 & X5 & X6). rewrite Kx in X5, X6. split; [lia|split; [eapply tileS_ext; eassumption|split; [exact X5|apply X6; reflexivity]]]. }
  destruct Hx as (Hx1 & Hx2 & Hx3 & Hx4).
  assert (Oy : bend y < 0) by (apply (C d y); [lia|exact Ey]).
  assert (Hbe6 : bnd0 (source p) (Mc p6)).
  { right; left. pose proof (ST_len p6 A6 St6) as Hl. unfold Mc. rewrite Hli6. rewrite E4 in Hl. change (line q0) with (line p) in Hl. rewrite E5 in Hl. exact Hl. }
  destruct (la_setext_close n (source p) x level (Mc p6) HO ltac:(lia) Hbe6 Cx Kx Ox Hx1 Hx2 Hx3 Hx4 HP) as (L1 & L2 & L3).
  rewrite <- E5 in L1, L2, L3. rewrite <- En in L1, L2, L3. fold g in L1, L2, L3.
  change (closeBlock (bheight (root p6)) (source p6) (g x) (Mc p6)) with (CB (g x)) in L1, L2, L3.
  assert (B' : la (source p6) (Mc p6) (root p)) by (rewrite E5; eapply la_mono; eassumption).
  assert (Ky : isContK (bkind y) = true) by (eapply canContain_cont, (cc_spine d (root p) y x); [apply D|exact Ey|exact Ex]).
  assert (Hroot : la (source p6) (Mc p6) (updAt d (clG CB g) (root p))).
  { apply (la_updAt_at (source p6) (Mc p6) (clG CB g) d (root p) B').
    intros y' Ey' Sy'. rewrite Ey in Ey'. inversion Ey'; subst y'. split; [|split; [apply clG_bstart|apply clG_bend]].
    unfold clG. rewrite Ly. eapply la_set_lastBlocks; [exact Sy'|exact Ly|exact L1|].
    intros _ lo Hlo. rewrite hiOf_open in * by exact Oy. cbn [tchain] in Hlo. destruct Hlo as (P1 & P2 & _).
    eapply tchain_lo; [|exact P1|exact P2]. eapply tchain_op; [apply (tchain_false_closed _ _ _ _ L2)|exact L2]. }
  assert (Final : LOP (withCont (closeLastChildAt p6 d (Mc p6)) (Some d)) /\ wideC (withCont (closeLastChildAt p6 d (Mc p6)) (Some d))).
  { split; [split; [split; [exact A6|split; [exact St6|split; [|split; [|exact Hcc]]]]|]|].
    - rewrite closeLastChildAt_eq. cbn [root source withCont withRoot setLP]. rewrite Eroot. exact Hroot.
    - intros j z Hj Ez. change (cdepth (withCont (closeLastChildAt p6 d (Mc p6)) (Some d))) with d in Hj.
      rewrite closeLastChildAt_eq in Ez. cbn [root withCont withRoot setLP] in Ez. rewrite Eroot in Ez.
      destruct (getAt_updAt_low (clG CB g) ltac:(intros; apply clG_bend) d j (root p) z Hj Ez) as (z0 & Z1 & Z2 & _).
      rewrite Z2. apply (C j z0); [lia|exact Z1].
    - intros z Ez Oz. exfalso. change (cdepth (withCont (closeLastChildAt p6 d (Mc p6)) (Some d))) with d in Ez.
      rewrite closeLastChildAt_eq in Ez. cbn [root withCont withRoot setLP] in Ez. rewrite Eroot, getAt_S_updAt, Ey in Ez.
      unfold clG in Ez. rewrite Ly in Ez. rewrite lastBlock_of_list in Ez by (apply closeBlock_nonnil).
      assert (L3' : match rev (CB (g x)) with w :: _ => bend w = Mc p6 | [] => False end) by exact L3.
      destruct (rev (CB (g x))) as [|w t]; [discriminate|]. inversion Ez; subst z. destruct A6. unfold Mc in L3'. lia.
    - intros z Ez. change (cdepth (withCont (closeLastChildAt p6 d (Mc p6)) (Some d))) with d in Ez.
      rewrite closeLastChildAt_eq in Ez. cbn [root withCont withRoot setLP] in Ez. rewrite Eroot, getAt_updAt_same, Ey in Ez. cbn in Ez.
      inversion Ez; subst z. rewrite clG_kind. eapply wide_of_child; [eapply (cc_spine d (root p) y x); [apply D|exact Ey|exact Ex]|rewrite Kx; discriminate]. }
  destruct Final as [F1 F2]. pose proof (wideC_LLI _ F2) as F3.
  split; [exact F1|split; [left; exact F3|split; [left; exact F3|split]]].
  - apply SC_of_li. cbn [li line withCont closeLastChildAt withRoot setLP]. rewrite Hli6, E4. reflexivity.
  - right. apply wide_not_para. apply wideC_kind; [apply F1|exact F2].
Qed.
