From Coq Require Import List ZArith Lia Bool.
Import ListNotations.
Require Import Base Tree Rdr Link Collect LP Rules Leaf3e RdrBound L2Kind L2CC BSDef BSRdr BSRdr2 BSTree BSOcp BSOrph.
Open Scope Z_scope.

Lemma bk_set_bend b v : bkids (set_bend b v) = bkids b. Proof. destruct b; reflexivity. Qed.
Lemma bk_set_bik b v : bkids (set_bik b v) = bkids b. Proof. destruct b; reflexivity. Qed.
Lemma bstart_set_bend b v : bstart (set_bend b v) = bstart b. Proof. destruct b; reflexivity. Qed.
Lemma bend_set_bend b v : bend (set_bend b v) = v. Proof. destruct b; reflexivity. Qed.
Lemma bik_set_bend b v : bik (set_bend b v) = bik b. Proof. destruct b; reflexivity. Qed.
Lemma bstart_set_bik b v : bstart (set_bik b v) = bstart b. Proof. destruct b; reflexivity. Qed.
Lemma bend_set_bik b v : bend (set_bik b v) = bend b. Proof. destruct b; reflexivity. Qed.
Lemma bstart_set_bloose b v : bstart (set_bloose b v) = bstart b. Proof. destruct b; reflexivity. Qed.
Lemma bend_set_bloose b v : bend (set_bloose b v) = bend b. Proof. destruct b; reflexivity. Qed.

Lemma chain_map g lo e l : (forall x, bstart (g x) = bstart x /\ bend (g x) = bend x) -> chain lo e (map g l) <-> chain lo e l.
Proof.
  intros Hg. revert lo. induction l as [|c r IH]; intros lo; cbn [map chain]; [tauto|].
  destruct (Hg c) as [A B]. rewrite A, B, IH. tauto.
Qed.

Lemma sp_set_bend_close e b : sp e b -> bend b < 0 -> sp e (set_bend b e).
Proof.
  intros H Ho. pose proof H as H'. rewrite sp_eq in H'. destruct H' as (A & B & C & D & E).
  rewrite sp_eq, bstart_set_bend, bend_set_bend, bk_set_bend.
  split; [lia|]. split; [right; lia|]. split; [intros; lia|]. split; [|exact E].
  eapply chain_end; [|exact D]. right. intros c Hc. apply (allP_sp_bounds e _ E c Hc).
Qed.
Lemma sp_set_bik_closed M b ik : 0 <= bend b -> sp M b -> sp M (set_bik b ik).
Proof.
  intros Hc. rewrite !sp_eq, bstart_set_bik, bend_set_bik, bk_set_bik, bkind_set_bik.
  intros (A & B & C & D & E). split; [exact A|]. split; [exact B|]. split; [intros; lia|]. tauto.
Qed.

(* ---- onCloseParagraph on a closed leaf whose entries ascend inside its span ---- *)
Lemma sp_ocp_start e pe rfuel src b1 : (pe < 0 \/ e <= pe) -> bkids b1 = [] -> bend b1 = e -> 0 <= bstart b1 ->
  ascI (bstart b1) e (bik b1) ->
  forall first rest, bik b1 = first :: rest ->
  allP (sp e) (ocp_loop (S (length (bik b1))) rfuel src b1 None (newReader src (bik b1) (istart first)) []) /\
  chain (bstart b1) pe (ocp_loop (S (length (bik b1))) rfuel src b1 None (newReader src (bik b1) (istart first)) []).
Proof.
  intros Hpe Hk He H0 Ha first rest Eb.
  assert (Hf : bstart b1 <= istart first /\ istart first <= e).
  { pose proof (ascI_all _ _ _ first Ha ltac:(rewrite Eb; left; reflexivity)). lia. }
  apply sp_ocp; try assumption.
  - cbn [r_pos newReader]. lia.
  - split; [cbn [r_spans newReader]; eapply ascI_sorted; exact Ha|left; cbn [r_prev r_pos newReader]; lia].
  - unfold RB, newReader. cbn [r_spans r_pos r_prev]. split; [|lia].
    apply Forall_forall. intros x Hx. pose proof (ascI_all _ _ _ x Ha Hx). unfold spanOK. lia.
  - exact I.
  - exact I.
  - cbn [run]. lia.
Qed.

Lemma sp_onCloseParagraph e pe src b1 : (pe < 0 \/ e <= pe) -> bkids b1 = [] -> bend b1 = e -> 0 <= bstart b1 <= e ->
  ascI (bstart b1) e (bik b1) -> bkind b1 = ParagraphKind ->
  allP (sp e) (onCloseParagraph src b1) /\ chain (bstart b1) pe (onCloseParagraph src b1).
Proof.
  intros Hpe Hk He H0 Ha HK. unfold onCloseParagraph. destruct (bik b1) as [|first rest] eqn:Eb.
  - split; [split; [apply sp_leaf_closed; [exact Hk|lia|lia|lia]|exact I]|]. cbn [chain]. rewrite He. repeat split; [lia|exact Hpe].
  - cbv zeta. rewrite HK. change (ParagraphKind =? SetextHeadingKind) with false. cbv iota. rewrite <- Eb in Ha |- *.
    apply (sp_ocp_start e pe _ src b1 Hpe Hk He ltac:(lia) Ha first rest Eb).
Qed.

(* ---- closeBlock ---- *)
Lemma forallb_false_nil' {A} (l : list A) : forallb (fun _ => false) l = true -> l = [].
Proof. destruct l; [reflexivity|discriminate]. Qed.
Lemma para_no_kids b : cc b = true -> bkind b = ParagraphKind -> bkids b = [].
Proof. intros H Hk. apply cc_parts in H. destruct H as [H _]. rewrite Hk in H. apply forallb_false_nil'. exact H. Qed.

Lemma sp_onCloseList M b : sp M b -> sp M (onCloseList b) /\ bstart (onCloseList b) = bstart b /\ bend (onCloseList b) = bend b.
Proof.
  intros H. unfold onCloseList. cbv zeta. destruct (bloose b || _); [|tauto].
  rewrite bstart_set_bkids, bend_set_bkids, bstart_set_bloose, bend_set_bloose. split; [|tauto].
  pose proof H as H'. rewrite sp_eq in H'. destruct H' as (A & B & C & D & E).
  apply sp_set_bkids; [apply sp_set_bloose; exact H| | |tauto].
  - rewrite bstart_set_bloose, bend_set_bloose. apply chain_map; [|exact D]. intros x. split; [apply bstart_set_bloose|apply bend_set_bloose].
  - apply allP_map. eapply allP_impl; [|exact E]. intros x Hx. apply sp_set_bloose. exact Hx.
Qed.

Lemma sp_closeBlock src e : forall fuel b, cc b = true -> sp e b -> forall pe, (pe < 0 \/ e <= pe) ->
  allP (sp e) (closeBlock fuel src b e) /\ chain (bstart b) pe (closeBlock fuel src b e).
Proof.
  induction fuel as [|f IH]; intros b Hc Hb pe Hpe.
  { cbn [closeBlock allP chain]. pose proof (sp_bounds e b Hb). repeat split; try tauto; try lia. }
  cbn [closeBlock]. destruct (isOpen b) eqn:Eo; cbn [negb].
  2:{ cbn [allP chain]. pose proof (sp_bounds e b Hb). repeat split; try tauto; try lia. }
  unfold isOpen in Eo. apply Z.ltb_lt in Eo. cbv zeta.
  pose proof (sp_bounds e b Hb) as Hbd.
  assert (Hcl : forall x, cc x = true -> sp e x -> bend x = e ->
            let y := match lastBlock x with Some c => set_lastBlocks x (closeBlock f src c e) | None => x end in
            sp e y /\ bstart y = bstart x /\ bend y = bend x).
  { intros x Cx Sx Ex. cbv zeta. destruct (lastBlock x) as [c|] eqn:El; [|tauto].
    rewrite bstart_set_lastBlocks, bend_set_lastBlocks. split; [|tauto].
    destruct (cc_lastBlock x c Cx El) as [Cc _].
    destruct (IH c Cc (sp_lastBlock e x c Sx El) (bend x) ltac:(rewrite Ex; right; lia)) as [A B].
    eapply sp_set_lastBlocks; eassumption. }
  assert (H1 : sp e (set_bend b e)) by (apply sp_set_bend_close; assumption).
  assert (C1 : cc (set_bend b e) = true) by (rewrite cc_set_bend; exact Hc).
  assert (Fin : forall x, sp e x -> bstart x = bstart b -> bend x = e -> allP (sp e) [x] /\ chain (bstart b) pe [x]).
  { intros x Sx Bx Ex. cbn [allP chain]. rewrite Bx, Ex. repeat split; try tauto; lia. }
  rewrite bkind_set_bend.
  destruct (bkind b =? ListKind).
  { destruct (cc_onCloseList _ C1) as [A _]. destruct (sp_onCloseList e _ H1) as (B1 & B2 & B3).
    rewrite bstart_set_bend in B2. rewrite bend_set_bend in B3.
    destruct (Hcl _ A B1 B3) as (D1 & D2 & D3). apply Fin; [exact D1|congruence|congruence]. }
  destruct (bkind b =? IndentedCodeBlockKind).
  { destruct (cc_onCloseIndented src (set_bend b e)) as [A _]. rewrite C1 in A.
    assert (B1 : sp e (onCloseIndented src (set_bend b e))) by (unfold onCloseIndented; apply sp_set_bik_closed; [rewrite bend_set_bend; lia|exact H1]).
    assert (B2 : bstart (onCloseIndented src (set_bend b e)) = bstart b) by (unfold onCloseIndented; rewrite bstart_set_bik; apply bstart_set_bend).
    assert (B3 : bend (onCloseIndented src (set_bend b e)) = e) by (unfold onCloseIndented; rewrite bend_set_bik; apply bend_set_bend).
    destruct (Hcl _ A B1 B3) as (D1 & D2 & D3). apply Fin; [exact D1|congruence|congruence]. }
  destruct ((bkind b =? ParagraphKind) || (bkind b =? SetextHeadingKind)) eqn:Ep.
  { pose proof Hb as Hb'. rewrite sp_eq in Hb'. destruct Hb' as (_ & _ & P3 & _ & _). destruct (P3 Eo) as [N4 Pa].
    assert (HK : bkind b = ParagraphKind).
    { apply orb_true_iff in Ep. destruct Ep as [Ep|Ep]; apply Z.eqb_eq in Ep; [exact Ep|contradiction]. }
    rewrite <- (bstart_set_bend b e). apply sp_onCloseParagraph.
    - exact Hpe.
    - rewrite bk_set_bend. apply para_no_kids; assumption.
    - apply bend_set_bend.
    - rewrite bstart_set_bend. lia.
    - rewrite bstart_set_bend, bik_set_bend. apply Pa, HK.
    - rewrite bkind_set_bend. exact HK. }
  destruct (Hcl _ C1 H1 (bend_set_bend b e)) as (D1 & D2 & D3). apply Fin; [exact D1|rewrite D2; apply bstart_set_bend|rewrite D3; apply bend_set_bend].
Qed.
