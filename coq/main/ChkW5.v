(* ChkW5.v -- T30, stage 2: the invariant W through the block starts. *)
From Coq Require Import List ZArith Lia Bool.
Import ListNotations.
Require Import Base Tree Rdr Link Collect Html Recog LP Rules Starts Driver L2Kind2 L2CC ShapesBase ShEnv GramDefs GramTree
  GramLP GramLP2 GramLP3 GramLP4 Cursor CursorX NoPanic12 BSLine1 BSOrph ChkW1 ChkW2 ChkW3 ChkW4.
Open Scope Z_scope.

(* ---- states ---- *)
Lemma st_open_collectInline p k n : st_open p -> st_open (collectInline p k n).
Proof.
  intros H. unfold collectInline. destruct H as [E|E]; rewrite E.
  - change (stOpening =? stDescendTerminated) with false. cbv iota. cbv zeta. change (stOpening =? stOpening) with true. cbv iota.
    apply st_open_updCont, st_open_advance. destruct (0 <? _); [apply st_open_updCont, st_open_advance|]; right; reflexivity.
  - change (stOpenMatched =? stDescendTerminated) with false. cbv iota. cbv zeta. change (stOpenMatched =? stOpening) with false. cbv iota.
    apply st_open_updCont, st_open_advance. destruct (0 <? _); [apply st_open_updCont, st_open_advance|]; right; exact E.
Qed.
Lemma state_consumeLine_open p : st_open p -> state (consumeLine p) = stLineConsumed.
Proof.
  intros H. unfold consumeLine. cbv zeta. pose proof (st_open_advance p (len (line p) - li p) H) as H1.
  destruct H1 as [E|E]; rewrite E; reflexivity.
Qed.
Lemma state_endBlock_lc p : state p = stLineConsumed -> state (endBlock p) = stLineConsumed.
Proof.
  intros H. unfold endBlock. rewrite H. change ((stLineConsumed =? stDescending) || (stLineConsumed =? stDescendTerminated)) with false. cbv iota.
  cbv zeta. change (stLineConsumed =? stOpening) with false. cbv iota. destruct (cdepth p); exact H.
Qed.

(* the container is not the document when its kind is not the document kind *)
Lemma cdepth_pos p K : GI p -> ckind p K -> K <> documentKind -> exists d, cdepth p = S d.
Proof.
  intros ((Hk & _ & _) & _ & _) Hc HK. destruct (cdepth p) as [|d] eqn:E; [|exists d; reflexivity].
  exfalso. apply HK. rewrite <- (Hc (root p)); [exact Hk|]. rewrite E. reflexivity.
Qed.

(* ---- collectInline, then the end of the line, then endBlock ---- *)
Lemma W_collect_end p kind n K Z : st_open p -> CUR p -> GI p -> ckind p K -> K <> SetextHeadingKind -> K <> documentKind ->
  (kind = UnparsedKind \/ kind = RawHTMLKind \/ kind = InfoStringKind) ->
  (kind = UnparsedKind -> K <> HTMLBlockKind) ->
  (kind = RawHTMLKind -> K = HTMLBlockKind /\
     (Z = true \/ forall s, gd (source p) (mkI kind s (lineStart p + li (collectInline p kind n))) = true)) ->
  WY false p -> WY Z (endBlock (consumeLine (collectInline p kind n))) /\
                state (endBlock (consumeLine (collectInline p kind n))) = stLineConsumed.
Proof.
  intros Hs HC HG Hc HK HD Hkind HU HR HW.
  set (q := consumeLine (collectInline p kind n)).
  assert (Sq : state q = stLineConsumed) by (apply state_consumeLine_open, st_open_collectInline, Hs).
  split; [|apply state_endBlock_lc, Sq].
  destruct (cdepth_pos p K HG Hc HD) as (d & Hd).
  assert (Dq : cdepth q = S d).
  { unfold q, cdepth. rewrite (proj2 (same_consumeLine _)). fold (cdepth (collectInline p kind n)). rewrite cdepth_collectInline. exact Hd. }
  assert (HCq : CUR q) by (apply CUR_consumeLine, CUR_collectInline, HC).
  assert (Eq : source q = source p /\ lineStart q = lineStart p).
  { destruct (env_src (collectInline p kind n) q (env_consumeLine _)) as (A & B & _).
    destruct (env_src p _ (env_collectInline p kind n)) as (A' & B' & _). split; congruence. }
  destruct Eq as [Es El].
  unfold endBlock. rewrite Sq. change ((stLineConsumed =? stDescending) || (stLineConsumed =? stDescendTerminated)) with false. cbv iota.
  cbv zeta. change (stLineConsumed =? stOpening) with false. cbv iota. rewrite Dq.
  unfold WY. cbn [root source withCont closeLastChildAt withRoot setLP].
  fold (CLf (bheight (root q)) (source q) (lineStart q + li q)). rewrite Es at 1.
  apply (collect_close p kind n d (lineStart q + li q) K Z q); try assumption.
  - destruct Hs as [E|E]; rewrite E; reflexivity.
  - destruct HCq as (_ & B & C). lia.
  - intros c Ec. destruct (GI_wf p HG) as (x & Ex & Ho). rewrite Hd in Ex. rewrite Ex in Ec. inversion Ec; subst x.
    split; [exact Ho|]. apply Hc. rewrite Hd. exact Ex.
  - apply same_consumeLine.
Qed.

(* collectInline of an info string: nothing constrained is added *)
Lemma W_collectInline_info p n : st_open p -> CUR p -> GI p -> WY false p -> WY false (collectInline p InfoStringKind n).
Proof.
  intros Hs HC HG HW. destruct (collectInline_root p InfoStringKind n HC) as (extra & Hroot & (pre & node & Eex & Hpre & Hnk & _)).
  { destruct Hs as [E|E]; rewrite E; reflexivity. }
  destruct (env_src p _ (env_collectInline p InfoStringKind n)) as (Es & _).
  unfold WY. rewrite Hroot, Es. apply W_updAt_at; [exact HW|]. intros c Ec HWc.
  destruct (GI_wf p HG) as (x & Ex & Ho). rewrite Ex in Ec. inversion Ec; subst x.
  apply W_set_bik; [exact HWc|]. rewrite Ho. cbn [negb orb].
  apply Wb_parts in HWc. destruct HWc as [HL _]. unfold loc in HL. apply andb_true_iff in HL. destruct HL as [HE _]. rewrite Ho in HE. cbn [negb orb] in HE.
  rewrite ents_app by (rewrite Eex; destruct pre; discriminate). rewrite HE. cbn [andb].
  rewrite Eex. destruct pre as [|i0 pre'].
  - cbn [app ents nilb]. rewrite andb_true_r. apply eok_free. unfold freeK. rewrite Hnk. reflexivity.
  - rewrite ents_app by discriminate. rewrite (ents_indents _ _ _ _ _ Hpre). cbn [ents nilb andb]. rewrite andb_true_r.
    apply eok_free. unfold freeK. rewrite Hnk. reflexivity.
Qed.

(* ---- what a block start has to keep ---- *)
Definition startW (f : lp -> lp) : Prop := forall p, st_open p -> CUR p -> G p -> GI p -> WY false p ->
  WY (XL p) (f p) /\ (state (f p) <> stLineConsumed -> WY false (f p)).
Lemma startW_strong (p p' : lp) : WY false p' -> WY (XL p) p' /\ (state p' <> stLineConsumed -> WY false p').
Proof. intros H. split; [apply Wb_weaken, H|intros _; exact H]. Qed.

Lemma WY_same y p p' : same_tree p p' -> source p' = source p -> WY y p -> WY y p'.
Proof. intros [E _] Es. apply WY_tree; assumption. Qed.
Lemma WY_advance y p n : WY y p -> WY y (advance p n).
Proof. apply WY_same; [apply same_advance|apply (env_src p _ (env_advance p n))]. Qed.
Lemma WY_consumeLine y p : WY y p -> WY y (consumeLine p).
Proof. apply WY_same; [apply same_consumeLine|apply (env_src p _ (env_consumeLine p))]. Qed.
Lemma WY_consumeIndent y p n : WY y p -> WY y (consumeIndent p n).
Proof. apply WY_same; [apply same_consumeIndent|apply (env_src p _ (env_consumeIndent p n))]. Qed.

Ltac wchain :=
  repeat match goal with
  | |- WY _ (consumeLine _) => apply WY_consumeLine
  | |- WY _ (advance _ _) => apply WY_advance
  | |- WY _ (consumeIndent _ _) => apply WY_consumeIndent
  | |- WY _ (endBlock ?q) => apply WY_endBlock; [assert (HCe : CUR q) by cchainC; destruct HCe as (_ & ? & ?); lia|]
  | |- WY false (openBlock ?q _) => apply WY_openBlock; [discriminate|assert (HCe : CUR q) by cchainC; destruct HCe as (_ & ? & _); lia|]
  | |- WY _ (updCont _ (fun b => set_bn _ _)) => apply WY_updCont_ext; [intros ?; apply Wb_set_bn|]
  | |- WY _ (updCont _ (fun b => set_bchar _ _)) => apply WY_updCont_ext; [intros ?; apply Wb_set_bchar|]
  | |- WY _ (updCont _ (fun b => set_bindent _ _)) => apply WY_updCont_ext; [intros ?; apply Wb_set_bindent|]
  | |- WY _ (updCont _ (fun b => set_bn (set_bchar _ _) _)) => apply WY_updCont_ext; [intros ?; rewrite Wb_set_bn; apply Wb_set_bchar|]
  end
with cchainC :=
  repeat match goal with
  | |- CUR (consumeLine _) => apply CUR_consumeLine
  | |- CUR (advance _ _) => apply CUR_advance
  | |- CUR (consumeIndent _ _) => apply CUR_consumeIndent
  | |- CUR (endBlock _) => apply CUR_endBlock
  | |- CUR (openBlock _ _) => apply CUR_openBlock
  | |- CUR (updCont _ _) => apply CUR_updCont
  | |- CUR (collectInline _ _ _) => apply CUR_collectInline
  | |- CUR (if _ then _ else _) => match goal with |- CUR (if ?c then _ else _) => destruct c end
  end; try assumption.

Lemma W_startBlockQuote : startW startBlockQuote.
Proof.
  intros p Hs HC HG HI HW. apply startW_strong. unfold startBlockQuote. cbv zeta.
  destruct (_ <=? _); [assumption|]. destruct (negb _); [assumption|]. destruct (0 <? _); wchain; exact HW.
Qed.
Lemma W_startThematic : startW startThematic.
Proof.
  intros p Hs HC HG HI HW. apply startW_strong. unfold startThematic. cbv zeta.
  destruct (_ <=? _); [assumption|]. destruct (_ <? 0); [assumption|]. wchain; exact HW.
Qed.
Lemma W_startIndented : startW startIndented.
Proof.
  intros p Hs HC HG HI HW. apply startW_strong. unfold startIndented. destruct (_ || _ || _); [assumption|]. wchain; exact HW.
Qed.
Lemma W_startListItem : startW startListItem.
Proof.
  intros p Hs HC HG HI HW. apply startW_strong. unfold startListItem. cbv zeta. destruct (_ <=? _); [assumption|].
  destruct (parseListMarker _) as [[delim n] mend]. destruct (_ || _); [assumption|]. destruct (_ && _); [assumption|].
  match goal with |- context [endBlock ?X] => assert (H1 : WY false (endBlock X) /\ CUR (endBlock X)) end.
  { split.
    - destruct (negb _ || negb _); wchain; exact HW.
    - destruct (negb _ || negb _); cchainC. }
  match goal with |- context [endBlock ?X] => set (q := endBlock X) in * end. destruct H1 as [H1 C1].
  destruct (isRestBlank q); [wchain; exact H1|].
  destruct (indent q <? 1); [wchain; exact H1|]. destruct (4 <? indent q); wchain; exact H1.
Qed.

Lemma W_startATX : startW startATX.
Proof.
  intros p Hs HC HG HI HW. unfold startATX. cbv zeta. destruct (_ <=? _); [apply startW_strong; assumption|].
  destruct (parseATXHeading _) as [[level cs] ce] eqn:Ep. destruct (level <? 1) eqn:El; [apply startW_strong; assumption|].
  apply Z.ltb_ge in El. pose proof (atx_level_le _ _ _ _ Ep) as Hl.
  apply startW_strong.
  set (p1 := consumeIndent p (indent p)).
  assert (Hs1 : st_open p1) by (apply st_open_consumeIndent, Hs).
  set (p4 := advance (updCont (openBlock p1 ATXHeadingKind) (fun b => set_bn b level)) cs).
  assert (HI4 : GI p4).
  { apply GI_advance, GI_openBlock_init; [exact Hs1|apply GI_consumeIndent, HI|discriminate|discriminate|].
    intros pos. split; [reflexivity|]. split; [reflexivity|]. split; [apply gb_newATX; lia|reflexivity]. }
  assert (Hc4 : ckind p4 ATXHeadingKind).
  { eapply ckind_same; [apply same_advance|]. apply ckind_updCont; [intros b; destruct b; reflexivity|]. apply ckind_openBlock, Hs1. }
  assert (HC4 : CUR p4) by (unfold p4, p1; cchainC).
  assert (HW4 : WY false p4) by (unfold p4, p1; wchain; exact HW).
  assert (Hs4 : st_open p4) by (apply st_open_advance, st_open_updCont, st_open_openBlock, Hs1).
  apply (W_collect_end p4 UnparsedKind (ce - cs) ATXHeadingKind false Hs4 HC4 HI4 Hc4); try discriminate; try assumption.
  left. reflexivity.
Qed.

Lemma W_startFenced : startW startFenced.
Proof.
  intros p Hs HC HG HI HW. apply startW_strong. unfold startFenced. cbv zeta. destruct (_ <=? _); [assumption|].
  destruct (parseCodeFence _) as [[[fc fnn] is_] ie]. destruct (fnn =? 0); [assumption|].
  set (p1 := consumeIndent p (indent p)).
  assert (Hs1 : st_open p1) by (apply st_open_consumeIndent, Hs).
  match goal with |- WY false (consumeLine (if _ then collectInline (advance ?Q _) _ _ else _)) => set (q := Q) end.
  assert (Hq : GI q).
  { unfold q. apply GI_updCont_bindent.
    apply GI_openBlock_init; [exact Hs1|apply GI_consumeIndent, HI|discriminate|discriminate|].
    intros pos. repeat split; reflexivity. }
  assert (HCq : CUR q) by (unfold q, p1; cchainC).
  assert (HWq : WY false q) by (unfold q, p1; wchain; exact HW).
  assert (Hsq : st_open q) by (apply st_open_updCont, st_open_updCont, st_open_openBlock, Hs1).
  apply WY_consumeLine. destruct (spanValid _); [|exact HWq].
  apply W_collectInline_info; [apply st_open_advance, Hsq|apply CUR_advance, HCq|apply GI_advance, Hq|apply WY_advance, HWq].
Qed.

Lemma W_startHTML : startW startHTML.
Proof.
  intros p Hs HC HG HI HW. unfold startHTML. cbv zeta. destruct (_ <=? _); [apply startW_strong; assumption|].
  destruct (negb _); [apply startW_strong; assumption|].
  destruct (_ <? 0); [apply startW_strong; assumption|]. destruct (negb _ && _); [apply startW_strong; assumption|].
  match goal with |- context [endBlock (consumeLine (collectInline ?Q _ _))] => set (q := Q) end.
  assert (Hq : GI q).
  { unfold q. apply GI_openBlock_init; [exact Hs|exact HI|discriminate|discriminate|].
    intros pos. repeat split; reflexivity. }
  assert (HCq : CUR q) by (unfold q; cchainC).
  assert (HWq : WY false q) by (unfold q; wchain; exact HW).
  assert (Hsq : st_open q) by (apply st_open_updCont, st_open_openBlock, Hs).
  assert (Hcq : ckind q HTMLBlockKind) by (unfold q; apply ckind_updCont; [intros b; destruct b; reflexivity|]; apply ckind_openBlock, Hs).
  assert (HGq : G q).
  { unfold q. apply (G_tree (openBlock p HTMLBlockKind)); [repeat split|reflexivity|apply G_openBlock, HG]. }
  assert (Eenv : envOf q = envOf p) by (unfold q; rewrite env_updCont; apply env_openBlock).
  destruct (htmlEnd _ _); [|apply startW_strong; exact HWq].
  assert (Hli : li (collectInline q RawHTMLKind (len (bytesAfterIndent q))) = len (line q)).
  { apply li_collectInline_all; [exact HGq|exact HCq|destruct Hsq as [E|E]; rewrite E; reflexivity]. }
  destruct (W_collect_end q RawHTMLKind (len (bytesAfterIndent q)) HTMLBlockKind (XL p) Hsq HCq Hq Hcq) as [A B]; try discriminate; try assumption.
  - right. left. reflexivity.
  - intros _. split; [reflexivity|]. destruct (XL p) eqn:EX; [left; reflexivity|right]. intros s. rewrite Hli.
    apply (gd_line_end q RawHTMLKind s HCq). rewrite (XL_env p q Eenv). exact EX.
  - split; [exact A|]. intros N. contradiction.
Qed.

(* ---- the setext underline ---- *)
Lemma ents_kind_ext src K K' xr xu ik : (K =? HTMLBlockKind) = (K' =? HTMLBlockKind) -> ents src K xr xu ik = ents src K' xr xu ik.
Proof.
  intros E. induction ik as [|u r IH]; [reflexivity|]. cbn [ents]. rewrite IH. f_equal. unfold eok. rewrite E. reflexivity.
Qed.

Lemma W_startSetext : startW startSetext.
Proof.
  intros p Hs HC HG HI HW. apply startW_strong. unfold startSetext. cbv zeta.
  destruct (negb (containerKind p =? ParagraphKind)) eqn:Ek; [assumption|].
  destruct (_ <=? _); [assumption|].
  destruct (parseSetextHeadingUnderline (bytesAfterIndent p) =? 0) eqn:E0; [assumption|].
  destruct (negb (containerHasParagraphContent p)) eqn:Ech; [assumption|].
  apply negb_false_iff, Z.eqb_eq in Ek. apply negb_false_iff in Ech.
  set (level := parseSetextHeadingUnderline (bytesAfterIndent p)).
  set (g := fun b : block => set_bn (set_bkind b SetextHeadingKind) level).
  set (q := consumeLine (updCont p g)).
  assert (HCq : CUR q) by (unfold q; cchainC).
  assert (Sq : state q = stLineConsumed) by (apply state_consumeLine_open, st_open_updCont, Hs).
  destruct (cdepth_pos p ParagraphKind HI ltac:(rewrite <- Ek; apply ckind_self) ltac:(discriminate)) as (d & Hd).
  assert (Dq : cdepth q = S d) by (unfold q, cdepth; rewrite (proj2 (same_consumeLine _)); exact Hd).
  assert (Eq : source q = source p /\ lineStart q = lineStart p) by (destruct (env_src (updCont p g) q (env_consumeLine _)) as (A & B & _); split; assumption).
  destruct Eq as [Es El].
  unfold endBlock. rewrite Sq. change ((stLineConsumed =? stDescending) || (stLineConsumed =? stDescendTerminated)) with false. cbv iota.
  cbv zeta. change (stLineConsumed =? stOpening) with false. cbv iota. rewrite Dq.
  unfold WY. cbn [root source withCont closeLastChildAt withRoot setLP].
  replace (root q) with (updAt (S d) g (root p)) by (unfold q; rewrite (proj1 (same_consumeLine _)); cbn [root updCont withRoot setLP]; rewrite Hd; reflexivity).
  rewrite Es. rewrite updAt_S, updAt_fuse.
  apply W_updAt_at; [exact HW|]. intros b Hb HWb.
  unfold liftLast. destruct (lastBlock b) as [c|] eqn:Elb; [|rewrite Elb; exact HWb].
  assert (Hgc : getAt (S d) (root p) = Some c) by (rewrite getAt_S_last, Hb; exact Elb).
  destruct (GI_wf p HI) as (x & Ex & Ho). rewrite Hd, Hgc in Ex. inversion Ex; subst x.
  assert (Hkc : bkind c = ParagraphKind) by (rewrite <- Ek; apply (ckind_self p c); rewrite Hd; exact Hgc).
  rewrite lastBlock_set_last by (eapply lastBlock_nonempty; exact Elb). rewrite set_last_twice_l.
  apply W_set_lastBlocks; [exact HWb|].
  match goal with |- WL _ _ (closeBlock (bheight ?X) _ _ ?e) = true => destruct (bheight_S X) as (f & Ef); set (e0 := e) end.
  rewrite Ef.
  assert (He : 0 <= e0) by (unfold e0; destruct HCq as (_ & B & C); lia).
  assert (HWc : Wb (source p) false c = true) by (eapply W_lastBlock; eassumption).
  pose proof HWc as HWc'. apply Wb_parts in HWc'. destruct HWc' as [HLc HKc]. unfold loc in HLc. apply andb_true_iff in HLc. destruct HLc as [HEc _].
  rewrite Ho in HEc. cbn [negb orb] in HEc.
  (* closeBlock on the open setext block is onCloseParagraph *)
  assert (Ecb : closeBlock (S f) (source p) (g c) e0 = onCloseParagraph (source p) (set_bend (g c) e0)).
  { cbn [closeBlock]. replace (isOpen (g c)) with true by (destruct c; exact (eq_sym Ho)). cbn [negb]. cbv zeta.
    replace (bkind (set_bend (g c) e0)) with SetextHeadingKind by (destruct c; reflexivity). reflexivity. }
  rewrite Ecb.
  apply (W_onCloseParagraph_setext (source p) (source p) false c).
  - exact Hkc.
  - destruct c; reflexivity.
  - unfold containerHasParagraphContent in Ech. rewrite Ek in Ech. cbn [negb Z.eqb] in Ech.
    change (negb (ParagraphKind =? ParagraphKind)) with false in Ech. cbv iota in Ech.
    rewrite (contBlock_at p c) in Ech by (rewrite Hd; exact Hgc). exact Ech.
  - replace (set_bend (g c) e0) with (set_bend (set_bik (g c) (bik c)) e0) by (destruct c; reflexivity).
    apply Wb_closed_entries; [exact He| |destruct c; apply WL_weaken; exact HKc].
    replace (bkind (g c)) with SetextHeadingKind by (destruct c; reflexivity).
    rewrite (ents_kind_ext _ SetextHeadingKind (bkind c)) by (rewrite Hkc; reflexivity). apply ents_ff. exact HEc.
Qed.
