From Coq Require Import List ZArith Lia Bool.
Import ListNotations.
Require Import Base Tree Rdr Link LP Rules L2Kind L2CC BSDef BSRdr BSTree BSShift EolCRLFSimLeDefs EolCRLFSimLe EolCRLFSimStream.
Open Scope Z_scope.

(* Containment of the inline entries (and of everything else) in the block layer.
   ct M b: every position stored in b is at most M; inside a CLOSED block the bound tightens to the end of that block;
   the entries of every block lie at or after the start of the block (recursively through the kids of entries). *)
Definition bnd (M e : Z) : Z := if 0 <=? e then e else M.
Definition leIL (H : Z) (l : list inline) : bool := forallb (leI H) l.
Definition geIL (n : Z) (l : list inline) : bool := forallb (geI n) l.
Fixpoint ct (M : Z) (b : block) : Prop :=
  match b with Blk _ s e bk ik _ _ _ _ _ =>
    e <= M /\ s <= bnd M e /\ leIL (bnd M e) ik = true /\ geIL s ik = true /\ allP (ct (bnd M e)) bk
  end.

Lemma ct_eq M b : ct M b <->
  (bend b <= M /\ bstart b <= bnd M (bend b) /\ leIL (bnd M (bend b)) (bik b) = true /\ geIL (bstart b) (bik b) = true /\
   allP (ct (bnd M (bend b))) (bkids b)).
Proof. destruct b; reflexivity. Qed.

Lemma bnd_open M e : e < 0 -> bnd M e = M.
Proof. intros H. unfold bnd. destruct (Z.leb_spec 0 e); [lia|reflexivity]. Qed.
Lemma bnd_closed M e : 0 <= e -> bnd M e = e.
Proof. intros H. unfold bnd. destruct (Z.leb_spec 0 e); [reflexivity|lia]. Qed.
Lemma bnd_mono M M' e : M <= M' -> bnd M e <= bnd M' e.
Proof. intros H. unfold bnd. destruct (0 <=? e); lia. Qed.
Lemma bnd_le M e : e <= M -> bnd M e <= M.
Proof. intros H. unfold bnd. destruct (0 <=? e); lia. Qed.
Lemma bnd_same (e : Z) : bnd e e = e. Proof. unfold bnd. destruct (0 <=? e); reflexivity. Qed.

Lemma leIL_mono H H' l : H <= H' -> leIL H l = true -> leIL H' l = true.
Proof. intros Hle Hl. unfold leIL in *. rewrite forallb_forall in *. intros u Hu. eapply leI_mono; [exact Hle|apply Hl, Hu]. Qed.
Lemma geI_down n n' : n' <= n -> forall u, geI n u = true -> geI n' u = true.
Proof.
  intros Hle. fix IH 1. intros [k s e ind r ks] Hu. cbn [geI] in *.
  apply andb_true_iff in Hu. destruct Hu as [Hu Hk]. apply andb_true_iff in Hu. destruct Hu as [Hs He].
  apply Z.leb_le in Hs. apply andb_true_iff. split; [apply andb_true_iff; split; [apply Z.leb_le; lia|]|].
  - apply orb_true_iff in He. apply orb_true_iff. destruct He as [He|He]; [left; exact He|right; apply Z.leb_le in He; apply Z.leb_le; lia].
  - induction ks as [|x r' IHr]; [reflexivity|]. cbn [forallb] in *. apply andb_true_iff in Hk. destruct Hk as [Hx Hr].
    rewrite (IH x Hx). apply IHr, Hr.
Qed.
Lemma geIL_down n n' l : n' <= n -> geIL n l = true -> geIL n' l = true.
Proof. intros Hle Hl. unfold geIL in *. rewrite forallb_forall in *. intros u Hu. eapply geI_down; [exact Hle|apply Hl, Hu]. Qed.

Lemma ct_mono : forall b M M', M <= M' -> ct M b -> ct M' b.
Proof.
  fix IH 1. intros [K s e bk ik a n c l lb] M M' Hle. cbn [ct]. intros (A & B & C & D & E).
  pose proof (bnd_mono M M' e Hle) as Hb.
  split; [lia|]. split; [lia|]. split; [eapply leIL_mono; eassumption|]. split; [exact D|].
  induction bk as [|x r IHr]; [exact I|]. destruct E as [E1 E2]. split; [eapply IH; [exact Hb|exact E1]|apply IHr, E2].
Qed.
Lemma allP_ct_mono M M' l : M <= M' -> allP (ct M) l -> allP (ct M') l.
Proof. intros H. apply allP_impl. intros x. apply ct_mono, H. Qed.

Lemma ct_bounds M b : ct M b -> bend b <= M /\ bstart b <= M.
Proof. rewrite ct_eq. intros (A & B & _). pose proof (bnd_le M (bend b) A). lia. Qed.

(* the consequences at the boolean level *)
Lemma ct_leB : forall b M, ct M b -> leB M b = true.
Proof.
  fix IH 1. intros [K s e bk ik a n c l lb] M. cbn [ct leB]. intros (A & B & C & D & E).
  pose proof (bnd_le M e A) as Hb.
  apply andb_true_iff. split; [apply andb_true_iff; split; [apply andb_true_iff; split; apply Z.leb_le; lia|]|].
  - apply (leIL_mono _ _ _ Hb C).
  - induction bk as [|x r IHr]; [reflexivity|]. destruct E as [E1 E2]. cbn [forallb].
    rewrite (IH x M (ct_mono x _ _ Hb E1)). apply IHr, E2.
Qed.
Lemma ct_closed_eq M b : 0 <= bend b -> ct M b -> ct (bend b) b.
Proof.
  intros Hc. rewrite !ct_eq. rewrite bnd_same. rewrite (bnd_closed M _ Hc). intros (A & B & C & D & E). repeat split; try assumption. lia.
Qed.
(* (U) a closed block contains everything stored in it *)
Lemma ct_closed_leB M b : ct M b -> 0 <= bend b -> leB (bend b) b = true.
Proof. intros H Hc. apply ct_leB. eapply ct_closed_eq; eassumption. Qed.

Lemma ct_geB : forall b M1 M2 n, sp M1 b -> ct M2 b -> n <= bstart b -> geB n b = true.
Proof.
  fix IH 1. intros [K s e bk ik a nn c l lb] M1 M2 n. cbn [sp ct geB bstart]. intros (S1 & S2 & _ & S4 & S5) (A & B & C & D & E) Hn.
  apply andb_true_iff. split; [apply andb_true_iff; split; [apply andb_true_iff; split; [apply Z.leb_le; lia|]|]|].
  - apply orb_true_iff. destruct S2 as [S2|S2]; [left; apply Z.ltb_lt; exact S2|right; apply Z.leb_le; lia].
  - apply (geIL_down s n ik Hn D).
  - assert (Hst : forall x, In x bk -> n <= bstart x) by (intros x Hx; pose proof (chain_starts _ _ _ x S4 Hx); lia).
    clear S4. induction bk as [|x r IHr]; [reflexivity|]. destruct E as [E1 E2]. destruct S5 as [S51 S52]. cbn [forallb].
    rewrite (IH x M1 (bnd M2 e) n S51 E1 (Hst x (or_introl eq_refl))). apply IHr; [exact S52|exact E2|].
    intros y Hy. apply Hst. right. exact Hy.
Qed.
(* (L) the later siblings in a chain lie at or after lo *)
Lemma ct_geL M1 M2 lo e l n : chain lo e l -> allP (sp M1) l -> allP (ct M2) l -> n <= lo -> geL n l = true.
Proof.
  intros Hc Hs Ht Hn. unfold geL. apply forallb_forall. intros x Hx.
  apply (ct_geB x M1 M2 n); [eapply allP_In; eassumption|eapply allP_In; eassumption|].
  pose proof (chain_starts _ _ _ x Hc Hx). lia.
Qed.

(* ---- field setters ---- *)
Lemma ct_set_bn M b v : ct M (set_bn b v) <-> ct M b. Proof. destruct b; reflexivity. Qed.
Lemma ct_set_bchar M b v : ct M (set_bchar b v) <-> ct M b. Proof. destruct b; reflexivity. Qed.
Lemma ct_set_bindent M b v : ct M (set_bindent b v) <-> ct M b. Proof. destruct b; reflexivity. Qed.
Lemma ct_set_bloose M b v : ct M (set_bloose b v) <-> ct M b. Proof. destruct b; reflexivity. Qed.
Lemma ct_set_blast M b v : ct M (set_blast b v) <-> ct M b. Proof. destruct b; reflexivity. Qed.
Lemma ct_set_bkind M b v : ct M (set_bkind b v) <-> ct M b. Proof. destruct b; reflexivity. Qed.

Lemma bik_set_bik b v : bik (set_bik b v) = v. Proof. destruct b; reflexivity. Qed.
Lemma bk_set_bik' b v : bkids (set_bik b v) = bkids b. Proof. destruct b; reflexivity. Qed.
Lemma bstart_set_bik' b v : bstart (set_bik b v) = bstart b. Proof. destruct b; reflexivity. Qed.
Lemma bend_set_bik' b v : bend (set_bik b v) = bend b. Proof. destruct b; reflexivity. Qed.

Lemma ct_set_bkids M b ks : ct M b -> allP (ct (bnd M (bend b))) ks -> ct M (set_bkids b ks).
Proof. rewrite !ct_eq. rewrite bstart_set_bkids, bend_set_bkids, bik_set_bkids, bkids_set_bkids. tauto. Qed.
Lemma ct_set_bik M b ik : ct M b -> leIL (bnd M (bend b)) ik = true -> geIL (bstart b) ik = true -> ct M (set_bik b ik).
Proof. rewrite !ct_eq. rewrite bstart_set_bik', bend_set_bik', bik_set_bik, bk_set_bik'. tauto. Qed.
Lemma ct_add_ik M b u : ct M b -> leI (bnd M (bend b)) u = true -> geI (bstart b) u = true -> ct M (set_bik b (bik b ++ [u])).
Proof.
  intros H A B. pose proof H as H'. rewrite ct_eq in H'. destruct H' as (_ & _ & C & D & _).
  apply ct_set_bik; [exact H| |]; unfold leIL, geIL in *; rewrite forallb_app; cbn [forallb]; [rewrite C, A|rewrite D, B]; reflexivity.
Qed.
Lemma ct_sub_ik M b ik' : ct M b -> (forall x, In x ik' -> In x (bik b)) -> ct M (set_bik b ik').
Proof.
  intros H Hs. pose proof H as H'. rewrite ct_eq in H'. destruct H' as (_ & _ & C & D & _).
  apply ct_set_bik; [exact H| |]; unfold leIL, geIL in *; [revert C|revert D]; apply forallb_sub; exact Hs.
Qed.
Lemma ct_newBlock M k s : 0 <= M -> s <= M -> ct M (newBlock k s).
Proof. intros H0 Hs. unfold newBlock. cbn [ct allP]. change (bnd M (-1)) with M. repeat split; try reflexivity; lia. Qed.
Lemma ct_set_bend e b : ct e b -> bend b < 0 -> ct e (set_bend b e).
Proof.
  intros H Ho. destruct b as [K s e0 bk ik a n c l lb]. cbn [bend] in Ho. cbn [ct set_bend] in *. rewrite (bnd_open e e0 Ho) in H.
  rewrite (bnd_same e). destruct H as (A & B & C & D & E). repeat split; try assumption. lia.
Qed.

Lemma ct_lastBlock M b c : ct M b -> lastBlock b = Some c -> ct (bnd M (bend b)) c.
Proof. rewrite ct_eq. intros (_ & _ & _ & _ & H) Hl. eapply allP_In; [exact H|eapply lastBlock_In; exact Hl]. Qed.
Lemma ct_lastBlock' M b c : ct M b -> lastBlock b = Some c -> ct M c.
Proof.
  intros H Hl. eapply ct_mono; [|eapply ct_lastBlock; eassumption]. apply bnd_le. apply (ct_bounds M b H).
Qed.
Lemma allP_removelast {A} (P : A -> Prop) l : allP P l -> allP P (removelast l).
Proof. intros H. apply allP_intro. intros x Hx. eapply allP_In; [exact H|apply removelast_In; exact Hx]. Qed.
Lemma ct_set_lastBlocks M b L : ct M b -> allP (ct (bnd M (bend b))) L -> ct M (set_lastBlocks b L).
Proof.
  intros H HL. unfold set_lastBlocks. apply ct_set_bkids; [exact H|]. apply allP_app. split; [|exact HL].
  apply allP_removelast. rewrite ct_eq in H. tauto.
Qed.
Lemma ct_getAt M : forall d b x, ct M b -> getAt d b = Some x -> ct M x.
Proof.
  induction d as [|d IH]; intros b x Hb H; [inversion H; subst; exact Hb|]. cbn [getAt] in H.
  destruct (lastBlock b) as [c|] eqn:El; [|discriminate]. eapply IH; [|exact H]. eapply ct_lastBlock'; eassumption.
Qed.

(* update on the right spine below open blocks *)
Lemma ct_updAt_open M f : forall d b, ct M b ->
  (forall j y, (j < d)%nat -> getAt j b = Some y -> bend y < 0) ->
  (forall x, getAt d b = Some x -> ct M x -> ct M (f x)) ->
  ct M (updAt d f b).
Proof.
  induction d as [|d IH]; intros b Hb Ho Hf; [apply Hf; [reflexivity|exact Hb]|]. cbn [updAt].
  destruct (lastBlock b) as [c|] eqn:El; [|exact Hb].
  assert (Ob : bend b < 0) by (apply (Ho O b); [lia|reflexivity]).
  apply ct_set_lastBlocks; [exact Hb|]. rewrite (bnd_open M _ Ob). split; [|exact I].
  apply IH.
  - eapply ct_lastBlock'; eassumption.
  - intros j y Hj Ey. apply (Ho (S j) y); [lia|]. cbn [getAt]. rewrite El. exact Ey.
  - intros x Ex. apply Hf. cbn [getAt]. rewrite El. exact Ex.
Qed.

(* ---- offsetTree by -n on blocks that start at or after n ---- *)
Lemma geI_shift lo n : 0 <= n <= lo -> forall u, geI lo u = true -> geI (lo - n) (shiftI (- n) u) = true.
Proof.
  intros Hn. fix IH 1. intros [k s e ind r ks] Hu. cbn [geI shiftI] in *.
  apply andb_true_iff in Hu. destruct Hu as [Hu Hk]. apply andb_true_iff in Hu. destruct Hu as [Hs He].
  apply Z.leb_le in Hs. apply andb_true_iff. split; [apply andb_true_iff; split; [apply Z.leb_le; lia|]|].
  - apply orb_true_iff in He. apply orb_true_iff. destruct (Z.leb_spec 0 e) as [L|L].
    + right. apply Z.leb_le. destruct He as [He|He]; [apply Z.ltb_lt in He; lia|apply Z.leb_le in He; lia].
    + left. apply Z.ltb_lt. exact L.
  - induction ks as [|x r' IHr]; [reflexivity|]. cbn [map forallb] in *. apply andb_true_iff in Hk. destruct Hk as [Hx Hr].
    rewrite (IH x Hx). apply IHr, Hr.
Qed.

Lemma ct_shift n : 0 <= n -> forall b M1 M, sp M1 b -> ct M b -> n <= bstart b -> ct (M - n) (shiftB (- n) b).
Proof.
  intros Hn. fix IH 1. intros [K s e bk ik a nn c l lb] M1 M. cbn [bstart sp]. intros (S1 & S2 & _ & S4 & S5) Hc Hs.
  cbn [ct] in Hc. destruct Hc as (A & B & C & D & E). cbn [shiftB ct].
  pose proof (bnd_le M e A) as HbM.
  assert (Eb : bnd (M - n) (if 0 <=? e then e + - n else e) = bnd M e - n).
  { unfold bnd. destruct (Z.leb_spec 0 e) as [L|L].
    - destruct (Z.leb_spec 0 (e + - n)); lia.
    - destruct (Z.leb_spec 0 e); lia. }
  rewrite Eb.
  split; [destruct (Z.leb_spec 0 e); lia|]. split; [lia|]. split; [|split].
  - unfold leIL in *. rewrite forallb_forall in *. intros u Hu. apply in_map_iff in Hu. destruct Hu as (v & <- & Hv).
    apply leI_shift; [lia|apply C, Hv].
  - unfold geIL in *. rewrite forallb_forall in *. intros u Hu. apply in_map_iff in Hu. destruct Hu as (v & <- & Hv).
    replace (s + - n) with (s - n) by lia. apply geI_shift; [lia|apply D, Hv].
  - assert (Hst : forall x, In x bk -> n <= bstart x) by (intros x Hx; pose proof (chain_starts _ _ _ x S4 Hx); lia).
    clear S4. induction bk as [|x r IHr]; [exact I|]. destruct E as [E1 E2]. destruct S5 as [S51 S52]. cbn [map allP]. split.
    + apply (IH x M1 (bnd M e)); [exact S51|exact E1|apply Hst; left; reflexivity].
    + apply IHr; [exact S52|exact E2|]. intros y Hy. apply Hst. right. exact Hy.
Qed.
