From Coq Require Import List ZArith Lia Bool.
Import ListNotations.
Require Import Base Tree Rdr Link Collect Html Recog LP Rules Starts Driver Rec16 Rec17 Rec18 RecBounds Cursor CursorX NoPanic12 NoPanic3
  L2Kind L2CC BSDef BSRdr BSTree BSOrph BSClose BSLine1 BSLine2 BSLine3 BSLine4 BSLine5 BSLine6
  BSLine7 BSLine8 BSErase BSLine9 BSLine10 LADef LA1 LA2 LA3 LA4 LA5 LARec LA6 LA7 LA8 LA9 LA10.
Open Scope Z_scope.

(* ===== one line (mirrors sp_processLine) ===== *)

Lemma env_matchRule q : env q (snd (matchRule q)).
Proof.
  unfold matchRule. cbv zeta.
  destruct (_ || _); [apply env_refl|].
  destruct (_ =? ListItemKind).
  { unfold matchListItem. destruct (isRestBlank q); [destruct (negb _)|destruct (_ <=? _)]; cbn [snd]; env_chain. }
  destruct (_ =? BlockQuoteKind).
  { unfold matchBlockQuote. cbv zeta. destruct (_ <=? _); [apply env_refl|]. destruct (negb _); [apply env_refl|]. cbn [snd]. unfold eatQuoteMarker. cbv zeta. env_chain. }
  destruct (_ =? FencedCodeBlockKind).
  { unfold matchFenced. cbv zeta. destruct (if _ <? _ then _ else false); cbn [snd]; env_chain. }
  destruct (_ =? IndentedCodeBlockKind).
  { unfold matchIndented. cbv zeta. destruct (_ <? _); [destruct (negb _)|]; cbn [snd]; env_chain. }
  destruct (_ =? HTMLBlockKind).
  { unfold matchHTML. destruct (htmlEnd _ _); [|apply env_refl]. destruct (isRestBlank _); [apply env_refl|]. cbn [snd]. env_chain. }
  apply env_refl.
Qed.
Lemma env_descend_loop : forall fuel p d, env p (snd (descend_loop fuel p d)).
Proof.
  induction fuel as [|f IH]; intros p d; [repeat split|]. cbn [descend_loop]. cbv zeta.
  destruct (getAt (S d) (root p)) as [c|]; [|repeat split].
  destruct (negb (isOpen c)); [repeat split|]. destruct (negb (hasMatch _)); [repeat split|].
  set (q := withState (withCont p (Some (S d))) stDescending).
  pose proof (env_matchRule q) as H2. destruct (matchRule q) as [ok p2]. cbn [snd] in H2.
  assert (Hq : env p q) by repeat split.
  destruct (state p2 =? stDescendTerminated); [cbn [snd]; eapply env_trans; [exact Hq|]; eapply env_trans; [exact H2|repeat split]|].
  destruct (negb ok); [cbn [snd]; eapply env_trans; [exact Hq|]; eapply env_trans; [exact H2|repeat split]|].
  eapply env_trans; [exact Hq|]. eapply env_trans; [exact H2|apply IH].
Qed.

(* addLineText never produces the terminated state *)
Lemma state_openBlock_or p k : state (openBlock p k) = state p \/ state (openBlock p k) = stOpenMatched.
Proof.
  unfold openBlock. destruct (_ || _); [left; reflexivity|]. cbv zeta. cbn [state withCont updCont withRoot closeLastChildAt setLP]. rewrite state_openBlock_up.
  destruct (state p =? stOpening); [right; reflexivity|left; reflexivity].
Qed.
Lemma state_consumeIndent_or p n : state (consumeIndent p n) = state p \/ state (consumeIndent p n) = stOpenMatched.
Proof. destruct (sstep_consumeIndent p n) as [E|[_ E]]; [left; exact E|right; exact E]. Qed.
Lemma state_addLineText p : state p <> stDescendTerminated -> state (addLineText p) <> stDescendTerminated.
Proof.
  intros H. unfold addLineText. cbv zeta.
  set (p1 := if isRestBlank p then _ else p). assert (E1 : state p1 = state p) by (unfold p1; destruct (isRestBlank p); reflexivity).
  set (p2 := withRoot p1 _). assert (E2 : state p2 = state p) by exact E1.
  assert (Hgo : forall q, state q <> stDescendTerminated ->
     state (let k := containerKind q in
            let inlineKind := if isCode k then TextKind else if k =? HTMLBlockKind then RawHTMLKind else UnparsedKind in
            let q' := updCont q (fun b => set_bik b (bik b ++ [mkI inlineKind (lineStart q + li q) (lineStart q + len (line q))])) in
            if isCode k && negb (hasByteSuffixEOL (line q')) then
              updCont q' (fun b => set_bik b (bik b ++ [mkI SoftLineBreakKind (lineStart q' + len (line q')) (lineStart q' + len (line q'))]))
            else q') <> stDescendTerminated).
  { intros q Hq. cbv zeta. match goal with |- state (if ?c then _ else _) <> _ => destruct c end; exact Hq. }
  destruct (acceptsLines _).
  - apply Hgo. match goal with |- state (if ?c then _ else _) <> _ => destruct c end; [|rewrite E2; exact H].
    match goal with |- state (consumeIndent ?q ?n) <> _ => destruct (state_consumeIndent_or q n) as [E|E] end.
    + rewrite E. cbn [state updCont withRoot setLP]. rewrite E2. exact H.
    + rewrite E. discriminate.
  - match goal with |- state (if ?c then _ else _) <> _ => destruct c end; [|rewrite E2; exact H]. apply Hgo.
    match goal with |- state (consumeIndent ?q ?n) <> _ => destruct (state_consumeIndent_or q n) as [E|E] end; [|rewrite E; discriminate].
    rewrite E. destruct (state_openBlock_or p2 ParagraphKind) as [E'|E']; [rewrite E', E2; exact H|rewrite E'; discriminate].
Qed.

(* ===== the start of the document block never moves ===== *)
Definition rs (p : lp) : Z := bstart (root p).
Lemma bstart_updAt f d r : (forall x, bstart (f x) = bstart x) -> bstart (updAt d f r) = bstart r.
Proof. intros Hf. destruct d as [|d]; [apply Hf|]. cbn [updAt]. destruct (lastBlock r); [apply bstart_set_lastBlocks|reflexivity]. Qed.
Lemma rs_updCont p f : (forall x, bstart (f x) = bstart x) -> rs (updCont p f) = rs p.
Proof. intros Hf. unfold rs. cbn [root updCont withRoot setLP]. apply bstart_updAt, Hf. Qed.
Lemma rs_closeAt p d e : rs (closeLastChildAt p d e) = rs p.
Proof. unfold rs. rewrite closeLastChildAt_eq. cbn [root withRoot setLP]. apply bstart_updAt. intros x. apply closeF_bstart. Qed.
Lemma rs_same p p' : same_tree p p' -> rs p' = rs p. Proof. intros [E _]. unfold rs. rewrite E. reflexivity. Qed.
Lemma rs_advance p n : rs (advance p n) = rs p. Proof. apply rs_same, cstep_advance. Qed.
Lemma rs_consumeIndent p n : rs (consumeIndent p n) = rs p. Proof. apply rs_same, cstep_consumeIndent. Qed.
Lemma rs_consumeLine p : rs (consumeLine p) = rs p. Proof. apply rs_same, cstep_consumeLine. Qed.
Lemma rs_openBlock_up : forall fuel p k, rs (openBlock_up fuel p k) = rs p.
Proof.
  induction fuel as [|f IH]; intros p k; [reflexivity|]. cbn [openBlock_up]. destruct (canContain _ _); [reflexivity|].
  destruct (cdepth p); [reflexivity|]. rewrite IH. apply (rs_closeAt p n (lineStart p)).
Qed.
Lemma rs_openBlock p k : rs (openBlock p k) = rs p.
Proof.
  unfold openBlock. destruct (_ || _); [reflexivity|]. cbv zeta.
  set (p0 := if state p =? stOpening then withState p stOpenMatched else p). assert (E0 : rs p0 = rs p) by (unfold p0; destruct (_ =? _); reflexivity).
  change (rs (withCont ?q ?c)) with (rs q). rewrite rs_updCont by (intros x; apply bstart_set_bkids).
  rewrite rs_closeAt, rs_openBlock_up. exact E0.
Qed.
Lemma rs_endBlock p : rs (endBlock p) = rs p.
Proof.
  unfold endBlock. destruct (_ || _); [reflexivity|]. cbv zeta.
  set (p0 := if state p =? stOpening then withState p stOpenMatched else p). assert (E0 : rs p0 = rs p) by (unfold p0; destruct (_ =? _); reflexivity).
  destruct (cdepth p0); [exact E0|]. change (rs (withCont ?q ?c)) with (rs q). rewrite rs_closeAt. exact E0.
Qed.
Lemma rs_collectInline p k n : rs (collectInline p k n) = rs p.
Proof.
  unfold collectInline. destruct (_ =? stDescendTerminated); [reflexivity|]. cbv zeta.
  set (p0 := if state p =? stOpening then withState p stOpenMatched else p). assert (E0 : rs p0 = rs p) by (unfold p0; destruct (_ =? _); reflexivity).
  set (p1 := if 0 <? indent p0 then _ else p0).
  assert (E1 : rs p1 = rs p).
  { unfold p1. destruct (0 <? indent p0); [|exact E0]. rewrite rs_updCont by (intros x; apply bstart_set_bik). rewrite rs_advance. exact E0. }
  rewrite rs_updCont by (intros x; apply bstart_set_bik). rewrite rs_advance. exact E1.
Qed.
Ltac rs_chain :=
  repeat match goal with
  | |- rs (advance _ _) = _ => rewrite rs_advance
  | |- rs (consumeIndent _ _) = _ => rewrite rs_consumeIndent
  | |- rs (collectInline _ _ _) = _ => rewrite rs_collectInline
  | |- rs (endBlock _) = _ => rewrite rs_endBlock
  | |- rs (consumeLine _) = _ => rewrite rs_consumeLine
  | |- rs (updCont _ _) = _ => rewrite rs_updCont by (intros x; destruct x; reflexivity)
  | |- rs (openBlock _ _) = _ => rewrite rs_openBlock
  | |- rs (if ?c then _ else _) = _ => destruct c
  end; try reflexivity.
Definition startRS (f : lp -> lp) : Prop := forall p, rs (f p) = rs p.
Lemma blockStarts_rs : Forall startRS blockStarts.
Proof.
  unfold blockStarts. repeat apply Forall_cons; try apply Forall_nil; intros p.
  - unfold startBlockQuote. cbv zeta. destruct (_ <=? _); [reflexivity|]. destruct (negb _); [reflexivity|]. rs_chain.
  - unfold startATX. cbv zeta. destruct (_ <=? _); [reflexivity|]. destruct (parseATXHeading _) as [[lv cs] ce]. destruct (_ <? 1); [reflexivity|]. rs_chain.
  - unfold startFenced. cbv zeta. destruct (_ <=? _); [reflexivity|]. destruct (parseCodeFence _) as [[[fc fnn] is_] ie]. destruct (_ =? 0); [reflexivity|]. rs_chain.
  - unfold startHTML. cbv zeta. destruct (_ <=? _); [reflexivity|]. destruct (negb _); [reflexivity|]. destruct (_ <? 0); [reflexivity|]. destruct (negb _ && _); [reflexivity|]. rs_chain.
  - unfold startSetext. cbv zeta. destruct (negb _); [reflexivity|]. destruct (_ <=? _); [reflexivity|]. destruct (_ =? 0); [reflexivity|]. destruct (negb _); [reflexivity|]. rs_chain.
  - unfold startThematic. cbv zeta. destruct (_ <=? _); [reflexivity|]. destruct (_ <? 0); [reflexivity|]. rs_chain.
  - unfold startListItem. cbv zeta. destruct (_ <=? _); [reflexivity|]. destruct (parseListMarker _) as [[dl n] mend].
    match goal with |- rs (if ?c then p else _) = _ => destruct c end; [reflexivity|].
    match goal with |- rs (if ?c then p else _) = _ => destruct c end; [reflexivity|].
    match goal with |- rs (if ?c then _ else _) = _ => destruct c end.
    + rs_chain.
    + match goal with |- rs (let '(_, _) := ?c in _) = _ => destruct c as [pad q] eqn:Eq end.
      assert (Hq : rs q = rs p).
      { revert Eq. match goal with |- (if ?c then _ else _) = _ -> _ => destruct c end; [intros Eq; inversion Eq; subst; rs_chain|].
        match goal with |- (if ?c then _ else _) = _ -> _ => destruct c end; intros Eq; inversion Eq; subst; rs_chain. }
      rs_chain. exact Hq.
  - unfold startIndented. destruct (_ || _ || _); [reflexivity|]. rs_chain.
Qed.
Lemma rs_tryStarts : forall fs p, Forall startRS fs -> rs (snd (tryStarts fs p)) = rs p.
Proof.
  induction fs as [|f r IH]; intros p Hfs; [reflexivity|]. cbn [tryStarts]. cbv zeta. inversion Hfs as [|? ? Hf Hr]; subst.
  destruct (_ || _); cbn [snd]; [apply (Hf (withState p stOpening))|]. rewrite IH by exact Hr. apply (Hf (withState p stOpening)).
Qed.
Lemma rs_opening_loop : forall fuel p, rs (snd (opening_loop fuel p)) = rs p.
Proof.
  induction fuel as [|f IH]; intros p; [reflexivity|]. cbn [opening_loop]. destruct (_ || _); [|reflexivity].
  pose proof (rs_tryStarts blockStarts p blockStarts_rs) as H. destruct (tryStarts blockStarts p) as [[|] p1]; cbn [snd] in *; [|exact H].
  destruct (_ =? stLineConsumed); [exact H|]. rewrite IH. exact H.
Qed.
Lemma closeBlock_doc_bstart src e : forall fuel b, bkind b = documentKind ->
  match closeBlock fuel src b e with x :: _ => bstart x = bstart b | [] => True end.
Proof.
  intros fuel b Hk. destruct fuel as [|f]; [reflexivity|]. cbn [closeBlock]. destruct (negb (isOpen b)); [reflexivity|]. cbv zeta.
  rewrite bkind_set_bend, Hk. change (documentKind =? ListKind) with false. change (documentKind =? IndentedCodeBlockKind) with false.
  change ((documentKind =? ParagraphKind) || (documentKind =? SetextHeadingKind)) with false. cbv iota.
  destruct (lastBlock (set_bend b e)); [rewrite bstart_set_lastBlocks|]; apply bstart_set_bend.
Qed.
Lemma rs_openNewBlocks p am : bkind (root p) = documentKind -> rs (snd (openNewBlocks p am)) = rs p.
Proof.
  intros Hk. unfold openNewBlocks. destruct (len (line p) =? 0).
  - cbn [snd]. unfold rs. cbn [root withCont withRoot setLP]. pose proof (closeBlock_doc_bstart (source p) (lineStart p) (bheight (root p)) (root p) Hk) as H.
    destruct (closeBlock _ _ _ _); [reflexivity|exact H].
  - pose proof (rs_opening_loop (S (length (line p))) p) as H. destruct (opening_loop _ p) as [ht p1]. cbn [snd] in H.
    destruct am; cbn [snd]; [exact H|]. unfold deferredClose. cbv zeta. destruct (_ && _); [exact H|]. rewrite rs_closeAt. exact H.
Qed.
Lemma bstart_setLastBlankUpTo v : forall d rt, bstart (setLastBlankUpTo d v rt) = bstart rt.
Proof.
  induction d as [|d IH]; intros rt; cbn [setLastBlankUpTo]; [apply bstart_updAt; intros x; destruct x; reflexivity|].
  rewrite IH. apply bstart_updAt. intros x. destruct x; reflexivity.
Qed.
Lemma rs_addLineText p : rs (addLineText p) = rs p.
Proof.
  unfold addLineText. cbv zeta.
  set (p1 := if isRestBlank p then _ else p).
  assert (E1 : rs p1 = rs p).
  { unfold p1. destruct (isRestBlank p); [|reflexivity]. apply rs_updCont. intros x. destruct (lastBlock x); [apply bstart_set_lastBlocks|reflexivity]. }
  set (p2 := withRoot p1 _).
  assert (E2 : rs p2 = rs p) by (unfold p2, rs; cbn [root withRoot setLP]; rewrite bstart_setLastBlankUpTo; exact E1).
  assert (Hgo : forall q,
     rs (let k := containerKind q in
         let inlineKind := if isCode k then TextKind else if k =? HTMLBlockKind then RawHTMLKind else UnparsedKind in
         let q' := updCont q (fun b => set_bik b (bik b ++ [mkI inlineKind (lineStart q + li q) (lineStart q + len (line q))])) in
         if isCode k && negb (hasByteSuffixEOL (line q')) then
           updCont q' (fun b => set_bik b (bik b ++ [mkI SoftLineBreakKind (lineStart q' + len (line q')) (lineStart q' + len (line q'))]))
         else q') = rs q).
  { intros q. cbv zeta. match goal with |- rs (if ?c then _ else _) = _ => destruct c end; rs_chain. }
  destruct (acceptsLines _).
  - rewrite Hgo. match goal with |- rs (if ?c then _ else _) = _ => destruct c end; [|exact E2]. rs_chain. exact E2.
  - match goal with |- rs (if ?c then _ else _) = _ => destruct c end; [|exact E2]. rewrite Hgo. rs_chain. exact E2.
Qed.
Lemma rs_matchRule q : rs (snd (matchRule q)) = rs q.
Proof.
  unfold matchRule. cbv zeta.
  destruct (_ || _); [reflexivity|].
  destruct (_ =? ListItemKind).
  { unfold matchListItem. destruct (isRestBlank q); [destruct (negb _)|destruct (_ <=? _)]; cbn [snd]; rs_chain. }
  destruct (_ =? BlockQuoteKind).
  { unfold matchBlockQuote. cbv zeta. destruct (_ <=? _); [reflexivity|]. destruct (negb _); [reflexivity|]. cbn [snd]. unfold eatQuoteMarker. cbv zeta. rs_chain. }
  destruct (_ =? FencedCodeBlockKind).
  { unfold matchFenced. cbv zeta. destruct (if _ <? _ then _ else false); cbn [snd]; rs_chain. }
  destruct (_ =? IndentedCodeBlockKind).
  { unfold matchIndented. cbv zeta. destruct (_ <? _); [destruct (negb _)|]; cbn [snd]; rs_chain. }
  destruct (_ =? HTMLBlockKind).
  { unfold matchHTML. destruct (htmlEnd _ _); [|reflexivity]. destruct (isRestBlank _); [reflexivity|]. cbn [snd]. rs_chain. }
  reflexivity.
Qed.
Lemma rs_descend_loop : forall fuel p d, rs (snd (descend_loop fuel p d)) = rs p.
Proof.
  induction fuel as [|f IH]; intros p d; [reflexivity|]. cbn [descend_loop]. cbv zeta.
  destruct (getAt (S d) (root p)) as [c|]; [|reflexivity].
  destruct (negb (isOpen c)); [reflexivity|]. destruct (negb (hasMatch _)); [reflexivity|].
  set (q := withState (withCont p (Some (S d))) stDescending).
  pose proof (rs_matchRule q) as H2. destruct (matchRule q) as [ok p2]. cbn [snd] in H2.
  destruct (state p2 =? stDescendTerminated); [cbn [snd]; change (rs (withCont ?a ?b)) with (rs a); rewrite rs_closeAt; exact H2|].
  destruct (negb ok); [cbn [snd]; exact H2|]. rewrite IH. exact H2.
Qed.

Definition docRoot (children : list block) : block := Blk documentKind 0 (-1) children [] 0 0 0 false false.

Lemma env_addLineText p : env p (addLineText p).
Proof.
  unfold addLineText. cbv zeta.
  set (p1 := if isRestBlank p then _ else p). assert (E1 : env p p1) by (unfold p1; destruct (isRestBlank p); repeat split).
  set (p2 := withRoot p1 _). assert (E2 : env p p2) by (eapply env_trans; [exact E1|repeat split]).
  assert (Hgo : forall q, env p q ->
     env p (let k := containerKind q in
            let inlineKind := if isCode k then TextKind else if k =? HTMLBlockKind then RawHTMLKind else UnparsedKind in
            let q' := updCont q (fun b => set_bik b (bik b ++ [mkI inlineKind (lineStart q + li q) (lineStart q + len (line q))])) in
            if isCode k && negb (hasByteSuffixEOL (line q')) then
              updCont q' (fun b => set_bik b (bik b ++ [mkI SoftLineBreakKind (lineStart q' + len (line q')) (lineStart q' + len (line q'))]))
            else q')).
  { intros q Hq. cbv zeta. match goal with |- env p (if ?c then _ else _) => destruct c end; env_chain; exact Hq. }
  destruct (acceptsLines _).
  - apply Hgo. match goal with |- env p (if ?c then _ else _) => destruct c end; [|exact E2]. env_chain. exact E2.
  - match goal with |- env p (if ?c then _ else _) => destruct c end; [|exact E2]. apply Hgo. env_chain. exact E2.
Qed.

Lemma la_docRoot src H rt : la src H rt -> bkind rt = documentKind -> bstart rt = 0 -> (bend rt < 0 \/ bend rt = H) ->
  la src H (docRoot (bkids rt)).
Proof.
  intros Hl Hk Hs He. rewrite la_eq in Hl. destruct Hl as (A & B & C & D & E).
  rewrite body_cont in D by (rewrite Hk; reflexivity). destruct D as [D _]. rewrite Hs in D.
  unfold docRoot. cbn [la]. change (-1 <? 0) with true. change (isLeafK documentKind) with false.
  change (documentKind =? ListMarkerKind) with false. change (documentKind =? LinkReferenceDefinitionKind) with false. cbv iota.
  split; [lia|]. split; [left; lia|]. split; [intros _; discriminate|]. split; [|exact E]. split; [|reflexivity].
  destruct He as [He|He].
  - rewrite hiOf_open in D by exact He. replace (bend rt <? 0) with true in D by (symmetry; apply Z.ltb_lt; exact He). exact D.
  - assert (H0 : 0 <= bend rt) by lia. rewrite hiOf_closed in D by exact H0. replace (bend rt <? 0) with false in D by (symmetry; apply Z.ltb_ge; exact H0).
    rewrite He in D. eapply tchain_op; [apply (tchain_false_closed _ _ _ _ D)|exact D].
Qed.
Lemma DT_docRoot rt : DT rt -> DT (docRoot (bkids rt)).
Proof. intros (c1 & E & H). exists c1. split; [|exact H]. cbn [getAt] in *. unfold lastBlock in *. exact E. Qed.

Theorem la_processLine st children ls src : 0 <= ls <= len src -> OcpLoopSpec src -> bnd0 src ls -> eolEnd (from_ src ls) ->
  ccF children = true -> la src ls (docRoot children) ->
  (st = stDescendTerminated -> exists c1, getAt 1 (docRoot children) = Some c1 /\ bend c1 < 0 /\ hasMatch (bkind c1) = true) ->
  let r := processLine st children ls src in
  la src (ls + len (from_ src ls)) (docRoot (fst (fst r))) /\
  (snd (fst r) = stDescendTerminated -> DT (docRoot (fst (fst r)))).
Proof.
  intros Hls HO Hb0 HE Hcc Hla Hst. unfold processLine. cbv zeta.
  set (p0 := resetLP st children ls src).
  assert (Hlen : 0 <= len (from_ src ls)) by (unfold len; lia).
  assert (HB0 : LBP p0).
  { split; [split; [apply Hls|cbn [p0 resetLP li line]; lia]|]. split; [split; [reflexivity|split; [apply Hls|split; [exact HO|exact Hb0]]]|].
    split; [unfold Mc; cbn [p0 resetLP li lineStart source root]; replace (ls + 0) with ls by lia; exact Hla|]. split.
    - intros j x Hj Ex. change (cdepth p0) with O in Hj. replace j with O in Ex by lia. cbn in Ex. inversion Ex; subst x. cbn. lia.
    - unfold ccP, wf, cdepth. cbn [p0 resetLP root container]. split; [reflexivity|split; [exact Hcc|eexists; reflexivity]]. }
  assert (Hcl0 : LcleanR p0) by exact Hla.
  assert (H30 : N3 p0).
  { split; [|cbn; discriminate]. unfold p0, resetLP. split; [cbn; lia|]. cbn [li line col tabRem]. intros Hl Ha. apply computeTabRem_spec; [lia|exact Hl|exact Ha]. }
  assert (HS0 : LSp p0) by exact HE.
  assert (Pb0 : PB p0) by (intros Ek; cbn in Ek; discriminate).
  assert (Hcc0 : ccP p0) by apply HB0.
  pose proof (Ldescend_ok (bheight (root p0)) p0 O HB0 Hcl0 H30 Pb0 eq_refl ltac:(intros; lia)) as D1. cbv zeta in D1.
  pose proof (N3_descend_loop (bheight (root p0)) p0 O H30) as N1. pose proof (env_descend_loop (bheight (root p0)) p0 O) as E1.
  pose proof (rs_descend_loop (bheight (root p0)) p0 O) as R1.
  pose proof (ccP_descend_loop (bheight (root p0)) p0 O Hcc0 ltac:(eexists; reflexivity)) as C1.
  fold (descendOpenBlocks p0) in D1, N1, E1, R1, C1. destruct (descendOpenBlocks p0) as [am p1]. cbn [snd] in D1, N1, E1, R1, C1.
  (* what the final state must provide *)
  assert (Hfin : forall q, LW q -> env p0 q -> rs q = 0 -> ccP q ->
            la src (ls + len (from_ src ls)) (docRoot (bkids (root q)))).
  { intros q (_ & Hq & Hb) (Q1 & Q2 & Q3) Q4 (Q5 & _). cbn [p0 resetLP lineStart line source] in Q1, Q2, Q3. rewrite Q1, Q2, Q3 in Hq. rewrite Q1, Q2 in Hb.
    apply la_docRoot; assumption. }
  assert (Rs0 : rs p0 = 0) by reflexivity.
  destruct D1 as [(Et & Hw & Hdt)|(HB1 & Hc1 & Pb1 & Hs1)].
  - rewrite Et. cbn [negb Z.eqb Pos.eqb fst snd].
    split; [apply Hfin; [exact Hw|exact E1|rewrite R1; exact Rs0|exact C1]|]. intros _. apply DT_docRoot, Hdt.
  - assert (Hnt1 : state p1 <> stDescendTerminated).
    { destruct Hs1 as [E|[E Hni]]; [rewrite E; discriminate|]. rewrite E. change (state p0) with st. intros Est.
      destruct (Hst Est) as (c1 & G1 & G2 & G3). destruct Hni as [Hf|Hni].
      - unfold p0, resetLP in Hf. cbn [root bheight] in Hf. discriminate.
      - change (root p0) with (docRoot children) in Hni. rewrite G1 in Hni. unfold isOpen in Hni.
        destruct Hni as [Hni|Hni]; [apply Z.ltb_ge in Hni; lia|congruence]. }
    replace (negb (state p1 =? stDescendTerminated)) with true by (symmetry; apply negb_true_iff, Z.eqb_neq; exact Hnt1).
    destruct (openNewBlocks_okL p1 am HB1 Hc1 N1 ltac:(apply (LSp_env p0); [apply E1|exact HS0]) Pb1 Hnt1) as (O1 & O2 & O3 & O4). cbv zeta in *.
    pose proof (rs_openNewBlocks p1 am ltac:(apply C1)) as R2. pose proof (ccP_openNewBlocks p1 am C1) as C2.
    destruct (openNewBlocks p1 am) as [ht p2]. cbn [fst snd] in *.
    destruct ht.
    + cbn [fst snd]. split.
      * apply Hfin; [apply addLineText_okL, O2; reflexivity| |rewrite rs_addLineText, R2, R1; exact Rs0|apply ccP_addLineText, C2].
        eapply env_trans; [exact E1|]. eapply env_trans; [exact O4|]. apply env_addLineText.
      * intros Est. exfalso. revert Est. apply state_addLineText, O3.
    + cbn [fst snd]. split; [apply Hfin; [apply O1; reflexivity|eapply env_trans; eassumption|rewrite R2, R1; exact Rs0|exact C2]|].
      intros Est. contradiction.
Qed.
Print Assumptions la_processLine.
