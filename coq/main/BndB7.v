From Coq Require Import List ZArith Lia Bool.
Import ListNotations.
Require Import Base Tree Rdr Link Collect Html Recog LP Rules Starts Driver L2Kind L2CC BSDef BSRdr BSTree BSOcp BSOrph BSClose BSLine1 BSLine2 BSLine3 BSLine4 BSLine5 BSLine7 BSLine8 BSErase BSLine9 BSLine10
  GramTree GramLP GramLP2 Cursor CursorX NoPanic12 Rec16 ShDef ShRdr ShClose ShEnv ShLine1 ShLine2 ShFresh ShStarts2.
Require L2Kind2.
Require Import Props ShapesBase EntBase EntOcpDefs EntOcp EntTree EntCur EntLP1 EntLP2 EntLP3 EntLP4 EntLP5 EntLP6 EntLP7 EntLP8
  BndDefs BndBDefs BndB1 BndB2 BndB3 BndB4 BndB5 BndB6.
Open Scope Z_scope.

(* ================================================================== *)
(* BndB7: openNewBlocks, addLineText, one line.                        *)
(* ================================================================== *)

Section Line.
  Variable B : bytes.
  Hypothesis HVB : asciiOK B.
  Hypothesis HV0 : boundary_ok B 0 = true.
  Hypothesis Hocp : OcpG B.
  Notation g := (gdb B).
  Notation XP := (XP B).
  Notation Cg := (Cg B).
  Notation startOKb := (startOKb B).

  Lemma blockStarts_okb : Forall startOKb blockStarts.
  Proof.
    unfold blockStarts.
    apply Forall_cons; [apply sOKb_startBlockQuote; assumption|]. apply Forall_cons; [apply sOKb_startATX; assumption|].
    apply Forall_cons; [apply sOKb_startFenced; assumption|]. apply Forall_cons; [apply sOKb_startHTML; assumption|].
    apply Forall_cons; [apply sOKb_startSetext; assumption|]. apply Forall_cons; [apply sOKb_startThematic; assumption|].
    apply Forall_cons; [apply sOKb_startListItem; assumption|]. apply Forall_cons; [apply sOKb_startIndented; assumption|]. apply Forall_nil.
  Qed.

  Lemma tryStarts_X : forall fs p, Forall (startOKe B) fs -> Forall startOKb fs -> XP p -> Rr p -> FIN p -> cleanA p ->
    gB g (root (snd (tryStarts fs p))) = true /\
    (fst (tryStarts fs p) = false -> cleanA (snd (tryStarts fs p))) /\
    (fst (tryStarts fs p) = true -> state (snd (tryStarts fs p)) = stLineConsumed \/ cleanA (snd (tryStarts fs p))).
  Proof.
    induction fs as [|f r IH]; intros p Hf Hb HX HR HF Hcl.
    { cbn [tryStarts fst snd]. split; [apply HX|]. split; [intros _; exact Hcl|discriminate]. }
    inversion Hf as [|? ? Hf1 Hfr]; subst. inversion Hb as [|? ? Hb1 Hbr]; subst. cbn [tryStarts]. cbv zeta.
    set (q := withState p stOpening).
    assert (Xq : XP q) by (apply X_withState, HX).
    assert (Rq : Rr q) by exact HR. assert (Fq : FIN q) by exact HF. assert (Sq : st_open q) by (left; reflexivity).
    assert (Cq : cleanA q) by exact Hcl.
    destruct (Hf1 q (proj1 Xq) Sq Rq) as [Eid|(S1 & S2 & S3 & S4)].
    - rewrite Eid. change (state q) with stOpening. cbn [Z.eqb orb]. apply IH; assumption.
    - replace ((state (f q) =? stOpenMatched) || (state (f q) =? stLineConsumed)) with true
        by (destruct S4 as [E|E]; rewrite E; reflexivity).
      cbn [fst snd]. destruct (Hb1 q Xq Sq Cq) as [Eid|(G1 & G2)].
      + rewrite Eid. split; [apply Xq|]. split; [discriminate|]. intros _. right. exact Cq.
      + split; [exact G1|]. split; [discriminate|]. intros _. exact G2.
  Qed.

  Lemma opening_loop_X : forall fuel p, XP p -> Rr p -> FIN p -> cleanA p ->
    gB g (root (snd (opening_loop fuel p))) = true /\ (fst (opening_loop fuel p) = true -> cleanA (snd (opening_loop fuel p))).
  Proof.
    induction fuel as [|f IH]; intros p HX HR HF Hcl; [cbn [opening_loop fst snd]; split; [apply HX|intros _; exact Hcl]|]. cbn [opening_loop].
    destruct (_ || _); [|cbn [fst snd]; split; [apply HX|intros _; exact Hcl]].
    destruct (tryStarts_ent B blockStarts p (blockStarts_oke B) (proj1 HX) HR HF) as (T1 & T2 & T3).
    destruct (tryStarts_X blockStarts p (blockStarts_oke B) blockStarts_okb HX HR HF Hcl) as (U1 & U2 & U3).
    destruct (tryStarts blockStarts p) as [[|] p1]; cbn [fst snd] in *.
    - destruct (T3 eq_refl) as [T4 T5].
      destruct (Z.eqb_spec (state p1) stLineConsumed) as [E|N]; [cbn [fst snd]; split; [exact U1|discriminate]|].
      apply IH; [split; assumption|destruct T4 as [T4|T4]; [contradiction|exact T4]|intros Ek; contradiction|destruct (U3 eq_refl) as [X|X]; [contradiction|exact X]].
    - split; [exact U1|intros _; apply U2; reflexivity].
  Qed.

  Lemma gB_deferredClose p : XP p -> gB g (root (deferredClose p)) = true.
  Proof.
    intros HX. pose proof HX as [(A & _) Hg]. unfold deferredClose. cbv zeta. destruct (_ && _); [exact Hg|].
    apply (X_closeHere B HVB Hocp p (lineStart p) HX); [pose proof (len_nonneg (line p)); lia|apply bdy_ls, A|apply (g_ls B HVB HV0), A].
  Qed.

  Lemma gB_root_close p : XP p ->
    gB g (match closeBlock (bheight (root p)) (source p) (root p) (lineStart p) with b :: _ => b | [] => root p end) = true.
  Proof.
    intros [HE Hg]. pose proof HE as (A & (A0 & _) & _ & _ & A4). destruct (src_of B p A) as (S1 & S2 & S3).
    pose proof (gB_closeBlock B Hocp (lineStart p) (lineStart p + len (line p)) (source p) (lineStart p) S1 S2
                  ltac:(pose proof (len_nonneg (line p)); lia) ltac:(lia) (bdy_ls B p A) (bdy_H B p A) (g_ls B HVB HV0 p A) (g_H B HVB p A)
                  (bheight (root p)) (root p) A4 Hg) as H.
    destruct (closeBlock _ _ _ _) as [|b r]; [exact Hg|]. unfold gL in H. cbn [forallb] in H. apply andb_true_iff in H. tauto.
  Qed.

  Lemma openNewBlocks_X p am : XP p -> clean p -> paraNB p ->
    gB g (root (snd (openNewBlocks p am))) = true /\ (fst (openNewBlocks p am) = true -> cleanA (snd (openNewBlocks p am))).
  Proof.
    intros HX Hcl Hnb. unfold openNewBlocks. destruct (len (line p) =? 0).
    { cbn [fst snd root withCont withRoot setLP]. split; [apply gB_root_close, HX|discriminate]. }
    assert (HR : Rr p) by (intros _; exact Hcl).
    assert (HF : FIN p) by (intros Ek; split; [apply Hnb, Ek|exact Hcl]).
    destruct (opening_loop_ent B (S (length (line p))) p (proj1 HX) HR HF) as [O1 O2].
    destruct (opening_loop_X (S (length (line p))) p HX HR HF (cleanA_clean p Hcl)) as [P1 P2].
    destruct (opening_loop (S (length (line p))) p) as [ht p1]. cbn [fst snd] in *.
    destruct am; cbn [fst snd]; [split; assumption|].
    split; [apply gB_deferredClose; split; assumption|].
    intros Et. specialize (P2 Et). unfold deferredClose. cbv zeta. destruct (_ && _); exact P2.
  Qed.

  (* ---- addLineText ---- *)
  Lemma gB_setLastBlankUpTo v : forall d rt, gB g rt = true -> gB g (setLastBlankUpTo d v rt) = true.
  Proof.
    induction d as [|d IH]; intros rt H; cbn [setLastBlankUpTo].
    - cbn [updAt]. rewrite gB_set_blast. exact H.
    - apply IH. apply gB_updAt; [intros b Hb; rewrite gB_set_blast; exact Hb|exact H].
  Qed.
  Lemma gB_fblast b : gB g b = true -> gB g (fblast b) = true.
  Proof.
    intros H. unfold fblast. destruct (lastBlock b) as [c|] eqn:El; [|exact H]. apply gB_set_lastBlocks; [exact H|].
    unfold gL. cbn [forallb]. rewrite gB_set_blast, (gB_lastBlock g b c H El). reflexivity.
  Qed.

  (* the text of the line from the cursor on *)
  Lemma gB_go q : envB B q -> curP q -> gB g (root q) = true -> Cg q ->
    let inlineKind := if isCode (containerKind q) then TextKind else if containerKind q =? HTMLBlockKind then RawHTMLKind else UnparsedKind in
    let q1 := updCont q (fun b => set_bik b (bik b ++ [mkI inlineKind (lineStart q + li q) (lineStart q + len (line q))])) in
    gB g (root (if isCode (containerKind q) && negb (hasByteSuffixEOL (line q1))
                then updCont q1 (fun b => set_bik b (bik b ++ [mkI SoftLineBreakKind (lineStart q1 + len (line q1)) (lineStart q1 + len (line q1))]))
                else q1)) = true.
  Proof.
    intros He Hc Hg Hcg. cbv zeta. pose proof (g_H B HVB q He) as GH.
    match goal with |- context [updCont q ?f] => assert (G1 : gB g (root (updCont q f)) = true) end.
    { apply gB_updCont; [exact Hg|]. intros b Hb. apply gB_add_ik; [exact Hb|]. apply gI_mkI; [exact Hcg|exact GH]. }
    destruct (_ && _); [|exact G1].
    apply gB_updCont; [exact G1|]. intros b Hb. apply gB_add_ik; [exact Hb|].
    cbn [lineStart line updCont withRoot setLP]. apply gI_mkI; exact GH.
  Qed.

  Lemma curP_cstep p p' : cstep p p' -> curP p -> curP p'.
  Proof. intros H Hc. apply (cstep_Mc p p' H Hc). Qed.

  Lemma addLineText_X p : XP p -> cleanA p -> (acceptsLines (containerKind p) = false -> st_open p) ->
    gB g (root (addLineText p)) = true.
  Proof.
    intros [HE Hg] Hcl HS. pose proof HE as (A & (A0 & A1) & A2 & A3 & A4). unfold addLineText. cbv zeta.
    change (updCont p (fun b => match lastBlock b with Some c => set_lastBlocks b [set_blast c true] | None => b end)) with (updCont p fblast).
    destruct (blast1 p A2) as [U1 Hc1]. cbv zeta in U1, Hc1. set (p1 := if isRestBlank p then updCont p fblast else p) in *.
    match goal with |- context [setLastBlankUpTo (cdepth p1) ?l (root p1)] => set (llb := l) end.
    destruct (blast2 p1 llb Hc1) as [U2 Hc2]. cbv zeta in U2, Hc2. set (p2 := withRoot p1 (setLastBlankUpTo (cdepth p1) llb (root p1))) in *.
    pose proof (sameUpTo_trans p p1 p2 U1 U2) as U12.
    assert (H2 : EP B p2) by (eapply EP_sameUpTo; eassumption).
    assert (G1 : gB g (root p1) = true).
    { unfold p1. destruct (isRestBlank p); [|exact Hg]. apply gB_updCont; [exact Hg|apply gB_fblast]. }
    assert (G2 : gB g (root p2) = true) by (apply gB_setLastBlankUpTo, G1).
    assert (X2 : XP p2) by (split; assumption).
    assert (K1 : containerKind p1 = containerKind p) by (apply cont_sameUpTo; assumption).
    assert (K2 : containerKind p2 = containerKind p) by (apply cont_sameUpTo; assumption).
    assert (C2 : cleanA p2) by (destruct U12 as (_ & _ & X & _); eapply cleanA_curS; eassumption).
    assert (Enb : isRestBlank p2 = isRestBlank p) by (destruct U12 as (_ & _ & X & _); unfold isRestBlank; rewrite (rest_curS p p2 X); reflexivity).
    change (bkind (contBlock p1)) with (containerKind p1). rewrite K1, <- K2.
    pose proof H2 as (B0 & B1 & _).
    destruct (acceptsLines (containerKind p2)) eqn:Ea.
    - set (q := if (li p2 <? len (line p2)) && (at_ (line p2) (li p2) =? 9) && (0 <? tabRem p2) && (tabRem p2 <? 4) then _ else p2).
      assert (Hq : envB B q /\ curP q /\ gB g (root q) = true /\ cleanA q).
      { unfold q. destruct ((li p2 <? len (line p2)) && (at_ (line p2) (li p2) =? 9) && (0 <? tabRem p2) && (tabRem p2 <? 4)) eqn:Et; [|tauto].
        apply andb_true_iff in Et. destruct Et as [Et _]. apply andb_true_iff in Et. destruct Et as [Et _]. apply andb_true_iff in Et. destruct Et as [T1 T2].
        apply Z.ltb_lt in T1. apply Z.eqb_eq in T2.
        match goal with |- context [updCont p2 ?f] => set (q0 := updCont p2 f) end.
        assert (G0 : gB g (root q0) = true).
        { apply gB_updCont; [exact G2|]. intros b Hb. apply gB_add_ik; [exact Hb|]. cbn [gI forallb].
          rewrite (Cg_clean B HVB HV0 p2 X2 C2).
          replace (lineStart p2 + li p2 + 1) with (lineStart p2 + li p2 + 1) by lia.
          rewrite (g_after B HVB p2 (li p2) B0 ltac:(destruct B1; lia) ltac:(rewrite T2; lia) ltac:(rewrite T2; lia)). reflexivity. }
        assert (E0 : envB B q0) by exact B0. assert (P0 : curP q0) by exact B1. assert (C0 : cleanA q0) by exact C2.
        split; [eapply envB_env; [apply env_consumeIndent|exact E0]|]. split; [eapply curP_cstep; [apply cstep_consumeIndent|exact P0]|].
        split; [rewrite (root_cstep _ _ (cstep_consumeIndent q0 _)); exact G0|apply cleanA_consumeIndent, C0]. }
      destruct Hq as (Q1 & Q2 & Q3 & Q4).
      apply gB_go; [exact Q1|exact Q2|exact Q3|apply (g_cur B HVB HV0); assumption].
    - destruct (isRestBlank p) eqn:Eb; cbn [negb]; rewrite ?Eb in Enb; [exact G2|].
      assert (Sp2 : st_open p2).
      { destruct U12 as (_ & _ & _ & _ & X). unfold st_open. rewrite X. apply HS. rewrite <- K2. exact Ea. }
      set (q1 := openBlock p2 ParagraphKind).
      assert (Gq1 : gB g (root q1) = true) by (apply (gB_openBlock B HVB HV0 Hocp); [exact X2|exact Sp2|apply Cg_clean; assumption]).
      assert (Eq1 : envB B q1) by (eapply envB_env; [apply env_openBlock|exact B0]).
      assert (Pq1 : curP q1).
      { destruct (curS_openBlock p2 ParagraphKind) as (Y1 & Y2 & _). fold q1 in Y1, Y2. destruct (env_parts _ _ (env_openBlock p2 ParagraphKind)) as (_ & Y3 & _). fold q1 in Y3.
        unfold curP. rewrite Y1, Y2, Y3. exact B1. }
      assert (Cq1 : cleanA q1) by (eapply cleanA_curS; [apply curS_openBlock|exact C2]).
      set (q2 := consumeIndent q1 (indent q1)).
      apply gB_go.
      + eapply envB_env; [apply env_consumeIndent|exact Eq1].
      + eapply curP_cstep; [apply cstep_consumeIndent|exact Pq1].
      + unfold q2. rewrite (root_cstep _ _ (cstep_consumeIndent q1 _)). exact Gq1.
      + apply (g_cur B HVB HV0); [eapply envB_env; [apply env_consumeIndent|exact Eq1]|eapply curP_cstep; [apply cstep_consumeIndent|exact Pq1]|apply cleanA_consumeIndent, Cq1].
  Qed.

  (* ---- one line ---- *)
  Lemma gB_kids r : gB g r = true -> gL g (bkids r) = true.
  Proof. intros H. apply (gB_parts g r H). Qed.

  Theorem bnd_processLine H st children ls :
    0 <= ls -> ls <= H -> H <= len B -> (ls = 0 \/ isEOLz (at_ B (ls - 1)) \/ ls = len B) -> lineOK B ls H ->
    ccF children = true -> kidsOK ls children -> allP (en B ls) children -> gL g children = true ->
    gL g (fst (fst (processLine st children ls (upto B H)))) = true.
  Proof.
    intros Hls HlH HB Hprev Hline Hcc [Ha Hch] Hen Hgl. unfold processLine. cbv zeta.
    set (src := upto B H).
    assert (Hsl : len src = H) by (unfold src; rewrite ShapesBase.len_upto; lia).
    assert (Hll : len (from_ src ls) = H - ls) by (rewrite ShapesBase.len_from by lia; lia).
    set (p0 := resetLP st children ls src).
    assert (Hroot : sp ls (root p0)).
    { cbn [p0 resetLP root sp]. repeat split; try lia; try discriminate; assumption. }
    assert (HB0 : BSLine1.BP p0).
    { split; [split; [exact Hls|cbn [p0 resetLP li line]; lia]|]. split; [unfold Mc; cbn [p0 resetLP li lineStart]; replace (ls + 0) with ls by lia; exact Hroot|]. split.
      - intros j x Hj Ex. change (cdepth p0) with O in Hj. replace j with O in Ex by lia. cbn in Ex. inversion Ex; subst x. cbn. lia.
      - unfold ccP, wf, cdepth. cbn [p0 resetLP root container]. split; [reflexivity|split; [exact Hcc|eexists; reflexivity]]. }
    assert (HE0 : EP B p0).
    { split; [|split; [|split; [apply HB0|split]]].
      - unfold envB. cbn [p0 resetLP source lineStart line]. rewrite Hll. replace (ls + (H - ls)) with H by lia.
        split; [reflexivity|]. split; [reflexivity|]. split; [lia|]. split; [lia|]. split; [exact Hprev|exact Hline].
      - split; [exact Hls|cbn [p0 resetLP li line]; lia].
      - split; [cbn [p0 resetLP li]; lia|]. cbn [p0 resetLP li line tabRem col]. intros Hl Ha'. apply computeTabRem_spec; [lia|exact Hl|exact Ha'].
      - cbn [p0 resetLP root lineStart en]. split; [|exact Hen]. apply ikOK_free; [repeat split; discriminate|intros; lia|intros _; apply noU_nil]. }
    assert (Hg0 : gB g (root p0) = true).
    { cbn [p0 resetLP root gB forallb]. rewrite (gdb_neg B 0 ltac:(lia) HV0), (gdb_neg' B (-1) ltac:(lia)). cbn [andb]. rewrite andb_true_r. exact Hgl. }
    assert (Hc0 : clean p0) by (intros i Hi; cbn [p0 resetLP li] in Hi; lia).
    assert (Hn0 : paraNB p0) by (intros E; cbn in E; discriminate).
    destruct (descend_ent B (bheight (root p0)) p0 O HE0 Hc0 eq_refl Hn0) as [D1 D2].
    pose proof (descend_X B HVB HV0 Hocp (bheight (root p0)) p0 O (conj HE0 Hg0) Hc0 eq_refl Hn0) as DG.
    pose proof (descend_ok (bheight (root p0)) p0 O HB0 Hroot eq_refl) as DB.
    fold (descendOpenBlocks p0) in D1, D2, DB, DG. destruct (descendOpenBlocks p0) as [am p1]. cbn [fst snd] in D1, D2, DB, DG.
    destruct (Z.eqb_spec (state p1) stDescendTerminated) as [Et|Et]; cbn [negb].
    { cbn [fst]. apply gB_kids, DG. }
    destruct D2 as [D2|(D2 & D3 & D4)]; [contradiction|].
    destruct DB as [[DB _]|[HB1 Hc1]]; [contradiction|].
    destruct (openNewBlocks_X p1 am (conj D1 DG) D2 D4) as [N1 N2].
    assert (Hro : am = false -> bend (root (snd (opening_loop (S (length (line p1))) p1))) < 0).
    { intros _. assert (H0 : OPx p1) by (split; [exact HB1|apply clean_C1; exact Hc1]).
      destruct (opening_loop_ok (S (length (line p1))) p1 H0 ltac:(left; apply clean_LI; exact Hc1)) as [((_ & _ & X & _) & _) _].
      apply (X O _ ltac:(lia) eq_refl). }
    destruct (openNewBlocks_ent B p1 am D1 D2 D4 Hro) as [M1 M2].
    pose proof (L2Kind2.openNewBlocks_good p1 am) as NG.
    destruct (openNewBlocks p1 am) as [ht p2]. cbn [fst snd] in *.
    destruct ht.
    - destruct (M2 eq_refl) as [X1 X2]. apply gB_kids. apply addLineText_X; [split; [exact X1|exact N1]|apply N2; reflexivity|exact (NG eq_refl)].
    - apply gB_kids, N1.
  Qed.
End Line.
Print Assumptions bnd_processLine.
