From Coq Require Import List ZArith Lia Bool.
Import ListNotations.
Require Import Base Tables Utf8 Tree Recog Inl3b Driver Inl3e Render Props ComposeC02 EolFinalDefs EolFinalFullDefs.
Require Import EolCRRenderRE EolCRRenderI EolFinalRenderBase.
Open Scope Z_scope.

(* ====================================================================================================
   C14, final-newline clause, renderer, part 2:
   (1) the renderer on a tree with valid spans does not see bytes appended to the source;
   (2) a node whose span [s, L] becomes [s, L + 1] over src ++ [10] renders the same, or with one more LF at the end;
   (3) renderB / extractDefs on finFullB (EolFinalFullDefs) against the original block.
   ==================================================================================================== *)
Lemma svI_parts src i : svI src i = true -> span_valid (len src) (istart i) (iend i) = true /\ forallb (svI src) (ikids i) = true.
Proof. rewrite svI_eq. apply andb_true_iff. Qed.
Lemma svB_parts src b : svB src b = true ->
  span_valid (len src) (bstart b) (bend b) = true /\ forallb (svB src) (bkids b) = true /\ forallb (svI src) (bik b) = true.
Proof. rewrite svB_eq. intros H. apply andb_true_iff in H. destruct H as [H C]. apply andb_true_iff in H. tauto. Qed.
Lemma forallb_In {A} (p : A -> bool) l x : forallb p l = true -> In x l -> p x = true.
Proof. intros H Hx. rewrite forallb_forall in H. apply H, Hx. Qed.

Lemma flat_map_map {A B C} (g : B -> list C) (h : A -> B) l : flat_map g (map h l) = flat_map (fun x => g (h x)) l.
Proof. induction l as [|x l IH]; [reflexivity|]. cbn [map flat_map]. rewrite IH. reflexivity. Qed.

Lemma defOf_fields refs s i i' : ikind i' = ikind i -> ikids i' = ikids i -> iref i' = iref i -> defOf refs s i' = defOf refs s i.
Proof. intros A B C. unfold defOf, linkReference, linkPart. rewrite A, B, C. reflexivity. Qed.

Section App.
  Variable c : cfg.
  Variable refs : list (bytes * linkDef).
  Variables src x : bytes.

  Lemma spanOf_app i : span_valid (len src) (istart i) (iend i) = true -> spanOf (src ++ x) i = spanOf src i.
  Proof. intros H. apply span_valid_elim in H. unfold spanOf. apply sub_app_l; lia. Qed.

  Lemma textOfChildren_app i : forallb (svI src) (ikids i) = true -> textOfChildren (src ++ x) i = textOfChildren src i.
  Proof.
    intros H. unfold textOfChildren. apply flat_map_ext_in. intros k Hk.
    rewrite (spanOf_app k (proj1 (svI_parts src k (forallb_In _ _ _ H Hk)))). reflexivity.
  Qed.

  Lemma defOf_app i : svI src i = true -> defOf refs (src ++ x) i = defOf refs src i.
  Proof.
    intros Hi. destruct (svI_parts src i Hi) as [_ Hk]. unfold defOf. cbv zeta.
    assert (E : forall K, match linkPart i K with Some d => textOfChildren (src ++ x) d | None => [] end =
                          match linkPart i K with Some d => textOfChildren src d | None => [] end).
    { intros K. destruct (linkPart i K) as [d|] eqn:E; [|reflexivity]. destruct (linkPart_spec _ _ _ E) as [Hin _].
      apply textOfChildren_app. apply (svI_parts src d (forallb_In _ _ _ Hk Hin)). }
    rewrite !E. reflexivity.
  Qed.

  Lemma altText_app : forall f i, svI src i = true -> altText f (src ++ x) i = altText f src i.
  Proof.
    induction f as [|f IH]; intros i Hi; [reflexivity|]. destruct (svI_parts src i Hi) as [Hv Hk]. cbn [altText]. cbv zeta.
    rewrite (spanOf_app i Hv).
    rewrite (flat_map_ext_in (altText f (src ++ x)) (altText f src) (ikids i)) by (intros k Hkk; apply IH, (forallb_In _ _ _ Hk Hkk)).
    reflexivity.
  Qed.

  Lemma renderI_app : forall f i, svI src i = true -> renderI f c refs (src ++ x) i = renderI f c refs src i.
  Proof.
    induction f as [|f IH]; intros i Hi; [reflexivity|]. destruct (svI_parts src i Hi) as [Hv Hk]. cbn [renderI]. cbv zeta.
    rewrite (spanOf_app i Hv), (defOf_app i Hi), (altText_app (isize i) i Hi).
    rewrite (flat_map_ext_in (renderI f c refs (src ++ x)) (renderI f c refs src) (ikids i)) by (intros k Hkk; apply IH, (forallb_In _ _ _ Hk Hkk)).
    assert (E : match ikids i with t :: _ => spanOf (src ++ x) t | [] => [] end = match ikids i with t :: _ => spanOf src t | [] => [] end).
    { destruct (ikids i) as [|t r]; [reflexivity|]. cbn [forallb] in Hk. apply andb_true_iff in Hk. destruct Hk as [Ht _].
      apply spanOf_app, (svI_parts src t Ht). }
    rewrite E. reflexivity.
  Qed.

  Lemma entries_app ik : forallb (svI src) ik = true ->
    flat_map (fun i => renderI (isize i) c refs (src ++ x) i) ik = flat_map (fun i => renderI (isize i) c refs src i) ik.
  Proof. intros H. apply flat_map_ext_in. intros i Hi. apply renderI_app, (forallb_In _ _ _ H Hi). Qed.

  Lemma listItemNumber_app b : svB src b = true -> listItemNumber (src ++ x) b = listItemNumber src b.
  Proof.
    intros Hb. destruct (svB_parts src b Hb) as (_ & Hk & _). unfold listItemNumber. destruct (_ || _); [reflexivity|].
    destruct (bkids b) as [|m r]; [reflexivity|]. destruct (negb _); [reflexivity|].
    cbn [forallb] in Hk. apply andb_true_iff in Hk. destruct Hk as [Hm _]. destruct (svB_parts src m Hm) as (Hv & _). apply span_valid_elim in Hv.
    rewrite sub_app_l by lia. reflexivity.
  Qed.

  Lemma renderB_app : forall f pt b, svB src b = true -> renderB f c refs (src ++ x) pt b = renderB f c refs src pt b.
  Proof.
    induction f as [|f IH]; intros pt b Hb; [reflexivity|]. destruct (svB_parts src b Hb) as (_ & Hk & Hi). cbn [renderB]. cbv zeta.
    rewrite (flat_map_ext_in (renderB f c refs (src ++ x) (isTightList b)) (renderB f c refs src (isTightList b)) (bkids b))
      by (intros k Hkk; apply IH, (forallb_In _ _ _ Hk Hkk)).
    rewrite (entries_app (bik b) Hi).
    assert (E1 : match bkids b with it :: _ => listItemNumber (src ++ x) it | [] => -1 end = match bkids b with it :: _ => listItemNumber src it | [] => -1 end).
    { destruct (bkids b) as [|it r]; [reflexivity|]. cbn [forallb] in Hk. apply andb_true_iff in Hk. destruct Hk as [Hit _]. apply listItemNumber_app, Hit. }
    rewrite E1.
    destruct (bik b) as [|i0 r] eqn:Eb; [destruct (bkind b =? FencedCodeBlockKind); reflexivity|].
    cbn [forallb] in Hi. apply andb_true_iff in Hi. destruct Hi as [Hi0 _].
    destruct (bkind b =? FencedCodeBlockKind); [|reflexivity]. destruct (ikind i0 =? InfoStringKind); [|reflexivity].
    rewrite (textOfChildren_app i0 (proj2 (svI_parts src i0 Hi0))). reflexivity.
  Qed.

  Lemma extractDefs_app : forall f b acc, svB src b = true -> extractDefs f (src ++ x) b acc = extractDefs f src b acc.
  Proof.
    induction f as [|f IH]; intros b acc Hb; [reflexivity|]. destruct (svB_parts src b Hb) as (_ & Hk & Hi). cbn [extractDefs].
    destruct (bkind b =? LinkReferenceDefinitionKind).
    - destruct (bik b) as [|l [|d rest]]; [reflexivity|reflexivity|].
      cbn [forallb] in Hi. apply andb_true_iff in Hi. destruct Hi as [_ Hi]. apply andb_true_iff in Hi. destruct Hi as [Hd Hr].
      rewrite (textOfChildren_app d (proj2 (svI_parts src d Hd))).
      destruct rest as [|t rest]; [reflexivity|]. cbn [forallb] in Hr. apply andb_true_iff in Hr. destruct Hr as [Ht _].
      rewrite (textOfChildren_app t (proj2 (svI_parts src t Ht))). reflexivity.
    - revert acc. induction (bkids b) as [|k r IHr]; intros acc; [reflexivity|]. cbn [fold_left].
      cbn [forallb] in Hk. apply andb_true_iff in Hk. destruct Hk as [Hk1 Hk2]. rewrite (IH k acc Hk1). apply IHr, Hk2.
  Qed.
End App.

(* ---- a node whose end moves from L to L + 1 ---- *)
Section Bump.
  Variable c : cfg.
  Variable refs : list (bytes * linkDef).
  Variable src : bytes.
  Let L := len src.
  Let src' := src ++ [10].

  Lemma sub_bump s : 0 <= s <= L -> sub src' s (L + 1) = sub src s L ++ [10].
  Proof. intros H. apply sub_app_end. exact H. Qed.

  Lemma altText_bump k s n r ks : (k =? TextKind) = false -> (k =? CharacterReferenceKind) = false -> forallb (svI src) ks = true ->
    forall f, altText f src' (Inl k s (L + 1) n r ks) = altText f src (Inl k s L n r ks).
  Proof.
    intros E1 E2 Hk f. destruct f as [|f]; [reflexivity|]. cbn [altText]. cbv zeta. cbn [ikind ikids]. rewrite E1, E2.
    rewrite (flat_map_ext_in (altText f src') (altText f src) ks) by (intros j Hj; apply altText_app, (forallb_In _ _ _ Hk Hj)). reflexivity.
  Qed.

  Lemma renderI_bump k s n r ks : 0 <= s <= L -> forallb (svI src) ks = true ->
    forall f, AP (renderI f c refs src (Inl k s L n r ks)) (renderI f c refs src' (Inl k s (L + 1) n r ks)).
  Proof.
    intros Hs Hk f. destruct f as [|f]; [left; reflexivity|].
    set (i := Inl k s L n r ks). set (i' := Inl k s (L + 1) n r ks).
    assert (Hi : svI src i = true).
    { unfold i. cbn [svI]. rewrite Hk, andb_true_r. unfold span_valid. fold L.
      destruct (Z.leb_spec 0 s); [|lia]. destruct (Z.leb_spec s L); [|lia]. destruct (Z.leb_spec L L); [reflexivity|lia]. }
    assert (Ed : defOf refs src' i' = defOf refs src i).
    { rewrite (defOf_fields refs src' i i') by reflexivity. apply defOf_app, Hi. }
    assert (Ekids : flat_map (renderI f c refs src') ks = flat_map (renderI f c refs src) ks).
    { apply flat_map_ext_in. intros j Hj. apply renderI_app, (forallb_In _ _ _ Hk Hj). }
    assert (Esp : spanOf src' i' = spanOf src i ++ [10]) by (unfold spanOf, i, i'; cbn [istart iend]; apply sub_bump, Hs).
    assert (Eauto : match ks with t :: _ => spanOf src' t | [] => [] end = match ks with t :: _ => spanOf src t | [] => [] end).
    { destruct ks as [|t rr]; [reflexivity|]. cbn [forallb] in Hk. apply andb_true_iff in Hk. destruct Hk as [Ht _].
      apply spanOf_app, (svI_parts src t Ht). }
    cbn [renderI]. cbv zeta. replace (isize i') with (isize i) by reflexivity.
    replace (ikind i') with k by reflexivity. replace (ikind i) with k by reflexivity.
    replace (ikids i') with ks by reflexivity. replace (ikids i) with ks by reflexivity.
    replace (iindent i') with n by reflexivity. replace (iindent i) with n by reflexivity.
    rewrite Ed, Ekids, Eauto, Esp.
    destruct ((k =? TextKind) || (k =? UnparsedKind)) eqn:E1; [right; apply escapeHTML_snoc|].
    apply orb_false_iff in E1. destruct E1 as [E1 _].
    destruct (k =? CharacterReferenceKind) eqn:E2; [right; reflexivity|].
    destruct (k =? RawHTMLKind).
    { destruct (ignoreRaw c); [left; reflexivity|]. destruct (filterOn c); [right; apply filterRaw_snoc|right; reflexivity]. }
    destruct (k =? SoftLineBreakKind).
    { destruct (softBreak c =? 2); [left; reflexivity|]. destruct (softBreak c =? 1); [left; reflexivity|].
      replace (iend i' - istart i') with (L + 1 - s) by reflexivity. replace (iend i - istart i) with (L - s) by reflexivity.
      destruct (Z.ltb_spec 0 (L + 1 - s)); [|lia]. destruct (Z.ltb_spec 0 (L - s)); [right; reflexivity|].
      left. unfold spanOf, i. cbn [istart iend]. replace s with L by lia. unfold sub, upto. rewrite Z.sub_diag. reflexivity. }
    destruct (k =? HardLineBreakKind); [left; reflexivity|].
    destruct (k =? EmphasisKind); [left; reflexivity|].
    destruct (k =? StrongKind); [left; reflexivity|].
    destruct (k =? CodeSpanKind); [left; reflexivity|].
    destruct (k =? LinkKind); [left; reflexivity|].
    destruct (k =? ImageKind).
    { left. unfold i, i'. rewrite (altText_bump k s n r ks E1 E2 Hk). reflexivity. }
    destruct (k =? AutolinkKind); [left; reflexivity|].
    destruct (k =? IndentKind); [left; reflexivity|].
    destruct (k =? HTMLTagKind); left; reflexivity.
  Qed.

  (* an entry under bumpI *)
  Lemma isize_bumpI u : isize (bumpI L u) = isize u.
  Proof. destruct u as [k s e n r ks]. cbn [bumpI]. destruct (k =? IndentKind); reflexivity. Qed.
  Lemma bumpI_render u : svI src u = true ->
    LFI (sbr c) (renderI (isize u) c refs src u) (renderI (isize (bumpI L u)) c refs src' (bumpI L u)).
  Proof.
    intros Hu. rewrite isize_bumpI. destruct u as [k s e n r ks]. destruct (svI_parts _ _ Hu) as [Hv Hk]. cbn [istart iend ikids] in Hv, Hk.
    apply span_valid_elim in Hv. fold L in Hv. cbn [bumpI].
    destruct (k =? IndentKind); [apply LFI_eq, renderI_app, Hu|]. unfold bump.
    destruct (Z.eqb_spec e L) as [->|_]; [|apply LFI_eq, renderI_app, Hu].
    apply AP_LFI, renderI_bump; [lia|exact Hk].
  Qed.

  Lemma rev_cons_inv {A} (l : list A) a pre : rev l = a :: pre -> l = rev pre ++ [a].
  Proof. intros H. rewrite <- (rev_involutive l), H. reflexivity. Qed.

  Notation rI := (fun i => renderI (isize i) c refs src i).
  Notation rI' := (fun i => renderI (isize i) c refs src' i).

  Lemma forallb_app_inv {A} (p : A -> bool) a b : forallb p (a ++ b) = true -> forallb p a = true /\ forallb p b = true.
  Proof. rewrite forallb_app. apply andb_true_iff. Qed.

  Lemma bumpLastText_render ik : forallb (svI src) ik = true -> LFI (sbr c) (flat_map rI ik) (flat_map rI' (bumpLastText L ik)).
  Proof.
    intros H. unfold bumpLastText. destruct (rev ik) as [|[k s e n r ks] pre] eqn:Er; [apply LFI_eq, entries_app, H|].
    destruct ((k =? TextKind) && (e =? L)) eqn:Ec; [|apply LFI_eq, entries_app, H].
    apply andb_true_iff in Ec. destruct Ec as [_ Ee]. apply Z.eqb_eq in Ee. subst e.
    rewrite (rev_cons_inv _ _ _ Er) in *. destruct (forallb_app_inv _ _ _ H) as [Hp Hl]. cbn [forallb] in Hl. rewrite andb_true_r in Hl.
    rewrite !flat_map_app. apply LFI_app; [apply LFI_eq, entries_app, Hp|]. cbn [flat_map]. rewrite !app_nil_r.
    destruct (svI_parts _ _ Hl) as [Hv Hk]. cbn [istart iend ikids] in Hv, Hk. apply span_valid_elim in Hv. fold L in Hv.
    apply AP_LFI. replace (isize (Inl k s (L + 1) n r ks)) with (isize (Inl k s L n r ks)) by reflexivity.
    apply renderI_bump; [lia|exact Hk].
  Qed.

  Lemma sbr_render f i : ikind i = SoftLineBreakKind -> iend i - istart i = 0 -> renderI (S f) c refs src i = sbr c.
  Proof. intros Hk He. cbn [renderI]. cbv zeta. rewrite Hk, He. reflexivity. Qed.

  Lemma finCode_render ik : forallb (svI src) ik = true -> LFI (sbr c) (flat_map rI ik) (flat_map rI' (finCode L ik)).
  Proof.
    intros H. unfold finCode. destruct (rev ik) as [|[k2 s2 e2 n2 r2 ks2] [|[k1 s1 e1 n1 r1 ks1] pre]] eqn:Er; try (apply LFI_eq, entries_app, H).
    destruct ((k2 =? SoftLineBreakKind) && (s2 =? L) && (e2 =? L) && (k1 =? TextKind) && (e1 =? L)) eqn:Ec; [|apply LFI_eq, entries_app, H].
    rewrite !andb_true_iff in Ec. destruct Ec as ((((C1 & C2) & C3) & C4) & C5). apply Z.eqb_eq in C1, C2, C3, C4, C5. subst.
    pose proof (rev_cons_inv _ _ _ Er) as Ei. cbn [rev] in Ei. rewrite <- app_assoc in Ei. cbn [app] in Ei. rewrite Ei in *.
    destruct (forallb_app_inv _ _ _ H) as [Hp Hl]. cbn [forallb] in Hl. apply andb_true_iff in Hl. destruct Hl as [Ht _].
    rewrite !flat_map_app. apply LFI_app; [apply LFI_eq, entries_app, Hp|]. cbn [flat_map]. rewrite !app_nil_r.
    destruct (svI_parts _ _ Ht) as [Hv Hk]. cbn [istart iend ikids] in Hv, Hk. apply span_valid_elim in Hv. fold L in Hv.
    replace (isize (Inl SoftLineBreakKind L L n2 r2 ks2)) with (S (isize (Inl SoftLineBreakKind L L n2 r2 ks2) - 1)) by (cbn [isize]; lia).
    rewrite sbr_render by (cbn [ikind istart iend]; first [reflexivity|lia]).
    replace (isize (Inl TextKind s1 (L + 1) n1 r1 ks1)) with (isize (Inl TextKind s1 L n1 r1 ks1)) by reflexivity.
    set (f := isize (Inl TextKind s1 L n1 r1 ks1)). assert (Hf : f = S (f - 1)) by (unfold f; cbn [isize]; lia). rewrite Hf.
    cbn [renderI]. cbv zeta. cbn [ikind]. change ((TextKind =? TextKind) || (TextKind =? UnparsedKind)) with true. cbv iota.
    unfold spanOf. cbn [istart iend]. fold L. rewrite (sub_bump s1) by lia. rewrite escapeHTML_snoc.
    apply LFI_app; [apply LFI_refl|]. pose proof (LFI_sb (sbr c) [] [] (LFI_nil _)) as Hsb. rewrite app_nil_r in Hsb. exact Hsb.
  Qed.

  Lemma bumpI_entries ik : forallb (svI src) ik = true -> LFI (sbr c) (flat_map rI ik) (flat_map rI' (map (bumpI L) ik)).
  Proof.
    intros H. induction ik as [|u r IH]; [constructor|]. cbn [map flat_map]. cbn [forallb] in H. apply andb_true_iff in H. destruct H as [Hu Hr].
    apply LFI_app; [apply bumpI_render, Hu|apply IH, Hr].
  Qed.

  (* ---- blocks ---- *)
  Definition finE (hb : bool) (K : Z) (ik : list inline) : list inline :=
    if (K =? IndentedCodeBlockKind) || (K =? FencedCodeBlockKind) then finCode L ik
    else if K =? HTMLBlockKind then map (bumpI L) ik
    else if (K =? ParagraphKind) && hb then bumpLastText L ik else ik.
  Lemma finFullB_eq hb b : finFullB L hb b =
    if bkind b =? ListMarkerKind then b else
    Blk (bkind b) (bstart b) (bump L (bend b)) (map (finFullB L hb) (bkids b)) (finE hb (bkind b) (bik b))
        (bindent b) (bn b) (bchar b) (bloose b) (blastBlank b).
  Proof. destruct b; reflexivity. Qed.
  Lemma fin_kind hb b : bkind (finFullB L hb b) = bkind b.
  Proof. rewrite finFullB_eq. destruct (bkind b =? ListMarkerKind); reflexivity. Qed.
  Lemma fin_bheight hb : forall b, bheight (finFullB L hb b) = bheight b.
  Proof.
    fix IH 1. intros [K s e bk ik a n ch l lb]. cbn [finFullB]. destruct (K =? ListMarkerKind); [reflexivity|]. cbn [bheight]. f_equal.
    induction bk as [|x r IHr]; [reflexivity|]. cbn [map fold_right]. rewrite (IH x), IHr. reflexivity.
  Qed.

  Lemma finE_render hb K ik : forallb (svI src) ik = true -> LFI (sbr c) (flat_map rI ik) (flat_map rI' (finE hb K ik)).
  Proof.
    intros H. unfold finE. destruct (_ || _); [apply finCode_render, H|]. destruct (K =? HTMLBlockKind); [apply bumpI_entries, H|].
    destruct (_ && hb); [apply bumpLastText_render, H|apply LFI_eq, entries_app, H].
  Qed.

  Definition infoOf (ik : list inline) : option inline :=
    match ik with i0 :: _ => if ikind i0 =? InfoStringKind then Some i0 else None | [] => None end.
  Lemma infoOf_finCode ik : infoOf (finCode L ik) = infoOf ik.
  Proof.
    unfold finCode. destruct (rev ik) as [|[k2 s2 e2 n2 r2 ks2] [|[k1 s1 e1 n1 r1 ks1] pre]] eqn:Er; try reflexivity.
    destruct ((k2 =? SoftLineBreakKind) && (s2 =? L) && (e2 =? L) && (k1 =? TextKind) && (e1 =? L)) eqn:Ec; [|reflexivity].
    pose proof (rev_cons_inv _ _ _ Er) as Ei. cbn [rev] in Ei. rewrite <- app_assoc in Ei. cbn [app] in Ei. rewrite Ei.
    destruct (rev pre) as [|x0 rr]; [|reflexivity]. cbn [app infoOf ikind].
    rewrite !andb_true_iff in Ec. destruct Ec as ((_ & C4) & _). apply Z.eqb_eq in C4. subst k1. reflexivity.
  Qed.

  Lemma listItemNumber_fin hb b : svB src b = true -> listItemNumber src' (finFullB L hb b) = listItemNumber src b.
  Proof.
    intros Hb. rewrite finFullB_eq. destruct (bkind b =? ListMarkerKind) eqn:Em; [apply listItemNumber_app, Hb|].
    destruct (svB_parts src b Hb) as (_ & Hk & _). unfold listItemNumber, isOrdered. cbn [bchar bkind bkids].
    destruct (_ || _); [reflexivity|]. destruct (bkids b) as [|m r]; [reflexivity|]. cbn [map]. rewrite fin_kind.
    destruct (negb (bkind m =? ListMarkerKind)) eqn:En; [reflexivity|]. apply negb_false_iff in En.
    rewrite (finFullB_eq hb m), En. cbn [forallb] in Hk. apply andb_true_iff in Hk. destruct Hk as [Hm _].
    destruct (svB_parts src m Hm) as (Hv & _). apply span_valid_elim in Hv. unfold src'. rewrite sub_app_l by lia. reflexivity.
  Qed.

  Lemma renderB_fin hb : forall f pt b, svB src b = true ->
    LFI (sbr c) (renderB f c refs src pt b) (renderB f c refs src' pt (finFullB L hb b)).
  Proof.
    induction f as [|f IH]; intros pt b Hb; [constructor|]. rewrite finFullB_eq.
    destruct (bkind b =? ListMarkerKind); [apply LFI_eq, renderB_app, Hb|].
    destruct (svB_parts src b Hb) as (_ & Hk & Hi). cbn [renderB]. cbv zeta.
    set (b' := Blk (bkind b) (bstart b) (bump L (bend b)) (map (finFullB L hb) (bkids b)) (finE hb (bkind b) (bik b)) (bindent b) (bn b) (bchar b) (bloose b) (blastBlank b)).
    replace (bkind b') with (bkind b) by reflexivity. replace (bn b') with (bn b) by reflexivity.
    replace (isTightList b') with (isTightList b) by reflexivity. replace (isOrdered b') with (isOrdered b) by reflexivity.
    replace (bkids b') with (map (finFullB L hb) (bkids b)) by reflexivity. replace (bik b') with (finE hb (bkind b) (bik b)) by reflexivity.
    assert (HkB : LFI (sbr c) (flat_map (renderB f c refs src (isTightList b)) (bkids b))
                              (flat_map (renderB f c refs src' (isTightList b)) (map (finFullB L hb) (bkids b)))).
    { rewrite flat_map_map. apply LFI_flat_map. intros k Hkk. apply IH, (forallb_In _ _ _ Hk Hkk). }
    pose proof (finE_render hb (bkind b) (bik b) Hi) as HkI.
    set (kids := match bkids b with [] => flat_map rI (bik b) | _ => flat_map (renderB f c refs src (isTightList b)) (bkids b) end).
    set (kids' := match map (finFullB L hb) (bkids b) with [] => flat_map rI' (finE hb (bkind b) (bik b)) | _ => flat_map (renderB f c refs src' (isTightList b)) (map (finFullB L hb) (bkids b)) end).
    assert (HK : LFI (sbr c) kids kids') by (unfold kids, kids'; destruct (bkids b); [exact HkI|exact HkB]).
    clearbody kids kids'.
    assert (Hwrap : forall a z, LFI (sbr c) (a ++ kids ++ z) (a ++ kids' ++ z)).
    { intros a z. apply LFI_app; [apply LFI_refl|]. apply LFI_app; [exact HK|apply LFI_refl]. }
    destruct (bkind b =? ParagraphKind); [destruct pt; [exact HK|apply Hwrap]|].
    destruct (bkind b =? ThematicBreakKind); [apply LFI_refl|].
    destruct (isHeading (bkind b)); [apply Hwrap|].
    destruct (isCode (bkind b)) eqn:Ecode.
    { assert (Einfo : infoOf (finE hb (bkind b) (bik b)) = infoOf (bik b)).
      { unfold finE. unfold isCode in Ecode. rewrite Ecode. apply infoOf_finCode. }
      fold (infoOf (finE hb (bkind b) (bik b))). fold (infoOf (bik b)). rewrite Einfo.
      assert (Ecls : forall i0, infoOf (bik b) = Some i0 -> textOfChildren src' i0 = textOfChildren src i0).
      { intros i0 E. unfold infoOf in E. destruct (bik b) as [|j r]; [discriminate|]. destruct (ikind j =? InfoStringKind); [|discriminate].
        inversion E; subst j. cbn [forallb] in Hi. apply andb_true_iff in Hi. destruct Hi as [Hj _]. apply textOfChildren_app, (svI_parts src i0 Hj). }
      destruct (if bkind b =? FencedCodeBlockKind then infoOf (bik b) else None) as [i0|] eqn:Ei.
      - assert (E0 : infoOf (bik b) = Some i0) by (destruct (bkind b =? FencedCodeBlockKind); [exact Ei|discriminate]).
        rewrite (Ecls i0 E0). apply LFI_app; [apply LFI_refl|]. apply LFI_app; [apply LFI_refl|]. apply LFI_app; [apply LFI_refl|]. apply Hwrap.
      - apply LFI_app; [apply LFI_refl|]. apply LFI_app; [apply LFI_refl|]. apply LFI_app; [apply LFI_refl|]. apply Hwrap. }
    destruct (bkind b =? BlockQuoteKind); [apply Hwrap|].
    destruct (bkind b =? ListKind).
    { destruct (isOrdered b); [|apply Hwrap].
      replace (match map (finFullB L hb) (bkids b) with it :: _ => listItemNumber src' it | [] => -1 end)
        with (match bkids b with it :: _ => listItemNumber src it | [] => -1 end).
      - apply LFI_app; [apply LFI_refl|]. apply LFI_app; [apply LFI_refl|]. apply Hwrap.
      - destruct (bkids b) as [|it r]; [reflexivity|]. cbn [map]. symmetry. apply listItemNumber_fin.
        cbn [forallb] in Hk. apply andb_true_iff in Hk. tauto. }
    destruct (bkind b =? ListItemKind); [apply Hwrap|].
    destruct (bkind b =? HTMLBlockKind); [destruct (ignoreRaw c); [constructor|exact HK]|constructor].
  Qed.

  Lemma extractDefs_fin hb : forall f b acc, svB src b = true -> extractDefs f src' (finFullB L hb b) acc = extractDefs f src b acc.
  Proof.
    induction f as [|f IH]; intros b acc Hb; [reflexivity|]. rewrite finFullB_eq.
    destruct (bkind b =? ListMarkerKind); [apply extractDefs_app, Hb|].
    destruct (svB_parts src b Hb) as (_ & Hk & Hi). cbn [extractDefs]. cbn [bkind bik bkids].
    destruct (bkind b =? LinkReferenceDefinitionKind) eqn:Er.
    - apply Z.eqb_eq in Er. unfold finE. rewrite Er.
      change ((LinkReferenceDefinitionKind =? IndentedCodeBlockKind) || (LinkReferenceDefinitionKind =? FencedCodeBlockKind)) with false.
      change (LinkReferenceDefinitionKind =? HTMLBlockKind) with false. change (LinkReferenceDefinitionKind =? ParagraphKind) with false. cbv iota. cbn [andb].
      pose proof (extractDefs_app src [10] (S f) b acc Hb) as E. cbn [extractDefs] in E. rewrite Er in E.
      change (LinkReferenceDefinitionKind =? LinkReferenceDefinitionKind) with true in E. cbv iota in E. exact E.
    - revert acc. induction (bkids b) as [|k r IHr]; intros acc; [reflexivity|]. cbn [map fold_left].
      cbn [forallb] in Hk. apply andb_true_iff in Hk. destruct Hk as [Hk1 Hk2]. rewrite (IH k acc Hk1). apply IHr, Hk2.
  Qed.
End Bump.

(* ---- joinBlocks ---- *)
Lemma joinBlocks_LFI sb l l' : Forall2 (LFI sb) l l' -> LFI sb (joinBlocks l) (joinBlocks l').
Proof.
  induction 1 as [|x y l l' Hxy H IH]; [constructor|]. cbn [joinBlocks].
  destruct H as [|x2 y2 l l' Hxy2 H]; [exact Hxy|].
  apply LFI_app; [exact Hxy|]. apply LFI_app; [apply LFI_refl|exact IH].
Qed.
