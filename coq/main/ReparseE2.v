From Coq Require Import List ZArith Lia Bool.
Import ListNotations.
Require Import Base Tree Rdr Link Collect Html Recog LP Rules Starts Driver L2Kind L2Kind2 L2CC L2Bnd L2BndS TDefs TOcp TInv TDesc TShift Total
  GramDefs Rec17 StreamFuel SliceBase SliceReparse LADef LA1 LA11 LA13 ReparseLocal ReparseFirst ReparseEof ReparseInv ReparseOpen ReparseFrame ReparseSI ReparseLineB.
Open Scope Z_scope.

(* T50 continuation: closing by the following line = closing by the end of the input, for a root that is no list. *)

Lemma GoodL_hd_last lo L h rest : GoodL lo L -> Forall closedB L -> L = h :: rest -> rest <> [] -> forall x, In x rest -> bend h < bend x.
Proof.
  intros HG Hc -> Hne. cbn [GoodL] in HG. inversion Hc as [|? ? Hh Hr]; subst. rewrite Hh in HG. destruct HG as [_ HG].
  clear Hne Hc Hh. revert HG Hr. generalize (bend h) as b. induction rest as [|y r IH]; intros b HG Hr x Hx; [destruct Hx|].
  cbn [GoodL] in HG. inversion Hr as [|? ? Hy Hr']; subst. rewrite Hy in HG. destruct HG as [A B].
  destruct Hx as [<-|Hx]; [exact A|]. specialize (IH (bend y) B Hr' x Hx). lia.
Qed.

Lemma flagLast_cons2 a b l : flagLast (a :: b :: l) = a :: flagLast (b :: l).
Proof.
  unfold flagLast. cbn [rev]. destruct (rev l ++ [b]) as [|z r] eqn:E; [destruct (rev l); discriminate|].
  cbn [app]. rewrite rev_app_distr. reflexivity.
Qed.

Lemma upto_upto' (B : bytes) a b : 0 <= a <= b -> upto (upto B b) a = upto B a.
Proof. intros H. apply LA13.upto_upto. exact H. Qed.

Theorem E2_core B f T stp c bij rest st' rb : noNul B ->
  lastLine f 0 [] 0 B = Some (T, stp, [c]) -> 0 < lineEnd B 0 -> isBlankLine (upto B (lineEnd B 0)) = false ->
  bij = lineEnd B T -> processLine stp [c] T (upto B bij) = (rb :: rest, st', 0) -> isOpen rb = false -> bend rb = T -> 0 < T -> T < bij ->
  bkind c <> ListKind -> (bkind c = ParagraphKind -> bkind rb <> LinkReferenceDefinitionKind) -> spineEq (upto B bij) T c ->
  exists y, parseBlocks (upto B T) = ([{| rb_line := 1; rb_start := 0; rb_end := T; rb_src := upto B T; rb_blk := y |}], 0) /\
            set_blast y false = set_blast rb false.
Proof.
  intros HN HL Hpos Hnb Ebij Hpl Hcl Hbe HT0 HTb Hnl Hnr Hsp.
  pose proof (lastLine_inv f 0 [] 0 B T stp [c] (LInv_init B Hpos Hnb) HL) as HI.
  pose proof (lastLine_la f 0 [] 0 B T stp [c] HN (LInv_init B Hpos Hnb) (LaInv_init B) HL) as HLa.
  destruct HI as (Hls & (ns & Hbn & Hn) & Hcc & Hgb & HG & HK & Hst & Hemp & Hz & Hopn).
  pose proof (Hopn c eq_refl) as Hop.
  set (src := upto B bij) in *.
  assert (Hbb : T <= bij <= len B) by (rewrite Ebij; apply (lineEnd_spec B T Hls)).
  assert (Hlsrc : len src = bij) by (apply len_upto; lia).
  assert (Hln : from_ src T <> []).
  { intros E0. pose proof (Rec17.len_from src T ltac:(lia)) as X. rewrite E0 in X. cbn in X. lia. }
  (* the closing of c at T *)
  set (L := ReparseLineB.L src T c).
  assert (HU : UB T false [c]) by (apply (UB_of_bnd T ns [c]); [lia|exact Hbn]).
  assert (HOUT : OUT 0 T T L).
  { unfold L, ReparseLineB.L. destruct (bheight_S (root0 [c])) as [h ->].
    apply closeBlock_OUT; [exact Hop| |lia|lia|lia|].
    - cbn [GoodL] in HG. rewrite Hop in HG. apply HG.
    - intros Ek. change [c] with ([] ++ [c]) in HU. apply UB_snoc in HU. destruct HU as [_ [_ HU]]. apply HU; assumption. }
  destruct HOUT as (Lcl & LG & HOUT3).
  assert (Hmatch : stp = stDescendTerminated -> hasMatch (bkind c) = true).
  { intros E0. destruct (Hst E0) as (pre & c0 & Ec & _ & Hh). destruct pre as [|? pre]; [|destruct pre; discriminate]. inversion Ec; subst. exact Hh. }
  (* the line acts as on the closed children *)
  assert (HB : processLine stp [c] T src = processLine 0 L T src).
  { apply (lineB_nolist src T c Hop Hcc Hgb ltac:(lia) Hln Lcl stp Hnl Hmatch).
    - intros Ek h rest0 Eh. rewrite Hpl in Eh. cbn [fst] in Eh. inversion Eh; subst. apply Hnr, Ek.
    - rewrite Hpl. exists rb, rest. repeat split; assumption. }
  destruct (frame_line L T src Lcl Hln) as (L' & HL' & HF).
  rewrite HB, HF in Hpl. inversion Hpl as [[Ek Es Ep]]. clear Hpl.
  (* L is a single block *)
  assert (Lne : L <> []) by apply StreamFuel.closeBlock_nonempty.
  assert (Hsingle : exists y, L = [y] /\ set_blast y false = set_blast rb false).
  { destruct L as [|y0 Lr] eqn:EL; [contradiction|]. destruct Lr as [|y1 Lr'].
    - exists y0. split; [reflexivity|]. destruct HL' as [-> | ->].
      + cbn [app] in Ek. inversion Ek. reflexivity.
      + unfold flagLast in Ek. cbn [rev app] in Ek. inversion Ek. destruct y0; reflexivity.
    - exfalso.
      assert (Ehd : rb = y0).
      { destruct HL' as [-> | ->]; [cbn [app] in Ek; inversion Ek; reflexivity|].
        rewrite (flagLast_cons2 y0 y1 Lr') in Ek. cbn [app] in Ek. inversion Ek. reflexivity. }
      pose proof (GoodL_hd_last 0 (y0 :: y1 :: Lr') y0 (y1 :: Lr') LG Lcl eq_refl ltac:(discriminate)) as Hlt.
      destruct HOUT3 as (pre1 & x1 & Ex & Hpre & Hx).
      assert (Hx1 : In x1 (y1 :: Lr')).
      { destruct pre1 as [|p1 pre1]; [inversion Ex|]. cbn [app] in Ex. inversion Ex as [[E0 E1]]. rewrite E1. apply in_or_app. right. left. reflexivity. }
      specialize (Hlt x1 Hx1). rewrite <- Ehd, Hbe in Hlt. destruct Hx as [Hx|Hx]; lia. }
  destruct Hsingle as (y & EL & Ey).
  (* end of input gives the same list *)
  assert (Hla : la src T c).
  { unfold LaInv in HLa. rewrite <- Ebij in HLa. fold src in HLa. apply la_eq in HLa. destruct HLa as (_ & _ & _ & _ & Hk). cbn [bkids docRoot allQ] in Hk. apply Hk. }
  assert (HSI : closeBlock (bheight (root0 [c])) (upto src T) c T = L).
  { unfold L, ReparseLineB.L. apply closeBlock_SI; [exact Hla| |exact Hsp].
    unfold ccF in Hcc. apply andb_true_iff in Hcc. destruct Hcc as [_ H]. unfold ccL in H. cbn [forallb] in H. apply andb_true_iff in H. tauto. }
  unfold src in HSI at 1. rewrite (upto_upto' B T bij ltac:(lia)) in HSI.
  assert (Heof : eofK stp [c] T (upto B T) = [y]).
  { rewrite eofK_form.
    - cbn [rev app removelast]. rewrite <- EL, <- HSI. apply closeBlock_fuel2.
      + change (bheight (root0 [c])) with (Datatypes.S (Nat.max (bheight c) 0)). cbn [Nat.pred]. lia.
      + change (bheight (root0 [c])) with (Datatypes.S (Nat.max (bheight c) 0)). lia.
    - unfold eofSt, descState. change (lastBlock (root0 [c])) with (Some c). cbv iota. rewrite Hop. cbn [andb].
      destruct (hasMatch (bkind c)) eqn:Eh; [reflexivity|]. apply Z.eqb_neq. intros E0. discriminate (Hmatch E0). }
  assert (Hy : isOpen y = false /\ bend y = T).
  { rewrite EL in Lcl. inversion Lcl as [|? ? Hyc _]; subst. split; [exact Hyc|].
    assert (E5 : bend (set_blast y false) = bend (set_blast rb false)) by (rewrite Ey; reflexivity).
    destruct y; destruct rb; cbn in *. lia. }
  rewrite ?Ep. exists y. split; [|exact Ey].
  destruct (lastLine_first f 0 [] 0 B T stp [c] ltac:(pose proof (len_nonneg B); lia) HL) as [X|X]; [lia|].
  apply (reparse_cut_at_line_start B f T stp [c] y HN HL Hpos X Hnb Heof (proj1 Hy) (proj2 Hy)).
Qed.
Print Assumptions E2_core.

(* ---- at the level of one call of nextBlock that starts a fresh line loop (no pending children) ---- *)
Require Import ReparseRun BlankPrefix.

Theorem C16_E2_call_partial s r s' : noNul (buf s) -> pending s = [] ->
  nextBlock (3 + length (buf s)) s = NBBlock r s' ->
  exists B T stp chp bij rest st',
    suffixOf B (buf s) /\ processLine stp chp T (upto B bij) = (rb_blk r :: rest, st', 0) /\ bij = lineEnd B T /\
    rb_src r = upto B (bend (rb_blk r)) /\
    (bend (rb_blk r) = T -> 0 < T -> T < bij ->
     forall c, chp = [c] -> bkind c <> ListKind -> (bkind c = ParagraphKind -> bkind (rb_blk r) <> LinkReferenceDefinitionKind) ->
       spineEq (upto B bij) T c ->
       exists r', parseBlocks (rb_src r) = ([r'], 0) /\ aloneOf r' = aloneOf r).
Proof.
  intros HN Hp En. unfold nextBlock in En. rewrite Hp in En. cbn [makeRoot] in En.
  match type of En with skipLoop ?F ?S1 = _ => destruct (skipLoop_cut F S1 r s' eq_refl En) as (B & f' & bo & bl & (k & EB) & H1 & H2 & H3) end.
  cbn [buf pending] in *.
  assert (HNB : noNul B) by (rewrite EB; apply noNul_from, noNul_from, HN).
  set (sB := {| buf := B; bi := lineEnd B 0; boff := bo; bline := bl; pending := [] |}) in *.
  apply (lineLoop_cutOf f' 0 [] 0 sB r s' eq_refl) in H3. destruct H3 as (b & rest & bij & st' & Hcut & Er).
  destruct (lastLine_cutOf _ _ _ _ _ _ _ _ _ Hcut) as (T & stp & chp & HL & Ebij & Hpl).
  unfold rootAt in Er. cbn [buf boff bline sB] in Er. inversion Er as [[E1 E2]].
  exists B, T, stp, chp, bij, rest, st'. cbn [rb_blk rb_src].
  assert (Esrc : fillNulls (upto B (bend b)) = upto B (bend b)) by (apply fillNulls_noNul, noNul_upto, HNB).
  split; [rewrite EB; apply suffix_from; eexists; reflexivity|]. split; [exact Hpl|]. split; [exact Ebij|]. split; [exact Esrc|].
  intros HbT HT0 HTb c Ec Hnl Hnr Hsp. subst chp. rewrite Esrc, HbT.
  pose proof (cutOf_bounds f' 0 [] 0 B b rest bij st' ltac:(pose proof (len_nonneg B); lia) Hcut) as [_ Hclb].
  destruct (E2_core B f' T stp c bij rest st' b HNB HL H1 H2 Ebij Hpl Hclb HbT HT0 HTb Hnl Hnr Hsp) as (y & Hy1 & Hy2).
  eexists. split; [exact Hy1|]. unfold aloneOf. cbn [rb_src rb_blk]. rewrite Hy2.
  rewrite (len_upto B T); [reflexivity|]. pose proof (lastLine_bounds f' 0 [] 0 B T stp [c] ltac:(pose proof (len_nonneg B); lia) HL). lia.
Qed.
Print Assumptions C16_E2_call_partial.
