From Coq Require Import List ZArith Lia Bool String Ascii.
Import ListNotations.
Require Import Base Tree LP Driver BSDef BSTest EolCRLFSimLeDefs EolCRLFSimStream.
Open Scope Z_scope.

Definition bndb (M e : Z) : Z := if 0 <=? e then e else M.
Fixpoint ctb (M : Z) (b : block) : bool :=
  match b with Blk _ s e bk ik _ _ _ _ _ =>
    (e <=? M) && (s <=? bndb M e) && forallb (leI (bndb M e)) ik && forallb (geI s) ik && forallb (ctb (bndb M e)) bk end.

(* run processLine over all lines with one buffer, never cutting: check ct at each line end *)
Fixpoint runLines (fuel : nat) (st : Z) (ch : list block) (ls : Z) (buf : bytes) (acc : list bool) : list bool :=
  match fuel with O => acc | S f =>
    let e := lineEnd buf ls in
    let '(ch', st', pn) := processLine st ch ls (upto buf e) in
    let ok := forallb (ctb e) ch' in
    if e <=? ls then acc ++ [ok] else runLines f st' ch' e buf (acc ++ [ok])
  end.
Definition rl (input : bytes) := runLines (S (List.length input)) 0 [] 0 (pad input) [].
Definition chkU (input : bytes) : bool :=
  forallb (fun r => leB (bend (rb_blk r)) (rb_blk r)) (fst (parseBlocks input)).
Open Scope string_scope.
Definition u1 := bs ("- a" ++ nl ++ "- b" ++ nl ++ nl ++ "  c" ++ nl ++ "1. x" ++ nl ++ "   - y" ++ nl).
Definition u2 := bs ("> a" ++ nl ++ "> > b" ++ nl ++ "c" ++ nl ++ nl ++ "> d" ++ nl).
Definition u3 := bs ("```go &amp; \! x" ++ nl ++ "x" ++ nl ++ nl ++ "y").
Definition u4 := bs ("Head" ++ nl ++ "====" ++ nl ++ "h2" ++ nl ++ "---" ++ nl ++ "- a" ++ nl ++ "  b" ++ nl ++ "  ===" ++ nl ++ "para" ++ nl ++ "    lazy" ++ nl).
Definition u5 := bs ("- a" ++ nl ++ "  - b" ++ nl ++ "    - c" ++ nl ++ "text" ++ nl ++ "* x" ++ nl ++ "> - q" ++ nl ++ "1) z" ++ nl ++ "2) w" ++ nl).
Definition u6 := bs ("- ```" ++ nl ++ "  code" ++ nl ++ "out" ++ nl ++ "    ind" ++ nl ++ nl ++ "    ind2" ++ nl ++ "<div>" ++ nl ++ "x" ++ nl ++ nl ++ "<!-- c -->" ++ nl ++ "# h" ++ nl).
Definition us := [u1;u2;u3;u4;u5;u6;t5;t6;t8;t10;t13].
Eval vm_compute in map rl us.
Eval vm_compute in map chkU us.
(* with '[' for information *)
Eval vm_compute in map rl [t3;t4;t9;t17].
Eval vm_compute in map chkU [t3;t4;t9;t17].
