(* IRender3.v -- T71 (renderer, list item): the document level.  The item document is one list > one item > marker :: mapped roots of D;
   the marker renders to nothing, the roots are rendered below the item (parentTight = negb loose), the number of an ordered list is the
   number of the marker. *)
From Coq Require Import List ZArith Lia Bool.
Import ListNotations.
Require Import Base Tables Utf8 Tree Recog Rec16 Inl3b LP Driver Inl3e Render RenderWalkProof QuoteSimDefs QCutsDef QInlDefs ItemSimDefs ItemSimMain IFullDefs
  QRender1 QRenderDefs QRender4 QRender IRender2 IRender1.
Open Scope Z_scope.

Lemma bheight_gmpB D sg o : forall n b, (bheight b <= n)%nat -> bheight (IRender2.mpB D sg o b) = bheight b.
Proof.
  induction n as [|n IH]; intros b Hb; [destruct b; cbn [bheight] in Hb; lia|].
  destruct b as [k s e bk ik a nn ch l lb]. rewrite IRender2.mpB_eq. cbn [bheight]. f_equal.
  assert (Hk : forall x, In x bk -> (bheight x <= n)%nat).
  { intros x Hx. pose proof (bheight_kid (Blk k s e bk ik a nn ch l lb) x Hx). lia. }
  clear Hb. induction bk as [|x bk IHbk]; [reflexivity|]. cbn [map fold_right].
  rewrite (IH x (Hk x (or_introl eq_refl))), IHbk; [reflexivity|]. intros y Hy. apply Hk. right. exact Hy.
Qed.

(* ---- the marker ---- *)
Lemma value_nn : forall ds n0, Forall (fun c => 48 <= c <= 57) ds -> 0 <= n0 -> 0 <= value ds n0.
Proof.
  induction ds as [|c r IH]; intros n0 H Hn; [exact Hn|]. inversion H as [|? ? Hc Hr]; subst. unfold value in *. cbn [fold_left]. apply IH; [exact Hr|lia].
Qed.
Lemma mkNumber_ordered ds delim : mkNumber (ds ++ [delim]) = value ds 0.
Proof. unfold mkNumber, value. rewrite removelast_last. reflexivity. Qed.
Lemma marker_ordered mk delim : orderedMk mk delim -> parseListMarker mk = (delim, mkNumber mk, len mk) /\ 0 <= mkNumber mk /\ ((delim =? 46) || (delim =? 41)) = true.
Proof.
  intros (ds & -> & Hne & Hlen & Hd & Hdl). rewrite mkNumber_ordered. split; [|split].
  - replace (len (ds ++ [delim])) with (len ds + 1) by (unfold len; rewrite app_length; cbn [length]; lia).
    apply parseListMarker_complete. apply LM_ordered.
    + destruct ds; [contradiction|cbn [length] in *; lia].
    + apply forallb_forall. intros c Hc. rewrite Forall_forall in Hd. specialize (Hd c Hc). unfold isASCIIDigit. apply andb_true_iff. split; apply Z.leb_le; lia.
    + exact Hdl.
    + reflexivity.
  - apply value_nn; [exact Hd|lia].
  - destruct Hdl as [-> | ->]; reflexivity.
Qed.
Lemma marker_bullet mk delim : bulletMk mk delim -> ((delim =? 46) || (delim =? 41)) = false.
Proof. intros [_ [->|[->| ->]]]; reflexivity. Qed.

Lemma sub_prefix_app (a b : bytes) : sub (a ++ b) 0 (len a) = a.
Proof. unfold sub, from_, upto. cbn [Z.to_nat skipn]. rewrite Z.sub_0_r. unfold len. rewrite Nat2Z.id, firstn_app, Nat.sub_diag, firstn_all. cbn. apply app_nil_r. Qed.

Section Doc.
  Variables (mk : bytes) (N K delim : Z) (D : bytes) (c : cfg).
  Hypothesis c_safe : ignoreRaw c = true.
  Hypothesis K_eq : K = len mk + N.
  Hypothesis N_pos : 1 <= N.
  Hypothesis D_first : exists c0 r, D = c0 :: r /\ c0 <> 10.
  Notation Q := (item mk N D).
  Notation sg := (sigmaK K D).

  Definition kidI (r : rootB) : block := iB3 K D (shiftB (rb_start r) (rb_blk r)).
  Lemma kidI_eq r : kidI r = IRender2.mpB D sg (rb_start r) (rb_blk r).
  Proof. unfold kidI, IRender2.mpB. apply (iB3_gB3 K D (bheight (shiftB (rb_start r) (rb_blk r)))), le_n. Qed.
  Lemma bheight_kidI r : bheight (kidI r) = bheight (rb_blk r).
  Proof. rewrite kidI_eq. apply (bheight_gmpB D sg (rb_start r) (bheight (rb_blk r))), le_n. Qed.

  Lemma kidI_render refs H t r : rootF D r -> okB (rb_src r) (rb_blk r) = true -> (bheight (rb_blk r) <= H)%nat ->
    renderB H c refs Q t (kidI r) = renderB (bheight (rb_blk r)) c refs (rb_src r) t (rb_blk r).
  Proof.
    intros [Ho Hs] Hok Hh. rewrite kidI_eq.
    apply (IRender2.renderB_mp D Q sg (sub_sgK mk N K D K_eq N_pos D_first) (sgK_line K D) (rb_src r) (rb_start r) Ho Hs c refs c_safe); [exact Hok|apply le_n|exact Hh].
  Qed.
  Lemma kidI_defs H r acc : rootF D r -> okB (rb_src r) (rb_blk r) = true -> (bheight (rb_blk r) <= H)%nat ->
    extractDefs H Q (kidI r) acc = extractDefs (bheight (rb_blk r)) (rb_src r) (rb_blk r) acc.
  Proof.
    intros [Ho Hs] Hok Hh. rewrite kidI_eq.
    apply (IRender2.extractDefs_mp D Q sg (sub_sgK mk N K D K_eq N_pos D_first) (sgK_line K D) (rb_src r) (rb_start r) Ho Hs); [exact Hok|apply le_n|exact Hh].
  Qed.

  Lemma kidsI_render refs H t : forall roots, Forall (rootF D) roots -> forallb (fun r => okB (rb_src r) (rb_blk r)) roots = true ->
    (forall r, In r roots -> (bheight (rb_blk r) <= H)%nat) ->
    flat_map (renderB H c refs Q t) (map kidI roots) =
    concat (map (fun r => renderB (bheight (rb_blk r)) c refs (rb_src r) t (rb_blk r)) roots).
  Proof.
    induction roots as [|r rest IH]; intros HF Hok Hh; [reflexivity|].
    inversion HF as [|? ? Fr Frest]; subst. cbn [forallb] in Hok. apply andb_true_iff in Hok. destruct Hok as [Or Orest].
    cbn [flat_map map concat]. rewrite (kidI_render refs H t r Fr Or (Hh r (or_introl eq_refl))). f_equal.
    apply IH; [exact Frest|exact Orest|]. intros x Hx. apply Hh. right. exact Hx.
  Qed.
  Lemma kidsI_defs H : forall roots acc, Forall (rootF D) roots -> forallb (fun r => okB (rb_src r) (rb_blk r)) roots = true ->
    (forall r, In r roots -> (bheight (rb_blk r) <= H)%nat) ->
    fold_left (fun a ch => extractDefs H Q ch a) (map kidI roots) acc =
    fold_left (fun a r => extractDefs (bheight (rb_blk r)) (rb_src r) (rb_blk r) a) roots acc.
  Proof.
    induction roots as [|r rest IH]; intros acc HF Hok Hh; [reflexivity|].
    inversion HF as [|? ? Fr Frest]; subst. cbn [forallb] in Hok. apply andb_true_iff in Hok. destruct Hok as [Or Orest].
    cbn [map fold_left]. rewrite (kidI_defs H r acc Fr Or (Hh r (or_introl eq_refl))).
    apply IH; [exact Frest|exact Orest|]. intros x Hx. apply Hh. right. exact Hx.
  Qed.
End Doc.
