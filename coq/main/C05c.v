From Coq Require Import List ZArith Lia Bool.
Import ListNotations.
Require Import Base Tables Utf8 Tree Rdr Link Collect Html Recog Inl3a Inl3b Inl3c Inl3d Inl3e LP Rules Starts Driver Render Props
  L2Kind L2CC GramDefs GramTree GramLP GramLP2 GramLP3 GramLP4 GramBlocks.
Require L2Kind2 GIB ExInv1 ExDrv En2Tree EntBase BSTree.
Require Import C05a C05b.
Open Scope Z_scope.

(* ================================================================== *)
(* C05c: the invariant np for every root block of parseBlocks and of   *)
(* parseFull; the entries of the blocks that are not paragraphs or     *)
(* headings satisfy Props.gramI false and the kind pattern of gramB.   *)
(* ================================================================== *)

(* ---- the stream layer ---- *)
Definition nF (l : list block) : Prop := gF l /\ npD l = true.
Definition rootN (b : block) : Prop := np b = true /\ k12 (bkind b) = true /\ isMk b = false.

Lemma nF_nil : nF []. Proof. split; [apply gF_nil|reflexivity]. Qed.
Lemma nF_processLine st children ls src : nF children -> nF (fst (fst (processLine st children ls src))).
Proof. intros [[A B] C]. split; [apply gF_processLine; split; assumption|apply np_processLine; assumption]. Qed.
Lemma npD_shift n l : npD (map (shiftB n) l) = npD l.
Proof.
  unfold npD, npL. rewrite !forallb_map.
  replace (forallb (fun x => k12 (bkind (shiftB n x))) l) with (forallb (fun c => k12 (bkind c)) l)
    by (apply forallb_ext_in; intros x _; destruct x; reflexivity).
  replace (forallb (fun x => negb (isMk (shiftB n x))) l) with (forallb (fun c => negb (isMk c)) l)
    by (apply forallb_ext_in; intros x _; destruct x; reflexivity).
  replace (forallb (fun x => np (shiftB n x)) l) with (forallb np l) by (apply forallb_ext_in; intros x _; rewrite np_shiftB; reflexivity).
  reflexivity.
Qed.
Lemma nF_makeRoot children s r s' : nF children -> makeRoot children s = Some (r, s') -> rootN (rb_blk r) /\ nF (pending s').
Proof.
  intros [HG HN] Hm. destruct (gF_makeRoot children s r s' HG Hm) as [_ HG'].
  unfold makeRoot in Hm. destruct children as [|b rest]; [discriminate|].
  destruct (isOpen b); [discriminate|]. inversion Hm; subst. cbn [rb_blk pending] in *.
  unfold npD, npL in HN. cbn [forallb] in HN.
  apply andb_true_iff in HN. destruct HN as [HN H3]. apply andb_true_iff in HN. destruct HN as [H1 H2].
  apply andb_true_iff in H1, H2, H3. destruct H1 as [K1 K2]. destruct H2 as [M1 M2]. destruct H3 as [N1 N2].
  split; [split; [exact N1|split; [exact K1|apply negb_true_iff, M1]]|].
  split; [exact HG'|]. rewrite npD_shift. unfold npD, npL. rewrite K2, M2, N2. reflexivity.
Qed.
Definition nb_okn (x : nb) : Prop :=
  match x with NBBlock r s' => rootN (rb_blk r) /\ nF (pending s') | _ => True end.
Lemma nF_lineLoop : forall fuel st children ls s, nF children -> nF (pending s) -> nb_okn (lineLoop fuel st children ls s).
Proof.
  induction fuel as [|f IH]; intros st children ls s Hc Hp; [exact I|]. cbn [lineLoop].
  pose proof (nF_processLine st children ls (upto (buf s) (bi s)) Hc) as H1.
  destruct (processLine st children ls (upto (buf s) (bi s))) as [[children' st'] pn]. cbn [fst] in H1.
  destruct (negb (pn =? 0)); [exact I|].
  destruct (makeRoot children' s) as [[r s']|] eqn:Em.
  - cbn [nb_okn]. eapply nF_makeRoot; eassumption.
  - apply IH; assumption.
Qed.
Lemma nF_skipLoop : forall fuel s, nF (pending s) -> nb_okn (skipLoop fuel s).
Proof.
  induction fuel as [|f IH]; intros s Hp; [exact I|]. cbn [skipLoop]. cbv zeta.
  destruct (negb _); [exact I|]. destruct (isBlankLine _); [apply IH; assumption|].
  apply nF_lineLoop; [apply nF_nil|assumption].
Qed.
Lemma nF_nextBlock fuel s : nF (pending s) -> nb_okn (nextBlock fuel s).
Proof.
  intros Hp. unfold nextBlock. destruct (makeRoot (pending s) s) as [[r s']|] eqn:Em.
  - cbn [nb_okn]. eapply nF_makeRoot; eassumption.
  - destruct (pending s) eqn:Ep; [apply nF_skipLoop; apply nF_nil|].
    rewrite <- Ep in Hp |- *. apply nF_lineLoop; [exact Hp|cbn [pending]; exact Hp].
Qed.
Lemma nF_allBlocks : forall fuel s acc, nF (pending s) -> Forall (fun r => rootN (rb_blk r)) acc ->
  Forall (fun r => rootN (rb_blk r)) (fst (allBlocks fuel s acc)).
Proof.
  induction fuel as [|f IH]; intros s acc Hp Ha; [exact Ha|]. cbn [allBlocks].
  pose proof (nF_nextBlock (3 + length (buf s)) s Hp) as Hn.
  destruct (nextBlock _ s) as [r s'| | |]; try exact Ha.
  destruct Hn as [Hr Hp']. apply IH; [assumption|]. apply Forall_app. split; [assumption|]. constructor; [assumption|constructor].
Qed.

(* every block child has one of the twelve block kinds, a list has a child, list markers only sit in list items, the entries
   of code blocks are Text / Indent / SoftLineBreak after an optional first InfoString: every root block, every input *)
Theorem parseBlocks_np input : Forall (fun r => rootN (rb_blk r)) (fst (parseBlocks input)).
Proof. unfold parseBlocks. apply nF_allBlocks; [apply nF_nil|constructor]. Qed.
Print Assumptions parseBlocks_np.

(* ---- the inline pass ---- *)
Lemma unparsed_noncode K ik : forallb (L2Kind2.ek K) ik = true -> existsb (fun i => ikind i =? UnparsedKind) ik = true -> isCode K = false.
Proof.
  intros H Hu. apply existsb_exists in Hu. destruct Hu as (u & Hin & Hk). rewrite forallb_forall in H. specialize (H u Hin).
  unfold L2Kind2.ek in H. cbv zeta in H. rewrite Hk in H. apply andb_true_iff in H. destruct H as [H _]. apply andb_true_iff in H. destruct H as [_ H].
  apply negb_true_iff in H. exact H.
Qed.
Lemma np_rewriteB src m : forall fuel b, L2Kind2.inv b = true -> np b = true -> np (rewriteB fuel src m b) = true.
Proof.
  induction fuel as [|f IH]; intros b Hi H; [exact H|]. cbn [rewriteB].
  apply L2Kind2.inv_parts in Hi. destruct Hi as [He Hik].
  destruct ((0 <? len (bik b)) && hasUnparsed b) eqn:Ec.
  - apply andb_true_iff in Ec. destruct Ec as [_ Eu]. apply np_set_bik; [exact H|]. apply ikK_noncode. eapply unparsed_noncode; eassumption.
  - destruct (np_parts b H) as (A & B & C). apply np_set_bkids; [exact H| |].
    + rewrite kidsK_map; [exact A|intros x; apply bkind_rewriteB'].
    + unfold npL, L2Kind2.invL in *. rewrite forallb_map. rewrite forallb_forall in *. intros x Hx. apply IH; [apply Hik, Hx|apply C, Hx].
Qed.

(* ---- entries of the blocks that the inline pass leaves alone ---- *)
Definition isPH (K : Z) : bool := (K =? ParagraphKind) || isHeading K.
Definition htmlK (u : inline) : bool := (ikind u =? RawHTMLKind) || (ikind u =? SoftLineBreakKind) || (ikind u =? IndentKind) || (ikind u =? TextKind).
Definition entLoc (K : Z) (ik : list inline) : bool :=
  forallb (gramI false) ik && (if isCode K then codeIk K ik else true) && (if K =? HTMLBlockKind then forallb htmlK ik else true).
Fixpoint entB (b : block) : bool :=
  match b with Blk K _ _ bk ik _ _ _ _ _ => (if isPH K then true else entLoc K ik) && forallb entB bk end.
Lemma entB_eq b : entB b = (if isPH (bkind b) then true else entLoc (bkind b) (bik b)) && forallb entB (bkids b).
Proof. destruct b; reflexivity. Qed.

(* one entry: kinds as in L2Kind2.ek, children as in ExInv1.eE, not Unparsed *)
Lemma entry_gramI B K u : L2Kind2.ek K u = true -> ExInv1.eE B u = true -> (ikind u =? UnparsedKind) = false -> gramI false u = true.
Proof.
  intros Hek HE Hu. destruct u as [k s e ind rf ks]. unfold L2Kind2.ek, ExInv1.eE, ExInv1.isExK in *. cbn [ikind ikids] in *. cbv zeta in Hek.
  rewrite Hu in Hek. cbn [gramI]. rewrite Hu. cbn [negb andb].
  assert (Hnil : nilb ks = true -> (len ks =? 0) = true) by (destruct ks; [reflexivity|discriminate]).
  destruct ((k =? TextKind) || (k =? SoftLineBreakKind)) eqn:E1.
  { assert (Hx : (k =? InfoStringKind) || (k =? LinkLabelKind) || (k =? LinkDestinationKind) || (k =? LinkTitleKind) = false).
    { apply orb_true_iff in E1. destruct E1 as [E|E]; apply Z.eqb_eq in E; subst k; reflexivity. }
    rewrite Hx in HE. apply orb_true_iff in E1. destruct E1 as [E|E]; apply Z.eqb_eq in E; subst k; cbn; apply Hnil, HE. }
  destruct ((k =? RawHTMLKind) || (k =? IndentKind)) eqn:E2.
  { assert (Hx : (k =? InfoStringKind) || (k =? LinkLabelKind) || (k =? LinkDestinationKind) || (k =? LinkTitleKind) = false).
    { apply orb_true_iff in E2. destruct E2 as [E|E]; apply Z.eqb_eq in E; subst k; reflexivity. }
    rewrite Hx in HE. apply orb_true_iff in E2. destruct E2 as [E|E]; apply Z.eqb_eq in E; subst k; cbn; apply Hnil, HE. }
  assert (Hkids : forallb (ExInv1.kidOK B) ks = true ->
            forallb (fun c => ((ikind c =? TextKind) || (ikind c =? CharacterReferenceKind) || (ikind c =? SoftLineBreakKind) || (ikind c =? IndentKind) ||
                               (ikind c =? RawHTMLKind)) && (len (ikids c) =? 0)) ks = true).
  { intros H. apply forallb_forall. intros c Hc. rewrite forallb_forall in H. specialize (H c Hc). unfold ExInv1.kidOK, ExInv1.kkind in H.
    apply andb_true_iff in H. destruct H as [H _]. apply andb_true_iff in H. destruct H as [H1 H2].
    apply andb_true_iff. split; [|destruct (ikids c); [reflexivity|discriminate]].
    apply orb_true_iff in H2. destruct H2 as [H2|H2]; [apply orb_true_iff in H2; destruct H2 as [H2|H2]|]; rewrite H2; rewrite ?orb_true_r; reflexivity. }
  destruct (Z.eqb_spec k InfoStringKind) as [E3|N3]; [subst k; cbn in *; apply Hkids, HE|].
  apply andb_true_iff in Hek. destruct Hek as [Hek _].
  apply orb_true_iff in Hek. destruct Hek as [Hek|Hek]; [apply orb_true_iff in Hek; destruct Hek as [Hek|Hek]|]; apply Z.eqb_eq in Hek; subst k; cbn in *; apply Hkids, HE.
Qed.

Section Pre.
  Variables (B : bytes) (M : Z).

  (* the facts about the tree before the inline pass *)
  Definition PRE (b : block) : Prop :=
    L2Kind2.inv b = true /\ ExInv1.inv B b = true /\ GIB.ce b = true /\ np b = true /\ gb b = true /\ En2Tree.en B M b.
  Lemma PRE_kids b c : PRE b -> In c (bkids b) -> PRE c.
  Proof.
    intros (A1 & A2 & A3 & A4 & A5 & A6) Hc.
    apply L2Kind2.inv_parts in A1. apply ExInv1.inv_parts in A2. apply GIB.ce_parts in A3. apply np_parts in A4. apply gb_parts in A5.
    rewrite En2Tree.en_eq in A6.
    destruct A1 as [_ A1]. destruct A2 as [_ A2]. destruct A3 as [_ A3]. destruct A4 as (_ & _ & A4). destruct A5 as [_ A5]. destruct A6 as [_ A6].
    unfold L2Kind2.invL, ExInv1.invL, GIB.ceL, npL, gbL in *. rewrite forallb_forall in *.
    repeat split; [apply A1|apply A2|apply A3|apply A4|apply A5|eapply BSTree.allP_In; eassumption]; exact Hc.
  Qed.

  Lemma PRE_noU b : PRE b -> isPH (bkind b) = false -> existsb (fun i => ikind i =? UnparsedKind) (bik b) = false.
  Proof.
    intros (A1 & A2 & A3 & A4 & A5 & A6) Hph.
    destruct (existsb (fun i => ikind i =? UnparsedKind) (bik b)) eqn:Eu; [|reflexivity]. exfalso.
    apply existsb_exists in Eu. destruct Eu as (u & Hin & Hk). apply Z.eqb_eq in Hk.
    apply L2Kind2.inv_parts in A1. destruct A1 as [A1 _]. rewrite forallb_forall in A1. pose proof (A1 u Hin) as Hek.
    unfold L2Kind2.ek in Hek. cbv zeta in Hek. rewrite Hk in Hek. change (UnparsedKind =? UnparsedKind) with true in Hek. cbv iota in Hek.
    apply andb_true_iff in Hek. destruct Hek as [Hek N2]. apply andb_true_iff in Hek. destruct Hek as [_ N1].
    apply negb_true_iff in N1, N2. apply Z.eqb_neq in N2.
    unfold isPH, isHeading in Hph. apply orb_false_iff in Hph. destruct Hph as [P1 P2]. apply orb_false_iff in P2. destruct P2 as [P2 P3].
    apply Z.eqb_neq in P1, P2, P3.
    rewrite En2Tree.en_eq in A6. destruct A6 as [(_ & _ & _ & _ & A6) _].
    apply (A6 ltac:(repeat split; assumption) N2 u Hin Hk).
  Qed.

  Lemma entB_pre : forall b, PRE b -> entB b = true.
  Proof.
    fix IH 1. intros b HP. rewrite entB_eq. apply andb_true_iff. split.
    - destruct (isPH (bkind b)) eqn:Hph; [reflexivity|].
      pose proof (PRE_noU b HP Hph) as HnU. destruct HP as (A1 & A2 & A3 & A4 & A5 & A6).
      apply L2Kind2.inv_parts in A1. destruct A1 as [A1 _]. apply ExInv1.inv_parts in A2. destruct A2 as [A2 _]. destruct (np_parts b A4) as (_ & A4' & _).
      rewrite forallb_forall in A1, A2.
      assert (HnU' : forall u, In u (bik b) -> (ikind u =? UnparsedKind) = false).
      { intros u Hu. destruct (ikind u =? UnparsedKind) eqn:E; [|reflexivity]. exfalso.
        assert (X : existsb (fun i => ikind i =? UnparsedKind) (bik b) = true) by (apply existsb_exists; exists u; split; assumption). congruence. }
      unfold entLoc. apply andb_true_iff. split; [apply andb_true_iff; split|].
      + apply forallb_forall. intros u Hu. apply (entry_gramI B (bkind b) u); [apply A1, Hu|apply A2, Hu|apply HnU', Hu].
      + unfold ikK in A4'. destruct (isCode (bkind b)); [exact A4'|reflexivity].
      + destruct (Z.eqb_spec (bkind b) HTMLBlockKind) as [Eh|Nh]; [|reflexivity].
        apply forallb_forall. intros u Hu. pose proof (A1 u Hu) as Hek. unfold L2Kind2.ek in Hek. cbv zeta in Hek. rewrite (HnU' u Hu), Eh in Hek.
        change (isCode HTMLBlockKind) with false in Hek. change (HTMLBlockKind =? FencedCodeBlockKind) with false in Hek.
        change (HTMLBlockKind =? LinkReferenceDefinitionKind) with false in Hek. rewrite !andb_false_r in Hek.
        unfold htmlK. destruct ((ikind u =? TextKind) || (ikind u =? SoftLineBreakKind)); [discriminate|].
        destruct ((ikind u =? RawHTMLKind) || (ikind u =? IndentKind)) eqn:E2; [|destruct (ikind u =? InfoStringKind); discriminate].
        apply orb_true_iff in E2. destruct E2 as [E|E]; rewrite E; rewrite ?orb_true_r; reflexivity.
    - assert (Hk : forall c, In c (bkids b) -> PRE c) by (intros c Hc; eapply PRE_kids; eassumption).
      destruct b as [K s e bk ik a n ch l lb]. cbn [bkids] in *. clear HP.
      induction bk as [|x r IHr]; [reflexivity|]. cbn [forallb]. rewrite (IH x (Hk x (or_introl eq_refl))). apply IHr. intros c Hc. apply Hk. right. exact Hc.
  Qed.

  (* a block with an Unparsed entry is a paragraph or a heading *)
  Lemma PRE_unparsed_PH b : PRE b -> hasUnparsed b = true -> isPH (bkind b) = true.
  Proof.
    intros HP Hu. destruct (isPH (bkind b)) eqn:E; [reflexivity|]. unfold hasUnparsed in Hu. rewrite (PRE_noU b HP E) in Hu. discriminate.
  Qed.

  Lemma entB_rewriteB src m : forall fuel b, PRE b -> entB (rewriteB fuel src m b) = true.
  Proof.
    induction fuel as [|f IH]; intros b HP; [apply entB_pre, HP|]. cbn [rewriteB].
    destruct ((0 <? len (bik b)) && hasUnparsed b) eqn:Ec.
    - apply andb_true_iff in Ec. destruct Ec as [_ Eu]. pose proof (PRE_unparsed_PH b HP Eu) as Hph.
      pose proof (entB_pre b HP) as H0. rewrite entB_eq in H0 |- *. apply andb_true_iff in H0. destruct H0 as [_ H0].
      replace (bkind (set_bik b (parseInlines src m b))) with (bkind b) by (destruct b; reflexivity).
      replace (bkids (set_bik b (parseInlines src m b))) with (bkids b) by (destruct b; reflexivity). rewrite Hph, H0. reflexivity.
    - pose proof (entB_pre b HP) as H0. rewrite entB_eq in H0 |- *. apply andb_true_iff in H0. destruct H0 as [H0 _].
      replace (bkind (set_bkids b (map (rewriteB f src m) (bkids b)))) with (bkind b) by (destruct b; reflexivity).
      replace (bik (set_bkids b (map (rewriteB f src m) (bkids b)))) with (bik b) by (destruct b; reflexivity).
      replace (bkids (set_bkids b (map (rewriteB f src m) (bkids b)))) with (map (rewriteB f src m) (bkids b)) by (destruct b; reflexivity).
      rewrite H0. cbn [andb]. rewrite forallb_map. apply forallb_forall. intros c Hc. apply IH. eapply PRE_kids; eassumption.
  Qed.

  (* a container block has no entries, also after the inline pass *)
  Lemma ce_rewriteB src m : forall fuel b, PRE b -> GIB.ce (rewriteB fuel src m b) = true.
  Proof.
    induction fuel as [|f IH]; intros b HP; [apply HP|]. cbn [rewriteB]. pose proof HP as (_ & _ & A3 & _).
    destruct ((0 <? len (bik b)) && hasUnparsed b) eqn:Ec.
    - apply andb_true_iff in Ec. destruct Ec as [El _]. apply GIB.ce_set_bik; [exact A3|]. apply GIB.ce_parts in A3. destruct A3 as [A3 _].
      unfold GIB.ceK in *. destruct (negb (GIB.isContK (bkind b))); [reflexivity|]. cbn [orb] in *. destruct (bik b); [unfold len in El; cbn in El; discriminate|discriminate].
    - apply GIB.ce_set_bkids; [exact A3|]. unfold GIB.ceL. rewrite forallb_map. apply forallb_forall. intros c Hc. apply IH. eapply PRE_kids; eassumption.
  Qed.
End Pre.
