From Coq Require Import List ZArith Lia Bool.
Import ListNotations.
Require Import Base Tree Rdr Link Collect Html Recog LP Rules Starts Driver L2Kind L2CC BSDef BSRdr BSTree BSOcp BSOrph BSClose BSLine1 BSLine2 BSLine3 BSShift
  GramTree ShDef ShRdr ShClose.
Require Import ShapesBase EntBase EntOcpDefs EntOcp EntTree BndDefs BndBDefs.
Open Scope Z_scope.

(* ================================================================== *)
(* BndB1: the predicate gB g on block trees and the tree operations of *)
(* the block layer; closing a block, given what onCloseParagraph does  *)
(* (OcpG, proved separately).                                          *)
(* ================================================================== *)

Section Tree.
  Variable g : Z -> bool.
  Notation gB := (gB g).
  Notation gL := (gL g).
  Notation gI := (gI g).

  Lemma gB_set_bend b v : gB b = true -> g v = true -> gB (set_bend b v) = true.
  Proof. intros H Hv. destruct (gB_parts g b H) as (A & _ & C & D). destruct b. cbn in *. rewrite A, Hv, C, D. reflexivity. Qed.
  Lemma gB_set_bstart b v : gB b = true -> g v = true -> gB (set_bstart b v) = true.
  Proof. intros H Hv. destruct (gB_parts g b H) as (_ & A & C & D). destruct b. cbn in *. rewrite A, Hv, C, D. reflexivity. Qed.
  Lemma gB_set_bn b v : gB (set_bn b v) = gB b. Proof. destruct b; reflexivity. Qed.
  Lemma gB_set_bchar b v : gB (set_bchar b v) = gB b. Proof. destruct b; reflexivity. Qed.
  Lemma gB_set_bindent b v : gB (set_bindent b v) = gB b. Proof. destruct b; reflexivity. Qed.
  Lemma gB_set_bloose b v : gB (set_bloose b v) = gB b. Proof. destruct b; reflexivity. Qed.
  Lemma gB_set_blast b v : gB (set_blast b v) = gB b. Proof. destruct b; reflexivity. Qed.
  Lemma gB_set_bkind b v : gB (set_bkind b v) = gB b. Proof. destruct b; reflexivity. Qed.
  Lemma gB_set_bkids b ks : gB b = true -> gL ks = true -> gB (set_bkids b ks) = true.
  Proof. intros H Hk. destruct (gB_parts g b H) as (A & B & _ & D). destruct b. unfold BndBDefs.gL in *. cbn in *. rewrite A, B, D, Hk. reflexivity. Qed.
  Lemma gB_set_bik b ik : gB b = true -> forallb gI ik = true -> gB (set_bik b ik) = true.
  Proof. intros H Hk. destruct (gB_parts g b H) as (A & B & C & _). destruct b. unfold BndBDefs.gL in *. cbn in *. rewrite A, B, C, Hk. reflexivity. Qed.
  Lemma gB_add_ik b u : gB b = true -> gI u = true -> gB (set_bik b (bik b ++ [u])) = true.
  Proof.
    intros H Hu. apply gB_set_bik; [exact H|]. destruct (gB_parts g b H) as (_ & _ & _ & D). rewrite forallb_app, D. cbn. rewrite Hu. reflexivity.
  Qed.
  Lemma gB_sub_ik b ik : gB b = true -> (forall x, In x ik -> In x (bik b)) -> gB (set_bik b ik) = true.
  Proof.
    intros H Hs. apply gB_set_bik; [exact H|]. destruct (gB_parts g b H) as (_ & _ & _ & D). eapply forallb_sub; eassumption.
  Qed.
  Lemma gL_app a b : gL (a ++ b) = gL a && gL b. Proof. apply forallb_app. Qed.
  Lemma gL_removelast l : gL l = true -> gL (removelast l) = true.
  Proof. apply forallb_sub. intros x. apply removelast_In. Qed.
  Lemma gB_lastBlock b c : gB b = true -> lastBlock b = Some c -> gB c = true.
  Proof.
    intros H Hl. destruct (gB_parts g b H) as (_ & _ & C & _). unfold BndBDefs.gL in C. rewrite forallb_forall in C. apply C. eapply lastBlock_In. exact Hl.
  Qed.
  Lemma gB_getAt : forall d b x, gB b = true -> getAt d b = Some x -> gB x = true.
  Proof.
    induction d as [|d IH]; intros b x H E; [cbn in E; inversion E; subst; exact H|]. cbn [getAt] in E.
    destruct (lastBlock b) as [c|] eqn:El; [|discriminate]. eapply IH; [eapply gB_lastBlock; eassumption|exact E].
  Qed.
  Lemma gB_set_lastBlocks b repl : gB b = true -> gL repl = true -> gB (set_lastBlocks b repl) = true.
  Proof.
    intros H Hr. unfold set_lastBlocks. apply gB_set_bkids; [exact H|]. rewrite gL_app, Hr, andb_true_r. apply gL_removelast.
    destruct (gB_parts g b H) as (_ & _ & C & _). exact C.
  Qed.
  Lemma gB_updAt f : (forall b, gB b = true -> gB (f b) = true) -> forall d b, gB b = true -> gB (updAt d f b) = true.
  Proof.
    intros Hf. induction d as [|d IH]; intros b H; [apply Hf; exact H|]. cbn [updAt].
    destruct (lastBlock b) as [c|] eqn:El; [|exact H].
    apply gB_set_lastBlocks; [exact H|]. unfold BndBDefs.gL. cbn [forallb]. rewrite andb_true_r. apply IH. eapply gB_lastBlock; eassumption.
  Qed.
  Lemma gB_updAt_at f : forall d b, gB b = true -> (forall x, getAt d b = Some x -> gB x = true -> gB (f x) = true) -> gB (updAt d f b) = true.
  Proof.
    induction d as [|d IH]; intros b H Hf; [apply Hf; [reflexivity|exact H]|]. cbn [updAt].
    destruct (lastBlock b) as [c|] eqn:El; [|exact H].
    apply gB_set_lastBlocks; [exact H|]. unfold BndBDefs.gL. cbn [forallb]. rewrite andb_true_r.
    apply IH; [eapply gB_lastBlock; eassumption|]. intros x Hx. apply Hf. cbn [getAt]. rewrite El. exact Hx.
  Qed.
  Lemma gB_append x y : gB x = true -> gB y = true -> gB (appendB y x) = true.
  Proof.
    intros Hx Hy. unfold appendB. apply gB_set_bkids; [exact Hx|]. rewrite gL_app. destruct (gB_parts g x Hx) as (_ & _ & C & _). rewrite C. cbn. rewrite Hy. reflexivity.
  Qed.
  Lemma gB_newBlock K s : g s = true -> g (-1) = true -> gB (newBlock K s) = true.
  Proof. intros A B. unfold newBlock. cbn. rewrite A, B. reflexivity. Qed.

  Lemma gB_onCloseIndented src b : gB b = true -> gB (onCloseIndented src b) = true.
  Proof.
    intros H. unfold onCloseIndented. apply gB_sub_ik; [exact H|]. intros x Hx.
    apply in_rev in Hx. apply trimBlankTail_sub in Hx. apply in_rev in Hx.
    destruct (rev (bik b)) as [|lst [|prev r]] eqn:Er; try exact Hx.
    destruct (_ && _ && _ && _); [|exact Hx].
    apply in_rev in Hx. apply in_rev. rewrite Er. right. exact Hx.
  Qed.
  Lemma gB_onCloseList b : gB b = true -> gB (onCloseList b) = true.
  Proof.
    intros H. unfold onCloseList. cbv zeta. destruct (bloose b || _); [|exact H].
    apply gB_set_bkids; [rewrite gB_set_bloose; exact H|].
    destruct (gB_parts g b H) as (_ & _ & C & _). unfold BndBDefs.gL in *. rewrite forallb_forall in *.
    intros x Hx. apply in_map_iff in Hx. destruct Hx as (y & <- & Hy). rewrite gB_set_bloose. apply C, Hy.
  Qed.
End Tree.

(* what the extraction of link reference definitions from a closed paragraph has to provide *)
Definition OcpG (B : bytes) : Prop := forall H E orig,
  0 <= H <= len B -> gdb B H = true -> lines (upto B H) E (bik orig) -> E <= H ->
  (forall u, In u (bik orig) -> bstart orig <= istart u) -> gB (gdb B) orig = true ->
  gL (gdb B) (ocpRun (upto B H) orig) = true.

Section Close.
  Variable B : bytes.
  Hypothesis Hocp : OcpG B.
  Notation g := (gdb B).

  Lemma gB_closeBlock M H src e : src = upto B H -> H <= len B -> 0 <= e <= H -> M <= e -> bdy B e -> bdy B H ->
    g e = true -> g H = true ->
    forall fuel b, en B M b -> gB g b = true -> gL g (closeBlock fuel src b e) = true.
  Proof.
    intros Esrc HB He HM Hbe HbH Hge HgH. induction fuel as [|f IH]; intros b Hb Hg; [cbn; rewrite Hg; reflexivity|].
    cbn [closeBlock]. destruct (isOpen b) eqn:Eo; cbn [negb]; [|cbn; rewrite Hg; reflexivity].
    unfold isOpen in Eo. apply Z.ltb_lt in Eo. cbv zeta.
    pose proof (en_set_bend_close B M b e Hb Eo HM ltac:(lia) Hbe) as Hb1.
    assert (Hg1 : gB g (set_bend b e) = true) by (apply gB_set_bend; assumption).
    assert (Hcl : forall x, en B M x -> gB g x = true ->
              gB g (match lastBlock x with Some c => set_lastBlocks x (closeBlock f src c e) | None => x end) = true).
    { intros x Hx Hgx. destruct (lastBlock x) as [c|] eqn:El; [|exact Hgx].
      apply gB_set_lastBlocks; [exact Hgx|]. apply IH; [eapply en_lastBlock; eassumption|eapply gB_lastBlock; eassumption]. }
    rewrite bkind_set_bend.
    destruct (Z.eqb_spec (bkind b) ListKind) as [EL|NL].
    { unfold gL. cbn [forallb]. rewrite andb_true_r. apply Hcl; [apply en_onCloseList, Hb1|apply gB_onCloseList, Hg1]. }
    destruct (Z.eqb_spec (bkind b) IndentedCodeBlockKind) as [EI|NI].
    { unfold gL. cbn [forallb]. rewrite andb_true_r. apply Hcl; [|apply gB_onCloseIndented, Hg1].
      assert (Hfk : freeK (bkind (set_bend b e))) by (rewrite bkind_set_bend, EI; repeat split; discriminate).
      assert (Hnl : bkind (set_bend b e) <> LinkReferenceDefinitionKind) by (rewrite bkind_set_bend, EI; discriminate).
      pose proof (en_noU B M _ Hb1 Hfk Hnl) as HnU.
      assert (Eq : onCloseIndented src (set_bend b e) = set_bik (set_bend b e) (bik (onCloseIndented src (set_bend b e)))).
      { unfold onCloseIndented. cbv zeta. rewrite bik_set_bik'. reflexivity. }
      rewrite Eq. apply en_set_bik_free; [exact Hfk| |exact Hb1].
      intros _. eapply noU_incl; [|exact HnU]. intros u. apply onCloseIndented_incl. }
    destruct ((bkind b =? ParagraphKind) || (bkind b =? SetextHeadingKind)) eqn:Ep.
    2:{ unfold gL. cbn [forallb]. rewrite andb_true_r. apply Hcl; assumption. }
    pose proof Hb as Hb'. rewrite en_eq in Hb'. destruct Hb' as ((A & _ & A2 & _) & C).
    assert (HK : bkind b = ParagraphKind).
    { apply orb_true_iff in Ep. destruct Ep as [Ep|Ep]; apply Z.eqb_eq in Ep; [exact Ep|]. exfalso. apply (A2 Eo). exact Ep. }
    destruct (A (or_introl HK)) as (L1 & L2 & L3). rewrite bound_open in L1 by exact Eo.
    rewrite onCloseParagraph_run by (rewrite bkind_set_bend, HK; discriminate).
    assert (Hlen : len src = H) by (rewrite Esrc, ShapesBase.len_upto; lia).
    assert (Hls : lines src e (bik (set_bend b e))).
    { rewrite bik_set_bend. apply (lines_agree B src H e); [rewrite Esrc; apply agreeTo_upto, HB|lia|exact Hlen|exact HB|].
      apply (lines_mono B M e HM), L1. }
    rewrite Esrc in *. apply (Hocp H e (set_bend b e)); [lia|exact HgH|exact Hls|lia| |exact Hg1].
    rewrite bik_set_bend, bstart_set_bend. exact L2.
  Qed.
End Close.
