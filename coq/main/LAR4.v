From Coq Require Import List ZArith Lia Bool.
Import ListNotations.
Require Import Base Tree Rdr Link Collect LP Rec17 Rec18 BSRdr LADef LA1 LA2 LARec LAR1.
Open Scope Z_scope.

(* ===== the fuel of the reader is enough: a potential that every successful step decreases =====
   2 units per byte still ahead; an Indent entry (one byte) costs up to 3 virtual steps and one real one, paid for by the
   byte itself and by the first byte of the text entry that follows it. *)
Section Mu.
  Variable src : bytes.
  Variable ik : list inline.
  Hypothesis He : ENT src ik.
  Hypothesis Hio : indOK ik.

  Definition muZ (r : reader) : Z :=
    match fst (curNode r) with
    | None => 0
    | Some u => if ikind u =? IndentKind then 2 * (len src - r_pos r) + Z.max 0 (iindent u - r_vpos r)
                else 2 * (len src - r_pos r) + (if r_pos r =? istart u then 1 else 2)
    end.
  Definition mu (r : reader) : nat := Z.to_nat (muZ r).

  Lemma muZ_In r u t : InS src ik r u t -> muZ r =
    if ikind u =? IndentKind then 2 * (len src - r_pos r) + Z.max 0 (iindent u - r_vpos r)
    else 2 * (len src - r_pos r) + (if r_pos r =? istart u then 1 else 2).
  Proof. intros Hi. unfold muZ. rewrite (curNode_In src ik r u t He Hi). reflexivity. Qed.
  Lemma muZ_Out r : OutS src ik r -> muZ r = 0.
  Proof. intros Ho. unfold muZ. rewrite (curNode_Out src ik r Ho). reflexivity. Qed.

  Lemma In_ent r u t : InS src ik r u t -> In u ik /\ entOK src u.
  Proof.
    intros (_ & (p1 & p2 & Ei & _) & _). assert (Hu : In u ik) by (rewrite Ei; apply in_or_app; right; apply in_or_app; right; left; reflexivity).
    split; [exact Hu|]. destruct He as [Hf _]. rewrite Forall_forall in Hf. apply Hf, Hu.
  Qed.

  Lemma mu_current r : (exists u t, InS src ik r u t) \/ OutS src ik r -> mu (snd (current r)) = mu r.
  Proof.
    intros [(u & t & Hi)|Ho].
    - destruct (current_In src ik r u t He Hi) as (c & Ec & _). rewrite Ec. cbn [snd]. unfold mu. f_equal.
      rewrite (muZ_In _ u t (InS_norm src ik r u t Hi)), (muZ_In r u t Hi). reflexivity.
    - destruct (current_Out src ik r Ho) as (c & Ec). rewrite Ec. reflexivity.
  Qed.


  (* one step, with the virtual position *)
  Lemma next_v r u t : InS src ik r u t -> fst (next r) = true ->
    (ikind u = IndentKind /\ r_vpos r < iindent u /\ InS src ik (snd (next r)) u t /\ r_pos (snd (next r)) = r_pos r /\ r_vpos (snd (next r)) = r_vpos r + 1) \/
    (ikind u <> IndentKind /\ InS src ik (snd (next r)) u t /\ r_pos (snd (next r)) = r_pos r + 1) \/
    (exists u2 t2, t = u2 :: t2 /\ InS src ik (snd (next r)) u2 t2 /\ r_pos (snd (next r)) = istart u2 /\ r_pos r + 1 = iend u /\ iend u <= istart u2 /\
       r_vpos (snd (next r)) = computeNullVirtualPosition src (istart u2) /\ (ikind u = IndentKind -> iindent u <= r_vpos r)).
  Proof.
    intros Hi Hok. pose proof (next_In src ik r u t He Hi) as HN. pose proof (curNode_In src ik r u t He Hi) as Ec.
    destruct HN as [[_ (Hprev & Hcase)]|(Eok & _)]; [|rewrite Hok in Eok; discriminate].
    assert (Es : r_src r = src) by (destruct Hi as (Es & _); exact Es).
    unfold next in *. rewrite Ec in *. cbn [r_src r_spans r_pos r_vpos r_prev] in *.
    destruct ((ikind u =? IndentKind) && (r_vpos r <? iindent u)) eqn:E1.
    { cbn [fst snd] in *. apply andb_true_iff in E1. destruct E1 as [E1 E1']. apply Z.eqb_eq in E1. apply Z.ltb_lt in E1'. left.
      split; [exact E1|]. split; [exact E1'|]. cbn [r_pos r_vpos] in *. split; [|split; reflexivity].
      destruct Hcase as [(H1 & _)|(u2 & t2 & _ & H2 & _ & Ep & Eend & Esrt)]; [exact H1|]. exfalso. cbn [r_pos] in *. lia. }
    destruct (negb (ikind u =? IndentKind) && (r_pos r + 1 <? iend u)) eqn:E2.
    { cbn [fst snd] in *. apply andb_true_iff in E2. destruct E2 as [E2 E2']. apply negb_true_iff, Z.eqb_neq in E2. apply Z.ltb_lt in E2'. right. left.
      split; [exact E2|]. cbn [r_pos] in *. split; [|reflexivity].
      destruct Hcase as [(H1 & _)|(u2 & t2 & _ & H2 & _ & Ep & Eend & Esrt)]; [exact H1|]. exfalso. cbn [r_pos] in *. lia. }
    cbn [tl] in *. destruct t as [|u2 t2]; [cbn [nextSpan fst] in Hok; discriminate Hok|].
    assert (He' : ENT src (u :: u2 :: t2)).
    { destruct Hi as (_ & (p1 & p2 & Ei & _) & _). pose proof He as He2. rewrite Ei in He2. apply ENT_app in He2. apply ENT_app in He2. exact He2. }
    pose proof (ENT_kind src (u :: u2 :: t2) u2 He' ltac:(right; left; reflexivity)) as Hk2.
    cbn [nextSpan] in *. rewrite Hk2 in *. cbn [fst snd] in *. right. right. cbn [r_pos r_vpos] in *.
    assert (Hsrt : iend u <= istart u2) by (destruct He' as [_ [Hs' _]]; apply Hs'; left; reflexivity).
    destruct (In_ent r u (u2 :: t2) Hi) as (_ & (U1 & U2 & U3 & U4)).
    assert (Hend : iend u <= r_pos r + 1).
    { destruct U4 as [(K1 & K2 & _)|(K1 & _)]; [destruct Hi as (_ & _ & Hp & _); lia|]. rewrite K1 in E2. change (UnparsedKind =? IndentKind) with false in E2. cbn [negb andb] in E2. apply Z.ltb_ge in E2. lia. }
    destruct Hcase as [(H1 & _ & Hs)|(u2' & t2' & Et & H2 & Esp & Ep & Eend & Esrt)].
    { exfalso. destruct H1 as (_ & _ & Hp & _). cbn [r_pos] in *. destruct Hs as [[Hs _]|Hs]; lia. }
    inversion Et; subst u2' t2'. exists u2, t2. split; [reflexivity|]. split; [exact H2|]. split; [exact Ep|]. split; [exact Eend|]. split; [exact Esrt|].
    split; [rewrite Es; reflexivity|].
    intros Ek. rewrite Ek, Z.eqb_refl in E1. cbn [andb] in E1. apply Z.ltb_ge in E1. exact E1.
  Qed.

  Lemma indOK_pair a x y t : indOK (a ++ x :: y :: t) -> ikind x = IndentKind -> ikind y <> IndentKind.
  Proof. intros H. apply indOK_suffix in H. cbn [indOK] in H. destruct H as [H _]. exact H. Qed.

  Lemma mu_next r : (exists u t, InS src ik r u t) \/ OutS src ik r -> fst (next r) = true -> (mu (snd (next r)) < mu r)%nat.
  Proof.
    intros [(u & t & Hi)|Ho] Hok; [|rewrite (next_Out src ik r Ho) in Hok; discriminate Hok].
    destruct (In_ent r u t Hi) as (Hu & (U1 & U2 & U3 & U4)).
    assert (Hp : istart u <= r_pos r < iend u /\ 0 <= r_vpos r) by (destruct Hi as (_ & _ & Hp); exact Hp).
    unfold mu. rewrite (muZ_In r u t Hi).
    destruct (next_v r u t Hi Hok) as [(Ek & Hv & Hi' & Ep' & Ev')|[(Nk & Hi' & Ep')|(u2 & t2 & Et & Hi' & Ep' & Eend & Esrt & Ev' & Hfull)]].
    - rewrite (muZ_In _ u t Hi'). rewrite Ek, Z.eqb_refl, Ep', Ev'. lia.
    - rewrite (muZ_In _ u t Hi'). replace (ikind u =? IndentKind) with false by (symmetry; apply Z.eqb_neq; exact Nk). rewrite Ep'.
      destruct (Z.eqb_spec (r_pos r + 1) (istart u)); [lia|]. destruct (r_pos r =? istart u); lia.
    - rewrite (muZ_In _ u2 t2 Hi'). destruct (In_ent _ u2 t2 Hi') as (Hu2 & (V1 & V2 & V3 & V4)). rewrite Ep', Ev', Z.eqb_refl.
      assert (Hpair : ikind u = IndentKind -> ikind u2 <> IndentKind).
      { destruct Hi as (_ & (p1 & p2 & Ei & _) & _). subst t. rewrite Ei in Hio. rewrite app_assoc in Hio. apply (indOK_pair _ _ _ _ Hio). }
      destruct (Z.eqb_spec (ikind u2) IndentKind) as [Ek2|Nk2].
      + (* onto an Indent entry: its byte is not NUL, so the virtual position starts at 0 *)
        destruct V4 as [(_ & K2 & K3 & K4)|(K1 & _)]; [|rewrite Ek2 in K1; discriminate K1].
        assert (Ecn : computeNullVirtualPosition src (istart u2) = 0).
        { unfold computeNullVirtualPosition. specialize (K3 (istart u2) ltac:(lia)). unfold tx in K3. apply orb_false_iff in K3. destruct K3 as [_ K3]. rewrite K3. cbn [negb]. rewrite orb_true_r. reflexivity. }
        rewrite Ecn. destruct (Z.eqb_spec (ikind u) IndentKind) as [Ek|Nk]; [exfalso; exact (Hpair Ek Ek2)|].
        destruct U4 as [(K1' & _)|(K1' & (L1 & L2 & L3 & L4))]; [contradiction|].
        assert (Hne : r_pos r <> istart u).
        { intros E. destruct L4 as [L4|L4]; [lia|]. replace (iend u - 1) with (istart u) in L4 by lia. rewrite L4 in L2. discriminate L2. }
        destruct (Z.eqb_spec (r_pos r) (istart u)); [contradiction|]. lia.
      + destruct (Z.eqb_spec (ikind u) IndentKind) as [Ek|Nk]; [specialize (Hfull Ek); lia|]. destruct (r_pos r =? istart u); lia.
  Qed.

  Lemma mu_fuel r : (exists u t, InS src ik r u t) \/ OutS src ik r -> (mu r < 2 * length src + 10)%nat.
  Proof.
    intros [(u & t & Hi)|Ho]; unfold mu; [|rewrite (muZ_Out r Ho); cbn; lia].
    destruct (In_ent r u t Hi) as (Hu & (U1 & U2 & U3 & U4)).
    assert (Hp : istart u <= r_pos r < iend u /\ 0 <= r_vpos r) by (destruct Hi as (_ & _ & Hp); exact Hp).
    rewrite (muZ_In r u t Hi). unfold len in *.
    destruct (Z.eqb_spec (ikind u) IndentKind) as [Ek|Nk].
    - destruct U4 as [(_ & _ & _ & K4)|(K1 & _)]; [lia|rewrite Ek in K1; discriminate K1].
    - destruct (r_pos r =? istart u); lia.
  Qed.
End Mu.
