(* ChkF7.v -- T30 follow-up: ChkW8.entryBounds holds for EVERY input.
   Per block kind the positions of the Unparsed / RawHTML / Indent entries are bounded by
     - Paragraph, SetextHeading : T28 (EntDrv.parseBlocks_okRE: the entries are the lines of the block, EntBase.lines_entry),
     - LinkReferenceDefinition  : no such entry (GramBlocks.parseBlocks_gb: label, destination, title),
     - every other kind         : ChkF6.parseBlocks_FbX (entries start at or after the block start, end at or before its end),
   and the block spans lie within the text by BlockShapes.parseBlocks_block_shapes_prefill_partial. *)
From Coq Require Import List ZArith Lia Bool.
Import ListNotations.
Require Import Base Tables Utf8 Tree Rdr Link Collect Html Recog LP Rules Starts Driver Render
  L2Kind2 ShapesBase BSTree BShDef ShDef BlockShapes GramDefs GramTree GramBlocks
  EntBase EntTree EntDrv
  C17chk ChkB ChkW1 ChkW7 ChkW8 ChkE1 ChkE6 ChkF1 ChkF6.
Open Scope Z_scope.

Lemma refIk_free ik : refIk ik = true -> forallb ChkW1.freeK ik = true.
Proof.
  assert (HL : forall u, ikind u = LinkLabelKind -> ChkW1.freeK u = true) by (intros u E; unfold ChkW1.freeK; rewrite E; reflexivity).
  assert (HD : forall u, ikind u = LinkDestinationKind -> ChkW1.freeK u = true) by (intros u E; unfold ChkW1.freeK; rewrite E; reflexivity).
  assert (HT : forall u, ikind u = LinkTitleKind -> ChkW1.freeK u = true) by (intros u E; unfold ChkW1.freeK; rewrite E; reflexivity).
  destruct ik as [|l [|d [|t [|x r]]]]; try discriminate; cbn [refIk forallb]; intros H.
  - apply andb_true_iff in H. destruct H as [A B]. apply Z.eqb_eq in A, B. rewrite (HL _ A), (HD _ B). reflexivity.
  - apply andb_true_iff in H. destruct H as [H C]. apply andb_true_iff in H. destruct H as [A B]. apply Z.eqb_eq in A, B, C.
    rewrite (HL _ A), (HD _ B), (HT _ C). reflexivity.
Qed.

Lemma bndsB_all M U B M' pre : forall b, Fb M U b = true -> gb b = true -> en B M' b -> bshapes pre b = true -> bndsB (len pre) b = true.
Proof.
  fix IH 1. intros b HF Hg He Hs. destruct (bshapes_span pre b Hs) as (S1 & S2 & S3 & S4).
  apply Fb_parts in HF. destruct HF as (A & C). apply gb_parts in Hg. destruct Hg as (G1 & G2).
  apply en_eq in He. destruct He as (E1 & E2).
  rewrite bndsB_eq. apply andb_true_iff. split.
  - destruct (exK (bkind b)) eqn:Ex.
    + unfold exK in Ex. apply orb_true_iff in Ex. destruct Ex as [Ex|Ex].
      * assert (HPS : isPS (bkind b)) by (apply orb_true_iff in Ex; destruct Ex as [Ex|Ex]; apply Z.eqb_eq in Ex; [left|right]; exact Ex).
        destruct E1 as (E1 & _). destruct (E1 HPS) as (Hl & _). rewrite (bound_closed M' (bend b)) in Hl by lia.
        apply forallb_forall. intros u Hu. destruct (lines_entry B (bend b) (bik b) u Hl Hu) as (L1 & L2 & L3 & _).
        apply orb_true_iff. right. unfold ebnd. apply andb_true_iff. split; [apply Z.leb_le; lia|].
        apply orb_true_iff. right. apply Z.leb_le. lia.
      * apply Z.eqb_eq in Ex. unfold gbLoc, gbLocK in G1. rewrite Ex in G1.
        change (LinkReferenceDefinitionKind =? ListItemKind) with false in G1.
        change ((LinkReferenceDefinitionKind =? ListMarkerKind) || (LinkReferenceDefinitionKind =? ThematicBreakKind)) with false in G1.
        change (LinkReferenceDefinitionKind =? LinkReferenceDefinitionKind) with true in G1. cbv iota in G1.
        apply andb_true_iff in G1. destruct G1 as [_ G1]. pose proof (refIk_free _ G1) as Hf.
        rewrite forallb_forall in *. intros u Hu. rewrite (Hf u Hu). reflexivity.
    + destruct (floc_nex M U b Ex A) as [A1 A2].
      rewrite forallb_forall in *. intros u Hu. specialize (A2 u Hu). unfold eb in A2. rewrite cons3_freeK, negb_involutive in A2.
      destruct (ChkW1.freeK u); [reflexivity|]. cbn [orb] in *. apply andb_true_iff in A2. destruct A2 as [B1 B2]. apply Z.leb_le in B1.
      replace (bend b <? 0) with false in B2 by (symmetry; apply Z.ltb_ge; lia). apply Z.leb_le in B2.
      unfold ebnd. apply andb_true_iff. split; [apply Z.leb_le; lia|]. apply orb_true_iff. right. apply Z.leb_le. lia.
  - destruct b as [K s e bk ik a n c l lb]. cbn [bkids] in *. unfold FbL, gbL in *. clear -IH C S4 G2 E2.
    induction bk as [|x r IHr]; [reflexivity|]. cbn [forallb] in *. apply andb_true_iff in C. destruct C as [C1 C2].
    apply andb_true_iff in S4. destruct S4 as [T1 T2]. apply andb_true_iff in G2. destruct G2 as [G3 G4]. destruct E2 as [E3 E4].
    rewrite (IH x C1 G3 E3 T1). apply IHr; assumption.
Qed.

Theorem entryBounds_all : forall input, entryBounds input = true.
Proof.
  intros input. unfold entryBounds.
  pose proof (parseBlocks_FbX input) as HF. pose proof (parseBlocks_gb input) as HG. pose proof (parseBlocks_okRE input) as HE.
  pose proof (parseBlocks_block_shapes_prefill_partial input) as HS.
  apply forallb_forall. intros r Hr. rewrite Forall_forall in HF, HG, HE, HS.
  destruct (HF r Hr) as (M & U & Hf). destruct (HE r Hr) as (B & M' & _ & _ & Hen & _). destruct (HS r Hr) as (pre & _ & Es & Hsh).
  rewrite Es. unfold fillNulls. rewrite len_fill. apply (bndsB_all M U B M' pre); [exact Hf|apply (HG r Hr)|exact Hen|exact Hsh].
Qed.
Print Assumptions entryBounds_all.
